// `harness rabuf <opsfile> <workdir> [--timeout s]`: drives a real rabuf::BufFile (the feature set
// abyssiniandb enables, by feature unification) on one file, one operation per line, and prints one
// canonical line per operation.  The counterpart is `driver rabuf <opsfile>` (model Cache.v).
//
// The operations run in a child process (`rabuf-inner`): the known defect of the dependency
// (add_chunk recursing for ever with a single pinned chunk) overflows the stack, which aborts the
// process.  The parent relays the child's lines and adds `crash` when the child died, so that the
// caller always gets a clean line stream.  Inside the child every operation runs under
// catch_unwind and a watchdog (`hang`, exit code 3).  After `panic` or `err:*` the child stops:
// the state of the object after an unwound or failed call is not specified - except `err:FileTooLarge`
// (a write or set_len refused by the file-size limit set with `limit <bytes>`), which is modelled.
use crate::{fnv, show, unhex};
use rabuf::{BufFile, FileSetLen, FileSync, SmallRead, SmallWrite};
use std::io::{BufRead, Read, Seek, SeekFrom, Write};
use std::panic::{catch_unwind, AssertUnwindSafe};
use std::path::PathBuf;
use std::sync::atomic::{AtomicU64, Ordering};
use std::sync::Arc;

struct St {
    path: PathBuf,
    bf: Option<BufFile>,
}

fn io_err(e: &std::io::Error) -> String {
    format!("err:{:?}", e.kind())
}
fn unit(r: std::io::Result<()>) -> String {
    match r {
        Ok(()) => "ok".into(),
        Err(e) => io_err(&e),
    }
}
fn data(r: std::io::Result<Vec<u8>>) -> String {
    match r {
        Ok(v) => show(&v),
        Err(e) => io_err(&e),
    }
}

impl St {
    fn file(&self) -> std::io::Result<std::fs::File> {
        std::fs::OpenOptions::new().read(true).write(true).create(true).truncate(false).open(&self.path)
    }
    fn exec(&mut self, line: &str) -> String {
        let t: Vec<&str> = line.split_whitespace().collect();
        let num = |i: usize| -> u64 { t[i].parse().unwrap() };
        if t[0] == "open" {
            self.bf = None; // Drop = flush
            let f = match self.file() {
                Ok(f) => f,
                Err(e) => return io_err(&e),
            };
            let r = match t[1] {
                "cap" => BufFile::with_capacity("t", f, num(2) as u32, num(3) as u16),
                "permille" => BufFile::with_per_mille("t", f, num(2) as u32, num(3) as u16),
                "auto" => BufFile::new("t", f),
                // the argument computation of key.rs/val.rs/htx.rs (a copy, for convenience)
                "size" => {
                    let n = ((num(2) as u32) / 131072).max(2);
                    BufFile::with_capacity("t", f, 131072, n.try_into().unwrap())
                }
                "pm" => BufFile::with_per_mille("t", f, 131072, num(2) as u16),
                _ => panic!("bad open"),
            };
            return match r {
                Ok(b) => {
                    self.bf = Some(b);
                    "ok".into()
                }
                Err(e) => io_err(&e),
            };
        }
        if t[0] == "limit" || t[0] == "unlimit" {
            // limit <bytes> / unlimit : the soft RLIMIT_FSIZE of this process (SIGXFSZ ignored): a write at or beyond the
            // limit fails with EFBIG after the part below it has been written; a growing set_len beyond it fails
            unsafe {
                crate::signal(crate::SIGXFSZ, crate::SIG_IGN);
                let mut cur = [0u64; 2];
                crate::getrlimit(crate::RLIMIT_FSIZE, &mut cur);
                let new = [if t[0] == "limit" { num(1) } else { cur[1] }, cur[1]];
                crate::setrlimit(crate::RLIMIT_FSIZE, &new);
            }
            return "ok".into();
        }
        if t[0] == "disk" {
            return match std::fs::read(&self.path) {
                Ok(b) => format!("{}:{:x}", b.len(), fnv(&b)),
                Err(_) => "0:1".into(),
            };
        }
        if t[0] == "close" {
            return if self.bf.take().is_some() { "ok".into() } else { "nohandle".into() };
        }
        let bf = match self.bf.as_mut() {
            Some(b) => b,
            None => return "nohandle".into(),
        };
        match t[0] {
            "seek" => {
                let sf = match t[1] {
                    "start" => SeekFrom::Start(num(2)),
                    "end" => SeekFrom::End(t[2].parse().unwrap()),
                    "cur" => SeekFrom::Current(t[2].parse().unwrap()),
                    _ => panic!("bad seek"),
                };
                match bf.seek(sf) {
                    Ok(p) => format!("{p}"),
                    Err(e) => io_err(&e),
                }
            }
            "read" => {
                let mut b = vec![0u8; num(1) as usize];
                data(bf.read_exact(&mut b).map(|_| b))
            }
            "readp" => {
                let mut b = vec![0u8; num(1) as usize];
                data(bf.read(&mut b).map(|k| b[..k].to_vec()))
            }
            "reads" => {
                let mut b = vec![0u8; num(1) as usize];
                data(bf.read_exact_small(&mut b).map(|_| b))
            }
            "readu" => match num(1) {
                1 => data(bf.read_u8().map(|v| v.to_le_bytes().to_vec())),
                2 => data(bf.read_u16_le().map(|v| v.to_le_bytes().to_vec())),
                4 => data(bf.read_u32_le().map(|v| v.to_le_bytes().to_vec())),
                8 => data(bf.read_u64_le().map(|v| v.to_le_bytes().to_vec())),
                _ => panic!("bad readu"),
            },
            "readm" => {
                let k = num(1) as usize;
                data(bf.read_max_8_bytes(k).map(|v| v.to_le_bytes()[..k].to_vec()))
            }
            "readms" => data(bf.read_exact_maybeslice(num(1) as usize).map(|m| m.to_vec())),
            "write" => unit(bf.write_all(&unhex(t[1]))),
            "writep" => match bf.write(&unhex(t[1])) {
                Ok(k) => format!("{k}"),
                Err(e) => io_err(&e),
            },
            "writes" => unit(bf.write_all_small(&unhex(t[1]))),
            "writeu" => {
                let b = unhex(t[1]);
                match b.len() {
                    1 => unit(bf.write_u8(b[0])),
                    2 => unit(bf.write_u16_le(u16::from_le_bytes(b[..].try_into().unwrap()))),
                    4 => unit(bf.write_u32_le(u32::from_le_bytes(b[..].try_into().unwrap()))),
                    8 => unit(bf.write_u64_le(u64::from_le_bytes(b[..].try_into().unwrap()))),
                    _ => panic!("bad writeu"),
                }
            }
            "write64" => {
                let b = unhex(t[1]);
                let v: Vec<u64> = b.chunks(8).map(|c| u64::from_le_bytes(c.try_into().unwrap())).collect();
                if v.len() % 2 == 0 && v.len() >= 2 {
                    let h = v.len() / 2;
                    unit(bf.write_u64_le_slice2(&v[..h], &v[h..]))
                } else {
                    unit(bf.write_u64_le_slice(&v))
                }
            }
            "writez" => unit(bf.write_zero(num(1) as u32)),
            "flush" => unit(bf.flush()),
            "syncall" => unit(bf.sync_all()),
            "syncdata" => unit(bf.sync_data()),
            "setlen" => unit(bf.set_len(num(1))),
            "prepare" => unit(bf.prepare(num(1))),
            "clear" => unit(bf.clear()),
            "fill" => unit(bf.read_fill_buffer()),
            _ => panic!("unknown rabuf op {}", t[0]),
        }
    }
}

fn inner(opsfile: &str, workdir: &str, timeout_s: u64) {
    std::panic::set_hook(Box::new(|_| {}));
    let rd = std::io::BufReader::new(std::fs::File::open(opsfile).expect("ops file"));
    std::fs::create_dir_all(workdir).unwrap();
    let path = PathBuf::from(workdir).join("file.bin");
    let _ = std::fs::remove_file(&path);
    let mut st = St { path, bf: None };
    let tick = Arc::new(AtomicU64::new(0));
    {
        let tick = tick.clone();
        std::thread::spawn(move || {
            let (mut last, mut same) = (0u64, 0u64);
            loop {
                std::thread::sleep(std::time::Duration::from_millis(250));
                let now = tick.load(Ordering::SeqCst);
                if now == u64::MAX {
                    return;
                }
                if now == last {
                    same += 1;
                    if same * 250 >= timeout_s * 1000 {
                        let o = std::io::stdout();
                        let mut o = o.lock();
                        let _ = writeln!(o, "hang");
                        let _ = o.flush();
                        std::process::exit(3);
                    }
                } else {
                    same = 0;
                    last = now;
                }
            }
        });
    }
    let out = std::io::stdout();
    let mut n = 0u64;
    for line in rd.lines() {
        let line = line.unwrap();
        let line = line.trim();
        if line.is_empty() || line.starts_with('#') {
            continue;
        }
        n += 1;
        tick.store(n, Ordering::SeqCst);
        let s = match catch_unwind(AssertUnwindSafe(|| st.exec(line))) {
            Ok(s) => s,
            Err(_) => "panic".to_string(),
        };
        // an EFBIG error (the file-size limit) leaves a specified state (Cache_fault.v): the run goes on
        let stop = s == "panic" || (s.starts_with("err") && s != "err:FileTooLarge");
        {
            let mut o = out.lock();
            writeln!(o, "{}", s).unwrap();
            o.flush().unwrap();
        }
        if stop {
            // do not run Drop on an object whose call was unwound
            std::mem::forget(st.bf.take());
            break;
        }
    }
    tick.store(u64::MAX, Ordering::SeqCst);
    st.bf = None;
}

pub fn main(cmd: &str, args: &[String]) {
    let mut timeout = 10u64;
    let mut i = 2;
    while i < args.len() {
        if args[i] == "--timeout" {
            timeout = args[i + 1].parse().unwrap();
            i += 2;
        } else {
            i += 1;
        }
    }
    if cmd == "rabuf-inner" {
        inner(&args[0], &args[1], timeout);
        return;
    }
    let exe = std::env::current_exe().expect("current_exe");
    let mut child = std::process::Command::new(exe)
        .arg("rabuf-inner")
        .args(args)
        .stdout(std::process::Stdio::piped())
        .stderr(std::process::Stdio::null())
        .spawn()
        .expect("spawn");
    let rd = std::io::BufReader::new(child.stdout.take().unwrap());
    let out = std::io::stdout();
    for line in rd.lines() {
        let mut o = out.lock();
        writeln!(o, "{}", line.unwrap()).unwrap();
        o.flush().unwrap();
    }
    let status = child.wait().expect("wait");
    match status.code() {
        Some(0) | Some(3) => {}
        _ => println!("crash"),
    }
}
