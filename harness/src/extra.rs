// Non-history commands: constants probe, sizing sweeps, conversions, hash vectors.
use super::{hex, unhex, MapH};
use abyssiniandb::{DbBytes, DbI64, DbString, DbU64, DbVu64, DbXxx, DbXxxObjectSafe};

fn res_unit(r: std::io::Result<()>) -> String {
    match r {
        Ok(()) => "ok".into(),
        Err(e) => format!("err:{:?}", e.kind()),
    }
}
fn res_opt(r: std::io::Result<Option<Vec<u8>>>) -> String {
    match r {
        Ok(Some(v)) => format!("some:{}", super::show(&v)),
        Ok(None) => "none".into(),
        Err(e) => format!("err:{:?}", e.kind()),
    }
}

/// integer addressed operations. the integer is passed through the crate's own
/// `From<&int>` conversion (get/has/del) or `From<int>` + `*_kt` (put) so both are exercised.
pub fn int_op(_kind: &str, h: &mut MapH, op: &str, int: &str, val: Option<&str>) -> String {
    match h {
        MapH::U64(m) => {
            let x: u64 = int.parse().unwrap();
            match op {
                "put@" => res_unit(m.put_kt(&DbU64::from(x), &unhex(val.unwrap()))),
                "get@" => res_opt(m.get::<u64>(&x)),
                "del@" => res_opt(m.delete::<u64>(&x)),
                _ => format!("{}", m.includes_key::<u64>(&x).unwrap()),
            }
        }
        MapH::Vu64(m) => {
            let x: u64 = int.parse().unwrap();
            match op {
                "put@" => res_unit(m.put_kt(&DbVu64::from(x), &unhex(val.unwrap()))),
                "get@" => res_opt(m.get::<u64>(&x)),
                "del@" => res_opt(m.delete::<u64>(&x)),
                _ => format!("{}", m.includes_key::<u64>(&x).unwrap()),
            }
        }
        MapH::I64(m) => {
            let x: i64 = int.parse().unwrap();
            match op {
                "put@" => res_unit(m.put_kt(&DbI64::from(x), &unhex(val.unwrap()))),
                "get@" => res_opt(m.get::<i64>(&x)),
                "del@" => res_opt(m.delete::<i64>(&x)),
                _ => format!("{}", m.includes_key::<i64>(&x).unwrap()),
            }
        }
        MapH::Str(m) => {
            let x: u64 = int.parse().unwrap();
            match op {
                "put@" => res_unit(m.put_kt(&DbString::from(x), &unhex(val.unwrap()))),
                "get@" => res_opt(m.get::<u64>(&x)),
                "del@" => res_opt(m.delete::<u64>(&x)),
                _ => format!("{}", m.includes_key::<u64>(&x).unwrap()),
            }
        }
        MapH::Bytes(m) => {
            let x: u64 = int.parse().unwrap();
            match op {
                "put@" => res_unit(m.put_kt(&DbBytes::from(x), &unhex(val.unwrap()))),
                "get@" => res_opt(m.get::<u64>(&x)),
                "del@" => res_opt(m.delete::<u64>(&x)),
                _ => format!("{}", m.includes_key::<u64>(&x).unwrap()),
            }
        }
    }
}

#[cfg(abyssiniandb_verif)]
pub fn drain_trace() -> String {
    let ev = abyssiniandb::filedb::verif_probe::drain_trace();
    let mut s = String::from("trace");
    for e in ev {
        s.push(' ');
        s.push_str(&e);
    }
    s
}
#[cfg(not(abyssiniandb_verif))]
pub fn drain_trace() -> String {
    "trace unavailable".into()
}

/// fine io-trace (one event per VarFile primitive): `iotrace on|off`, `iodrain`
#[cfg(abyssiniandb_verif)]
pub fn io_trace(arg: Option<&str>) -> String {
    match arg {
        Some(sw) => {
            abyssiniandb::filedb::verif_probe::io_trace_enable(sw == "on");
            "ok".into()
        }
        None => {
            let mut s = String::from("io");
            for e in abyssiniandb::filedb::verif_probe::drain_io_trace() {
                s.push(' ');
                s.push_str(&e);
            }
            s
        }
    }
}
#[cfg(not(abyssiniandb_verif))]
pub fn io_trace(_arg: Option<&str>) -> String {
    "io unavailable".into()
}

/// conversions: one line per integer: u64/i64/vu64 key bytes by value and by reference, and back
fn conv(args: &[String]) {
    use abyssiniandb::{DbMapKeyType, HashValue};
    use std::io::BufRead;
    let f = std::fs::File::open(&args[0]).expect("ints file");
    for line in std::io::BufReader::new(f).lines() {
        let line = line.unwrap();
        let t: Vec<&str> = line.split_whitespace().collect();
        if t.is_empty() {
            continue;
        }
        match t[0] {
            "u" => {
                let x: u64 = t[1].parse().unwrap();
                let a = DbU64::from(x);
                let b = DbU64::from(&x);
                let v = DbVu64::from(x);
                let w = DbVu64::from(&x);
                let sa = DbString::from(x);
                let sb = DbString::from(&x);
                let ba = DbBytes::from(x);
                let bb = DbBytes::from(&x);
                let back_a: u64 = u64::from(&a);
                let back_b: u64 = u64::from(b.clone());
                let back_v: u64 = u64::from(&v);
                let back_w: u64 = u64::from(w.clone());
                println!(
                    "u {} u64={} u64r={} back={} backv={} vu64={} vu64r={} vback={} vbackv={} str={} strr={} bytes={} bytesr={} hu={:x} hv={:x}",
                    x,
                    hex(&a), hex(&b), back_a, back_b,
                    hex(&v), hex(&w), back_v, back_w,
                    hex(&sa), hex(&sb), hex(&ba), hex(&bb),
                    a.hash_value(), v.hash_value()
                );
                let _ = (DbU64::signature(), DbVu64::signature());
            }
            "i" => {
                let x: i64 = t[1].parse().unwrap();
                let a = DbI64::from(x);
                let b = DbI64::from(&x);
                let back_a: i64 = i64::from(&a);
                let back_b: i64 = i64::from(b.clone());
                println!("i {} i64={} i64r={} back={} backv={} hi={:x}", x, hex(&a), hex(&b), back_a, back_b, a.hash_value());
            }
            "c" => {
                // c <type> <hexa> <hexb> : cmp_u8 of key a against stored bytes b
                let (a, b) = (unhex(t[2]), unhex(t[3]));
                let r = std::panic::catch_unwind(|| match t[1] {
                    "string" => DbString::from(a.as_slice()).cmp_u8(&b),
                    "bytes" => DbBytes::from(a.as_slice()).cmp_u8(&b),
                    "i64" => DbI64::from(a.as_slice()).cmp_u8(&b),
                    "u64" => DbU64::from(a.as_slice()).cmp_u8(&b),
                    "vu64" => DbVu64::from(a.as_slice()).cmp_u8(&b),
                    _ => panic!(),
                });
                match r {
                    Ok(o) => println!("c {} {} {} {:?}", t[1], t[2], t[3], o),
                    Err(_) => println!("c {} {} {} panic", t[1], t[2], t[3]),
                }
            }
            "h" => {
                // h <hexkey> : placement hash of a byte key (identical for all key types)
                let k = unhex(t[1]);
                let hs = DbString::from(k.as_slice()).hash_value();
                let hb = DbBytes::from(k.as_slice()).hash_value();
                let hi = DbI64::from(k.as_slice()).hash_value();
                let hu = DbU64::from(k.as_slice()).hash_value();
                let hv = DbVu64::from(k.as_slice()).hash_value();
                println!("h {} {:x} {:x} {:x} {:x} {:x}", t[1], hs, hb, hi, hu, hv);
            }
            _ => panic!("bad conv line"),
        }
    }
}

#[cfg(abyssiniandb_verif)]
fn probe(cmd: &str, args: &[String]) {
    use abyssiniandb::filedb::verif_probe as vp;
    match cmd {
        "consts" => print!("{}", vp::consts()),
        "sizing-val" => {
            // breakpoints of len -> (enc_piece_len, roundup) for len in 0..=max, printed as runs
            let max: u32 = args[0].parse().unwrap();
            let mut last: Option<(u32, u32)> = None; // (enc_piece_len, slot)
            let mut bad = 0u64;
            let mut minslack = u64::MAX;
            vp::value_sizing(max, &mut |len, epl, _pl, slot| {
                // direct oracle: real encoded length must fit the slot
                let real = vu64::encoded_len((slot / 8) as u64) as u64 + vu64::encoded_len(len as u64) as u64 + len as u64;
                if real > slot as u64 || slot % 8 != 0 {
                    bad += 1;
                    if bad < 20 {
                        println!("BAD len={} slot={} real={}", len, slot, real);
                    }
                } else if slot as u64 - real < minslack {
                    minslack = slot as u64 - real;
                }
                if last != Some((epl, slot)) {
                    println!("v {} {} {}", len, epl, slot);
                    last = Some((epl, slot));
                }
            });
            println!("end {} bad={} minslack={}", max, bad, minslack);
        }
        "sizing-key" => {
            // sizing-key <file>: lines "klen voff noff" -> "k klen voff noff epl pl slot"
            use std::io::BufRead;
            let f = std::fs::File::open(&args[0]).expect("file");
            for line in std::io::BufReader::new(f).lines() {
                let line = line.unwrap();
                let t: Vec<u64> = line.split_whitespace().map(|x| x.parse().unwrap()).collect();
                if t.len() < 3 {
                    continue;
                }
                let mut got = (0, 0, 0);
                vp::key_sizing(t[0] as u32, &[t[1], t[2]], &mut |vo, no, epl, pl, slot| {
                    if vo == t[1] && no == t[2] {
                        got = (epl, pl, slot);
                    }
                });
                println!("k {} {} {} {} {} {}", t[0], t[1], t[2], got.0, got.1, got.2);
            }
        }
        "sizing-key-sweep" => {
            // exhaustive klen 0..=max x representatives of every (voff,noff) varint width class.
            // direct oracle (real encoded length <= slot) plus a digest line per klen for the model diff.
            let max: u32 = args[0].parse().unwrap();
            let reps = offset_reps();
            let mut bad = 0u64;
            let mut n = 0u64;
            let mut minslack = u64::MAX;
            for klen in 0..=max {
                let mut line = format!("K {}", klen);
                let mut lastslot = 0u32;
                vp::key_sizing(klen, &reps, &mut |vo, no, _epl, _pl, slot| {
                    let real = vu64::encoded_len((slot / 8) as u64) as u64
                        + vu64::encoded_len(klen as u64) as u64
                        + klen as u64
                        + vu64::encoded_len(vo / 8) as u64
                        + vu64::encoded_len(no / 8) as u64;
                    n += 1;
                    if real > slot as u64 || slot % 8 != 0 {
                        bad += 1;
                        if bad < 20 {
                            println!("BAD klen={} voff={} noff={} slot={} real={}", klen, vo, no, slot, real);
                        }
                    } else if slot as u64 - real < minslack {
                        minslack = slot as u64 - real;
                    }
                    if slot != lastslot {
                        line.push_str(&format!(" {}/{}:{}", vo, no, slot));
                        lastslot = slot;
                    }
                });
                println!("{}", line);
            }
            println!("end n={} bad={} minslack={} reps={}", n, bad, minslack, reps.len());
        }
        _ => panic!("unknown command {cmd}"),
    }
}
#[cfg(not(abyssiniandb_verif))]
fn probe(cmd: &str, _args: &[String]) {
    panic!("command {cmd} needs the crate built with --cfg abyssiniandb_verif");
}

/// representatives of every varint width class of an offset (multiples of 8), for both
/// `enc_len(off)` (what the size estimate uses) and `enc_len(off / 8)` (what is written).
pub fn offset_reps() -> Vec<u64> {
    let mut reps: Vec<u64> = vec![0];
    for w in 1..=9u32 {
        for scaled in [false, true] {
            let lo: u128 = if w == 1 { 1 } else { 1u128 << (7 * (w - 1)) };
            let hi: u128 = if w == 9 { (1u128 << 64) - 1 } else { (1u128 << (7 * w)) - 1 };
            for v in [lo, hi] {
                let off: u128 = if scaled { v * 8 } else { (v + 7) / 8 * 8 };
                let off2: u128 = if scaled { v * 8 } else { v / 8 * 8 };
                for o in [off, off2] {
                    if o < (1u128 << 64) && o % 8 == 0 {
                        reps.push(o as u64);
                    }
                }
            }
        }
    }
    reps.sort();
    reps.dedup();
    reps
}

/// bucket count the crate derives, observed through a real creation (header offset 16).
fn buckets(args: &[String]) {
    use abyssiniandb::filedb::{FileDb, FileDbParams, HashBucketsParam};
    let dir = std::path::PathBuf::from(&args[0]);
    let max: u64 = args[1].parse().unwrap();
    let step_all = args.get(2).map(|s| s == "all").unwrap_or(false);
    let _ = std::fs::remove_dir_all(&dir);
    let mut xs: Vec<u64> = Vec::new();
    if step_all {
        xs.extend(0..=max);
    } else {
        xs.push(0);
        let mut p = 1u64;
        while p <= max {
            for d in [p.saturating_sub(1), p, p + 1, p + p / 8, p - p / 9, (p as f64 / 1.125) as u64, (p as f64 / 1.125) as u64 + 1] {
                if d <= max {
                    xs.push(d);
                }
            }
            p *= 2;
        }
        xs.sort();
        xs.dedup();
    }
    let observe = |p: HashBucketsParam| -> String {
        let r = std::panic::catch_unwind(|| {
            let db = FileDb::open(&dir).unwrap();
            let mut params = FileDbParams::default();
            params.buckets_size = p;
            let m = db.db_map_bytes_with_params("b", params).unwrap();
            drop(m);
            drop(db);
            let b = std::fs::read(dir.join("b.htx")).unwrap();
            let mut a = [0u8; 8];
            a.copy_from_slice(&b[16..24]);
            let n = u64::from_le_bytes(a);
            format!("{} {}", n, b.len())
        });
        let _ = std::fs::remove_dir_all(&dir);
        match r {
            Ok(s) => s,
            Err(_) => "panic".into(),
        }
    };
    std::panic::set_hook(Box::new(|_| {}));
    for x in xs {
        println!("b {} {}", x, observe(HashBucketsParam::BucketsSize(x)));
        println!("c {} {}", x, observe(HashBucketsParam::Capacity(x)));
    }
}

/// `lossy <file>`: one hex byte string per line ("-" = empty) -> hex of String::from_utf8_lossy(bytes)
fn lossy(args: &[String]) {
    use std::io::BufRead;
    let f = std::fs::File::open(&args[0]).expect("file");
    for line in std::io::BufReader::new(f).lines() {
        let line = line.unwrap();
        let t = line.trim();
        if t.is_empty() {
            continue;
        }
        let b: Vec<u8> = if t == "-" { vec![] } else { (0..t.len() / 2).map(|i| u8::from_str_radix(&t[2 * i..2 * i + 2], 16).unwrap()).collect() };
        let s = String::from_utf8_lossy(&b).to_string();
        let o: String = s.as_bytes().iter().map(|x| format!("{:02x}", x)).collect();
        println!("{} {}", t, if o.is_empty() { "-".to_string() } else { o });
    }
}

pub fn main(cmd: &str, args: &[String]) {
    match cmd {
        "conv" => conv(args),
        "lossy" => lossy(args),
        "buckets" => buckets(args),
        "offset-reps" => {
            for r in offset_reps() {
                println!("{}", r);
            }
        }
        _ => probe(cmd, args),
    }
}
