// Correspondence runner for abyssiniandb: executes an operation file against the
// real crate and prints one canonical line per operation.  See /verif/DESIGN.md 5.3.
//
// usage: harness run <opsfile> <workdir> [--dump <dir>]
//        harness consts | sizing-val <max> | sizing-key <maxk> | conv | hashv <file> | openmx ...
use abyssiniandb::filedb::{
    CheckFileDbMap, FileBufSizeParam, FileDb, FileDbMapDbBytes, FileDbMapDbI64, FileDbMapDbString,
    FileDbMapDbU64, FileDbMapDbVu64, FileDbParams, HashBucketsParam,
};
use abyssiniandb::{DbBytes, DbI64, DbMap, DbString, DbU64, DbVu64, DbXxx, DbXxxBase};
use std::collections::BTreeMap;
use std::io::{BufRead, Write};
use std::panic::{catch_unwind, AssertUnwindSafe};
use std::path::{Path, PathBuf};
use std::sync::atomic::{AtomicU64, Ordering};
use std::sync::Arc;

mod extra;
mod rabufcmd;

pub fn hex(b: &[u8]) -> String {
    let mut s = String::with_capacity(b.len() * 2 + 1);
    if b.is_empty() {
        s.push('-');
    }
    for x in b {
        s.push_str(&format!("{:02x}", x));
    }
    s
}
pub fn unhex(s: &str) -> Vec<u8> {
    if s == "-" {
        return Vec::new();
    }
    // "z<len>x<seed>" : generated payload (len bytes from a tiny LCG) so that op files stay small
    if let Some(rest) = s.strip_prefix('z') {
        let mut it = rest.split('x');
        let len: usize = it.next().unwrap().parse().unwrap();
        let seed: u64 = it.next().unwrap().parse().unwrap();
        return gen_payload(len, seed);
    }
    let b = s.as_bytes();
    let mut v = Vec::with_capacity(b.len() / 2);
    let mut i = 0;
    while i + 1 < b.len() {
        v.push(u8::from_str_radix(&s[i..i + 2], 16).unwrap());
        i += 2;
    }
    v
}
pub fn gen_payload(len: usize, seed: u64) -> Vec<u8> {
    // x_{i+1} = (x_i * 109 + 89) mod 251, byte = x_i   (small numbers: the Coq model does the same)
    let mut v = Vec::with_capacity(len);
    let mut x = seed % 251;
    for _ in 0..len {
        v.push(x as u8);
        x = (x * 109 + 89) % 251;
    }
    v
}
pub fn fnv(b: &[u8]) -> u64 {
    // small 2x24-bit checksum that is cheap to compute on the model side as well
    let mut a: u64 = 1;
    let mut c: u64 = 0;
    for x in b {
        a = (a + *x as u64) % 16777213;
        c = (c + a) % 16777213;
    }
    (c << 24) | a
}
/// payload shown in full when short, else as length and checksum.
pub fn show(b: &[u8]) -> String {
    if b.len() <= 40 {
        hex(b)
    } else {
        format!("#{}:{:x}", b.len(), fnv(b))
    }
}

enum MapH {
    Str(FileDbMapDbString),
    Bytes(FileDbMapDbBytes),
    I64(FileDbMapDbI64),
    U64(FileDbMapDbU64),
    Vu64(FileDbMapDbVu64),
}

macro_rules! with_map {
    ($h:expr, $m:ident, $body:expr) => {
        match $h {
            MapH::Str($m) => $body,
            MapH::Bytes($m) => $body,
            MapH::I64($m) => $body,
            MapH::U64($m) => $body,
            MapH::Vu64($m) => $body,
        }
    };
}

fn parse_buf(s: &str) -> FileBufSizeParam {
    if s == "A" {
        FileBufSizeParam::Auto
    } else if let Some(r) = s.strip_prefix('S') {
        FileBufSizeParam::Size(r.parse().unwrap())
    } else if let Some(r) = s.strip_prefix('P') {
        FileBufSizeParam::PerMille(r.parse().unwrap())
    } else {
        panic!("bad buf param {s}")
    }
}
/// params: "B<n>|C<n>|D,V<buf>,K<buf>,H<buf>"  e.g. "B16,VA,KP1000,HS262144";  "default" = FileDbParams::default()
fn parse_params(s: &str) -> FileDbParams {
    let mut p = FileDbParams::default();
    if s == "default" {
        return p;
    }
    for part in s.split(',') {
        let (k, r) = part.split_at(1);
        match k {
            "B" => p.buckets_size = HashBucketsParam::BucketsSize(r.parse().unwrap()),
            "C" => p.buckets_size = HashBucketsParam::Capacity(r.parse().unwrap()),
            "D" => p.buckets_size = HashBucketsParam::Default,
            "V" => p.val_buf_size = parse_buf(r),
            "K" => p.key_buf_size = parse_buf(r),
            "H" => p.htx_buf_size = parse_buf(r),
            _ => panic!("bad param {part}"),
        }
    }
    p
}

fn io_kind(e: &std::io::Error) -> String {
    format!("err:{:?}", e.kind())
}

fn res_unit(r: std::io::Result<()>) -> String {
    match r {
        Ok(()) => "ok".into(),
        Err(e) => io_kind(&e),
    }
}
fn res_opt(r: std::io::Result<Option<Vec<u8>>>) -> String {
    match r {
        Ok(Some(v)) => format!("some:{}", show(&v)),
        Ok(None) => "none".into(),
        Err(e) => io_kind(&e),
    }
}
fn res_opt_string(r: std::io::Result<Option<String>>) -> String {
    match r {
        Ok(Some(v)) => format!("some:{}", show(v.as_bytes())),
        Ok(None) => "none".into(),
        Err(e) => io_kind(&e),
    }
}
fn res_vec_opt(r: std::io::Result<Vec<Option<Vec<u8>>>>) -> String {
    match r {
        Ok(v) => {
            let mut s = String::from("vec");
            for o in v {
                match o {
                    Some(x) => s.push_str(&format!(" some:{}", show(&x))),
                    None => s.push_str(" none"),
                }
            }
            s
        }
        Err(e) => io_kind(&e),
    }
}
fn res_vec_opt_string(r: std::io::Result<Vec<Option<String>>>) -> String {
    match r {
        Ok(v) => {
            let mut s = String::from("vec");
            for o in v {
                match o {
                    Some(x) => s.push_str(&format!(" some:{}", show(x.as_bytes()))),
                    None => s.push_str(" none"),
                }
            }
            s
        }
        Err(e) => io_kind(&e),
    }
}

fn file_sum(p: &Path) -> String {
    match std::fs::read(p) {
        Ok(b) => format!("{}:{:x}", b.len(), fnv(&b)),
        Err(_) => "absent".into(),
    }
}

struct State {
    root: PathBuf,
    dump: Option<PathBuf>,
    dbs: BTreeMap<String, (FileDb, String)>,
    maps: BTreeMap<String, (MapH, String, String)>, // handle, dir, name
    snapno: u64,
}

fn iter_line<K: std::ops::Deref<Target = [u8]>, I: Iterator<Item = (K, Vec<u8>)>>(mut it: I, extra_next: usize) -> String {
    let mut s = String::from("iter");
    let mut n = 0u64;
    loop {
        let (lo, hi) = it.size_hint();
        if Some(lo) != hi {
            s.push_str(" badhint");
        }
        s.push_str(&format!(" {}", lo));
        match it.next() {
            Some((k, v)) => s.push_str(&format!(" {}={}", show(&k), show(&v))),
            None => {
                s.push_str(" .");
                break;
            }
        }
        n += 1;
        if n > 10_000_000 {
            s.push_str(" runaway");
            return s;
        }
    }
    for _ in 0..extra_next {
        match it.next() {
            Some((k, v)) => s.push_str(&format!(" again:{}={}", show(&k), show(&v))),
            None => s.push_str(" ."),
        }
    }
    s
}
fn keys_line<K: std::ops::Deref<Target = [u8]>, I: Iterator<Item = K>>(mut it: I) -> String {
    let mut s = String::from("iter");
    loop {
        let (lo, hi) = it.size_hint();
        if Some(lo) != hi {
            s.push_str(" badhint");
        }
        s.push_str(&format!(" {}", lo));
        match it.next() {
            Some(k) => s.push_str(&format!(" {}=", show(&k))),
            None => {
                s.push_str(" .");
                break;
            }
        }
    }
    for _ in 0..2 {
        match it.next() {
            Some(k) => s.push_str(&format!(" again:{}=", show(&k))),
            None => s.push_str(" ."),
        }
    }
    s
}
fn values_line<I: Iterator<Item = Vec<u8>>>(mut it: I) -> String {
    let mut s = String::from("iter");
    loop {
        let (lo, hi) = it.size_hint();
        if Some(lo) != hi {
            s.push_str(" badhint");
        }
        s.push_str(&format!(" {}", lo));
        match it.next() {
            Some(v) => s.push_str(&format!(" ={}", show(&v))),
            None => {
                s.push_str(" .");
                break;
            }
        }
    }
    for _ in 0..2 {
        match it.next() {
            Some(v) => s.push_str(&format!(" again:={}", show(&v))),
            None => s.push_str(" ."),
        }
    }
    s
}

fn stats_line<M: CheckFileDbMap>(m: &M) -> String {
    fn cps(r: std::io::Result<Vec<(u32, u64)>>) -> String {
        match r {
            Ok(v) => {
                let mut s = String::from("[");
                for (i, (a, b)) in v.iter().enumerate() {
                    if i > 0 {
                        s.push_str(", ");
                    }
                    s.push_str(&format!("({a}, {b})"));
                }
                s.push(']');
                s
            }
            Err(e) => io_kind(&e),
        }
    }
    fn disp<T: std::fmt::Display>(r: std::io::Result<T>) -> String {
        match r {
            Ok(v) => format!("{v}"),
            Err(e) => io_kind(&e),
        }
    }
    let fill = match m.htx_filling_rate_per_mill() {
        Ok((c, p)) => format!("({c}, {p})"),
        Err(e) => io_kind(&e),
    };
    format!(
        "stats fk={} fv={} kps={} vps={} kl={} vl={} kc={} fill={}",
        cps(m.count_of_free_key_piece()),
        cps(m.count_of_free_value_piece()),
        disp(m.key_piece_size_stats()),
        disp(m.value_piece_size_stats()),
        disp(m.key_length_stats()),
        disp(m.value_length_stats()),
        disp(m.keys_count_stats()),
        fill
    )
}

extern "C" {
    fn kill(pid: i32, sig: i32) -> i32;
    fn getpid() -> i32;
    pub(crate) fn setrlimit(resource: i32, rlim: *const [u64; 2]) -> i32;
    pub(crate) fn getrlimit(resource: i32, rlim: *mut [u64; 2]) -> i32;
    pub(crate) fn signal(signum: i32, handler: usize) -> usize;
}
pub(crate) const RLIMIT_FSIZE: i32 = 1;
pub(crate) const SIGXFSZ: i32 = 25;
pub(crate) const SIG_IGN: usize = 1;

impl State {
    fn exec(&mut self, line: &str) -> String {
        let t: Vec<&str> = line.split_whitespace().collect();
        let op = t[0];
        match op {
            "db" => {
                // db <dbid> <dir>
                let dir = self.root.join(t[2]);
                match FileDb::open(&dir) {
                    Ok(d) => {
                        self.dbs.insert(t[1].into(), (d, t[2].into()));
                        "ok".into()
                    }
                    Err(e) => io_kind(&e),
                }
            }
            "dbclone" => {
                // dbclone <newid> <dbid>
                let (d, dir) = self.dbs.get(t[2]).expect("no db");
                let c = (d.clone(), dir.clone());
                self.dbs.insert(t[1].into(), c);
                "ok".into()
            }
            "map" => {
                // map <mid> <dbid> <type> <name> <params>
                let (db, dir) = self.dbs.get(t[2]).expect("no db");
                let name = t[4];
                let p = parse_params(t[5]);
                let r: std::io::Result<MapH> = match t[3] {
                    "string" => db.db_map_string_with_params(name, p).map(MapH::Str),
                    "bytes" => db.db_map_bytes_with_params(name, p).map(MapH::Bytes),
                    "i64" => db.db_map_i64_with_params(name, p).map(MapH::I64),
                    "u64" => db.db_map_u64_with_params(name, p).map(MapH::U64),
                    "vu64" => db.db_map_vu64_with_params(name, p).map(MapH::Vu64),
                    _ => panic!("bad type"),
                };
                match r {
                    Ok(h) => {
                        let dir = dir.clone();
                        self.maps.insert(t[1].into(), (h, dir, name.into()));
                        "ok".into()
                    }
                    Err(e) => io_kind(&e),
                }
            }
            "mapclone" => {
                // mapclone <newmid> <mid>
                let (h, dir, name) = self.maps.get(t[2]).expect("no map");
                let nh = match h {
                    MapH::Str(m) => MapH::Str(m.clone()),
                    MapH::Bytes(m) => MapH::Bytes(m.clone()),
                    MapH::I64(m) => MapH::I64(m.clone()),
                    MapH::U64(m) => MapH::U64(m.clone()),
                    MapH::Vu64(m) => MapH::Vu64(m.clone()),
                };
                let e = (nh, dir.clone(), name.clone());
                self.maps.insert(t[1].into(), e);
                "ok".into()
            }
            "drop" => {
                self.maps.remove(t[1]);
                "ok".into()
            }
            "dropdb" => {
                self.dbs.remove(t[1]);
                "ok".into()
            }
            "closeall" => {
                self.maps.clear();
                self.dbs.clear();
                "ok".into()
            }
            "put" => {
                let (k, v) = (unhex(t[2]), unhex(t[3]));
                let (h, _, _) = self.maps.get_mut(t[1]).expect("no map");
                with_map!(h, m, res_unit(m.put::<[u8]>(&k, &v)))
            }
            "putstr" => {
                // value must be valid utf-8 in the op file
                let (k, v) = (unhex(t[2]), unhex(t[3]));
                let vs = String::from_utf8(v).expect("putstr needs utf8");
                let (h, _, _) = self.maps.get_mut(t[1]).expect("no map");
                with_map!(h, m, res_unit(m.put_string::<[u8]>(&k, &vs)))
            }
            "get" => {
                let k = unhex(t[2]);
                let (h, _, _) = self.maps.get_mut(t[1]).expect("no map");
                with_map!(h, m, res_opt(m.get::<[u8]>(&k)))
            }
            "getstr" => {
                let k = unhex(t[2]);
                let (h, _, _) = self.maps.get_mut(t[1]).expect("no map");
                with_map!(h, m, res_opt_string(m.get_string::<[u8]>(&k)))
            }
            "del" => {
                let k = unhex(t[2]);
                let (h, _, _) = self.maps.get_mut(t[1]).expect("no map");
                with_map!(h, m, res_opt(m.delete::<[u8]>(&k)))
            }
            "delstr" => {
                let k = unhex(t[2]);
                let (h, _, _) = self.maps.get_mut(t[1]).expect("no map");
                with_map!(h, m, res_opt_string(m.delete_string::<[u8]>(&k)))
            }
            "has" => {
                let k = unhex(t[2]);
                let (h, _, _) = self.maps.get_mut(t[1]).expect("no map");
                with_map!(
                    h,
                    m,
                    match m.includes_key::<[u8]>(&k) {
                        Ok(b) => format!("{b}"),
                        Err(e) => io_kind(&e),
                    }
                )
            }
            "len" => {
                let (h, _, _) = self.maps.get_mut(t[1]).expect("no map");
                with_map!(
                    h,
                    m,
                    match m.len() {
                        Ok(b) => format!("{b}"),
                        Err(e) => io_kind(&e),
                    }
                )
            }
            "empty" => {
                let (h, _, _) = self.maps.get_mut(t[1]).expect("no map");
                with_map!(
                    h,
                    m,
                    match m.is_empty() {
                        Ok(b) => format!("{b}"),
                        Err(e) => io_kind(&e),
                    }
                )
            }
            "flush" => {
                let (h, _, _) = self.maps.get_mut(t[1]).expect("no map");
                with_map!(h, m, res_unit(m.flush()))
            }
            "syncall" => {
                let (h, _, _) = self.maps.get_mut(t[1]).expect("no map");
                with_map!(h, m, res_unit(m.sync_all()))
            }
            "syncdata" => {
                let (h, _, _) = self.maps.get_mut(t[1]).expect("no map");
                with_map!(h, m, res_unit(m.sync_data()))
            }
            "fill" => {
                let (h, _, _) = self.maps.get_mut(t[1]).expect("no map");
                with_map!(h, m, res_unit(m.read_fill_buffer()))
            }
            "dbsyncall" => {
                let (d, _) = self.dbs.get(t[1]).expect("no db");
                res_unit(d.sync_all())
            }
            "dbsyncdata" => {
                let (d, _) = self.dbs.get(t[1]).expect("no db");
                res_unit(d.sync_data())
            }
            "dirty" => {
                let (h, _, _) = self.maps.get_mut(t[1]).expect("no map");
                with_map!(h, m, format!("{}", m.is_dirty()))
            }
            "iter" => {
                // iter <mid> <flavour>
                let (h, _, _) = self.maps.get_mut(t[1]).expect("no map");
                match t[2] {
                    "iter" => with_map!(h, m, iter_line(m.iter(), 2)),
                    "iter_mut" => with_map!(h, m, iter_line(m.iter_mut(), 2)),
                    "into_iter" => with_map!(h, m, iter_line(m.clone().into_iter(), 2)),
                    "ref_into_iter" => with_map!(h, m, iter_line((&*m).into_iter(), 2)),
                    "mut_into_iter" => with_map!(h, m, iter_line((&mut *m).into_iter(), 2)),
                    "keys" => with_map!(h, m, keys_line(m.keys())),
                    "values" => with_map!(h, m, values_line(m.values())),
                    _ => panic!("bad flavour"),
                }
            }
            "stats" => {
                let (h, _, _) = self.maps.get_mut(t[1]).expect("no map");
                with_map!(h, m, stats_line(m))
            }
            "bulkget" => {
                let ks: Vec<Vec<u8>> = if t.len() > 2 { t[2].split(',').map(unhex).collect() } else { vec![] };
                let kr: Vec<&[u8]> = ks.iter().map(|k| k.as_slice()).collect();
                let (h, _, _) = self.maps.get_mut(t[1]).expect("no map");
                with_map!(h, m, res_vec_opt(m.bulk_get::<[u8]>(&kr)))
            }
            "bulkgetstr" => {
                let ks: Vec<Vec<u8>> = if t.len() > 2 { t[2].split(',').map(unhex).collect() } else { vec![] };
                let kr: Vec<&[u8]> = ks.iter().map(|k| k.as_slice()).collect();
                let (h, _, _) = self.maps.get_mut(t[1]).expect("no map");
                with_map!(h, m, res_vec_opt_string(m.bulk_get_string::<[u8]>(&kr)))
            }
            "bulkdel" => {
                let ks: Vec<Vec<u8>> = if t.len() > 2 { t[2].split(',').map(unhex).collect() } else { vec![] };
                let kr: Vec<&[u8]> = ks.iter().map(|k| k.as_slice()).collect();
                let (h, _, _) = self.maps.get_mut(t[1]).expect("no map");
                with_map!(h, m, res_vec_opt(m.bulk_delete::<[u8]>(&kr)))
            }
            "bulkdelstr" => {
                let ks: Vec<Vec<u8>> = if t.len() > 2 { t[2].split(',').map(unhex).collect() } else { vec![] };
                let kr: Vec<&[u8]> = ks.iter().map(|k| k.as_slice()).collect();
                let (h, _, _) = self.maps.get_mut(t[1]).expect("no map");
                with_map!(h, m, res_vec_opt_string(m.bulk_delete_string::<[u8]>(&kr)))
            }
            "bulkput" | "bulkputstr" | "putiter" => {
                let kvs: Vec<(Vec<u8>, Vec<u8>)> = if t.len() > 2 {
                    t[2].split(',')
                        .map(|kv| {
                            let mut it = kv.split(':');
                            (unhex(it.next().unwrap()), unhex(it.next().unwrap()))
                        })
                        .collect()
                } else {
                    vec![]
                };
                let (h, _, _) = self.maps.get_mut(t[1]).expect("no map");
                match op {
                    "bulkput" => {
                        let r: Vec<(&[u8], &[u8])> = kvs.iter().map(|(k, v)| (k.as_slice(), v.as_slice())).collect();
                        with_map!(h, m, res_unit(m.bulk_put::<[u8]>(&r)))
                    }
                    "bulkputstr" => {
                        let r: Vec<(&[u8], String)> = kvs
                            .iter()
                            .map(|(k, v)| (k.as_slice(), String::from_utf8(v.clone()).expect("utf8")))
                            .collect();
                        with_map!(h, m, res_unit(m.bulk_put_string::<[u8]>(&r)))
                    }
                    _ => match h {
                        MapH::Str(m) => res_unit(m.put_from_iter(kvs.into_iter().map(|(k, v)| (DbString::from(k), v)))),
                        MapH::Bytes(m) => res_unit(m.put_from_iter(kvs.into_iter().map(|(k, v)| (DbBytes::from(k), v)))),
                        MapH::I64(m) => res_unit(m.put_from_iter(kvs.into_iter().map(|(k, v)| (DbI64::from(k), v)))),
                        MapH::U64(m) => res_unit(m.put_from_iter(kvs.into_iter().map(|(k, v)| (DbU64::from(k), v)))),
                        MapH::Vu64(m) => res_unit(m.put_from_iter(kvs.into_iter().map(|(k, v)| (DbVu64::from(k), v)))),
                    },
                }
            }
            // integer-addressed calls on the typed maps: "<op>@ <mid> <int> [<val>]"
            "put@" | "get@" | "del@" | "has@" => {
                let (h, _, _) = self.maps.get_mut(t[1]).expect("no map");
                extra::int_op(h_kind(h), h, op, t[2], t.get(3).copied())
            }
            "snap" => {
                // snap <dir>  : checksums of every file in the directory (sorted by name)
                self.snapno += 1;
                let dir = self.root.join(t[1]);
                let mut names: Vec<String> = match std::fs::read_dir(&dir) {
                    Ok(rd) => rd.filter_map(|e| e.ok()).map(|e| e.file_name().to_string_lossy().to_string()).collect(),
                    Err(_) => vec![],
                };
                names.sort();
                let mut s = String::from("snap");
                for n in &names {
                    s.push_str(&format!(" {}={}", n, file_sum(&dir.join(n))));
                }
                if let Some(d) = &self.dump {
                    let out = d.join(format!("snap{}", self.snapno));
                    let _ = std::fs::create_dir_all(&out);
                    for n in &names {
                        let _ = std::fs::copy(dir.join(n), out.join(n));
                    }
                }
                s
            }
            "limit" => {
                // limit <bytes> : lower RLIMIT_FSIZE (soft), SIGXFSZ ignored
                unsafe {
                    signal(SIGXFSZ, SIG_IGN);
                    let mut cur = [0u64; 2];
                    getrlimit(RLIMIT_FSIZE, &mut cur);
                    let new = [t[1].parse::<u64>().unwrap(), cur[1]];
                    setrlimit(RLIMIT_FSIZE, &new);
                }
                "ok".into()
            }
            "unlimit" => {
                unsafe {
                    let mut cur = [0u64; 2];
                    getrlimit(RLIMIT_FSIZE, &mut cur);
                    let new = [cur[1], cur[1]];
                    setrlimit(RLIMIT_FSIZE, &new);
                }
                "ok".into()
            }
            "kill9" => {
                std::io::stdout().flush().unwrap();
                unsafe {
                    kill(getpid(), 9);
                }
                "unreachable".into()
            }
            "trace" => extra::drain_trace(),
            "iotrace" => extra::io_trace(Some(t[1])),
            "iodrain" => extra::io_trace(None),
            "mutate" => {
                // mutate <dir> <file> <pos> <byte> : overwrite one byte of a closed file
                let p = self.root.join(t[1]).join(t[2]);
                let mut b = std::fs::read(&p).unwrap();
                let pos: usize = t[3].parse().unwrap();
                b[pos] = t[4].parse().unwrap();
                std::fs::write(&p, b).unwrap();
                "ok".into()
            }
            "truncfile" => {
                // truncfile <dir> <file> <len> : cut a closed file to its first <len> bytes
                let p = self.root.join(t[1]).join(t[2]);
                let mut b = std::fs::read(&p).unwrap();
                b.truncate(t[3].parse().unwrap());
                std::fs::write(&p, b).unwrap();
                "ok".into()
            }
            "writefile" => {
                // writefile <dir> <file> <hex|-> : replace a closed file by the given bytes
                let p = self.root.join(t[1]).join(t[2]);
                std::fs::write(&p, unhex(t[3])).unwrap();
                "ok".into()
            }
            "cpfile" => {
                // cpfile <dir> <src> <dst>
                let d = self.root.join(t[1]);
                std::fs::copy(d.join(t[2]), d.join(t[3])).unwrap();
                "ok".into()
            }
            "cpdir" => {
                // cpdir <srcdir> <dstdir> : copy all files (snapshot while handles alive)
                let s = self.root.join(t[1]);
                let d = self.root.join(t[2]);
                let _ = std::fs::remove_dir_all(&d);
                std::fs::create_dir_all(&d).unwrap();
                for e in std::fs::read_dir(&s).unwrap() {
                    let e = e.unwrap();
                    std::fs::copy(e.path(), d.join(e.file_name())).unwrap();
                }
                "ok".into()
            }
            _ => panic!("unknown op {op}"),
        }
    }
}

pub fn h_kind(h: &MapH) -> &'static str {
    match h {
        MapH::Str(_) => "string",
        MapH::Bytes(_) => "bytes",
        MapH::I64(_) => "i64",
        MapH::U64(_) => "u64",
        MapH::Vu64(_) => "vu64",
    }
}

fn run(opsfile: &str, workdir: &str, dump: Option<String>, timeout_s: u64) {
    std::panic::set_hook(Box::new(|_| {}));
    let f = std::fs::File::open(opsfile).expect("ops file");
    let rd = std::io::BufReader::new(f);
    let mut st = State {
        root: PathBuf::from(workdir),
        dump: dump.map(PathBuf::from),
        dbs: BTreeMap::new(),
        maps: BTreeMap::new(),
        snapno: 0,
    };
    std::fs::create_dir_all(&st.root).unwrap();
    // watchdog: an operation that takes longer than timeout_s is reported as a hang
    let tick = Arc::new(AtomicU64::new(0));
    {
        let tick = tick.clone();
        std::thread::spawn(move || {
            let mut last = 0u64;
            let mut same = 0u64;
            loop {
                std::thread::sleep(std::time::Duration::from_millis(500));
                let now = tick.load(Ordering::SeqCst);
                if now == u64::MAX {
                    return;
                }
                if now == last {
                    same += 1;
                    if same * 500 >= timeout_s * 1000 {
                        let o = std::io::stdout();
                        let mut o = o.lock();
                        let _ = writeln!(o, "hang");
                        let _ = o.flush();
                        std::process::exit(3);
                    }
                } else {
                    same = 0;
                    last = now;
                }
            }
        });
    }
    let out = std::io::stdout();
    let mut lineno = 0u64;
    for line in rd.lines() {
        let line = line.unwrap();
        let line = line.trim();
        if line.is_empty() || line.starts_with('#') {
            continue;
        }
        lineno += 1;
        tick.store(lineno, Ordering::SeqCst);
        let r = catch_unwind(AssertUnwindSafe(|| st.exec(line)));
        let s = match r {
            Ok(s) => s,
            Err(_) => "panic".to_string(),
        };
        let mut o = out.lock();
        writeln!(o, "{}", s).unwrap();
        o.flush().unwrap();
    }
    tick.store(u64::MAX, Ordering::SeqCst);
    // handles are dropped here (clean close)
    st.maps.clear();
    st.dbs.clear();
}

fn main() {
    let args: Vec<String> = std::env::args().collect();
    if args.len() < 2 {
        eprintln!("usage: harness run <ops> <workdir> [--dump dir] | consts | ...");
        std::process::exit(2);
    }
    match args[1].as_str() {
        "run" => {
            let mut dump = None;
            let mut timeout = 20u64;
            let mut i = 4;
            while i < args.len() {
                if args[i] == "--dump" {
                    dump = Some(args[i + 1].clone());
                    i += 2;
                } else if args[i] == "--timeout" {
                    timeout = args[i + 1].parse().unwrap();
                    i += 2;
                } else {
                    i += 1;
                }
            }
            run(&args[2], &args[3], dump, timeout);
        }
        "rabuf" | "rabuf-inner" => rabufcmd::main(&args[1], &args[2..]),
        other => extra::main(other, &args[2..]),
    }
}
