gen/Consts.vo gen/Consts.glob gen/Consts.v.beautified gen/Consts.required_vo: gen/Consts.v 
gen/Consts.vio: gen/Consts.v 
gen/Consts.vos gen/Consts.vok gen/Consts.required_vos: gen/Consts.v 
gen/Hash_vectors.vo gen/Hash_vectors.glob gen/Hash_vectors.v.beautified gen/Hash_vectors.required_vo: gen/Hash_vectors.v theories/Base.vo theories/Hash.vo
gen/Hash_vectors.vio: gen/Hash_vectors.v theories/Base.vio theories/Hash.vio
gen/Hash_vectors.vos gen/Hash_vectors.vok gen/Hash_vectors.required_vos: gen/Hash_vectors.v theories/Base.vos theories/Hash.vos
theories/Base.vo theories/Base.glob theories/Base.v.beautified theories/Base.required_vo: theories/Base.v 
theories/Base.vio: theories/Base.v 
theories/Base.vos theories/Base.vok theories/Base.required_vos: theories/Base.v 
theories/Vu64.vo theories/Vu64.glob theories/Vu64.v.beautified theories/Vu64.required_vo: theories/Vu64.v theories/Base.vo
theories/Vu64.vio: theories/Vu64.v theories/Base.vio
theories/Vu64.vos theories/Vu64.vok theories/Vu64.required_vos: theories/Vu64.v theories/Base.vos
theories/Vu64_proofs.vo theories/Vu64_proofs.glob theories/Vu64_proofs.v.beautified theories/Vu64_proofs.required_vo: theories/Vu64_proofs.v theories/Base.vo theories/Vu64.vo
theories/Vu64_proofs.vio: theories/Vu64_proofs.v theories/Base.vio theories/Vu64.vio
theories/Vu64_proofs.vos theories/Vu64_proofs.vok theories/Vu64_proofs.required_vos: theories/Vu64_proofs.v theories/Base.vos theories/Vu64.vos
theories/Hash.vo theories/Hash.glob theories/Hash.v.beautified theories/Hash.required_vo: theories/Hash.v theories/Base.vo
theories/Hash.vio: theories/Hash.v theories/Base.vio
theories/Hash.vos theories/Hash.vok theories/Hash.required_vos: theories/Hash.v theories/Base.vos
theories/KeyTypes.vo theories/KeyTypes.glob theories/KeyTypes.v.beautified theories/KeyTypes.required_vo: theories/KeyTypes.v theories/Base.vo theories/Vu64.vo gen/Consts.vo
theories/KeyTypes.vio: theories/KeyTypes.v theories/Base.vio theories/Vu64.vio gen/Consts.vio
theories/KeyTypes.vos theories/KeyTypes.vok theories/KeyTypes.required_vos: theories/KeyTypes.v theories/Base.vos theories/Vu64.vos gen/Consts.vos
theories/KeyTypes_proofs.vo theories/KeyTypes_proofs.glob theories/KeyTypes_proofs.v.beautified theories/KeyTypes_proofs.required_vo: theories/KeyTypes_proofs.v theories/Base.vo theories/Vu64.vo theories/KeyTypes.vo theories/Vu64_proofs.vo
theories/KeyTypes_proofs.vio: theories/KeyTypes_proofs.v theories/Base.vio theories/Vu64.vio theories/KeyTypes.vio theories/Vu64_proofs.vio
theories/KeyTypes_proofs.vos theories/KeyTypes_proofs.vok theories/KeyTypes_proofs.required_vos: theories/KeyTypes_proofs.v theories/Base.vos theories/Vu64.vos theories/KeyTypes.vos theories/Vu64_proofs.vos
theories/C10_lemmas.vo theories/C10_lemmas.glob theories/C10_lemmas.v.beautified theories/C10_lemmas.required_vo: theories/C10_lemmas.v theories/Base.vo theories/Vu64.vo theories/Vu64_proofs.vo theories/KeyTypes.vo theories/KeyTypes_proofs.vo theories/Hash.vo
theories/C10_lemmas.vio: theories/C10_lemmas.v theories/Base.vio theories/Vu64.vio theories/Vu64_proofs.vio theories/KeyTypes.vio theories/KeyTypes_proofs.vio theories/Hash.vio
theories/C10_lemmas.vos theories/C10_lemmas.vok theories/C10_lemmas.required_vos: theories/C10_lemmas.v theories/Base.vos theories/Vu64.vos theories/Vu64_proofs.vos theories/KeyTypes.vos theories/KeyTypes_proofs.vos theories/Hash.vos
theories/Sizing.vo theories/Sizing.glob theories/Sizing.v.beautified theories/Sizing.required_vo: theories/Sizing.v theories/Base.vo theories/Vu64.vo gen/Consts.vo
theories/Sizing.vio: theories/Sizing.v theories/Base.vio theories/Vu64.vio gen/Consts.vio
theories/Sizing.vos theories/Sizing.vok theories/Sizing.required_vos: theories/Sizing.v theories/Base.vos theories/Vu64.vos gen/Consts.vos
theories/Sizing_proofs.vo theories/Sizing_proofs.glob theories/Sizing_proofs.v.beautified theories/Sizing_proofs.required_vo: theories/Sizing_proofs.v theories/Base.vo theories/Vu64.vo gen/Consts.vo theories/Sizing.vo
theories/Sizing_proofs.vio: theories/Sizing_proofs.v theories/Base.vio theories/Vu64.vio gen/Consts.vio theories/Sizing.vio
theories/Sizing_proofs.vos theories/Sizing_proofs.vok theories/Sizing_proofs.required_vos: theories/Sizing_proofs.v theories/Base.vos theories/Vu64.vos gen/Consts.vos theories/Sizing.vos
theories/Alloc.vo theories/Alloc.glob theories/Alloc.v.beautified theories/Alloc.required_vo: theories/Alloc.v theories/Base.vo theories/Vu64.vo gen/Consts.vo theories/Sizing.vo
theories/Alloc.vio: theories/Alloc.v theories/Base.vio theories/Vu64.vio gen/Consts.vio theories/Sizing.vio
theories/Alloc.vos theories/Alloc.vok theories/Alloc.required_vos: theories/Alloc.v theories/Base.vos theories/Vu64.vos gen/Consts.vos theories/Sizing.vos
theories/AllocInv.vo theories/AllocInv.glob theories/AllocInv.v.beautified theories/AllocInv.required_vo: theories/AllocInv.v theories/Base.vo theories/Vu64.vo gen/Consts.vo theories/Sizing.vo theories/Alloc.vo
theories/AllocInv.vio: theories/AllocInv.v theories/Base.vio theories/Vu64.vio gen/Consts.vio theories/Sizing.vio theories/Alloc.vio
theories/AllocInv.vos theories/AllocInv.vok theories/AllocInv.required_vos: theories/AllocInv.v theories/Base.vos theories/Vu64.vos gen/Consts.vos theories/Sizing.vos theories/Alloc.vos
theories/AllocInv_proofs.vo theories/AllocInv_proofs.glob theories/AllocInv_proofs.v.beautified theories/AllocInv_proofs.required_vo: theories/AllocInv_proofs.v theories/Base.vo theories/Vu64.vo gen/Consts.vo theories/Sizing.vo theories/Alloc.vo theories/AllocInv.vo
theories/AllocInv_proofs.vio: theories/AllocInv_proofs.v theories/Base.vio theories/Vu64.vio gen/Consts.vio theories/Sizing.vio theories/Alloc.vio theories/AllocInv.vio
theories/AllocInv_proofs.vos theories/AllocInv_proofs.vok theories/AllocInv_proofs.required_vos: theories/AllocInv_proofs.v theories/Base.vos theories/Vu64.vos gen/Consts.vos theories/Sizing.vos theories/Alloc.vos theories/AllocInv.vos
theories/Htx.vo theories/Htx.glob theories/Htx.v.beautified theories/Htx.required_vo: theories/Htx.v theories/Base.vo gen/Consts.vo
theories/Htx.vio: theories/Htx.v theories/Base.vio gen/Consts.vio
theories/Htx.vos theories/Htx.vok theories/Htx.required_vos: theories/Htx.v theories/Base.vos gen/Consts.vos
theories/Htx_proofs.vo theories/Htx_proofs.glob theories/Htx_proofs.v.beautified theories/Htx_proofs.required_vo: theories/Htx_proofs.v theories/Base.vo gen/Consts.vo theories/Htx.vo
theories/Htx_proofs.vio: theories/Htx_proofs.v theories/Base.vio gen/Consts.vio theories/Htx.vio
theories/Htx_proofs.vos theories/Htx_proofs.vok theories/Htx_proofs.required_vos: theories/Htx_proofs.v theories/Base.vos gen/Consts.vos theories/Htx.vos
theories/Store.vo theories/Store.glob theories/Store.v.beautified theories/Store.required_vo: theories/Store.v theories/Base.vo theories/Vu64.vo theories/Hash.vo theories/KeyTypes.vo gen/Consts.vo theories/Sizing.vo theories/Alloc.vo theories/Htx.vo
theories/Store.vio: theories/Store.v theories/Base.vio theories/Vu64.vio theories/Hash.vio theories/KeyTypes.vio gen/Consts.vio theories/Sizing.vio theories/Alloc.vio theories/Htx.vio
theories/Store.vos theories/Store.vok theories/Store.required_vos: theories/Store.v theories/Base.vos theories/Vu64.vos theories/Hash.vos theories/KeyTypes.vos gen/Consts.vos theories/Sizing.vos theories/Alloc.vos theories/Htx.vos
theories/Iter.vo theories/Iter.glob theories/Iter.v.beautified theories/Iter.required_vo: theories/Iter.v theories/Base.vo theories/KeyTypes.vo gen/Consts.vo theories/Sizing.vo theories/Alloc.vo theories/Htx.vo theories/Store.vo
theories/Iter.vio: theories/Iter.v theories/Base.vio theories/KeyTypes.vio gen/Consts.vio theories/Sizing.vio theories/Alloc.vio theories/Htx.vio theories/Store.vio
theories/Iter.vos theories/Iter.vok theories/Iter.required_vos: theories/Iter.v theories/Base.vos theories/KeyTypes.vos gen/Consts.vos theories/Sizing.vos theories/Alloc.vos theories/Htx.vos theories/Store.vos
theories/Stats.vo theories/Stats.glob theories/Stats.v.beautified theories/Stats.required_vo: theories/Stats.v theories/Base.vo theories/KeyTypes.vo gen/Consts.vo theories/Sizing.vo theories/Alloc.vo theories/Htx.vo theories/Store.vo
theories/Stats.vio: theories/Stats.v theories/Base.vio theories/KeyTypes.vio gen/Consts.vio theories/Sizing.vio theories/Alloc.vio theories/Htx.vio theories/Store.vio
theories/Stats.vos theories/Stats.vok theories/Stats.required_vos: theories/Stats.v theories/Base.vos theories/KeyTypes.vos gen/Consts.vos theories/Sizing.vos theories/Alloc.vos theories/Htx.vos theories/Store.vos
theories/Layout.vo theories/Layout.glob theories/Layout.v.beautified theories/Layout.required_vo: theories/Layout.v theories/Base.vo theories/Vu64.vo theories/KeyTypes.vo gen/Consts.vo theories/Sizing.vo theories/Alloc.vo theories/Htx.vo theories/Store.vo
theories/Layout.vio: theories/Layout.v theories/Base.vio theories/Vu64.vio theories/KeyTypes.vio gen/Consts.vio theories/Sizing.vio theories/Alloc.vio theories/Htx.vio theories/Store.vio
theories/Layout.vos theories/Layout.vok theories/Layout.required_vos: theories/Layout.v theories/Base.vos theories/Vu64.vos theories/KeyTypes.vos gen/Consts.vos theories/Sizing.vos theories/Alloc.vos theories/Htx.vos theories/Store.vos
theories/Spec.vo theories/Spec.glob theories/Spec.v.beautified theories/Spec.required_vo: theories/Spec.v theories/Base.vo
theories/Spec.vio: theories/Spec.v theories/Base.vio
theories/Spec.vos theories/Spec.vok theories/Spec.required_vos: theories/Spec.v theories/Base.vos
theories/Refine.vo theories/Refine.glob theories/Refine.v.beautified theories/Refine.required_vo: theories/Refine.v theories/Base.vo theories/Vu64.vo theories/Hash.vo theories/KeyTypes.vo gen/Consts.vo theories/Sizing.vo theories/Alloc.vo theories/AllocInv.vo theories/Htx.vo theories/Htx_proofs.vo theories/Store.vo theories/Spec.vo
theories/Refine.vio: theories/Refine.v theories/Base.vio theories/Vu64.vio theories/Hash.vio theories/KeyTypes.vio gen/Consts.vio theories/Sizing.vio theories/Alloc.vio theories/AllocInv.vio theories/Htx.vio theories/Htx_proofs.vio theories/Store.vio theories/Spec.vio
theories/Refine.vos theories/Refine.vok theories/Refine.required_vos: theories/Refine.v theories/Base.vos theories/Vu64.vos theories/Hash.vos theories/KeyTypes.vos gen/Consts.vos theories/Sizing.vos theories/Alloc.vos theories/AllocInv.vos theories/Htx.vos theories/Htx_proofs.vos theories/Store.vos theories/Spec.vos
theories/Refine_relink.vo theories/Refine_relink.glob theories/Refine_relink.v.beautified theories/Refine_relink.required_vo: theories/Refine_relink.v theories/Base.vo theories/Vu64.vo theories/Hash.vo theories/KeyTypes.vo gen/Consts.vo theories/Sizing.vo theories/Alloc.vo theories/AllocInv.vo theories/Htx.vo theories/Htx_proofs.vo theories/Store.vo theories/Spec.vo theories/Refine.vo
theories/Refine_relink.vio: theories/Refine_relink.v theories/Base.vio theories/Vu64.vio theories/Hash.vio theories/KeyTypes.vio gen/Consts.vio theories/Sizing.vio theories/Alloc.vio theories/AllocInv.vio theories/Htx.vio theories/Htx_proofs.vio theories/Store.vio theories/Spec.vio theories/Refine.vio
theories/Refine_relink.vos theories/Refine_relink.vok theories/Refine_relink.required_vos: theories/Refine_relink.v theories/Base.vos theories/Vu64.vos theories/Hash.vos theories/KeyTypes.vos gen/Consts.vos theories/Sizing.vos theories/Alloc.vos theories/AllocInv.vos theories/Htx.vos theories/Htx_proofs.vos theories/Store.vos theories/Spec.vos theories/Refine.vos
theories/Refine_ops.vo theories/Refine_ops.glob theories/Refine_ops.v.beautified theories/Refine_ops.required_vo: theories/Refine_ops.v theories/Base.vo theories/Vu64.vo theories/Hash.vo theories/KeyTypes.vo gen/Consts.vo theories/Sizing.vo theories/Alloc.vo theories/AllocInv.vo theories/Htx.vo theories/Htx_proofs.vo theories/Store.vo theories/Spec.vo theories/Refine.vo
theories/Refine_ops.vio: theories/Refine_ops.v theories/Base.vio theories/Vu64.vio theories/Hash.vio theories/KeyTypes.vio gen/Consts.vio theories/Sizing.vio theories/Alloc.vio theories/AllocInv.vio theories/Htx.vio theories/Htx_proofs.vio theories/Store.vio theories/Spec.vio theories/Refine.vio
theories/Refine_ops.vos theories/Refine_ops.vok theories/Refine_ops.required_vos: theories/Refine_ops.v theories/Base.vos theories/Vu64.vos theories/Hash.vos theories/KeyTypes.vos gen/Consts.vos theories/Sizing.vos theories/Alloc.vos theories/AllocInv.vos theories/Htx.vos theories/Htx_proofs.vos theories/Store.vos theories/Spec.vos theories/Refine.vos
theories/Refine_all.vo theories/Refine_all.glob theories/Refine_all.v.beautified theories/Refine_all.required_vo: theories/Refine_all.v theories/Base.vo theories/Vu64.vo theories/Vu64_proofs.vo theories/Hash.vo theories/KeyTypes.vo theories/KeyTypes_proofs.vo gen/Consts.vo theories/Sizing.vo theories/Alloc.vo theories/AllocInv.vo theories/AllocInv_proofs.vo theories/Htx.vo theories/Htx_proofs.vo theories/Store.vo theories/Spec.vo theories/Refine.vo theories/Refine_relink.vo theories/Refine_ops.vo
theories/Refine_all.vio: theories/Refine_all.v theories/Base.vio theories/Vu64.vio theories/Vu64_proofs.vio theories/Hash.vio theories/KeyTypes.vio theories/KeyTypes_proofs.vio gen/Consts.vio theories/Sizing.vio theories/Alloc.vio theories/AllocInv.vio theories/AllocInv_proofs.vio theories/Htx.vio theories/Htx_proofs.vio theories/Store.vio theories/Spec.vio theories/Refine.vio theories/Refine_relink.vio theories/Refine_ops.vio
theories/Refine_all.vos theories/Refine_all.vok theories/Refine_all.required_vos: theories/Refine_all.v theories/Base.vos theories/Vu64.vos theories/Vu64_proofs.vos theories/Hash.vos theories/KeyTypes.vos theories/KeyTypes_proofs.vos gen/Consts.vos theories/Sizing.vos theories/Alloc.vos theories/AllocInv.vos theories/AllocInv_proofs.vos theories/Htx.vos theories/Htx_proofs.vos theories/Store.vos theories/Spec.vos theories/Refine.vos theories/Refine_relink.vos theories/Refine_ops.vos
theories/Buf.vo theories/Buf.glob theories/Buf.v.beautified theories/Buf.required_vo: theories/Buf.v theories/Base.vo
theories/Buf.vio: theories/Buf.v theories/Base.vio
theories/Buf.vos theories/Buf.vok theories/Buf.required_vos: theories/Buf.v theories/Base.vos
theories/Bulk.vo theories/Bulk.glob theories/Bulk.v.beautified theories/Bulk.required_vo: theories/Bulk.v theories/Base.vo theories/KeyTypes.vo theories/Store.vo
theories/Bulk.vio: theories/Bulk.v theories/Base.vio theories/KeyTypes.vio theories/Store.vio
theories/Bulk.vos theories/Bulk.vok theories/Bulk.required_vos: theories/Bulk.v theories/Base.vos theories/KeyTypes.vos theories/Store.vos
theories/Db.vo theories/Db.glob theories/Db.v.beautified theories/Db.required_vo: theories/Db.v theories/Base.vo theories/Vu64.vo theories/KeyTypes.vo gen/Consts.vo theories/Sizing.vo theories/Alloc.vo theories/Htx.vo theories/Store.vo theories/Iter.vo theories/Stats.vo theories/Layout.vo theories/Bulk.vo
theories/Db.vio: theories/Db.v theories/Base.vio theories/Vu64.vio theories/KeyTypes.vio gen/Consts.vio theories/Sizing.vio theories/Alloc.vio theories/Htx.vio theories/Store.vio theories/Iter.vio theories/Stats.vio theories/Layout.vio theories/Bulk.vio
theories/Db.vos theories/Db.vok theories/Db.required_vos: theories/Db.v theories/Base.vos theories/Vu64.vos theories/KeyTypes.vos gen/Consts.vos theories/Sizing.vos theories/Alloc.vos theories/Htx.vos theories/Store.vos theories/Iter.vos theories/Stats.vos theories/Layout.vos theories/Bulk.vos
Props/C10.vo Props/C10.glob Props/C10.v.beautified Props/C10.required_vo: Props/C10.v theories/Base.vo theories/Vu64.vo theories/KeyTypes.vo theories/KeyTypes_proofs.vo theories/C10_lemmas.vo
Props/C10.vio: Props/C10.v theories/Base.vio theories/Vu64.vio theories/KeyTypes.vio theories/KeyTypes_proofs.vio theories/C10_lemmas.vio
Props/C10.vos Props/C10.vok Props/C10.required_vos: Props/C10.v theories/Base.vos theories/Vu64.vos theories/KeyTypes.vos theories/KeyTypes_proofs.vos theories/C10_lemmas.vos
Props/C09.vo Props/C09.glob Props/C09.v.beautified Props/C09.required_vo: Props/C09.v theories/Base.vo theories/Vu64.vo gen/Consts.vo theories/Sizing.vo theories/Sizing_proofs.vo
Props/C09.vio: Props/C09.v theories/Base.vio theories/Vu64.vio gen/Consts.vio theories/Sizing.vio theories/Sizing_proofs.vio
Props/C09.vos Props/C09.vok Props/C09.required_vos: Props/C09.v theories/Base.vos theories/Vu64.vos gen/Consts.vos theories/Sizing.vos theories/Sizing_proofs.vos
