(** Property C15 - read-only calls have no side effects on contents or files. *)
From Aby Require Import Base Vu64 KeyTypes Consts Sizing Alloc Htx Store Iter Stats Layout Bulk Db Db_proofs.

(** get, includes_key, len, is_empty, bulk_get, every traversal, the statistics calls,
    read_fill_buffer (and the runner's own probes) return the WHOLE world unchanged: every file of
    every map, every flag, every handle *)
Theorem C15_read_only_calls_change_nothing : forall w o, read_only o = true -> fst (step w o) = w.
Proof. exact read_only_no_effect. Qed.

(** any number of them, interleaved anywhere in a history, can be dropped without changing the
    resulting world *)
Theorem C15_read_only_calls_can_be_dropped : forall w ops,
  world_run w ops = world_run w (List.filter (fun o => negb (read_only o)) ops).
Proof. exact read_only_calls_irrelevant_strict. Qed.

(** flush / sync_all / sync_data (on a map or the database) never change contents or files: every
    map keeps its table and piece files ([store_eqv]), only the in-memory flags may change *)
Theorem C15_flush_keeps_contents : forall w o,
  flush_like o = true ->
  dbs (fst (step w o)) = dbs w /\ mids (fst (step w o)) = mids w /\ opened (fst (step w o)) = opened w /\
  dom (files (fst (step w o))) = dom (files w) /\
  forall mk s, files w !! mk = Some s -> exists s', files (fst (step w o)) !! mk = Some s' /\ store_eqv s' s.
Proof. exact flush_like_contents. Qed.

(** ... and on an unmodified map (dirty flag clear) they are the identity *)
Theorem C15_flush_on_unmodified_map_is_identity : forall w m mk t s,
  mids w !! m = Some (mk, t) -> files w !! mk = Some s -> dirty s = false ->
  fst (step w (OFlush m)) = w /\ fst (step w (OSyncAll m)) = w /\ fst (step w (OSyncData m)) = w.
Proof.
  intros w m mk t s Hm Hf Hd. split; [|split].
  - exact (flush_unmodified_noop w m mk t s Hm Hf Hd).
  - exact (sync_all_unmodified_noop w m mk t s Hm Hf Hd).
  - exact (sync_data_unmodified_noop w m mk t s Hm Hf Hd).
Qed.

(** the byte images do not depend on the flags *)
Theorem C15_images_unchanged : forall s s', store_eqv s s' -> render s = render s'.
Proof. exact render_eqv. Qed.

Example C15_nonvacuous_read_only := Examples.read_only_instance.
Example C15_nonvacuous_flush_clean := Examples.flush_clean_instance.
