(** Property C15 - read-only calls have no side effects on contents or files. *)
From Aby Require Import Base Vu64 KeyTypes Consts Sizing Alloc Htx Store Iter Stats Layout Bulk Db Db_proofs.

(** get, includes_key, len, is_empty, bulk_get, every traversal, the statistics calls,
    read_fill_buffer (and the runner's own probes) return the WHOLE world unchanged: every file of
    every map, every flag, every handle *)
Theorem C15_read_only_calls_change_nothing : forall w o, read_only o = true -> fst (step w o) = w.
Proof. exact read_only_no_effect. Qed.

(** any number of them, interleaved anywhere in a history, can be dropped without changing the
    resulting world *)
Theorem C15_read_only_calls_can_be_dropped : forall w ops,
  world_run w ops = world_run w (List.filter (fun o => negb (read_only o)) ops).
Proof. exact read_only_calls_irrelevant_strict. Qed.

(** flush / sync_all / sync_data (on a map or the database) never change contents or files: every
    map keeps its table and piece files ([store_eqv]), only the in-memory flags may change *)
Theorem C15_flush_keeps_contents : forall w o,
  flush_like o = true ->
  dbs (fst (step w o)) = dbs w /\ mids (fst (step w o)) = mids w /\ opened (fst (step w o)) = opened w /\
  dom (files (fst (step w o))) = dom (files w) /\
  forall mk s, files w !! mk = Some s -> exists s', files (fst (step w o)) !! mk = Some s' /\ store_eqv s' s.
Proof. exact flush_like_contents. Qed.

(** ... and on an unmodified map (dirty flag clear) they are the identity *)
Theorem C15_flush_on_unmodified_map_is_identity : forall w m mk t s,
  mids w !! m = Some (mk, t) -> files w !! mk = Some s -> dirty s = false ->
  fst (step w (OFlush m)) = w /\ fst (step w (OSyncAll m)) = w /\ fst (step w (OSyncData m)) = w.
Proof.
  intros w m mk t s Hm Hf Hd. split; [|split].
  - exact (flush_unmodified_noop w m mk t s Hm Hf Hd).
  - exact (sync_all_unmodified_noop w m mk t s Hm Hf Hd).
  - exact (sync_data_unmodified_noop w m mk t s Hm Hf Hd).
Qed.

(** the byte images do not depend on the flags *)
Theorem C15_images_unchanged : forall s s', store_eqv s s' -> render s = render s'.
Proof. exact render_eqv. Qed.

Example C15_nonvacuous_read_only := Examples.read_only_instance.
Example C15_nonvacuous_flush_clean := Examples.flush_clean_instance.

(** AT BYTE LEVEL (Io.v: an executable model of the I/O each call performs - every seek, read and
    write of the crate's VarFile layer on three flat files, compared event by event with the real
    crate through the fine io-trace hook by this check).  [ro_step x x']: the three byte strings
    and chunk sizes are unchanged and every logged event is a read or a seek to a position at or
    before the end of its file - no write, no set_len, no seek that would extend a file.  From
    files equal to [render s] of a well-formed state, each read-only call at byte level returns
    exactly the record-level result and is such a step. *)
From Aby Require Import Iter Stats Spec Refine Load Load_all Io Io_base Io_htx Io_proofs.

Theorem C15_byte_level_get : forall s himg kimg vimg (m : Io.mp),
  wf_state s -> fits64 s -> render s = Ok (himg, kimg, vimg) ->
  Io.m_kt m = kt s -> Io.m_n m = nb (hx s) -> Io.images m = (himg, kimg, vimg) ->
  forall key r, get s key = Ok r ->
  exists m', Io.get m key = Ok (r, m') /\ ro_step (Io.m_st m) (Io.m_st m') /\ Io.images m' = Io.images m.
Proof. exact Io_d_get. Qed.

Theorem C15_byte_level_includes_key : forall s himg kimg vimg (m : Io.mp),
  wf_state s -> fits64 s -> render s = Ok (himg, kimg, vimg) ->
  Io.m_kt m = kt s -> Io.m_n m = nb (hx s) -> Io.images m = (himg, kimg, vimg) ->
  forall key r, has s key = Ok r ->
  exists m', Io.has m key = Ok (r, m') /\ ro_step (Io.m_st m) (Io.m_st m') /\ Io.images m' = Io.images m.
Proof. exact Io_d_has. Qed.

Theorem C15_byte_level_len : forall s himg kimg vimg (m : Io.mp),
  wf_state s -> fits64 s -> render s = Ok (himg, kimg, vimg) -> Io.images m = (himg, kimg, vimg) ->
  exists m', Io.len m = Ok (len s, m') /\ ro_step (Io.m_st m) (Io.m_st m') /\ Io.images m' = Io.images m.
Proof. exact Io_d_len. Qed.

Theorem C15_byte_level_traversal : forall s himg kimg vimg (m : Io.mp),
  wf_state s -> fits64 s -> render s = Ok (himg, kimg, vimg) -> Io.images m = (himg, kimg, vimg) ->
  forall items h ex, iter_run s = Ok (items, h, ex) ->
  exists m', Io.iter_run m = Ok (items, h, ex, m') /\ ro_step (Io.m_st m) (Io.m_st m') /\ Io.images m' = Io.images m.
Proof. exact Io_d_iter_run. Qed.

Theorem C15_byte_level_statistics : forall s himg kimg vimg (m : Io.mp),
  wf_state s -> fits64 s -> render s = Ok (himg, kimg, vimg) ->
  Io.m_n m = nb (hx s) -> Io.images m = (himg, kimg, vimg) ->
  forall r, stats_of s = Ok r ->
  exists m', Io.stats_of m = Ok (r, m') /\ ro_step (Io.m_st m) (Io.m_st m') /\ Io.images m' = Io.images m.
Proof. exact Io_d_stats. Qed.

(** OVER THE CONCRETE BUFFER, ACROSS A CLOSE (Io_ro_sessions.v).  Create with any buffer kinds, any
    history, flush through ANY caches in front of the three files: the disk holds [dk], [dv], [dh]
    = [render] of the state.  Open those bytes with ANY OTHER buffer kinds, make any calls none of
    which is a put or a delete (none at all: "flush on an unmodified map"), flush through ANY
    caches: the disk holds [dk], [dv], [dh] again - byte for byte. *)
From Aby Require Import Refine_all Cache Cache_x Flatx Io_run Io_flat Io_flat_ro Io_cache Io_flat_upd Io_durable Io_sessions Io_det Io_ro_sessions.
Theorem C15_byte_level_read_only_session_keeps_the_files : forall t n bk bv bh ops1 bk' bv' bh' ops2,
  (1 <= n)%N -> pow2 n -> Forall (op_wf t) (ops1 ++ ops2) -> sized (Store.create t n) (ops1 ++ ops2) ->
  Forall (fun o => is_update o = false) ops2 ->
  exists s1 (cf1 cf2 : Io.fid -> list call),
    store_run (Store.create t n) ops1 = Ok (s1, snd (spec_run ∅ ops1)) /\
    store_run s1 ops2 = Ok (s1, snd (spec_run (fst (spec_run ∅ ops1)) ops2)) /\
    forall ck cv ch fuel,
      backs ck (Io.get_file (Io.empty_st bk bv bh) Io.FKey) ->
      backs cv (Io.get_file (Io.empty_st bk bv bh) Io.FVal) ->
      backs ch (Io.get_file (Io.empty_st bk bv bh) Io.FHtx) ->
      (forall f c, In (f, c) [(Io.FKey, ck); (Io.FVal, cv); (Io.FHtx, ch)] ->
         (xrun_fuel (Rabuf.k_cs c) (flat_of (Io.get_file (Io.empty_st bk bv bh) f)) (map call_op (cf1 f)) <= fuel)%nat) ->
      exists dk dv dh,
        flushed_disk fuel ck (cf1 Io.FKey) = Ok dk /\
        flushed_disk fuel cv (cf1 Io.FVal) = Ok dv /\
        flushed_disk fuel ch (cf1 Io.FHtx) = Ok dh /\
        render s1 = Ok (dh, dk, dv) /\
        forall ck' cv' ch' fuel',
          backs ck' (Io.get_file (Io.reopen_st dk dv dh bk' bv' bh') Io.FKey) ->
          backs cv' (Io.get_file (Io.reopen_st dk dv dh bk' bv' bh') Io.FVal) ->
          backs ch' (Io.get_file (Io.reopen_st dk dv dh bk' bv' bh') Io.FHtx) ->
          (forall f c, In (f, c) [(Io.FKey, ck'); (Io.FVal, cv'); (Io.FHtx, ch')] ->
             (xrun_fuel (Rabuf.k_cs c) (flat_of (Io.get_file (Io.reopen_st dk dv dh bk' bv' bh') f)) (map call_op (cf2 f))
                <= fuel')%nat) ->
          flushed_disk fuel' ck' (cf2 Io.FKey) = Ok dk /\
          flushed_disk fuel' cv' (cf2 Io.FVal) = Ok dv /\
          flushed_disk fuel' ch' (cf2 Io.FHtx) = Ok dh.
Proof. exact read_only_session_keeps_the_files. Qed.

(** ANY HISTORY OF READ-ONLY CALLS - lookups, membership tests, the length calls, full traversals and the statistics calls in any
    order - performed with its real seeks and reads on files equal to [render] of a well-formed state leaves the three byte
    strings exactly as they are (Io_wrun.v). *)
From Aby Require Import Io_wrun.
Theorem C15_byte_level_read_only_history_keeps_the_files : forall ops s sp m,
  wf_state s -> represents s sp -> simg s m -> wsized s ops ->
  Forall (fun o => match o with WCall o => match o with Put _ _ | Del _ => False | _ => op_wf (kt s) o end | _ => True end) ops ->
  exists m' outs, wio_run m ops = Ok (m', outs) /\ Io.images m' = Io.images m.
Proof. exact wio_readonly_history_keeps_the_files. Qed.
