(** Property C06 - freed storage is reclaimed; file size is bounded by the live set. *)
From Aby Require Import Base Vu64 KeyTypes Consts Sizing Alloc AllocInv AllocInv_proofs Htx Store Spec
  Refine Refine_all Structure Bounded.

(** after any history both piece files satisfy the allocator invariant [alloc_inv] (AllocInv.v):
    the slots tile [header, end of file) without gaps or overlaps, every slot has a size the
    allocator can produce, free list i links exactly the free slots of class i, no slot is on two
    lists or twice on one, every free slot is listed *)
Theorem C06_allocator_invariant_after_any_history : forall s m ops,
  Inv s -> represents s m -> Forall (op_wf (kt s)) ops ->
  exists s', store_run s ops = Ok (s', snd (spec_run m ops)) /\
             AInv key_cfg (keyf s') /\ AInv val_cfg (valf s').
Proof.
  intros s m ops HI HR Hw. destruct (structure_after_history s m ops HI HR Hw) as (s' & Hr & Hs & _).
  exists s'. split; [exact Hr|]. split; [exact (so_kalloc _ Hs)|exact (so_valloc _ Hs)].
Qed.

(** every slot is either in use (and then on no free list) or free (and then on exactly one free
    list, exactly once) *)
Theorem C06_partition_key : @partition_spec krec key_cfg.
Proof. exact (partition_ok_stmt krec key_cfg key_cfg_ok). Qed.
Theorem C06_partition_val : @partition_spec bytes val_cfg.
Proof. exact (partition_ok_stmt bytes val_cfg val_cfg_ok). Qed.

(** a used slot belongs to exactly one live entry: used key slots are the key records, each holding
    a different key; used value slots are owned by exactly one key record *)
Theorem C06_used_by_exactly_one_entry : forall s, Inv s ->
  (forall o1 o2 r1 r2, kheap s !! o1 = Some r1 -> kheap s !! o2 = Some r2 -> k_key r1 = k_key r2 -> o1 = o2) /\
  (forall vo v, vheap s !! vo = Some v -> exists off r, kheap s !! off = Some r /\ k_voff r = vo) /\
  (forall o1 o2 r1 r2, kheap s !! o1 = Some r1 -> kheap s !! o2 = Some r2 -> k_voff r1 = k_voff r2 -> o1 = o2).
Proof.
  intros s HI. pose proof (Inv_structure s HI) as Hs.
  split; [exact (so_uniq _ Hs)|]. split; [exact (so_vown _ Hs)|exact (so_vinj _ Hs)].
Qed.

(** a file is extended only when no free slot of a suitable size exists (exact class for the small
    classes, first fit on the shared list of large slots), and then by exactly the rounded size *)
Theorem C06_extend_only_if_needed_key : @write_new_spec krec key_cfg.
Proof. exact (write_new_ok_stmt krec key_cfg key_cfg_ok). Qed.
Theorem C06_extend_only_if_needed_val : @write_new_spec bytes val_cfg.
Proof. exact (write_new_ok_stmt bytes val_cfg val_cfg_ok). Qed.

(** rewriting (value outgrew its slot, key record moved): the old slot is pushed on its free list
    before the new one is allocated; deleting returns the slot and never grows the file *)
Theorem C06_rewrite_key : @write_old_spec krec key_cfg.
Proof. exact (write_old_ok_stmt krec key_cfg key_cfg_ok). Qed.
Theorem C06_rewrite_val : @write_old_spec bytes val_cfg.
Proof. exact (write_old_ok_stmt bytes val_cfg val_cfg_ok). Qed.
Theorem C06_delete_key : @delete_spec krec key_cfg.
Proof. exact (delete_ok_stmt krec key_cfg key_cfg_ok). Qed.
Theorem C06_delete_val : @delete_spec bytes val_cfg.
Proof. exact (delete_ok_stmt bytes val_cfg val_cfg_ok). Qed.

(** the slot walk of the statistics calls terminates and visits every slot exactly once *)
Theorem C06_walk_terminates_key : @walk_spec krec key_cfg.
Proof. exact (walk_ok_stmt krec key_cfg key_cfg_ok). Qed.
Theorem C06_walk_terminates_val : @walk_spec bytes val_cfg.
Proof. exact (walk_ok_stmt bytes val_cfg val_cfg_ok). Qed.

(** HENCE file sizes stay bounded for any workload whose live set stays bounded, however many
    operations it performs.  [peak_live m ops]: the largest number of live entries at any point of
    the history.  (1) For every slot size y the number of slots of that size never exceeds what the
    start state had or the peak number of live entries: *)
Theorem C06_slots_bounded_by_peak_live_set : forall s m ops s' outs P,
  Inv s -> represents s m -> Forall (op_wf (kt s)) ops -> store_run s ops = Ok (s', outs) ->
  (peak_live m ops <= P)%nat ->
  forall y,
    (n_eq y (keyf s') <= max (n_eq y (keyf s)) P)%nat /\
    (n_eq y (valf s') <= max (n_eq y (valf s)) P)%nat.
Proof. exact C06_bounded_by_peak_live_set. Qed.

(** (2) with keys and values shorter than L bytes, both file lengths are bounded by a function of
    (start length, peak live count, L) - the length of the history does not occur: *)
Theorem C06_file_size_bounded_by_live_set : forall s m ops s' outs P L,
  Inv s -> represents s m -> Forall (op_wf (kt s)) ops -> store_run s ops = Ok (s', outs) ->
  (peak_live m ops <= P)%nat ->
  (forall k v, m !! k = Some v -> blen k < L) -> Forall (op_short L) ops ->
  fend (keyf s') <= bound (fend (keyf s)) P L /\ fend (valf s') <= bound (fend (valf s)) P L.
Proof. exact C06_file_size_bounded. Qed.

Theorem C06_bound_closed_form : forall F P L,
  bound F P L <= F + N.of_nat P * (5080 + (L + 164) / 128 * (L + 164)).
Proof. exact bound_closed_form. Qed.

(** what is NOT true (kernel-checked counterexamples in Bounded.v): the number of LARGE slots of
    size >= y is not bounded by the peak live count alone - first fit cannot re-use a freed 1024-byte
    slot for a 1152-byte request, so one live value that keeps growing leaves one slot per size
    behind; the bound needs the size limit L (theorem above, and C06_n_ge_bounded). *)
Theorem C06_large_slots_need_the_size_bound : ~ n_ge_claim.
Proof. exact C06_n_ge_refuted_large. Qed.

(** non-vacuity: delete then re-insert at the same size re-uses the freed slots: the files do not grow *)
Definition c06_s1 : res (store * list dout) :=
  store_run (create KBytes 2) [Put [1;1] (repeat 7 100); Put [2] [3]].
Example C06_nonvacuous_reuse :
  match c06_s1 with
  | Ok (s1, _) =>
    match store_run s1 [Del [1;1]; Put [9;9] (repeat 8 100)] with
    | Ok (s2, outs) =>
      outs = [DOpt (Some (repeat 7 100)); DUnit] /\
      fend (keyf s2) = fend (keyf s1) /\ fend (valf s2) = fend (valf s1) /\ 192 < fend (valf s1)
    | _ => False
    end
  | _ => False
  end.
Proof. vm_compute. repeat split; reflexivity. Qed.

(** AT BYTE LEVEL (Io_bounded.v): the lengths of the key and value FILES that the I/O of the map
    layer produces (the flat files of [Io], compared with the real files byte for byte) obey the
    same bound: after any history they are at most [bound (length at the start) P L], with [P] the
    peak number of live entries and [L] the size limit - whatever the length of the history *)
From Aby Require Import Layout Load Load_all Io Io_base Io_htx Io_run Io_bounded.
Theorem C06_byte_level_file_size_bounded : forall s sp m ops s' outs P L,
  wf_state s -> represents s sp -> simg s m -> Forall (op_wf (kt s)) ops -> sized s ops ->
  store_run s ops = Ok (s', outs) ->
  (peak_live sp ops <= P)%nat ->
  (forall k v, sp !! k = Some v -> blen k < L) -> Forall (op_short L) ops ->
  exists m', io_run m ops = Ok (m', outs) /\
    Io.fend (Io.s_key (Io.m_st m')) <= bound (Io.fend (Io.s_key (Io.m_st m))) P L /\
    Io.fend (Io.s_val (Io.m_st m')) <= bound (Io.fend (Io.s_val (Io.m_st m))) P L.
Proof. exact byte_level_file_size_bounded. Qed.
