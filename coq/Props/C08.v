(** Property C08 - internal record relocation and chain relinking are invisible. *)
From Aby Require Import Base Vu64 Hash KeyTypes Consts Sizing Alloc AllocInv Htx Store Spec Refine
  Refine_relink Refine_all.

(** Overwriting: whatever moves inside the files (the value record when the new value does not fit
    its slot; then the key record when its value-offset field grew past its slot; then, in cascade
    towards the bucket head, every predecessor whose link field grew), the call returns [Ok], the
    affected key ends up with exactly the new value and every other entry keeps its value
    ([<[k := v]> m] differs from [m] at [k] only), for every position in a chain of colliding keys
    and every file offset. *)
Theorem C08_overwrite_invisible : forall s m k v,
  Inv s -> represents s m -> key_wf (kt s) k -> val_wf v ->
  exists s', put s k v = Ok s' /\ Inv s' /\ represents s' (<[k := v]> m) /\
             kt s' = kt s /\ nb (hx s') = nb (hx s).
Proof. exact put_closed. Qed.

(** Deleting: unlinking from the bucket head or from a predecessor (which may itself move because
    its link field grew), never loses or alters another entry; returns the removed value or None. *)
Theorem C08_delete_invisible : forall s m k,
  Inv s -> represents s m -> key_wf (kt s) k ->
  exists s', del s k = Ok (s', m !! k) /\ Inv s' /\ represents s' (delete k m) /\
             kt s' = kt s /\ nb (hx s') = nb (hx s).
Proof. exact del_closed. Qed.

(** the re-link step itself: a bucket whose chain is broken at one link (the record that moved from
    [stale] to [newoff]) is repaired - whatever the length of the intact prefix, i.e. the position
    of the moved record - without touching other buckets, the value file, the set of records or the
    counters; the cascade terminates (fuel > length of the prefix suffices) *)
Theorem C08_relink : relink_stmt.
Proof. exact relink_closed. Qed.

(** ** Non-vacuity: the relocation cases are reachable.  One-bucket table (all keys collide); key A
    of 11 bytes fills its 16-byte key slot exactly while its value offset is below 16 KiB. *)
Definition keyA : bytes := repeat 65 11.
Definition filler (j : N) : dop := Put [102; j] (repeat j 500).
Definition fillers : list dop := map filler (seqN' 0 33).
Definition koff_of (s : store) (k : bytes) : res (option N) :=
  let* o := find s k in Ok (fst <$> o).

(** position and relocation of [k] under [op]: (offset before, predecessor before, offset after, result of get after) *)
Definition probe (pre : list dop) (k : bytes) (v : bytes)
  : res (option (N * N) * option (N * N) * bool * N) :=
  let* (s, _) := store_run (create KBytes 1) pre in
  let* a := find s k in
  let* s' := put s k v in
  let* b := find s' k in
  let* g := get s' k in
  Ok (a, b, bool_decide (g = Some v), len s').

(** key B of 10 bytes does the same when inserted into a non-empty chain (2-byte link) *)
Definition keyB : bytes := repeat 66 10.

(** A is the LAST record of the chain (inserted first): its value moves past 16 KiB, the key record
    moves from 192 to 736, its predecessor (208) is re-linked; the new value is read back *)
Example C08_relocates_last :
  probe ([Put keyA [1]] ++ fillers) keyA (repeat 7 600)
  = Ok (Some (192, 208), Some (736, 208), true, 34).
Proof. vm_compute. reflexivity. Qed.

(** B is the FIRST record of the chain (inserted last, into slots freed at low offsets): the bucket
    head is re-linked *)
Example C08_relocates_first :
  probe (fillers ++ [Del [102; 3]; Put keyB (repeat 1 480)]) keyB (repeat 7 600)
  = Ok (Some (240, 0), Some (720, 0), true, 33).
Proof. vm_compute. reflexivity. Qed.

(** B is in the MIDDLE of the chain *)
Example C08_relocates_middle :
  probe (fillers ++ [Del [102; 3]; Put keyB (repeat 1 480); Put [67] [2]]) keyB (repeat 7 600)
  = Ok (Some (240, 720), Some (736, 720), true, 34).
Proof. vm_compute. reflexivity. Qed.

(** A is the ONLY record: its own value outgrows 16 KiB *)
Example C08_relocates_only :
  probe [Put keyA (repeat 1 (N.to_nat 20000))] keyA (repeat 2 (N.to_nat 20200))
  = Ok (Some (192, 0), Some (208, 0), true, 1).
Proof. vm_compute. reflexivity. Qed.

(** a delete in the middle of a chain of 35 keeps the neighbours *)
Example C08_delete_middle :
  (let* (s, _) := store_run (create KBytes 1) (fillers ++ [Put keyA [5]; Put [66] [2]]) in
   let* (s', r) := del s keyA in
   let* g := get s' [66] in let* g2 := get s' [102; 32] in
   Ok (r, g, length <$> g2, len s'))
  = Ok (Some [5], Some [2], Some 500%nat, 34).
Proof. vm_compute. reflexivity. Qed.
