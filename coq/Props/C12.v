(** Property C12 - files written by the released format stay readable (format and hash stability). *)
From Aby Require Import Base Vu64 Vu64_proofs Hash Golden_hash KeyTypes Consts Sizing Alloc AllocInv Htx Store Spec
  Refine Refine_all Structure Layout Load Load_all Golden_lib Golden Golden_proofs.

(** placement: the record of a key is found on the chain of bucket [hash_value k mod n]; [hash_value]
    is a closed function of the key bytes alone and the bucket a function of (key bytes, table size):
    nothing about the process or run enters *)
Theorem C12_placement : forall s k, Inv s -> key_wf (kt s) k ->
  forall off prev, find s k = Ok (Some (off, prev)) ->
  exists ch r, kheap s !! off = Some r /\ k_key r = k /\
    off ∈ ch (hash_value k mod nb (hx s)) /\
    bucket_chain_ok s (hash_value k mod nb (hx s)) (ch (hash_value k mod nb (hx s))).
Proof. exact placement. Qed.

(** every key record of a consistent map lies on the chain of the bucket its key hashes to *)
Theorem C12_records_in_their_bucket : forall s, Inv s ->
  exists ch, (forall b, b < nb (hx s) -> bucket_chain_ok s b (ch b)) /\
      (forall off r, kheap s !! off = Some r -> off ∈ ch (hash_value (k_key r) mod nb (hx s))).
Proof. intros s HI. exact (so_chains _ (Inv_structure s HI)). Qed.

(** hash stability against the PINNED RELEASE: 256 (key, hash) vectors computed by abyssiniandb
    0.1.4 @ 4b82afd and frozen in golden/hash_vectors.txt are reproduced by the model's hash
    (kernel computation); gen/Hash_vectors.v re-proves on every run that the model's hash also
    equals what the CURRENT crate computes (64 vectors computed by the crate on this run) *)
Theorem C12_hash_matches_pinned_release : forall k h, In (k, h) frozen_vectors -> hash_value k = h.
Proof. exact frozen_vectors_spec. Qed.

(** offset / size encoding: the varint used for sizes, lengths and (scaled) offsets round-trips *)
Theorem C12_vu64_roundtrip : forall v rest, v < 2 ^ 64 -> decode (encode v ++ rest) = Some (v, rest).
Proof. exact decode_encode. Qed.

(** the guarantees continue to hold when a golden image is updated further: the refinement theorem
    starts from ANY state with the invariant (C01_refines_ideal_map), not only from [create] *)
Theorem C12_updates_from_any_consistent_state : forall s m ops,
  Inv s -> represents s m -> Forall (op_wf (kt s)) ops ->
  exists s', store_run s ops = Ok (s', snd (spec_run m ops)) /\ Inv s' /\
             represents s' (fst (spec_run m ops)) /\ kt s' = kt s /\ nb (hx s') = nb (hx s).
Proof. exact run_refines. Qed.

(** THE GOLDEN IMAGES: for each of the 15 directories written by the pinned release (5 key types x
    3 histories; bytes committed in golden/ and as hex in Golden.v) the committed bytes (a) are
    exactly [render] of the state the model reaches on the committed history (kernel computation,
    [golden_ok]), a state with the invariant; (b) are read back by the independent reader [load]
    to that state; (c) hold, as the reader recovers them, exactly the ideal map of the history, which
    contains every committed expected entry and has their number of entries *)
Theorem C12_golden_images : forall g, In g all_golden ->
  exists s m s' l, Inv s /\ represents s m /\ m = fst (spec_run ∅ (g_ops g)) /\ render s = Ok (g_imgs g) /\
    load (g_kt g) (g_imgs g) = Ok s' /\ hx s' = hx s /\ keyf s' = keyf s /\ valf s' = valf s /\
    contents s' = Ok l /\ l ≡ₚ map_to_list m /\
    (forall k v, In (k, v) (g_expected g) -> m !! k = Some v) /\ size m = length (g_expected g).
Proof. exact all_golden_read_back. Qed.

Example C12_golden_count : length all_golden = 15%nat.
Proof. reflexivity. Qed.

Example C12_nonvacuous : hash_value [97] = 234187188307230837 /\ hash_value [] = 0 /\ length frozen_vectors = 256%nat.
Proof. vm_compute. repeat split; reflexivity. Qed.
