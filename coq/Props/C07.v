(** Property C07 - tuning parameters never change observable behaviour. *)
From Aby Require Import Base Vu64 Hash KeyTypes Consts Sizing Alloc AllocInv Htx Htx_proofs Store Spec
  Refine Refine_all Iter Iter_proofs Layout Bulk Db Cache Cache_proofs.

(** (1) every hash-table size the crate derives - given directly (BucketsSize x -> next power of
    two) or as a capacity (Capacity c -> 8 below 8, else next power of two of c + c/8), or the
    default - is a power of two >= 1 (so in particular >= 1: a single bucket upward) *)
Theorem C07_bucket_count : forall p n,
  buckets_of_param p = Ok n ->
  (match p with
   | BucketsSize x => x <= 2 ^ 63
   | Capacity x => x + x / 8 <= 2 ^ 63
   | BDefault => True
   end) ->
  is_pow2 n /\ 1 <= n.
Proof. exact C07_buckets_param. Qed.

(** the only rejected value is Capacity(0) (a panic at creation) *)
Theorem C07_bucket_count_total : forall p,
  (match p with Capacity 0 => False | _ => True end) -> exists n, buckets_of_param p = Ok n.
Proof. exact buckets_of_param_total. Qed.

(** (2) for ANY two table sizes >= 1 and any history of calls the results are identical, call by
    call: both equal the ideal map's results (C01) - this needs no power-of-two assumption *)
Theorem C07_same_results_for_every_table_size : forall t n1 n2 ops,
  1 <= n1 -> 1 <= n2 -> Forall (op_wf t) ops ->
  exists s1 s2 outs,
    store_run (create t n1) ops = Ok (s1, outs) /\ store_run (create t n2) ops = Ok (s2, outs) /\
    exists m, represents s1 m /\ represents s2 m.
Proof.
  intros t n1 n2 ops H1 H2 Hw.
  destruct (run_from_create t n1 ops H1 Hw) as (s1 & Hr1 & _ & HR1).
  destruct (run_from_create t n2 ops H2 Hw) as (s2 & Hr2 & _ & HR2).
  exists s1, s2, (snd (spec_run ∅ ops)). split; [exact Hr1|]. split; [exact Hr2|].
  exists (fst (spec_run ∅ ops)). split; assumption.
Qed.

(** traversals agree up to order across table sizes: both enumerate the same ideal map *)
Theorem C07_same_traversal_up_to_order : forall s1 s2 m,
  Inv s1 -> Inv s2 -> represents s1 m -> represents s2 m ->
  exists l1 l2, iter_all s1 = Ok l1 /\ iter_all s2 = Ok l2 /\ l1 ≡ₚ l2.
Proof.
  intros s1 s2 m I1 I2 R1 R2.
  destruct (iter_all_spec s1 m I1 R1) as (l1 & H1 & P1).
  destruct (iter_all_spec s2 m I2 R2) as (l2 & H2 & P2).
  exists l1, l2. split; [exact H1|]. split; [exact H2|]. rewrite P1, P2. reflexivity.
Qed.

(** (3) parameters passed when opening an existing map are ignored: the stored table size and
    files are used whatever [p] says *)
Theorem C07_open_existing_ignores_params : forall w mk s t p1 p2,
  files w !! mk = Some s -> open_map w mk t p1 = open_map w mk t p2.
Proof. intros w mk s t p1 p2 H. unfold open_map. rewrite H. reflexivity. Qed.

(** the buffer-size parameters (p_val, p_key, p_htx) do not occur in the model's data path at all:
    [step] passes them to [open_map], which reads only [p_buckets] and only at creation *)
Theorem C07_buffer_params_irrelevant : forall w mk t b v1 k1 h1 v2 k2 h2,
  open_map w mk t (Params b v1 k1 h1) = open_map w mk t (Params b v2 k2 h2).
Proof. intros. unfold open_map. destruct (files w !! mk); reflexivity. Qed.

Example C07_nonvacuous :
  buckets_of_param (BucketsSize 3) = Ok 4 /\ buckets_of_param (BucketsSize 0) = Ok 1 /\
  buckets_of_param (Capacity 1) = Ok 8 /\ buckets_of_param (Capacity 100) = Ok 128 /\
  buckets_of_param (Capacity 0) = Panic BadParam /\ buckets_of_param BDefault = Ok 16777216.
Proof. vm_compute. repeat split; reflexivity. Qed.

(* from here on the names of the cache model (read, write, flush, ... of Cache.Rabuf) are in scope *)
Import Rabuf.

(** (4) THE BUFFER CACHE.  [Cache.Rabuf] is an executable model of rabuf::BufFile (the dependency
    every file access goes through) for the feature set the crate enables: chunk table, dirty flags,
    pinned chunk 0, flush-everything-and-drop on overflow, auto / per-mille growth of the chunk
    limit, seek past the end extends the file; it is run against the REAL rabuf on random operation
    sequences by this check.  [Flat]: a plain byte string with a position.  For every chunk size > 0
    and every configuration satisfying [cache_inv] at open - that is every FileBufSizeParam except
    PerMille(p) with p < 1000 ([C07_every_setting_opens_well]: Size(v) always yields >= 2 chunks, the
    repaired defect D5) - every operation sequence inside the flat model's domain returns, operation
    by operation, exactly what the flat model returns (so results cannot depend on the buffer
    setting, however small: eviction is invisible), never runs out of fuel, and after a flush the
    disk is the flat byte string. *)
Theorem C07_cache_transparent : forall ops fuel c f f' outs,
  cache_inv c -> R c f -> frun (k_cs c) f ops = Some (f', outs) ->
  (run_fuel (k_cs c) f ops <= fuel)%nat ->
  exists c', crun fuel c ops = Ok (c', outs) /\ cache_inv c' /\ R c' f' /\
    logical c' = f_bytes f' /\
    exists c'', flush c' = Ok c'' /\ k_disk c'' = f_bytes f'.
Proof. exact cache_refines_flat. Qed.

Theorem C07_every_setting_opens_well : forall b disk c,
  open_param b disk = Ok c -> (forall p, b = BPerMilleP p -> 1000 <= p) ->
  cache_inv c /\ R c (Flat 0 disk).
Proof. exact inv_open_param. Qed.

Theorem C07_size_setting_has_two_chunks : forall v, 2 <= chunks_of_param v.
Proof. exact size_param_at_least_two. Qed.

(** KNOWN FINDING D8 (known_findings.txt; the defect is inside the dependency): PerMille(p) with
    p < 1000 on a file that has outgrown one chunk opens with a single chunk, and with the single
    chunk pinned any access to another chunk exhausts EVERY fuel - the real code recurses forever *)
Theorem C07_known_finding_D8_opens_with_one_chunk : forall p disk,
  p < 1000 -> (blen disk / 1000) * p < aby_chunk_size ->
  exists c, open_param (BPerMilleP p) disk = Ok c /\ k_max c = 1.
Proof. exact d8_opens_with_one_chunk. Qed.

Theorem C07_known_finding_D8_diverges : forall fuel c off,
  single_pinned c -> add_chunk fuel c off = OutOfFuel.
Proof. exact single_chunk_diverges. Qed.


(** (5) THE MAP OVER THE CACHE (Flatx.v, Cache_x.v, Io_flat.v, Io_flat_ro.v, Io_cache.v).
    The map layer also reads beyond the end of the table file (the 8-byte stride over the bucket
    bitmap, up to 7 bytes); [xrun] is the flat reference extended to such reads (zeros, the file is
    not extended; specified when the last chunk touched starts at or below the end, which is
    exactly when the real code does not panic) and the cache is transparent for it too. *)
From Aby Require Import Iter Stats Layout Flatx Cache_x Io Io_base Io_htx Io_run Io_flat Io_flat_ro Io_cache.
Import Io.

Theorem C07_cache_transparent_beyond_the_end : forall ops fuel c f f' outs,
  cache_invx c -> R c f -> xrun (k_cs c) f ops = Some (f', outs) -> (xrun_fuel (k_cs c) f ops <= fuel)%nat ->
  exists c', crun fuel c ops = Ok (c', outs) /\ cache_invx c' /\ R c' f' /\ logical c' = f_bytes f' /\
    exists c'', flush c' = Ok c'' /\ k_disk c'' = f_bytes f'.
Proof. exact cache_refines_xflat. Qed.

(** whichever [VarFile] primitive makes a call ([read_exact] or a [SmallRead] fast path, [write_all],
    a fitting [write] or a [SmallWrite] fast path, any [SeekFrom] arriving at the position) *)
Theorem C07_cache_transparent_for_every_way_of_calling : forall ops ops' fuel c f f' outs,
  cache_invx c -> R c f -> same_calls (k_cs c) f ops ops' ->
  xrun (k_cs c) f ops = Some (f', outs) -> (xrun_fuel (k_cs c) f ops <= fuel)%nat ->
  exists c' outs', crun fuel c ops' = Ok (c', outs') /\ map norm_out outs' = map norm_out outs /\
    cache_invx c' /\ R c' f' /\ logical c' = f_bytes f' /\
    exists c'', flush c' = Ok c'' /\ k_disk c'' = f_bytes f'.
Proof. exact cache_refines_xflat_variants. Qed.

(** every history of the byte-level model is, file by file, a list of buffer calls whose events
    are exactly the logged ones (the log is what the correspondence check compares with the real
    I/O trace, event by event) *)
Theorem C07_every_history_is_a_list_of_buffer_calls : forall ops m m' outs,
  io_run m ops = Ok (m', outs) -> calls_between (m_st m) (m_st m').
Proof. exact io_run_calls. Qed.

(** a step whose events pass the decidable test [evs_ok] (evaluated, extracted, on every call of
    every history of the correspondence runs) is served by ANY cache in front of each file: the
    calls return what the flat file returned to the map layer, the cache then represents the file
    after the step, and a flush puts exactly those bytes on the disk *)
Theorem C07_checked_step_over_any_buffer : forall s s' evs,
  calls_between s s' -> s_log s' = rev evs ++ s_log s ->
  (forall f, evs_ok (fcs (Io.get_file s f)) f (fp (Io.get_file s f)) (fend (Io.get_file s f)) evs = true) ->
  exists (cf : fid -> list call) evs',
    s_log s' = rev evs' ++ s_log s /\
    (forall f, evs_on f evs' = tevs f (flat_of (Io.get_file s f)) (cf f)) /\
    forall f, served_by_cache s s' f (cf f).
Proof. intros s s' evs H1 H2 H3. exact (in_domain_served s s' (checked_step_in_domain s s' evs H1 H2 H3)). Qed.

(** every buffer setting the crate accepts (all but the known finding) gives such a cache *)
Theorem C07_every_setting_backs_the_file : forall b disk c chunk,
  (forall p, b = BPerMilleP p -> 1000 <= p) -> open_param b disk = Ok c -> k_cs c = chunk ->
  backs c (File disk 0 chunk).
Proof. exact every_setting_backs. Qed.

(** WITHOUT any test: after [create] with a power of two of buckets and ANY history, every
    read-only operation (get, includes_key, len, a whole traversal, the statistics) returns the
    record-level result, leaves the images unchanged, and its calls on each of the three files are
    served by any cache in front of that file - the number of chunks, the per-mille / auto growth,
    what is cached and what was evicted cannot be observed *)
Theorem C07_readonly_operations_over_any_buffer : forall t n bk bv bh ops,
  1 <= n -> pow2 n -> Forall (op_wf t) ops -> sized (Store.create t n) ops ->
  exists m0 m' s',
    Io.create t n bk bv bh = Ok m0 /\
    store_run (Store.create t n) ops = Ok (s', snd (spec_run ∅ ops)) /\
    io_run m0 ops = Ok (m', snd (spec_run ∅ ops)) /\
    render s' = Ok (Io.images m') /\
    (forall key r, Store.get s' key = Ok r ->
       exists m2, Io.get m' key = Ok (r, m2) /\ Io.images m2 = Io.images m' /\
         exists cf, forall f, served_by_cache (m_st m') (m_st m2) f (cf f)) /\
    (forall key r, Store.has s' key = Ok r ->
       exists m2, Io.has m' key = Ok (r, m2) /\ Io.images m2 = Io.images m' /\
         exists cf, forall f, served_by_cache (m_st m') (m_st m2) f (cf f)) /\
    (exists m2, Io.len m' = Ok (Store.len s', m2) /\ Io.images m2 = Io.images m' /\
         exists cf, forall f, served_by_cache (m_st m') (m_st m2) f (cf f)) /\
    (forall items h ex, Iter.iter_run s' = Ok (items, h, ex) ->
       exists m2, Io.iter_run m' = Ok (items, h, ex, m2) /\ Io.images m2 = Io.images m' /\
         exists cf, forall f, served_by_cache (m_st m') (m_st m2) f (cf f)) /\
    (forall r, Stats.stats_of s' = Ok r ->
       exists m2, Io.stats_of m' = Ok (r, m2) /\ Io.images m2 = Io.images m' /\
         exists cf, forall f, served_by_cache (m_st m') (m_st m2) f (cf f)).
Proof. exact readonly_over_any_cache. Qed.

(** a whole session - create, two puts, a get, a traversal, the statistics, a delete - computed:
    406 events, among them a read that ends beyond the end of the 258-byte table file; every file
    passes [evs_ok] for 4 KiB chunks (and the table file does NOT for 4-byte chunks) *)
Example C07_session_in_the_domain :
  exists log,
    (let* m0 := Io.create KBytes 16 BufAuto BufAuto BufAuto in
     let* m1 := Io.put m0 [1;2;3] [9;9] in
     let* m2 := Io.put m1 [4;5] [7] in
     let* (_, m3) := Io.get m2 [1;2;3] in
     let* (_, m4) := Io.iter_run m3 in
     let* (_, m5) := Io.stats_of m4 in
     let* (_, m6) := Io.del m5 [4;5] in
     Ok (rev (s_log (m_st m6)))) = Ok log /\
    forall f, evs_ok 4096 f 0 0 log = true.
Proof.
  eexists. split; [vm_compute; reflexivity|]. intros [| |]; vm_compute; reflexivity.
Qed.

(** ... and for the UPDATING operations too (Io_flat_upd.v): creation and ANY history, as a whole,
    are served by any cache in front of each file - every call of the history returns what the
    flat file returns, whatever the buffer setting *)
From Aby Require Import Io_flat_upd.
Theorem C07_every_history_over_any_buffer : forall t n bk bv bh ops,
  1 <= n -> pow2 n -> Forall (op_wf t) ops -> sized (Store.create t n) ops ->
  exists m0 m' s',
    Io.create t n bk bv bh = Ok m0 /\
    store_run (Store.create t n) ops = Ok (s', snd (spec_run ∅ ops)) /\
    io_run m0 ops = Ok (m', snd (spec_run ∅ ops)) /\
    render s' = Ok (Io.images m') /\
    exists cf, forall f, served_by_cache (empty_st bk bv bh) (m_st m') f (cf f).
Proof. exact history_over_any_cache. Qed.

(** ... and AS THE CALLS ARE REALLY MADE (Io_methods.v): every read and write through the method of
    the buffered file the crate's VarFile forwards it to ([read_u8] .. [read_exact_maybeslice],
    [write_u8] .. [write_zero], the partial [write] of std's write_all loop), every seek through any
    SeekFrom arriving at the logged position.  The fine io-trace hook prints the method with every
    read and write of the REAL trace; the runs count them and check [read_guard] / [write_guard]
    (evidence `real_calls_by_method_of_the_buffered_file`). *)
From Aby Require Import Io_methods.
Theorem C07_every_history_over_any_buffer_as_really_called : forall t n bk bv bh ops,
  1 <= n -> pow2 n -> Forall (op_wf t) ops -> sized (Store.create t n) ops ->
  exists m' s' (cf : fid -> list call),
    store_run (Store.create t n) ops = Ok (s', snd (spec_run ∅ ops)) /\
    render s' = Ok (Io.images m') /\
    forall f c fuel ops', backs c (Io.get_file (empty_st bk bv bh) f) ->
      made_via_all (k_cs c) (flat_of (Io.get_file (empty_st bk bv bh) f)) (cf f) ops' ->
      (xrun_fuel (k_cs c) (flat_of (Io.get_file (empty_st bk bv bh) f)) (map call_op (cf f)) <= fuel)%nat ->
      exists c' outs',
        crun fuel c ops' = Ok (c', outs') /\
        map norm_out outs' = map norm_out (touts (flat_of (Io.get_file (empty_st bk bv bh) f)) (cf f)) /\
        cache_invx c' /\ R c' (flat_of (Io.get_file (m_st m') f)) /\
        exists c'', flush c' = Ok c'' /\ k_disk c'' = fb (Io.get_file (m_st m') f).
Proof.
  intros t n bk bv bh ops Hn Hp Hops Hsz.
  destruct (history_in_domain t n bk bv bh ops Hn Hp Hops Hsz) as (m0 & m' & s' & _ & Hrun & _ & Hr & Hd).
  destruct (in_domain_served_as_made _ _ Hd) as (cf & H).
  exists m', s', cf. split; [exact Hrun|]. split; [exact Hr|exact H].
Qed.

(** ... and with FULL TRAVERSALS and the STATISTICS calls inside the history (Io_wrun_cache.v over Io_wrun.v): creation and ANY
    history of calls, traversals and statistics, issued against ANY cache in front of each of the three files, is served with the
    results of the flat files - every result what the ideal map of that moment says - and a flush of the three buffers leaves
    [render] of the record-level state on the disk. *)
From Aby Require Import Io_wrun Io_wrun_cache.
Theorem C07_every_history_with_traversals_and_statistics_over_any_buffer : forall t n bk bv bh ops,
  (1 <= n)%N -> pow2 n -> Forall (wop_wf t) ops -> wsized (Store.create t n) ops ->
  exists m0 m' s' outs,
    Io.create t n bk bv bh = Ok m0 /\
    wstore_run (Store.create t n) ops = Ok (s', outs) /\
    wio_run m0 ops = Ok (m', outs) /\
    wagree_run ∅ ops outs /\
    render s' = Ok (Io.images m') /\
    exists cf, forall f, served_by_cache (Io.empty_st bk bv bh) (Io.m_st m') f (cf f).
Proof. exact whistory_over_any_cache. Qed.
