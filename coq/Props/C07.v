(** Property C07 - tuning parameters never change observable behaviour. *)
From Aby Require Import Base Vu64 Hash KeyTypes Consts Sizing Alloc AllocInv Htx Htx_proofs Store Spec
  Refine Refine_all Iter Iter_proofs Layout Bulk Db Cache Cache_proofs.

(** (1) every hash-table size the crate derives - given directly (BucketsSize x -> next power of
    two) or as a capacity (Capacity c -> 8 below 8, else next power of two of c + c/8), or the
    default - is a power of two >= 1 (so in particular >= 1: a single bucket upward) *)
Theorem C07_bucket_count : forall p n,
  buckets_of_param p = Ok n ->
  (match p with
   | BucketsSize x => x <= 2 ^ 63
   | Capacity x => x + x / 8 <= 2 ^ 63
   | BDefault => True
   end) ->
  is_pow2 n /\ 1 <= n.
Proof. exact C07_buckets_param. Qed.

(** the only rejected value is Capacity(0) (a panic at creation) *)
Theorem C07_bucket_count_total : forall p,
  (match p with Capacity 0 => False | _ => True end) -> exists n, buckets_of_param p = Ok n.
Proof. exact buckets_of_param_total. Qed.

(** (2) for ANY two table sizes >= 1 and any history of calls the results are identical, call by
    call: both equal the ideal map's results (C01) - this needs no power-of-two assumption *)
Theorem C07_same_results_for_every_table_size : forall t n1 n2 ops,
  1 <= n1 -> 1 <= n2 -> Forall (op_wf t) ops ->
  exists s1 s2 outs,
    store_run (create t n1) ops = Ok (s1, outs) /\ store_run (create t n2) ops = Ok (s2, outs) /\
    exists m, represents s1 m /\ represents s2 m.
Proof.
  intros t n1 n2 ops H1 H2 Hw.
  destruct (run_from_create t n1 ops H1 Hw) as (s1 & Hr1 & _ & HR1).
  destruct (run_from_create t n2 ops H2 Hw) as (s2 & Hr2 & _ & HR2).
  exists s1, s2, (snd (spec_run ∅ ops)). split; [exact Hr1|]. split; [exact Hr2|].
  exists (fst (spec_run ∅ ops)). split; assumption.
Qed.

(** traversals agree up to order across table sizes: both enumerate the same ideal map *)
Theorem C07_same_traversal_up_to_order : forall s1 s2 m,
  Inv s1 -> Inv s2 -> represents s1 m -> represents s2 m ->
  exists l1 l2, iter_all s1 = Ok l1 /\ iter_all s2 = Ok l2 /\ l1 ≡ₚ l2.
Proof.
  intros s1 s2 m I1 I2 R1 R2.
  destruct (iter_all_spec s1 m I1 R1) as (l1 & H1 & P1).
  destruct (iter_all_spec s2 m I2 R2) as (l2 & H2 & P2).
  exists l1, l2. split; [exact H1|]. split; [exact H2|]. rewrite P1, P2. reflexivity.
Qed.

(** (3) parameters passed when opening an existing map are ignored: the stored table size and
    files are used whatever [p] says *)
Theorem C07_open_existing_ignores_params : forall w mk s t p1 p2,
  files w !! mk = Some s -> open_map w mk t p1 = open_map w mk t p2.
Proof. intros w mk s t p1 p2 H. unfold open_map. rewrite H. reflexivity. Qed.

(** the buffer-size parameters (p_val, p_key, p_htx) do not occur in the model's data path at all:
    [step] passes them to [open_map], which reads only [p_buckets] and only at creation *)
Theorem C07_buffer_params_irrelevant : forall w mk t b v1 k1 h1 v2 k2 h2,
  open_map w mk t (Params b v1 k1 h1) = open_map w mk t (Params b v2 k2 h2).
Proof. intros. unfold open_map. destruct (files w !! mk); reflexivity. Qed.

Example C07_nonvacuous :
  buckets_of_param (BucketsSize 3) = Ok 4 /\ buckets_of_param (BucketsSize 0) = Ok 1 /\
  buckets_of_param (Capacity 1) = Ok 8 /\ buckets_of_param (Capacity 100) = Ok 128 /\
  buckets_of_param (Capacity 0) = Panic BadParam /\ buckets_of_param BDefault = Ok 16777216.
Proof. vm_compute. repeat split; reflexivity. Qed.

(* from here on the names of the cache model (read, write, flush, ... of Cache.Rabuf) are in scope *)
Import Rabuf.

(** (4) THE BUFFER CACHE.  [Cache.Rabuf] is an executable model of rabuf::BufFile (the dependency
    every file access goes through) for the feature set the crate enables: chunk table, dirty flags,
    pinned chunk 0, flush-everything-and-drop on overflow, auto / per-mille growth of the chunk
    limit, seek past the end extends the file; it is run against the REAL rabuf on random operation
    sequences by this check.  [Flat]: a plain byte string with a position.  For every chunk size > 0
    and every configuration satisfying [cache_inv] at open - that is every FileBufSizeParam except
    PerMille(p) with p < 1000 ([C07_every_setting_opens_well]: Size(v) always yields >= 2 chunks, the
    repaired defect D5) - every operation sequence inside the flat model's domain returns, operation
    by operation, exactly what the flat model returns (so results cannot depend on the buffer
    setting, however small: eviction is invisible), never runs out of fuel, and after a flush the
    disk is the flat byte string. *)
Theorem C07_cache_transparent : forall ops fuel c f f' outs,
  cache_inv c -> R c f -> frun (k_cs c) f ops = Some (f', outs) ->
  (run_fuel (k_cs c) f ops <= fuel)%nat ->
  exists c', crun fuel c ops = Ok (c', outs) /\ cache_inv c' /\ R c' f' /\
    logical c' = f_bytes f' /\
    exists c'', flush c' = Ok c'' /\ k_disk c'' = f_bytes f'.
Proof. exact cache_refines_flat. Qed.

Theorem C07_every_setting_opens_well : forall b disk c,
  open_param b disk = Ok c -> (forall p, b = BPerMilleP p -> 1000 <= p) ->
  cache_inv c /\ R c (Flat 0 disk).
Proof. exact inv_open_param. Qed.

Theorem C07_size_setting_has_two_chunks : forall v, 2 <= chunks_of_param v.
Proof. exact size_param_at_least_two. Qed.

(** KNOWN FINDING D8 (known_findings.txt; the defect is inside the dependency): PerMille(p) with
    p < 1000 on a file that has outgrown one chunk opens with a single chunk, and with the single
    chunk pinned any access to another chunk exhausts EVERY fuel - the real code recurses forever *)
Theorem C07_known_finding_D8_opens_with_one_chunk : forall p disk,
  p < 1000 -> (blen disk / 1000) * p < aby_chunk_size ->
  exists c, open_param (BPerMilleP p) disk = Ok c /\ k_max c = 1.
Proof. exact d8_opens_with_one_chunk. Qed.

Theorem C07_known_finding_D8_diverges : forall fuel c off,
  single_pinned c -> add_chunk fuel c off = OutOfFuel.
Proof. exact single_chunk_diverges. Qed.

