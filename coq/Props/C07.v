(** Property C07 - tuning parameters never change observable behaviour. *)
From Aby Require Import Base Vu64 Hash KeyTypes Consts Sizing Alloc AllocInv Htx Htx_proofs Store Spec
  Refine Refine_all Iter Iter_proofs Layout Bulk Db.

(** (1) every hash-table size the crate derives - given directly (BucketsSize x -> next power of
    two) or as a capacity (Capacity c -> 8 below 8, else next power of two of c + c/8), or the
    default - is a power of two >= 1 (so in particular >= 1: a single bucket upward) *)
Theorem C07_bucket_count : forall p n,
  buckets_of_param p = Ok n ->
  (match p with
   | BucketsSize x => x <= 2 ^ 63
   | Capacity x => x + x / 8 <= 2 ^ 63
   | BDefault => True
   end) ->
  is_pow2 n /\ 1 <= n.
Proof. exact C07_buckets_param. Qed.

(** the only rejected value is Capacity(0) (a panic at creation) *)
Theorem C07_bucket_count_total : forall p,
  (match p with Capacity 0 => False | _ => True end) -> exists n, buckets_of_param p = Ok n.
Proof. exact buckets_of_param_total. Qed.

(** (2) for ANY two table sizes >= 1 and any history of calls the results are identical, call by
    call: both equal the ideal map's results (C01) - this needs no power-of-two assumption *)
Theorem C07_same_results_for_every_table_size : forall t n1 n2 ops,
  1 <= n1 -> 1 <= n2 -> Forall (op_wf t) ops ->
  exists s1 s2 outs,
    store_run (create t n1) ops = Ok (s1, outs) /\ store_run (create t n2) ops = Ok (s2, outs) /\
    exists m, represents s1 m /\ represents s2 m.
Proof.
  intros t n1 n2 ops H1 H2 Hw.
  destruct (run_from_create t n1 ops H1 Hw) as (s1 & Hr1 & _ & HR1).
  destruct (run_from_create t n2 ops H2 Hw) as (s2 & Hr2 & _ & HR2).
  exists s1, s2, (snd (spec_run ∅ ops)). split; [exact Hr1|]. split; [exact Hr2|].
  exists (fst (spec_run ∅ ops)). split; assumption.
Qed.

(** traversals agree up to order across table sizes: both enumerate the same ideal map *)
Theorem C07_same_traversal_up_to_order : forall s1 s2 m,
  Inv s1 -> Inv s2 -> represents s1 m -> represents s2 m ->
  exists l1 l2, iter_all s1 = Ok l1 /\ iter_all s2 = Ok l2 /\ l1 ≡ₚ l2.
Proof.
  intros s1 s2 m I1 I2 R1 R2.
  destruct (iter_all_spec s1 m I1 R1) as (l1 & H1 & P1).
  destruct (iter_all_spec s2 m I2 R2) as (l2 & H2 & P2).
  exists l1, l2. split; [exact H1|]. split; [exact H2|]. rewrite P1, P2. reflexivity.
Qed.

(** (3) parameters passed when opening an existing map are ignored: the stored table size and
    files are used whatever [p] says *)
Theorem C07_open_existing_ignores_params : forall w mk s t p1 p2,
  files w !! mk = Some s -> open_map w mk t p1 = open_map w mk t p2.
Proof. intros w mk s t p1 p2 H. unfold open_map. rewrite H. reflexivity. Qed.

(** the buffer-size parameters (p_val, p_key, p_htx) do not occur in the model's data path at all:
    [step] passes them to [open_map], which reads only [p_buckets] and only at creation *)
Theorem C07_buffer_params_irrelevant : forall w mk t b v1 k1 h1 v2 k2 h2,
  open_map w mk t (Params b v1 k1 h1) = open_map w mk t (Params b v2 k2 h2).
Proof. intros. unfold open_map. destruct (files w !! mk); reflexivity. Qed.

Example C07_nonvacuous :
  buckets_of_param (BucketsSize 3) = Ok 4 /\ buckets_of_param (BucketsSize 0) = Ok 1 /\
  buckets_of_param (Capacity 1) = Ok 8 /\ buckets_of_param (Capacity 100) = Ok 128 /\
  buckets_of_param (Capacity 0) = Panic BadParam /\ buckets_of_param BDefault = Ok 16777216.
Proof. vm_compute. repeat split; reflexivity. Qed.
