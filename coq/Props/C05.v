(** Property C05 - on-disk files always decode to a consistent structure.

    The model's state IS the decoded structure (offset -> slot maps, bucket heads, bitmap, count);
    the byte images are [Layout.render] of it and are compared byte for byte with the real files at
    every close and sync point by the correspondence check.  Proved here: every history leaves a
    state whose structure is consistent in exactly the sense of the property text. *)
From Aby Require Import Base Vu64 Hash KeyTypes Consts Sizing Alloc AllocInv Htx Htx_proofs Store Spec
  Refine Refine_all Structure.

(** [structure_ok] spelled out (see Structure.v): table of >= 1 buckets; bitmap bit i set iff bucket i
    is non-empty; each bucket's chain is a NoDup (acyclic) list of linked key records ending in the
    null link, all of whose keys hash to that bucket; every key record is on the chain of its bucket;
    no key twice; stored count = number of key records; every key record refers to its own in-bounds
    value record (injective, and every value record is owned). *)
Theorem C05_structure_after_any_history : forall s m ops,
  Inv s -> represents s m -> Forall (op_wf (kt s)) ops ->
  exists s', store_run s ops = Ok (s', snd (spec_run m ops)) /\ structure_ok s' /\
             represents s' (fst (spec_run m ops)).
Proof. exact structure_after_history. Qed.

Theorem C05_structure_from_create : forall t n ops, 1 <= n -> Forall (op_wf t) ops ->
  exists s', store_run (create t n) ops = Ok (s', snd (spec_run ∅ ops)) /\ structure_ok s' /\
             represents s' (fst (spec_run ∅ ops)).
Proof. exact structure_after_create. Qed.

Theorem C05_invariant_is_the_structure : forall s, Inv s -> structure_ok s.
Proof. exact Inv_structure. Qed.

(** "an independent reader recovers exactly the map's contents": the contents are a function of the
    files - any two ideal maps the same files represent are equal *)
Theorem C05_contents_determined_by_files : forall s m1 m2,
  Inv s -> represents s m1 -> represents s m2 -> m1 = m2.
Proof. exact represents_functional. Qed.

(** non-vacuity: the clauses hold for the final state of a concrete colliding history *)
Example C05_nonvacuous :
  exists s', store_run (create KBytes 1) [Put [1] [2]; Put [3] [4;4]; Del [1]; Put [5] []] = Ok (s', [DUnit; DUnit; DOpt (Some [2]); DUnit])
    /\ structure_ok s' /\ count (hx s') = 2.
Proof.
  destruct (structure_after_create KBytes 1 [Put [1] [2]; Put [3] [4;4]; Del [1]; Put [5] []]) as (s' & Hr & Hs & _).
  - reflexivity.
  - repeat constructor; try (intros ?; discriminate); vm_compute; reflexivity.
  - exists s'. split; [exact Hr|]. split; [exact Hs|].
    revert Hr. vm_compute. intros Hr. injection Hr as <-. reflexivity.
Qed.
