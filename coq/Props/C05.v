(** Property C05 - on-disk files always decode to a consistent structure.

    The model's state IS the decoded structure (offset -> slot maps, bucket heads, bitmap, count);
    the byte images are [Layout.render] of it and are compared byte for byte with the real files at
    every close and sync point by the correspondence check.  Proved here: every history leaves a
    state whose structure is consistent in exactly the sense of the property text. *)
From Aby Require Import Base Vu64 Hash KeyTypes Consts Sizing Alloc AllocInv Htx Htx_proofs Store Spec
  Refine Refine_all Structure Layout Load Load_proofs Load_htx_proofs Load_all.

(** [structure_ok] spelled out (see Structure.v): table of >= 1 buckets; bitmap bit i set iff bucket i
    is non-empty; each bucket's chain is a NoDup (acyclic) list of linked key records ending in the
    null link, all of whose keys hash to that bucket; every key record is on the chain of its bucket;
    no key twice; stored count = number of key records; every key record refers to its own in-bounds
    value record (injective, and every value record is owned). *)
Theorem C05_structure_after_any_history : forall s m ops,
  Inv s -> represents s m -> Forall (op_wf (kt s)) ops ->
  exists s', store_run s ops = Ok (s', snd (spec_run m ops)) /\ structure_ok s' /\
             represents s' (fst (spec_run m ops)).
Proof. exact structure_after_history. Qed.

Theorem C05_structure_from_create : forall t n ops, 1 <= n -> Forall (op_wf t) ops ->
  exists s', store_run (create t n) ops = Ok (s', snd (spec_run ∅ ops)) /\ structure_ok s' /\
             represents s' (fst (spec_run ∅ ops)).
Proof. exact structure_after_create. Qed.

Theorem C05_invariant_is_the_structure : forall s, Inv s -> structure_ok s.
Proof. exact Inv_structure. Qed.

(** "an independent reader recovers exactly the map's contents": the contents are a function of the
    files - any two ideal maps the same files represent are equal *)
Theorem C05_contents_determined_by_files : forall s m1 m2,
  Inv s -> represents s m1 -> represents s m2 -> m1 = m2.
Proof. exact represents_functional. Qed.

(** THE BYTES: [Layout.render] are the byte images of the three files (compared byte for byte with
    the real files by the correspondence check); [Load.load] is an independent reader of the
    documented layout (header fields at fixed offsets, chains followed from the bucket heads, value
    records followed from the key records, free slots followed from the 16 free lists).  For every
    well-formed state ([wf_state]: the invariant plus two side invariants, all three preserved by
    every history) whose sizes fit 64 bits, the reader returns exactly that state ... *)
Theorem C05_reader_round_trip : forall s imgs,
  wf_state s -> fits64 s -> render s = Ok imgs ->
  exists s', load (kt s) imgs = Ok s' /\
     kt s' = kt s /\ hx s' = hx s /\ keyf s' = keyf s /\ valf s' = valf s.
Proof. exact load_render_closed. Qed.

(** ... and recovers exactly the map's contents *)
Theorem C05_reader_recovers_contents : forall s m imgs,
  wf_state s -> fits64 s -> represents s m -> render s = Ok imgs ->
  exists s' l, load (kt s) imgs = Ok s' /\ contents s' = Ok l /\ l ≡ₚ map_to_list m.
Proof. exact load_contents_closed. Qed.

(** after any history from a created map: the images exist, and the reader maps them back *)
Theorem C05_reader_after_any_history : forall t n ops,
  1 <= n -> Forall (op_wf t) ops ->
  exists s outs imgs, store_run (create t n) ops = Ok (s, outs) /\ render s = Ok imgs /\ wf_state s /\
    (fits64 s -> exists s', load t imgs = Ok s' /\ hx s' = hx s /\ keyf s' = keyf s /\ valf s' = valf s) /\
    (fits64 s -> exists s' l, load t imgs = Ok s' /\ contents s' = Ok l /\ l ≡ₚ map_to_list (fst (spec_run ∅ ops))).
Proof. exact load_render_after_history. Qed.

(** non-vacuity: the clauses hold for the final state of a concrete colliding history *)
Example C05_nonvacuous :
  exists s', store_run (create KBytes 1) [Put [1] [2]; Put [3] [4;4]; Del [1]; Put [5] []] = Ok (s', [DUnit; DUnit; DOpt (Some [2]); DUnit])
    /\ structure_ok s' /\ count (hx s') = 2.
Proof.
  destruct (structure_after_create KBytes 1 [Put [1] [2]; Put [3] [4;4]; Del [1]; Put [5] []]) as (s' & Hr & Hs & _).
  - reflexivity.
  - repeat constructor; try (intros ?; discriminate); vm_compute; reflexivity.
  - exists s'. split; [exact Hr|]. split; [exact Hs|].
    revert Hr. vm_compute. intros Hr. injection Hr as <-. reflexivity.
Qed.
