(** Property C01 - every call history behaves like an ideal in-memory byte-string map. *)
From Aby Require Import Base Vu64 Hash KeyTypes Consts Sizing Alloc AllocInv Htx Store Spec Refine Refine_all
  Iter Stats Layout Bulk Db Db_proofs World_refine.

(** For EVERY start state satisfying the file invariant (in particular every reachable one, golden
    images, re-opened maps), every finite history of put / get / delete / includes_key / len /
    is_empty calls with well-formed keys and values (lengths below 2^31: the crate computes them
    in u32) runs to the end - [Ok]: no panic, no error, no exhausted fuel, i.e. every loop over
    file contents terminates - and returns call by call exactly what the ideal map returns; the
    final files again satisfy the invariant and represent the ideal map's final state. *)
Theorem C01_refines_ideal_map : forall s m ops,
  Inv s -> represents s m -> Forall (op_wf (kt s)) ops ->
  exists s', store_run s ops = Ok (s', snd (spec_run m ops)) /\ Inv s' /\
             represents s' (fst (spec_run m ops)) /\ kt s' = kt s /\ nb (hx s') = nb (hx s).
Proof. exact run_refines. Qed.

(** a freshly created map of any key type and any table size >= 1 is such a start state,
    representing the empty map *)
Theorem C01_from_create : forall t n ops, 1 <= n -> Forall (op_wf t) ops ->
  exists s', store_run (create t n) ops = Ok (s', snd (spec_run ∅ ops)) /\ Inv s' /\
             represents s' (fst (spec_run ∅ ops)).
Proof. exact run_from_create. Qed.

(** the single calls, as used by the properties built on this one *)
Theorem C01_put : put_stmt. Proof. exact put_closed. Qed.
Theorem C01_get : get_stmt. Proof. exact get_closed. Qed.
Theorem C01_del : del_stmt. Proof. exact del_closed. Qed.
Theorem C01_len : len_stmt. Proof. exact len_closed. Qed.

(** THE LEVEL THE RUNNER EXECUTES.  [Db.step] is the world-level model (several maps per
    directory, database and map handles, every API call incl. typed-integer and bulk variants) that
    the correspondence check runs against the crate call by call.  [iworld]: one ideal byte-string
    map per (directory, name); [istep]: the ideal result of each call; [ops_ok]: every call goes
    through an existing handle with well-formed keys/values (bulk_delete / bulk_put batches without
    repeated keys).  For every such history, from the empty world: every call returns exactly the
    ideal result, never runs out of fuel or errs, panics only where the ideal world predicts a
    refused open (wrong type signature, Capacity(0)), and the files of every map keep the invariant
    and represent their ideal map. *)
Theorem C01_world_refines_ideal_maps : forall w iw ops,
  wrep w iw -> ops_ok w ops ->
  wrep (world_run w ops) (irun w iw ops).1 /\
  Forall2 agrees (run_outs w ops) (irun w iw ops).2.
Proof. exact world_run_refines. Qed.

Theorem C01_world_from_empty : forall ops,
  ops_ok world0 ops ->
  wrep (world_run world0 ops) (irun world0 ∅ ops).1 /\
  Forall2 agrees (run_outs world0 ops) (irun world0 ∅ ops).2.
Proof. exact world_run_from_empty. Qed.

(** [ops_ok] is decidable: the runner evaluates [ops_okb] on every generated history and reports in
    the evidence how many of them lie inside the domain of this theorem *)
Theorem C01_domain_checker_sound : forall ops w, ops_okb w ops = true -> ops_ok w ops.
Proof. exact ops_okb_ok. Qed.

(** non-vacuity: a concrete history on a one-bucket table (all keys collide), with an overwrite by
    a longer value, a delete, an empty key and an empty value, evaluated by the kernel *)
Definition c01_ops : list dop :=
  [Put [1;2;3] [7;7]; Put [] [9]; Put [4] []; Get [1;2;3]; Put [1;2;3] (repeat 5 40); Get [1;2;3];
   Len; Del [4]; Del [4]; Has []; Get [4]; Len; IsEmpty].

Example C01_nonvacuous :
  Forall (op_wf KBytes) c01_ops /\
  exists s', store_run (create KBytes 1) c01_ops =
    Ok (s', [DUnit; DUnit; DUnit; DOpt (Some [7;7]); DUnit; DOpt (Some (repeat 5 40)); DNum 3;
             DOpt (Some []); DOpt None; DBool true; DOpt None; DNum 2; DBool false]).
Proof.
  split.
  - repeat constructor; try (intros ?; discriminate); vm_compute; reflexivity.
  - eexists. vm_compute. reflexivity.
Qed.

(** AT BYTE LEVEL (Io.v, the model of every seek / read / write the calls perform, tied to the crate
    by an exact event-by-event comparison of I/O traces): from the byte-level creation of a map of
    any type and table size, any history of well-formed calls - with headroom below the 64-bit
    limits at every state ([sized], decidable) - run with byte-level I/O returns exactly the ideal
    map's results, and the three files are at the end [render] of a well-formed record-level state
    representing the ideal map. *)
From Aby Require Import Load Load_all Io Io_base Io_run Io_proofs.
Theorem C01_byte_level_history : forall t n bk bv bh ops,
  1 <= n -> Forall (op_wf t) ops -> sized (create t n) ops ->
  exists m0 m' s',
    Io.create t n bk bv bh = Ok m0 /\
    store_run (create t n) ops = Ok (s', snd (spec_run ∅ ops)) /\
    io_run m0 ops = Ok (m', snd (spec_run ∅ ops)) /\
    render s' = Ok (Io.images m') /\ wf_state s' /\ represents s' (fst (spec_run ∅ ops)).
Proof. exact Io_history_from_create. Qed.

(** HISTORIES WITH TRAVERSALS AND STATISTICS AT BYTE LEVEL (Io_wrun.v): a history may also contain full traversals and the
    statistics calls, each performed with its real seeks and reads on the three flat files.  From any well-formed state whose
    images the byte-level map holds: the record-level run does not fail (traversals and statistics terminate on every state),
    the byte-level run returns the same results call by call, the files stay [render] of the record-level state, and every
    result is what the ideal map of that moment says (a traversal: a permutation of it with exact hints). *)
From Aby Require Import Io Io_run Io_wrun.
Theorem C01_byte_level_histories_with_traversals_and_statistics : forall ops s sp m,
  wf_state s -> represents s sp -> simg s m -> Forall (wop_wf (kt s)) ops -> wsized s ops ->
  exists s' m' outs,
    wstore_run s ops = Ok (s', outs) /\ wio_run m ops = Ok (m', outs) /\ simg s' m' /\ wf_state s' /\
    represents s' (wspec_run sp ops) /\ kt s' = kt s /\ length outs = length ops.
Proof. exact wio_run_refines. Qed.

Theorem C01_byte_level_results_are_the_ideal_map_s : forall ops s sp s' outs,
  wf_state s -> represents s sp -> Forall (wop_wf (kt s)) ops -> wsized s ops ->
  wstore_run s ops = Ok (s', outs) -> wagree_run sp ops outs.
Proof. exact wstore_run_agrees. Qed.

Example C01_nonvacuous_whistory := (Io_wrun.ex_wrun, Io_wrun.whistory_hypotheses).
