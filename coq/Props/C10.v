(** Property C10 - typed integer and string keys are faithful. *)
From Aby Require Import Base Vu64 KeyTypes KeyTypes_proofs C10_lemmas.

Theorem C10_u64_roundtrip : forall x, x < 2 ^ 64 ->
  to_u64 (of_u64 x) = x /\ length (of_u64 x) = 8%nat.
Proof. exact C10_u64. Qed.

Theorem C10_i64_roundtrip : forall z, (- 2 ^ 63 <= z < 2 ^ 63)%Z ->
  to_i64 (of_i64 z) = z /\ length (of_i64 z) = 8%nat.
Proof. exact C10_i64. Qed.

Theorem C10_vu64_roundtrip : forall x, x < 2 ^ 64 -> to_vu64 (of_vu64 x) = Some x.
Proof. exact C10_vu64. Qed.

Theorem C10_same_entry_u64 : forall x y, x < 2 ^ 64 -> y < 2 ^ 64 ->
  (same_entry KU64 (of_u64 x) (of_u64 y) <-> x = y).
Proof. exact same_entry_u64. Qed.

Theorem C10_same_entry_i64 : forall x y, (- 2 ^ 63 <= x < 2 ^ 63)%Z -> (- 2 ^ 63 <= y < 2 ^ 63)%Z ->
  (same_entry KI64 (of_i64 x) (of_i64 y) <-> x = y).
Proof. exact same_entry_i64. Qed.

Theorem C10_same_entry_vu64 : forall x y, x < 2 ^ 64 -> y < 2 ^ 64 ->
  (same_entry KVu64 (of_vu64 x) (of_vu64 y) <-> x = y).
Proof. exact same_entry_vu64. Qed.

Theorem C10_same_entry_bytes : forall t a b, t = KString \/ t = KBytes ->
  (same_entry t a b <-> a = b).
Proof. exact same_entry_bytes. Qed.

Theorem C10_be_keys_injective : forall x y, x < 2 ^ 64 -> y < 2 ^ 64 ->
  of_u64_be x = of_u64_be y -> x = y.
Proof. exact of_u64_be_inj. Qed.

(** non-vacuity: the premises are met by concrete values, and the conclusions compute *)
Example C10_nonvacuous :
  to_u64 (of_u64 18446744073709551615) = 18446744073709551615 /\
  to_i64 (of_i64 (-9223372036854775808)) = (-9223372036854775808)%Z /\
  to_vu64 (of_vu64 72057594037927936) = Some 72057594037927936 /\
  same_entry KVu64 (of_vu64 300) (of_vu64 300) /\ ~ same_entry KVu64 (of_vu64 300) (of_vu64 301).
Proof. repeat split; try (vm_compute; reflexivity). unfold same_entry. vm_compute. discriminate. Qed.
