(** Property C16 - a failed flush is reported and loses nothing. *)
From Aby Require Import Base Buf Buf_proofs Store.

Section C16.
Context {A : Type}.

(** the fault oracle [o f] says which chunk write-backs of file [f] the OS refuses and what a
    refused (possibly partial) write leaves on disk.  A flush with something to do reports
    success exactly when none of the buffered chunks is refused - a refused write is never
    swallowed *)
Theorem C16_error_reported : forall (d : dmap A) (o : fid -> oracle A),
  dinv d -> dflag d = true ->
  (snd (dflush o d) = true <->
   forall f c, c ∈ dirtyset (dfile d f) -> refuse (o f) c = false).
Proof. exact flush_error_iff. Qed.

Theorem C16_sync_error_reported : forall all (d : dmap A) (o : fid -> oracle A),
  dinv d -> dflag d || unsynced d = true ->
  (snd (dsync all o d) = true <->
   forall f c, c ∈ dirtyset (dfile d f) -> refuse (o f) c = false).
Proof. exact sync_error_iff. Qed.

(** whatever the outcome, the in-memory view (what every read returns) is unchanged, the
    invariant is kept, and after a failure the dirty flag stays raised so that the next flush
    tries again *)
Theorem C16_view_intact : forall (d : dmap A) (o : fid -> oracle A),
  dinv d ->
  let '(d', ok) := dflush o d in
  view d' = view d /\ dinv d' /\
  (ok = true -> on_disk d' = view d /\ dflag d' = false) /\
  (ok = false -> dflag d' = true).
Proof. exact flush_durable. Qed.

Theorem C16_reads_unaffected : forall (d : dmap A) (op : dop A),
  match op with DUpdate _ => True | _ => view (fst (dstep d op)) = view d end.
Proof. exact dstep_view_reads. Qed.

(** recovery: after any history - including flushes and syncs that failed half-way under arbitrary
    fault oracles, and further updates - a later flush or sync that reports success has made
    exactly the current view durable *)
Theorem C16_recovery : forall (d : dmap A) ops (o : fid -> oracle A),
  dinv d ->
  let d1 := drun d ops in
  (snd (dflush o d1) = true -> on_disk (fst (dflush o d1)) = view d1) /\
  (forall all, snd (dsync all o d1) = true -> on_disk (fst (dsync all o d1)) = view d1).
Proof. exact durable_after_any_history. Qed.

(** ... and once the condition is lifted (no refusals) it does report success *)
Theorem C16_success_once_lifted : forall (d : dmap A) ops,
  dinv d -> snd (dflush (fun _ => no_faults) (drun d ops)) = true.
Proof.
  intros d ops Hi. pose proof (drun_dinv d ops Hi) as Hi1.
  destruct (dflag (drun d ops)) eqn:Hf.
  - apply (flush_error_iff (drun d ops) (fun _ => no_faults) Hi1 Hf). intros f c _. reflexivity.
  - destruct (flush_noop_when_clean (drun d ops) (fun _ => no_faults) Hi1 Hf) as [-> _]. reflexivity.
Qed.
End C16.

Example C16_nonvacuous :
  dinv ex_d0 /\ snd (dflush ex_bad ex_d0) = false /\ view ex_d1 = view ex_d0 /\ dflag ex_d1 = true /\
  snd (dflush (fun _ => no_faults) ex_d1) = true /\ on_disk ex_d2 = view ex_d0.
Proof.
  split; [exact ex_d0_dinv|]. split; [vm_compute; reflexivity|]. split; [exact ex_flush_fails_view|].
  split; [vm_compute; reflexivity|]. split; [vm_compute; reflexivity|].
  destruct ex_recovery as (_ & H2 & _). exact H2.
Qed.

(** END TO END (Durable.v, see Props/C03.v for the vocabulary): a flush or sync in the middle of a
    history FAILS (arbitrary fault oracle, arbitrary garbage left on disk).  Then (1) right after
    the failure the memory view still tracks the store exactly, the store is untouched, the dirty
    flag is still raised and the store represents the ideal map of all updates so far - the
    in-memory view stays fully correct; (2) it keeps tracking at every later point; (3) once a later
    flush or sync reports success, the disk holds exactly the image of the current store, which a
    reader of the format maps back to the current state with the ideal map's contents - every update,
    those before the failure included, is durable. *)
From Aby Require Import Vu64 KeyTypes Consts Sizing Alloc Htx Layout Load Spec Refine Refine_all Load_all Durable.

Theorem C16_failed_flush_then_full_recovery : forall cv ck ch, 0 < cv -> 0 < ck -> 0 < ch ->
  forall c ops1 fop ops2 c1 c1' c' (o : fid -> oracle bytes) d2 m,
  wf_state (c_store c) -> tracks cv ck ch c -> dinv (c_buf c) -> represents (c_store c) m ->
  cops_wf (kt (c_store c)) (ops1 ++ fop :: ops2) ->
  crun cv ck ch c ops1 = Ok c1 ->
  is_flush fop -> cstep cv ck ch c1 fop = Ok (c1', false) ->
  crun cv ck ch c1' ops2 = Ok c' ->
  (dflush o (c_buf c') = (d2, true) \/ exists all, dsync all o (c_buf c') = (d2, true)) ->
  (tracks cv ck ch c1 /\ tracks cv ck ch c1' /\ c_store c1' = c_store c1 /\ view (c_buf c1') = view (c_buf c1) /\
   dflag (c_buf c1') = true /\ represents (c_store c1') (fst (spec_run m (updates_of ops1)))) /\
  (forall opsa opsb, ops2 = opsa ++ opsb -> exists ca, crun cv ck ch c1' opsa = Ok ca /\ tracks cv ck ch ca) /\
  crun cv ck ch c (ops1 ++ fop :: ops2) = Ok c' /\
  durable_at (c_store c') (fst (spec_run m (updates_of (ops1 ++ fop :: ops2)))) (c_buf c') d2.
Proof. exact C16_failed_flush_then_recovery. Qed.

(** THE CONCRETE BUFFER UNDER A REFUSED WRITE (Cache_fault.v).  [RabufF] is the executable model of
    rabuf's BufFile ([Cache.Rabuf]) extended with the cause of failure of the test environment: a
    file-size limit L - a write request at or beyond L fails after the part below L has been
    written, a growing set_len beyond L fails.  It follows the real control flow (a chunk stays
    dirty when its write fails; flush stops at the first failing chunk; [clear] drops nothing when
    its flush fails) and is run against the REAL rabuf under a real RLIMIT_FSIZE by this check,
    line by line, including the state a refused call leaves and the file the OS sees.  With no
    limit it is the model of C07 ([cstep_f_none]). *)
From Aby Require Import Cache Cache_proofs Flatx Cache_x Cache_fault.

(** a flush under ANY limit - failed or not - leaves the logical contents and the position intact,
    and the buffer in a state from which everything below still holds *)
Theorem C16_concrete_failed_flush_keeps_the_view : forall lim c f,
  cache_invf c -> R c f ->
  exists c' ok, flush_f lim c = fpack c' ok /\ R c' f /\ cache_invf c' /\
    Rabuf.k_cs c' = Rabuf.k_cs c /\ Rabuf.k_auto c' = Rabuf.k_auto c /\
    blen (Rabuf.k_disk c) <= blen (Rabuf.k_disk c') /\
    (ok = true -> all_clean c') /\ (ok = false -> lim <> None).
Proof. exact flush_f_view_intact. Qed.

(** a flush that reports success has made the file durable, limit or not *)
Theorem C16_concrete_ok_means_durable : forall lim c f c',
  cache_invf c -> R c f -> flush_f lim c = FOk c' -> Rabuf.k_disk c' = Rabuf.f_bytes f.
Proof. exact flush_f_ok_durable. Qed.

(** once the limit is gone, a flush succeeds and the disk is exactly the logical file *)
Theorem C16_concrete_recovery : forall c f,
  cache_invf c -> R c f ->
  exists c', flush_f None c = FOk c' /\ Rabuf.k_disk c' = Rabuf.f_bytes f /\ R c' f /\ cache_invf c' /\ all_clean c'.
Proof. exact flush_f_recovery. Qed.

(** every call: under a limit it either returns what the flat file returns, or it is refused and
    leaves the state [failed_state] describes (for flush, sync, clear, the partial read and write,
    prepare and non-growing seeks: nothing changed; for write_all / read_exact: the pieces before
    the refused one stay applied) *)
Theorem C16_concrete_every_call : forall lim fuel c f o f' r,
  cache_invx c -> R c f -> xstep (Rabuf.k_cs c) f o = Some (f', r) -> (op_fuel f o <= fuel)%nat ->
  fout (cstep_f lim fuel c o)
    (fun '(c', r') => r' = r /\ R c' f' /\ cache_invf c' /\ Rabuf.k_cs c' = Rabuf.k_cs c /\ Rabuf.k_auto c' = Rabuf.k_auto c)
    (failed_state lim c f o).
Proof. exact cstep_f_view. Qed.

(** ANY sequence of calls under limits that come and go, successful or refused ([safe]: every call
    inside the domain of the flat reference, and no growing set_len beyond a limit - see the
    finding below): the buffer still represents a flat file, the one [ftraj] describes, and a
    flush without limit puts exactly that file on the disk *)
Theorem C16_concrete_any_run_recovers : forall l fuel c f,
  cache_invx c -> R c f -> safe (Rabuf.k_cs c) fuel f l ->
  exists c' outs f',
    run_f fuel c l = FOk (c', outs) /\ ftraj (Rabuf.k_cs c) f l outs f' /\
    R c' f' /\ cache_invf c' /\ Rabuf.k_cs c' = Rabuf.k_cs c /\
    exists c'', flush_f None c' = FOk c'' /\ Rabuf.k_disk c'' = Rabuf.f_bytes f' /\ R c'' f' /\ cache_invf c''.
Proof. exact run_f_recovery. Qed.

(** FINDING about the dependency, kernel-computed and reproduced on the real rabuf (outside C16:
    abyssiniandb grows a file by set_len only when it creates a table file, and never seeks beyond
    the end): a GROWING set_len refused by the limit - also the one inside a seek beyond the end -
    reports the error but has already moved [end]; the buffer then believes in bytes that are in
    no chunk and not on the disk, and a later flush without limit "succeeds" with a shorter file *)
Theorem C16_finding_refused_growing_set_len : 
  xstep 8 (Rabuf.Flat 0 fdisk) (Rabuf.OSeek (Rabuf.SeekStart 20)) = Some (Rabuf.Flat 20 (fdisk ++ zeros 10), Rabuf.RPos 20) /\
  ~ grow_ok lim12 (Rabuf.Flat 0 fdisk) (Rabuf.OSeek (Rabuf.SeekStart 20)) /\
  exists c' c'', cstep_f lim12 30 (Rabuf.mk_cache 8 2 None fdisk) (Rabuf.OSeek (Rabuf.SeekStart 20)) = FErr c' /\
    R c' (Rabuf.Flat 0 (fdisk ++ zeros 10)) /\ flush_f None c' = FOk c'' /\ Rabuf.k_disk c'' <> fdisk ++ zeros 10.
Proof. exact ex_grow_ok_needed. Qed.

(** AT BYTE LEVEL, THE MAP OVER THE CONCRETE BUFFER (Io_durable.v): after creation and ANY history of
    the byte-level I/O model, the buffer of each of the three files - any configuration - may be
    flushed any number of times under file-size limits that come and go; whatever those attempts
    reported, the buffer still represents the file as the map layer left it, and a flush without
    limit then puts exactly that file - the corresponding image of [render] of the current
    record-level state - on the disk.  "A failed flush loses nothing", with the real I/O of the
    map layer and the real failure paths of the buffer. *)
From Aby Require Import Io Io_run Io_flat Io_flat_ro Io_cache Io_flat_upd Io_durable.

Theorem C16_byte_level_failed_flushes_then_recovery_over_any_buffer : forall t n bk bv bh ops,
  1 <= n -> pow2 n -> Forall (op_wf t) ops -> sized (Store.create t n) ops ->
  exists s' m' (cf : Io.fid -> list call),
    store_run (Store.create t n) ops = Ok (s', snd (spec_run ∅ ops)) /\
    render s' = Ok (Io.images m') /\
    forall f c fuel lims,
      backs c (Io.get_file (Io.empty_st bk bv bh) f) ->
      (xrun_fuel (Rabuf.k_cs c) (flat_of (Io.get_file (Io.empty_st bk bv bh) f)) (map call_op (cf f)) <= fuel)%nat ->
      exists c1 outs,
        Rabuf.crun fuel c (map call_op (cf f)) = Ok (c1, outs) /\
        R (flush_attempts lims c1) (flat_of (Io.get_file (Io.m_st m') f)) /\
        exists c3, flush_f None (flush_attempts lims c1) = FOk c3 /\
                   Rabuf.k_disk c3 = Io.fb (Io.get_file (Io.m_st m') f).
Proof. exact failed_flushes_then_recovery_over_any_buffer. Qed.

(** ... and for histories that also contain full traversals and statistics calls (Io_wrun_durable.v) *)
From Aby Require Import Io_wrun Io_wrun_durable.
Theorem C16_byte_level_failed_flushes_then_recovery_with_traversals_over_any_buffer : forall t n bk bv bh ops,
  1 <= n -> pow2 n -> Forall (wop_wf t) ops -> wsized (Store.create t n) ops ->
  exists s' m' outs (cf : Io.fid -> list call),
    wstore_run (Store.create t n) ops = Ok (s', outs) /\ wagree_run ∅ ops outs /\
    render s' = Ok (Io.images m') /\
    forall f c fuel lims,
      backs c (Io.get_file (Io.empty_st bk bv bh) f) ->
      (xrun_fuel (Rabuf.k_cs c) (flat_of (Io.get_file (Io.empty_st bk bv bh) f)) (map call_op (cf f)) <= fuel)%nat ->
      exists c1 couts,
        Rabuf.crun fuel c (map call_op (cf f)) = Ok (c1, couts) /\
        R (flush_attempts lims c1) (flat_of (Io.get_file (Io.m_st m') f)) /\
        exists c3, flush_f None (flush_attempts lims c1) = FOk c3 /\
                   Rabuf.k_disk c3 = Io.fb (Io.get_file (Io.m_st m') f).
Proof. exact whistory_failed_flushes_then_recovery_over_any_buffer. Qed.
