(** Property C16 - a failed flush is reported and loses nothing. *)
From Aby Require Import Base Buf Buf_proofs Store.

Section C16.
Context {A : Type}.

(** the fault oracle [o f] says which chunk write-backs of file [f] the OS refuses and what a
    refused (possibly partial) write leaves on disk.  A flush with something to do reports
    success exactly when none of the buffered chunks is refused - a refused write is never
    swallowed *)
Theorem C16_error_reported : forall (d : dmap A) (o : fid -> oracle A),
  dinv d -> dflag d = true ->
  (snd (dflush o d) = true <->
   forall f c, c ∈ dirtyset (dfile d f) -> refuse (o f) c = false).
Proof. exact flush_error_iff. Qed.

Theorem C16_sync_error_reported : forall all (d : dmap A) (o : fid -> oracle A),
  dinv d -> dflag d || unsynced d = true ->
  (snd (dsync all o d) = true <->
   forall f c, c ∈ dirtyset (dfile d f) -> refuse (o f) c = false).
Proof. exact sync_error_iff. Qed.

(** whatever the outcome, the in-memory view (what every read returns) is unchanged, the
    invariant is kept, and after a failure the dirty flag stays raised so that the next flush
    tries again *)
Theorem C16_view_intact : forall (d : dmap A) (o : fid -> oracle A),
  dinv d ->
  let '(d', ok) := dflush o d in
  view d' = view d /\ dinv d' /\
  (ok = true -> on_disk d' = view d /\ dflag d' = false) /\
  (ok = false -> dflag d' = true).
Proof. exact flush_durable. Qed.

Theorem C16_reads_unaffected : forall (d : dmap A) (op : dop A),
  match op with DUpdate _ => True | _ => view (fst (dstep d op)) = view d end.
Proof. exact dstep_view_reads. Qed.

(** recovery: after any history - including flushes and syncs that failed half-way under arbitrary
    fault oracles, and further updates - a later flush or sync that reports success has made
    exactly the current view durable *)
Theorem C16_recovery : forall (d : dmap A) ops (o : fid -> oracle A),
  dinv d ->
  let d1 := drun d ops in
  (snd (dflush o d1) = true -> on_disk (fst (dflush o d1)) = view d1) /\
  (forall all, snd (dsync all o d1) = true -> on_disk (fst (dsync all o d1)) = view d1).
Proof. exact durable_after_any_history. Qed.

(** ... and once the condition is lifted (no refusals) it does report success *)
Theorem C16_success_once_lifted : forall (d : dmap A) ops,
  dinv d -> snd (dflush (fun _ => no_faults) (drun d ops)) = true.
Proof.
  intros d ops Hi. pose proof (drun_dinv d ops Hi) as Hi1.
  destruct (dflag (drun d ops)) eqn:Hf.
  - apply (flush_error_iff (drun d ops) (fun _ => no_faults) Hi1 Hf). intros f c _. reflexivity.
  - destruct (flush_noop_when_clean (drun d ops) (fun _ => no_faults) Hi1 Hf) as [-> _]. reflexivity.
Qed.
End C16.

Example C16_nonvacuous :
  dinv ex_d0 /\ snd (dflush ex_bad ex_d0) = false /\ view ex_d1 = view ex_d0 /\ dflag ex_d1 = true /\
  snd (dflush (fun _ => no_faults) ex_d1) = true /\ on_disk ex_d2 = view ex_d0.
Proof.
  split; [exact ex_d0_dinv|]. split; [vm_compute; reflexivity|]. split; [exact ex_flush_fails_view|].
  split; [vm_compute; reflexivity|]. split; [vm_compute; reflexivity|].
  destruct ex_recovery as (_ & H2 & _). exact H2.
Qed.
