(** Property C02 - clean close and reopen preserves the exact map contents. *)
From Aby Require Import Base Vu64 Hash KeyTypes Consts Sizing Alloc AllocInv Htx Htx_proofs Store Spec
  Refine Refine_all Iter Iter_proofs Layout Load Load_proofs Load_all Bulk Db.

(** In the model the files of a map ARE its state: dropping the last handle flushes every buffer
    ([close]: the disk images become the logical images, which [Layout.render] spells out byte by
    byte and the correspondence check compares with the real files after every close, also across
    processes); re-opening ([Db.reopen]) raises the in-memory dirty flag and takes table size,
    buckets, slots and free lists from the files, never from the parameters. *)

Lemma close_reopen_fields s :
  kt (reopen (close s)) = kt s /\ hx (reopen (close s)) = hx s /\
  keyf (reopen (close s)) = keyf s /\ valf (reopen (close s)) = valf s.
Proof. destruct s; repeat split; reflexivity. Qed.

Lemma Inv_flags s d y : Inv s <-> Inv (Store (kt s) (hx s) (keyf s) (valf s) d y).
Proof.
  destruct s as [t h k v d0 y0]. cbn [kt hx keyf valf].
  split; intros [ch [Hc Hl]]; exists ch; (split; [destruct Hc; constructor; assumption | exact Hl]).
Qed.

(** contents, invariant, length, table size, every lookup and the byte images are exactly those at
    the time of the drop *)
Theorem C02_reopen_preserves_contents : forall s m,
  Inv s -> represents s m ->
  let s' := reopen (close s) in
  Inv s' /\ represents s' m /\ len s' = len s /\ nb (hx s') = nb (hx s) /\
  (forall k, key_wf (kt s) k -> get s' k = Ok (m !! k) /\ get s k = Ok (m !! k)) /\
  render s' = render s.
Proof.
  intros s m HI HR. destruct s as [t h k v d y]. cbn [reopen close kt hx keyf valf synced].
  assert (HI' : Inv (Store t h k v true true)) by (apply (Inv_flags (Store t h k v d y) true true); exact HI).
  split; [exact HI'|]. split; [exact HR|]. split; [reflexivity|]. split; [reflexivity|].
  split; [|reflexivity].
  intros k0 Hk. split.
  - exact (proj1 (get_closed _ m k0 HI' HR Hk)).
  - exact (proj1 (get_closed _ m k0 HI HR Hk)).
Qed.

(** close/reopen may be interleaved with updates any number of times: a history cut into sessions
    behaves like the ideal map throughout (sessions: list of call lists; between two sessions every
    handle is dropped and the map is re-opened) *)
Fixpoint sessions_run (s : store) (ss : list (list dop)) : res (store * list (list dout)) :=
  match ss with
  | [] => Ok (s, [])
  | ops :: ss' =>
    let* (s1, outs) := store_run s ops in
    let* (s2, rest) := sessions_run (reopen (close s1)) ss' in
    Ok (s2, outs :: rest)
  end.

Fixpoint spec_sessions (m : spec) (ss : list (list dop)) : spec * list (list dout) :=
  match ss with
  | [] => (m, [])
  | ops :: ss' =>
    let '(m1, outs) := spec_run m ops in
    let '(m2, rest) := spec_sessions m1 ss' in
    (m2, outs :: rest)
  end.

Theorem C02_sessions_refine_ideal_map : forall ss s m,
  Inv s -> represents s m -> Forall (Forall (op_wf (kt s))) ss ->
  exists s', sessions_run s ss = Ok (s', snd (spec_sessions m ss)) /\ Inv s' /\
             represents s' (fst (spec_sessions m ss)) /\ kt s' = kt s /\ nb (hx s') = nb (hx s).
Proof.
  induction ss as [|ops ss IH]; intros s m HI HR Hw.
  - exists s. cbn. auto.
  - inversion Hw as [|? ? Ho Hss]; subst.
    destruct (run_refines s m ops HI HR Ho) as (s1 & Hr & HI1 & HR1 & Ht1 & Hn1).
    destruct (C02_reopen_preserves_contents s1 _ HI1 HR1) as (HI2 & HR2 & _ & Hn2 & _).
    assert (Ht2 : kt (reopen (close s1)) = kt s) by (destruct s1; exact Ht1).
    assert (Hss' : Forall (Forall (op_wf (kt (reopen (close s1))))) ss) by (rewrite Ht2; exact Hss).
    destruct (IH _ _ HI2 HR2 Hss') as (s' & Hrs & HI' & HR' & Ht' & Hn').
    exists s'. cbn [sessions_run spec_sessions].
    destruct (spec_run m ops) as [m1 outs] eqn:E1. cbn [fst snd] in *.
    destruct (spec_sessions m1 ss) as [m2 rest] eqn:E2. cbn [fst snd] in *.
    rewrite Hr. cbn [rbind]. rewrite Hrs. cbn [rbind].
    split; [reflexivity|]. split; [exact HI'|]. split; [exact HR'|].
    split; [congruence|]. rewrite Hn', Hn2. exact Hn1.
Qed.

(** through the bytes: what a re-open reads back from the files written at close is the state at
    the time of the drop (reader round trip, see Props/C05.v), with the contents of the ideal map *)
Theorem C02_reopen_through_the_bytes : forall s m imgs,
  wf_state s -> fits64 s -> represents s m -> render s = Ok imgs ->
  (exists s', load (kt s) imgs = Ok s' /\ kt s' = kt s /\ hx s' = hx s /\ keyf s' = keyf s /\ valf s' = valf s) /\
  (exists s' l, load (kt s) imgs = Ok s' /\ contents s' = Ok l /\ l ≡ₚ map_to_list m).
Proof.
  intros s m imgs Hw H64 HR Hr. split.
  - exact (load_render_closed s imgs Hw H64 Hr).
  - exact (load_contents_closed s m imgs Hw H64 HR Hr).
Qed.

(** reopening with different parameters: see C07_open_existing_ignores_params (Props/C07.v) *)
Theorem C02_reopen_ignores_params : forall w mk s t p1 p2,
  files w !! mk = Some s -> open_map w mk t p1 = open_map w mk t p2.
Proof. intros w mk s t p1 p2 H. unfold open_map. rewrite H. reflexivity. Qed.

Example C02_nonvacuous :
  exists s', sessions_run (create KBytes 2) [[Put [1] [2]; Put [3] []]; [Get [1]; Del [3]; Len]; [Get [3]; Has [1]]]
             = Ok (s', [[DUnit; DUnit]; [DOpt (Some [2]); DOpt (Some []); DNum 1]; [DOpt None; DBool true]]).
Proof. eexists. vm_compute. reflexivity. Qed.

(** AT BYTE LEVEL (Io.v): re-opening the files left at close - [Io.open_existing] takes NO table-size
    or buffer parameter for the contents: the bucket count is read from the header - yields a map
    with the stored table size over exactly the same bytes, and every history of calls after the
    re-open, performed with its real seeks, reads and writes, returns what the ideal map returns *)
From Aby Require Import Io Io_base Io_htx Io_run Io_open.
Import Io.

Theorem C02_byte_level_reopen_state : forall s t h k v st0 m st1,
  wf_state s -> fits64 s -> render s = Ok (h, k, v) -> st_images st0 = (h, k, v) ->
  open_existing t st0 = Ok (Opened m, st1) ->
  m_kt m = t /\ m_n m = nb (hx s) /\ Io.images m = (h, k, v) /\ m_st m = st1 /\
  (forall f, fcs (get_file st1 f) = fcs (get_file st0 f)).
Proof. exact Io_open_state. Qed.

Theorem C02_byte_level_history_after_reopen : forall s sp h k v st0 ops s' outs,
  wf_state s -> represents s sp -> render s = Ok (h, k, v) -> st_images st0 = (h, k, v) ->
  0 < fcs (get_file st0 FKey) -> 0 < fcs (get_file st0 FVal) ->
  Forall (op_wf (kt s)) ops -> sized s ops -> store_run s ops = Ok (s', outs) ->
  exists m st1 m', open_existing (kt s) st0 = Ok (Opened m, st1) /\ ro_step st0 st1 /\
    io_run m ops = Ok (m', outs) /\ simg s' m' /\ wf_state s' /\
    represents s' (fst (spec_run sp ops)) /\ outs = snd (spec_run sp ops).
Proof. exact Io_reopen_then_history. Qed.

(** AT BYTE LEVEL, ACROSS A CLOSE AND A REOPEN, OVER THE CONCRETE BUFFER (Io_sessions.v).  Two sessions:
    creation and any history [ops1] with the buffers of the first session (any configuration), all
    three flushed - the files on the disk; then those files opened again with ANY other buffer
    kinds ([bk' bv' bh']: other chunk sizes) and any history [ops2], flushed again.  Every call of
    both sessions, the open included, is served by the caches with the results of the flat
    files; the disk after the second session is [render] of the record-level state after
    [ops1 ++ ops2], and the independent reader recovers the ideal map's contents from it. *)
From Aby Require Import Cache Cache_x Io_run Io_flat Io_flat_ro Io_cache Io_flat_upd Io_durable Io_sessions.

Theorem C02_byte_level_two_sessions_over_any_buffer : forall t n bk bv bh ops1 bk' bv' bh' ops2,
  1 <= n -> pow2 n -> Forall (op_wf t) (ops1 ++ ops2) -> sized (Store.create t n) (ops1 ++ ops2) ->
  exists s2 (cf1 cf2 : fid -> list call),
    store_run (Store.create t n) (ops1 ++ ops2) = Ok (s2, snd (spec_run ∅ (ops1 ++ ops2))) /\
    forall ck cv ch fuel,
      backs ck (Io.get_file (empty_st bk bv bh) FKey) ->
      backs cv (Io.get_file (empty_st bk bv bh) FVal) ->
      backs ch (Io.get_file (empty_st bk bv bh) FHtx) ->
      (forall f c, In (f, c) [(FKey, ck); (FVal, cv); (FHtx, ch)] ->
         (xrun_fuel (Rabuf.k_cs c) (flat_of (Io.get_file (empty_st bk bv bh) f)) (map call_op (cf1 f)) <= fuel)%nat) ->
      exists dk dv dh,
        flushed_disk fuel ck (cf1 FKey) = Ok dk /\
        flushed_disk fuel cv (cf1 FVal) = Ok dv /\
        flushed_disk fuel ch (cf1 FHtx) = Ok dh /\
        forall ck' cv' ch' fuel',
          backs ck' (Io.get_file (reopen_st dk dv dh bk' bv' bh') FKey) ->
          backs cv' (Io.get_file (reopen_st dk dv dh bk' bv' bh') FVal) ->
          backs ch' (Io.get_file (reopen_st dk dv dh bk' bv' bh') FHtx) ->
          (forall f c, In (f, c) [(FKey, ck'); (FVal, cv'); (FHtx, ch')] ->
             (xrun_fuel (Rabuf.k_cs c) (flat_of (Io.get_file (reopen_st dk dv dh bk' bv' bh') f)) (map call_op (cf2 f))
                <= fuel')%nat) ->
          exists dk' dv' dh',
            flushed_disk fuel' ck' (cf2 FKey) = Ok dk' /\
            flushed_disk fuel' cv' (cf2 FVal) = Ok dv' /\
            flushed_disk fuel' ch' (cf2 FHtx) = Ok dh' /\
            render s2 = Ok (dh', dk', dv') /\
            exists s'' l, load t (dh', dk', dv') = Ok s'' /\ contents s'' = Ok l /\
                          l ≡ₚ map_to_list (fst (spec_run ∅ (ops1 ++ ops2))).
Proof. exact two_sessions_durable. Qed.

(** ... and with FULL TRAVERSALS and STATISTICS calls in both sessions (Io_wsessions.v over Io_wrun.v): create (any buffer kinds),
    any history of calls, traversals and statistics, the bytes a flush of any cache leaves; those bytes opened with any other
    buffer kinds, any such history again: both sessions are served by any cache, every result is what the ideal map of that
    moment says - a traversal after the reopen yields a permutation of what was there when the first session ended, updated by
    the calls since - and the final files are [render] of the final state. *)
From Aby Require Import Io_wrun Io_wsessions.
Theorem C02_byte_level_two_sessions_with_traversals_over_any_buffer : forall t n bk bv bh ops1 bk' bv' bh' ops2,
  (1 <= n)%N -> pow2 n -> Forall (wop_wf t) ops1 -> wsized (Store.create t n) ops1 ->
  Forall (wop_wf t) ops2 ->
  (forall s1 o1, wstore_run (Store.create t n) ops1 = Ok (s1, o1) -> wsized s1 ops2) ->
  exists s1 outs1 m0 m1 mo st1 s2 outs2 m2,
    let sp1 := wspec_run ∅ ops1 in
    let st0 := Io.reopen_st (Io.fb (Io.s_key (Io.m_st m1))) (Io.fb (Io.s_val (Io.m_st m1))) (Io.fb (Io.s_htx (Io.m_st m1))) bk' bv' bh' in
    Io.create t n bk bv bh = Ok m0 /\
    wstore_run (Store.create t n) ops1 = Ok (s1, outs1) /\ wio_run m0 ops1 = Ok (m1, outs1) /\
    wagree_run ∅ ops1 outs1 /\ render s1 = Ok (Io.images m1) /\
    (exists cf1, forall f, served_by_cache (Io.empty_st bk bv bh) (Io.m_st m1) f (cf1 f)) /\
    Io.open_existing t st0 = Ok (Io.Opened mo, st1) /\
    wstore_run s1 ops2 = Ok (s2, outs2) /\ wio_run mo ops2 = Ok (m2, outs2) /\
    wagree_run sp1 ops2 outs2 /\ render s2 = Ok (Io.images m2) /\
    (exists cf2, forall f, served_by_cache st0 (Io.m_st m2) f (cf2 f)) /\
    wf_state s2 /\ represents s2 (wspec_run sp1 ops2).
Proof. exact two_wsessions_over_any_buffer. Qed.
