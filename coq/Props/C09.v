(** Property C09 - any key or value length fits its slot. *)
From Aby Require Import Base Vu64 Consts Sizing Sizing_proofs.

(** values: for EVERY length the crate can represent, the slot chosen by the crate's own
    estimate + rounding is a legal slot size and holds the record that is really written
    (size field of the final slot, length field, payload) *)
Theorem C09_value_fits : forall len, len < 2 ^ 31 ->
  let S := roundup val_cfg (val_need len) in
  valid_slot_size val_cfg S /\ val_real_len S len <= S.
Proof. exact C09_val_fits. Qed.

(** keys: every key length, every pair of 8-aligned value / next offsets *)
Theorem C09_key_record_fits : forall klen voff noff,
  klen < 2 ^ 31 -> voff < 2 ^ 64 -> noff < 2 ^ 64 -> voff mod 8 = 0 -> noff mod 8 = 0 ->
  let S := roundup key_cfg (key_need klen voff noff) in
  valid_slot_size key_cfg S /\ key_real_len S klen voff noff <= S.
Proof. exact C09_key_fits. Qed.

(** overwrite in place keeps the old, possibly larger slot (also a re-used large free slot
    that is bigger than requested): the record still fits *)
Theorem C09_value_fits_larger_slot : forall len S', len < 2 ^ 31 -> valid_slot_size val_cfg S' ->
  roundup val_cfg (val_need len) <= S' -> val_real_len S' len <= S'.
Proof. exact C09_val_fits_any_slot. Qed.

Theorem C09_key_record_fits_larger_slot : forall klen voff noff S',
  klen < 2 ^ 31 -> voff < 2 ^ 64 -> noff < 2 ^ 64 -> voff mod 8 = 0 -> noff mod 8 = 0 ->
  valid_slot_size key_cfg S' -> roundup key_cfg (key_need klen voff noff) <= S' ->
  key_real_len S' klen voff noff <= S'.
Proof. exact C09_key_fits_any_slot. Qed.

(** the image of a slot is exactly [size] bytes when the record fits: nothing spills over *)
Theorem C09_slot_image_length : forall size body,
  enc_len (size / 8) + blen body <= size -> size / 8 < 2 ^ 64 -> blen (slot_bytes size body) = size.
Proof. exact slot_bytes_length. Qed.

(** non-vacuity and the tight cases (slack 0): value length 14 -> slot 16; 1016 payload bytes -> 1024 *)
Example C09_nonvacuous :
  roundup val_cfg (val_need 14) = 16 /\ val_real_len 16 14 = 16 /\
  roundup val_cfg (val_need 1014) = 1024 /\ val_real_len 1024 1014 = 1018 /\
  roundup val_cfg (val_need 16777216) = 16777344 /\ val_real_len 16777344 16777216 = 16777224 /\
  roundup key_cfg (key_need 11 16384 0) = 24 /\ key_real_len 24 11 16384 0 = 16.
Proof. vm_compute. repeat split; reflexivity. Qed.
