(** Property C14 - bulk and convenience calls equal their element-wise counterparts. *)
From Aby Require Import Base Vu64 Hash KeyTypes Consts Sizing Alloc AllocInv Htx Store Spec Refine Refine_all
  Bulk Bulk_proofs.

(** The crate sorts a batch by key, applies the calls in that order and puts the results back in
    input order.  The theorems hold for EVERY permutation the sort may produce ([sorter],
    [sorter2]: arbitrary functions that return a permutation of their input) - stable or not. *)
Section C14.
Variable sorter : list (nat * bytes) -> list (nat * bytes).
Hypothesis sorter_perm : forall l, Permutation (sorter l) l.
Variable sorter2 : list (bytes * bytes) -> list (bytes * bytes).
Hypothesis sorter2_perm : forall l, Permutation (sorter2 l) l.

(** bulk_get: position i holds what get of the i-th key returns - for any batch, repeats allowed *)
Theorem C14_bulk_get : forall s m ks,
  Inv s -> represents s m -> Forall (key_wf (kt s)) ks ->
  bulk_get sorter s ks = Ok (map (fun k => m !! k) ks).
Proof. exact (bulk_get_elementwise sorter sorter_perm). Qed.

Theorem C14_bulk_get_positional : forall s ks rs,
  bulk_get sorter s ks = Ok rs ->
  forall i k, ks !! i = Some k -> exists r, get s k = Ok r /\ rs !! i = Some r.
Proof. exact (bulk_get_elementwise_cor sorter sorter_perm). Qed.

(** bulk_delete of a batch without repeated keys: position i holds what a single delete of the
    i-th key returns, and the map ends up as the original minus the batch *)
Theorem C14_bulk_delete : forall s m ks,
  Inv s -> represents s m -> Forall (key_wf (kt s)) ks -> NoDup ks ->
  exists s', bulk_delete sorter s ks = Ok (s', map (fun k => m !! k) ks) /\ Inv s' /\
             represents s' (foldr delete m ks) /\ kt s' = kt s /\ nb (hx s') = nb (hx s).
Proof. exact (bulk_delete_elementwise sorter sorter_perm). Qed.

(** bulk_put of a batch without repeated keys leaves the map exactly as the individual puts (in
    input order) would *)
Theorem C14_bulk_put : forall s m kvs,
  Inv s -> represents s m -> Forall (fun kv => key_wf (kt s) kv.1 /\ val_wf kv.2) kvs -> NoDup (kvs.*1) ->
  exists s', bulk_put sorter2 s kvs = Ok s' /\ Inv s' /\
             represents s' (fst (spec_run m (map (fun kv => Put kv.1 kv.2) kvs))) /\
             kt s' = kt s /\ nb (hx s') = nb (hx s).
Proof. exact (bulk_put_spec_run sorter2 sorter2_perm). Qed.
End C14.

(** put_from_iter applies the pairs in iteration order (repeats allowed, the later one wins) *)
Theorem C14_put_from_iter : forall s m kvs,
  Inv s -> represents s m -> Forall (fun kv => key_wf (kt s) kv.1 /\ val_wf kv.2) kvs ->
  exists s', put_from_iter s kvs = Ok s' /\ Inv s' /\
             represents s' (fst (spec_run m (map (fun kv => Put kv.1 kv.2) kvs))) /\ kt s' = kt s.
Proof.
  intros s m kvs HI HR Hw. destruct (put_from_iter_in_order s m kvs HI HR Hw) as (s' & H1 & H2 & H3 & H4 & _).
  exists s'. split; [exact H1|]. split; [exact H2|]. split; [|exact H4].
  rewrite spec_run_puts. exact H3.
Qed.

(** the NoDup hypotheses are necessary (kernel-computed counterexamples with repeated keys) *)
Example C14_repeats_matter :
  bulk_delete key_sorter ex_store [[2]; [2]] ≠ Ok (ex_store, [Some [20; 21]; Some [20; 21]]) /\
  bulk_get key_sorter ex_store [[2]; [9]; [1; 2; 3]; [2]] = Ok [Some [20; 21]; None; Some [10]; Some [20; 21]].
Proof. split; [|exact ex_bulk_get]. vm_compute. intros H. discriminate H. Qed.

(** the *_string variants: [get_string k = lossy <$> get k] etc., where [Utf8.lossy] models
    String::from_utf8_lossy (std).  The model function is compared with the std function on every byte
    string of length <= 2, on all 3-byte (thorough: 4-byte) strings over one representative per
    UTF-8 byte class and on seeded random strings by this check.  ASCII is copied unchanged: *)
From Aby Require Import Utf8.
Theorem C14_lossy_ascii_identity : forall bs, forallb (fun b => b <? 128) bs = true -> lossy bs = bs.
Proof. exact lossy_ascii. Qed.

(** [lossy] against an INDEPENDENT definition of well-formed UTF-8 (Unicode Table 3-7, [Utf8_proofs.wf_utf8]) and the
    encoder of Unicode scalar values ([encode]: what a Rust [String] holds, what [put_string] stores): *)
From Aby Require Import Utf8_proofs.
Theorem C14_lossy_identity_on_well_formed_utf8 : forall bs, wf_utf8 bs -> lossy bs = bs.
Proof. exact lossy_valid_identity. Qed.

Theorem C14_lossy_result_is_well_formed : forall bs, wf_utf8 (lossy bs).
Proof. exact lossy_well_formed. Qed.

Theorem C14_lossy_idempotent : forall bs, lossy (lossy bs) = lossy bs.
Proof. exact lossy_idempotent. Qed.

Theorem C14_rust_strings_are_well_formed : forall s, Forall scalar s -> wf_utf8 (encode s).
Proof. exact encode_well_formed. Qed.

Theorem C14_string_round_trip : forall s, Forall scalar s -> lossy (encode s) = encode s.
Proof. exact string_round_trip. Qed.

Theorem C14_encoding_injective : forall c d, scalar c -> scalar d -> encode_char c = encode_char d -> c = d.
Proof. exact encode_char_inj. Qed.

Theorem C14_lossy_keeps_a_valid_prefix : forall a b, wf_utf8 a -> lossy (a ++ b) = a ++ lossy b.
Proof. exact lossy_app_valid. Qed.

Theorem C14_lossy_length : forall bs, (length (lossy bs) <= 3 * length bs)%nat.
Proof. exact lossy_length. Qed.

(** THE STRING VARIANTS AS A LAYER OVER [Db.step] (Strings.v: [sstep] - the function the runner executes for getstr / delstr /
    bulkgetstr / bulkdelstr - runs the byte call and maps [lossy] over the returned values): they change the world exactly as the
    byte variants, return [post] of the byte variants' results, and inside the domain of the world-level refinement theorem
    return [lossy] of what the ideal maps hold. *)
From Aby Require Import Db Db_proofs World_refine Strings Strings_proofs.
Theorem C14_string_variants_change_the_world_as_the_byte_variants : forall ops w,
  sworld_run w ops = world_run w (map plain ops).
Proof. exact string_variants_same_world. Qed.

Theorem C14_string_variants_return_lossy_of_the_byte_variants : forall ops w,
  srun_outs w ops = zip_post ops (run_outs w (map plain ops)).
Proof. exact string_variants_outputs. Qed.

Theorem C14_string_history_refines_ideal_maps : forall w iw ops,
  wrep w iw -> ops_ok w (map plain ops) ->
  wrep (sworld_run w ops) (irun w iw (map plain ops)).1 /\
  Forall2 (fun '(o, r) ir => sagrees o r ir) (zip ops (srun_outs w ops)) (irun w iw (map plain ops)).2.
Proof. exact string_history_refines. Qed.

Theorem C14_stored_strings_come_back_unchanged : forall s, Forall scalar s ->
  str_out (ROpt (Some (encode s))) = ROpt (Some (encode s)) /\
  (forall l, In (Some (encode s)) l -> In (Some (encode s)) (match str_out (RVec l) with RVec l' => l' | _ => [] end)).
Proof. exact string_value_round_trip. Qed.

Example C14_nonvacuous_strings := (Utf8_proofs.wf_example, Utf8_proofs.scalar_example, Utf8_proofs.encode_example, Strings_proofs.str_out_examples).
