(** Property C11 - named maps are isolated; handles to the same map alias one state. *)
From Aby Require Import Base Vu64 KeyTypes Consts Sizing Alloc Htx Store Iter Stats Layout Bulk Db Db_proofs Spec World_refine.

(** [Db.step] is the world-level model the correspondence runner executes against the crate: the
    files of every (directory, map name), database handles, map handles.  [target w o] is the map
    the operation [o] addresses through its handle (or creates / opens). *)

(** an operation on one map leaves the three files of EVERY other map - slots, free lists, table,
    lengths - and its in-memory flags exactly unchanged (whatever their key types) *)
Theorem C11_isolation : forall w o mk',
  target w o <> Some mk' ->
  (match o with ODbSync _ | ODrop _ | ODropDb _ | OCloseAll | OCpDir _ _ => False | _ => True end) ->
  files (fst (step w o)) !! mk' = files w !! mk'.
Proof. exact step_frame. Qed.

(** dropping handles and database-wide sync only flush: every map keeps kt, table and both piece
    files ([store_eqv]: equal up to the in-memory dirty/synced flags) *)
Theorem C11_handle_management_only_flushes : forall w o,
  (match o with ODrop _ | ODropDb _ | OCloseAll | ODbSync _ => True | _ => False end) ->
  forall mk' s, files w !! mk' = Some s ->
    exists s', files (fst (step w o)) !! mk' = Some s' /\ store_eqv s' s.
Proof. exact handle_mgmt_only_flush. Qed.

(** all handles registered for the same map are interchangeable: the same call through either
    gives the same result and the same new world - they observe each other's updates immediately *)
Theorem C11_handles_alias : forall w m1 m2 o,
  mids w !! m1 = mids w !! m2 -> uses_handle o m1 -> step w (rehandle m2 o) = step w o.
Proof. exact handles_alias. Qed.

(** a clone of a handle is registered for the same map and changes no file *)
Theorem C11_clone_aliases : forall w nm m h,
  mids w !! m = Some h ->
  mids (fst (step w (OMapClone nm m))) !! nm = Some h /\
  mids (fst (step w (OMapClone nm m))) !! m = Some h /\
  files (fst (step w (OMapClone nm m))) = files w.
Proof. exact clone_aliases. Qed.

(** a repeated lookup of the same name (through any database handle of that directory, with any
    parameters) yields a handle to the very same map; other maps are untouched *)
Theorem C11_repeated_lookup_aliases : forall w nm m d t tm name p dir s,
  dbs w !! d = Some dir -> mids w !! m = Some ((dir, name), tm) ->
  files w !! (dir, name) = Some s -> bytes_eqb (sig_of (kt s)) (sig_of t) = true ->
  let w' := fst (step w (OMap nm d t name p)) in
  snd (step w (OMap nm d t name p)) = RUnit /\
  mids w' !! nm = Some ((dir, name), t) /\
  fst <$> mids w' !! m = Some (dir, name) /\
  (exists s', files w' !! (dir, name) = Some s' /\ store_eqv s' s) /\
  ((dir, name) ∈ opened w -> files w' = files w) /\
  forall mk', mk' <> (dir, name) -> files w' !! mk' = files w !! mk'.
Proof. exact second_open_aliases. Qed.

(** in ideal terms: a call changes at most the ideal map it targets - every other (directory, name)
    keeps its ideal contents; calls without a target change no ideal map *)
Theorem C11_ideal_isolation : forall w iw o mk mk',
  target w o = Some mk -> mk' <> mk -> (istep w iw o).1 !! mk' = iw !! mk'.
Proof. exact istep_frame. Qed.
Theorem C11_ideal_no_target : forall w iw o, target w o = None -> (istep w iw o).1 = iw.
Proof. exact istep_no_target. Qed.

(** all maps of a world refine their own ideal maps simultaneously, whatever the interleaving
    (C01_world_refines_ideal_maps in Props/C01.v) *)

(** non-vacuity: two maps "a" (bytes) and "b" (u64) in one directory, a clone of a's handle *)
Example C11_nonvacuous_clone_put_seen := Examples.clone_put_seen.
Example C11_nonvacuous_other_map_unchanged := Examples.other_map_unchanged.

(** THE FILES OF A MAP (Names.v).  The world-level model identifies a map by (directory, name); on
    disk the map [name] is the three files [name.htx], [name.key], [name.val] of the directory.
    That map from (name, kind of file) to file names is injective, whatever bytes the names
    contain - dots, the extensions themselves, names that are prefixes of each other: different
    maps never share a file, and the three files of one map are three files.  The correspondence
    runner prints every directory listing through the extracted [file_name]. *)
From Aby Require Import Names.

Theorem C11_file_names_never_clash : forall n1 k1 n2 k2,
  file_name n1 k1 = file_name n2 k2 -> n1 = n2 /\ k1 = k2.
Proof. exact file_name_inj. Qed.

Theorem C11_files_of_different_maps_are_disjoint : forall n1 n2 k1 k2,
  n1 <> n2 -> file_name n1 k1 <> file_name n2 k2.
Proof. exact files_of_maps_disjoint. Qed.

(** replacing "everything after the last dot" instead (PathBuf::set_extension, the seeded changes
    C11e / C12e) is not injective: "users.v1" and "users.v2" would share one table file *)
Example C11_set_extension_would_clash :
  let a := [117; 115; 101; 114; 115; 46; 118; 49] in
  let b := [117; 115; 101; 114; 115; 46; 118; 50] in
  a <> b /\ set_extension a KHtx = set_extension b KHtx /\ file_name a KHtx <> file_name b KHtx.
Proof. exact set_extension_clashes. Qed.

(** A DIRECTORY OF SEVERAL MAPS AT BYTE LEVEL (Io_world.v).  The directory is a finite map from file names to byte strings; a
    session on the map called [name] looks its three file names up ([Names.file_name]), creates or opens the three files
    ([Io.create] / [Io.open_existing]), runs the calls with their real seeks, reads and writes and leaves the three byte strings
    under the three names.  FRAME: no other file of the directory changes - every file of every map called otherwise is byte for
    byte what it was; REFINEMENT: any interleaving of sessions on any number of maps returns, map by map, what independent ideal
    maps return, and the directory holds [render] of each map's own record-level state. *)
From Aby Require Import Spec Refine_all Io Io_run Io_world.
Theorem C11_byte_level_session_touches_only_its_own_files : forall d name t n bk bv bh ops d' outs,
  session d name t n bk bv bh ops = Ok (d', outs) ->
  forall fn, (forall f, fn <> fname name f) -> d' !! fn = d !! fn.
Proof. exact session_frame. Qed.

Theorem C11_byte_level_files_of_other_maps_unchanged : forall d name t n bk bv bh ops d' outs name',
  session d name t n bk bv bh ops = Ok (d', outs) -> name' <> name ->
  forall f, d' !! fname name' f = d !! fname name' f.
Proof. exact session_leaves_other_maps. Qed.

Theorem C11_byte_level_sessions_refine_independent_ideal_maps : forall qs d g iw,
  DRep d g -> GRep g iw -> reqs_ok g qs ->
  exists d' g', dir_run d qs = Ok (d', snd (ideal_run iw qs)) /\ DRep d' g' /\ GRep g' (fst (ideal_run iw qs)).
Proof. exact sessions_refine_ideal_maps. Qed.

Theorem C11_byte_level_sessions_from_the_empty_directory : forall qs,
  reqs_ok ∅ qs ->
  exists d' g', dir_run ∅ qs = Ok (d', snd (ideal_run ∅ qs)) /\ DRep d' g' /\ GRep g' (fst (ideal_run ∅ qs)).
Proof. exact sessions_from_the_empty_directory. Qed.

(** ... and the directory holds nothing but the files of its maps (three per map, under the three names of each), the maps it
    holds being exactly those of the ideal world *)
Theorem C11_byte_level_directory_holds_only_the_files_of_its_maps : forall qs d g iw,
  DRep d g -> GRep g iw -> DOnly d g -> reqs_ok g qs ->
  exists d' g', dir_run d qs = Ok (d', snd (ideal_run iw qs)) /\ DRep d' g' /\ GRep g' (fst (ideal_run iw qs)) /\ DOnly d' g' /\
    (forall name, is_Some (g' !! name) <-> is_Some ((fst (ideal_run iw qs)) !! name)).
Proof. exact sessions_leave_only_map_files. Qed.

(** the same with sessions whose histories also contain full traversals and statistics calls (Io_world_w.v, over Io_wrun.v):
    every result of every session is what the ideal map of THAT map at THAT moment says - a traversal yields a permutation of
    it, never an entry of another map *)
From Aby Require Import Io_wrun Io_world_w.
Theorem C11_byte_level_sessions_with_traversals_refine_independent_ideal_maps : forall qs d g iw,
  DRep d g -> GRep g iw -> wreqs_ok g qs ->
  exists d' g' outs, wdir_run d qs = Ok (d', outs) /\ wagree_sessions iw qs outs /\ DRep d' g' /\ GRep g' (wideal_run iw qs).
Proof. exact wsessions_refine_ideal_maps. Qed.

Theorem C11_byte_level_session_with_traversals_touches_only_its_own_files : forall d name t n bk bv bh ops d' outs,
  wsession d name t n bk bv bh ops = Ok (d', outs) ->
  forall fn, (forall f, fn <> fname name f) -> d' !! fn = d !! fn.
Proof. exact wsession_frame. Qed.

Example C11_nonvacuous_directory := Io_world.ex_sessions.
