(** Property C17 - storage statistics calls report the true structure. *)
From Aby Require Import Base Vu64 Hash KeyTypes Consts Sizing Alloc AllocInv Htx Store Stats Spec
  Refine Refine_all Stats_proofs.

(** For every state satisfying the file invariant (hence after any history) the statistics calls
    return [Ok] (the free-list walks and the slot walks terminate) and:
    - the free-slot count reported for class i is the length of free list i (for the ghost lists
      [frk]/[frv] of the allocator invariant, which hold each free slot exactly once);
    - the key / value length histograms count exactly the live NON-EMPTY keys / values of the ideal
      map, by length;
    - the slot-size histograms count exactly the slots in use that hold a non-empty key / value, by
      slot size;
    - the filling figure is (c, c*1000/n) with c the number of non-empty buckets. *)
Theorem C17_statistics : forall s m, Inv s -> represents s m ->
  exists st frk frv, stats_of s = Ok st /\
    alloc_inv key_cfg (keyf s) frk /\ alloc_inv val_cfg (valf s) frv /\
    st_free_key st = map (fun i => (nth i (size_ary key_cfg) 0, N.of_nat (length (frk i)))) (seq 0 16) /\
    st_free_val st = map (fun i => (nth i (size_ary val_cfg) 0, N.of_nat (length (frv i)))) (seq 0 16) /\
    (forall x, hcount (st_key_lens st) x =
       N.of_nat (length (filter (fun kv : bytes * bytes => negb (blen kv.1 =? 0) && (blen kv.1 =? x))
                                (map_to_list m)))) /\
    (forall x, hcount (st_val_lens st) x =
       N.of_nat (length (filter (fun kv : bytes * bytes => negb (blen kv.2 =? 0) && (blen kv.2 =? x))
                                (map_to_list m)))) /\
    (forall x, hcount (st_key_sizes st) x =
       N.of_nat (size (filter (fun os : N * slot krec =>
                                 used_nonempty_of_size (fun r => blen (k_key r)) x os.2)
                              (slots (keyf s))))) /\
    (forall x, hcount (st_val_sizes st) x =
       N.of_nat (size (filter (fun os : N * slot bytes => used_nonempty_of_size blen x os.2)
                              (slots (valf s))))) /\
    st_fill st =
      (let c := N.of_nat (length (filter (fun b => negb (head_at (hx s) b =? 0))
                                         (seqN' 0 (N.to_nat (nb (hx s)))))) in
       (c, c * 1000 / nb (hx s))).
Proof. exact stats_of_spec. Qed.

(** the histograms are strictly sorted with positive counters: an entry is present iff its count > 0 *)
Theorem C17_histograms_sorted : forall s st, stats_of s = Ok st ->
  hsorted (st_key_sizes st) /\ hsorted (st_val_sizes st) /\ hsorted (st_key_lens st) /\ hsorted (st_val_lens st).
Proof. exact stats_of_sorted. Qed.

(** they terminate on every reachable state *)
Theorem C17_terminate_on_every_reachable_state : forall t n ops, 1 <= n -> Forall (op_wf t) ops ->
  exists s' st, store_run (create t n) ops = Ok (s', snd (spec_run ∅ ops)) /\ Inv s' /\
                represents s' (fst (spec_run ∅ ops)) /\ stats_of s' = Ok st.
Proof. exact stats_terminate_reachable. Qed.

(** non-vacuity: after three puts and a delete one 16-byte slot is on the free list of each file *)
Example C17_nonvacuous :
  (let* (s, _) := store_run (create KBytes 4) ex_ops in
   let* st := stats_of s in Ok (hd (0, 0) (st_free_key st), st_key_lens st, st_val_lens st, st_fill st))
  = Ok ((16, 1), [(2, 1); (3, 1)], [(3, 1)], (2, 500)).
Proof. vm_compute. reflexivity. Qed.
