(** Property C18 - the on-disk image is a deterministic function of the update history. *)
From Aby Require Import Base Vu64 KeyTypes Consts Sizing Alloc Htx Store Iter Stats Layout Bulk Db Db_proofs.

(** The files after close are [render] of the final state, and the final state is
    [world_run world0 history]: a Gallina function - no clock, no address, no process state enters.
    What needs proof is that the calls that are NOT updates do not matter. *)

(** steps respect equality of worlds up to the in-memory flags *)
Theorem C18_steps_respect_flags : forall w w' o,
  api_op o = true -> world_eqv w w' -> world_eqv (fst (step w o)) (fst (step w' o)).
Proof. exact step_respects_eqv. Qed.

(** dropping every read-only call and every flush/sync from a history leaves an equivalent world *)
Theorem C18_read_only_calls_irrelevant : forall w ops,
  Forall (fun o => api_op o = true) ops ->
  world_eqv (world_run w ops)
            (world_run w (List.filter (fun o => negb (read_only o || flush_like o)) ops)).
Proof. exact read_only_calls_irrelevant. Qed.

(** ... hence byte-identical images of every map *)
Theorem C18_images_function_of_updates : forall w ops mk s s',
  Forall (fun o => api_op o = true) ops ->
  files (world_run w ops) !! mk = Some s ->
  files (world_run w (List.filter (fun o => negb (read_only o || flush_like o)) ops)) !! mk = Some s' ->
  render s = render s'.
Proof. exact images_function_of_updates. Qed.

(** the results of the updating calls are unaffected as well *)
Theorem C18_update_results_unaffected : forall w ops,
  Forall (fun o => api_op o = true) ops ->
  kept_outs (fun o => negb (read_only o || flush_like o)) w ops =
  run_outs w (List.filter (fun o => negb (read_only o || flush_like o)) ops).
Proof. exact update_results_function_of_updates. Qed.

Example C18_nonvacuous_images_equal := Examples.images_equal_by_theorem.
Example C18_nonvacuous_flags_differ := Examples.flags_differ.

(** AT BYTE LEVEL (Io_det.v): the three FILES that the I/O of the map layer leaves after a history
    ([Io.images]: the flat files of the byte-level model, compared with the real files byte for
    byte and event by event) are the same as after the updating calls of that history alone -
    whatever read-only calls were made in between *)
From Aby Require Import Load Load_all Refine Refine_all Io Io_base Io_htx Io_run Io_det.
Theorem C18_byte_level_files_function_of_updates : forall s sp m ops s' outs,
  wf_state s -> represents s sp -> simg s m -> Forall (op_wf (kt s)) ops -> sized s ops ->
  store_run s ops = Ok (s', outs) ->
  exists m' m'' outs'',
    io_run m ops = Ok (m', outs) /\
    io_run m (List.filter is_update ops) = Ok (m'', outs'') /\
    Io.images m' = Io.images m''.
Proof. exact byte_level_images_function_of_updates. Qed.

(** ... whatever read-only calls are made in between - FULL TRAVERSALS and STATISTICS calls included (Io_wdet.v over Io_wrun.v) *)
From Aby Require Import Io_wrun Io_wdet.
Theorem C18_byte_level_files_function_of_updates_with_traversals : forall s sp m ops,
  wf_state s -> represents s sp -> simg s m -> Forall (wop_wf (kt s)) ops -> wsized s ops ->
  exists m' outs m'' outs'',
    wio_run m ops = Ok (m', outs) /\
    wio_run m (List.filter is_wupdate ops) = Ok (m'', outs'') /\
    Io.images m' = Io.images m''.
Proof. exact byte_level_images_function_of_updates_w. Qed.
