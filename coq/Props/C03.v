(** Property C03 - flush / sync make all preceding updates durable on disk. *)
From Aby Require Import Base Buf Buf_proofs Store.

(** The buffered-file model (Buf.v): each of the three files of a map is (logical image, disk image,
    set of dirty chunks); updates write into the buffers after raising the map's dirty flag; rabuf
    may write any dirty chunk back at any time (eviction); flush writes the dirty chunks of the
    value, key and table file in this order and clears the flag; sync does the same and asks the
    OS to sync each file.  [dinv]: chunks outside the dirty set are identical on disk, and a clear
    dirty flag means nothing is buffered (the invariant defect D1 broke).  [A] is the chunk content
    type (arbitrary). *)
Section C03.
Context {A : Type}.

(** the invariant holds at open/creation and is kept by every step, failed flushes included *)
Theorem C03_invariant_at_open : forall v k h : bfile A,
  clean_inv v -> clean_inv k -> clean_inv h -> dinv (dopen v k h).
Proof. exact dinv_dopen. Qed.
Theorem C03_invariant_kept : forall (d : dmap A) ops, dinv d -> dinv (drun d ops).
Proof. exact drun_dinv. Qed.

(** whenever flush returns Ok the disk images equal the memory view - every update made before
    the call is on disk - and the view itself is unchanged *)
Theorem C03_flush_durable : forall (d : dmap A) (o : fid -> oracle A),
  dinv d ->
  let '(d', ok) := dflush o d in
  view d' = view d /\ dinv d' /\
  (ok = true -> on_disk d' = view d /\ dflag d' = false) /\
  (ok = false -> dflag d' = true).
Proof. exact flush_durable. Qed.

Theorem C03_sync_durable : forall all (d : dmap A) (o : fid -> oracle A),
  dinv d ->
  let '(d', ok) := dsync all o d in
  view d' = view d /\ dinv d' /\
  (ok = true -> on_disk d' = view d /\ dflag d' = false /\ unsynced d' = false) /\
  (ok = false -> dflag d' = true).
Proof. exact sync_durable. Qed.

(** after ANY history of updates, evictions, flushes and syncs (successful or not) *)
Theorem C03_durable_after_any_history : forall (d : dmap A) ops (o : fid -> oracle A),
  dinv d ->
  let d1 := drun d ops in
  (snd (dflush o d1) = true -> on_disk (fst (dflush o d1)) = view d1) /\
  (forall all, snd (dsync all o d1) = true -> on_disk (fst (dsync all o d1)) = view d1).
Proof. exact durable_after_any_history. Qed.

(** a map that was only created: the creation wrote the headers into the buffers with the flag
    raised, so the first flush writes them (instance of the theorem above with [d := dopen ...]) *)

(** sync_all / sync_data additionally ask the OS to sync each of the three files, after that
    file's last buffered write (events are newest first) *)
Theorem C03_sync_requests : forall (d : dmap A) all (o : fid -> oracle A),
  let '(d', ok) := dsync all o d in
  (dflag d || unsynced d = true) -> ok = true ->
  forall f, exists pre post,
    events d' = post ++ EOsSync f all :: pre /\ (forall e, e ∈ post -> e <> EWrite f).
Proof. exact sync_requests_issued. Qed.

(** ... also when the sync follows a flush that already cleared the dirty flag (defect D9): the
    [unsynced] flag keeps the request pending; invariant over every history: with both flags
    clear, every file has been OS-synced after its last write *)
Theorem C03_sync_invariant : forall (d : dmap A) ops, sync_inv d -> sync_inv (drun d ops).
Proof. exact drun_sync_inv. Qed.
End C03.

(** non-vacuity (chunks are numbers): two files dirty; the OS refuses one chunk; the flush fails
    and keeps the view; the next, fault-free flush makes the disk equal the view *)
Example C03_nonvacuous :
  dinv ex_d0 /\ snd (dflush ex_bad ex_d0) = false /\
  on_disk ex_d2 = view ex_d0 /\ dflag ex_d2 = false.
Proof.
  split; [exact ex_d0_dinv|]. split; [vm_compute; reflexivity|].
  destruct ex_recovery as (_ & H2 & _ & H4 & _). split; assumption.
Qed.

(** END TO END (Durable.v): the three pieces composed - the record-level store with its byte images
    ([Layout.render]), the buffered files ([Buf.v], chunk sizes [cv ck ch] arbitrary > 0, contents =
    the chunks of the images) and the independent reader ([Load.load]).  [cst] = store + buffers;
    [tracks c]: what reads see in the buffers is exactly the chunked image of the current store;
    [crun]: any history of puts, deletes, evictions of arbitrary chunks, flushes and syncs that may
    have failed under arbitrary fault oracles.  WHENEVER a flush (or sync) then returns Ok, the
    bytes on disk - un-chunked - ARE [render] of the current store; a reader of the format applied
    to that directory copy gets back exactly the current state, with exactly the contents of the
    ideal map after all updates of the history. *)
From Aby Require Import Vu64 KeyTypes Consts Sizing Alloc Htx Layout Load Spec Refine Refine_all Load_all Durable.

Theorem C03_flush_makes_the_current_state_durable : forall cv ck ch, 0 < cv -> 0 < ck -> 0 < ch ->
  forall c ops c' (o : fid -> oracle bytes) d2 m,
  wf_state (c_store c) -> tracks cv ck ch c -> dinv (c_buf c) -> represents (c_store c) m ->
  cops_wf (kt (c_store c)) ops ->
  crun cv ck ch c ops = Ok c' ->
  dflush o (c_buf c') = (d2, true) ->
  exists imgs, render (c_store c') = Ok imgs /\
    disk_imgs d2 = imgs /\
    view d2 = view (c_buf c') /\
    (fits64 (c_store c') -> exists s'', load (kt (c_store c')) imgs = Ok s'' /\
        hx s'' = hx (c_store c') /\ keyf s'' = keyf (c_store c') /\ valf s'' = valf (c_store c')) /\
    (fits64 (c_store c') -> exists s'' l, load (kt (c_store c')) imgs = Ok s'' /\ contents s'' = Ok l /\
        l ≡ₚ map_to_list (fst (spec_run m (updates_of ops)))).
Proof. exact C03_flush_makes_current_state_durable. Qed.

Theorem C03_sync_makes_the_current_state_durable : forall cv ck ch, 0 < cv -> 0 < ck -> 0 < ch ->
  forall c ops c' all (o : fid -> oracle bytes) d2 m,
  wf_state (c_store c) -> tracks cv ck ch c -> dinv (c_buf c) -> represents (c_store c) m ->
  cops_wf (kt (c_store c)) ops ->
  crun cv ck ch c ops = Ok c' ->
  dsync all o (c_buf c') = (d2, true) ->
  exists imgs, render (c_store c') = Ok imgs /\
    disk_imgs d2 = imgs /\
    view d2 = view (c_buf c') /\
    (fits64 (c_store c') -> exists s'', load (kt (c_store c')) imgs = Ok s'' /\
        hx s'' = hx (c_store c') /\ keyf s'' = keyf (c_store c') /\ valf s'' = valf (c_store c')) /\
    (fits64 (c_store c') -> exists s'' l, load (kt (c_store c')) imgs = Ok s'' /\ contents s'' = Ok l /\
        l ≡ₚ map_to_list (fst (spec_run m (updates_of ops)))).
Proof. exact C03_sync_makes_current_state_durable. Qed.

(** a map that was only created and never updated: after the first successful flush the directory
    opens as a valid EMPTY map *)
Theorem C03_created_only_opens_empty : forall cv ck ch, 0 < cv -> 0 < ck -> 0 < ch ->
  forall t n imgs0 (o : fid -> oracle bytes) d2,
  1 <= n -> render (create t n) = Ok imgs0 ->
  dflush o (c_buf (created cv ck ch t n imgs0)) = (d2, true) ->
  disk_imgs d2 = imgs0 /\
  view d2 = imgs_view cv ck ch imgs0 /\
  (fits64 (create t n) -> exists s'', load t imgs0 = Ok s'' /\
      hx s'' = hx (create t n) /\ keyf s'' = keyf (create t n) /\ valf s'' = valf (create t n) /\
      contents s'' = Ok []).
Proof. exact C03_created_only. Qed.

(** AT BYTE LEVEL, OVER THE CONCRETE BUFFER (Io_durable.v): the I/O the map layer really performs
    ([Io], compared with the crate's fine trace event by event) issued against the executable model
    of rabuf's BufFile ([Cache.Rabuf], run against the real rabuf on every C07 check) in front of
    each of the three files, in ANY configuration ([backs]: any chunk table, any number of chunks,
    auto / per-mille growth).  After creation (a power of two of buckets) and ANY history: when the
    three buffers are flushed, the three files on the disk are exactly [render] of the current
    state, and the independent reader reads the ideal map's contents back from them.  (All calls
    succeed here; the failing branch is C16.) *)
From Aby Require Import Cache Cache_x Io Io_run Io_flat Io_flat_ro Io_cache Io_flat_upd Io_durable.

Theorem C03_byte_level_flush_durable_over_any_buffer : forall t n bk bv bh ops,
  1 <= n -> pow2 n -> Forall (op_wf t) ops -> sized (Store.create t n) ops ->
  exists s' (cf : Io.fid -> list call),
    store_run (Store.create t n) ops = Ok (s', snd (spec_run ∅ ops)) /\
    forall ck cv ch fuel,
      backs ck (Io.get_file (Io.empty_st bk bv bh) Io.FKey) ->
      backs cv (Io.get_file (Io.empty_st bk bv bh) Io.FVal) ->
      backs ch (Io.get_file (Io.empty_st bk bv bh) Io.FHtx) ->
      (forall f c, In (f, c) [(Io.FKey, ck); (Io.FVal, cv); (Io.FHtx, ch)] ->
         (xrun_fuel (Rabuf.k_cs c) (flat_of (Io.get_file (Io.empty_st bk bv bh) f)) (map call_op (cf f)) <= fuel)%nat) ->
      exists dk dv dh,
        flushed_disk fuel ck (cf Io.FKey) = Ok dk /\
        flushed_disk fuel cv (cf Io.FVal) = Ok dv /\
        flushed_disk fuel ch (cf Io.FHtx) = Ok dh /\
        render s' = Ok (dh, dk, dv) /\
        exists s'' l, load t (dh, dk, dv) = Ok s'' /\ contents s'' = Ok l /\
                      l ≡ₚ map_to_list (fst (spec_run ∅ ops)).
Proof. exact flush_durable_over_any_buffer. Qed.

(** sync_all / sync_data of the concrete buffer (Cache_sync.v): a sync succeeds on every state the
    theorems above reach, leaves exactly the logical file on the disk, and its OS sync request is
    the NEWEST disk event - issued after every write of the flush it performs and after every
    earlier write (the concrete form of "each file is OS-synced after its last buffered write") *)
From Aby Require Import Cache_sync.
Theorem C03_concrete_sync_durable_and_requested : forall c f all,
  cache_invx c -> Cache_proofs.R c f ->
  exists c' older, Rabuf.sync c all = Ok c' /\
    Rabuf.k_disk c' = Rabuf.f_bytes f /\ Cache_proofs.R c' f /\ cache_invx c' /\
    Rabuf.k_events c' = Rabuf.EvSync all :: older /\
    (exists writes, older = writes ++ Rabuf.k_events c).
Proof. exact sync_durable_and_requested. Qed.

(** ... and composed with the map layer (Io_sync.v): after creation and any history - every read and write issued against ANY
    cache in front of each of the three files - syncing the three buffers (sync_all or sync_data) leaves exactly [render] of the
    current state on the disk, [load] reads the ideal contents back, and for each file the OS sync request is the newest event
    the OS has seen for it. *)
From Aby Require Import Io_sync.
Theorem C03_byte_level_sync_durable_over_any_buffer : forall t n bk bv bh ops all,
  (1 <= n)%N -> pow2 n -> Forall (op_wf t) ops -> sized (Store.create t n) ops ->
  exists s' (cf : Io.fid -> list call),
    store_run (Store.create t n) ops = Ok (s', snd (spec_run ∅ ops)) /\
    forall ck cv ch fuel,
      backs ck (Io.get_file (Io.empty_st bk bv bh) Io.FKey) ->
      backs cv (Io.get_file (Io.empty_st bk bv bh) Io.FVal) ->
      backs ch (Io.get_file (Io.empty_st bk bv bh) Io.FHtx) ->
      (forall f c, In (f, c) [(Io.FKey, ck); (Io.FVal, cv); (Io.FHtx, ch)] ->
         (xrun_fuel (Rabuf.k_cs c) (flat_of (Io.get_file (Io.empty_st bk bv bh) f)) (map call_op (cf f)) <= fuel)%nat) ->
      exists dk dv dh ek ev eh,
        synced_disk fuel ck (cf Io.FKey) all = Ok (dk, Rabuf.EvSync all :: ek) /\
        synced_disk fuel cv (cf Io.FVal) all = Ok (dv, Rabuf.EvSync all :: ev) /\
        synced_disk fuel ch (cf Io.FHtx) all = Ok (dh, Rabuf.EvSync all :: eh) /\
        render s' = Ok (dh, dk, dv) /\
        exists s'' l, load t (dh, dk, dv) = Ok s'' /\ contents s'' = Ok l /\
                      l ≡ₚ map_to_list (fst (spec_run ∅ ops)).
Proof. exact sync_durable_over_any_buffer. Qed.

(** ... and for histories that also contain full traversals and statistics calls (Io_wrun_durable.v over Io_wrun_cache.v) *)
From Aby Require Import Io_wrun Io_wrun_durable.
Theorem C03_byte_level_sync_durable_with_traversals_over_any_buffer : forall t n bk bv bh ops all,
  (1 <= n)%N -> pow2 n -> Forall (wop_wf t) ops -> wsized (Store.create t n) ops ->
  exists s' outs (cf : Io.fid -> list call),
    wstore_run (Store.create t n) ops = Ok (s', outs) /\ wagree_run ∅ ops outs /\
    forall ck cv ch fuel,
      backs ck (Io.get_file (Io.empty_st bk bv bh) Io.FKey) ->
      backs cv (Io.get_file (Io.empty_st bk bv bh) Io.FVal) ->
      backs ch (Io.get_file (Io.empty_st bk bv bh) Io.FHtx) ->
      (forall f c, In (f, c) [(Io.FKey, ck); (Io.FVal, cv); (Io.FHtx, ch)] ->
         (xrun_fuel (Rabuf.k_cs c) (flat_of (Io.get_file (Io.empty_st bk bv bh) f)) (map call_op (cf f)) <= fuel)%nat) ->
      exists dk dv dh ek ev eh,
        synced_disk fuel ck (cf Io.FKey) all = Ok (dk, Rabuf.EvSync all :: ek) /\
        synced_disk fuel cv (cf Io.FVal) all = Ok (dv, Rabuf.EvSync all :: ev) /\
        synced_disk fuel ch (cf Io.FHtx) all = Ok (dh, Rabuf.EvSync all :: eh) /\
        render s' = Ok (dh, dk, dv).
Proof. exact whistory_sync_durable_over_any_buffer. Qed.
