(** Property C03 - flush / sync make all preceding updates durable on disk. *)
From Aby Require Import Base Buf Buf_proofs Store.

(** The buffered-file model (Buf.v): each of the three files of a map is (logical image, disk image,
    set of dirty chunks); updates write into the buffers after raising the map's dirty flag; rabuf
    may write any dirty chunk back at any time (eviction); flush writes the dirty chunks of the
    value, key and table file in this order and clears the flag; sync does the same and asks the
    OS to sync each file.  [dinv]: chunks outside the dirty set are identical on disk, and a clear
    dirty flag means nothing is buffered (the invariant defect D1 broke).  [A] is the chunk content
    type (arbitrary). *)
Section C03.
Context {A : Type}.

(** the invariant holds at open/creation and is kept by every step, failed flushes included *)
Theorem C03_invariant_at_open : forall v k h : bfile A,
  clean_inv v -> clean_inv k -> clean_inv h -> dinv (dopen v k h).
Proof. exact dinv_dopen. Qed.
Theorem C03_invariant_kept : forall (d : dmap A) ops, dinv d -> dinv (drun d ops).
Proof. exact drun_dinv. Qed.

(** whenever flush returns Ok the disk images equal the memory view - every update made before
    the call is on disk - and the view itself is unchanged *)
Theorem C03_flush_durable : forall (d : dmap A) (o : fid -> oracle A),
  dinv d ->
  let '(d', ok) := dflush o d in
  view d' = view d /\ dinv d' /\
  (ok = true -> on_disk d' = view d /\ dflag d' = false) /\
  (ok = false -> dflag d' = true).
Proof. exact flush_durable. Qed.

Theorem C03_sync_durable : forall all (d : dmap A) (o : fid -> oracle A),
  dinv d ->
  let '(d', ok) := dsync all o d in
  view d' = view d /\ dinv d' /\
  (ok = true -> on_disk d' = view d /\ dflag d' = false /\ unsynced d' = false) /\
  (ok = false -> dflag d' = true).
Proof. exact sync_durable. Qed.

(** after ANY history of updates, evictions, flushes and syncs (successful or not) *)
Theorem C03_durable_after_any_history : forall (d : dmap A) ops (o : fid -> oracle A),
  dinv d ->
  let d1 := drun d ops in
  (snd (dflush o d1) = true -> on_disk (fst (dflush o d1)) = view d1) /\
  (forall all, snd (dsync all o d1) = true -> on_disk (fst (dsync all o d1)) = view d1).
Proof. exact durable_after_any_history. Qed.

(** a map that was only created: the creation wrote the headers into the buffers with the flag
    raised, so the first flush writes them (instance of the theorem above with [d := dopen ...]) *)

(** sync_all / sync_data additionally ask the OS to sync each of the three files, after that
    file's last buffered write (events are newest first) *)
Theorem C03_sync_requests : forall (d : dmap A) all (o : fid -> oracle A),
  let '(d', ok) := dsync all o d in
  (dflag d || unsynced d = true) -> ok = true ->
  forall f, exists pre post,
    events d' = post ++ EOsSync f all :: pre /\ (forall e, e ∈ post -> e <> EWrite f).
Proof. exact sync_requests_issued. Qed.

(** ... also when the sync follows a flush that already cleared the dirty flag (defect D9): the
    [unsynced] flag keeps the request pending; invariant over every history: with both flags
    clear, every file has been OS-synced after its last write *)
Theorem C03_sync_invariant : forall (d : dmap A) ops, sync_inv d -> sync_inv (drun d ops).
Proof. exact drun_sync_inv. Qed.
End C03.

(** non-vacuity (chunks are numbers): two files dirty; the OS refuses one chunk; the flush fails
    and keeps the view; the next, fault-free flush makes the disk equal the view *)
Example C03_nonvacuous :
  dinv ex_d0 /\ snd (dflush ex_bad ex_d0) = false /\
  on_disk ex_d2 = view ex_d0 /\ dflag ex_d2 = false.
Proof.
  split; [exact ex_d0_dinv|]. split; [vm_compute; reflexivity|].
  destruct ex_recovery as (_ & H2 & _ & H4 & _). split; assumption.
Qed.
