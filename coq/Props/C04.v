(** Property C04 - iteration yields each live entry exactly once, with exact size hints. *)
From Aby Require Import Base Vu64 Hash KeyTypes Consts Sizing Alloc AllocInv Htx Htx_proofs Store Iter Spec
  Refine Refine_all Iter_proofs.

(** For every state satisfying the file invariant - hence after any history, for EVERY table size
    >= 1 (1, 2, 4, ... buckets; no power-of-two or alignment assumption is needed) - a complete
    traversal ([DbXxxIterMut]: new, then next until None, then two more next calls) returns [Ok]
    (no panic, no exhausted fuel: the bucket scan and the chain walk terminate) and yields a list
    [kvs] that is a permutation of the ideal map's entries (every live key exactly once, paired with
    its current value, nothing else); the size hint seen before the j-th item is [length kvs - j],
    the hint after the last item is 0, and further calls keep returning None. *)
Theorem C04_iteration : forall s m, Inv s -> represents s m ->
  exists kvs : list (bytes * bytes),
    iter_run s = Ok (combine (hints_down (length kvs)) kvs, 0, [None; None]) /\
    kvs ≡ₚ map_to_list m /\
    N.of_nat (length kvs) = len s.
Proof. exact iter_run_spec. Qed.

(** any number of further calls after the end return None *)
Theorem C04_stays_exhausted : forall s m n, Inv s -> represents s m ->
  exists items st,
    iter_collect (S (S (N.to_nat (count (hx s))))) s (iter_new s) [] = Ok (items, st) /\
    size_hint st = 0 /\
    iter_extra n s st = Ok (repeat None n).
Proof. exact iter_stays_exhausted. Qed.

(** the bitmap-accelerated scan finds the least occupied bucket at or after the entry index, for
    every table size and every entry index (the repaired defect D2 was here) *)
Theorem C04_bucket_scan : forall h idx,
  bitmap_ok h -> 1 <= nb h -> idx < nb h ->
  exists j off, next_nonempty h (nb h) idx = Ok (j, off) /\
    ( (off <> 0 /\ idx < j /\ j <= nb h /\ head_at h (j - 1) = off /\
       (forall b, idx <= b < j - 1 -> head_at h b = 0))
   \/ (off = 0 /\ j = nb h /\ (forall b, idx <= b < nb h -> head_at h b = 0)) ).
Proof. exact next_nonempty_spec. Qed.

(** keys / values / iter / iter_mut / into_iter are projections of the same state machine in the
    crate (wrappers around DbXxxIterMut); each flavour is driven separately by the correspondence check *)

(** non-vacuity: concrete traversals computed by the kernel: 4 buckets after puts, an update and a
    delete; a single bucket; a sparse table of 128 buckets (the scan crosses the u64 and byte strides) *)
Example C04_nonvacuous :
  exists s, Inv s /\ represents s (fst (spec_run ∅ ops_nb4)) /\ nb (hx s) = 4 /\
    iter_run s = Ok ([(3, ([4; 4], [40; 41])); (2, ([1], [11; 12])); (1, ([3], [30]))], 0, [None; None]).
Proof. exact C04_nonvacuous_nb4. Qed.
Example C04_nonvacuous_one_bucket :
  exists s, Inv s /\ represents s (fst (spec_run ∅ ops_nb1)) /\ nb (hx s) = 1 /\
    iter_run s = Ok ([(3, ([7], [])); (2, ([3], [30])); (1, ([1], [10]))], 0, [None; None]).
Proof. exact C04_nonvacuous_nb1. Qed.
Example C04_nonvacuous_128_buckets_sparse :
  exists s, Inv s /\ represents s (fst (spec_run ∅ ops_nb128)) /\ nb (hx s) = 128 /\
    iter_run s = Ok ([(7, ([15], [1])); (6, ([8; 0; 8], [8])); (5, ([16; 0; 16], [7]));
                      (4, ([3; 0; 3], [5])); (3, ([3; 3], [44; 44])); (2, ([14; 0; 14], [6]));
                      (1, ([5; 0; 5], [3]))], 0, [None; None]).
Proof. exact C04_nonvacuous_nb128. Qed.

(** at byte level (Io.v): on the image of the table file the bitmap scan, performed with real
    seeks and reads (8-byte, 1-byte and bucket strides), returns what the record-level scan returns
    and is a read-only step: no write, no seek beyond the end of the file (the seeded changes C15 and
    C18 broke exactly this) *)
From Aby Require Import Load Layout Io Io_base Io_htx Io_proofs.
Theorem C04_byte_level_bucket_scan : forall sig2 h,
  length sig2 = 8%nat -> htx_wf h -> (forall i, head_at h i < 2 ^ 64) -> nb h < 2 ^ 64 -> count h < 2 ^ 64 ->
  forall (s : Io.st) idx, bitmap_ok h -> holds sig2 h s -> idx < nb h ->
  exists j off s', next_nonempty h (nb h) idx = Ok (j, off) /\
    Io.next_key_piece_offset (nb h) idx s = Ok (j, off, s') /\ ro_step s s'.
Proof. exact Io_b_scan_total. Qed.

(** a traversal INSIDE any history, after a reopen of the files (Io_wrun.v): the files a session left, opened again with any
    buffer kinds, then any history of calls, traversals and statistics: every traversal returns a permutation of the ideal map
    of that moment with exact hints, then [None] twice. *)
From Aby Require Import Spec Refine_all Load_all Layout Io Io_run Io_wrun.
Theorem C04_byte_level_traversals_inside_any_history_after_a_reopen : forall s sp h k v st0 ops,
  wf_state s -> represents s sp -> render s = Ok (h, k, v) -> Io.st_images st0 = (h, k, v) ->
  (0 < Io.fcs (Io.get_file st0 Io.FKey))%N -> (0 < Io.fcs (Io.get_file st0 Io.FVal))%N ->
  Forall (wop_wf (kt s)) ops -> wsized s ops ->
  exists m st1 s' m' outs,
    Io.open_existing (kt s) st0 = Ok (Io.Opened m, st1) /\
    wstore_run s ops = Ok (s', outs) /\ wio_run m ops = Ok (m', outs) /\
    simg s' m' /\ wf_state s' /\ represents s' (wspec_run sp ops) /\ wagree_run sp ops outs.
Proof. exact Io_reopen_then_whistory. Qed.
