(** Property C13 - opening files as the wrong key type or with foreign signatures is refused. *)
From Aby Require Import Base Vu64 KeyTypes Consts Sizing Alloc Htx Store Layout Open Refine Open_proofs Db.

(** [open_files t (htx, key, val)] (Open.v) is the three header checks of
    FileDbXxxInner::open_with_params in their real order - key file, value file, table file; each
    reads signature1, the type signature and one more 8-byte field - on byte images; it is a pure
    function of the images (nothing is written on any path of the model).  [render s] are the byte
    images of a map (compared with the real files byte for byte by the correspondence check). *)

(** files of a map open under their own key type *)
Theorem C13_same_type_accepted : forall s imgs,
  1 <= nb (hx s) < 2 ^ 64 -> render s = Ok imgs -> open_files (kt s) imgs = Accepted.
Proof. exact open_same_type. Qed.

(** ... and are refused under every key type with a different type signature *)
Theorem C13_wrong_type_rejected : forall s t imgs,
  1 <= nb (hx s) < 2 ^ 64 -> render s = Ok imgs -> sig_of t <> sig_of (kt s) ->
  open_files t imgs = Rejected.
Proof. exact open_wrong_type. Qed.

(** the five type signatures are pairwise different, except the known pair *)
Theorem C13_signatures_distinct : forall a b, a <> b -> ~ Known13 a b -> sig_of a <> sig_of b.
Proof. exact sig_distinct. Qed.

Corollary C13_other_type_rejected : forall s t imgs,
  1 <= nb (hx s) < 2 ^ 64 -> render s = Ok imgs -> t <> kt s -> ~ Known13 t (kt s) ->
  open_files t imgs = Rejected.
Proof. exact open_wrong_type_distinct. Qed.

(** KNOWN FINDING D6 (known_findings.txt): DbU64 and DbVu64 declare the same signature, so files
    of one open as the other.  The lemma is over the constants regenerated from the crate on every
    run: the day the crate tells the two apart it stops compiling and the finding must be retired. *)
Lemma C13_known_finding_refuted : Known13 KU64 KVu64 /\ sig_of KU64 = sig_of KVu64.
Proof. split; [left; split; reflexivity|exact known13_same_signature]. Qed.

Theorem C13_known_pair_is_accepted : forall s t imgs,
  1 <= nb (hx s) < 2 ^ 64 -> render s = Ok imgs -> Known13 t (kt s) -> open_files t imgs = Accepted.
Proof. exact open_known_pair_accepted. Qed.

(** EVERY single-byte change (to any value) of the 16 leading signature bytes of ANY of the three
    files is refused *)
Theorem C13_mutated_signature_rejected : forall s imgs f i b,
  1 <= nb (hx s) < 2 ^ 64 -> render s = Ok imgs -> (i < 16)%nat -> get_file f imgs !! i <> Some b ->
  open_files (kt s) (mutate f i b imgs) = Rejected.
Proof. exact open_mutated. Qed.

(** one file replaced by the corresponding file of a map with another type signature *)
Theorem C13_foreign_file_rejected : forall s s0 imgs imgs0 f,
  1 <= nb (hx s) < 2 ^ 64 -> 1 <= nb (hx s0) < 2 ^ 64 -> render s = Ok imgs -> render s0 = Ok imgs0 ->
  sig_of (kt s0) <> sig_of (kt s) ->
  open_files (kt s) (set_file f (get_file f imgs0) imgs) = Rejected.
Proof. exact open_foreign_file. Qed.

(** the world-level model ([Db.open_map], executed against the crate by the correspondence
    runner) decides acceptance exactly as the byte-level check does *)
Theorem C13_world_model_agrees : forall s t imgs,
  1 <= nb (hx s) < 2 ^ 64 -> render s = Ok imgs ->
  (bytes_eqb (sig_of (kt s)) (sig_of t) = true <-> open_files t imgs = Accepted).
Proof. exact open_map_agrees. Qed.

(** a rejected open returns no handle and leaves the world - all files of all maps - unchanged *)
Lemma open_map_mismatch w mk t p s :
  files w !! mk = Some s -> bytes_eqb (sig_of (kt s)) (sig_of t) = false ->
  open_map w mk t p = Panic BadSig.
Proof. intros Hf Hs. unfold open_map. rewrite Hf, Hs. reflexivity. Qed.

Theorem C13_rejected_open_changes_nothing : forall w m d t name p dir s,
  dbs w !! d = Some dir -> files w !! ((dir, name) : mapkey) = Some s ->
  bytes_eqb (sig_of (kt s)) (sig_of t) = false ->
  step w (OMap m d t name p) = (w, RPanic BadSig).
Proof.
  intros w m d t name p dir s Hd Hf Hs. cbn [step]. rewrite Hd.
  rewrite (open_map_mismatch w (dir, name) t p s Hf Hs). reflexivity.
Qed.

Example C13_nonvacuous :
  opens (create KBytes 4) = Ok [Rejected; Accepted; Rejected; Rejected; Rejected] /\
  opens (create KU64 1) = Ok [Rejected; Rejected; Rejected; Accepted; Accepted].
Proof. split; [exact open_bytes_map|exact open_u64_map]. Qed.

(** AT BYTE LEVEL (Io.v: [Io.open_existing] performs the real sequence of seeks and reads of the
    three open_with_params - end-of-file seek, signature1, signature2, one u64 per file, the bucket
    count read a second time - and is compared with the crate's fine I/O trace event by event, for
    accepted and for rejected opens).  A rejected open - wrong type, or any single-byte change of
    the 16 signature bytes of any file - is a read-only step: the three byte strings are unchanged
    and every logged event is a read or a seek inside the file.  "A rejected open leaves all files
    byte-for-byte unchanged" as a theorem about the I/O actually performed. *)
From Aby Require Import Load Load_all Io Io_base Io_htx Io_open Io_open_any.
Import Io.

Theorem C13_byte_level_wrong_type_rejected_without_a_write : forall s t h k v st0,
  wf_state s -> fits64 s -> render s = Ok (h, k, v) -> st_images st0 = (h, k, v) ->
  sig_of t <> sig_of (kt s) ->
  exists st1, open_existing t st0 = Ok (RejectedAt FKey, st1) /\ ro_step st0 st1 /\ st_images st1 = (h, k, v).
Proof. exact Io_open_wrong_type_rejected. Qed.

Theorem C13_byte_level_mutated_signature_rejected_without_a_write : forall s h k v f i b st0,
  wf_state s -> fits64 s -> render s = Ok (h, k, v) -> (i < 16)%nat ->
  Open.get_file f (h, k, v) !! i <> Some b ->
  st_images st0 = mutate f i b (h, k, v) ->
  exists st1, open_existing (kt s) st0 = Ok (RejectedAt (fid_of f), st1) /\ ro_step st0 st1 /\
    st_images st1 = mutate f i b (h, k, v).
Proof. exact Io_open_mutated_rejected. Qed.

(** every open of existing files, accepted or not, only looks *)
Theorem C13_byte_level_open_only_looks : forall s t h k v st0 o st1,
  wf_state s -> fits64 s -> render s = Ok (h, k, v) -> st_images st0 = (h, k, v) ->
  open_existing t st0 = Ok (o, st1) ->
  ro_step st0 st1 /\ st_images st1 = (h, k, v).
Proof. exact Io_open_readonly. Qed.

(** ANY files - short, foreign, garbage; no well-formedness, no minimal length: a file that is not
    empty and whose first 16 bytes, as far as they exist (beyond the end the buffered file reads
    zeros), are not signature1 followed by the signature of the requested key type is refused AT
    THAT FILE by a read-only step - provided the files checked before it (key, value, table is the
    order) pass.  This covers a table file cut to 16 bytes of another key type's (seeded C13d). *)
Theorem C13_byte_level_any_foreign_file_rejected_without_a_write : forall t st0 f,
  passes_before t st0 f -> foreign_hdr (sig1_of f) (sig_of t) (fb (Io.get_file st0 f)) ->
  exists st1, open_existing t st0 = Ok (RejectedAt f, st1) /\ ro_step st0 st1 /\ st_images st1 = st_images st0.
Proof. exact open_any_foreign_rejected. Qed.

(** conversely, an accepted open saw the 16 right bytes at the start of every file *)
Theorem C13_byte_level_accepted_open_saw_the_signatures : forall t st0 m st1,
  open_existing t st0 = Ok (Opened m, st1) ->
  forall f, blen (fb (Io.get_file st0 f)) <> 0 /\ fld (fb (Io.get_file st0 f)) 0 = sig1_of f /\
            fld (fb (Io.get_file st0 f)) 8 = sig_of t.
Proof. exact open_any_accepted_has_signatures. Qed.

(** and for ANY three byte strings the open - accepted, refused or "fresh" - is a read-only step *)
Theorem C13_byte_level_any_open_only_looks : forall t st0 o st1,
  open_existing t st0 = Ok (o, st1) -> ro_step st0 st1 /\ st_images st1 = st_images st0.
Proof. exact Io_open_readonly_any. Qed.

(** IN A DIRECTORY OF SEVERAL MAPS (Io_world.v): a session that asks for an existing map under another key type (other than the
    pair of the known finding) ends with the signature panic before any call is run and returns no new directory - every file
    of the directory stays as it is. *)
From Aby Require Import Io_world.
Theorem C13_byte_level_wrong_type_session_refused : forall d g name s t n bk bv bh ops,
  DRep d g -> g !! name = Some s -> fits64 s -> t <> kt s -> ~ Known13 t (kt s) ->
  session d name t n bk bv bh ops = Panic BadSig.
Proof. exact session_wrong_type_refused. Qed.
