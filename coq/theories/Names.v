(** * Names: the files of a map.

    A map called [name] in a directory lives in three files of that directory:
    [name ++ ".htx"], [name ++ ".key"], [name ++ ".val"] (htx.rs / key.rs / val.rs:
    [pb.push(format!("{ks_name}.htx"))] ...).  The name is stored nowhere else; the world-level
    model ([Db.v]) identifies a map by (directory, name).  This file gives the file names as a
    function and shows that they never clash: different maps, or different kinds of file of one
    map, have different file names - whatever bytes the names contain (dots, the extensions
    themselves, prefixes of each other).  The correspondence runner prints directory listings
    through [file_name] (extracted), so the real directory of every `snap` is compared with it. *)
From Aby Require Import Base.

Inductive fkind := KHtx | KKey | KVal.

Definition ext_of (k : fkind) : bytes :=
  match k with KHtx => [104; 116; 120] | KKey => [107; 101; 121] | KVal => [118; 97; 108] end.   (* "htx" "key" "val" *)

Definition dot : N := 46.

Definition file_name (name : bytes) (k : fkind) : bytes := name ++ dot :: ext_of k.

Lemma ext_length k : length (ext_of k) = 3%nat.
Proof. destruct k; reflexivity. Qed.

Lemma ext_inj k1 k2 : ext_of k1 = ext_of k2 -> k1 = k2.
Proof. destruct k1, k2; cbn; intros H; try reflexivity; discriminate H. Qed.

(** two lists with equal-length tails: equal as a whole iff equal part by part *)
Lemma app_tail_inj (a b t1 t2 : bytes) : length t1 = length t2 -> a ++ t1 = b ++ t2 -> a = b /\ t1 = t2.
Proof.
  intros Hl H. assert (Hab : length a = length b).
  { apply (f_equal (@length N)) in H. rewrite !app_length in H. lia. }
  revert b Hab H. induction a as [|x a IH]; intros [|y b] Hab H; cbn in *; try discriminate.
  - auto.
  - injection H as -> H. destruct (IH b ltac:(lia) H) as [-> ->]. auto.
Qed.

Theorem file_name_inj n1 k1 n2 k2 : file_name n1 k1 = file_name n2 k2 -> n1 = n2 /\ k1 = k2.
Proof.
  unfold file_name. intros H.
  destruct (app_tail_inj n1 n2 (dot :: ext_of k1) (dot :: ext_of k2)) as [Hn He].
  - cbn. rewrite !ext_length. reflexivity.
  - exact H.
  - split; [exact Hn|]. injection He as He. apply ext_inj. exact He.
Qed.

(** the three files of one map are three files; the files of two maps are six *)
Corollary files_of_a_map_distinct n k1 k2 : k1 <> k2 -> file_name n k1 <> file_name n k2.
Proof. intros Hk H. apply Hk. exact (proj2 (file_name_inj _ _ _ _ H)). Qed.

Corollary files_of_maps_disjoint n1 n2 k1 k2 : n1 <> n2 -> file_name n1 k1 <> file_name n2 k2.
Proof. intros Hn H. apply Hn. exact (proj1 (file_name_inj _ _ _ _ H)). Qed.

(** what the seeded change C11e/C12e did instead - [PathBuf::set_extension]: everything after the
    LAST dot of the name is replaced (when there is a dot that is not the first character) - is
    NOT injective: two maps share one table file *)
Fixpoint last_dot (l : bytes) (i : nat) (found : option nat) : option nat :=
  match l with
  | [] => found
  | x :: r => last_dot r (S i) (if (x =? dot) && negb (Nat.eqb i 0) then Some i else found)
  end.
Definition set_extension (name : bytes) (k : fkind) : bytes :=
  match last_dot name 0 None with
  | Some i => take i name ++ dot :: ext_of k
  | None => name ++ dot :: ext_of k
  end.

Example set_extension_clashes :
  let a := [117; 115; 101; 114; 115; 46; 118; 49] in          (* "users.v1" *)
  let b := [117; 115; 101; 114; 115; 46; 118; 50] in          (* "users.v2" *)
  a <> b /\ set_extension a KHtx = set_extension b KHtx /\ file_name a KHtx <> file_name b KHtx.
Proof. cbn. split; [discriminate|]. split; [reflexivity|discriminate]. Qed.

Print Assumptions file_name_inj.
