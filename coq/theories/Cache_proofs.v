(** * Cache_proofs: machine-checked facts about the model [Cache] of rabuf::BufFile.

    - [cache_inv]: the invariant; it holds for every way abyssiniandb opens a file
      ([inv_open_cap], [inv_open_permille], [inv_open_auto], [inv_open_param]) and is preserved
      by every operation inside the flat domain ([cstep_refines]);
    - transparency ([cache_refines_flat]): for every chunk size > 0, every configuration with
      [cfg_ok] (a fixed maximum >= 2; or the auto mode with chunks of at most 32 KiB; or the auto
      mode with per-mille >= 1000) and every operation list inside the domain of the flat model,
      every operation returns [Ok] with the result of the flat model, for every fuel above an
      explicit bound, and after a [flush] the disk is the flat byte string ([flush_disk_is_flat]);
    - the defect D5/D8 ([single_chunk_diverges]): with one chunk allowed and chunk 0 held,
      fetching any other chunk exhausts every fuel; which parameters give one chunk
      ([permille_single_chunk]); [Size(v)] gives at least two ([size_param_at_least_two]);
    - the stale bytes after a shrinking [set_len] ([shrink_not_transparent]);
    - non-vacuity examples by [vm_compute]. *)
From Aby Require Import Base Cache.
From Coq Require Import Lia ZifyN ZifyNat ZifyBool Sorted.

#[local] Open Scope N_scope.

(** ** 1. byte strings at [N] positions *)

Lemma blen_nil : blen [] = 0.
Proof. reflexivity. Qed.

Lemma blen_app (a b : bytes) : blen (a ++ b) = blen a + blen b.
Proof. unfold blen. rewrite app_length. lia. Qed.

Lemma blen_zeros n : blen (zeros n) = n.
Proof. unfold blen, zeros. rewrite repeat_length. lia. Qed.

Lemma blen_take n (l : bytes) : blen (take (N.to_nat n) l) = N.min n (blen l).
Proof. unfold blen. rewrite take_length. lia. Qed.

Lemma blen_drop n (l : bytes) : blen (drop (N.to_nat n) l) = blen l - n.
Proof. unfold blen. rewrite drop_length. lia. Qed.

Lemma blen_cons x (l : bytes) : blen (x :: l) = 1 + blen l.
Proof. unfold blen. cbn [length]. lia. Qed.

Lemma getb_ge (l : bytes) p : blen l <= p -> getb l p = 0.
Proof. unfold getb, blen. intros H. apply nth_overflow. lia. Qed.

Lemma getb_app (a b : bytes) p :
  getb (a ++ b) p = if p <? blen a then getb a p else getb b (p - blen a).
Proof.
  unfold getb, blen. destruct (N.ltb_spec p (N.of_nat (length a))) as [H|H].
  - apply app_nth1. lia.
  - rewrite app_nth2 by lia. f_equal. lia.
Qed.

Lemma getb_zeros n p : getb (zeros n) p = 0.
Proof.
  unfold getb, zeros. destruct (lt_dec (N.to_nat p) (N.to_nat n)) as [H|H].
  - apply nth_repeat.
  - apply nth_overflow. rewrite repeat_length. lia.
Qed.

Lemma getb_take n (l : bytes) p :
  getb (take (N.to_nat n) l) p = if p <? n then getb l p else 0.
Proof.
  unfold getb. destruct (N.ltb_spec p n) as [H|H].
  - rewrite <- (take_drop (N.to_nat n) l) at 2.
    destruct (lt_dec (N.to_nat p) (length (take (N.to_nat n) l))) as [H1|H1].
    + symmetry. apply app_nth1. exact H1.
    + rewrite nth_overflow by lia. rewrite take_length in H1.
      rewrite take_drop. rewrite nth_overflow; [reflexivity|]. lia.
  - apply nth_overflow. rewrite take_length. lia.
Qed.

Lemma getb_drop n (l : bytes) p : getb (drop (N.to_nat n) l) p = getb l (n + p).
Proof.
  unfold getb. rewrite <- (take_drop (N.to_nat n) l) at 2.
  destruct (le_dec (N.to_nat n) (length l)) as [H|H].
  - rewrite app_nth2 by (rewrite take_length; lia). f_equal. rewrite take_length. lia.
  - rewrite drop_ge by lia. rewrite app_nil_r.
    rewrite nth_overflow by (cbn [length]; lia).
    rewrite nth_overflow; [reflexivity|]. rewrite take_length. lia.
Qed.

Lemma blen_sub (l : bytes) off len : blen (sub l off len) = N.min len (blen l - off).
Proof. unfold sub. rewrite blen_take, blen_drop. reflexivity. Qed.

Lemma getb_sub (l : bytes) off len p :
  getb (sub l off len) p = if p <? len then getb l (off + p) else 0.
Proof. unfold sub. rewrite getb_take, getb_drop. reflexivity. Qed.

Lemma blen_pad_to (l : bytes) n : blen (pad_to l n) = N.max (blen l) n.
Proof. unfold pad_to. rewrite blen_app, blen_zeros. lia. Qed.

Lemma getb_pad_to (l : bytes) n p : getb (pad_to l n) p = getb l p.
Proof.
  unfold pad_to. rewrite getb_app. destruct (N.ltb_spec p (blen l)) as [H|H]; [reflexivity|].
  rewrite getb_zeros. symmetry. apply getb_ge. exact H.
Qed.

Lemma pad_to_le (l : bytes) n : n <= blen l -> pad_to l n = l.
Proof.
  intros H. unfold pad_to. replace (n - blen l) with 0 by lia.
  unfold zeros. cbn [N.to_nat repeat]. apply app_nil_r.
Qed.

Lemma blen_resize (l : bytes) n : blen (resize l n) = n.
Proof. unfold resize. rewrite blen_take, blen_pad_to. lia. Qed.

Lemma getb_resize (l : bytes) n p : getb (resize l n) p = if p <? n then getb l p else 0.
Proof. unfold resize. rewrite getb_take, getb_pad_to. reflexivity. Qed.

Lemma blen_splice (l : bytes) off d : blen (splice l off d) = N.max (blen l) (off + blen d).
Proof.
  unfold splice. rewrite !blen_app, blen_take, blen_pad_to, blen_drop. lia.
Qed.

Ltac case_ltb :=
  repeat match goal with
         | |- context [?a <? ?b] => destruct (N.ltb_spec a b)
         | |- context [?a <=? ?b] => destruct (N.leb_spec a b)
         | |- context [?a =? ?b] => destruct (N.eqb_spec a b)
         end.
Ltac fin_ltb := case_ltb; try lia; try reflexivity; try (f_equal; lia).

Lemma getb_splice (l : bytes) off d p :
  getb (splice l off d) p =
  if p <? off then getb l p else if p <? off + blen d then getb d (p - off) else getb l p.
Proof.
  unfold splice. rewrite getb_app, blen_take, blen_pad_to.
  replace (N.min off (N.max (blen l) off)) with off by lia.
  destruct (N.ltb_spec p off) as [H|H].
  - rewrite getb_take, getb_pad_to. fin_ltb.
  - rewrite getb_app, getb_drop. fin_ltb.
Qed.

Lemma bytes_ext (a b : bytes) :
  blen a = blen b -> (forall p, p < blen a -> getb a p = getb b p) -> a = b.
Proof.
  intros Hl Hp. apply (nth_ext a b 0 0).
  - unfold blen in Hl. lia.
  - intros n Hn. specialize (Hp (N.of_nat n)). unfold getb, blen in Hp.
    rewrite Nat2N.id in Hp. apply Hp. lia.
Qed.

Lemma sub_zero (l : bytes) off : sub l off 0 = [].
Proof. reflexivity. Qed.

Lemma sub_split (l : bytes) p a b :
  p + a + b <= blen l -> sub l p (a + b) = sub l p a ++ sub l (p + a) b.
Proof.
  intros H. apply bytes_ext.
  - rewrite blen_app, !blen_sub. lia.
  - intros q Hq. rewrite getb_app, !getb_sub, blen_sub.
    replace (N.min a (blen l - p)) with a by lia.
    destruct (N.ltb_spec q a) as [H1|H1].
    + destruct (N.ltb_spec q (a + b)); [reflexivity|lia].
    + rewrite blen_sub in Hq.
      destruct (N.ltb_spec q (a + b)); destruct (N.ltb_spec (q - a) b); try lia.
      f_equal. lia.
Qed.

Lemma splice_app (l : bytes) off d1 d2 :
  splice l off (d1 ++ d2) = splice (splice l off d1) (off + blen d1) d2.
Proof.
  apply bytes_ext.
  - rewrite !blen_splice, blen_app. lia.
  - intros p _. rewrite !getb_splice, blen_app, getb_app.
    destruct (N.ltb_spec p off); destruct (N.ltb_spec p (off + blen d1));
      destruct (N.ltb_spec p (off + (blen d1 + blen d2)));
      destruct (N.ltb_spec p (off + blen d1 + blen d2));
      destruct (N.ltb_spec (p - off) (blen d1)); try lia; try reflexivity.
    f_equal. lia.
Qed.

Lemma splice_nil (l : bytes) off : off <= blen l -> splice l off [] = l.
Proof.
  intros H. apply bytes_ext.
  - rewrite blen_splice, blen_nil. lia.
  - intros p _. rewrite getb_splice, blen_nil.
    destruct (N.ltb_spec p off); destruct (N.ltb_spec p (off + 0)); try lia; reflexivity.
Qed.

Lemma take_drop_app (k : nat) (l : bytes) : take k l ++ drop k l = l.
Proof. apply take_drop. Qed.

(** ** 2. chunk offsets *)

Lemma chunk_off_mod cs p : 0 < cs -> chunk_off cs p mod cs = 0.
Proof. intros H. unfold chunk_off. apply N.mod_mul. lia. Qed.

Lemma chunk_off_range cs p : 0 < cs -> chunk_off cs p <= p /\ p < chunk_off cs p + cs.
Proof.
  intros H. unfold chunk_off.
  pose proof (N.div_mod p cs ltac:(lia)) as E.
  pose proof (N.mod_lt p cs ltac:(lia)) as L. nia.
Qed.

Lemma chunk_off_add cs o q : 0 < cs -> o mod cs = 0 -> q < cs -> chunk_off cs (o + q) = o.
Proof.
  intros H Hm Hq. unfold chunk_off.
  pose proof (N.div_mod o cs ltac:(lia)) as E. rewrite Hm in E.
  replace (o + q) with (q + (o / cs) * cs) by lia.
  rewrite N.div_add by lia. rewrite (N.div_small q cs) by exact Hq. lia.
Qed.

Lemma chunk_off_unique cs o p : 0 < cs -> o mod cs = 0 -> o <= p -> p < o + cs -> chunk_off cs p = o.
Proof.
  intros H Hm H1 H2. replace p with (o + (p - o)) by lia. apply chunk_off_add; [exact H|exact Hm|lia].
Qed.

Lemma chunk_off_sub_mod cs p : 0 < cs -> p - chunk_off cs p = p mod cs.
Proof.
  intros H. unfold chunk_off. pose proof (N.div_mod p cs ltac:(lia)) as E. lia.
Qed.

Lemma mult_ge cs o : 0 < cs -> o mod cs = 0 -> o <> 0 -> cs <= o.
Proof.
  intros H Hm Hn. pose proof (N.div_mod o cs ltac:(lia)) as E. rewrite Hm in E.
  assert (o / cs <> 0) by (intros Z; rewrite Z in E; lia). nia.
Qed.

(** ** 3. looking a chunk up by its offset *)

Lemma find_idx_Some off l i :
  find_idx off l = Some i -> exists ch, l !! i = Some ch /\ c_off ch = off.
Proof.
  revert i. induction l as [|a l IH]; intros i H; cbn [find_idx] in H; [discriminate|].
  destruct (N.eqb_spec (c_off a) off) as [E|E].
  - injection H as <-. exists a. split; [reflexivity|exact E].
  - destruct (find_idx off l) as [j|] eqn:F; [|discriminate].
    injection H as <-. destruct (IH j eq_refl) as (ch & H1 & H2). exists ch. split; [exact H1|exact H2].
Qed.

Lemma find_idx_None off l i ch : find_idx off l = None -> l !! i = Some ch -> c_off ch <> off.
Proof.
  revert i. induction l as [|a l IH]; intros i H Hl; [discriminate|].
  cbn [find_idx] in H. destruct (N.eqb_spec (c_off a) off) as [E|E]; [discriminate|].
  destruct (find_idx off l) as [j|] eqn:F; [discriminate|].
  destruct i as [|i]; cbn in Hl.
  - injection Hl as <-. exact E.
  - apply (IH i eq_refl Hl).
Qed.

Lemma find_idx_not_None off l i ch : l !! i = Some ch -> c_off ch = off -> find_idx off l <> None.
Proof. intros H1 H2 H3. exact (find_idx_None off l i ch H3 H1 H2). Qed.

Lemma find_idx_nodup l i ch :
  NoDup (map c_off l) -> l !! i = Some ch -> find_idx (c_off ch) l = Some i.
Proof.
  revert i. induction l as [|a l IH]; intros i Hn Hl; [discriminate|].
  cbn [map] in Hn. apply NoDup_cons in Hn as [Hni Hn].
  cbn [find_idx]. destruct i as [|i]; cbn in Hl.
  - injection Hl as <-. rewrite N.eqb_refl. reflexivity.
  - destruct (N.eqb_spec (c_off a) (c_off ch)) as [E|E].
    + exfalso. apply Hni. rewrite E. apply elem_of_list_fmap. exists ch. split; [reflexivity|].
      apply elem_of_list_lookup. exists i. exact Hl.
    + rewrite (IH i Hn Hl). reflexivity.
Qed.

Lemma find_idx_ext off l1 l2 : map c_off l1 = map c_off l2 -> find_idx off l1 = find_idx off l2.
Proof.
  revert l2. induction l1 as [|a l1 IH]; intros [|b l2] H; try discriminate; [reflexivity|].
  cbn [map] in H. injection H as H1 H2. cbn [find_idx]. rewrite H1, (IH l2 H2). reflexivity.
Qed.

Lemma map_off_insert l i ch ch' :
  l !! i = Some ch -> c_off ch' = c_off ch -> map c_off (<[i := ch']> l) = map c_off l.
Proof.
  intros H E. rewrite list_fmap_insert. rewrite E.
  apply list_insert_id. rewrite list_lookup_fmap, H. reflexivity.
Qed.

Lemma find_idx_app_l off l l' i : find_idx off l = Some i -> find_idx off (l ++ l') = Some i.
Proof.
  revert i. induction l as [|a l IH]; intros i H; [discriminate|].
  cbn [find_idx app] in *. destruct (c_off a =? off); [exact H|].
  destruct (find_idx off l) as [j|]; [|discriminate]. rewrite (IH j eq_refl). exact H.
Qed.

Lemma find_idx_app_r off l ch :
  find_idx off l = None ->
  find_idx off (l ++ [ch]) = if c_off ch =? off then Some (length l) else None.
Proof.
  induction l as [|a l IH]; intros H; cbn [find_idx app length] in *.
  - destruct (c_off ch =? off); reflexivity.
  - destruct (c_off a =? off); [discriminate|].
    destruct (find_idx off l) as [j|]; [discriminate|]. rewrite (IH eq_refl).
    destruct (c_off ch =? off); reflexivity.
Qed.

(** ** 4. what a read sees, and the invariant *)

Definition viewl (cs : N) (chs : list chunk) (disk : bytes) (p : N) : N :=
  match find_idx (chunk_off cs p) chs with
  | Some i => match chs !! i with Some ch => getb (c_data ch) (p - c_off ch) | None => 0 end
  | None => getb disk p
  end.

Definition view (c : cache) (p : N) : N := viewl (k_cs c) (k_chunks c) (k_disk c) p.

(** the abstraction function: the first [end] bytes a reader would see *)
Definition logical (c : cache) : bytes := map (view c) (seqN' 0 (N.to_nat (k_end c))).

Record data_inv (cs : N) (chs : list chunk) (disk : bytes) (e : N) : Prop := {
  di_chunk : forall i ch, chs !! i = Some ch ->
      c_off ch mod cs = 0 /\ blen (c_data ch) = cs /\ c_off ch <= e;
  di_nodup : NoDup (map c_off chs);
  (* a clean chunk equals the disk, as far as the file goes *)
  di_clean : forall i ch, chs !! i = Some ch -> c_dirty ch = false ->
      forall q, q < cs -> c_off ch + q < e ->
      c_off ch + q < blen disk /\ getb (c_data ch) q = getb disk (c_off ch + q);
  (* beyond the end a chunk holds zeros (what a shrinking set_len breaks) *)
  di_zero : forall i ch, chs !! i = Some ch -> forall q, e <= c_off ch + q -> getb (c_data ch) q = 0;
  di_disk_le : blen disk <= e;
  (* what the disk does not have yet is in a cached chunk *)
  di_cover : forall p, blen disk <= p -> p < e -> find_idx (chunk_off cs p) chs <> None }.

(** configurations for which [add_chunk] terminates (see [single_chunk_diverges] for the rest) *)
Definition cfg_ok (c : cache) : Prop :=
  match k_auto c with
  | None => 2 <= k_max c
  | Some pm => 1 <= k_max c /\ (k_cs c <= 32768 -> 2 <= k_max c) /\ (k_cs c <= 32768 \/ 1000 <= pm)
  end.

Record cache_inv (c : cache) : Prop := {
  inv_cs : 0 < k_cs c;
  inv_data : data_inv (k_cs c) (k_chunks c) (k_disk c) (k_end c);
  inv_pos : k_pos c <= k_end c;
  (* fetch_cache names a chunk that exists (the real code dereferences it unchecked) *)
  inv_fc : forall o i, k_fc c = Some (o, i) -> map c_off (k_chunks c) !! i = Some o;
  inv_len : nchunks c <= k_max c;
  inv_cfg : cfg_ok c }.

Lemma viewl_in_chunk cs chs disk e i ch q :
  0 < cs -> data_inv cs chs disk e -> chs !! i = Some ch -> q < cs ->
  viewl cs chs disk (c_off ch + q) = getb (c_data ch) q.
Proof.
  intros Hcs D Hl Hq. unfold viewl.
  destruct (di_chunk _ _ _ _ D i ch Hl) as (Hm & _ & _).
  rewrite (chunk_off_add cs (c_off ch) q Hcs Hm Hq).
  rewrite (find_idx_nodup chs i ch (di_nodup _ _ _ _ D) Hl), Hl. f_equal. lia.
Qed.

Lemma viewl_at cs chs disk e i ch p :
  0 < cs -> data_inv cs chs disk e -> chs !! i = Some ch -> c_off ch = chunk_off cs p ->
  viewl cs chs disk p = getb (c_data ch) (p - c_off ch).
Proof.
  intros Hcs D Hl Ho. destruct (chunk_off_range cs p Hcs) as [H1 H2].
  replace p with (c_off ch + (p - c_off ch)) at 1 by lia.
  apply (viewl_in_chunk cs chs disk e i ch); [exact Hcs|exact D|exact Hl|lia].
Qed.

Lemma viewl_uncached cs chs disk p :
  find_idx (chunk_off cs p) chs = None -> viewl cs chs disk p = getb disk p.
Proof. intros H. unfold viewl. rewrite H. reflexivity. Qed.

(** two different chunks do not overlap *)
Lemma chunks_disjoint cs o1 o2 q1 q2 :
  0 < cs -> o1 mod cs = 0 -> o2 mod cs = 0 -> o1 <> o2 -> q1 < cs -> q2 < cs -> o1 + q1 <> o2 + q2.
Proof.
  intros Hcs H1 H2 Hne Hq1 Hq2 E.
  apply Hne. rewrite <- (chunk_off_add cs o1 q1 Hcs H1 Hq1), E. apply chunk_off_add; assumption.
Qed.

Lemma not_in_chunk cs o p :
  0 < cs -> o mod cs = 0 -> chunk_off cs p <> o -> p < o \/ o + cs <= p.
Proof.
  intros Hcs Hm Hne. destruct (N.lt_ge_cases p o) as [H|H]; [left; exact H|].
  destruct (N.lt_ge_cases p (o + cs)) as [H2|H2]; [|right; exact H2].
  exfalso. apply Hne. apply chunk_off_unique; assumption.
Qed.

(** ** 5. the disk *)
Lemma blen_disk_write d off data :
  blen (disk_write d off data) = if blen data =? 0 then blen d else N.max (blen d) (off + blen data).
Proof.
  destruct data as [|x data]; [reflexivity|]. cbn [disk_write]. rewrite blen_splice.
  rewrite blen_cons. destruct (N.eqb_spec (1 + blen data) 0); [lia|reflexivity].
Qed.

Lemma getb_disk_write d off data p :
  getb (disk_write d off data) p =
  if (off <=? p) && (p <? off + blen data) then getb data (p - off) else getb d p.
Proof.
  destruct data as [|x data].
  - cbn [disk_write]. rewrite blen_nil. destruct (N.leb_spec off p); destruct (N.ltb_spec p (off + 0)); try lia; reflexivity.
  - cbn [disk_write]. rewrite getb_splice.
    destruct (N.leb_spec off p); destruct (N.ltb_spec p off); try lia; cbn [andb]; reflexivity.
Qed.

Lemma nodup_offsets (l : list chunk) i j a b :
  NoDup (map c_off l) -> l !! i = Some a -> l !! j = Some b -> i <> j -> c_off a <> c_off b.
Proof.
  intros Hn Ha Hb Hij E. apply Hij.
  apply (NoDup_lookup (map c_off l) i j (c_off a) Hn).
  - rewrite list_lookup_fmap, Ha. reflexivity.
  - rewrite list_lookup_fmap, Hb, E. reflexivity.
Qed.

(** ** 6. the steps that change chunks or disk, at the level of [data_inv] *)

(** 6.1 [Chunk::write]: one chunk goes to the disk *)
Lemma data_inv_writeback cs chs disk e i ch :
  0 < cs -> data_inv cs chs disk e -> chs !! i = Some ch ->
  let n := N.min (blen (c_data ch)) (e - c_off ch) in
  let disk' := disk_write disk (c_off ch) (take (N.to_nat n) (c_data ch)) in
  let chs' := <[i := Chunk (c_off ch) (c_data ch) false]> chs in
  data_inv cs chs' disk' e /\ (forall p, viewl cs chs' disk' p = viewl cs chs disk p).
Proof.
  intros Hcs D Hl n disk' chs'.
  destruct (di_chunk _ _ _ _ D i ch Hl) as (Hm & Hlen & Hoe).
  assert (Hn : n = N.min cs (e - c_off ch)) by (unfold n; rewrite Hlen; reflexivity).
  assert (Hmap : map c_off chs' = map c_off chs) by (apply (map_off_insert chs i ch); [exact Hl|reflexivity]).
  assert (Hfind : forall o, find_idx o chs' = find_idx o chs) by (intros o; apply find_idx_ext, Hmap).
  assert (Hbd : blen (take (N.to_nat n) (c_data ch)) = n) by (rewrite blen_take; lia).
  assert (Hg : forall p, getb disk' p =
                 if (c_off ch <=? p) && (p <? c_off ch + n) then getb (c_data ch) (p - c_off ch) else getb disk p).
  { intros p. unfold disk'. rewrite getb_disk_write, Hbd.
    destruct (N.leb_spec (c_off ch) p); destruct (N.ltb_spec p (c_off ch + n)); cbn [andb]; try reflexivity.
    rewrite getb_take. destruct (N.ltb_spec (p - c_off ch) n); [reflexivity|lia]. }
  assert (Hbl : blen disk' = if n =? 0 then blen disk else N.max (blen disk) (c_off ch + n)).
  { unfold disk'. rewrite blen_disk_write, Hbd. reflexivity. }
  assert (Hlk : forall j x, chs' !! j = Some x ->
                 (j = i /\ x = Chunk (c_off ch) (c_data ch) false) \/ (j <> i /\ chs !! j = Some x)).
  { intros j x Hx. unfold chs' in Hx. apply list_lookup_insert_Some in Hx.
    destruct Hx as [(-> & <- & _)|(Hne & Hx)]; [left; split; reflexivity|right; split; [congruence|exact Hx]]. }
  split.
  - constructor.
    + intros j x Hx. destruct (Hlk j x Hx) as [(-> & ->)|(Hne & Hx')].
      * cbn [c_off c_data]. repeat split; assumption.
      * exact (di_chunk _ _ _ _ D j x Hx').
    + rewrite Hmap. exact (di_nodup _ _ _ _ D).
    + intros j x Hx Hd q Hq Hqe. destruct (Hlk j x Hx) as [(-> & ->)|(Hne & Hx')].
      * cbn [c_off c_data] in *. rewrite Hg, Hbl.
        destruct (N.eqb_spec n 0); [lia|].
        destruct (N.leb_spec (c_off ch) (c_off ch + q)); destruct (N.ltb_spec (c_off ch + q) (c_off ch + n));
          cbn [andb]; try lia.
        split; [lia|]. f_equal. lia.
      * destruct (di_clean _ _ _ _ D j x Hx' Hd q Hq Hqe) as [Hlt Hge].
        destruct (di_chunk _ _ _ _ D j x Hx') as (Hmx & _ & _).
        assert (Hox : c_off x <> c_off ch) by (apply (nodup_offsets chs j i x ch (di_nodup _ _ _ _ D) Hx' Hl Hne)).
        assert (Hco : chunk_off cs (c_off x + q) <> c_off ch) by (rewrite chunk_off_add; assumption).
        destruct (not_in_chunk cs (c_off ch) (c_off x + q) Hcs Hm Hco) as [Ho|Ho].
        -- rewrite Hg, Hbl. destruct (N.leb_spec (c_off ch) (c_off x + q)); [lia|]. cbn [andb].
           split; [destruct (n =? 0); lia|exact Hge].
        -- rewrite Hg, Hbl. destruct (N.ltb_spec (c_off x + q) (c_off ch + n)); [lia|].
           rewrite andb_false_r. split; [destruct (n =? 0); lia|exact Hge].
    + intros j x Hx q Hq. destruct (Hlk j x Hx) as [(-> & ->)|(Hne & Hx')].
      * cbn [c_off c_data] in *. exact (di_zero _ _ _ _ D i ch Hl q Hq).
      * exact (di_zero _ _ _ _ D j x Hx' q Hq).
    + rewrite Hbl. pose proof (di_disk_le _ _ _ _ D). destruct (n =? 0); lia.
    + intros p Hp Hpe. rewrite Hfind. apply (di_cover _ _ _ _ D); [|exact Hpe].
      rewrite Hbl in Hp. destruct (n =? 0); lia.
  - intros p. unfold viewl. rewrite Hfind.
    destruct (find_idx (chunk_off cs p) chs) as [j|] eqn:F.
    + destruct (Nat.eq_dec j i) as [->|Hne].
      * unfold chs'. rewrite list_lookup_insert by (apply lookup_lt_is_Some; eauto). rewrite Hl. reflexivity.
      * unfold chs'. rewrite list_lookup_insert_ne by congruence. reflexivity.
    + assert (Hco : chunk_off cs p <> c_off ch).
      { intros E. exact (find_idx_None _ _ i ch F Hl (eq_sym E)). }
      rewrite Hg. destruct (not_in_chunk cs (c_off ch) p Hcs Hm Hco) as [Ho|Ho].
      * destruct (N.leb_spec (c_off ch) p); [lia|]. reflexivity.
      * destruct (N.ltb_spec p (c_off ch + n)); [lia|]. rewrite andb_false_r. reflexivity.
Qed.

(** 6.2 [Chunk::new] and the push *)
Lemma chunk_new_spec c off :
  0 < k_cs c -> data_inv (k_cs c) (k_chunks c) (k_disk c) (k_end c) ->
  off mod k_cs c = 0 -> off <= k_end c -> find_idx off (k_chunks c) = None ->
  exists ch, chunk_new c off = Ok ch /\ c_off ch = off /\
    data_inv (k_cs c) (k_chunks c ++ [ch]) (k_disk c) (k_end c) /\
    (forall p, p < k_end c ->
       viewl (k_cs c) (k_chunks c ++ [ch]) (k_disk c) p = viewl (k_cs c) (k_chunks c) (k_disk c) p).
Proof.
  set (cs := k_cs c). set (chs := k_chunks c). set (disk := k_disk c). set (e := k_end c).
  intros Hcs D Hm Hoe Hnone.
  set (n := N.min cs (e - off)).
  assert (Hex : exists data, chunk_new c off = Ok (Chunk off data false) /\ blen data = cs /\
            (forall q, getb data q = if q <? n then getb disk (off + q) else 0) /\
            (0 < n -> off + n <= blen disk)).
  { unfold chunk_new. fold cs e disk.
    destruct (N.eqb_spec off e) as [E|E].
    - exists (zeros cs). split; [reflexivity|]. split; [apply blen_zeros|]. split.
      + intros q. rewrite getb_zeros. destruct (N.ltb_spec q n); [|reflexivity]. unfold n in *. lia.
      + unfold n. lia.
    - destruct (N.ltb_spec e off) as [H|_]; [lia|]. fold n.
      assert (Hn0 : 0 < n) by (unfold n; lia).
      assert (Hfit : off + n <= blen disk).
      { destruct (N.le_gt_cases (off + n) (blen disk)) as [H|H]; [exact H|exfalso].
        apply (di_cover _ _ _ _ D (off + (n - 1))); [lia|unfold n in *; lia|].
        fold cs chs. rewrite chunk_off_add; [exact Hnone|exact Hcs|exact Hm|unfold n; lia]. }
      unfold disk_read. destruct (N.eqb_spec n 0); [lia|].
      destruct (N.leb_spec (off + n) (blen disk)) as [_|H]; [|lia]. cbn [orb rbind].
      exists (sub disk off n ++ zeros (cs - n)). split; [reflexivity|].
      assert (Hbs : blen (sub disk off n) = n) by (rewrite blen_sub; lia).
      split; [rewrite blen_app, Hbs, blen_zeros; unfold n; lia|]. split; [|intros _; exact Hfit].
      intros q. rewrite getb_app, Hbs, getb_sub, getb_zeros.
      destruct (N.ltb_spec q n); reflexivity. }
  destruct Hex as (data & Hnew & Hlen & Hchar & Hfit).
  exists (Chunk off data false). split; [exact Hnew|]. split; [reflexivity|].
  assert (Hlk : forall j x, (chs ++ [Chunk off data false]) !! j = Some x ->
                 chs !! j = Some x \/ (j = length chs /\ x = Chunk off data false)).
  { intros j x Hx. apply lookup_app_Some in Hx. destruct Hx as [Hx|[Hge Hx]]; [left; exact Hx|right].
    destruct (j - length chs)%nat as [|k] eqn:Ek; cbn in Hx; [|discriminate].
    injection Hx as <-. split; [lia|reflexivity]. }
  assert (Hnotin : off ∉ map c_off chs).
  { intros Hin. apply elem_of_list_fmap in Hin. destruct Hin as (y & Hy & Hiny).
    apply elem_of_list_lookup in Hiny. destruct Hiny as [j Hj].
    exact (find_idx_None off chs j y Hnone Hj (eq_sym Hy)). }
  split.
  - constructor.
    + intros j x Hx. destruct (Hlk j x Hx) as [Hx'|(-> & ->)].
      * exact (di_chunk _ _ _ _ D j x Hx').
      * cbn [c_off c_data]. repeat split; assumption.
    + rewrite map_app. cbn [map]. apply NoDup_app. split; [exact (di_nodup _ _ _ _ D)|]. split.
      * intros x Hx Hx1. apply elem_of_list_singleton in Hx1. subst x. exact (Hnotin Hx).
      * apply NoDup_singleton.
    + intros j x Hx Hd q Hq Hqe. destruct (Hlk j x Hx) as [Hx'|(-> & ->)].
      * exact (di_clean _ _ _ _ D j x Hx' Hd q Hq Hqe).
      * cbn [c_off c_data] in *. rewrite Hchar.
        assert (q < n) by (unfold n; lia). destruct (N.ltb_spec q n); [|lia].
        split; [|reflexivity]. specialize (Hfit ltac:(lia)). lia.
    + intros j x Hx q Hq. destruct (Hlk j x Hx) as [Hx'|(-> & ->)].
      * exact (di_zero _ _ _ _ D j x Hx' q Hq).
      * cbn [c_off c_data] in *. rewrite Hchar. destruct (N.ltb_spec q n); [unfold n in *; lia|reflexivity].
    + exact (di_disk_le _ _ _ _ D).
    + intros p Hp Hpe. pose proof (di_cover _ _ _ _ D p Hp Hpe) as Hc.
      destruct (find_idx (chunk_off cs p) chs) as [j|] eqn:F; [|congruence].
      rewrite (find_idx_app_l _ _ _ _ F). discriminate.
  - intros p Hp. unfold viewl.
    destruct (find_idx (chunk_off cs p) chs) as [j|] eqn:F.
    + rewrite (find_idx_app_l _ _ _ _ F).
      destruct (find_idx_Some _ _ _ F) as (y & Hy & _).
      rewrite lookup_app_l by (apply lookup_lt_Some in Hy; exact Hy). reflexivity.
    + rewrite (find_idx_app_r _ _ _ F). cbn [c_off].
      destruct (N.eqb_spec off (chunk_off cs p)) as [E|E]; [|reflexivity].
      rewrite list_lookup_middle by reflexivity. cbn [c_data c_off].
      destruct (chunk_off_range cs p Hcs) as [H1 H2].
      rewrite Hchar. destruct (N.ltb_spec (p - off) n) as [_|H]; [|unfold n in H; lia].
      f_equal. lia.
Qed.

(** 6.3 when nothing is dirty the disk is complete; chunks may then be dropped ([clear]) *)
Lemma all_clean_disk_end cs chs disk e :
  0 < cs -> data_inv cs chs disk e -> (forall i ch, chs !! i = Some ch -> c_dirty ch = false) ->
  blen disk = e.
Proof.
  intros Hcs D Hclean. pose proof (di_disk_le _ _ _ _ D) as Hle.
  destruct (N.eq_dec (blen disk) e) as [E|E]; [exact E|exfalso].
  assert (Hlt : blen disk < e) by lia.
  pose proof (di_cover _ _ _ _ D (blen disk) ltac:(lia) Hlt) as Hc.
  destruct (find_idx (chunk_off cs (blen disk)) chs) as [i|] eqn:F; [|congruence].
  destruct (find_idx_Some _ _ _ F) as (ch & Hl & Ho).
  destruct (chunk_off_range cs (blen disk) Hcs) as [H1 H2].
  destruct (di_clean _ _ _ _ D i ch Hl (Hclean i ch Hl) (blen disk - c_off ch) ltac:(lia) ltac:(lia)) as [H3 _].
  lia.
Qed.

Lemma data_inv_keep cs chs disk e kept :
  0 < cs -> data_inv cs chs disk e -> (forall i ch, chs !! i = Some ch -> c_dirty ch = false) ->
  (forall j x, kept !! j = Some x -> exists i, chs !! i = Some x) -> NoDup (map c_off kept) ->
  data_inv cs kept disk e /\ (forall p, p < e -> viewl cs kept disk p = viewl cs chs disk p).
Proof.
  intros Hcs D Hclean Hsub Hnd.
  pose proof (all_clean_disk_end cs chs disk e Hcs D Hclean) as Hde.
  assert (D' : data_inv cs kept disk e).
  { constructor.
    - intros j x Hx. destruct (Hsub j x Hx) as [i Hi]. exact (di_chunk _ _ _ _ D i x Hi).
    - exact Hnd.
    - intros j x Hx Hd q Hq Hqe. destruct (Hsub j x Hx) as [i Hi]. exact (di_clean _ _ _ _ D i x Hi Hd q Hq Hqe).
    - intros j x Hx q Hq. destruct (Hsub j x Hx) as [i Hi]. exact (di_zero _ _ _ _ D i x Hi q Hq).
    - lia.
    - intros p Hp Hpe. lia. }
  split; [exact D'|].
  intros p Hp. destruct (chunk_off_range cs p Hcs) as [H1 H2].
  destruct (find_idx (chunk_off cs p) kept) as [j|] eqn:F.
  - destruct (find_idx_Some _ _ _ F) as (x & Hx & Ho). destruct (Hsub j x Hx) as [i Hi].
    rewrite (viewl_at cs kept disk e j x p Hcs D' Hx Ho), (viewl_at cs chs disk e i x p Hcs D Hi Ho). reflexivity.
  - rewrite (viewl_uncached _ _ _ _ F). unfold viewl.
    destruct (find_idx (chunk_off cs p) chs) as [i|] eqn:G; [|reflexivity].
    destruct (find_idx_Some _ _ _ G) as (y & Hy & Ho). rewrite Hy.
    destruct (di_clean _ _ _ _ D i y Hy (Hclean i y Hy) (p - c_off y) ltac:(lia) ltac:(lia)) as [_ Hg].
    rewrite Hg. f_equal. lia.
Qed.

(** 6.4 bytes written into a cached chunk *)
Lemma data_inv_poke cs chs disk e i ch st b :
  0 < cs -> data_inv cs chs disk e -> chs !! i = Some ch -> st + blen b <= cs -> c_off ch + st <= e ->
  let pos := c_off ch + st in
  let e' := N.max e (pos + blen b) in
  let chs' := <[i := Chunk (c_off ch) (splice (c_data ch) st b) true]> chs in
  data_inv cs chs' disk e' /\
  (forall p, p < e' -> viewl cs chs' disk p =
     if (pos <=? p) && (p <? pos + blen b) then getb b (p - pos) else viewl cs chs disk p).
Proof.
  intros Hcs D Hl Hfit Hpe pos e' chs'.
  destruct (di_chunk _ _ _ _ D i ch Hl) as (Hm & Hlen & Hoe).
  assert (Hmap : map c_off chs' = map c_off chs) by (apply (map_off_insert chs i ch); [exact Hl|reflexivity]).
  assert (Hfind : forall o, find_idx o chs' = find_idx o chs) by (intros o; apply find_idx_ext, Hmap).
  assert (Hlk : forall j x, chs' !! j = Some x ->
                 (j = i /\ x = Chunk (c_off ch) (splice (c_data ch) st b) true) \/ (j <> i /\ chs !! j = Some x)).
  { intros j x Hx. unfold chs' in Hx. apply list_lookup_insert_Some in Hx.
    destruct Hx as [(-> & <- & _)|(Hne & Hx)]; [left; split; reflexivity|right; split; [congruence|exact Hx]]. }
  assert (Hother : forall j x q, j <> i -> chs !! j = Some x -> q < cs ->
                     c_off x + q < c_off ch \/ c_off ch + cs <= c_off x + q).
  { intros j x q Hne Hx Hq. destruct (di_chunk _ _ _ _ D j x Hx) as (Hmx & _ & _).
    apply (not_in_chunk cs (c_off ch) (c_off x + q) Hcs Hm). rewrite chunk_off_add by assumption.
    apply (nodup_offsets chs j i x ch (di_nodup _ _ _ _ D) Hx Hl Hne). }
  split.
  - constructor.
    + intros j x Hx. destruct (Hlk j x Hx) as [(-> & ->)|(Hne & Hx')].
      * cbn [c_off c_data]. split; [exact Hm|]. split; [rewrite blen_splice; lia|unfold e', pos; lia].
      * destruct (di_chunk _ _ _ _ D j x Hx') as (A & B & C). split; [exact A|]. split; [exact B|unfold e'; lia].
    + rewrite Hmap. exact (di_nodup _ _ _ _ D).
    + intros j x Hx Hd q Hq Hqe. destruct (Hlk j x Hx) as [(-> & ->)|(Hne & Hx')]; [discriminate|].
      destruct (N.lt_ge_cases (c_off x + q) e) as [Hlt|Hge].
      * exact (di_clean _ _ _ _ D j x Hx' Hd q Hq Hlt).
      * exfalso. destruct (Hother j x q Hne Hx' Hq); unfold e', pos in *; lia.
    + intros j x Hx q Hq. destruct (Hlk j x Hx) as [(-> & ->)|(Hne & Hx')].
      * cbn [c_off c_data] in *. rewrite getb_splice.
        destruct (N.ltb_spec q st); [unfold e', pos in *; lia|].
        destruct (N.ltb_spec q (st + blen b)); [unfold e', pos in *; lia|].
        apply (di_zero _ _ _ _ D i ch Hl). unfold e' in *. lia.
      * apply (di_zero _ _ _ _ D j x Hx'). unfold e' in *. lia.
    + pose proof (di_disk_le _ _ _ _ D). unfold e'. lia.
    + intros p Hp Hpe'. rewrite Hfind. destruct (N.lt_ge_cases p e) as [Hlt|Hge].
      * exact (di_cover _ _ _ _ D p Hp Hlt).
      * rewrite (chunk_off_unique cs (c_off ch) p Hcs Hm); [|unfold pos in *; lia|unfold e', pos in *; lia].
        rewrite (find_idx_nodup chs i ch (di_nodup _ _ _ _ D) Hl). discriminate.
  - intros p Hp. destruct (chunk_off_range cs p Hcs) as [H1 H2]. unfold viewl. rewrite Hfind.
    destruct (find_idx (chunk_off cs p) chs) as [j|] eqn:F.
    + destruct (find_idx_Some _ _ _ F) as (y & Hy & Ho).
      destruct (Nat.eq_dec j i) as [->|Hne].
      * assert (y = ch) by congruence. subst y.
        unfold chs'. rewrite list_lookup_insert by (apply lookup_lt_Some in Hl; exact Hl).
        rewrite Hl. cbn [c_data c_off]. rewrite getb_splice. unfold pos.
        destruct (N.ltb_spec (p - c_off ch) st); destruct (N.ltb_spec (p - c_off ch) (st + blen b));
          destruct (N.leb_spec (c_off ch + st) p); destruct (N.ltb_spec p (c_off ch + st + blen b));
          cbn [andb]; try lia; try reflexivity.
        f_equal. lia.
      * unfold chs'. rewrite list_lookup_insert_ne by congruence. rewrite Hy.
        destruct (Hother j y (p - c_off y) Hne Hy ltac:(lia)) as [Ho'|Ho'];
          destruct (N.leb_spec pos p); destruct (N.ltb_spec p (pos + blen b)); cbn [andb];
          try reflexivity; unfold pos in *; lia.
    + assert (Hco : chunk_off cs p <> c_off ch).
      { intros E. exact (find_idx_None _ _ i ch F Hl (eq_sym E)). }
      destruct (not_in_chunk cs (c_off ch) p Hcs Hm Hco);
        destruct (N.leb_spec pos p); destruct (N.ltb_spec p (pos + blen b)); cbn [andb];
        try reflexivity; unfold pos in *; lia.
Qed.

(** 6.5 a growing [set_len] *)
Lemma data_inv_grow cs chs disk e size :
  0 < cs -> data_inv cs chs disk e -> e <= size ->
  data_inv cs chs (resize disk size) size /\
  (forall p, p < size ->
     viewl cs chs (resize disk size) p = if p <? e then viewl cs chs disk p else 0).
Proof.
  intros Hcs D Hes. pose proof (di_disk_le _ _ _ _ D) as Hdl. split.
  - constructor.
    + intros j x Hx. destruct (di_chunk _ _ _ _ D j x Hx) as (A & B & C). repeat split; [exact A|exact B|lia].
    + exact (di_nodup _ _ _ _ D).
    + intros j x Hx Hd q Hq Hqe. rewrite blen_resize, getb_resize.
      destruct (N.ltb_spec (c_off x + q) size); [|lia]. split; [lia|].
      destruct (N.lt_ge_cases (c_off x + q) e) as [Hlt|Hge].
      * exact (proj2 (di_clean _ _ _ _ D j x Hx Hd q Hq Hlt)).
      * rewrite (di_zero _ _ _ _ D j x Hx q Hge). symmetry. apply getb_ge. lia.
    + intros j x Hx q Hq. apply (di_zero _ _ _ _ D j x Hx). lia.
    + rewrite blen_resize. lia.
    + intros p Hp Hpe. rewrite blen_resize in Hp. lia.
  - intros p Hp. destruct (chunk_off_range cs p Hcs) as [H1 H2]. unfold viewl.
    destruct (find_idx (chunk_off cs p) chs) as [j|] eqn:F.
    + destruct (find_idx_Some _ _ _ F) as (y & Hy & Ho). rewrite Hy.
      destruct (N.ltb_spec p e); [reflexivity|]. apply (di_zero _ _ _ _ D j y Hy). lia.
    + rewrite getb_resize. destruct (N.ltb_spec p size); [|lia].
      destruct (N.ltb_spec p e); [reflexivity|]. apply getb_ge. lia.
Qed.

(** ** 7. the functions of the model *)

Lemma inv_fc_chunk c o i :
  cache_inv c -> k_fc c = Some (o, i) -> exists ch, k_chunks c !! i = Some ch /\ c_off ch = o.
Proof.
  intros I H. pose proof (inv_fc c I o i H) as H1. rewrite list_lookup_fmap in H1.
  destruct (k_chunks c !! i) as [ch|]; [|discriminate]. injection H1 as H1. exists ch. split; [reflexivity|exact H1].
Qed.

(** write-back relation: what [Chunk::write], [flush] may change *)
Record wb_rel (c c1 : cache) : Prop := {
  wb_cs : k_cs c1 = k_cs c; wb_max : k_max c1 = k_max c; wb_auto : k_auto c1 = k_auto c;
  wb_fc : k_fc c1 = k_fc c; wb_pos : k_pos c1 = k_pos c; wb_end : k_end c1 = k_end c;
  wb_offs : map c_off (k_chunks c1) = map c_off (k_chunks c);
  wb_view : forall p, view c1 p = view c p;
  wb_dirty : forall i ch1, k_chunks c1 !! i = Some ch1 ->
      exists ch, k_chunks c !! i = Some ch /\ (c_dirty ch = false -> c_dirty ch1 = false) }.

Lemma wb_refl c : wb_rel c c.
Proof. constructor; try reflexivity. intros i ch H. exists ch. split; [exact H|tauto]. Qed.

Lemma wb_trans a b c : wb_rel a b -> wb_rel b c -> wb_rel a c.
Proof.
  intros [A1 A2 A3 A4 A5 A6 A7 A8 A9] [B1 B2 B3 B4 B5 B6 B7 B8 B9].
  constructor; [congruence|congruence|congruence|congruence|congruence|congruence|congruence| |].
  - intros p. rewrite (B8 p). apply A8.
  - intros i ch2 H. destruct (B9 i ch2 H) as (ch1 & H1 & D1). destruct (A9 i ch1 H1) as (ch & H0 & D0).
    exists ch. split; [exact H0|tauto].
Qed.

Definition dinv (c : cache) : Prop := data_inv (k_cs c) (k_chunks c) (k_disk c) (k_end c).

Lemma chunk_write_spec c i :
  0 < k_cs c -> dinv c -> (i < length (k_chunks c))%nat ->
  exists c1, chunk_write c i = Ok c1 /\ dinv c1 /\ wb_rel c c1 /\
    (forall ch1, k_chunks c1 !! i = Some ch1 -> c_dirty ch1 = false).
Proof.
  intros Hcs D Hi. apply lookup_lt_is_Some in Hi. destruct Hi as [ch Hl].
  unfold chunk_write. rewrite Hl.
  destruct (c_dirty ch) eqn:Hd; cbn [negb].
  - destruct (di_chunk _ _ _ _ D i ch Hl) as (Hm & Hlen & Hoe).
    destruct (N.ltb_spec (k_end c) (c_off ch)) as [H|_]; [lia|].
    destruct (data_inv_writeback _ _ _ _ i ch Hcs D Hl) as [D1 V1].
    eexists. split; [reflexivity|]. split; [exact D1|]. split.
    + constructor; try reflexivity.
      * cbn. apply (map_off_insert _ i ch); [exact Hl|reflexivity].
      * intros p. apply V1.
      * cbn. intros j ch1 Hj. apply list_lookup_insert_Some in Hj.
        destruct Hj as [(-> & <- & _)|(Hne & Hj)].
        -- exists ch. split; [exact Hl|reflexivity].
        -- exists ch1. split; [exact Hj|tauto].
    + cbn. intros ch1 H1. rewrite list_lookup_insert in H1 by (apply lookup_lt_Some in Hl; exact Hl).
      injection H1 as <-. reflexivity.
  - exists c. split; [reflexivity|]. split; [exact D|]. split; [apply wb_refl|].
    intros ch1 H1. congruence.
Qed.

Lemma wb_length c c1 : wb_rel c c1 -> length (k_chunks c1) = length (k_chunks c).
Proof. intros W. pose proof (wb_offs c c1 W) as H. apply (f_equal length) in H. rewrite !map_length in H. exact H. Qed.

Lemma flush_list_spec idxs : forall c,
  0 < k_cs c -> dinv c -> (forall i, i ∈ idxs -> (i < length (k_chunks c))%nat) ->
  exists c1, flush_list idxs c = Ok c1 /\ dinv c1 /\ wb_rel c c1 /\
    (forall i ch1, i ∈ idxs -> k_chunks c1 !! i = Some ch1 -> c_dirty ch1 = false).
Proof.
  induction idxs as [|i rest IH]; intros c Hcs D Hidx.
  - exists c. split; [reflexivity|]. split; [exact D|]. split; [apply wb_refl|].
    intros i ch1 Hi. apply elem_of_nil in Hi. contradiction.
  - destruct (chunk_write_spec c i Hcs D (Hidx i ltac:(left))) as (c1 & E1 & D1 & W1 & C1).
    assert (Hcs1 : 0 < k_cs c1) by (rewrite (wb_cs _ _ W1); exact Hcs).
    assert (Hidx1 : forall j, j ∈ rest -> (j < length (k_chunks c1))%nat).
    { intros j Hj. rewrite (wb_length _ _ W1). apply Hidx. right. exact Hj. }
    destruct (IH c1 Hcs1 D1 Hidx1) as (c2 & E2 & D2 & W2 & C2).
    exists c2. cbn [flush_list]. rewrite E1. cbn [rbind]. split; [exact E2|]. split; [exact D2|].
    split; [exact (wb_trans _ _ _ W1 W2)|].
    intros j ch2 Hj Hl2. apply elem_of_cons in Hj. destruct (decide (j ∈ rest)) as [Hin|Hnin].
    + exact (C2 j ch2 Hin Hl2).
    + destruct Hj as [->|Hj]; [|contradiction].
      destruct (wb_dirty _ _ W2 i ch2 Hl2) as (ch1 & Hl1 & Hd). apply Hd. exact (C1 ch1 Hl1).
Qed.

Lemma insert_sorted_perm x l : insert_sorted x l ≡ₚ x :: l.
Proof.
  induction l as [|y l IH]; cbn [insert_sorted]; [reflexivity|].
  destruct (fst x <=? fst y); [reflexivity|]. rewrite IH. apply Permutation_swap.
Qed.

Lemma sort_pairs_perm l : sort_pairs l ≡ₚ l.
Proof.
  unfold sort_pairs. induction l as [|x l IH]; cbn [foldr]; [reflexivity|].
  rewrite insert_sorted_perm, IH. reflexivity.
Qed.

Lemma enum_from_snd i l : map snd (enum_from i l) = seq i (length l).
Proof. revert i. induction l as [|a l IH]; intros i; cbn; [reflexivity|]. rewrite IH. reflexivity. Qed.

Lemma flush_order_perm l : flush_order l ≡ₚ seq 0 (length l).
Proof. unfold flush_order. rewrite sort_pairs_perm, enum_from_snd. reflexivity. Qed.

Lemma flush_order_elem l i : i ∈ flush_order l <-> (i < length l)%nat.
Proof. rewrite flush_order_perm, elem_of_seq. lia. Qed.

(** the write requests of a flush go out in ascending offset order *)
Lemma insert_sorted_sorted x l :
  StronglySorted (fun a b => fst a <= fst b) l -> StronglySorted (fun a b => fst a <= fst b) (insert_sorted x l).
Proof.
  induction l as [|y l IH]; intros H; cbn [insert_sorted].
  - constructor; [constructor|constructor].
  - apply StronglySorted_inv in H as [H1 H2]. destruct (N.leb_spec (fst x) (fst y)) as [L|L].
    + constructor; [constructor; assumption|]. constructor; [exact L|].
      eapply Forall_impl; [exact H2|]. intros z Hz. cbn in *. lia.
    + constructor; [apply IH; exact H1|].
      rewrite insert_sorted_perm. constructor; [lia|exact H2].
Qed.

Lemma sort_pairs_sorted l : StronglySorted (fun a b => fst a <= fst b) (sort_pairs l).
Proof.
  unfold sort_pairs. induction l as [|x l IH]; cbn [foldr]; [constructor|].
  apply insert_sorted_sorted, IH.
Qed.

Definition all_clean (c : cache) : Prop := forall i ch, k_chunks c !! i = Some ch -> c_dirty ch = false.

Lemma flush_spec c :
  0 < k_cs c -> dinv c ->
  exists c1, flush c = Ok c1 /\ dinv c1 /\ wb_rel c c1 /\ all_clean c1.
Proof.
  intros Hcs D. unfold flush.
  destruct (flush_list_spec (flush_order (k_chunks c)) c Hcs D) as (c1 & E & D1 & W & C).
  { intros i Hi. apply flush_order_elem. exact Hi. }
  exists c1. split; [exact E|]. split; [exact D1|]. split; [exact W|].
  intros i ch Hl. apply (C i ch); [|exact Hl]. apply flush_order_elem.
  rewrite <- (wb_length _ _ W). apply lookup_lt_Some in Hl. exact Hl.
Qed.

Lemma wb_inv c c1 : cache_inv c -> dinv c1 -> wb_rel c c1 -> cache_inv c1.
Proof.
  intros I D W. destruct W as [W1 W2 W3 W4 W5 W6 W7 W8 W9]. constructor.
  - rewrite W1. exact (inv_cs c I).
  - exact D.
  - rewrite W5, W6. exact (inv_pos c I).
  - intros o i H. rewrite W7. rewrite W4 in H. exact (inv_fc c I o i H).
  - unfold nchunks. apply (f_equal length) in W7. rewrite !map_length in W7. rewrite W7, W2. exact (inv_len c I).
  - pose proof (inv_cfg c I) as H. unfold cfg_ok in *. rewrite W3, W2, W1. exact H.
Qed.

(** frame: what every internal step preserves *)
Record fr_rel (c c1 : cache) : Prop := {
  fr_cs : k_cs c1 = k_cs c; fr_auto : k_auto c1 = k_auto c;
  fr_pos : k_pos c1 = k_pos c; fr_end : k_end c1 = k_end c;
  fr_view : forall p, p < k_end c -> view c1 p = view c p }.

Lemma fr_refl c : fr_rel c c.
Proof. constructor; reflexivity. Qed.

Lemma fr_trans a b c : fr_rel a b -> fr_rel b c -> fr_rel a c.
Proof.
  intros [A1 A2 A3 A4 A5] [B1 B2 B3 B4 B5]. constructor; try congruence.
  intros p Hp. rewrite (B5 p) by (rewrite A4; exact Hp). apply A5. exact Hp.
Qed.

Lemma wb_fr c c1 : wb_rel c c1 -> fr_rel c c1.
Proof. intros [W1 W2 W3 W4 W5 W6 W7 W8 W9]. constructor; try assumption. intros p _. apply W8. Qed.

Lemma cfg_ok_max1 c : cfg_ok c -> 1 <= k_max c.
Proof. unfold cfg_ok. destruct (k_auto c); lia. Qed.

Lemma clear_spec c :
  cache_inv c ->
  exists c2, clear c = Ok c2 /\ cache_inv c2 /\ fr_rel c c2 /\ k_max c2 = k_max c /\ k_fc c2 = None /\
    (length (k_chunks c2) <= 1)%nat /\
    (forall o, find_idx o (k_chunks c) = None -> find_idx o (k_chunks c2) = None) /\
    (k_chunks c2 <> [] -> find_idx 0 (k_chunks c) <> None).
Proof.
  intros I. pose proof (inv_cs c I) as Hcs.
  destruct (flush_spec c Hcs (inv_data c I)) as (c1 & E1 & D1 & W & C1).
  pose proof (wb_inv c c1 I D1 W) as I1.
  unfold clear. rewrite E1. cbn [rbind].
  set (kept := match find_idx 0 (k_chunks c1) with
               | Some i => match k_chunks c1 !! i with Some ch => [ch] | None => [] end
               | None => [] end).
  assert (Hk : kept = [] \/ exists i ch, find_idx 0 (k_chunks c1) = Some i /\ k_chunks c1 !! i = Some ch /\ c_off ch = 0 /\ kept = [ch]).
  { unfold kept. destruct (find_idx 0 (k_chunks c1)) as [i|] eqn:F; [|left; reflexivity].
    destruct (find_idx_Some _ _ _ F) as (ch & Hl & Ho). rewrite Hl. right. exists i, ch. repeat split; assumption. }
  assert (Hsub : forall j x, kept !! j = Some x -> exists i, k_chunks c1 !! i = Some x).
  { intros j x Hx. destruct Hk as [->|(i & ch & _ & Hl & _ & ->)]; [discriminate|].
    destruct j; cbn in Hx; [|discriminate]. injection Hx as <-. exists i. exact Hl. }
  assert (Hnd : NoDup (map c_off kept)).
  { destruct Hk as [->|(i & ch & _ & _ & _ & ->)]; cbn; [constructor|apply NoDup_singleton]. }
  assert (Hcs1 : 0 < k_cs c1) by exact (inv_cs c1 I1).
  destruct (data_inv_keep _ _ _ _ kept Hcs1 D1 C1 Hsub Hnd) as [D2 V2].
  assert (Hlen : (length kept <= 1)%nat).
  { destruct Hk as [->|(i & ch & _ & _ & _ & ->)]; cbn; lia. }
  eexists. split; [reflexivity|]. split; [|split; [|split; [|split; [|split; [|split]]]]].
  - constructor; cbn.
    + exact Hcs1.
    + exact D2.
    + exact (inv_pos c1 I1).
    + intros o i H. discriminate.
    + unfold nchunks. cbn. pose proof (cfg_ok_max1 c1 (inv_cfg c1 I1)). lia.
    + exact (inv_cfg c1 I1).
  - apply (fr_trans c c1); [exact (wb_fr _ _ W)|]. constructor; try reflexivity.
    intros p Hp. apply V2. exact Hp.
  - cbn. exact (wb_max _ _ W).
  - reflexivity.
  - exact Hlen.
  - cbn. intros o Ho. rewrite <- (find_idx_ext o _ _ (wb_offs _ _ W)) in Ho.
    destruct Hk as [->|(i & ch & F & Hl & Hz & ->)]; [reflexivity|].
    cbn [find_idx]. destruct (N.eqb_spec (c_off ch) o) as [E|E]; [|reflexivity].
    exfalso. exact (find_idx_None _ _ i ch Ho Hl E).
  - cbn. intros Hne. rewrite <- (find_idx_ext 0 _ _ (wb_offs _ _ W)).
    destruct Hk as [->|(i & ch & F & _)]; [congruence|]. rewrite F. discriminate.
Qed.

(** [setup_auto_buf_size] *)
Lemma buffer_size_min pm fsz : 32768 <= buffer_size pm fsz.
Proof.
  unfold buffer_size. destruct (0 <? pm); [|lia].
  destruct (1000 <=? pm); match goal with |- context [32768 <? ?v] => destruct (N.ltb_spec 32768 v) end; lia.
Qed.

Lemma buffer_size_full pm fsz : 1000 <= pm -> fsz <= buffer_size pm fsz.
Proof.
  intros H. unfold buffer_size. destruct (N.ltb_spec 0 pm); [|lia].
  destruct (N.leb_spec 1000 pm); [|lia]. destruct (N.ltb_spec 32768 fsz); lia.
Qed.

Lemma auto_chunks_ge1 cs pm fsz : 1 <= auto_chunks cs pm fsz.
Proof. unfold auto_chunks. generalize (buffer_size pm fsz / cs). intros n. lia. Qed.

Lemma auto_chunks_ge2 cs pm fsz : 0 < cs -> cs <= buffer_size pm fsz -> 2 <= auto_chunks cs pm fsz.
Proof.
  intros H1 H2. unfold auto_chunks.
  pose proof (N.div_str_pos (buffer_size pm fsz) cs ltac:(lia)) as H.
  revert H. generalize (buffer_size pm fsz / cs). intros n H. lia.
Qed.

Lemma setup_auto_fields c :
  k_cs (setup_auto c) = k_cs c /\ k_auto (setup_auto c) = k_auto c /\ k_chunks (setup_auto c) = k_chunks c /\
  k_fc (setup_auto c) = k_fc c /\ k_pos (setup_auto c) = k_pos c /\ k_end (setup_auto c) = k_end c /\
  k_disk (setup_auto c) = k_disk c.
Proof.
  unfold setup_auto. destruct (k_auto c) as [pm|] eqn:E; [|rewrite E; repeat split; reflexivity].
  destruct (nchunks c <? auto_chunks (k_cs c) pm (k_end c)); cbn; rewrite ?E; repeat split; reflexivity.
Qed.

Lemma setup_auto_inv c : cache_inv c -> cache_inv (setup_auto c).
Proof.
  intros I. destruct (setup_auto_fields c) as (F1 & F2 & F3 & F4 & F5 & F6 & F7).
  pose proof (inv_cs c I) as Hcs.
  assert (Hmax : nchunks (setup_auto c) <= k_max (setup_auto c) /\ cfg_ok (setup_auto c)).
  { pose proof (inv_len c I) as Hl. pose proof (inv_cfg c I) as Hc. unfold cfg_ok in *.
    unfold nchunks in *. rewrite F1, F2, F3. unfold setup_auto, nchunks.
    destruct (k_auto c) as [pm|]; [|split; assumption].
    destruct (N.ltb_spec (N.of_nat (length (k_chunks c))) (auto_chunks (k_cs c) pm (k_end c))) as [H|H]; cbn [k_max set_max];
      [|split; assumption].
    split; [lia|]. destruct Hc as (Hc1 & Hc2 & Hc3). split; [apply auto_chunks_ge1|]. split; [|exact Hc3].
    intros Hs. apply auto_chunks_ge2; [exact Hcs|]. pose proof (buffer_size_min pm (k_end c)). lia. }
  constructor.
  - rewrite F1. exact Hcs.
  - rewrite F1, F3, F6, F7. exact (inv_data c I).
  - rewrite F5, F6. exact (inv_pos c I).
  - rewrite F3, F4. exact (inv_fc c I).
  - exact (proj1 Hmax).
  - exact (proj2 Hmax).
Qed.

Lemma setup_auto_fr c : fr_rel c (setup_auto c).
Proof.
  destruct (setup_auto_fields c) as (F1 & F2 & F3 & F4 & F5 & F6 & F7).
  constructor; try assumption. intros p _. unfold view. rewrite F1, F3, F7. reflexivity.
Qed.

Lemma set_fc_inv c o :
  cache_inv c -> (forall off i, o = Some (off, i) -> map c_off (k_chunks c) !! i = Some off) -> cache_inv (set_fc c o).
Proof.
  intros I H. constructor; cbn.
  - exact (inv_cs c I).
  - exact (inv_data c I).
  - exact (inv_pos c I).
  - exact H.
  - exact (inv_len c I).
  - exact (inv_cfg c I).
Qed.

(** [add_chunk] when there is room: the new chunk is read and pushed *)
Lemma add_chunk_room f c off :
  cache_inv c -> off mod k_cs c = 0 -> off <= k_end c -> find_idx off (k_chunks c) = None ->
  nchunks c < k_max c ->
  exists c1 i, add_chunk (S f) c off = Ok (c1, i) /\ cache_inv c1 /\ fr_rel c c1 /\ k_fc c1 = None /\
    map c_off (k_chunks c1) !! i = Some off.
Proof.
  intros I Hm Hoe Hnone Hroom. cbn [add_chunk].
  destruct (N.eqb_spec (nchunks c) (k_max c)) as [E|_]; [lia|].
  assert (I2 : cache_inv (set_fc c None)) by (apply set_fc_inv; [exact I|discriminate]).
  change (nchunks (set_fc c None)) with (nchunks c). change (k_max (set_fc c None)) with (k_max c).
  destruct (N.ltb_spec (nchunks c) (k_max c)) as [_|H]; [|lia].
  destruct (chunk_new_spec (set_fc c None) off (inv_cs c I) (inv_data c I) Hm Hoe Hnone) as (ch & En & Ho & D & V).
  rewrite En. cbn [rbind]. eexists. eexists. split; [reflexivity|]. cbn in D, V.
  split; [|split; [|split]].
  - constructor; cbn.
    + exact (inv_cs c I).
    + exact D.
    + exact (inv_pos c I).
    + discriminate.
    + unfold nchunks in *. cbn. rewrite app_length. cbn [length]. lia.
    + exact (inv_cfg c I).
  - constructor; try reflexivity. intros p Hp. unfold view. cbn. apply V. exact Hp.
  - reflexivity.
  - cbn. rewrite map_app. cbn [map]. rewrite Ho.
    replace (length (k_chunks c)) with (length (map c_off (k_chunks c))) by apply map_length.
    apply list_lookup_middle. reflexivity.
Qed.

Lemma remove_chunks_room c off :
  cache_inv c -> off mod k_cs c = 0 -> off <= k_end c -> find_idx off (k_chunks c) = None ->
  exists c3, remove_chunks c = Ok c3 /\ cache_inv c3 /\ fr_rel c c3 /\
    find_idx off (k_chunks c3) = None /\ nchunks c3 < k_max c3.
Proof.
  intros I Hm Hoe Hnone. pose proof (inv_cs c I) as Hcs.
  destruct (clear_spec c I) as (c2 & E2 & I2 & F2 & M2 & FC2 & L2 & N2 & Z2).
  unfold remove_chunks. rewrite E2. cbn [rbind].
  destruct (setup_auto_fields c2) as (G1 & G2 & G3 & G4 & G5 & G6 & G7).
  exists (setup_auto c2). split; [reflexivity|]. split; [exact (setup_auto_inv c2 I2)|].
  split; [exact (fr_trans _ _ _ F2 (setup_auto_fr c2))|]. split; [rewrite G3; apply N2; exact Hnone|].
  pose proof (inv_cfg c2 I2) as Hc. pose proof (inv_cs c2 I2) as Hcs2.
  unfold nchunks. rewrite G3. unfold cfg_ok in Hc. unfold setup_auto, nchunks.
  destruct (k_auto c2) as [pm|] eqn:Ea; [|lia].
  destruct Hc as (Hc1 & Hc2 & Hc3).
  destruct (N.ltb_spec (N.of_nat (length (k_chunks c2))) (auto_chunks (k_cs c2) pm (k_end c2))) as [H|H]; cbn [k_max set_max]; [exact H|].
  destruct Hc3 as [Hs|Hp]; [specialize (Hc2 Hs); lia|].
  destruct (k_chunks c2) as [|x l] eqn:Ek; [cbn [length]; lia|]. exfalso.
  assert (Hz : find_idx 0 (k_chunks c) <> None) by (apply Z2; discriminate).
  assert (Hne : off <> 0) by (intros ->; congruence).
  pose proof (mult_ge (k_cs c) off Hcs Hm Hne) as Hge.
  pose proof (buffer_size_full pm (k_end c2) Hp) as Hb.
  rewrite (fr_cs _ _ F2), (fr_end _ _ F2) in *.
  pose proof (auto_chunks_ge2 (k_cs c) pm (k_end c) Hcs ltac:(lia)) as H2.
  cbn [length] in L2, H. lia.
Qed.

(** [add_chunk]: two levels of the recursion are enough *)
Lemma add_chunk_spec fuel c off :
  cache_inv c -> off mod k_cs c = 0 -> off <= k_end c -> find_idx off (k_chunks c) = None ->
  (2 <= fuel)%nat ->
  exists c1 i, add_chunk fuel c off = Ok (c1, i) /\ cache_inv c1 /\ fr_rel c c1 /\ k_fc c1 = None /\
    map c_off (k_chunks c1) !! i = Some off.
Proof.
  intros I Hm Hoe Hnone Hf. destruct fuel as [|[|f]]; try lia.
  set (c1 := if nchunks c =? k_max c then setup_auto c else c).
  assert (I1 : cache_inv c1) by (unfold c1; destruct (nchunks c =? k_max c); [apply setup_auto_inv|]; exact I).
  assert (F1 : fr_rel c c1) by (unfold c1; destruct (nchunks c =? k_max c); [apply setup_auto_fr|apply fr_refl]).
  assert (K1 : k_chunks c1 = k_chunks c).
  { unfold c1. destruct (nchunks c =? k_max c); [|reflexivity]. apply (setup_auto_fields c). }
  destruct (N.lt_ge_cases (nchunks c1) (k_max c1)) as [Hroom|Hfull].
  - (* room, possibly after the maximum was raised *)
    destruct (add_chunk_room (S f) c1 off I1) as (c2 & i & E & I2 & F2 & FC & L).
    { rewrite (fr_cs _ _ F1). exact Hm. } { rewrite (fr_end _ _ F1). exact Hoe. } { rewrite K1. exact Hnone. } { exact Hroom. }
    exists c2, i. split; [|split; [exact I2|split; [exact (fr_trans _ _ _ F1 F2)|split; [exact FC|exact L]]]].
    cbn [add_chunk] in E |- *. fold c1.
    destruct (N.eqb_spec (nchunks c1) (k_max c1)) as [E1|_]; [lia|]. exact E.
  - (* full: remove_chunks, then room *)
    assert (I2 : cache_inv (set_fc c1 None)) by (apply set_fc_inv; [exact I1|discriminate]).
    destruct (remove_chunks_room (set_fc c1 None) off I2) as (c3 & E3 & I3 & F3 & N3 & R3).
    { cbn. rewrite (fr_cs _ _ F1). exact Hm. } { cbn. rewrite (fr_end _ _ F1). exact Hoe. } { cbn. rewrite K1. exact Hnone. }
    destruct (add_chunk_room f c3 off I3) as (c4 & i & E4 & I4 & F4 & FC & L).
    { rewrite (fr_cs _ _ F3). cbn. rewrite (fr_cs _ _ F1). exact Hm. }
    { rewrite (fr_end _ _ F3). cbn. rewrite (fr_end _ _ F1). exact Hoe. } { exact N3. } { exact R3. }
    exists c4, i. split; [|split; [exact I4|split; [|split; [exact FC|exact L]]]].
    + cbn [add_chunk]. fold c1.
      change (nchunks (set_fc c1 None)) with (nchunks c1). change (k_max (set_fc c1 None)) with (k_max c1).
      destruct (N.ltb_spec (nchunks c1) (k_max c1)) as [H|_]; [lia|].
      rewrite E3. cbn [rbind]. exact E4.
    + apply (fr_trans _ _ _ F1). apply (fr_trans _ (set_fc c1 None)); [constructor; try reflexivity|].
      exact (fr_trans _ _ _ F3 F4).
Qed.

(** [fetch_chunk] *)
Lemma fetch_chunk_spec fuel c p :
  cache_inv c -> p <= k_end c -> (2 <= fuel)%nat ->
  exists c1 i ch, fetch_chunk fuel c p = Ok (c1, i) /\ cache_inv c1 /\ fr_rel c c1 /\
    k_chunks c1 !! i = Some ch /\ c_off ch = chunk_off (k_cs c) p.
Proof.
  intros I Hp Hf. pose proof (inv_cs c I) as Hcs.
  destruct (chunk_off_range (k_cs c) p Hcs) as [Hr1 Hr2].
  set (off := chunk_off (k_cs c) p).
  assert (Hslow : exists c1 i ch,
    match find_idx off (k_chunks c) with
    | Some i => Ok (set_fc c (Some (off, i)), i)
    | None => let* (c1, i) := add_chunk fuel c off in Ok (set_fc c1 (Some (off, i)), i)
    end = Ok (c1, i) /\ cache_inv c1 /\ fr_rel c c1 /\ k_chunks c1 !! i = Some ch /\ c_off ch = off).
  { destruct (find_idx off (k_chunks c)) as [i|] eqn:F.
    - destruct (find_idx_Some _ _ _ F) as (ch & Hl & Ho).
      exists (set_fc c (Some (off, i))), i, ch. split; [reflexivity|]. split; [|split; [|split; assumption]].
      + apply set_fc_inv; [exact I|]. intros o j E. injection E as <- <-.
        rewrite list_lookup_fmap, Hl. cbn. rewrite Ho. reflexivity.
      + constructor; reflexivity.
    - destruct (add_chunk_spec fuel c off I) as (c1 & i & E & I1 & F1 & FC & L); [apply chunk_off_mod; exact Hcs|fold off in Hr1; lia|exact F|exact Hf|].
      rewrite E. cbn [rbind]. rewrite list_lookup_fmap in L.
      destruct (k_chunks c1 !! i) as [ch|] eqn:Hl; [|discriminate]. injection L as L.
      exists (set_fc c1 (Some (off, i))), i, ch. split; [reflexivity|]. split; [|split; [|split; [exact Hl|exact L]]].
      + apply set_fc_inv; [exact I1|]. intros o j E'. injection E' as <- <-.
        rewrite list_lookup_fmap, Hl. cbn. rewrite L. reflexivity.
      + apply (fr_trans _ _ _ F1). constructor; reflexivity. }
  unfold fetch_chunk. fold off.
  destruct (k_fc c) as [[o i]|] eqn:Efc; [|exact Hslow].
  destruct (N.eqb_spec o off) as [E|E]; [|exact Hslow].
  destruct (inv_fc_chunk c o i I Efc) as (ch & Hl & Ho).
  exists c, i, ch. split; [reflexivity|]. split; [exact I|]. split; [apply fr_refl|]. split; [exact Hl|congruence].
Qed.

(** ** 8. the abstraction relation and the operations *)
Definition R (c : cache) (f : flat) : Prop :=
  k_pos c = f_pos f /\ k_end c = f_end f /\ forall p, p < k_end c -> getb (f_bytes f) p = view c p.

Lemma R_fr c c1 f : fr_rel c c1 -> R c f -> R c1 f.
Proof.
  intros [F1 F2 F3 F4 F5] (R1 & R2 & R3). split; [congruence|]. split; [congruence|].
  intros p Hp. rewrite F4 in Hp. rewrite (F5 p Hp). apply R3. exact Hp.
Qed.

Lemma set_pos_inv c p : cache_inv c -> p <= k_end c -> cache_inv (set_pos c p).
Proof.
  intros I H. constructor; cbn.
  - exact (inv_cs c I).
  - exact (inv_data c I).
  - exact H.
  - exact (inv_fc c I).
  - exact (inv_len c I).
  - exact (inv_cfg c I).
Qed.

Lemma view_fetched c i ch q :
  cache_inv c -> k_chunks c !! i = Some ch -> q < k_cs c -> view c (c_off ch + q) = getb (c_data ch) q.
Proof.
  intros I Hl Hq. unfold view. apply (viewl_in_chunk _ _ _ (k_end c) i); [exact (inv_cs c I)|exact (inv_data c I)|exact Hl|exact Hq].
Qed.

(** [read] *)
Lemma read_spec fuel c f n :
  cache_inv c -> R c f -> (2 <= fuel)%nat ->
  let k := N.min n (to_boundary (k_cs c) (f_pos f)) in
  f_pos f + k <= f_end f ->
  exists c1, read fuel c n = Ok (c1, sub (f_bytes f) (f_pos f) k) /\ cache_inv c1 /\
    R c1 (Flat (f_pos f + k) (f_bytes f)) /\ k_cs c1 = k_cs c /\ k_auto c1 = k_auto c.
Proof.
  intros I HR Hf k Hk. destruct HR as (R1 & R2 & R3). pose proof (inv_cs c I) as Hcs.
  destruct (fetch_chunk_spec fuel c (k_pos c) I (inv_pos c I) Hf) as (c1 & i & ch & E & I1 & F1 & Hl & Ho).
  unfold read. rewrite E. cbn [rbind]. unfold get_chunk. rewrite Hl. cbn [rbind].
  destruct (di_chunk _ _ _ _ (inv_data c1 I1) i ch Hl) as (Hm & Hlen & Hoe).
  rewrite (fr_pos _ _ F1), Hlen, (fr_cs _ _ F1).
  destruct (chunk_off_range (k_cs c) (k_pos c) Hcs) as [Hr1 Hr2].
  assert (Hst : k_pos c - c_off ch = k_pos c mod k_cs c) by (rewrite Ho; apply chunk_off_sub_mod; exact Hcs).
  assert (Hk' : N.min n (k_cs c - (k_pos c - c_off ch)) = k).
  { unfold k, to_boundary. rewrite Hst, R1. reflexivity. }
  rewrite Hk'.
  assert (Hkb : k <= k_cs c - (k_pos c - c_off ch)) by lia.
  assert (Hdata : sub (c_data ch) (k_pos c - c_off ch) k = sub (f_bytes f) (f_pos f) k).
  { apply bytes_ext.
    - rewrite !blen_sub, Hlen, (fr_cs _ _ F1). unfold f_end in Hk. lia.
    - intros q Hq. rewrite blen_sub, Hlen, (fr_cs _ _ F1) in Hq. rewrite !getb_sub.
      destruct (N.ltb_spec q k); [|lia].
      rewrite <- (view_fetched c1 i ch (k_pos c - c_off ch + q) I1 Hl) by (rewrite (fr_cs _ _ F1); lia).
      replace (c_off ch + (k_pos c - c_off ch + q)) with (k_pos c + q) by lia.
      rewrite (fr_view _ _ F1) by (rewrite R2; lia). rewrite <- R3 by (rewrite R2; lia).
      rewrite R1. reflexivity. }
  rewrite Hdata. eexists. split; [reflexivity|].
  split; [apply set_pos_inv; [exact I1|rewrite (fr_end _ _ F1), R1, R2; exact Hk]|].
  split; [|split; [exact (fr_cs _ _ F1)|exact (fr_auto _ _ F1)]].
  split; [cbn; rewrite R1; reflexivity|]. split; [cbn; rewrite (fr_end _ _ F1); exact R2|].
  cbn. intros p Hp. rewrite (fr_end _ _ F1) in Hp. change (view (set_pos c1 (k_pos c + k)) p) with (view c1 p).
  rewrite (fr_view _ _ F1 p Hp). apply R3. exact Hp.
Qed.

Lemma to_boundary_pos cs p : 0 < cs -> 0 < to_boundary cs p.
Proof. intros H. unfold to_boundary. pose proof (N.mod_lt p cs ltac:(lia)). lia. Qed.

(** [read_exact] *)
Lemma read_loop_spec fa fuel : forall c f n acc,
  cache_inv c -> R c f -> (2 <= fa)%nat -> (N.to_nat n < fuel)%nat -> f_pos f + n <= f_end f ->
  exists c1, read_loop fa fuel c n acc = Ok (c1, acc ++ sub (f_bytes f) (f_pos f) n) /\ cache_inv c1 /\
    R c1 (Flat (f_pos f + n) (f_bytes f)) /\ k_cs c1 = k_cs c /\ k_auto c1 = k_auto c.
Proof.
  induction fuel as [|fuel IH]; intros c f n acc I HR Hfa Hfuel Hn; [lia|].
  cbn [read_loop]. destruct (N.eqb_spec n 0) as [->|Hn0].
  - exists c. rewrite sub_zero, app_nil_r. split; [reflexivity|]. split; [exact I|].
    split; [|split; reflexivity]. rewrite N.add_0_r. destruct f. exact HR.
  - pose proof (inv_cs c I) as Hcs. pose proof (to_boundary_pos (k_cs c) (f_pos f) Hcs) as Hb.
    set (k := N.min n (to_boundary (k_cs c) (f_pos f))).
    destruct (read_spec fa c f n I HR Hfa) as (c1 & E & I1 & R1 & C1 & A1); [fold k; lia|].
    fold k in E, R1. rewrite E. cbn [rbind].
    assert (Hbl : blen (sub (f_bytes f) (f_pos f) k) = k) by (rewrite blen_sub; unfold f_end in Hn; lia).
    rewrite Hbl. destruct (N.eqb_spec k 0) as [Hk0|_]; [lia|].
    destruct (IH c1 (Flat (f_pos f + k) (f_bytes f)) (n - k) (acc ++ sub (f_bytes f) (f_pos f) k) I1 R1 Hfa)
      as (c2 & E2 & I2 & R2 & C2 & A2); [lia|cbn [f_pos f_end f_bytes]; unfold f_end in *; cbn; lia|].
    cbn [f_pos f_bytes] in E2, R2. exists c2. split.
    + rewrite E2. f_equal. f_equal. rewrite <- app_assoc. f_equal.
      replace n with (k + (n - k)) at 2 by lia. symmetry. apply sub_split. unfold f_end in Hn. lia.
    + split; [exact I2|]. split; [|split; congruence].
      replace (f_pos f + n) with (f_pos f + k + (n - k)) by lia. exact R2.
Qed.

Lemma read_exact_spec fuel c f n :
  cache_inv c -> R c f -> (N.to_nat n + 2 <= fuel)%nat -> f_pos f + n <= f_end f ->
  exists c1, read_exact fuel c n = Ok (c1, sub (f_bytes f) (f_pos f) n) /\ cache_inv c1 /\
    R c1 (Flat (f_pos f + n) (f_bytes f)) /\ k_cs c1 = k_cs c /\ k_auto c1 = k_auto c.
Proof.
  intros I HR Hf Hn. unfold read_exact.
  destruct (read_loop_spec fuel fuel c f n [] I HR ltac:(lia) ltac:(lia) Hn) as (c1 & E & H). exists c1. split; [exact E|exact H].
Qed.

(** the [SmallRead] family *)
Lemma read_small_spec fuel c f chk need n :
  cache_inv c -> R c f -> (N.to_nat n + 2 <= fuel)%nat -> f_pos f + n <= f_end f ->
  (chk && (k_cs c <? n)) || (need <? n) = false ->
  exists c1, read_small fuel c chk need n = Ok (c1, sub (f_bytes f) (f_pos f) n) /\ cache_inv c1 /\
    R c1 (Flat (f_pos f + n) (f_bytes f)) /\ k_cs c1 = k_cs c /\ k_auto c1 = k_auto c.
Proof.
  intros I HR Hf Hn Hdom. apply orb_false_elim in Hdom as [Hchk Hneed].
  unfold read_small. rewrite Hchk.
  destruct (fetch_chunk_spec fuel c (k_pos c) I (inv_pos c I) ltac:(lia)) as (c1 & i & ch & E & I1 & F1 & Hl & Ho).
  rewrite E. cbn [rbind]. unfold get_chunk. rewrite Hl. cbn [rbind].
  pose proof (R_fr _ _ _ F1 HR) as HR1.
  destruct (di_chunk _ _ _ _ (inv_data c1 I1) i ch Hl) as (Hm & Hlen & Hoe).
  rewrite Hlen.
  destruct (N.leb_spec (k_pos c1 - c_off ch + need) (k_cs c1)) as [Hfast|Hslow].
  - destruct HR1 as (R1 & R2 & R3). pose proof (inv_cs c I) as Hcs.
    destruct (chunk_off_range (k_cs c) (k_pos c) Hcs) as [Hr1 Hr2].
    apply N.ltb_ge in Hneed.
    assert (Hdata : sub (c_data ch) (k_pos c1 - c_off ch) n = sub (f_bytes f) (f_pos f) n).
    { apply bytes_ext.
      - rewrite !blen_sub, Hlen. unfold f_end in Hn. lia.
      - intros q Hq. rewrite blen_sub, Hlen in Hq. rewrite !getb_sub.
        destruct (N.ltb_spec q n); [|lia].
        rewrite <- (view_fetched c1 i ch (k_pos c1 - c_off ch + q) I1 Hl) by lia.
        rewrite (fr_pos _ _ F1), (fr_cs _ _ F1) in *.
        replace (c_off ch + (k_pos c - c_off ch + q)) with (k_pos c + q) by lia.
        rewrite <- R3 by lia. rewrite R1. reflexivity. }
    rewrite Hdata. eexists. split; [reflexivity|].
    split; [apply set_pos_inv; [exact I1|lia]|].
    split; [|split; [exact (fr_cs _ _ F1)|exact (fr_auto _ _ F1)]].
    split; [cbn; rewrite R1; reflexivity|]. split; [cbn; exact R2|].
    cbn. intros p Hp. apply R3. exact Hp.
  - destruct (read_exact_spec fuel c1 f n I1 HR1 Hf Hn) as (c2 & E2 & I2 & R2 & C2 & A2).
    exists c2. split; [exact E2|]. split; [exact I2|]. split; [exact R2|].
    split; [rewrite C2; exact (fr_cs _ _ F1)|rewrite A2; exact (fr_auto _ _ F1)].
Qed.

(** bytes written into the chunk just fetched: [write] and the fast paths of [SmallWrite] *)
Lemma bump_fields c k :
  k_cs (bump c k) = k_cs c /\ k_max (bump c k) = k_max c /\ k_auto (bump c k) = k_auto c /\
  k_chunks (bump c k) = k_chunks c /\ k_fc (bump c k) = k_fc c /\ k_pos (bump c k) = k_pos c + k /\
  k_end (bump c k) = N.max (k_end c) (k_pos c + k) /\ k_disk (bump c k) = k_disk c.
Proof.
  unfold bump. cbn [k_end k_pos set_pos].
  destruct (N.ltb_spec (k_end c) (k_pos c + k)); cbn; repeat split; try reflexivity; lia.
Qed.

Lemma poke_spec c f i ch b :
  cache_inv c -> R c f -> k_chunks c !! i = Some ch -> c_off ch = chunk_off (k_cs c) (k_pos c) ->
  k_pos c - c_off ch + blen b <= k_cs c ->
  let c' := bump (put_chunk c i (Chunk (c_off ch) (splice (c_data ch) (k_pos c - c_off ch) b) true)) (blen b) in
  cache_inv c' /\ R c' (Flat (f_pos f + blen b) (splice (f_bytes f) (f_pos f) b)) /\
  k_cs c' = k_cs c /\ k_auto c' = k_auto c.
Proof.
  intros I (R1 & R2 & R3) Hl Ho Hfit c'. pose proof (inv_cs c I) as Hcs.
  destruct (chunk_off_range (k_cs c) (k_pos c) Hcs) as [Hr1 Hr2].
  set (st := k_pos c - c_off ch) in *.
  assert (Hpos : c_off ch + st = k_pos c) by (unfold st; lia).
  pose proof (inv_pos c I) as Hpe.
  destruct (data_inv_poke (k_cs c) (k_chunks c) (k_disk c) (k_end c) i ch st b Hcs (inv_data c I) Hl Hfit ltac:(lia)) as [D V].
  rewrite Hpos in D, V.
  destruct (bump_fields (put_chunk c i (Chunk (c_off ch) (splice (c_data ch) st b) true)) (blen b))
    as (B1 & B2 & B3 & B4 & B5 & B6 & B7 & B8).
  cbn [put_chunk set_chunks k_cs k_max k_auto k_chunks k_fc k_pos k_end k_disk] in B1, B2, B3, B4, B5, B6, B7, B8.
  fold c' in B1, B2, B3, B4, B5, B6, B7, B8.
  assert (Hmap : map c_off (k_chunks c') = map c_off (k_chunks c)).
  { rewrite B4. apply (map_off_insert _ i ch); [exact Hl|reflexivity]. }
  split; [|split; [|split; assumption]].
  - constructor.
    + rewrite B1. exact Hcs.
    + rewrite B1, B4, B7, B8. exact D.
    + rewrite B6, B7. lia.
    + rewrite B5, Hmap. exact (inv_fc c I).
    + unfold nchunks. rewrite B4, insert_length, B2. exact (inv_len c I).
    + pose proof (inv_cfg c I) as H. unfold cfg_ok in *. rewrite B1, B2, B3. exact H.
  - split; [cbn; rewrite B6, R1; reflexivity|].
    split; [cbn; unfold f_end; cbn; rewrite B7, blen_splice, R1, R2; reflexivity|].
    cbn [f_bytes]. intros p Hp. rewrite B7 in Hp. unfold view. rewrite B1, B4, B8.
    rewrite (V p Hp), getb_splice, <- R1.
    destruct (N.leb_spec (k_pos c) p); destruct (N.ltb_spec p (k_pos c + blen b)); destruct (N.ltb_spec p (k_pos c));
      cbn [andb]; try lia; try reflexivity; apply R3; lia.
Qed.

(** [write] *)
Lemma write_spec fuel c f buf :
  cache_inv c -> R c f -> (2 <= fuel)%nat ->
  let k := N.min (blen buf) (to_boundary (k_cs c) (f_pos f)) in
  exists c1, write fuel c buf = Ok (c1, k) /\ cache_inv c1 /\
    R c1 (Flat (f_pos f + k) (splice (f_bytes f) (f_pos f) (take (N.to_nat k) buf))) /\
    k_cs c1 = k_cs c /\ k_auto c1 = k_auto c.
Proof.
  intros I HR Hf k. pose proof (inv_cs c I) as Hcs.
  destruct (fetch_chunk_spec fuel c (k_pos c) I (inv_pos c I) Hf) as (c1 & i & ch & E & I1 & F1 & Hl & Ho).
  unfold write. rewrite E. cbn [rbind]. unfold get_chunk. rewrite Hl. cbn [rbind].
  pose proof (R_fr _ _ _ F1 HR) as HR1.
  destruct (di_chunk _ _ _ _ (inv_data c1 I1) i ch Hl) as (Hm & Hlen & Hoe).
  destruct (chunk_off_range (k_cs c) (k_pos c) Hcs) as [Hr1 Hr2].
  assert (Hst : k_pos c1 - c_off ch = f_pos f mod k_cs c).
  { rewrite (fr_pos _ _ F1), Ho, <- (proj1 HR). apply chunk_off_sub_mod. exact Hcs. }
  assert (Hk' : N.min (blen buf) (blen (c_data ch) - (k_pos c1 - c_off ch)) = k).
  { unfold k, to_boundary. rewrite Hlen, Hst, (fr_cs _ _ F1). reflexivity. }
  rewrite Hk'.
  assert (Hbt : blen (take (N.to_nat k) buf) = k) by (rewrite blen_take; unfold k; lia).
  pose proof (N.mod_lt (f_pos f) (k_cs c) ltac:(lia)) as Hml.
  destruct (poke_spec c1 f i ch (take (N.to_nat k) buf) I1 HR1 Hl) as (I2 & R2 & C2 & A2).
  { rewrite (fr_cs _ _ F1), (fr_pos _ _ F1). exact Ho. }
  { rewrite Hbt, Hst, (fr_cs _ _ F1). unfold k, to_boundary. lia. }
  rewrite Hbt in I2, R2, C2, A2. eexists. split; [reflexivity|].
  split; [exact I2|]. split; [exact R2|]. split; [rewrite C2; exact (fr_cs _ _ F1)|rewrite A2; exact (fr_auto _ _ F1)].
Qed.

(** [write_all] *)
Lemma write_loop_spec fa fuel : forall c f buf,
  cache_inv c -> R c f -> (2 <= fa)%nat -> (length buf < fuel)%nat ->
  exists c1, write_loop fa fuel c buf = Ok c1 /\ cache_inv c1 /\
    R c1 (Flat (f_pos f + blen buf) (splice (f_bytes f) (f_pos f) buf)) /\
    k_cs c1 = k_cs c /\ k_auto c1 = k_auto c.
Proof.
  induction fuel as [|fuel IH]; intros c f buf I HR Hfa Hfuel; [lia|].
  cbn [write_loop]. destruct buf as [|x buf'] eqn:Eb.
  - exists c. split; [reflexivity|]. split; [exact I|]. split; [|split; reflexivity].
    destruct HR as (R1 & R2 & R3). pose proof (inv_pos c I).
    rewrite blen_nil, N.add_0_r, splice_nil by (unfold f_end in R2; lia). destruct f. split; [exact R1|split; [exact R2|exact R3]].
  - rewrite <- Eb in *. assert (Hbl : 0 < blen buf) by (rewrite Eb, blen_cons; lia).
    pose proof (inv_cs c I) as Hcs. pose proof (to_boundary_pos (k_cs c) (f_pos f) Hcs) as Hb.
    set (k := N.min (blen buf) (to_boundary (k_cs c) (f_pos f))).
    destruct (write_spec fa c f buf I HR Hfa) as (c1 & E & I1 & R1 & C1 & A1). fold k in E, R1.
    rewrite E. cbn [rbind]. destruct (N.eqb_spec k 0) as [Hk0|_]; [lia|].
    destruct (IH c1 _ (drop (N.to_nat k) buf) I1 R1 Hfa) as (c2 & E2 & I2 & R2 & C2 & A2).
    { rewrite drop_length. unfold blen in *. lia. }
    exists c2. split; [exact E2|]. split; [exact I2|]. split; [|split; congruence].
    cbn [f_pos f_bytes] in R2.
    assert (Hbt : blen (take (N.to_nat k) buf) = k) by (rewrite blen_take; lia).
    pose proof (splice_app (f_bytes f) (f_pos f) (take (N.to_nat k) buf) (drop (N.to_nat k) buf)) as Hs.
    rewrite take_drop, Hbt in Hs. rewrite <- Hs in R2.
    rewrite blen_drop in R2. replace (f_pos f + k + (blen buf - k)) with (f_pos f + blen buf) in R2 by lia.
    exact R2.
Qed.

Lemma write_all_spec fuel c f buf :
  cache_inv c -> R c f -> (length buf + 2 <= fuel)%nat ->
  exists c1, write_all fuel c buf = Ok c1 /\ cache_inv c1 /\
    R c1 (Flat (f_pos f + blen buf) (splice (f_bytes f) (f_pos f) buf)) /\
    k_cs c1 = k_cs c /\ k_auto c1 = k_auto c.
Proof.
  intros I HR Hf. unfold write_all. apply write_loop_spec; [exact I|exact HR|lia|lia].
Qed.

(** the [SmallWrite] family *)
Lemma write_small_spec fuel c f chk buf :
  cache_inv c -> R c f -> (length buf + 2 <= fuel)%nat -> chk && (k_cs c <? blen buf) = false ->
  exists c1, write_small fuel c chk buf = Ok c1 /\ cache_inv c1 /\
    R c1 (Flat (f_pos f + blen buf) (splice (f_bytes f) (f_pos f) buf)) /\
    k_cs c1 = k_cs c /\ k_auto c1 = k_auto c.
Proof.
  intros I HR Hf Hchk. unfold write_small. rewrite Hchk.
  destruct (fetch_chunk_spec fuel c (k_pos c) I (inv_pos c I) ltac:(lia)) as (c1 & i & ch & E & I1 & F1 & Hl & Ho).
  rewrite E. cbn [rbind]. unfold get_chunk. rewrite Hl. cbn [rbind].
  pose proof (R_fr _ _ _ F1 HR) as HR1.
  destruct (di_chunk _ _ _ _ (inv_data c1 I1) i ch Hl) as (Hm & Hlen & Hoe).
  rewrite Hlen.
  destruct (N.leb_spec (k_pos c1 - c_off ch + blen buf) (k_cs c1)) as [Hfast|Hslow].
  - destruct (poke_spec c1 f i ch buf I1 HR1 Hl) as (I2 & R2 & C2 & A2).
    { rewrite (fr_cs _ _ F1), (fr_pos _ _ F1). exact Ho. } { exact Hfast. }
    eexists. split; [reflexivity|]. split; [exact I2|]. split; [exact R2|].
    split; [rewrite C2; exact (fr_cs _ _ F1)|rewrite A2; exact (fr_auto _ _ F1)].
  - destruct (write_all_spec fuel c1 f buf I1 HR1 Hf) as (c2 & E2 & I2 & R2 & C2 & A2).
    exists c2. split; [exact E2|]. split; [exact I2|]. split; [exact R2|].
    split; [rewrite C2; exact (fr_cs _ _ F1)|rewrite A2; exact (fr_auto _ _ F1)].
Qed.

(** [set_len] (growing) and [seek] *)
Lemma set_len_spec c f size :
  cache_inv c -> R c f -> k_end c <= size ->
  cache_inv (set_len c size) /\ R (set_len c size) (Flat (f_pos f) (pad_to (f_bytes f) size)) /\
  k_cs (set_len c size) = k_cs c /\ k_auto (set_len c size) = k_auto c.
Proof.
  intros I (R1 & R2 & R3) Hs. pose proof (inv_cs c I) as Hcs. pose proof (inv_pos c I) as Hp.
  unfold set_len. cbn [set_end k_pos]. destruct (N.ltb_spec size (k_pos c)) as [H|_]; [lia|]. cbn.
  destruct (data_inv_grow _ _ _ _ size Hcs (inv_data c I) Hs) as [D V].
  split; [|split; [|split; reflexivity]].
  - constructor; cbn.
    + exact Hcs.
    + exact D.
    + lia.
    + exact (inv_fc c I).
    + exact (inv_len c I).
    + exact (inv_cfg c I).
  - split; [exact R1|]. split; [cbn; unfold f_end in *; cbn; rewrite blen_pad_to; lia|].
    cbn [f_bytes k_end set_disk set_end]. intros p Hp'. unfold view. cbn [k_cs k_chunks k_disk set_disk set_end]. rewrite (V p Hp'), getb_pad_to.
    destruct (N.ltb_spec p (k_end c)) as [Hlt|Hge]; [apply R3; exact Hlt|].
    apply getb_ge. unfold f_end in R2. lia.
Qed.

Lemma seek_spec c f sf f' np :
  cache_inv c -> R c f -> flat_seek f sf = Some (f', np) ->
  exists c', seek c sf = Ok (c', np) /\ cache_inv c' /\ R c' f' /\ k_cs c' = k_cs c /\ k_auto c' = k_auto c.
Proof.
  intros I HR Hfs. pose proof HR as (R1 & R2 & R3). unfold flat_seek in Hfs. unfold seek.
  assert (Hnp : exists x, match sf with
       | SeekStart x => Some x
       | SeekEnd _ x => if f_end f <? x then None else Some (f_end f - x)
       | SeekCur true x => if f_pos f <? x then None else Some (f_pos f - x)
       | SeekCur false x => Some (f_pos f + x) end = Some x /\
       match sf with
       | SeekStart x => Ok x
       | SeekEnd _ x => if k_end c <? x then Panic Overflow else Ok (k_end c - x)
       | SeekCur true x => if k_pos c <? x then Panic Overflow else Ok (k_pos c - x)
       | SeekCur false x => Ok (k_pos c + x) end = Ok x).
  { rewrite R1, R2. destruct sf as [x|neg x|[|] x].
    - exists x. split; reflexivity.
    - destruct (f_end f <? x); [discriminate|]. eexists. split; reflexivity.
    - destruct (f_pos f <? x); [discriminate|]. eexists. split; reflexivity.
    - eexists. split; reflexivity. }
  destruct Hnp as (x & Hx1 & Hx2). rewrite Hx1 in Hfs. cbn in Hfs. injection Hfs as <- <-.
  rewrite Hx2. cbn [rbind].
  destruct (N.ltb_spec (k_end c) x) as [Hlt|Hge].
  - destruct (set_len_spec c f x I HR ltac:(lia)) as (I1 & (S1 & S2 & S3) & C1 & A1).
    eexists. split; [reflexivity|]. split; [apply set_pos_inv; [exact I1|]|].
    { rewrite S2. unfold f_end. cbn. rewrite blen_pad_to. lia. }
    split; [|split; assumption]. split; [reflexivity|]. split; [exact S2|]. exact S3.
  - eexists. split; [reflexivity|]. split; [apply set_pos_inv; [exact I|exact Hge]|].
    split; [|split; reflexivity]. rewrite pad_to_le by (unfold f_end in R2; lia).
    split; [reflexivity|]. split; [exact R2|exact R3].
Qed.

(** [flush], [sync], [clear], [prepare] change nothing a reader sees *)
Lemma flush_R c f :
  cache_inv c -> R c f ->
  exists c1, flush c = Ok c1 /\ cache_inv c1 /\ R c1 f /\ k_cs c1 = k_cs c /\ k_auto c1 = k_auto c /\ all_clean c1.
Proof.
  intros I HR. destruct (flush_spec c (inv_cs c I) (inv_data c I)) as (c1 & E & D & W & C).
  exists c1. split; [exact E|]. split; [exact (wb_inv _ _ I D W)|]. split; [exact (R_fr _ _ _ (wb_fr _ _ W) HR)|].
  split; [exact (wb_cs _ _ W)|]. split; [exact (wb_auto _ _ W)|exact C].
Qed.

(** after a flush the disk is the flat byte string *)
Lemma clean_disk_is_flat c f : cache_inv c -> R c f -> all_clean c -> k_disk c = f_bytes f.
Proof.
  intros I (R1 & R2 & R3) C. pose proof (inv_cs c I) as Hcs. pose proof (inv_data c I) as D.
  pose proof (all_clean_disk_end _ _ _ _ Hcs D C) as He.
  apply bytes_ext; [unfold f_end in R2; lia|].
  intros p Hp. rewrite R3 by lia. unfold view, viewl.
  destruct (find_idx (chunk_off (k_cs c) p) (k_chunks c)) as [i|] eqn:F; [|reflexivity].
  destruct (find_idx_Some _ _ _ F) as (ch & Hl & Ho). rewrite Hl.
  destruct (chunk_off_range (k_cs c) p Hcs) as [H1 H2].
  destruct (di_clean _ _ _ _ D i ch Hl (C i ch Hl) (p - c_off ch) ltac:(lia) ltac:(lia)) as [_ Hg].
  rewrite Hg. f_equal. lia.
Qed.

Theorem flush_disk_is_flat c f :
  cache_inv c -> R c f ->
  exists c1, flush c = Ok c1 /\ cache_inv c1 /\ R c1 f /\ k_disk c1 = f_bytes f.
Proof.
  intros I HR. destruct (flush_R c f I HR) as (c1 & E & I1 & R1 & _ & _ & C).
  exists c1. split; [exact E|]. split; [exact I1|]. split; [exact R1|]. exact (clean_disk_is_flat c1 f I1 R1 C).
Qed.

Lemma set_events_inv c evs : cache_inv c -> cache_inv (set_disk c (k_disk c) evs).
Proof.
  intros I. constructor; cbn.
  - exact (inv_cs c I).
  - exact (inv_data c I).
  - exact (inv_pos c I).
  - exact (inv_fc c I).
  - exact (inv_len c I).
  - exact (inv_cfg c I).
Qed.

(** [read_fill_buffer] *)
Lemma fill_loop_spec fa fuel f : forall c curr,
  cache_inv c -> R c f -> (2 <= fa)%nat -> (N.to_nat (k_end c - curr) + 2 <= fuel)%nat ->
  exists c1, fill_loop fa fuel c curr = Ok c1 /\ cache_inv c1 /\ R c1 f /\ k_cs c1 = k_cs c /\ k_auto c1 = k_auto c.
Proof.
  induction fuel as [|fuel IH]; intros c curr I HR Hfa Hfuel; [lia|].
  cbn [fill_loop]. destruct (N.ltb_spec curr (k_end c)) as [Hlt|Hge].
  - destruct (fetch_chunk_spec fa c curr I ltac:(lia) Hfa) as (c1 & i & ch & E & I1 & F1 & _ & _).
    rewrite E. cbn [rbind]. pose proof (R_fr _ _ _ F1 HR) as HR1.
    destruct (nchunks c1 <? k_max c1).
    + pose proof (inv_cs c1 I1) as Hcs1.
      destruct (IH c1 (curr + k_cs c1) I1 HR1 Hfa) as (c2 & E2 & I2 & R2 & C2 & A2).
      { rewrite (fr_end _ _ F1). lia. }
      exists c2. split; [exact E2|]. split; [exact I2|]. split; [exact R2|].
      split; [rewrite C2; exact (fr_cs _ _ F1)|rewrite A2; exact (fr_auto _ _ F1)].
    + exists c1. split; [reflexivity|]. split; [exact I1|]. split; [exact HR1|].
      split; [exact (fr_cs _ _ F1)|exact (fr_auto _ _ F1)].
  - exists c. split; [reflexivity|]. split; [exact I|]. split; [exact HR|]. split; reflexivity.
Qed.

(** ** 9. one operation, then any list of operations *)
Definition op_fuel (f : flat) (o : op) : nat :=
  match o with
  | ORead n | OReadPart n | OReadSmall _ _ n => N.to_nat n + 2
  | OWrite b | OWritePart b | OWriteSmall _ b => length b + 2
  | OFill => N.to_nat (f_end f) + 2
  | _ => 2
  end.

Theorem cstep_refines fuel c f o f' r :
  cache_inv c -> R c f -> fstep (k_cs c) f o = Some (f', r) -> (op_fuel f o <= fuel)%nat ->
  exists c', cstep fuel c o = Ok (c', r) /\ cache_inv c' /\ R c' f' /\ k_cs c' = k_cs c /\ k_auto c' = k_auto c.
Proof.
  intros I HR Hstep Hfuel. destruct o as [sf|n|n|chk need n|buf|buf|chk buf| |all|n|off| |];
    cbn [fstep cstep op_fuel] in *.
  - (* seek *)
    destruct (flat_seek f sf) as [[f1 p]|] eqn:Es; [|discriminate]. cbn in Hstep. injection Hstep as <- <-.
    destruct (seek_spec c f sf f1 p I HR Es) as (c' & E & H). exists c'. rewrite E. split; [reflexivity|exact H].
  - (* read_exact *)
    unfold flat_read_exact in Hstep. destruct (N.leb_spec (f_pos f + n) (f_end f)) as [Hn|]; [|discriminate].
    cbn in Hstep. injection Hstep as <- <-.
    destruct (read_exact_spec fuel c f n I HR Hfuel Hn) as (c' & E & H). exists c'. rewrite E. split; [reflexivity|exact H].
  - (* read *)
    unfold flat_read, flat_read_exact in Hstep.
    destruct (N.leb_spec (f_pos f + N.min n (to_boundary (k_cs c) (f_pos f))) (f_end f)) as [Hn|]; [|discriminate].
    cbn in Hstep. injection Hstep as <- <-.
    destruct (read_spec fuel c f n I HR ltac:(lia) Hn) as (c' & E & H). exists c'. rewrite E. split; [reflexivity|exact H].
  - (* small reads *)
    destruct ((chk && (k_cs c <? n)) || (need <? n)) eqn:Hdom; [discriminate|].
    unfold flat_read_exact in Hstep. destruct (N.leb_spec (f_pos f + n) (f_end f)) as [Hn|]; [|discriminate].
    cbn in Hstep. injection Hstep as <- <-.
    destruct (read_small_spec fuel c f chk need n I HR Hfuel Hn Hdom) as (c' & E & H).
    exists c'. rewrite E. split; [reflexivity|exact H].
  - (* write_all *)
    unfold flat_write_all in Hstep. cbn in Hstep. injection Hstep as <- <-.
    destruct (write_all_spec fuel c f buf I HR Hfuel) as (c' & E & H). exists c'. rewrite E. split; [reflexivity|exact H].
  - (* write *)
    unfold flat_write, flat_write_all in Hstep. cbn in Hstep. injection Hstep as <- <-.
    destruct (write_spec fuel c f buf I HR ltac:(lia)) as (c' & E & I' & R' & H).
    exists c'. rewrite E. split; [reflexivity|]. split; [exact I'|]. split; [|exact H].
    rewrite blen_take. replace (N.min (N.min (blen buf) (to_boundary (k_cs c) (f_pos f))) (blen buf))
      with (N.min (blen buf) (to_boundary (k_cs c) (f_pos f))) by lia. exact R'.
  - (* small writes *)
    destruct (chk && (k_cs c <? blen buf)) eqn:Hdom; [discriminate|].
    unfold flat_write_all in Hstep. cbn in Hstep. injection Hstep as <- <-.
    destruct (write_small_spec fuel c f chk buf I HR Hfuel Hdom) as (c' & E & H).
    exists c'. rewrite E. split; [reflexivity|exact H].
  - (* flush *)
    injection Hstep as <- <-. destruct (flush_R c f I HR) as (c1 & E & I1 & R1 & C1 & A1 & _).
    exists c1. rewrite E. split; [reflexivity|]. split; [exact I1|]. split; [exact R1|]. split; assumption.
  - (* sync *)
    injection Hstep as <- <-. destruct (flush_R c f I HR) as (c1 & E & I1 & R1 & C1 & A1 & _).
    unfold sync. rewrite E. cbn [rbind]. eexists. split; [reflexivity|].
    split; [apply set_events_inv; exact I1|]. split; [exact R1|]. split; assumption.
  - (* set_len *)
    unfold flat_set_len in Hstep. destruct (N.ltb_spec n (f_end f)) as [|Hn]; [discriminate|].
    cbn in Hstep. injection Hstep as <- <-.
    destruct (set_len_spec c f n I HR) as (I1 & R1 & H); [rewrite (proj1 (proj2 HR)); exact Hn|].
    eexists. split; [reflexivity|]. split; [exact I1|]. split; [exact R1|exact H].
  - (* prepare *)
    destruct (N.leb_spec off (f_end f)) as [Ho|]; [|discriminate]. injection Hstep as <- <-.
    destruct (fetch_chunk_spec fuel c off I) as (c1 & i & ch & E & I1 & F1 & _); [rewrite (proj1 (proj2 HR)); exact Ho|lia|].
    unfold prepare. rewrite E. cbn [rbind]. exists c1. split; [reflexivity|]. split; [exact I1|].
    split; [exact (R_fr _ _ _ F1 HR)|]. split; [exact (fr_cs _ _ F1)|exact (fr_auto _ _ F1)].
  - (* clear *)
    injection Hstep as <- <-. destruct (clear_spec c I) as (c2 & E & I2 & F2 & _).
    exists c2. rewrite E. split; [reflexivity|]. split; [exact I2|]. split; [exact (R_fr _ _ _ F2 HR)|].
    split; [exact (fr_cs _ _ F2)|exact (fr_auto _ _ F2)].
  - (* read_fill_buffer *)
    injection Hstep as <- <-. destruct HR as (R1 & R2 & R3).
    unfold fill, seek. destruct (N.ltb_spec (k_end c) 0) as [|_]; [lia|]. cbn [rbind].
    rewrite N.sub_0_r. destruct (N.ltb_spec (k_end c) (k_end c)) as [|_]; [lia|].
    assert (I1 : cache_inv (set_pos c (k_end c))) by (apply set_pos_inv; [exact I|lia]).
    assert (HR1 : R (set_pos c (k_end c)) (Flat (f_end f) (f_bytes f))).
    { split; [cbn; exact R2|]. split; [exact R2|exact R3]. }
    destruct (fill_loop_spec fuel fuel _ (set_pos c (k_end c)) 0 I1 HR1 ltac:(lia)) as (c1 & E & H).
    { cbn. rewrite R2. lia. }
    exists c1. rewrite E. split; [reflexivity|exact H].
Qed.

Fixpoint run_fuel (cs : N) (f : flat) (ops : list op) : nat :=
  match ops with
  | [] => 0
  | o :: rest => Nat.max (op_fuel f o)
                   (match fstep cs f o with Some (f1, _) => run_fuel cs f1 rest | None => 0 end)
  end.

Lemma R_logical c f : R c f -> logical c = f_bytes f.
Proof.
  intros (R1 & R2 & R3). apply bytes_ext.
  - unfold logical, blen, seqN'. rewrite !map_length, seq_length. unfold f_end, blen in R2. lia.
  - intros p Hp. unfold logical, blen, seqN' in *. rewrite !map_length, seq_length in Hp.
    rewrite R3 by lia. unfold getb. rewrite nth_lookup, !list_lookup_fmap, lookup_seq_lt by lia.
    cbn. f_equal. lia.
Qed.

(** TRANSPARENCY.  For any chunk size, any configuration accepted by [cfg_ok] (part of
    [cache_inv]) and any operation list inside the domain of the flat model: with at least
    [run_fuel] fuel every operation returns [Ok] with the flat model's result; the invariant
    holds again; what a reader would see is the flat byte string; and a flush then makes the
    disk equal to it. *)
Theorem cache_refines_flat ops : forall fuel c f f' outs,
  cache_inv c -> R c f -> frun (k_cs c) f ops = Some (f', outs) -> (run_fuel (k_cs c) f ops <= fuel)%nat ->
  exists c', crun fuel c ops = Ok (c', outs) /\ cache_inv c' /\ R c' f' /\ logical c' = f_bytes f' /\
    exists c'', flush c' = Ok c'' /\ k_disk c'' = f_bytes f'.
Proof.
  induction ops as [|o rest IH]; intros fuel c f f' outs I HR Hrun Hfuel.
  - cbn in Hrun. injection Hrun as <- <-. exists c. split; [reflexivity|]. split; [exact I|]. split; [exact HR|].
    split; [exact (R_logical c f HR)|]. destruct (flush_disk_is_flat c f I HR) as (c1 & E & _ & _ & Hd).
    exists c1. split; [exact E|exact Hd].
  - cbn [frun] in Hrun. cbn [run_fuel] in Hfuel.
    destruct (fstep (k_cs c) f o) as [[f1 r]|] eqn:Es; [|discriminate]. cbn in Hrun.
    destruct (frun (k_cs c) f1 rest) as [[f2 rs]|] eqn:Er; [|discriminate]. cbn in Hrun. injection Hrun as <- <-.
    destruct (cstep_refines fuel c f o f1 r I HR Es ltac:(lia)) as (c1 & E1 & I1 & R1 & C1 & A1).
    rewrite <- C1 in Er, Hfuel.
    destruct (IH fuel c1 f1 f2 rs I1 R1 Er ltac:(lia)) as (c2 & E2 & H2).
    exists c2. cbn [crun]. rewrite E1. cbn [rbind]. rewrite E2. cbn [rbind]. split; [reflexivity|exact H2].
Qed.

(** ** 10. the invariant holds initially, for every way abyssiniandb opens a file *)
Lemma inv_mk_cache cs maxc auto disk :
  0 < cs -> cfg_ok (mk_cache cs maxc auto disk) ->
  cache_inv (mk_cache cs maxc auto disk) /\ R (mk_cache cs maxc auto disk) (Flat 0 disk).
Proof.
  intros Hcs Hcfg. split.
  - constructor; cbn.
    + exact Hcs.
    + constructor.
      * intros i ch H. discriminate.
      * constructor.
      * intros i ch H. discriminate.
      * intros i ch H. discriminate.
      * lia.
      * intros p H1 H2. lia.
    + lia.
    + intros o i H. discriminate.
    + unfold nchunks. cbn. pose proof (cfg_ok_max1 _ Hcfg) as H. cbn in H. lia.
    + exact Hcfg.
  - split; [reflexivity|]. split; [reflexivity|]. intros p _. reflexivity.
Qed.

Lemma pow2b_pos n : pow2b n = true -> 0 < n.
Proof. unfold pow2b. intros H. apply andb_true_iff in H as [H _]. apply N.ltb_lt in H. exact H. Qed.

Theorem inv_open_cap cs maxc disk c :
  open_cap cs maxc disk = Ok c -> 2 <= maxc -> cache_inv c /\ R c (Flat 0 disk) /\ k_cs c = cs.
Proof.
  unfold open_cap. intros H Hm. destruct (pow2b cs) eqn:Hp; [|discriminate]. cbn [negb] in H.
  destruct (maxc =? 0); [discriminate|]. injection H as <-.
  destruct (inv_mk_cache cs maxc None disk (pow2b_pos _ Hp)) as [I HR]; [exact Hm|].
  split; [exact I|]. split; [exact HR|reflexivity].
Qed.

Theorem inv_open_permille cs pm disk c :
  open_permille cs pm disk = Ok c -> cs <= 32768 \/ 1000 <= pm ->
  cache_inv c /\ R c (Flat 0 disk) /\ k_cs c = cs.
Proof.
  unfold open_permille. intros H Hc. destruct (pow2b cs) eqn:Hp; [|discriminate]. cbn [negb] in H.
  injection H as <-. pose proof (pow2b_pos _ Hp) as Hcs.
  destruct (inv_mk_cache cs (auto_chunks cs pm (blen disk)) (Some pm) disk Hcs) as [I HR].
  { unfold cfg_ok. cbn. split; [apply auto_chunks_ge1|]. split; [|exact Hc].
    intros Hs. apply auto_chunks_ge2; [exact Hcs|]. pose proof (buffer_size_min pm (blen disk)). lia. }
  split; [exact I|]. split; [exact HR|reflexivity].
Qed.

Theorem inv_open_auto disk c : open_auto disk = Ok c -> cache_inv c /\ R c (Flat 0 disk) /\ k_cs c = 4096.
Proof. intros H. apply (inv_open_permille 4096 20 disk c H). left. lia. Qed.

(** [FileBufSizeParam::Size(v)]: at least two chunks, for every [v] (the D5 repair) *)
Theorem size_param_at_least_two v : 2 <= chunks_of_param v.
Proof. unfold chunks_of_param. lia. Qed.

(** every [FileBufSizeParam] except [PerMille(p)] with [p < 1000] satisfies the invariant *)
Theorem inv_open_param b disk c :
  open_param b disk = Ok c -> (forall p, b = BPerMilleP p -> 1000 <= p) ->
  cache_inv c /\ R c (Flat 0 disk).
Proof.
  intros H Hp. destruct b as [v|p|]; cbn [open_param] in H.
  - destruct (inv_open_cap _ _ _ _ H (size_param_at_least_two v)) as (I & HR & _). split; assumption.
  - destruct (inv_open_permille _ _ _ _ H (or_intror (Hp p eq_refl))) as (I & HR & _). split; assumption.
  - destruct (inv_open_auto _ _ H) as (I & HR & _). split; assumption.
Qed.

(** chunk 0 is pinned: [clear] keeps exactly it *)
Lemma clear_keeps_zero c i :
  cache_inv c -> find_idx 0 (k_chunks c) = Some i ->
  exists c2 ch, clear c = Ok c2 /\ k_chunks c2 = [ch] /\ c_off ch = 0.
Proof.
  intros I F. destruct (flush_spec c (inv_cs c I) (inv_data c I)) as (c1 & E & D & W & C).
  unfold clear. rewrite E. cbn [rbind].
  rewrite <- (find_idx_ext 0 _ _ (wb_offs _ _ W)) in F. rewrite F.
  destruct (find_idx_Some _ _ _ F) as (ch & Hl & Ho). rewrite Hl.
  eexists. exists ch. split; [reflexivity|]. split; [reflexivity|exact Ho].
Qed.

(** ** 11. the defect D5 / D8: one chunk allowed, chunk 0 held *)
Definition single_pinned (c : cache) : Prop :=
  (exists ch, k_chunks c = [ch] /\ c_off ch = 0) /\ k_max c = 1 /\
  (forall pm, k_auto c = Some pm -> auto_chunks (k_cs c) pm (k_end c) <= 1).

Lemma setup_auto_single c : single_pinned c -> setup_auto c = c.
Proof.
  intros ((ch & Hc & _) & _ & Ha). unfold setup_auto. destruct (k_auto c) as [pm|]; [|reflexivity].
  specialize (Ha pm eq_refl). unfold nchunks. rewrite Hc. cbn [length].
  destruct (N.ltb_spec (N.of_nat 1) (auto_chunks (k_cs c) pm (k_end c))); [lia|reflexivity].
Qed.

Lemma remove_chunks_single c :
  single_pinned c -> exists c3, remove_chunks (set_fc c None) = Ok c3 /\ single_pinned c3.
Proof.
  intros S. pose proof S as ((ch & Hc & Ho) & Hm & Ha).
  unfold remove_chunks, clear, flush. cbn [set_fc k_chunks]. rewrite Hc.
  change (flush_order [ch]) with [0%nat]. cbn [flush_list].
  assert (Hw : exists c1 ch1, chunk_write (set_fc c None) 0 = Ok c1 /\ k_chunks c1 = [ch1] /\ c_off ch1 = 0 /\
             k_max c1 = 1 /\ k_auto c1 = k_auto c /\ k_cs c1 = k_cs c /\ k_end c1 = k_end c).
  { unfold chunk_write. cbn [set_fc k_chunks]. rewrite Hc. cbn [lookup list_lookup].
    destruct (negb (c_dirty ch)).
    - eexists. exists ch. split; [reflexivity|]. cbn. repeat split; assumption.
    - destruct (k_end (set_fc c None) <? c_off ch).
      + eexists. exists ch. split; [reflexivity|]. cbn. repeat split; assumption.
      + eexists. eexists. split; [reflexivity|]. cbn. repeat split; assumption. }
  destruct Hw as (c1 & ch1 & E1 & K1 & O1 & M1 & A1 & C1 & E1').
  cbn [set_fc] in E1. rewrite E1. cbn [rbind]. rewrite K1. cbn [find_idx]. rewrite O1. cbn [N.eqb lookup list_lookup].
  set (c2 := set_chunks (set_fc c1 None) [ch1]).
  assert (S2 : single_pinned c2).
  { split; [exists ch1; split; [reflexivity|exact O1]|]. split; [exact M1|].
    cbn. intros pm Hpm. rewrite C1, E1'. apply Ha. rewrite <- A1. exact Hpm. }
  exists c2. rewrite (setup_auto_single c2 S2). split; [reflexivity|exact S2].
Qed.

(** [add_chunk] exhausts ANY fuel: the real function recurses until the stack overflows *)
Theorem single_chunk_diverges : forall fuel c off, single_pinned c -> add_chunk fuel c off = OutOfFuel.
Proof.
  induction fuel as [|fuel IH]; intros c off S; [reflexivity|].
  pose proof S as ((ch & Hc & Ho) & Hm & Ha).
  assert (Hn : nchunks c = 1) by (unfold nchunks; rewrite Hc; reflexivity).
  cbn [add_chunk].
  replace (if nchunks c =? k_max c then setup_auto c else c) with c
    by (rewrite (setup_auto_single c S); destruct (nchunks c =? k_max c); reflexivity).
  change (nchunks (set_fc c None)) with (nchunks c). change (k_max (set_fc c None)) with (k_max c).
  rewrite Hn, Hm. change (1 <? 1) with false. cbn iota.
  destruct (remove_chunks_single c S) as (c3 & E3 & S3). rewrite E3. cbn [rbind]. apply IH. exact S3.
Qed.

(** any access to another chunk, through the public API *)
Theorem single_chunk_fetch_diverges fuel c p :
  single_pinned c -> 0 < k_cs c -> k_cs c <= p -> k_fc c = None \/ k_fc c = Some (0, 0%nat) ->
  fetch_chunk fuel c p = OutOfFuel.
Proof.
  intros S Hcs Hp Hfc. pose proof S as ((ch & Hc & Ho) & _).
  assert (Hoff : chunk_off (k_cs c) p <> 0).
  { unfold chunk_off. pose proof (N.div_str_pos p (k_cs c) ltac:(lia)). nia. }
  unfold fetch_chunk. rewrite Hc. cbn [find_idx]. rewrite Ho.
  destruct (N.eqb_spec 0 (chunk_off (k_cs c) p)) as [E|_]; [congruence|].
  rewrite (single_chunk_diverges fuel c _ S). cbn [rbind].
  destruct Hfc as [->| ->]; [reflexivity|].
  destruct (N.eqb_spec 0 (chunk_off (k_cs c) p)) as [E|_]; [congruence|reflexivity].
Qed.

Corollary single_chunk_access_diverges fuel c n buf :
  single_pinned c -> 0 < k_cs c -> k_cs c <= k_pos c -> k_fc c = None \/ k_fc c = Some (0, 0%nat) ->
  0 < n -> buf <> [] ->
  cstep fuel c (ORead n) = OutOfFuel /\ cstep fuel c (OWrite buf) = OutOfFuel /\
  cstep fuel c (OPrepare (k_pos c)) = OutOfFuel.
Proof.
  intros S Hcs Hp Hfc Hn Hb.
  pose proof (single_chunk_fetch_diverges fuel c (k_pos c) S Hcs Hp Hfc) as F.
  split; [|split].
  - cbn [cstep]. unfold read_exact. destruct fuel as [|f]; [reflexivity|]. cbn [read_loop].
    destruct (N.eqb_spec n 0); [lia|]. unfold read. rewrite F. reflexivity.
  - cbn [cstep]. unfold write_all. destruct fuel as [|f]; [reflexivity|]. cbn [write_loop].
    destruct buf; [congruence|]. unfold write. rewrite F. reflexivity.
  - cbn [cstep]. unfold prepare. rewrite F. reflexivity.
Qed.

(** which parameters give a single chunk: the per-mille rule below 1000 *)
Theorem permille_single_chunk cs p fsz :
  0 < cs -> p < 1000 -> 32768 < cs -> (fsz / 1000) * p < cs -> auto_chunks cs p fsz = 1.
Proof.
  intros Hcs Hp H1 H2.
  assert (Hb : buffer_size p fsz < cs).
  { unfold buffer_size. destruct (0 <? p); [|lia]. destruct (N.leb_spec 1000 p); [lia|]. cbn zeta.
    destruct (32768 <? fsz / 1000 * p); lia. }
  unfold auto_chunks. rewrite (N.div_small _ _ Hb). reflexivity.
Qed.

Theorem permille_full_never_single cs p fsz : 0 < cs -> 1000 <= p -> cs <= fsz -> 2 <= auto_chunks cs p fsz.
Proof. intros Hcs Hp Hf. apply auto_chunks_ge2; [exact Hcs|]. pose proof (buffer_size_full p fsz Hp). lia. Qed.

Theorem auto_never_single fsz : 9 <= auto_chunks 4096 20 fsz.
Proof.
  unfold auto_chunks. pose proof (buffer_size_min 20 fsz) as H.
  pose proof (N.div_le_mono 32768 (buffer_size 20 fsz) 4096 ltac:(lia) H) as H1.
  change (32768 / 4096) with 8 in H1. lia.
Qed.

(** the configuration of the known finding D8: [PerMille(p)], [p < 1000], on a file that has
    outgrown one chunk while [(size / 1000) * p] is still below one chunk *)
Theorem d8_opens_with_one_chunk p disk :
  p < 1000 -> (blen disk / 1000) * p < aby_chunk_size ->
  exists c, open_param (BPerMilleP p) disk = Ok c /\ k_max c = 1.
Proof.
  intros Hp Hs. eexists. split; [reflexivity|]. cbn.
  apply permille_single_chunk; [reflexivity|exact Hp|reflexivity|exact Hs].
Qed.

(** ** 12. the flush goes out in ascending offset order *)
Theorem flush_ascending (l : list chunk) :
  StronglySorted (fun a b => fst a <= fst b) (sort_pairs (enum_from 0 l)) /\
  flush_order l ≡ₚ seq 0 (length l).
Proof. split; [apply sort_pairs_sorted|apply flush_order_perm]. Qed.

(** ** 13. non-vacuity: concrete runs by [vm_compute] *)
Definition obs (r : res (cache * list out)) :=
  match r with
  | Ok (c, o) => Some (o, k_disk c, rev (k_events c), map (fun ch => (c_off ch, c_dirty ch)) (k_chunks c), k_max c)
  | _ => None
  end.

(** chunk size 8, two chunks: a write that straddles chunks 0 and 1, a seek past the end (the
    file is extended on the disk), a write into chunk 2 that evicts (everything is written back,
    chunk 0 stays), a read back across all three chunks (re-fetching chunk 1), a flush. *)
Definition ops1 : list op :=
  [OWrite [1;2;3;4;5;6;7;8;9;10;11;12]; OSeek (SeekStart 4); ORead 6; OSeek (SeekStart 20);
   OWrite [170;187]; OSeek (SeekStart 0); ORead 22; OFlush].
Definition img1 : bytes := [1;2;3;4;5;6;7;8;9;10;11;12;0;0;0;0;0;0;0;0;170;187].
Definition outs1 : list out :=
  [RUnitC; RPos 4; RData [5;6;7;8;9;10]; RPos 20; RUnitC; RPos 0; RData img1; RUnitC].

Example ex_cache_run :
  obs (crun 24 (mk_cache 8 2 None []) ops1) =
  Some (outs1, img1, [EvSetLen 20; EvWrite 0 8; EvWrite 8 8; EvWrite 16 6], [(0, false); (16, false)], 2).
Proof. vm_compute. reflexivity. Qed.

Example ex_flat_run : frun 8 (Flat 0 []) ops1 = Some (Flat 22 img1, outs1) /\ run_fuel 8 (Flat 0 []) ops1 = 24%nat.
Proof. split; vm_compute; reflexivity. Qed.

(** the theorem applies to this run (its hypotheses are satisfiable) *)
Example ex_theorem_applies :
  exists c', crun 24 (mk_cache 8 2 None []) ops1 = Ok (c', outs1) /\ cache_inv c' /\ logical c' = img1.
Proof.
  destruct (inv_mk_cache 8 2 None [] eq_refl) as [I HR]; [unfold cfg_ok; cbn; lia|].
  destruct (cache_refines_flat ops1 24 _ _ _ _ I HR (proj1 ex_flat_run)) as (c' & E & I' & _ & L & _).
  { cbn [k_cs mk_cache]. rewrite (proj2 ex_flat_run). lia. }
  exists c'. split; [exact E|]. split; [exact I'|exact L].
Qed.

(** the auto mode: chunks of 32 KiB, per-mille 1000: the maximum grows with the file (2 -> 4),
    nothing is ever evicted; per-mille 500: the maximum stays 2, the file is evicted chunk by chunk *)
Definition obs_len (r : res (cache * list out)) :=
  match r with
  | Ok (c, o) => Some (map (fun x => match x with RData b => RCount (blen b) | y => y end) o, blen (k_disk c),
                       rev (k_events c), map (fun ch => (c_off ch, c_dirty ch)) (k_chunks c), k_max c)
  | _ => None
  end.

Example ex_permille_grows :
  auto_chunks 32768 1000 0 = 2 /\
  obs_len (crun (N.to_nat 100010) (mk_cache 32768 (auto_chunks 32768 1000 0) (Some 1000) [])
             [OWrite (zeros 100000); OSeek (SeekStart 3); ORead 70000]) =
  Some ([RUnitC; RPos 3; RCount 70000], 0, [], [(0, true); (32768, true); (65536, true); (98304, true)], 4).
Proof. split; vm_compute; reflexivity. Qed.

Example ex_permille_evicts :
  obs_len (crun (N.to_nat 100010) (mk_cache 32768 (auto_chunks 32768 500 0) (Some 500) [])
             [OWrite (zeros 100000); OSeek (SeekStart 3); ORead 70000]) =
  Some ([RUnitC; RPos 3; RCount 70000], 100000,
        [EvWrite 0 32768; EvWrite 32768 32768; EvWrite 65536 32768; EvWrite 98304 1696],
        [(0, false); (65536, false)], 2).
Proof. vm_compute. reflexivity. Qed.

(** the defect, small: one chunk of 16 bytes; the second write needs chunk 1 *)
Example ex_single_chunk_small :
  obs (crun 60 (mk_cache 16 1 None []) [OWrite (zeros 16)]) = Some ([RUnitC], [], [], [(0, true)], 1) /\
  crun 1000 (mk_cache 16 1 None []) [OWrite (zeros 16); OWrite [1]] = OutOfFuel.
Proof. split; vm_compute; reflexivity. Qed.

(** the defect with the arguments abyssiniandb computes for [PerMille(500)] on a new file: one
    chunk of 128 KiB; after 131072 bytes the next byte needs chunk 1 - for EVERY fuel *)
Example ex_d8_which_parameters :
  auto_chunks 131072 500 0 = 1 /\ auto_chunks 131072 500 262143 = 1 /\ auto_chunks 131072 500 263000 = 2 /\
  auto_chunks 131072 999 131999 = 1 /\ auto_chunks 131072 999 132000 = 2 /\
  auto_chunks 131072 1000 131071 = 1 /\ auto_chunks 131072 1000 131072 = 2 /\ auto_chunks 4096 20 0 = 9 /\
  chunks_of_param 0 = 2 /\ chunks_of_param 131072 = 2 /\ chunks_of_param 1048576 = 8.
Proof. vm_compute. repeat split; reflexivity. Qed.

Definition d8_state : option cache :=
  match open_param (BPerMilleP 500) [] with
  | Ok c => match cstep (N.to_nat 131080) c (OWrite (zeros 131072)) with Ok (c1, _) => Some c1 | _ => None end
  | _ => None
  end.

Lemma d8_fields_single (c1 : cache) :
  (k_max c1, map c_off (k_chunks c1), k_fc c1, k_pos c1, k_cs c1, k_auto c1, k_end c1)
  = (1, [0], Some (0, 0%nat), 131072, 131072, Some 500, 131072) -> single_pinned c1.
Proof.
  intros Hs. injection Hs as H1 H2 H3 H4 H5 H6 H7.
  split; [|split; [exact H1|]].
  - destruct (k_chunks c1) as [|ch [|ch2 l]]; cbn in H2; try discriminate.
    injection H2 as H2. exists ch. split; [reflexivity|exact H2].
  - intros pm Hpm. rewrite H6 in Hpm. injection Hpm as <-. rewrite H5, H7. vm_compute. discriminate.
Qed.

Example ex_d8_real_sizes :
  exists c1, d8_state = Some c1 /\
    forall fuel, cstep fuel c1 (OWrite [1; 2]) = OutOfFuel /\ cstep fuel c1 (ORead 1) = OutOfFuel.
Proof.
  assert (Hsome : match d8_state with Some _ => true | None => false end = true) by (vm_compute; reflexivity).
  destruct d8_state as [c1|] eqn:E; [clear Hsome|discriminate].
  exists c1. split; [reflexivity|]. intros fuel.
  assert (Hs : (k_max c1, map c_off (k_chunks c1), k_fc c1, k_pos c1, k_cs c1, k_auto c1, k_end c1)
               = (1, [0], Some (0, 0%nat), 131072, 131072, Some 500, 131072)).
  { assert (H : (c2 ← d8_state; Some (k_max c2, map c_off (k_chunks c2), k_fc c2, k_pos c2, k_cs c2, k_auto c2, k_end c2))
               = Some (1, [0], Some (0, 0%nat), 131072, 131072, Some 500, 131072)) by (vm_compute; reflexivity).
    rewrite E in H. cbn [mbind option_bind] in H. congruence. }
  pose proof (d8_fields_single c1 Hs) as S.
  injection Hs as H1 H2 H3 H4 H5 H6 H7.
  destruct (single_chunk_access_diverges fuel c1 1 [1; 2] S) as (A & B & _);
    [rewrite H5; reflexivity|rewrite H5, H4; reflexivity|right; exact H3|reflexivity|discriminate|].
  split; [exact B|exact A].
Qed.

(** OUTSIDE the domain: a shrinking [set_len] leaves the cut-off bytes in the cached chunks.
    Growing again shows them - which ones depends on what is cached: with 2 chunks, bytes 17..32
    were evicted and read as zeros, 11..16 and 33..40 come back; with 8 chunks all of 11..40
    come back.  A plain file shows zeros from byte 11 on. *)
Definition ops_shrink : list op :=
  [OWrite (seqN' 1 40); OSetLen 10; OSetLen 40; OSeek (SeekStart 0); ORead 40].

Example shrink_not_transparent :
  (snd <$> obs (crun 60 (mk_cache 16 2 None []) ops_shrink)) = Some 2 /\
  (snd <$> obs (crun 60 (mk_cache 16 8 None []) ops_shrink)) = Some 8 /\
  (nth 4 (fst (fst (fst (fst (default ([], [], [], [], 0) (obs (crun 60 (mk_cache 16 2 None []) ops_shrink))))))) RUnitC
   = RData (seqN' 1 16 ++ zeros 16 ++ seqN' 33 8)) /\
  (nth 4 (fst (fst (fst (fst (default ([], [], [], [], 0) (obs (crun 60 (mk_cache 16 8 None []) ops_shrink))))))) RUnitC
   = RData (seqN' 1 40)) /\
  frun 16 (Flat 0 []) ops_shrink = None.
Proof. vm_compute. repeat split; reflexivity. Qed.
