(** * Bounded: property C06, second half - "a file is extended only when no free slot of a
    suitable size exists.  Hence file sizes stay bounded for any workload whose live set stays
    bounded, however many operations it performs."

    1. counting slots by size ([n_eq], [n_ge], [u_eq], [u_ge]);
    2. the allocator: one call either keeps every slot size and the file length, or appends
       exactly one slot of the rounded size [nsz] - and then no free slot could have served the
       request ([astep]); [fend] is the header plus the sum of the slot sizes;
    3. the slots in use are in bijection with the live entries;
    4. histories: per size the number of slots never exceeds max(start, peak live count); the file
       lengths are bounded by an explicit function that does not mention the number of operations;
    5. computed examples, and computed counterexamples to the "at least y" variant. *)
From Coq Require Import Lia ZifyN ZifyNat ZifyBool.
From Aby Require Import Base Vu64 Vu64_proofs Hash KeyTypes Consts Sizing Sizing_proofs Alloc AllocInv
  AllocInv_proofs Htx Htx_proofs Store Spec Refine Refine_relink Refine_all Stats_proofs Load_proofs.

(** ** 1. Counting *)

Definition b2n (b : bool) : nat := if b then 1%nat else 0%nat.

Section cnt.
Context {A : Type}.
Implicit Types (q : A -> bool) (m : gmap N A).

Definition cnt q m : nat := size (filter (fun oa : N * A => q oa.2 = true) m).

Lemma cnt_empty q : cnt q ∅ = 0%nat.
Proof. unfold cnt. rewrite map_filter_empty. apply map_size_empty. Qed.

Lemma cnt_insert_None q m k a : m !! k = None -> cnt q (<[k := a]> m) = (cnt q m + b2n (q a))%nat.
Proof.
  intros Hk. unfold cnt. destruct (q a) eqn:E; cbn [b2n].
  - rewrite map_filter_insert_True by exact E.
    rewrite map_size_insert_None; [lia|]. apply map_filter_lookup_None. by left.
  - rewrite map_filter_insert_not'; [lia | cbn; congruence |].
    intros y Hy. congruence.
Qed.

Lemma cnt_insert_Some q m k a0 a : m !! k = Some a0 ->
  (cnt q (<[k := a]> m) + b2n (q a0) = cnt q m + b2n (q a))%nat.
Proof.
  intros Hk.
  rewrite <- (insert_delete_insert m k a).
  rewrite <- (insert_id m k a0 Hk) at 2. rewrite <- (insert_delete_insert m k a0).
  rewrite !cnt_insert_None by apply lookup_delete. lia.
Qed.

Lemma cnt_ext q q' m : (forall k a, m !! k = Some a -> q a = q' a) -> cnt q m = cnt q' m.
Proof.
  intros H. unfold cnt. f_equal. apply map_filter_ext. intros k a Hk. cbn. by rewrite (H k a Hk).
Qed.

Lemma cnt_le q q' m : (forall k a, m !! k = Some a -> q a = true -> q' a = true) ->
  (cnt q m <= cnt q' m)%nat.
Proof.
  induction m as [|k a m Hk IH] using map_ind; intros H.
  - by rewrite !cnt_empty.
  - rewrite !cnt_insert_None by done.
    assert (cnt q m <= cnt q' m)%nat as Hle.
    { apply IH. intros k' a' Hk'. apply (H k' a'). rewrite lookup_insert_ne; [done|]. congruence. }
    pose proof (H k a (lookup_insert _ _ _)) as Ha.
    destruct (q a); cbn [b2n]; [rewrite Ha by done; cbn [b2n]|]; lia.
Qed.

(** splitting a count along a second predicate *)
Lemma cnt_split q r m :
  cnt q m = (cnt (fun a => q a && r a) m + cnt (fun a => q a && negb (r a)) m)%nat.
Proof.
  induction m as [|k a m Hk IH] using map_ind.
  - by rewrite !cnt_empty.
  - rewrite !cnt_insert_None by done. rewrite IH. destruct (q a), (r a); cbn; lia.
Qed.

Lemma cnt_le_size q m : (cnt q m <= size m)%nat.
Proof.
  induction m as [|k a m Hk IH] using map_ind.
  - by rewrite cnt_empty.
  - rewrite cnt_insert_None, map_size_insert_None by done. destruct (q a); cbn [b2n]; lia.
Qed.

End cnt.

(** counting through a projection *)
Lemma cnt_fmap {A B} (h : A -> B) (g : B -> bool) (m : gmap N A) :
  cnt g (h <$> m) = cnt (fun a => g (h a)) m.
Proof.
  induction m as [|k a m Hk IH] using map_ind.
  - by rewrite fmap_empty, !cnt_empty.
  - rewrite fmap_insert, !cnt_insert_None by (done || by rewrite lookup_fmap, Hk). by rewrite IH.
Qed.

Lemma cnt_omap {A B} (h : A -> option B) (m : gmap N A) :
  size (omap h m) = cnt (fun a => bool_decide (is_Some (h a))) m.
Proof.
  induction m as [|k a m Hk IH] using map_ind.
  - by rewrite omap_empty, cnt_empty, map_size_empty.
  - rewrite cnt_insert_None by done. rewrite omap_insert.
    assert (omap h m !! k = None) as Hn by (by rewrite lookup_omap, Hk).
    destruct (h a) as [b|] eqn:E.
    + rewrite map_size_insert_None by done. rewrite bool_decide_eq_true_2 by eauto. cbn [b2n]. lia.
    + rewrite delete_notin by done. rewrite bool_decide_eq_false_2 by (intros [? ?]; done).
      cbn [b2n]. lia.
Qed.

Definition is_used {P} (s : slot P) : bool := match s with Used _ _ => true | Free _ _ => false end.

(** a predicate on slots that only looks at the size *)
Definition szp {P} (g : N -> bool) : slot P -> bool := fun s => g (slot_size s).
(** ... and only counts slots in use *)
Definition uszp {P} (g : N -> bool) : slot P -> bool := fun s => is_used s && g (slot_size s).

(** the number of slots (in use or free) of size exactly [y] / of size at least [y]; the same
    counting only slots in use; the number of free slots whose size is in [y, z) *)
Definition n_eq {P} (y : N) (f : pfile P) : nat := cnt (szp (fun z => z =? y)) (slots f).
Definition n_ge {P} (y : N) (f : pfile P) : nat := cnt (szp (fun z => y <=? z)) (slots f).
Definition u_eq {P} (y : N) (f : pfile P) : nat := cnt (uszp (fun z => z =? y)) (slots f).
Definition u_ge {P} (y : N) (f : pfile P) : nat := cnt (uszp (fun z => y <=? z)) (slots f).
Definition free_in {P} (y z : N) (f : pfile P) : nat :=
  cnt (fun s => negb (is_used s) && ((y <=? slot_size s) && (slot_size s <? z))) (slots f).

Lemma used_size_cnt {P} (f : pfile P) : size (used f) = cnt is_used (slots f).
Proof.
  unfold used. rewrite cnt_omap. apply cnt_ext. intros k [sz p|sz nxt] _; cbn [is_used].
  - apply bool_decide_eq_true_2. eauto.
  - apply bool_decide_eq_false_2. intros [? ?]; done.
Qed.

Lemma uszp_le_used {P} g (f : pfile P) : (cnt (uszp g) (slots f) <= size (used f))%nat.
Proof.
  rewrite used_size_cnt. apply cnt_le. intros k a _. unfold uszp. by intros [? _]%andb_prop.
Qed.

Lemma u_eq_le_u_ge {P} y (f : pfile P) : (u_eq y f <= u_ge y f)%nat.
Proof.
  apply cnt_le. intros k a _. unfold uszp. intros [Hu He]%andb_prop. rewrite Hu. cbn. lia.
Qed.
Lemma u_ge_le_used {P} y (f : pfile P) : (u_ge y f <= size (used f))%nat.
Proof. apply uszp_le_used. Qed.
Lemma u_eq_le_used {P} y (f : pfile P) : (u_eq y f <= size (used f))%nat.
Proof. apply uszp_le_used. Qed.
Lemma u_eq_le_n_eq {P} y (f : pfile P) : (u_eq y f <= n_eq y f)%nat.
Proof. apply cnt_le. intros k a _. unfold uszp, szp. by intros [_ ?]%andb_prop. Qed.
Lemma u_ge_le_n_ge {P} y (f : pfile P) : (u_ge y f <= n_ge y f)%nat.
Proof. apply cnt_le. intros k a _. unfold uszp, szp. by intros [_ ?]%andb_prop. Qed.
Lemma n_eq_le_n_ge {P} y (f : pfile P) : (n_eq y f <= n_ge y f)%nat.
Proof. apply cnt_le. intros k a _. unfold szp. lia. Qed.

(** files with the same slot sizes have the same size counts *)
Lemma same_sizes_cnt {P} (f f' : pfile P) g :
  same_sizes f f' -> cnt (szp g) (slots f') = cnt (szp g) (slots f).
Proof.
  intros [_ Hss]. unfold szp.
  rewrite <- (cnt_fmap slot_size g (slots f')), <- (cnt_fmap slot_size g (slots f)).
  f_equal. apply map_eq. intros o. rewrite !lookup_fmap. apply Hss.
Qed.

(** ** 2. The allocator *)

Section alloc_steps.
Context {P : Type} (c : pcfg) (Hc : cfg_ok c).
Implicit Types (f : pfile P).

(** *** what the allocator code does to the slot sizes (no invariant needed) *)

Lemma ss_refl f : same_sizes f f.
Proof. by split. Qed.

Lemma ss_trans f1 f2 f3 : same_sizes f1 f2 -> same_sizes f2 f3 -> same_sizes f1 f3.
Proof. intros [H1 H2] [H3 H4]. split; [congruence|]. intros o. by rewrite H4, H2. Qed.

Lemma ss_set_head f i v : same_sizes f (set_head f i v).
Proof. by split. Qed.

Lemma ss_set_slot f off s :
  slot_size <$> (slots f !! off) = Some (slot_size s) -> same_sizes f (set_slot f off s).
Proof.
  intros H. split; [done|]. intros o. cbn [set_slot slots].
  destruct (decide (o = off)) as [-> | Hne]; [by rewrite lookup_insert, H | by rewrite lookup_insert_ne].
Qed.

Lemma ss_insert f off s hd :
  slot_size <$> (slots f !! off) = Some (slot_size s) ->
  same_sizes f (PFile (<[off := s]> (slots f)) hd (fend f)).
Proof.
  intros H. split; [done|]. intros o. cbn [slots].
  destruct (decide (o = off)) as [-> | Hne]; [by rewrite lookup_insert, H | by rewrite lookup_insert_ne].
Qed.

Lemma read_free_inv f o sz nxt : read_free f o = Ok (sz, nxt) -> slots f !! o = Some (Free sz nxt).
Proof.
  unfold read_free. destruct (slots f !! o) as [[? ?|sz' nxt']|]; try done. by intros [= -> ->].
Qed.

Lemma push_free_ss f off osz f1 :
  slot_size <$> (slots f !! off) = Some osz -> push_free c f off osz = Ok f1 -> same_sizes f f1.
Proof.
  intros Hs. unfold push_free. destruct (off =? 0); [intros [= <-]; apply ss_refl|].
  destruct (class_idx c osz) as [i| | |]; cbn [rbind]; try done.
  intros [= <-]. by apply ss_insert.
Qed.

Lemma delete_piece_ss f off f' : delete_piece c f off = Ok f' -> same_sizes f f'.
Proof.
  unfold delete_piece, read_size. destruct (slots f !! off) as [s|] eqn:E; cbn [rbind]; [|done].
  apply push_free_ss. by rewrite E.
Qed.

Lemma pop_large_shape fuel : forall f nsz i prev curr f2 foff fsz,
  pop_large fuel f nsz i prev curr = Ok (f2, foff, fsz) ->
  same_sizes f f2 /\ (foff = 0 -> f2 = f) /\
  (foff <> 0 -> slot_size <$> (slots f2 !! foff) = Some fsz).
Proof.
  induction fuel as [|fuel IH]; intros f nsz i prev curr f2 foff fsz; cbn [pop_large]; [done|].
  destruct (N.eqb_spec curr 0) as [-> | Hcurr].
  { intros [= <- <- <-]. split; [apply ss_refl|]. split; done. }
  destruct (read_free f curr) as [[sz nxt]| | |] eqn:Hrd; cbn [rbind]; try done.
  apply read_free_inv in Hrd.
  destruct (nsz <=? sz); [|apply IH].
  match goal with |- (rbind ?X _ = _) -> _ => destruct X as [f1| | |] eqn:Hf1 end; cbn [rbind]; try done.
  intros [= <- <- <-].
  assert (same_sizes f f1) as Hss1.
  { destruct (prev =? 0); [injection Hf1 as <-; apply ss_set_head|].
    destruct (read_free f prev) as [[psz pn]| | |] eqn:Hrp; cbn [rbind] in Hf1; try done.
    apply read_free_inv in Hrp. injection Hf1 as <-. apply ss_set_slot. by rewrite Hrp. }
  split.
  - eapply ss_trans; [exact Hss1|]. apply ss_set_slot. destruct Hss1 as [_ ->]. by rewrite Hrd.
  - split; [done|]. intros _. cbn [set_slot slots]. by rewrite lookup_insert.
Qed.

Lemma pop_free_shape f nsz f2 foff fsz :
  pop_free c f nsz = Ok (f2, foff, fsz) ->
  same_sizes f f2 /\ (foff = 0 -> f2 = f) /\
  (foff <> 0 -> slot_size <$> (slots f2 !! foff) = Some fsz).
Proof.
  unfold pop_free. destruct (class_idx c nsz) as [i| | |]; cbn [rbind]; try done.
  destruct (negb (is_large c nsz)); [|apply pop_large_shape].
  destruct (N.eqb_spec (head_of f i) 0) as [Hz | Hnz].
  { intros [= <- <- <-]. split; [apply ss_refl|]. split; done. }
  destruct (read_free f (head_of f i)) as [[sz nxt]| | |] eqn:Hrd; cbn [rbind]; try done.
  apply read_free_inv in Hrd. intros [= <- <- <-].
  split; [apply ss_insert; by rewrite Hrd|]. split; [done|].
  intros _. cbn [slots]. by rewrite lookup_insert.
Qed.

(** [alloc]: append one slot of size [nsz] to the unchanged file, or overwrite a slot *)
Lemma alloc_shape f nsz p f' off sz :
  alloc c f nsz p = Ok (f', off, sz) ->
  (f' = PFile (<[fend f := Used nsz p]> (slots f)) (heads f) (fend f + nsz)) \/
  (exists f2 fsz, same_sizes f f2 /\ slot_size <$> (slots f2 !! off) = Some fsz /\
     sz = N.max fsz nsz /\ f' = set_slot f2 off (Used sz p)).
Proof.
  unfold alloc. destruct (pop_free c f nsz) as [[[f2 foff] fsz]| | |] eqn:Hpop; cbn [rbind]; try done.
  destruct (pop_free_shape _ _ _ _ _ Hpop) as (Hss & Hz & Hnz).
  destruct (N.eqb_spec foff 0) as [-> | Hne].
  - rewrite (Hz eq_refl). intros [= <- <- <-]. by left.
  - intros [= <- <- <-]. right. exists f2, fsz. auto.
Qed.

(** *** one allocator call, seen from the counts: either nothing changes (sizes and file length),
    or the file grows by one slot of the rounded size [nsz] and, afterwards, no free slot could
    serve a request of size [nsz] *)
Definition astep (f f' : pfile P) (nsz : N) : Prop :=
  (fend f' = fend f /\ forall g, cnt (szp g) (slots f') = cnt (szp g) (slots f)) \/
  (fend f' = fend f + nsz /\
   (forall g, cnt (szp g) (slots f') = (cnt (szp g) (slots f) + b2n (g nsz))%nat) /\
   no_suitable_free c f' nsz).

Lemma astep_same f f' nsz : same_sizes f f' -> astep f f' nsz.
Proof. intros Hss. left. split; [apply Hss|]. intros g. by apply same_sizes_cnt. Qed.

Lemma astep_ss_l f0 f f' nsz : same_sizes f0 f -> astep f f' nsz -> astep f0 f' nsz.
Proof.
  intros Hss [[Hfe Hc'] | (Hfe & Hc' & Hns)].
  - left. split; [destruct Hss; congruence|]. intros g. by rewrite Hc', (same_sizes_cnt f0 f).
  - right. split; [destruct Hss; congruence|]. split; [|done].
    intros g. by rewrite Hc', (same_sizes_cnt f0 f).
Qed.

Lemma alloc_astep f frees nsz p f' off sz :
  alloc_inv c f frees -> valid_slot_size c nsz -> alloc c f nsz p = Ok (f', off, sz) ->
  alloc_post c f nsz p f' off sz /\ astep f f' nsz.
Proof.
  intros Hi Hv Ha.
  destruct (alloc_ok c Hc f frees nsz p Hi Hv) as (f1 & off1 & sz1 & Ha1 & Hpost).
  rewrite Ha in Ha1. injection Ha1 as <- <- <-. split; [exact Hpost|].
  destruct Hpost as (_ & _ & Hs' & _ & Hcase & _).
  pose proof (valid_slot_size_facts c Hc _ Hv) as [Hn16 _].
  destruct (alloc_shape _ _ _ _ _ _ Ha) as [Hf' | (f2 & fsz & Hss & Hsl & Hsz & Hf')].
  - (* appended *)
    destruct Hcase as [(_ & Hfe & _) | (_ & _ & Hfe & Hns)].
    { rewrite Hf' in Hfe. cbn [fend] in Hfe. lia. }
    right. split; [done|]. pose proof (inv_fend_none c Hc _ _ Hi) as Hnone. split.
    + intros g. rewrite Hf'. cbn [slots]. by rewrite cnt_insert_None.
    + intros o sz0 nxt. rewrite Hf'. cbn [slots]. rewrite lookup_insert_Some.
      intros [[_ ?] | [_ Ho]]; [done|]. exact (Hns _ _ _ Ho).
  - (* a free slot re-used: its size is kept *)
    destruct Hcase as [((nxt & Hfree) & Hfe & _) | (_ & _ & Hfe & _)].
    2:{ rewrite Hf' in Hfe. cbn [set_slot fend] in Hfe. destruct Hss as [Hss _]. lia. }
    apply astep_same. eapply ss_trans; [exact Hss|]. rewrite Hf'. apply ss_set_slot.
    cbn [slot_size]. rewrite Hsl. f_equal.
    destruct Hss as [_ Hss]. rewrite Hss, Hfree in Hsl. cbn in Hsl. congruence.
Qed.

(** the three entry points *)
Lemma wp_new_astep f need p f' off sz :
  AInv c f -> 0 < need -> write_piece c need f None p = Ok (f', off, sz) ->
  AInv c f' /\ used f' = <[off := p]> (used f) /\ used f !! off = None /\
  astep f f' (roundup c need).
Proof.
  intros [frees Hi] Hneed Hw. unfold write_piece in Hw.
  destruct (N.eqb_spec need 0); [lia|].
  destruct (roundup_facts c Hc need Hneed) as [Hv _].
  destruct (alloc_astep _ _ _ _ _ _ _ Hi Hv Hw) as [(HA & HU & _ & _ & HD & _) Hst].
  split; [done|]. split; [done|]. split; [|done].
  rewrite AllocInv_proofs.used_lookup. destruct HD as [((nxt & ->) & _) | (-> & _)]; [done|].
  by rewrite (inv_fend_none c Hc _ _ Hi).
Qed.

Lemma wp_old_astep f need old p0 p f' off sz :
  AInv c f -> 0 < need -> used f !! old = Some p0 ->
  write_piece c need f (Some old) p = Ok (f', off, sz) ->
  AInv c f' /\ used f' = <[off := p]> (delete old (used f)) /\
  (off = old \/ used f !! off = None) /\ astep f f' (roundup c need).
Proof.
  intros HA Hneed Hu Hw.
  destruct (write_old_ok c Hc f need old p0 p HA Hneed Hu)
    as (f1 & off1 & sz1 & Hw1 & HA1 & HU1 & Hoff & _).
  rewrite Hw in Hw1. injection Hw1 as <- <- <-.
  split; [done|]. split; [done|]. split; [done|].
  destruct HA as [frees Hi]. rewrite AllocInv_proofs.used_lookup in Hu.
  destruct (slots f !! old) as [[osz q|]|] eqn:Hs; cbn in Hu; try done. injection Hu as ->.
  destruct (roundup_facts c Hc need Hneed) as [Hv _].
  unfold write_piece in Hw. destruct (need =? 0); [done|]. destruct (old =? 0); [done|].
  unfold read_size in Hw. rewrite Hs in Hw. cbn [rbind slot_size] in Hw.
  destruct (negb (valid_size c osz)); [done|].
  destruct (roundup c need <=? osz).
  - injection Hw as <- _ _. apply astep_same, ss_set_slot. by rewrite Hs.
  - destruct (push_ok c Hc f frees old osz p0 Hi Hs) as (f1 & frees1 & nx & Hp & Hi1 & _).
    rewrite Hp in Hw. cbn [rbind] in Hw.
    destruct (alloc_astep _ _ _ _ _ _ _ Hi1 Hv Hw) as [_ Hst].
    eapply astep_ss_l; [|exact Hst]. apply (push_free_ss f old osz f1); [by rewrite Hs | exact Hp].
Qed.

Lemma delete_astep f off f' nsz : delete_piece c f off = Ok f' -> astep f f' nsz.
Proof. intros H. apply astep_same, (delete_piece_ss f off f' H). Qed.

(** *** the counting statements of one allocator call *)
Section astep_facts.
Context (f f' : pfile P) (nsz : N) (Hst : astep f f' nsz).

Lemma astep_fend : fend f' = fend f \/ fend f' = fend f + nsz.
Proof. destruct Hst as [[? _] | [? _]]; auto. Qed.

Lemma astep_n_eq_mono y : (n_eq y f <= n_eq y f')%nat.
Proof. unfold n_eq. destruct Hst as [[_ ->] | (_ & -> & _)]; lia. Qed.

(** a slot of size [y] is created only when every slot of size [y] is in use (small classes and
    large sizes alike: under first fit a free slot of exactly the size asked for is suitable) *)
Lemma astep_n_eq y : (n_eq y f' <= max (n_eq y f) (u_eq y f'))%nat.
Proof.
  destruct Hst as [[_ E] | (_ & Hc' & Hns)]; [unfold n_eq; rewrite E; lia|].
  assert (n_eq y f' = n_eq y f + b2n (N.eqb nsz y))%nat as E by apply Hc'.
  destruct (N.eqb_spec nsz y) as [-> | Hne]; cbn [b2n] in E; [|lia].
  assert (n_eq y f' = u_eq y f') as ->; [|lia].
  apply cnt_ext. intros k [sz p|sz nxt] Hk; unfold szp, uszp; cbn [is_used slot_size andb]; [done|].
  specialize (Hns _ _ _ Hk). destruct (is_large c y); lia.
Qed.

Lemma astep_n_eq_used y : (n_eq y f' <= max (n_eq y f) (size (used f')))%nat.
Proof. pose proof (astep_n_eq y) as H1. pose proof (u_eq_le_used y f') as H2. lia. Qed.

(** thresholds: the count of slots of size at least [y] changes only if [y <= nsz], and then the
    slots of size at least [y] are the ones in use plus the free ones that were too small *)
Lemma astep_n_ge y : is_large c y = true ->
  (n_ge y f' <= max (n_ge y f) (u_ge y f' + free_in y nsz f'))%nat.
Proof.
  intros Hy. destruct Hst as [[_ E] | (_ & Hc' & Hns)]; [unfold n_ge; rewrite E; lia|].
  assert (n_ge y f' = n_ge y f + b2n (N.leb y nsz))%nat as E by apply Hc'.
  destruct (N.leb_spec y nsz) as [Hle | Hgt]; cbn [b2n] in E; [|lia].
  assert (n_ge y f' = u_ge y f' + free_in y nsz f')%nat as ->; [|lia].
  unfold n_ge. rewrite (cnt_split _ is_used). f_equal.
  - apply cnt_ext. intros k a _. unfold szp, uszp. apply andb_comm.
  - apply cnt_ext. intros k [sz p|sz nxt] Hk; unfold szp; cbn [is_used slot_size negb andb].
    + by rewrite andb_false_r.
    + rewrite andb_true_r. specialize (Hns _ _ _ Hk).
      assert (is_large c nsz = true) as Hl by (unfold is_large in *; lia). rewrite Hl in Hns. lia.
Qed.

(** at the threshold [nsz] itself this is the clause as stated: every slot that could have served
    the request is in use *)
Lemma astep_n_ge_at : is_large c nsz = true -> (n_ge nsz f' <= max (n_ge nsz f) (u_ge nsz f'))%nat.
Proof.
  intros Hl. pose proof (astep_n_ge nsz Hl) as H.
  assert (free_in nsz nsz f' = 0%nat) as E; [|lia].
  unfold free_in. rewrite (cnt_ext _ (fun _ => false)); [|intros k a _; lia].
  clear. induction (slots f') as [|k a m Hk IH] using map_ind; [apply cnt_empty|].
  by rewrite cnt_insert_None, IH.
Qed.

End astep_facts.

(** *** the file length is the header plus the sum of the slot sizes *)
Definition sumN (l : list N) : N := foldr N.add 0 l.
Definition sum_sizes (f : pfile P) : N := sumN ((fun os => slot_size os.2) <$> map_to_list (slots f)).
Definition size_at (f : pfile P) (o : N) : N := default 0 (slot_size <$> (slots f !! o)).

Lemma sumN_perm l k : l ≡ₚ k -> sumN l = sumN k.
Proof.
  induction 1 as [|x l k _ IH|x y l|l k k' _ IH1 _ IH2]; [done| | |congruence].
  - change (x + sumN l = x + sumN k). lia.
  - change (y + (x + sumN l) = x + (y + sumN l)). lia.
Qed.

Lemma tiles_sum f o l : tiles c f o l -> o + sumN (size_at f <$> l) = fend f.
Proof.
  induction 1 as [|off s l Hs Hv Ht IH]; [rewrite fmap_nil; cbn [sumN foldr]; lia|].
  rewrite fmap_cons. change (off + (size_at f off + sumN (size_at f <$> l)) = fend f).
  unfold size_at at 1. rewrite Hs.
  change (off + (slot_size s + sumN (size_at f <$> l)) = fend f). lia.
Qed.

Theorem fend_is_sum f : AInv c f -> fend f = hdr_size c + sum_sizes f.
Proof.
  intros [frees Hi]. destruct (ai_tiles _ _ _ Hi) as (l & Ht & Hl).
  rewrite <- (tiles_sum _ _ _ Ht). f_equal. unfold sum_sizes.
  assert ((fun os : N * slot P => slot_size os.2) <$> map_to_list (slots f)
          = size_at f <$> (map_to_list (slots f)).*1) as ->.
  { rewrite <- list_fmap_compose. apply Forall_fmap_ext, Forall_forall. intros [o s] Ho.
    apply elem_of_map_to_list in Ho. cbn. unfold size_at. by rewrite Ho. }
  apply sumN_perm, fmap_Permutation, NoDup_Permutation.
  - eapply tiles_NoDup; eauto.
  - apply NoDup_fst_map_to_list.
  - intros x. rewrite <- Hl, elem_of_list_fmap. split.
    + intros [s Hs]. exists (x, s). split; [done|]. by apply elem_of_map_to_list.
    + intros ([o s] & -> & Ho). apply elem_of_map_to_list in Ho. eauto.
Qed.

End alloc_steps.

(** *** the allocator statements in one place *)
Section alloc_counts.
Context {P : Type} (c : pcfg) (Hc : cfg_ok c).

(** a new piece.  For every size [y]: a slot of size [y] is added only when every slot of size
    [y] is in use.  For a threshold [y] (large sizes): the slots of size at least [y] afterwards
    are the ones in use plus the free ones below the rounded request - those first fit had to
    pass over.  (The plain "[n_ge y f' <= max (n_ge y f) (u_ge y f')]" holds at [y = nsz] only,
    see [C06_n_ge_one_call] at the end for a computed counterexample at [y < nsz].) *)
Theorem write_new_counts (f : pfile P) need p f' off sz :
  AInv c f -> 0 < need -> write_piece c need f None p = Ok (f', off, sz) ->
  let nsz := roundup c need in
  (fend f' = fend f \/ fend f' = fend f + nsz) /\
  (forall y, (n_eq y f' <= max (n_eq y f) (u_eq y f'))%nat) /\
  (forall y, is_large c y = true -> (n_ge y f' <= max (n_ge y f) (u_ge y f' + free_in y nsz f'))%nat) /\
  (is_large c nsz = true -> (n_ge nsz f' <= max (n_ge nsz f) (u_ge nsz f'))%nat) /\
  size (used f') = S (size (used f)).
Proof.
  intros HA Hn Hw nsz. destruct (wp_new_astep c Hc _ _ _ _ _ _ HA Hn Hw) as (_ & HU & Hnone & Hst).
  split; [exact (astep_fend c _ _ _ Hst)|]. split; [exact (astep_n_eq c _ _ _ Hst)|].
  split; [exact (astep_n_ge c _ _ _ Hst)|]. split; [exact (astep_n_ge_at c _ _ _ Hst)|].
  rewrite HU. by apply map_size_insert_None.
Qed.

(** rewriting a piece: in place, or the old slot is pushed on its free list and then a slot is
    allocated - so a rewrite that needs the size it already had re-uses its own slot *)
Theorem write_old_counts (f : pfile P) need old p0 p f' off sz :
  AInv c f -> 0 < need -> used f !! old = Some p0 ->
  write_piece c need f (Some old) p = Ok (f', off, sz) ->
  let nsz := roundup c need in
  (fend f' = fend f \/ fend f' = fend f + nsz) /\
  (forall y, (n_eq y f' <= max (n_eq y f) (u_eq y f'))%nat) /\
  (forall y, is_large c y = true -> (n_ge y f' <= max (n_ge y f) (u_ge y f' + free_in y nsz f'))%nat) /\
  (is_large c nsz = true -> (n_ge nsz f' <= max (n_ge nsz f) (u_ge nsz f'))%nat) /\
  size (used f') = size (used f).
Proof.
  intros HA Hn Hu Hw nsz.
  destruct (wp_old_astep c Hc _ _ _ _ _ _ _ _ HA Hn Hu Hw) as (_ & HU & Hoff & Hst).
  split; [exact (astep_fend c _ _ _ Hst)|]. split; [exact (astep_n_eq c _ _ _ Hst)|].
  split; [exact (astep_n_ge c _ _ _ Hst)|]. split; [exact (astep_n_ge_at c _ _ _ Hst)|].
  rewrite HU. destruct Hoff as [-> | Hnone].
  - rewrite insert_delete_insert. apply map_size_insert_Some. eauto.
  - destruct (decide (off = old)) as [-> | Hne]; [congruence|].
    rewrite map_size_insert_None by (by rewrite lookup_delete_ne).
    rewrite map_size_delete_Some by eauto.
    assert (size (used f) <> 0)%nat; [|lia]. intros E%map_size_empty_inv. by rewrite E in Hu.
Qed.

(** deleting never creates, removes or resizes a slot *)
Theorem delete_counts (f : pfile P) off f' :
  delete_piece c f off = Ok f' ->
  fend f' = fend f /\ forall y, n_eq y f' = n_eq y f /\ n_ge y f' = n_ge y f.
Proof.
  intros Hd. pose proof (delete_piece_ss c _ _ _ Hd) as Hss. split; [apply Hss|].
  intros y. split; by apply same_sizes_cnt.
Qed.

End alloc_counts.

(** ** 3. Bookkeeping along a sequence of allocator calls *)

(** the slot sizes the allocator can produce up to [M]: the 16 classes and the multiples of 128
    above the last class *)
Definition allsz (M : N) : list N :=
  classes ++ map (fun i => 128 * N.of_nat i) (seq 9 (N.to_nat (M / 128) - 8)).

Lemma allsz_NoDup M : NoDup (allsz M).
Proof.
  unfold allsz. apply NoDup_app. split; [|split].
  - refine (bool_decide_unpack _ _). vm_compute. exact I.
  - intros x Hx Hx'. apply elem_of_list_In, in_map_iff in Hx' as (i & Heq & Hi). apply in_seq in Hi.
    assert (x <= 1024) as Hle; [|lia].
    unfold classes in Hx. repeat (apply elem_of_cons in Hx as [-> | Hx]; [lia|]). by apply elem_of_nil in Hx.
  - apply NoDup_ListNoDup, FinFun.Injective_map_NoDup; [|apply seq_NoDup]. intros i j. lia.
Qed.

Lemma allsz_elem c M z : cfg_ok c -> valid_slot_size c z -> z <= M -> z ∈ allsz M.
Proof.
  intros Hc Hv Hle. unfold allsz. apply elem_of_app.
  apply (valid_slot_size_unfold c z Hc) in Hv as [Hv | [Hl Hm]].
  - left. unfold classes. repeat (destruct Hv as [-> | Hv]; [set_solver|]). subst. set_solver.
  - right. apply elem_of_list_In, in_map_iff. exists (N.to_nat (z / 128)). split; [lia|].
    apply in_seq. assert (z / 128 <= M / 128) by (apply N.div_le_mono; lia). lia.
Qed.

Section wsum.
Context {P : Type}.
Implicit Types (f : pfile P) (w : N -> N) (A : list N).

(** weighted number of slots with a size in [A] *)
Definition wsum w A f : N := sumN ((fun z => w z * N.of_nat (n_eq z f)) <$> A).

Lemma wsum_nil w f : wsum w [] f = 0.
Proof. reflexivity. Qed.
Lemma wsum_cons w a A f : wsum w (a :: A) f = w a * N.of_nat (n_eq a f) + wsum w A f.
Proof. reflexivity. Qed.

Lemma wsum_same w A f f' : (forall z, n_eq z f' = n_eq z f) -> wsum w A f' = wsum w A f.
Proof.
  intros H. induction A as [|a A IH]; [done|]. by rewrite !wsum_cons, IH, H.
Qed.

Lemma wsum_step w A f f' nsz : NoDup A ->
  (forall z, n_eq z f' = (n_eq z f + b2n (N.eqb nsz z))%nat) ->
  wsum w A f' = wsum w A f + (if decide (nsz ∈ A) then w nsz else 0).
Proof.
  intros Hnd H. induction Hnd as [|a A Ha Hnd IH].
  - rewrite !wsum_nil. rewrite decide_False by apply not_elem_of_nil. lia.
  - rewrite !wsum_cons, IH, H. destruct (N.eqb_spec nsz a) as [-> | Hne]; cbn [b2n].
    + destruct (decide (a ∈ A)); [done|]. rewrite decide_True by left. lia.
    + destruct (decide (nsz ∈ A)) as [Hin | Hin].
      * rewrite decide_True by (by right). lia.
      * rewrite decide_False; [lia|]. intros [?|?]%elem_of_cons; done.
Qed.

Lemma wsum_le w A f0 f Pk : (forall z, (n_eq z f <= n_eq z f0 + Pk)%nat) ->
  wsum w A f <= wsum w A f0 + N.of_nat Pk * sumN (w <$> A).
Proof.
  intros H. induction A as [|a A IH]; [rewrite !wsum_nil; cbn; lia|].
  rewrite !wsum_cons, fmap_cons. change (sumN (w a :: (w <$> A))) with (w a + sumN (w <$> A)).
  specialize (H a). nia.
Qed.

Definition wid : N -> N := fun z => z.
Definition wge (y : N) : N -> N := fun z => if y <=? z then 1 else 0.

(** [track G M Pk f0 f]: where file [f] stands relative to the start [f0] of a history whose
    live count never exceeded [Pk].  [G] switches the exact accounting on: it needs every
    rounded request to stay below [M]. *)
Record track (G : Prop) (M : N) (Pk : nat) (f0 f : pfile P) : Prop := {
  tr_le : forall z, (n_eq z f <= max (n_eq z f0) Pk)%nat;
  tr_mono : forall z, (n_eq z f0 <= n_eq z f)%nat;
  tr_fend : G -> fend f + wsum wid (allsz M) f0 = fend f0 + wsum wid (allsz M) f;
  tr_ge : G -> forall y, N.of_nat (n_ge y f) + wsum (wge y) (allsz M) f0
                      = N.of_nat (n_ge y f0) + wsum (wge y) (allsz M) f }.

Lemma track_refl G M Pk f : track G M Pk f f.
Proof. constructor; intros; lia. Qed.

Lemma track_step c G M Pk f0 f f' nsz : cfg_ok c ->
  track G M Pk f0 f -> astep c f f' nsz -> (size (used f') <= Pk)%nat ->
  (G -> valid_slot_size c nsz /\ nsz <= M) -> track G M Pk f0 f'.
Proof.
  intros Hc [H1 H2 H3 H4] Hst Hsz Hin.
  pose proof (astep_n_eq_used c f f' nsz Hst) as Hle.
  destruct Hst as [[Hfe Hc'] | (Hfe & Hc' & Hns)].
  - assert (forall z, n_eq z f' = n_eq z f) as E by (intros; apply Hc').
    constructor.
    + intros z. rewrite E. apply H1.
    + intros z. rewrite E. apply H2.
    + intros HG. rewrite Hfe, (wsum_same _ _ _ _ E). auto.
    + intros HG y. rewrite (wsum_same _ _ _ _ E). unfold n_ge. rewrite Hc'. by apply H4.
  - assert (forall z, n_eq z f' = (n_eq z f + b2n (N.eqb nsz z))%nat) as E by (intros; apply Hc').
    constructor.
    + intros z. specialize (Hle z). specialize (H1 z). specialize (E z).
      destruct (nsz =? z); cbn [b2n] in E; lia.
    + intros z. specialize (H2 z). specialize (E z). lia.
    + intros HG. destruct (Hin HG) as [Hv HM].
      rewrite Hfe, (wsum_step _ _ _ _ nsz (allsz_NoDup M) E).
      rewrite decide_True by (eapply allsz_elem; eauto). specialize (H3 HG). unfold wid at 3. lia.
    + intros HG y. destruct (Hin HG) as [Hv HM].
      rewrite (wsum_step _ _ _ _ nsz (allsz_NoDup M) E).
      rewrite decide_True by (eapply allsz_elem; eauto). specialize (H4 HG y).
      assert (n_ge y f' = n_ge y f + b2n (N.leb y nsz))%nat as E' by apply Hc'.
      unfold wge at 3. destruct (y <=? nsz); cbn [b2n] in E'; lia.
Qed.

Lemma track_same G M Pk f0 f f' :
  track G M Pk f0 f -> same_sizes f f' -> track G M Pk f0 f'.
Proof.
  intros [H1 H2 H3 H4] Hss.
  assert (forall g, cnt (szp g) (slots f') = cnt (szp g) (slots f)) as Hc' by (intros; by apply same_sizes_cnt).
  assert (forall z, n_eq z f' = n_eq z f) as E by (intros; apply Hc').
  constructor.
  - intros z. rewrite E. apply H1.
  - intros z. rewrite E. apply H2.
  - intros HG. destruct Hss as [-> _]. rewrite (wsum_same _ _ _ _ E). auto.
  - intros HG y. rewrite (wsum_same _ _ _ _ E). unfold n_ge. rewrite Hc'. by apply H4.
Qed.

(** what [track] says at the end *)
Lemma track_fend_bound M Pk f0 f : track True M Pk f0 f ->
  fend f <= fend f0 + N.of_nat Pk * sumN (allsz M).
Proof.
  intros [H1 _ H3 _]. specialize (H3 I).
  pose proof (wsum_le wid (allsz M) f0 f Pk) as H.
  rewrite list_fmap_id in H. assert (forall z, (n_eq z f <= n_eq z f0 + Pk)%nat) as Hz.
  { intros z. specialize (H1 z). lia. }
  specialize (H Hz). lia.
Qed.

Lemma track_n_ge_bound M Pk f0 f y : track True M Pk f0 f ->
  N.of_nat (n_ge y f) <= N.of_nat (n_ge y f0) + N.of_nat Pk * sumN (wge y <$> allsz M).
Proof.
  intros [H1 _ _ H4]. specialize (H4 I y).
  pose proof (wsum_le (wge y) (allsz M) f0 f Pk) as H.
  assert (forall z, (n_eq z f <= n_eq z f0 + Pk)%nat) as Hz.
  { intros z. specialize (H1 z). lia. }
  specialize (H Hz). lia.
Qed.

End wsum.

(** ** 4. The store *)

(** *** the slots in use are the live entries *)
Theorem used_is_live s m : Inv s -> represents s m ->
  size (used (keyf s)) = size m /\ size (used (valf s)) = size m.
Proof.
  intros (ch & Hcore & _) Hrep.
  pose proof (map_kheap_perm s ch None m Hcore Hrep) as Hk.
  pose proof (vheap_kheap_perm s ch None Hcore) as Hv.
  apply Permutation_length in Hk, Hv. rewrite map_length in Hk, Hv.
  unfold kheap, vheap in *. unfold size, map_size. split; congruence.
Qed.

Corollary used_counts_le_live s m y : Inv s -> represents s m ->
  (u_eq y (keyf s) <= size m)%nat /\ (u_ge y (keyf s) <= size m)%nat /\
  (u_eq y (valf s) <= size m)%nat /\ (u_ge y (valf s) <= size m)%nat.
Proof.
  intros HI HR. destruct (used_is_live s m HI HR) as [<- E]. rewrite <- E at 3 4.
  repeat split; (apply u_eq_le_used || apply u_ge_le_used).
Qed.

(** *** requests stay below [L + 164] when keys and values are shorter than [L] *)
Lemma roundup_le c x : cfg_ok c -> 0 < x -> roundup c x <= x + 128.
Proof. intros Hc Hx. rewrite (roundup_unfold c x Hc). leb_cases; lia. Qed.

Lemma key_nsz_le L r : blen (k_key r) < L -> roundup key_cfg (krec_need r) <= L + 164.
Proof.
  intros Hl. pose proof (roundup_le key_cfg _ key_cfg_ok (krec_need_pos r)) as H.
  unfold krec_need, key_need in *. cbv zeta in *.
  pose proof (enc_len_range (blen (k_key r))) as E1. pose proof (enc_len_range (k_voff r)) as E2.
  pose proof (enc_len_range (k_next r)) as E3.
  match type of H with context [enc_len (?a / 8)] => pose proof (enc_len_range (a / 8)) as E4 end. lia.
Qed.

Lemma val_nsz_le L (v : bytes) : blen v < L -> roundup val_cfg (val_need (blen v)) <= L + 164.
Proof.
  intros Hl. pose proof (roundup_le val_cfg _ val_cfg_ok (val_need_pos (blen v))) as H.
  unfold val_need in *. cbv zeta in *.
  pose proof (enc_len_range (blen v)) as E1.
  match type of H with context [enc_len (?a / 8)] => pose proof (enc_len_range (a / 8)) as E2 end. lia.
Qed.

(** *** one operation *)
Section ops.
Context (G : Prop) (L : N) (Pk : nat) (s0 : store).

Local Notation TK s := (track G (L + 164) Pk (keyf s0) (keyf s)).
Local Notation TV s := (track G (L + 164) Pk (valf s0) (valf s)).

(** every key in the key file is shorter than [L] (only needed for the exact accounting) *)
Definition klen (s : store) : Prop :=
  G -> forall off r, used (keyf s) !! off = Some r -> blen (k_key r) < L.

Lemma size_rewrite {A} (m : gmap N A) old off p0 p :
  m !! old = Some p0 -> (off = old \/ m !! off = None) -> size (<[off := p]> (delete old m)) = size m.
Proof.
  intros Ho Hoff.
  assert (size m = S (size (delete old m))) as ->.
  { rewrite <- (insert_id m old p0 Ho) at 1. rewrite <- insert_delete_insert.
    apply map_size_insert_None, lookup_delete. }
  apply map_size_insert_None. destruct Hoff as [-> | Hn]; [apply lookup_delete|].
  destruct (decide (off = old)) as [-> | Hne]; [apply lookup_delete | by rewrite lookup_delete_ne].
Qed.

(** a key record rewritten with the same key *)
Lemma wp_old_key s r r' kf off sz old :
  AInv key_cfg (keyf s) -> TK s -> klen s -> (size (used (keyf s)) <= Pk)%nat ->
  used (keyf s) !! old = Some r -> k_key r' = k_key r ->
  write_piece key_cfg (krec_need r') (keyf s) (Some old) r' = Ok (kf, off, sz) ->
  AInv key_cfg kf /\ TK (set_keyf s kf) /\ klen (set_keyf s kf) /\
  size (used kf) = size (used (keyf s)).
Proof.
  intros HK T KL Hsz Hr Hkey Hw.
  destruct (wp_old_astep key_cfg key_cfg_ok _ _ _ _ _ _ _ _ HK (krec_need_pos _) Hr Hw)
    as (HK1 & HU & Hoff & Hst).
  assert (size (used kf) = size (used (keyf s))) as Hsz1 by (rewrite HU; by eapply size_rewrite).
  split; [done|]. split; [|split; [|done]]; cbn [set_keyf keyf].
  - eapply track_step; [exact key_cfg_ok | exact T | exact Hst | lia |].
    intros HG. split; [apply roundup_valid; [exact key_cfg_ok | apply krec_need_pos]|].
    apply key_nsz_le. rewrite Hkey. by apply (KL HG old).
  - intros HG o q. cbn [set_keyf keyf]. rewrite HU, lookup_insert_Some, lookup_delete_Some.
    intros [[_ <-] | (_ & _ & Hq)]; [rewrite Hkey; by apply (KL HG old) | by apply (KL HG o)].
Qed.

Lemma relink_track fuel : forall s b prev newoff s',
  AInv key_cfg (keyf s) -> TK s -> klen s -> (size (used (keyf s)) <= Pk)%nat ->
  relink fuel s b prev newoff = Ok s' ->
  TK s' /\ klen s' /\ valf s' = valf s.
Proof.
  induction fuel as [|fuel IH]; intros s b prev newoff s' HK T KL Hsz Hr; cbn [relink] in Hr;
    [discriminate Hr|].
  destruct (prev =? 0).
  { injection Hr as <-. cbn [set_hx keyf valf]. auto. }
  destruct (read_krec s prev) as [r| | |] eqn:Hrd; cbn [rbind] in Hr; try discriminate Hr.
  apply read_krec_inv in Hrd.
  destruct (write_piece key_cfg (krec_need (KRec (k_key r) (k_voff r) newoff)) (keyf s) (Some prev)
              (KRec (k_key r) (k_voff r) newoff)) as [[[kf poff] ksz]| | |] eqn:Hw;
    cbn [rbind] in Hr; try discriminate Hr.
  destruct (wp_old_key s r (KRec (k_key r) (k_voff r) newoff) kf poff ksz prev HK T KL Hsz Hrd eq_refl Hw) as (HK1 & T1 & KL1 & Hsz1).
  destruct (poff =? prev).
  { injection Hr as <-. auto. }
  destruct (find_prev (chain_fuel (set_keyf s kf)) (set_keyf s kf) prev 0
              (head_at (hx (set_keyf s kf)) b)) as [pp| | |]; cbn [rbind] in Hr; try discriminate Hr.
  apply IH in Hr; [exact Hr | exact HK1 | exact T1 | exact KL1 | cbn [set_keyf keyf]; lia].
Qed.

Theorem put_track s k v s' :
  AInv key_cfg (keyf s) -> AInv val_cfg (valf s) ->
  (size (used (keyf s)) <= Pk)%nat -> (size (used (valf s)) <= Pk)%nat ->
  (size (used (keyf s')) <= Pk)%nat -> (size (used (valf s')) <= Pk)%nat ->
  (G -> blen k < L /\ blen v < L) ->
  TK s -> TV s -> klen s -> put s k v = Ok s' ->
  TK s' /\ TV s' /\ klen s'.
Proof.
  intros HK HV Hks Hvs Hks' Hvs' Hkv T1 T2 KL Hput.
  change (keyf s) with (keyf (touch s)) in HK, Hks, T1. change (valf s) with (valf (touch s)) in HV, Hvs, T2.
  assert (klen (touch s)) as KL' by exact KL. clear KL.
  unfold put in Hput. cbv zeta in Hput.
  revert HK HV Hks Hvs T1 T2 KL' Hput. generalize (touch s). clear s. intros s HK HV Hks Hvs T1 T2 KL Hput.
  assert (Hvnsz : G -> valid_slot_size val_cfg (roundup val_cfg (val_need (blen v))) /\
                       roundup val_cfg (val_need (blen v)) <= L + 164).
  { intros HG. split; [apply roundup_valid; [exact val_cfg_ok | apply val_need_pos]|].
    apply val_nsz_le. by apply Hkv. }
  destruct (find s k) as [[[koff prev]|]| | |]; cbn [rbind] in Hput; try discriminate Hput.
  - (* overwrite *)
    destruct (read_krec s koff) as [r| | |] eqn:Hr; cbn [rbind] in Hput; try discriminate Hput.
    apply read_krec_inv in Hr.
    destruct (read_val s (k_voff r)) as [v0| | |] eqn:Hv0; cbn [rbind] in Hput; try discriminate Hput.
    apply read_val_inv in Hv0.
    destruct (write_piece val_cfg (val_need (blen v)) (valf s) (Some (k_voff r)) v)
      as [[[vf voff] vsz]| | |] eqn:Hwv; cbn [rbind] in Hput; try discriminate Hput.
    destruct (wp_old_astep val_cfg val_cfg_ok _ _ _ _ _ _ _ _ HV (val_need_pos _) Hv0 Hwv)
      as (HV1 & HU & Hoff & Hst).
    assert (size (used vf) = size (used (valf s))) as Hsz1 by (rewrite HU; by eapply size_rewrite).
    assert (TV (set_valf s vf)) as T2'.
    { cbn [set_valf valf]. eapply track_step; [exact val_cfg_ok | exact T2 | exact Hst | lia | exact Hvnsz]. }
    destruct (voff =? k_voff r).
    { injection Hput as <-. auto. }
    cbn [set_valf keyf] in Hput.
    destruct (write_piece key_cfg (krec_need (KRec (k_key r) voff (k_next r))) (keyf s) (Some koff)
                (KRec (k_key r) voff (k_next r))) as [[[kf koff'] ksz]| | |] eqn:Hwk;
      cbn [rbind] in Hput; try discriminate Hput.
    destruct (wp_old_key s r (KRec (k_key r) voff (k_next r)) kf koff' ksz koff HK T1 KL Hks Hr eq_refl Hwk) as (HK1 & T1' & KL1 & Hsz2).
    destruct (koff' =? koff).
    { injection Hput as <-. auto. }
    apply relink_track in Hput as (T1'' & KL2 & Hvf);
      [|exact HK1 | exact T1' | exact KL1 | cbn [set_keyf set_valf keyf]; lia].
    split; [exact T1''|]. split; [rewrite Hvf; exact T2' | exact KL2].
  - (* a new entry: value, then key record *)
    destruct (write_piece val_cfg (val_need (blen v)) (valf s) None v)
      as [[[vf voff] vsz]| | |] eqn:Hwv; cbn [rbind] in Hput; try discriminate Hput.
    destruct (wp_new_astep val_cfg val_cfg_ok _ _ _ _ _ _ HV (val_need_pos _) Hwv) as (HV1 & HU & _ & Hst).
    destruct (write_piece key_cfg (krec_need (KRec k voff (head_at (hx s) (bucket s k)))) (keyf s) None
                (KRec k voff (head_at (hx s) (bucket s k)))) as [[[kf koff] ksz]| | |] eqn:Hwk;
      cbn [rbind] in Hput; try discriminate Hput.
    destruct (wp_new_astep key_cfg key_cfg_ok _ _ _ _ _ _ HK (krec_need_pos _) Hwk) as (HK1 & HUk & _ & Hstk).
    injection Hput as <-. cbn [keyf valf] in *. split; [|split].
    + eapply track_step; [exact key_cfg_ok | exact T1 | exact Hstk | exact Hks' |].
      intros HG. split; [apply roundup_valid; [exact key_cfg_ok | apply krec_need_pos]|].
      apply key_nsz_le. cbn [k_key]. by apply Hkv.
    + eapply track_step; [exact val_cfg_ok | exact T2 | exact Hst | exact Hvs' | exact Hvnsz].
    + intros HG o q. cbn [keyf]. rewrite HUk, lookup_insert_Some.
      intros [[_ <-] | [_ Hq]]; [cbn [k_key]; by apply Hkv | by apply (KL HG o)].
Qed.

Lemma delete_piece_used_sub {P} c (f : pfile P) off f' o p :
  delete_piece c f off = Ok f' -> used f' !! o = Some p -> used f !! o = Some p.
Proof.
  intros Hd. unfold delete_piece, read_size in Hd.
  destruct (slots f !! off) as [s1|]; cbn [rbind] in Hd; [|discriminate Hd].
  unfold push_free in Hd. destruct (off =? 0); [by injection Hd as <-|].
  destruct (class_idx c (slot_size s1)) as [i| | |]; cbn [rbind] in Hd; try discriminate Hd.
  injection Hd as <-. rewrite !Refine_relink.used_lookup. cbn [slots]. intros [sz Hs]. exists sz.
  apply lookup_insert_Some in Hs as [[_ ?] | [_ ?]]; done.
Qed.

Theorem del_track s k s' r :
  AInv key_cfg (keyf s) -> (size (used (keyf s)) <= Pk)%nat ->
  TK s -> TV s -> klen s -> del s k = Ok (s', r) ->
  TK s' /\ TV s' /\ klen s'.
Proof.
  intros HK Hks T1 T2 KL Hdel.
  change (keyf s) with (keyf (touch s)) in HK, Hks, T1. change (valf s) with (valf (touch s)) in T2.
  assert (klen (touch s)) as KL' by exact KL. clear KL.
  unfold del in Hdel. cbv zeta in Hdel.
  revert HK Hks T1 T2 KL' Hdel. generalize (touch s). clear s. intros s HK Hks T1 T2 KL Hdel.
  destruct (find s k) as [[[koff prev]|]| | |]; cbn [rbind] in Hdel; try discriminate Hdel.
  2:{ injection Hdel as <- <-. auto. }
  destruct (read_krec s koff) as [rk| | |] eqn:Hr; cbn [rbind] in Hdel; try discriminate Hdel.
  destruct (read_val s (k_voff rk)) as [v0| | |] eqn:Hv0; cbn [rbind] in Hdel; try discriminate Hdel.
  match type of Hdel with (rbind ?X _ = _) => destruct X as [s1| | |] eqn:Hs1 end;
    cbn [rbind] in Hdel; try discriminate Hdel.
  assert (H1 : TK s1 /\ klen s1 /\ valf s1 = valf s).
  { destruct (prev =? 0).
    { injection Hs1 as <-. cbn [set_hx keyf valf]. auto. }
    destruct (read_krec s prev) as [pr| | |] eqn:Hpr; cbn [rbind] in Hs1; try discriminate Hs1.
    apply read_krec_inv in Hpr.
    destruct (write_piece key_cfg (krec_need (KRec (k_key pr) (k_voff pr) (k_next rk))) (keyf s)
                (Some prev) (KRec (k_key pr) (k_voff pr) (k_next rk)))
      as [[[kf poff] ksz]| | |] eqn:Hw; cbn [rbind] in Hs1; try discriminate Hs1.
    destruct (wp_old_key s pr (KRec (k_key pr) (k_voff pr) (k_next rk)) kf poff ksz prev HK T1 KL Hks Hpr eq_refl Hw) as (HK1 & T1' & KL1 & Hsz2).
    destruct (poff =? prev).
    { injection Hs1 as <-. auto. }
    destruct (find_prev (chain_fuel (set_keyf s kf)) (set_keyf s kf) prev 0
                (head_at (hx (set_keyf s kf)) (bucket s k))) as [pp| | |];
      cbn [rbind] in Hs1; try discriminate Hs1.
    apply relink_track in Hs1; [exact Hs1 | exact HK1 | exact T1' | exact KL1 | cbn [set_keyf keyf]; lia]. }
  destruct H1 as (T1' & KL1 & Hvf).
  destruct (delete_piece val_cfg (valf s1) (k_voff rk)) as [vf| | |] eqn:Hdv;
    cbn [rbind] in Hdel; try discriminate Hdel.
  destruct (delete_piece key_cfg (keyf s1) koff) as [kf| | |] eqn:Hdk;
    cbn [rbind] in Hdel; try discriminate Hdel.
  injection Hdel as <- <-. cbn [keyf valf]. split; [|split].
  - eapply track_same; [exact T1'|]. eapply delete_piece_ss; exact Hdk.
  - rewrite Hvf in Hdv. eapply track_same; [exact T2|]. eapply delete_piece_ss; exact Hdv.
  - intros HG o q Hq. cbn [keyf] in Hq. apply (KL1 HG o). eapply delete_piece_used_sub; eauto.
Qed.

End ops.

(** *** histories *)

(** the largest number of live entries at any point of the history (before the first operation,
    between two operations, after the last one) *)
Fixpoint peak_live (m : spec) (ops : list dop) : nat :=
  match ops with
  | [] => size m
  | o :: ops' => max (size m) (peak_live (fst (spec_step m o)) ops')
  end.

Lemma spec_run_cons m o ops :
  fst (spec_run m (o :: ops)) = fst (spec_run (fst (spec_step m o)) ops).
Proof.
  cbn [spec_run]. destruct (spec_step m o) as [m1 r]. cbn [fst].
  by destruct (spec_run m1 ops) as [m2 rs].
Qed.

(** [peak_live] in terms of [spec_run]: it bounds the size of the ideal map after every prefix of
    the history, and some prefix attains it *)
Lemma peak_live_prefix ops : forall m n, (size (fst (spec_run m (take n ops))) <= peak_live m ops)%nat.
Proof.
  induction ops as [|o ops IH]; intros m n.
  - rewrite take_nil. cbn. lia.
  - destruct n as [|n]; cbn [take peak_live]; [cbn; lia|].
    rewrite spec_run_cons. specialize (IH (fst (spec_step m o)) n). lia.
Qed.

Lemma peak_live_attained ops : forall m,
  exists n, (n <= length ops)%nat /\ peak_live m ops = size (fst (spec_run m (take n ops))).
Proof.
  induction ops as [|o ops IH]; intros m.
  - exists 0%nat. split; [cbn; lia | reflexivity].
  - destruct (IH (fst (spec_step m o))) as (n & Hn & E). cbn [peak_live].
    destruct (Nat.max_spec (size m) (peak_live (fst (spec_step m o)) ops)) as [[_ ->] | [_ ->]].
    + exists (S n). split; [cbn; lia|]. cbn [take]. by rewrite spec_run_cons.
    + exists 0%nat. split; [cbn; lia | reflexivity].
Qed.

(** keys and values written by the history are shorter than [L] bytes *)
Definition op_short (L : N) (o : dop) : Prop :=
  match o with Put k v => blen k < L /\ blen v < L | _ => True end.

Definition tracks (G : Prop) (L : N) (Pk : nat) (s0 s : store) : Prop :=
  track G (L + 164) Pk (keyf s0) (keyf s) /\ track G (L + 164) Pk (valf s0) (valf s) /\ klen G L s.

Lemma step_track (G : Prop) L Pk s0 s m o s1 r :
  Inv s -> represents s m -> op_wf (kt s) o -> store_step s o = Ok (s1, r) ->
  (size m <= Pk)%nat -> (size (fst (spec_step m o)) <= Pk)%nat -> (G -> op_short L o) ->
  tracks G L Pk s0 s -> tracks G L Pk s0 s1.
Proof.
  intros HI HR Hw Hs Hm Hm1 Hsh (T1 & T2 & KL).
  destruct (step_refines s m o HI HR Hw) as (s1' & Hs' & HI1 & HR1 & _).
  rewrite Hs in Hs'. injection Hs' as <- _.
  destruct (used_is_live s m HI HR) as [Ek Ev].
  destruct (used_is_live s1 _ HI1 HR1) as [Ek1 Ev1].
  destruct HI as (ch & Hcore & _).
  pose proof (co_k _ _ _ Hcore) as HK. pose proof (co_v _ _ _ Hcore) as HV.
  destruct o as [k v | k | k | k | |]; cbn [store_step] in Hs.
  - destruct (put s k v) as [s2| | |] eqn:E; cbn [rbind] in Hs; try discriminate Hs.
    injection Hs as <- _.
    apply (put_track G L Pk s0 s k v s2); auto; lia.
  - destruct (get s k); cbn [rbind] in Hs; try discriminate Hs. injection Hs as <- _. done.
  - destruct (del s k) as [[s2 r1]| | |] eqn:E; cbn [rbind] in Hs; try discriminate Hs.
    injection Hs as <- _.
    apply (del_track G L Pk s0 s k s2 r1); auto; lia.
  - destruct (has s k); cbn [rbind] in Hs; try discriminate Hs. injection Hs as <- _. done.
  - injection Hs as <- _. done.
  - injection Hs as <- _. done.
Qed.

Lemma run_track (G : Prop) L Pk s0 ops : forall s m s' outs,
  Inv s -> represents s m -> Forall (op_wf (kt s)) ops -> store_run s ops = Ok (s', outs) ->
  (peak_live m ops <= Pk)%nat -> (G -> Forall (op_short L) ops) ->
  tracks G L Pk s0 s -> tracks G L Pk s0 s'.
Proof.
  induction ops as [|o ops IH]; intros s m s' outs HI HR Hw Hrun Hpk Hsh T.
  - cbn [store_run] in Hrun. injection Hrun as <- _. exact T.
  - inversion Hw as [|? ? Ho Hops]; subst.
    destruct (step_refines s m o HI HR Ho) as (s1 & Hs & HI1 & HR1 & Ht1 & _).
    cbn [store_run] in Hrun. rewrite Hs in Hrun. cbn [rbind] in Hrun.
    destruct (store_run s1 ops) as [[s2 rs]| | |] eqn:E; cbn [rbind] in Hrun; try discriminate Hrun.
    injection Hrun as <- _. cbn [peak_live] in Hpk.
    pose proof (Nat.max_lub_l _ _ _ Hpk) as Hpk1. pose proof (Nat.max_lub_r _ _ _ Hpk) as Hpk2.
    pose proof (peak_live_prefix ops (fst (spec_step m o)) 0) as H0. cbn [take spec_run fst] in H0.
    apply (IH s1 _ s2 rs HI1 HR1); [rewrite Ht1; exact Hops | exact E | exact Hpk2 | |].
    + intros HG. specialize (Hsh HG). by inversion Hsh.
    + apply (step_track G L Pk s0 s m o s1 _ HI HR Ho Hs); [exact Hpk1 | | | exact T].
      * etrans; [exact H0 | exact Hpk2].
      * intros HG. specialize (Hsh HG). by inversion Hsh.
Qed.

(** *** C06, the run-level statements *)

(** For every slot size [y], and for both files: the number of slots of size [y] (in use or free)
    after any history is at most what the start state had, or the peak number of live entries -
    however many operations the history has.  [P] is the plain peak: no "+1" is needed, because
    an overwrite frees the old slot before it allocates, a re-link rewrites one predecessor at a
    time (free, then allocate), and a new entry is live once the operation is over.

    The "at least [y]" variant of this statement is false (see [C06_n_ge_refuted_small] and
    [C06_n_ge_refuted_large] below); what holds for thresholds is [C06_n_ge_bounded]. *)
Theorem C06_bounded_by_peak_live_set s m ops s' outs P :
  Inv s -> represents s m -> Forall (op_wf (kt s)) ops -> store_run s ops = Ok (s', outs) ->
  (peak_live m ops <= P)%nat ->
  forall y,
    (n_eq y (keyf s') <= max (n_eq y (keyf s)) P)%nat /\
    (n_eq y (valf s') <= max (n_eq y (valf s)) P)%nat.
Proof.
  intros HI HR Hw Hrun Hpk y.
  assert (tracks False 0 P s s) as T0.
  { split; [apply track_refl|]. split; [apply track_refl|]. intros []. }
  destruct (run_track False 0 P s ops s m s' outs HI HR Hw Hrun Hpk ltac:(intros []) T0) as (T1 & T2 & _).
  split; [apply (tr_le _ _ _ _ _ T1) | apply (tr_le _ _ _ _ _ T2)].
Qed.

(** slots are never removed or resized *)
Theorem C06_counts_monotone s m ops s' outs :
  Inv s -> represents s m -> Forall (op_wf (kt s)) ops -> store_run s ops = Ok (s', outs) ->
  forall y, (n_eq y (keyf s) <= n_eq y (keyf s'))%nat /\ (n_eq y (valf s) <= n_eq y (valf s'))%nat.
Proof.
  intros HI HR Hw Hrun y.
  assert (tracks False 0 (peak_live m ops) s s) as T0.
  { split; [apply track_refl|]. split; [apply track_refl|]. intros []. }
  destruct (run_track False 0 _ s ops s m s' outs HI HR Hw Hrun (le_n _) ltac:(intros []) T0) as (T1 & T2 & _).
  split; [apply (tr_mono _ _ _ _ _ T1) | apply (tr_mono _ _ _ _ _ T2)].
Qed.

(** the explicit bound on a file length: the start length plus [P] slots of every size the
    allocator can produce for keys and values shorter than [L] *)
Definition bound (F : N) (P : nat) (L : N) : N := F + N.of_nat P * sumN (allsz (L + 164)).

Lemma sumN_app l k : sumN (l ++ k) = sumN l + sumN k.
Proof.
  induction l as [|a l IH]; [reflexivity|].
  change (a + sumN (l ++ k) = a + sumN l + sumN k). lia.
Qed.

Lemma sumN_map_le {A} (g : A -> N) (l : list A) B :
  (forall x, In x l -> g x <= B) -> sumN (map g l) <= N.of_nat (length l) * B.
Proof.
  induction l as [|a l IH]; intros H; [cbn; lia|].
  change (g a + sumN (map g l) <= N.of_nat (S (length l)) * B).
  pose proof (H a (or_introl eq_refl)) as Ha. specialize (IH (fun x Hx => H x (or_intror Hx))). lia.
Qed.

(** a closed form: the 16 classes add up to 5080 bytes, the multiples of 128 up to [M] to less
    than [M / 128 * M] *)
Lemma sumN_allsz_le M : sumN (allsz M) <= 5080 + M / 128 * M.
Proof.
  unfold allsz. rewrite sumN_app. change (sumN classes) with 5080.
  pose proof (sumN_map_le (fun i => 128 * N.of_nat i) (seq 9 (N.to_nat (M / 128) - 8)) M) as H.
  rewrite seq_length in H.
  assert (128 * (M / 128) <= M) by (apply N.mul_div_le; lia).
  assert (N.of_nat (N.to_nat (M / 128) - 8) * M <= M / 128 * M) by (apply N.mul_le_mono_r; lia).
  assert (forall x, In x (seq 9 (N.to_nat (M / 128) - 8)) -> 128 * N.of_nat x <= M) as Hx.
  { intros x Hin%in_seq. lia. }
  specialize (H Hx). lia.
Qed.

Lemma bound_closed_form F P L :
  bound F P L <= F + N.of_nat P * (5080 + (L + 164) / 128 * (L + 164)).
Proof. unfold bound. pose proof (sumN_allsz_le (L + 164)) as H. nia. Qed.

Lemma klen_init L s m : Inv s -> represents s m -> (forall k v, m !! k = Some v -> blen k < L) ->
  klen True L s.
Proof.
  intros (ch & Hcore & _) HR Hm _ off r Hr.
  destruct (co_val _ _ _ Hcore off r Hr) as [v Hv].
  apply (Hm (k_key r) v). apply HR. exists (k_voff r). split; [|exact Hv].
  exists off, r. auto.
Qed.

Lemma run_track_sized s m ops s' outs P L :
  Inv s -> represents s m -> Forall (op_wf (kt s)) ops -> store_run s ops = Ok (s', outs) ->
  (peak_live m ops <= P)%nat ->
  (forall k v, m !! k = Some v -> blen k < L) -> Forall (op_short L) ops ->
  tracks True L P s s'.
Proof.
  intros HI HR Hw Hrun Hpk Hm Hsh.
  apply (run_track True L P s ops s m s' outs HI HR Hw Hrun Hpk (fun _ => Hsh)).
  split; [apply track_refl|]. split; [apply track_refl|]. by eapply klen_init.
Qed.

Theorem C06_file_size_bounded s m ops s' outs P L :
  Inv s -> represents s m -> Forall (op_wf (kt s)) ops -> store_run s ops = Ok (s', outs) ->
  (peak_live m ops <= P)%nat ->
  (forall k v, m !! k = Some v -> blen k < L) -> Forall (op_short L) ops ->
  fend (keyf s') <= bound (fend (keyf s)) P L /\ fend (valf s') <= bound (fend (valf s)) P L.
Proof.
  intros HI HR Hw Hrun Hpk Hm Hsh.
  destruct (run_track_sized s m ops s' outs P L HI HR Hw Hrun Hpk Hm Hsh) as (T1 & T2 & _).
  split; apply track_fend_bound; assumption.
Qed.

(** thresholds: the number of slots of size at least [y] grows by at most [P] per producible
    size above [y] *)
Theorem C06_n_ge_bounded s m ops s' outs P L y :
  Inv s -> represents s m -> Forall (op_wf (kt s)) ops -> store_run s ops = Ok (s', outs) ->
  (peak_live m ops <= P)%nat ->
  (forall k v, m !! k = Some v -> blen k < L) -> Forall (op_short L) ops ->
  N.of_nat (n_ge y (keyf s')) <= N.of_nat (n_ge y (keyf s)) + N.of_nat P * sumN (wge y <$> allsz (L + 164)) /\
  N.of_nat (n_ge y (valf s')) <= N.of_nat (n_ge y (valf s)) + N.of_nat P * sumN (wge y <$> allsz (L + 164)).
Proof.
  intros HI HR Hw Hrun Hpk Hm Hsh.
  destruct (run_track_sized s m ops s' outs P L HI HR Hw Hrun Hpk Hm Hsh) as (T1 & T2 & _).
  split; apply track_n_ge_bound; assumption.
Qed.

(** ** 5. Computed examples *)

Lemma wf_by_computation (ops : list dop) :
  forallb (fun o => match o with
                    | Put k v => bytes_okb k && (blen k <? 2 ^ 31) && bytes_okb v && (blen v <? 2 ^ 31)
                    | Get k | Del k | Has k => bytes_okb k && (blen k <? 2 ^ 31)
                    | _ => true
                    end) ops = true ->
  Forall (op_wf KBytes) ops.
Proof.
  assert (Hb : forall bs : bytes, bytes_okb bs = true -> bytes_ok bs).
  { intros bs. unfold bytes_okb, bytes_ok. rewrite forallb_forall, Forall_forall.
    intros Hall b Hin. apply elem_of_list_In in Hin. specialize (Hall b Hin).
    unfold byte_ok. lia. }
  assert (Hk : forall k : bytes, bytes_okb k && (blen k <? 2 ^ 31) = true -> key_wf KBytes k).
  { intros k [Hk1 Hk2]%andb_prop. split; [by apply Hb|]. split; [lia | discriminate]. }
  rewrite forallb_forall, Forall_forall. intros H o Ho. apply elem_of_list_In in Ho.
  specialize (H o Ho). destruct o as [k v | k | k | k | |]; cbn [op_wf]; auto.
  apply andb_prop in H as [H Hv2]. apply andb_prop in H as [H Hv1]. split; [by apply Hk|].
  split; [by apply Hb | lia].
Qed.

Definition run_from_empty (ops : list dop) : store :=
  match store_run (create KBytes 2) ops with Ok (s, _) => s | _ => create KBytes 2 end.

Definition outs_from_empty (ops : list dop) : list dout :=
  match store_run (create KBytes 2) ops with Ok (_, r) => r | _ => [] end.

(** what we observe of a piece file: the length and, for the sizes given, the numbers of slots
    (all, in use) *)
Definition obs {P} (f : pfile P) (ys : list N) : N * list (N * N * N) :=
  (fend f, map (fun y => (y, N.of_nat (n_eq y f), N.of_nat (u_eq y f))) ys).

(** *** a cyclic workload: three entries (value slots of 16, 32 and 112 bytes) are inserted and
    deleted again, three times.  After the first round neither file grows, and no count changes. *)
Definition cyc_round : list dop :=
  [Put [1] (repeat 7 5); Put [2; 2] (repeat 8 30); Put [3; 3; 3] (repeat 9 100);
   Del [1]; Del [2; 2]; Del [3; 3; 3]].
Definition cyc_fill : list dop :=
  [Put [1] (repeat 7 5); Put [2; 2] (repeat 8 30); Put [3; 3; 3] (repeat 9 100)].

Example C06_cyclic_workload_stops_growing :
  let s1 := run_from_empty cyc_round in
  let s2 := run_from_empty (cyc_round ++ cyc_round) in
  let s3 := run_from_empty (cyc_round ++ cyc_round ++ cyc_round) in
  let s3' := run_from_empty (cyc_round ++ cyc_round ++ cyc_fill) in
  let ys := [16; 24; 32; 48; 112; 128] in
  peak_live ∅ (cyc_round ++ cyc_round ++ cyc_round) = 3%nat /\
  obs (valf s1) ys = (192 + 16 + 32 + 112, [(16, 1, 0); (24, 0, 0); (32, 1, 0); (48, 0, 0); (112, 1, 0); (128, 0, 0)]) /\
  obs (valf s2) ys = obs (valf s1) ys /\ obs (valf s3) ys = obs (valf s1) ys /\
  obs (keyf s1) ys = (192 + 16 + 16 + 16, [(16, 3, 0); (24, 0, 0); (32, 0, 0); (48, 0, 0); (112, 0, 0); (128, 0, 0)]) /\
  obs (keyf s2) ys = obs (keyf s1) ys /\ obs (keyf s3) ys = obs (keyf s1) ys /\
  (* in the middle of the third round: same files, every slot in use again *)
  obs (valf s3') ys = (192 + 16 + 32 + 112, [(16, 1, 1); (24, 0, 0); (32, 1, 1); (48, 0, 0); (112, 1, 1); (128, 0, 0)]) /\
  obs (keyf s3') ys = (192 + 16 + 16 + 16, [(16, 3, 3); (24, 0, 0); (32, 0, 0); (48, 0, 0); (112, 0, 0); (128, 0, 0)]).
Proof. vm_compute. repeat split; reflexivity. Qed.

Lemma run_from_empty_ok ops :
  store_run (create KBytes 2) ops = Ok (run_from_empty ops, outs_from_empty ops) ->
  forallb (fun o => match o with
                    | Put k v => bytes_okb k && (blen k <? 2 ^ 31) && bytes_okb v && (blen v <? 2 ^ 31)
                    | Get k | Del k | Has k => bytes_okb k && (blen k <? 2 ^ 31)
                    | _ => true
                    end) ops = true ->
  Inv (create KBytes 2) /\ represents (create KBytes 2) ∅ /\
  Forall (op_wf (kt (create KBytes 2))) ops.
Proof.
  intros _ Hwf. destruct (create_closed KBytes 2 ltac:(lia)) as [HI HR].
  split; [done|]. split; [done|]. by apply wf_by_computation.
Qed.

Lemma short_by_computation L (ops : list dop) :
  forallb (fun o => match o with Put k v => (blen k <? L) && (blen v <? L) | _ => true end) ops = true ->
  Forall (op_short L) ops.
Proof.
  rewrite forallb_forall, Forall_forall. intros H o Ho. apply elem_of_list_In in Ho.
  specialize (H o Ho). destruct o as [k v | k | k | k | |]; cbn [op_short]; auto.
  apply andb_prop in H as [H1 H2]. split; lia.
Qed.

(** the hypotheses of the theorems are satisfiable: applied to the cyclic workload (18
    operations, peak 3) they say that no size has more than 3 slots, and bound the file lengths
    by a number that does not depend on the 18 *)
Example C06_theorems_apply_to_cyclic_workload :
  let ops := cyc_round ++ cyc_round ++ cyc_round in
  let s' := run_from_empty ops in
  (forall y, (n_eq y (keyf s') <= 3)%nat /\ (n_eq y (valf s') <= 3)%nat) /\
  fend (keyf s') <= bound 192 3 101 /\ fend (valf s') <= bound 192 3 101.
Proof.
  intros ops s'.
  assert (store_run (create KBytes 2) ops = Ok (s', outs_from_empty ops)) as Hrun
    by (vm_compute; reflexivity).
  destruct (run_from_empty_ok ops Hrun ltac:(vm_compute; reflexivity)) as (HI & HR & Hw).
  assert (peak_live ∅ ops <= 3)%nat as Hpk by (vm_compute; lia).
  split.
  - intros y. pose proof (C06_bounded_by_peak_live_set _ _ _ _ _ 3%nat HI HR Hw Hrun Hpk y) as [H1 H2].
    change (n_eq y (keyf (create KBytes 2))) with 0%nat in H1.
    change (n_eq y (valf (create KBytes 2))) with 0%nat in H2. lia.
  - apply (C06_file_size_bounded _ _ _ _ _ 3%nat 101 HI HR Hw Hrun Hpk).
    + intros k v Hk. exfalso. revert Hk. exact (lookup_empty_Some (M := gmap bytes) (A := bytes) k v).
    + apply short_by_computation. vm_compute. reflexivity.
Qed.

(** *** a value that outgrows its slot: the old slot is freed before the new one is allocated
    (the file grows by the new size only), and the next request of the old size re-uses it *)
Definition rel_a : list dop := [Put [1] (repeat 7 5); Put [2; 2] (repeat 8 5)].
Definition rel_b : list dop := rel_a ++ [Put [1] (repeat 7 40)].
Definition rel_c : list dop := rel_b ++ [Put [3; 3; 3] (repeat 9 5)].

Example C06_relocation_frees_then_reuses :
  let ys := [16; 48] in
  obs (valf (run_from_empty rel_a)) ys = (192 + 16 + 16, [(16, 2, 2); (48, 0, 0)]) /\
  obs (valf (run_from_empty rel_b)) ys = (192 + 16 + 16 + 48, [(16, 2, 1); (48, 1, 1)]) /\
  obs (valf (run_from_empty rel_c)) ys = (192 + 16 + 16 + 48, [(16, 2, 2); (48, 1, 1)]) /\
  outs_from_empty (rel_c ++ [Get [1]; Get [3; 3; 3]]) =
    [DUnit; DUnit; DUnit; DUnit; DOpt (Some (repeat 7 40)); DOpt (Some (repeat 9 5))].
Proof. vm_compute. repeat split; reflexivity. Qed.

(** *** the threshold variant of the statement is false *)

(** The statement "for every [y], the number of slots of size at least [y] never exceeds
    max(start, peak live count)" fails for small [y]: one live entry whose value grows from class
    16 to class 24 leaves two slots of size at least 16 ... *)
Definition cex_small : list dop := [Put [1] (repeat 7 5); Del [1]; Put [1] (repeat 7 20)].

(** ... and it fails for large [y] too, because the shared list of large slots is searched first
    fit: a free slot of 1024 bytes cannot serve a request of 1152, the file is extended, and there
    are two slots of size at least 1024 with a single live entry.  (Repeating the pattern with
    ever larger values gives one more large slot each time.) *)
Definition cex_large : list dop := [Put [1] (repeat 7 1000); Del [1]; Put [1] (repeat 7 1100)].

Definition n_ge_claim : Prop :=
  forall s m ops s' outs P, Inv s -> represents s m -> Forall (op_wf (kt s)) ops ->
    store_run s ops = Ok (s', outs) -> (peak_live m ops <= P)%nat ->
    forall y, is_large val_cfg y = true -> (n_ge y (valf s') <= max (n_ge y (valf s)) P)%nat.

Definition n_ge_claim_all_y : Prop :=
  forall s m ops s' outs P, Inv s -> represents s m -> Forall (op_wf (kt s)) ops ->
    store_run s ops = Ok (s', outs) -> (peak_live m ops <= P)%nat ->
    forall y, (n_ge y (valf s') <= max (n_ge y (valf s)) P)%nat.

Lemma C06_n_ge_refuted_large : ~ n_ge_claim.
Proof.
  intros H.
  assert (store_run (create KBytes 2) cex_large = Ok (run_from_empty cex_large, outs_from_empty cex_large))
    as Hrun by (vm_compute; reflexivity).
  destruct (run_from_empty_ok cex_large Hrun ltac:(vm_compute; reflexivity)) as (HI & HR & Hw).
  assert (peak_live ∅ cex_large <= 1)%nat as Hpk by (vm_compute; lia).
  specialize (H _ _ _ _ _ 1%nat HI HR Hw Hrun Hpk 1024 eq_refl).
  vm_compute in H. lia.
Qed.

Lemma C06_n_ge_refuted_small : ~ n_ge_claim_all_y.
Proof.
  intros H.
  assert (store_run (create KBytes 2) cex_small = Ok (run_from_empty cex_small, outs_from_empty cex_small))
    as Hrun by (vm_compute; reflexivity).
  destruct (run_from_empty_ok cex_small Hrun ltac:(vm_compute; reflexivity)) as (HI & HR & Hw).
  assert (peak_live ∅ cex_small <= 1)%nat as Hpk by (vm_compute; lia).
  specialize (H _ _ _ _ _ 1%nat HI HR Hw Hrun Hpk 16).
  vm_compute in H. lia.
Qed.

(** the same at the allocator level: one call of [write_piece] on a file with a free slot of 1024
    bytes, request 1152: [n_ge 1024] goes from 1 to 2 while one slot of that size is in use *)
Example C06_n_ge_one_call :
  let s1 := run_from_empty [Put [1] (repeat 7 1000); Del [1]] in
  match write_piece val_cfg (val_need 1100) (valf s1) None (repeat 7 1100) with
  | Ok (f', _, sz) =>
    sz = 1152 /\ n_ge 1024 (valf s1) = 1%nat /\ n_ge 1024 f' = 2%nat /\ u_ge 1024 f' = 1%nat /\
    free_in 1024 1152 f' = 1%nat /\ n_ge 1152 f' = 1%nat /\ u_ge 1152 f' = 1%nat
  | _ => False
  end.
Proof. vm_compute. repeat split; reflexivity. Qed.

Print Assumptions C06_bounded_by_peak_live_set.
Print Assumptions C06_file_size_bounded.
Print Assumptions C06_n_ge_bounded.
Print Assumptions C06_counts_monotone.
Print Assumptions fend_is_sum.
Print Assumptions used_is_live.
Print Assumptions astep_n_eq.
Print Assumptions astep_n_ge.
Print Assumptions C06_n_ge_refuted_large.
Print Assumptions C06_n_ge_refuted_small.
Print Assumptions C06_theorems_apply_to_cyclic_workload.
