(** * Io_cache: the map operations over ANY buffer configuration (Io over Cache).

    Two halves meet here:
    - Io_flat.v / Io_flat_ro.v: every operation of the byte-level I/O model [Io] is, file by file, a
      run of canonical buffer calls whose events are exactly the logged ones ([calls_between]); for
      the read-only operations on the images of a reachable state the run is inside the domain of
      the extended flat reference ([in_domain]: [xrun] is [Some], ending in the files of the
      state after the call);
    - Cache_x.v: a cache ([Cache.Rabuf], the model of rabuf's BufFile) that represents a flat file
      ([R], [cache_invx]) answers every [xrun] as the flat file does, for every chunk table, every
      number of chunks, every auto/per-mille setting, and after [flush] the disk holds the flat
      bytes ([cache_refines_xflat]).

    Composition: put a cache in front of each of the three files ([backs]: any configuration whose
    chunk size is the one the [Io] state records - it decides where a [write] of the map layer is
    split, so it is part of the call sequence).  Then the calls the operation performs on that file,
    issued against the cache, return exactly the results the flat file returned to [Io] - so the
    operation computes the same result - and leave a cache that represents the file after the
    operation, whose flush puts exactly those bytes on the disk.  The configuration of the buffer
    (number of chunks, per-mille / auto growth, what is cached and what was evicted) cannot be
    observed through the map. *)
From Coq Require Import Lia ZifyN ZifyNat ZifyBool.
From Aby Require Import Base Vu64 Hash KeyTypes Consts Sizing Alloc Htx Store Iter Stats Layout Spec Cache Cache_proofs
  Refine_all Flatx Cache_x Io Io_base Io_htx Io_run Io_flat Io_flat_ro.
Import Io Rabuf.
#[local] Open Scope N_scope.

(** a cache in front of the flat file [x] *)
Definition backs (c : cache) (x : Io.file) : Prop :=
  cache_invx c /\ R c (flat_of x) /\ k_cs c = fcs x.

(** [cache_refines_xflat], keeping track of the chunk size *)
Lemma cache_refines_xflat_cs ops : forall fuel c f f' outs,
  cache_invx c -> R c f -> xrun (k_cs c) f ops = Some (f', outs) -> (xrun_fuel (k_cs c) f ops <= fuel)%nat ->
  exists c', crun fuel c ops = Ok (c', outs) /\ cache_invx c' /\ R c' f' /\ k_cs c' = k_cs c.
Proof.
  induction ops as [|o rest IH]; intros fuel c f f' outs I HR Hrun Hfuel.
  - cbn in Hrun. injection Hrun as <- <-. exists c. auto.
  - cbn [xrun] in Hrun. cbn [xrun_fuel] in Hfuel.
    destruct (xstep (k_cs c) f o) as [[f1 r]|] eqn:Es; [|discriminate]. cbn in Hrun.
    destruct (xrun (k_cs c) f1 rest) as [[f2 rs]|] eqn:Er; [|discriminate]. cbn in Hrun. injection Hrun as <- <-.
    destruct (cstep_refines_x fuel c f o f1 r I HR Es ltac:(lia)) as (c1 & E1 & I1 & R1 & C1 & A1).
    rewrite <- C1 in Er, Hfuel.
    destruct (IH fuel c1 f1 f2 rs I1 R1 Er ltac:(lia)) as (c2 & E2 & I2 & R2 & C2).
    exists c2. cbn [crun]. rewrite E1. cbn [rbind]. rewrite E2. cbn [rbind].
    split; [reflexivity|]. split; [exact I2|]. split; [exact R2|congruence].
Qed.

(** what a step inside the domain means for a cache in front of file [f]: [calls] are the calls of
    the step on that file ([evs_on f] of the logged events are their events) *)
Definition served_by_cache (s s' : st) (f : fid) (calls : list call) : Prop :=
  forall c fuel, backs c (get_file s f) ->
    (xrun_fuel (k_cs c) (flat_of (get_file s f)) (map call_op calls) <= fuel)%nat ->
    exists c',
      crun fuel c (map call_op calls) = Ok (c', touts (flat_of (get_file s f)) calls) /\
      backs c' (get_file s' f) /\
      logical c' = fb (get_file s' f) /\
      exists c'', flush c' = Ok c'' /\ k_disk c'' = fb (get_file s' f).

Theorem in_domain_served s s' : in_domain s s' ->
  exists (cf : fid -> list call) evs,
    s_log s' = rev evs ++ s_log s /\
    (forall f, evs_on f evs = tevs f (flat_of (get_file s f)) (cf f)) /\
    forall f, served_by_cache s s' f (cf f).
Proof.
  intros (cf & evs & Hlog & Htr & Hev & _ & _ & Hx).
  exists cf, evs. split; [exact Hlog|]. split; [exact Hev|].
  intros f c fuel (I & HR & Hcs) Hfuel.
  pose proof (Hx f) as Hxf. rewrite <- Hcs in Hxf.
  destruct (cache_refines_xflat _ fuel c _ _ _ I HR Hxf Hfuel) as (c' & Ec & I' & R' & Hl & c'' & Ef & Hd).
  destruct (cache_refines_xflat_cs _ fuel c _ _ _ I HR Hxf Hfuel) as (c2 & Ec2 & _ & _ & Hcs2).
  rewrite Ec in Ec2. injection Ec2 as <-.
  exists c'. split; [exact Ec|]. split.
  - split; [exact I'|]. split; [exact R'|]. destruct (Htr f) as [_ Hfcs]. congruence.
  - split; [exact Hl|]. exists c''. split; [exact Ef|exact Hd].
Qed.

(** the same for ANY way of making the calls (the [VarFile] primitive behind a read may be
    [read_exact], one of the [SmallRead] fast paths, ...; behind a write [write_all], [write] of a
    piece that fits the chunk, a [SmallWrite] fast path; behind a seek any [SeekFrom] arriving at
    the position): the variant list, related call by call by [Cache_x.same_call], is served with
    the same results up to the byte count a partial write reports *)
Theorem in_domain_served_variants s s' : in_domain s s' ->
  exists (cf : fid -> list call),
    forall f c fuel ops', backs c (get_file s f) ->
      same_calls (k_cs c) (flat_of (get_file s f)) (map call_op (cf f)) ops' ->
      (xrun_fuel (k_cs c) (flat_of (get_file s f)) (map call_op (cf f)) <= fuel)%nat ->
      exists c' outs',
        crun fuel c ops' = Ok (c', outs') /\
        map norm_out outs' = map norm_out (touts (flat_of (get_file s f)) (cf f)) /\
        cache_invx c' /\ R c' (flat_of (get_file s' f)) /\
        exists c'', flush c' = Ok c'' /\ k_disk c'' = fb (get_file s' f).
Proof.
  intros (cf & evs & _ & _ & _ & _ & _ & Hx).
  exists cf. intros f c fuel ops' (I & HR & Hcs) Hs Hfuel.
  pose proof (Hx f) as Hxf. rewrite <- Hcs in Hxf.
  destruct (cache_refines_xflat_variants _ ops' fuel c _ _ _ I HR Hs Hxf Hfuel)
    as (c' & outs' & Ec & Hn & I' & R' & _ & c'' & Ef & Hd).
  exists c', outs'. split; [exact Ec|]. split; [exact Hn|]. split; [exact I'|]. split; [exact R'|].
  exists c''. split; [exact Ef|exact Hd].
Qed.

(** every buffer setting the crate accepts (all but the known finding D8) gives such a cache for
    the file as it is on the disk *)
Theorem every_setting_backs b disk c chunk :
  (forall p, b = BPerMilleP p -> 1000 <= p) ->
  open_param b disk = Ok c -> k_cs c = chunk ->
  backs c (File disk 0 chunk).
Proof.
  intros Hb Ho Hc. destruct (inv_open_param b disk c Ho Hb) as (I & HR).
  split; [exact (inv_invx c I)|]. split; [exact HR|exact Hc].
Qed.

(** ** the read-only operations after ANY history, over ANY buffer configuration *)
Theorem readonly_over_any_cache t n bk bv bh ops :
  1 <= n -> pow2 n -> Forall (op_wf t) ops -> sized (Store.create t n) ops ->
  exists m0 m' s',
    Io.create t n bk bv bh = Ok m0 /\
    store_run (Store.create t n) ops = Ok (s', snd (spec_run ∅ ops)) /\
    io_run m0 ops = Ok (m', snd (spec_run ∅ ops)) /\
    render s' = Ok (Io.images m') /\
    (forall key r, Store.get s' key = Ok r ->
       exists m2, Io.get m' key = Ok (r, m2) /\ Io.images m2 = Io.images m' /\
         exists cf, forall f, served_by_cache (m_st m') (m_st m2) f (cf f)) /\
    (forall key r, Store.has s' key = Ok r ->
       exists m2, Io.has m' key = Ok (r, m2) /\ Io.images m2 = Io.images m' /\
         exists cf, forall f, served_by_cache (m_st m') (m_st m2) f (cf f)) /\
    (exists m2, Io.len m' = Ok (Store.len s', m2) /\ Io.images m2 = Io.images m' /\
         exists cf, forall f, served_by_cache (m_st m') (m_st m2) f (cf f)) /\
    (forall items h ex, Iter.iter_run s' = Ok (items, h, ex) ->
       exists m2, Io.iter_run m' = Ok (items, h, ex, m2) /\ Io.images m2 = Io.images m' /\
         exists cf, forall f, served_by_cache (m_st m') (m_st m2) f (cf f)) /\
    (forall r, Stats.stats_of s' = Ok r ->
       exists m2, Io.stats_of m' = Ok (r, m2) /\ Io.images m2 = Io.images m' /\
         exists cf, forall f, served_by_cache (m_st m') (m_st m2) f (cf f)).
Proof.
  intros Hn Hp Hops Hsz.
  destruct (history_then_readonly_in_domain t n bk bv bh ops Hn Hp Hops Hsz)
    as (m0 & m' & s' & Hc & Hrun & Hio & Hr & _ & _ & Hget & Hhas & Hlen & Hit & Hst).
  assert (S : forall a b, in_domain a b -> exists cf, forall f, served_by_cache a b f (cf f)).
  { intros a b H. destruct (in_domain_served a b H) as (cf & evs & _ & _ & Hs). exists cf. exact Hs. }
  exists m0, m', s'. split; [exact Hc|]. split; [exact Hrun|]. split; [exact Hio|]. split; [exact Hr|].
  split; [|split; [|split; [|split]]].
  - intros key r Hg. destruct (Hget key r Hg) as (m2 & E & D & Im). exists m2. split; [exact E|]. split; [exact Im|exact (S _ _ D)].
  - intros key r Hg. destruct (Hhas key r Hg) as (m2 & E & D & Im). exists m2. split; [exact E|]. split; [exact Im|exact (S _ _ D)].
  - destruct Hlen as (m2 & E & D & Im). exists m2. split; [exact E|]. split; [exact Im|exact (S _ _ D)].
  - intros items h ex Hg. destruct (Hit items h ex Hg) as (m2 & E & D & Im). exists m2. split; [exact E|]. split; [exact Im|exact (S _ _ D)].
  - intros r Hg. destruct (Hst r Hg) as (m2 & E & D & Im). exists m2. split; [exact E|]. split; [exact Im|exact (S _ _ D)].
Qed.

(** ** a session whose logged events pass [evs_ok] (decidable on a REAL trace): served by any cache
    from the empty files on; this is the statement the census of the correspondence runs feeds *)
Theorem checked_session_over_any_cache bk bv bh s' :
  calls_between (empty_st bk bv bh) s' ->
  (forall f, evs_ok (fcs (get_file (empty_st bk bv bh) f)) f 0 0 (rev (s_log s')) = true) ->
  in_domain (empty_st bk bv bh) s'.
Proof.
  intros Hcb Hev. destruct Hcb as (cf & Htr & evs & Hlog & Hon).
  assert (Hl : rev (s_log s') = evs).
  { rewrite Hlog. cbn [empty_st s_log]. rewrite app_nil_r, rev_involutive. reflexivity. }
  exists cf, evs. split; [exact Hlog|]. split; [exact Htr|]. split; [exact Hon|].
  assert (Hok : forall f, calls_ok (fcs (get_file (empty_st bk bv bh) f)) (flat_of (get_file (empty_st bk bv bh) f)) (cf f) = true).
  { intros f. pose proof (Hev f) as H. rewrite Hl in H.
    rewrite <- (evs_ok_on _ f) in H. rewrite (Hon f) in H.
    rewrite <- (evs_ok_calls _ f). destruct f; exact H. }
  split; [exact Hok|]. split.
  - intros f. pose proof (Hev f) as H. rewrite Hl in H. destruct f; exact H.
  - intros f. destruct (calls_ok_xrun _ _ _ (Hok f)) as (outs & Hx & ->). destruct (Htr f) as [Ht _]. rewrite <- Ht. exact Hx.
Qed.

(** the same for ANY step (not only a session from the empty files): a step of [Io] whose new
    events pass [evs_ok], started at the positions and lengths of the state before it, is inside
    the domain.  The correspondence runner evaluates exactly this test ([evs_ok], extracted) on
    every call of every history it runs, on event lists that are compared with the real trace. *)
Theorem checked_step_in_domain s s' evs :
  calls_between s s' -> s_log s' = rev evs ++ s_log s ->
  (forall f, evs_ok (fcs (get_file s f)) f (fp (get_file s f)) (fend (get_file s f)) evs = true) ->
  in_domain s s'.
Proof.
  intros (cf & Htr & evs1 & Hlog1 & Hon) Hlog Hev.
  assert (evs1 = evs).
  { rewrite Hlog1 in Hlog. apply app_inv_tail in Hlog. apply (f_equal (@rev ev)) in Hlog.
    rewrite !rev_involutive in Hlog. exact Hlog. }
  subst evs1.
  exists cf, evs. split; [exact Hlog|]. split; [exact Htr|]. split; [exact Hon|].
  assert (Hok : forall f, calls_ok (fcs (get_file s f)) (flat_of (get_file s f)) (cf f) = true).
  { intros f. pose proof (Hev f) as H.
    rewrite <- (evs_ok_on _ f) in H. rewrite (Hon f) in H.
    rewrite <- (evs_ok_calls _ f). exact H. }
  split; [exact Hok|]. split; [exact Hev|].
  intros f. destruct (calls_ok_xrun _ _ _ (Hok f)) as (outs & Hx & ->). destruct (Htr f) as [Ht _]. rewrite <- Ht. exact Hx.
Qed.

Print Assumptions checked_step_in_domain.
Print Assumptions in_domain_served.
Print Assumptions in_domain_served_variants.
Print Assumptions every_setting_backs.
Print Assumptions readonly_over_any_cache.
Print Assumptions checked_session_over_any_cache.

(** ** the calls as they are really made (Io_methods.v): each read and write through the method of
    the buffered file the crate's [VarFile] forwards it to, each seek through any [SeekFrom]
    arriving at the logged position - inside the guards the correspondence runs check on the real
    trace ([read_guard], [write_guard]) - are served by any cache with the results of the flat
    file, up to the byte count a partial [write] reports *)
From Aby Require Import Io_methods.

Theorem in_domain_served_as_made s s' : in_domain s s' ->
  exists (cf : fid -> list call),
    forall f c fuel ops', backs c (get_file s f) ->
      made_via_all (k_cs c) (flat_of (get_file s f)) (cf f) ops' ->
      (xrun_fuel (k_cs c) (flat_of (get_file s f)) (map call_op (cf f)) <= fuel)%nat ->
      exists c' outs',
        crun fuel c ops' = Ok (c', outs') /\
        map norm_out outs' = map norm_out (touts (flat_of (get_file s f)) (cf f)) /\
        cache_invx c' /\ R c' (flat_of (get_file s' f)) /\
        exists c'', flush c' = Ok c'' /\ k_disk c'' = fb (get_file s' f).
Proof.
  intros (cf & evs & _ & _ & _ & Hok & _ & Hx).
  exists cf. intros f c fuel ops' (I & HR & Hcs) Hm Hfuel.
  pose proof (Hx f) as Hxf. rewrite <- Hcs in Hxf.
  pose proof (Hok f) as Hokf. rewrite <- Hcs in Hokf.
  pose proof (made_via_all_same_calls _ _ _ _ Hokf Hm) as Hs.
  destruct (cache_refines_xflat_variants _ ops' fuel c _ _ _ I HR Hs Hxf Hfuel)
    as (c' & outs' & Ec & Hn & I' & R' & _ & c'' & Ef & Hd).
  exists c', outs'. split; [exact Ec|]. split; [exact Hn|]. split; [exact I'|]. split; [exact R'|].
  exists c''. split; [exact Ef|exact Hd].
Qed.

Print Assumptions in_domain_served_as_made.
