(** * Flatx: the flat reference of Cache.v extended to reads beyond the end of the file.

    [Rabuf.fstep] (Cache.v) leaves a read that ends beyond the end of the file outside its
    domain.  The map layer performs such reads: the 8-byte stride over the bucket bitmap of the
    table file reads up to 6 bytes beyond the end (Io.v, [scan64]).  rabuf answers them with
    zeros, moves the position beyond the end and does not extend the file - as long as every
    chunk the read touches starts at or below the end ([Chunk::new] computes [end - offset] with
    a checked subtraction).  [xstep] is [fstep] with exactly that added:

    - a read ([ORead], [OReadPart], [OReadSmall]) may end beyond the end when the last chunk it
      touches starts at or below the end ([xread_ok]); the missing bytes read as zero;
    - afterwards the position may be beyond the end; a seek is specified from there (as in
      [fstep]: arriving beyond the end extends the file), every other call is specified only with
      the position at or below the end.

    Definitions only; Cache_x.v proves that the cache refines [xrun], Io_flat.v that every call
    of the byte-level I/O model is an [xrun] of its logged events. *)
From Aby Require Import Base Cache.
Import Rabuf.

Definition xread (f : flat) (n : N) : flat * bytes :=
  let b := sub (f_bytes f) (f_pos f) n in
  (Flat (f_pos f + n) (f_bytes f), b ++ zeros (n - blen b)).

(** the last chunk touched by a read of [n] bytes starts at or below the end *)
Definition xread_ok (cs : N) (f : flat) (n : N) : bool :=
  chunk_off cs (f_pos f + (n - 1)) <=? f_end f.

Definition xread_out (cs : N) (f : flat) (n : N) : option (flat * out) :=
  if xread_ok cs f n then let '(f1, b) := xread f n in Some (f1, RData b) else None.

Definition xstep (cs : N) (f : flat) (o : op) : option (flat * out) :=
  match o with
  | OSeek _ => fstep cs f o
  | ORead n => xread_out cs f n
  | OReadPart n => xread_out cs f (N.min n (to_boundary cs (f_pos f)))
  | OReadSmall chk need n =>
    if (chk && (cs <? n)) || (need <? n) then None else xread_out cs f n
  | _ => if f_pos f <=? f_end f then fstep cs f o else None
  end.

Fixpoint xrun (cs : N) (f : flat) (ops : list op) : option (flat * list out) :=
  match ops with
  | [] => Some (f, [])
  | o :: rest =>
    '(f1, r) ← xstep cs f o;
    '(f2, rs) ← xrun cs f1 rest;
    Some (f2, r :: rs)
  end.
