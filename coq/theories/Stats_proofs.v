(** * Stats_proofs: property C17 - the storage statistics report the true structure and
    terminate on every reachable state. *)
From Coq Require Import Lia ZifyN ZifyNat ZifyBool.
From Aby Require Import Base Vu64 Hash KeyTypes Consts Sizing Alloc AllocInv AllocInv_proofs
  Htx Htx_proofs Store Spec Stats Refine Refine_all.

(** ** 1. Histograms *)

(** the counter stored for [x] (0: no entry) *)
Fixpoint hcount (h : list (N * N)) (x : N) : N :=
  match h with
  | [] => 0
  | (a, c) :: h' => if a =? x then c else hcount h' x
  end.

(** every key of [h] is above [lo] *)
Definition habove (lo : N) (h : list (N * N)) : Prop := Forall (fun p => lo < fst p) h.

(** strictly sorted by key, positive counters *)
Inductive hsorted : list (N * N) -> Prop :=
| hs_nil : hsorted []
| hs_cons a c h : 0 < c -> habove a h -> hsorted h -> hsorted ((a, c) :: h).

Lemma habove_trans lo lo' h : lo' <= lo -> habove lo h -> habove lo' h.
Proof.
  intros Hle Hab. unfold habove in *. eapply Forall_impl; [exact Hab|].
  intros p Hp. cbn beta in *. lia.
Qed.

Lemma hcount_above lo h x : habove lo h -> x <= lo -> hcount h x = 0.
Proof.
  induction h as [|[a c] h IH]; intros Hab Hx; [reflexivity|].
  apply Forall_cons in Hab as [Ha Hab]. cbn [fst] in Ha. cbn [hcount].
  destruct (N.eqb_spec a x) as [Hax|Hax]; [lia|]. apply IH; assumption.
Qed.

Lemma touch_hist_above lo h x : habove lo h -> lo < x -> habove lo (touch_hist h x).
Proof.
  induction h as [|[a c] h IH]; intros Hab Hx; cbn [touch_hist].
  - apply Forall_cons. split; [exact Hx | apply Forall_nil; exact I].
  - pose proof Hab as Hab0. apply Forall_cons in Hab as [Ha Hab]. cbn [fst] in Ha.
    destruct (N.ltb_spec x a) as [Hlt|Hge].
    + apply Forall_cons. split; [exact Hx | exact Hab0].
    + destruct (N.eqb_spec x a) as [Heq|Hne].
      * apply Forall_cons. split; [exact Ha | exact Hab].
      * apply Forall_cons. split; [exact Ha | apply IH; assumption].
Qed.

Lemma touch_hist_sorted h x : hsorted h -> hsorted (touch_hist h x).
Proof.
  induction 1 as [|a c h Hc Hab Hs IH]; cbn [touch_hist].
  - constructor; [lia | apply Forall_nil; exact I | constructor].
  - destruct (N.ltb_spec x a) as [Hlt|Hge].
    + constructor; [lia | | constructor; assumption].
      apply Forall_cons. split; [exact Hlt|].
      apply (habove_trans a); [lia | exact Hab].
    + destruct (N.eqb_spec x a) as [Heq|Hne].
      * constructor; [lia | exact Hab | exact Hs].
      * constructor; [exact Hc | | exact IH]. apply touch_hist_above; [exact Hab | lia].
Qed.

Lemma touch_hist_count h x y : hsorted h ->
  hcount (touch_hist h x) y = hcount h y + (if y =? x then 1 else 0).
Proof.
  induction 1 as [|a c h Hc Hab Hs IH]; cbn [touch_hist].
  - cbn [hcount]. rewrite (N.eqb_sym x y). destruct (y =? x); reflexivity.
  - destruct (N.ltb_spec x a) as [Hlt|Hge].
    + cbn [hcount]. destruct (N.eqb_spec x y) as [Hxy|Hxy].
      * subst y. destruct (N.eqb_spec a x) as [Hax|Hax]; [lia|].
        rewrite N.eqb_refl. rewrite (hcount_above a h x Hab) by lia. reflexivity.
      * destruct (N.eqb_spec y x) as [Hyx|Hyx]; [congruence|]. lia.
    + destruct (N.eqb_spec x a) as [Heq|Hne].
      * subst a. cbn [hcount]. rewrite (N.eqb_sym y x).
        destruct (N.eqb_spec x y) as [Hxy|Hxy]; lia.
      * cbn [hcount]. destruct (N.eqb_spec a y) as [Hay|Hay].
        -- subst y. destruct (N.eqb_spec a x) as [Hax|Hax]; [congruence|]. lia.
        -- exact IH.
Qed.

(** an entry is present iff its counter is positive *)
Lemma hcount_pos_iff h x : hsorted h -> (x ∈ map fst h <-> 0 < hcount h x).
Proof.
  induction 1 as [|a c h Hc Hab Hs IH]; cbn [map hcount fst].
  - split; [intros Hin; apply elem_of_nil in Hin; contradiction | lia].
  - rewrite elem_of_cons. destruct (N.eqb_spec a x) as [Hax|Hax].
    + subst x. split; [intros _; exact Hc | intros _; left; reflexivity].
    + rewrite <- IH. split; [intros [Heq|Hin]; [congruence | exact Hin] | intros Hin; right; exact Hin].
Qed.

(** the stored counter of an entry is the counter [hcount] reports *)
Lemma hcount_elem h x n : hsorted h -> ((x, n) ∈ h <-> hcount h x = n /\ 0 < n).
Proof.
  induction 1 as [|a c h Hc Hab Hs IH]; cbn [hcount].
  - split; [intros Hin; apply elem_of_nil in Hin; contradiction | lia].
  - rewrite elem_of_cons. destruct (N.eqb_spec a x) as [Hax|Hax].
    + subst x. split.
      * intros [Heq|Hin]; [inversion Heq; subst; split; [reflexivity | exact Hc]|].
        exfalso. unfold habove in Hab. rewrite Forall_forall in Hab.
        specialize (Hab _ Hin). cbn [fst] in Hab. lia.
      * intros [Heq Hn]. left. congruence.
    + rewrite <- IH. split; [intros [Heq|Hin]; [congruence | exact Hin] | intros Hin; right; exact Hin].
Qed.

(** ** counting with a boolean predicate *)
Definition countb {A} (p : A -> bool) (l : list A) : nat := length (filter (fun a => p a) l).

Lemma countb_nil {A} (p : A -> bool) : countb p [] = 0%nat.
Proof. reflexivity. Qed.

Lemma countb_cons {A} (p : A -> bool) a l :
  countb p (a :: l) = ((if p a then 1 else 0) + countb p l)%nat.
Proof.
  unfold countb. rewrite filter_cons. destruct (p a) eqn:E.
  - rewrite decide_True by exact I. reflexivity.
  - rewrite decide_False by (intros []). reflexivity.
Qed.

Lemma countb_ext {A} (p q : A -> bool) l : (forall a, a ∈ l -> p a = q a) -> countb p l = countb q l.
Proof.
  induction l as [|a l IH]; intros Hpq; [reflexivity|].
  rewrite !countb_cons. rewrite (Hpq a) by (left). rewrite IH; [reflexivity|].
  intros b Hb. apply Hpq. right. exact Hb.
Qed.

Lemma countb_map {A B} (f : A -> B) (p : B -> bool) l : countb p (map f l) = countb (fun a => p (f a)) l.
Proof.
  induction l as [|a l IH]; [reflexivity|]. cbn [map]. rewrite !countb_cons, IH. reflexivity.
Qed.

Lemma countb_perm {A} (p : A -> bool) l k : l ≡ₚ k -> countb p l = countb p k.
Proof. intros Hp. unfold countb. rewrite Hp. reflexivity. Qed.

(** ** the two folds *)
Section folds.
Context {P : Type}.
Variable len : slot P -> N.

Lemma size_hist_gen (l : list (N * slot P)) : forall h, hsorted h ->
  let r := fold_left (fun h os => if len (snd os) =? 0 then h else touch_hist h (slot_size (snd os))) l h in
  hsorted r /\
  forall x, hcount r x =
    hcount h x + N.of_nat (countb (fun os => negb (len os.2 =? 0) && (slot_size os.2 =? x)) l).
Proof.
  induction l as [|os l IH]; intros h Hh; cbn zeta.
  - cbn [fold_left]. split; [exact Hh|]. intros x. rewrite countb_nil. lia.
  - cbn [fold_left]. destruct (N.eqb_spec (len os.2) 0) as [Hz|Hnz].
    + destruct (IH h Hh) as [Hs Hc]. split; [exact Hs|]. intros x. rewrite Hc, countb_cons.
      destruct (N.eqb_spec (len os.2) 0) as [_|Hne]; [|contradiction]. cbn [negb andb]. lia.
    + destruct (IH (touch_hist h (slot_size os.2)) (touch_hist_sorted _ _ Hh)) as [Hs Hc].
      split; [exact Hs|]. intros x. rewrite Hc, countb_cons, touch_hist_count by exact Hh.
      destruct (N.eqb_spec (len os.2) 0) as [He|_]; [contradiction|]. cbn [negb andb].
      rewrite (N.eqb_sym (slot_size os.2) x). destruct (x =? slot_size os.2); lia.
Qed.

Lemma len_hist_gen (l : list (N * slot P)) : forall h, hsorted h ->
  let r := fold_left (fun h os => if len (snd os) =? 0 then h else touch_hist h (len (snd os))) l h in
  hsorted r /\
  forall x, hcount r x =
    hcount h x + N.of_nat (countb (fun os => negb (len os.2 =? 0) && (len os.2 =? x)) l).
Proof.
  induction l as [|os l IH]; intros h Hh; cbn zeta.
  - cbn [fold_left]. split; [exact Hh|]. intros x. rewrite countb_nil. lia.
  - cbn [fold_left]. destruct (N.eqb_spec (len os.2) 0) as [Hz|Hnz].
    + destruct (IH h Hh) as [Hs Hc]. split; [exact Hs|]. intros x. rewrite Hc, countb_cons.
      destruct (N.eqb_spec (len os.2) 0) as [_|Hne]; [|contradiction]. cbn [negb andb]. lia.
    + destruct (IH (touch_hist h (len os.2)) (touch_hist_sorted _ _ Hh)) as [Hs Hc].
      split; [exact Hs|]. intros x. rewrite Hc, countb_cons, touch_hist_count by exact Hh.
      destruct (N.eqb_spec (len os.2) 0) as [He|_]; [contradiction|]. cbn [negb andb].
      rewrite (N.eqb_sym (len os.2) x). destruct (x =? len os.2); lia.
Qed.

Lemma size_hist_sorted (l : list (N * slot P)) : hsorted (size_hist len l).
Proof. exact (proj1 (size_hist_gen l [] hs_nil)). Qed.

Lemma len_hist_sorted (l : list (N * slot P)) : hsorted (len_hist len l).
Proof. exact (proj1 (len_hist_gen l [] hs_nil)). Qed.

Lemma size_hist_spec (l : list (N * slot P)) x :
  hcount (size_hist len l) x =
  N.of_nat (length (filter (fun os => negb (len os.2 =? 0) && (slot_size os.2 =? x)) l)).
Proof. unfold size_hist. rewrite (proj2 (size_hist_gen l [] hs_nil) x). cbn [hcount]. unfold countb. lia. Qed.

Lemma len_hist_spec (l : list (N * slot P)) x :
  hcount (len_hist len l) x =
  N.of_nat (length (filter (fun os => negb (len os.2 =? 0) && (len os.2 =? x)) l)).
Proof. unfold len_hist. rewrite (proj2 (len_hist_gen l [] hs_nil) x). cbn [hcount]. unfold countb. lia. Qed.

(** an entry is present in the histogram iff its counter is positive, i.e. iff some slot counts *)
Lemma size_hist_present (l : list (N * slot P)) x :
  x ∈ map fst (size_hist len l) <->
  exists os, os ∈ l /\ len os.2 <> 0 /\ slot_size os.2 = x.
Proof.
  rewrite (hcount_pos_iff _ _ (size_hist_sorted l)), size_hist_spec. split.
  - intros Hpos. destruct (filter _ l) as [|os k] eqn:E; [cbn in Hpos; lia|].
    assert (Hin : os ∈ filter (fun os => negb (len os.2 =? 0) && (slot_size os.2 =? x)) l)
      by (rewrite E; left).
    apply elem_of_list_filter in Hin as [Hp Hin]. exists os. split; [exact Hin|].
    apply andb_prop_elim in Hp as [Hp1 Hp2]. apply negb_prop_elim in Hp1.
    apply Is_true_eq_true in Hp2. apply N.eqb_eq in Hp2. split; [|exact Hp2].
    intros Hz. apply Hp1. rewrite Hz. exact I.
  - intros (os & Hin & Hnz & Hx).
    assert (Hin' : os ∈ filter (fun os => negb (len os.2 =? 0) && (slot_size os.2 =? x)) l).
    { apply elem_of_list_filter. split; [|exact Hin]. apply andb_prop_intro. split.
      - apply negb_prop_intro. intros Hz. apply Is_true_eq_true, N.eqb_eq in Hz. contradiction.
      - apply Is_true_eq_left, N.eqb_eq. exact Hx. }
    destruct (filter _ l) as [|a k]; [apply elem_of_nil in Hin'; contradiction|]. cbn [length]. lia.
Qed.

Lemma len_hist_present (l : list (N * slot P)) x :
  x ∈ map fst (len_hist len l) <->
  exists os, os ∈ l /\ len os.2 <> 0 /\ len os.2 = x.
Proof.
  rewrite (hcount_pos_iff _ _ (len_hist_sorted l)), len_hist_spec. split.
  - intros Hpos. destruct (filter _ l) as [|os k] eqn:E; [cbn in Hpos; lia|].
    assert (Hin : os ∈ filter (fun os => negb (len os.2 =? 0) && (len os.2 =? x)) l)
      by (rewrite E; left).
    apply elem_of_list_filter in Hin as [Hp Hin]. exists os. split; [exact Hin|].
    apply andb_prop_elim in Hp as [Hp1 Hp2]. apply negb_prop_elim in Hp1.
    apply Is_true_eq_true in Hp2. apply N.eqb_eq in Hp2. split; [|exact Hp2].
    intros Hz. apply Hp1. rewrite Hz. exact I.
  - intros (os & Hin & Hnz & Hx).
    assert (Hin' : os ∈ filter (fun os => negb (len os.2 =? 0) && (len os.2 =? x)) l).
    { apply elem_of_list_filter. split; [|exact Hin]. apply andb_prop_intro. split.
      - apply negb_prop_intro. intros Hz. apply Is_true_eq_true, N.eqb_eq in Hz. contradiction.
      - apply Is_true_eq_left, N.eqb_eq. exact Hx. }
    destruct (filter _ l) as [|a k]; [apply elem_of_nil in Hin'; contradiction|]. cbn [length]. lia.
Qed.

End folds.

(** ** 2. Free-list counts *)

Lemma count_frees_map {P} (c : pcfg) (f : pfile P) (n_of : N -> N) (szs : list N) :
  (forall sz, sz ∈ szs -> count_free_list c f sz = Ok (n_of sz)) ->
  count_frees c f szs = Ok (map (fun sz => (sz, n_of sz)) szs).
Proof.
  induction szs as [|sz szs IH]; intros Hall; [reflexivity|].
  cbn [count_frees map]. rewrite (Hall sz) by (left). cbn [rbind].
  rewrite IH by (intros sz' Hin; apply Hall; right; exact Hin). cbn [rbind]. reflexivity.
Qed.

Definition idx_of (c : pcfg) (sz : N) : nat :=
  match class_idx c sz with Ok i => i | _ => 0%nat end.

Lemma cfg_ok_classes c : cfg_ok c ->
  length (size_ary c) = 16%nat /\ nclasses c = 16%nat /\
  Forall (fun sz => exists i, class_idx c sz = Ok i /\ (i < 16)%nat) (size_ary c) /\
  forall g : nat -> N,
    map (fun sz => (sz, g (idx_of c sz))) (size_ary c) =
    map (fun i => (nth i (size_ary c) 0, g i)) (seq 0 (length (size_ary c))).
Proof.
  intros [-> | ->].
  - split; [reflexivity|]. split; [reflexivity|]. split; [|intros g; vm_compute; reflexivity].
    repeat (apply Forall_cons; split; [eexists; split; [vm_compute; reflexivity | lia]|]).
    apply Forall_nil. exact I.
  - split; [reflexivity|]. split; [reflexivity|]. split; [|intros g; vm_compute; reflexivity].
    repeat (apply Forall_cons; split; [eexists; split; [vm_compute; reflexivity | lia]|]).
    apply Forall_nil. exact I.
Qed.

(** class [i] is the class of the [i]-th size *)
Lemma class_idx_nth c i : cfg_ok c -> (i < 16)%nat -> class_idx c (nth i (size_ary c) 0) = Ok i.
Proof.
  intros [-> | ->] Hi;
    do 16 (destruct i as [|i]; [vm_compute; reflexivity|]); lia.
Qed.

(** the number reported for each size class is the length of that class's free list *)
Theorem count_frees_spec {P} (c : pcfg) (f : pfile P) frees :
  cfg_ok c -> alloc_inv c f frees ->
  count_frees c f (size_ary c) =
  Ok (map (fun i => (nth i (size_ary c) 0, N.of_nat (length (frees i)))) (seq 0 (length (size_ary c)))).
Proof.
  intros Hc Hi. destruct (cfg_ok_classes c Hc) as (Hlen & Hncl & Hall & Hmap).
  rewrite (count_frees_map c f (fun sz => N.of_nat (length (frees (idx_of c sz))))).
  - f_equal. exact (Hmap (fun i => N.of_nat (length (frees i)))).
  - intros sz Hin. rewrite Forall_forall in Hall. destruct (Hall sz Hin) as (i & Hci & Hlt).
    unfold idx_of. rewrite Hci.
    apply (count_free_ok_stmt P c Hc f frees sz i Hi Hci). rewrite Hncl. exact Hlt.
Qed.

(** ** 3. From the slot walk to the heaps and to the abstract map *)

Lemma countb_filter_size {A} (p : N * A -> bool) (m : gmap N A) :
  size (filter (fun oa => p oa) m) = countb p (map_to_list m).
Proof.
  unfold size, map_size, countb. apply Permutation_length.
  apply NoDup_Permutation.
  - apply NoDup_map_to_list.
  - apply NoDup_filter, NoDup_map_to_list.
  - intros [o a]. rewrite elem_of_map_to_list, map_filter_lookup_Some, elem_of_list_filter,
      elem_of_map_to_list. cbn [fst snd]. tauto.
Qed.

(** counting over a heap [omap g m] = counting over [m] through [g] *)
Lemma countb_omap {A B} (g : A -> option B) (q : N * B -> bool) (m : gmap N A) :
  countb (fun oa => match g oa.2 with Some b => q (oa.1, b) | None => false end) (map_to_list m) =
  countb q (map_to_list (omap g m)).
Proof.
  induction m as [|i x m Hnone IH] using map_ind.
  - rewrite omap_empty, !map_to_list_empty. reflexivity.
  - rewrite (countb_perm _ _ _ (map_to_list_insert m i x Hnone)), countb_cons. cbn [fst snd].
    rewrite omap_insert. destruct (g x) as [b|] eqn:Egx.
    + assert (Hnone' : omap g m !! i = None) by (rewrite lookup_omap, Hnone; reflexivity).
      rewrite (countb_perm _ _ _ (map_to_list_insert (omap g m) i b Hnone')), countb_cons, IH.
      reflexivity.
    + rewrite delete_notin by (rewrite lookup_omap, Hnone; reflexivity). rewrite IH. reflexivity.
Qed.

Definition payload {P} (s : slot P) : option P :=
  match s with Used _ p => Some p | Free _ _ => None end.

Lemma used_omap {P} (f : pfile P) : used f = omap payload (slots f).
Proof. reflexivity. Qed.

(** the sequential walk lists every slot exactly once *)
Lemma all_slots_perm {P} (c : pcfg) (f : pfile P) : cfg_ok c -> AInv c f ->
  exists l, all_slots c f = Ok l /\ l ≡ₚ map_to_list (slots f).
Proof.
  intros Hc Hi. destruct (walk_ok_stmt P c Hc f Hi) as (l & Hl & Hmem & Hnd & _).
  exists l. split; [exact Hl|]. apply NoDup_Permutation.
  - eapply NoDup_fmap_1. exact Hnd.
  - apply NoDup_map_to_list.
  - intros [o s]. rewrite elem_of_map_to_list. apply Hmem.
Qed.

(** the value a key record points to *)
Definition v_of (s : store) (r : krec) : bytes :=
  match vheap s !! k_voff r with Some v => v | None => [] end.

Section heaps.
Variables (s : store) (ch : N -> list N) (orph : option N) (m : spec).
Hypothesis Hcore : core s ch orph.
Hypothesis Hrep : represents s m.

Lemma v_of_lookup off r : kheap s !! off = Some r -> vheap s !! k_voff r = Some (v_of s r).
Proof.
  intros Hk. destruct (co_val _ _ _ Hcore off r Hk) as [v Hv]. unfold v_of. rewrite Hv. reflexivity.
Qed.

(** the abstract map is the list of key records with their values: one live entry per record *)
Lemma map_kheap_perm :
  map_to_list m ≡ₚ map (fun or => (k_key or.2, v_of s or.2)) (map_to_list (kheap s)).
Proof.
  apply NoDup_Permutation.
  - apply NoDup_map_to_list.
  - apply NoDup_fmap_2_strong; [|apply NoDup_map_to_list].
    intros [o1 r1] [o2 r2] H1 H2 Heq. apply elem_of_map_to_list in H1, H2. cbn [fst snd] in Heq.
    assert (Hk : k_key r1 = k_key r2) by congruence.
    pose proof (co_uniq _ _ _ Hcore o1 o2 r1 r2 H1 H2 Hk) as Ho. subst o2. congruence.
  - intros [k v]. pose proof (elem_of_map_to_list (m : gmap bytes bytes) k v) as Hm.
    rewrite Hm, (Hrep k v), elem_of_list_fmap. clear Hm. split.
    + intros (vo & (off & r & Hk & Hkey & Hvo) & Hv). exists (off, r). cbn [fst snd].
      split; [|apply elem_of_map_to_list; exact Hk].
      pose proof (v_of_lookup off r Hk) as Hv'. rewrite Hvo, Hv in Hv'. congruence.
    + intros ([off r] & Heq & Hin). apply elem_of_map_to_list in Hin. cbn [fst snd] in Heq.
      inversion Heq; subst k v. exists (k_voff r). split.
      * exists off, r. split; [exact Hin|]. split; reflexivity.
      * apply (v_of_lookup off r Hin).
Qed.

(** the value heap is in bijection with the key records *)
Lemma vheap_kheap_perm :
  map_to_list (vheap s) ≡ₚ map (fun or => (k_voff or.2, v_of s or.2)) (map_to_list (kheap s)).
Proof.
  apply NoDup_Permutation.
  - apply NoDup_map_to_list.
  - apply NoDup_fmap_2_strong; [|apply NoDup_map_to_list].
    intros [o1 r1] [o2 r2] H1 H2 Heq. apply elem_of_map_to_list in H1, H2. cbn [fst snd] in Heq.
    assert (Hk : k_voff r1 = k_voff r2) by congruence.
    pose proof (co_vinj _ _ _ Hcore o1 o2 r1 r2 H1 H2 Hk) as Ho. subst o2. congruence.
  - intros [vo v]. rewrite elem_of_map_to_list, elem_of_list_fmap. split.
    + intros Hv. destruct (co_vown _ _ _ Hcore vo v Hv) as (off & r & Hk & Hvo).
      exists (off, r). cbn [fst snd]. split; [|apply elem_of_map_to_list; exact Hk].
      pose proof (v_of_lookup off r Hk) as Hv'. rewrite Hvo, Hv in Hv'. congruence.
    + intros ([off r] & Heq & Hin). apply elem_of_map_to_list in Hin. cbn [fst snd] in Heq.
      inversion Heq; subst vo v. apply (v_of_lookup off r Hin).
Qed.

(** counting the live keys / values of [m] = counting over the key heap / value heap *)
Lemma count_keys (q : bytes -> bool) :
  countb (fun kv => q kv.1) (map_to_list m) = countb (fun or => q (k_key or.2)) (map_to_list (kheap s)).
Proof. rewrite (countb_perm _ _ _ map_kheap_perm), countb_map. reflexivity. Qed.

Lemma count_vals (q : bytes -> bool) :
  countb (fun kv => q kv.2) (map_to_list m) = countb (fun ov => q ov.2) (map_to_list (vheap s)).
Proof.
  rewrite (countb_perm _ _ _ map_kheap_perm), (countb_perm _ _ _ vheap_kheap_perm), !countb_map.
  reflexivity.
Qed.

End heaps.

(** ** 4. The statistics of a store *)

Section stats.
Variables (s : store) (ch : N -> list N) (orph : option N) (m : spec).
Hypothesis Hcore : core s ch orph.
Hypothesis Hrep : represents s m.

Lemma key_lens_count (ks : list (N * slot krec)) x : ks ≡ₚ map_to_list (slots (keyf s)) ->
  countb (fun os => negb (kslot_len os.2 =? 0) && (kslot_len os.2 =? x)) ks =
  countb (fun kv : bytes * bytes => negb (blen kv.1 =? 0) && (blen kv.1 =? x)) (map_to_list m).
Proof.
  intros Hp. rewrite (countb_perm _ _ _ Hp).
  rewrite (count_keys s ch orph m Hcore Hrep (fun k => negb (blen k =? 0) && (blen k =? x))).
  unfold kheap. rewrite used_omap, <- countb_omap. apply countb_ext.
  intros [o [sz r|sz nxt]] _; reflexivity.
Qed.

Lemma val_lens_count (vs : list (N * slot bytes)) x : vs ≡ₚ map_to_list (slots (valf s)) ->
  countb (fun os => negb (vslot_len os.2 =? 0) && (vslot_len os.2 =? x)) vs =
  countb (fun kv : bytes * bytes => negb (blen kv.2 =? 0) && (blen kv.2 =? x)) (map_to_list m).
Proof.
  intros Hp. rewrite (countb_perm _ _ _ Hp).
  rewrite (count_vals s ch orph m Hcore Hrep (fun v => negb (blen v =? 0) && (blen v =? x))).
  unfold vheap. rewrite used_omap, <- countb_omap. apply countb_ext.
  intros [o [sz v|sz nxt]] _; reflexivity.
Qed.

End stats.

(** a slot in use, of size [x], whose payload has a non-zero length [plen] *)
Definition used_nonempty_of_size {P} (plen : P -> N) (x : N) (sl : slot P) : bool :=
  match sl with
  | Used sz p => negb (plen p =? 0) && (sz =? x)
  | Free _ _ => false
  end.

Lemma key_sizes_count (f : pfile krec) (ks : list (N * slot krec)) x : ks ≡ₚ map_to_list (slots f) ->
  countb (fun os => negb (kslot_len os.2 =? 0) && (slot_size os.2 =? x)) ks =
  size (filter (fun os : N * slot krec => used_nonempty_of_size (fun r => blen (k_key r)) x os.2)
               (slots f)).
Proof.
  intros Hp. rewrite (countb_perm _ _ _ Hp).
  rewrite (countb_filter_size (fun os : N * slot krec =>
             used_nonempty_of_size (fun r => blen (k_key r)) x os.2)).
  apply countb_ext. intros [o [sz r|sz nxt]] _; reflexivity.
Qed.

Lemma val_sizes_count (f : pfile bytes) (vs : list (N * slot bytes)) x : vs ≡ₚ map_to_list (slots f) ->
  countb (fun os => negb (vslot_len os.2 =? 0) && (slot_size os.2 =? x)) vs =
  size (filter (fun os : N * slot bytes => used_nonempty_of_size blen x os.2) (slots f)).
Proof.
  intros Hp. rewrite (countb_perm _ _ _ Hp).
  rewrite (countb_filter_size (fun os : N * slot bytes => used_nonempty_of_size blen x os.2)).
  apply countb_ext. intros [o [sz v|sz nxt]] _; reflexivity.
Qed.

(** C17: on every state satisfying the store invariant the statistics terminate normally, the
    free-slot count reported for each size class is the length of that class's free list, the
    length histograms count exactly the live non-empty keys / values of the abstract map, the
    slot-size histograms count exactly the used slots holding a non-empty key / value, and the
    filling rate counts the non-empty buckets. *)
Theorem stats_of_spec s m : Inv s -> represents s m ->
  exists st frk frv, stats_of s = Ok st /\
    alloc_inv key_cfg (keyf s) frk /\ alloc_inv val_cfg (valf s) frv /\
    st_free_key st = map (fun i => (nth i (size_ary key_cfg) 0, N.of_nat (length (frk i)))) (seq 0 16) /\
    st_free_val st = map (fun i => (nth i (size_ary val_cfg) 0, N.of_nat (length (frv i)))) (seq 0 16) /\
    (forall x, hcount (st_key_lens st) x =
       N.of_nat (length (filter (fun kv : bytes * bytes => negb (blen kv.1 =? 0) && (blen kv.1 =? x))
                                (map_to_list m)))) /\
    (forall x, hcount (st_val_lens st) x =
       N.of_nat (length (filter (fun kv : bytes * bytes => negb (blen kv.2 =? 0) && (blen kv.2 =? x))
                                (map_to_list m)))) /\
    (forall x, hcount (st_key_sizes st) x =
       N.of_nat (size (filter (fun os : N * slot krec =>
                                 used_nonempty_of_size (fun r => blen (k_key r)) x os.2)
                              (slots (keyf s))))) /\
    (forall x, hcount (st_val_sizes st) x =
       N.of_nat (size (filter (fun os : N * slot bytes => used_nonempty_of_size blen x os.2)
                              (slots (valf s))))) /\
    st_fill st =
      (let c := N.of_nat (length (filter (fun b => negb (head_at (hx s) b =? 0))
                                         (seqN' 0 (N.to_nat (nb (hx s)))))) in
       (c, c * 1000 / nb (hx s))).
Proof.
  intros [ch [Hcore _]] Hrep.
  destruct (co_k _ _ _ Hcore) as [frk Hfrk]. destruct (co_v _ _ _ Hcore) as [frv Hfrv].
  destruct (all_slots_perm key_cfg (keyf s) key_cfg_ok (co_k _ _ _ Hcore)) as (ks & Hks & Hpk).
  destruct (all_slots_perm val_cfg (valf s) val_cfg_ok (co_v _ _ _ Hcore)) as (vs & Hvs & Hpv).
  eexists _, frk, frv. unfold stats_of.
  rewrite (count_frees_spec key_cfg (keyf s) frk key_cfg_ok Hfrk). cbn [rbind].
  rewrite (count_frees_spec val_cfg (valf s) frv val_cfg_ok Hfrv). cbn [rbind].
  rewrite Hks. cbn [rbind]. rewrite Hvs. cbn [rbind].
  split; [reflexivity|]. split; [exact Hfrk|]. split; [exact Hfrv|].
  cbn [st_free_key st_free_val st_key_sizes st_val_sizes st_key_lens st_val_lens st_fill].
  split; [reflexivity|]. split; [reflexivity|].
  split; [intros x; rewrite len_hist_spec; f_equal;
          exact (key_lens_count s ch None m Hcore Hrep ks x Hpk)|].
  split; [intros x; rewrite len_hist_spec; f_equal;
          exact (val_lens_count s ch None m Hcore Hrep vs x Hpv)|].
  split; [intros x; rewrite size_hist_spec; f_equal; exact (key_sizes_count (keyf s) ks x Hpk)|].
  split; [intros x; rewrite size_hist_spec; f_equal; exact (val_sizes_count (valf s) vs x Hpv)|].
  reflexivity.
Qed.

Corollary stats_terminate s m : Inv s -> represents s m -> exists st, stats_of s = Ok st.
Proof.
  intros HI HR. destruct (stats_of_spec s m HI HR) as (st & _ & _ & Hst & _). exists st. exact Hst.
Qed.

(** the four histograms are strictly sorted by key with positive counters: an entry is listed
    iff at least one slot counts for it, and the listed counter is the one [hcount] reports *)
Theorem stats_of_sorted s st : stats_of s = Ok st ->
  hsorted (st_key_sizes st) /\ hsorted (st_val_sizes st) /\
  hsorted (st_key_lens st) /\ hsorted (st_val_lens st).
Proof.
  unfold stats_of. intros Hst.
  destruct (count_frees key_cfg (keyf s) (size_ary key_cfg)) as [fk| | |]; try discriminate.
  cbn [rbind] in Hst.
  destruct (count_frees val_cfg (valf s) (size_ary val_cfg)) as [fv| | |]; try discriminate.
  cbn [rbind] in Hst.
  destruct (all_slots key_cfg (keyf s)) as [ks| | |]; try discriminate. cbn [rbind] in Hst.
  destruct (all_slots val_cfg (valf s)) as [vs| | |]; try discriminate. cbn [rbind] in Hst.
  inversion Hst; subst st.
  cbn [st_key_sizes st_val_sizes st_key_lens st_val_lens].
  split; [apply size_hist_sorted|]. split; [apply size_hist_sorted|].
  split; apply len_hist_sorted.
Qed.

(** the statistics terminate on every state reachable from a fresh map by well-formed calls,
    and that state satisfies the hypotheses of [stats_of_spec] *)
Corollary stats_terminate_reachable t n ops : 1 <= n -> Forall (op_wf t) ops ->
  exists s' st, store_run (create t n) ops = Ok (s', snd (spec_run ∅ ops)) /\
                Inv s' /\ represents s' (fst (spec_run ∅ ops)) /\ stats_of s' = Ok st.
Proof.
  intros Hn Hops. destruct (run_from_create t n ops Hn Hops) as (s' & Hrun & HI & HR).
  destruct (stats_terminate s' _ HI HR) as [st Hst]. exists s', st. auto.
Qed.

(** ** 5. Non-vacuity: a concrete store with a non-empty free list *)

Definition ex_ops : list dop :=
  [Put [1] [10; 11]; Put [2; 2] [20; 21; 22]; Put [3; 3; 3] []; Del [1]].

Lemma ex_ops_wf : Forall (op_wf KBytes) ex_ops.
Proof.
  assert (Hb : forall bs : bytes, bytes_okb bs = true -> bytes_ok bs).
  { intros bs. unfold bytes_okb, bytes_ok. rewrite forallb_forall, Forall_forall.
    intros Hall b Hin. apply elem_of_list_In in Hin. specialize (Hall b Hin).
    unfold byte_ok. lia. }
  assert (Hk : forall k : bytes, bytes_okb k = true -> blen k < 2 ^ 31 -> key_wf KBytes k).
  { intros k Hk1 Hk2. split; [apply Hb; exact Hk1|]. split; [exact Hk2 | discriminate]. }
  assert (Hv : forall v : bytes, bytes_okb v = true -> blen v < 2 ^ 31 -> val_wf v).
  { intros v Hv1 Hv2. split; [apply Hb; exact Hv1 | exact Hv2]. }
  unfold ex_ops. repeat apply Forall_cons_2; try apply Forall_nil_2; cbn [op_wf];
    repeat split; (apply Hk || apply Hv); reflexivity.
Qed.

(** after the delete each file has one free slot of class 16; the key [[3;3;3]] maps to the empty
    value, which the value histograms do not count (two live values, one counted) *)
Example stats_example :
  (let* (s, _) := store_run (create KBytes 4) ex_ops in stats_of s) =
  Ok (MkStats
        [(16, 1); (24, 0); (32, 0); (48, 0); (64, 0); (80, 0); (96, 0); (112, 0);
         (128, 0); (256, 0); (384, 0); (512, 0); (640, 0); (768, 0); (896, 0); (1024, 0)]
        [(16, 1); (24, 0); (32, 0); (48, 0); (64, 0); (80, 0); (96, 0); (112, 0);
         (128, 0); (256, 0); (384, 0); (512, 0); (640, 0); (768, 0); (896, 0); (1024, 0)]
        [(16, 2)] [(16, 1)] [(2, 1); (3, 1)] [(3, 1)] (2, 500)).
Proof. vm_compute. reflexivity. Qed.

(** the example store is reachable, so [stats_of_spec] applies to it (its hypotheses hold) *)
Example stats_example_inv :
  exists s, store_run (create KBytes 4) ex_ops = Ok (s, snd (spec_run ∅ ex_ops)) /\
            Inv s /\ represents s (fst (spec_run ∅ ex_ops)).
Proof. apply run_from_create; [lia | exact ex_ops_wf]. Qed.

Print Assumptions stats_of_spec.
Print Assumptions count_frees_spec.
Print Assumptions stats_of_sorted.
Print Assumptions stats_terminate_reachable.
Print Assumptions stats_example.
