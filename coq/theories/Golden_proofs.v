(** * Golden_proofs: a golden image that passes [golden_ok] is the byte image of a state with the
    invariant which represents the committed expected contents. *)
From Coq Require Import Lia ZifyN ZifyNat ZifyBool.
From Aby Require Import Base Vu64 Vu64_proofs KeyTypes KeyTypes_proofs Consts Sizing Alloc Htx Store Spec Refine
  Refine_all Layout Golden_lib Golden.

Lemma bytes_okb_ok b : bytes_okb b = true -> bytes_ok b.
Proof.
  unfold bytes_okb, bytes_ok. rewrite forallb_forall. intros H. apply Forall_forall.
  intros x Hx. apply elem_of_list_In in Hx. specialize (H x Hx). apply N.ltb_lt in H. exact H.
Qed.

Lemma key_wfb_ok t k : key_wfb t k = true -> key_wf t k.
Proof.
  unfold key_wfb. intros H. apply andb_prop in H as [H H3]. apply andb_prop in H as [H1 H2].
  split; [apply bytes_okb_ok; exact H1|]. split; [apply N.ltb_lt; exact H2|].
  intros ->. destruct (decode k) as [[x [|? ?]]|] eqn:E; try discriminate H3.
  apply andb_prop in H3 as [Hx He]. exists x. split; [apply N.ltb_lt; exact Hx|].
  symmetry. apply bytes_eqb_eq. exact He.
Qed.

Lemma val_wfb_ok v : val_wfb v = true -> val_wf v.
Proof.
  unfold val_wfb. intros H. apply andb_prop in H as [H1 H2].
  split; [apply bytes_okb_ok; exact H1|apply N.ltb_lt; exact H2].
Qed.

Lemma op_wfb_ok t o : op_wfb t o = true -> op_wf t o.
Proof.
  destruct o as [k v|k|k|k| |]; cbn [op_wfb op_wf]; intros H; try exact I; try (apply key_wfb_ok; exact H).
  apply andb_prop in H as [H1 H2]. split; [apply key_wfb_ok; exact H1|apply val_wfb_ok; exact H2].
Qed.

Lemma imgs_eqb_eq a b : imgs_eqb a b = true -> a = b.
Proof.
  destruct a as [[a1 a2] a3], b as [[b1 b2] b3]. unfold imgs_eqb. cbn [fst snd]. intros H.
  apply andb_prop in H as [H H3]. apply andb_prop in H as [H1 H2].
  apply bytes_eqb_eq in H1, H2, H3. congruence.
Qed.

Theorem golden_sound g : golden_ok g = true ->
  exists s m, Inv s /\ represents s m /\ m = fst (spec_run ∅ (g_ops g)) /\
    render s = Ok (g_imgs g) /\ kt s = g_kt g /\ nb (hx s) = g_n g /\
    (forall k v, In (k, v) (g_expected g) -> m !! k = Some v) /\
    size m = length (g_expected g).
Proof.
  unfold golden_ok. intros H. apply andb_prop in H as [H Hrun]. apply andb_prop in H as [Hn Hw].
  apply N.leb_le in Hn.
  assert (Hwf : Forall (op_wf (g_kt g)) (g_ops g)).
  { apply Forall_forall. intros o Ho. apply op_wfb_ok. rewrite forallb_forall in Hw. apply Hw.
    apply elem_of_list_In. exact Ho. }
  destruct (create_closed (g_kt g) (g_n g) Hn) as [HI0 HR0].
  destruct (run_refines (create (g_kt g) (g_n g)) ∅ (g_ops g) HI0 HR0 Hwf) as (s & Hr & HI & HR & Ht & Hnb).
  change (kt (create (g_kt g) (g_n g))) with (g_kt g) in Ht.
  change (nb (hx (create (g_kt g) (g_n g)))) with (g_n g) in Hnb.
  rewrite Hr in Hrun. apply andb_prop in Hrun as [Hrun _]. apply andb_prop in Hrun as [Hrun Hlen]. apply andb_prop in Hrun as [Himg Hexp].
  exists s, (fst (spec_run ∅ (g_ops g))). split; [exact HI|]. split; [exact HR|]. split; [reflexivity|].
  split.
  { destruct (render s) as [imgs| | |]; try discriminate Himg. f_equal. apply imgs_eqb_eq. exact Himg. }
  split; [exact Ht|]. split; [exact Hnb|]. split.
  - intros k v Hin. rewrite forallb_forall in Hexp. specialize (Hexp (k, v) Hin). cbn [fst snd] in Hexp.
    apply andb_prop in Hexp as [Hk Hg]. apply key_wfb_ok in Hk. rewrite <- Ht in Hk.
    destruct (get_closed s _ k HI HR Hk) as [Hget _]. rewrite Hget in Hg.
    destruct (fst (spec_run ∅ (g_ops g)) !! k) as [v'|]; [|discriminate Hg].
    apply bytes_eqb_eq in Hg. congruence.
  - apply N.eqb_eq in Hlen. rewrite (len_closed s _ HI HR) in Hlen. lia.
Qed.

(** all 15 golden images written by the pinned release (5 key types x 3 histories) *)
Theorem all_golden_ok : forallb golden_ok all_golden = true.
Proof.
  cbn [all_golden forallb].
  rewrite string_0_ok, string_1_ok, string_2_ok, bytes_0_ok, bytes_1_ok, bytes_2_ok, i64_0_ok, i64_1_ok, i64_2_ok,
    u64_0_ok, u64_1_ok, u64_2_ok, vu64_0_ok, vu64_1_ok, vu64_2_ok. reflexivity.
Qed.

Theorem all_golden_sound g : In g all_golden ->
  exists s m, Inv s /\ represents s m /\ m = fst (spec_run ∅ (g_ops g)) /\
    render s = Ok (g_imgs g) /\ kt s = g_kt g /\ nb (hx s) = g_n g /\
    (forall k v, In (k, v) (g_expected g) -> m !! k = Some v) /\
    size m = length (g_expected g).
Proof.
  intros Hin. apply golden_sound. pose proof all_golden_ok as H. rewrite forallb_forall in H. exact (H g Hin).
Qed.
