(** * World_refine: the refinement of the single map (Refine_all.v, Bulk_proofs.v, Iter_proofs.v,
    Stats_proofs.v) lifted to the world the differential runner executes ([Db.step]).

    The ideal world holds one ideal byte-string map per (directory, name), with the key type the
    map was created as.  [wrep w iw] relates a model world to an ideal world; [istep] is the ideal
    semantics of the operation language; [world_step_refines] says that on related worlds every
    well-formed API call keeps the relation, returns exactly what the ideal world says (where the
    ideal world makes a claim), does not panic except for the two documented refusals of [open]
    (wrong type signature, [Capacity(0)]), and never reports an I/O error or runs out of fuel.
    This is the multi-map statement of C01 (ideal map), C11 (isolation: [istep_frame]),
    C14 (bulk calls) and C04/C17 (traversal and statistics terminate). *)
From Coq Require Import Lia ZifyN ZifyNat ZifyBool.
From Aby Require Import Base Vu64 Vu64_proofs Hash KeyTypes KeyTypes_proofs Consts Sizing Alloc AllocInv
  AllocInv_proofs Htx Htx_proofs Store Iter Stats Layout Bulk Spec Refine Refine_all
  Iter_proofs Stats_proofs Bulk_proofs Open Open_proofs Db Db_proofs.

(** ** 0. Preliminaries *)

(** *** the invariant and the abstraction do not read the in-memory flags *)
Lemma core_flags s d y ch orph : core s ch orph -> core (set_flags s d y) ch orph.
Proof. intros H. destruct H. constructor; assumption. Qed.

Lemma Inv_flags s d y : Inv s -> Inv (set_flags s d y).
Proof.
  intros (ch & Hc & Hl). exists ch. split; [apply core_flags; exact Hc|].
  intros b Hb. exact (Hl b Hb).
Qed.

Lemma Inv_eqv s s' : store_eqv s s' -> Inv s -> Inv s'.
Proof. intros E H. rewrite (store_eqv_flags s s' E). apply Inv_flags. exact H. Qed.

Lemma represents_eqv s s' m : store_eqv s s' -> represents s m -> represents s' m.
Proof. intros E H. rewrite (store_eqv_flags s s' E). exact H. Qed.

Lemma kt_eqv s s' : store_eqv s s' -> kt s' = kt s.
Proof. intros (H & _). symmetry. exact H. Qed.

(** *** every bucket count [open] derives from a parameter is positive *)
Lemma next_pow2_from_ge fuel : forall p x, p <= next_pow2_from fuel p x.
Proof.
  induction fuel as [|f IH]; intros p x; cbn [next_pow2_from]; [lia|].
  destruct (x <=? p); [lia|]. specialize (IH (2 * p) x). lia.
Qed.

Lemma buckets_of_param_pos p n : buckets_of_param p = Ok n -> 1 <= n.
Proof.
  destruct p as [x | x |]; cbn [buckets_of_param]; intros Hn.
  - injection Hn as <-. unfold next_pow2. pose proof (next_pow2_from_ge 64 1 x). lia.
  - destruct (x =? 0); [discriminate|]. destruct (x <? 8).
    + injection Hn as <-. lia.
    + injection Hn as <-. unfold next_pow2. pose proof (next_pow2_from_ge 64 1 (x + x / 8)). lia.
  - injection Hn as <-. unfold htx_default_buckets. lia.
Qed.

(** the only failure is the documented panic on [Capacity(0)] *)
Lemma buckets_of_param_cases p :
  (exists n, buckets_of_param p = Ok n /\ 1 <= n) \/
  (buckets_of_param p = Panic BadParam /\ p = Capacity 0).
Proof.
  destruct p as [x | x |]; cbn [buckets_of_param].
  - left. eexists. split; [reflexivity|]. apply (buckets_of_param_pos (BucketsSize x)). reflexivity.
  - destruct (x =? 0) eqn:E.
    + right. apply N.eqb_eq in E. subst x. split; reflexivity.
    + left. pose proof (buckets_of_param_pos (Capacity x)) as H. cbn [buckets_of_param] in H.
      rewrite E in H. destruct (x <? 8); eexists; (split; [reflexivity|]); apply H; reflexivity.
  - left. eexists. split; [reflexivity|]. apply (buckets_of_param_pos BDefault). reflexivity.
Qed.

(** *** keys made from integers *)
Lemma pow31 : 2 ^ 31 = 2147483648.
Proof. vm_compute. reflexivity. Qed.

Lemma bytes_ok_rev (l : bytes) : bytes_ok l -> bytes_ok (rev l).
Proof. unfold bytes_ok. intros H. apply Forall_forall. intros x Hx. rewrite Forall_forall in H.
  apply H. apply elem_of_list_In. apply in_rev. apply elem_of_list_In. exact Hx. Qed.

(** the integer calls of the runner: a [KVu64] handle needs an integer below [2^64] *)
Definition int_ok (t : ktype) (x : Z) : Prop := t = KVu64 -> Z.to_N x < 2 ^ 64.

Lemma of_int_bytes t x : int_ok t x -> bytes_ok (of_int t x) /\ blen (of_int t x) <= 9.
Proof.
  intros Hx. destruct t; cbn [of_int].
  - unfold of_u64_be. rewrite be_bytes_rev. split; [apply bytes_ok_rev, le_bytes_ok|].
    unfold blen. rewrite rev_length, le_bytes_length. lia.
  - unfold of_u64_be. rewrite be_bytes_rev. split; [apply bytes_ok_rev, le_bytes_ok|].
    unfold blen. rewrite rev_length, le_bytes_length. lia.
  - unfold of_i64. split; [apply le_bytes_ok|]. unfold blen. rewrite le_bytes_length. lia.
  - unfold of_u64. split; [apply le_bytes_ok|]. unfold blen. rewrite le_bytes_length. lia.
  - unfold of_vu64. split; [apply encode_ok, Hx; reflexivity|].
    rewrite encode_length'. pose proof (enc_len_range (Z.to_N x)). lia.
Qed.

(** The key an integer call makes through a handle of type [t] is well formed for a map created
    as [tm] when the two types agree, and also for a [KU64] map reached through a [KVu64] handle
    (the known pair: the two types share a signature, finding D6).  The other direction of the
    pair is FALSE: see [Counterexample] at the end of this file. *)
Theorem of_int_wf t tm x :
  t = tm \/ (t = KVu64 /\ tm = KU64) -> int_ok t x -> key_wf tm (of_int t x).
Proof.
  intros Ht Hx. destruct (of_int_bytes t x Hx) as [Hb Hl].
  split; [exact Hb|]. split; [rewrite pow31; lia|].
  intros Hv. destruct Ht as [<- | [-> ->]]; [|discriminate Hv]. subst t.
  exists (Z.to_N x). split; [apply Hx; reflexivity | reflexivity].
Qed.

(** ** 1. The ideal world and the representation relation *)

Notation iworld := (gmap mapkey (ktype * spec)) (only parsing).

Record wrep (w : world) (iw : iworld) : Prop := {
  wr_dom : dom (files w) = dom iw;
  wr_files : forall (mk : mapkey) s, files w !! mk = Some s ->
    exists t m, iw !! mk = Some (t, m) /\ kt s = t /\ Inv s /\ represents s m;
  wr_open : handles_open w;
  (** [open_map] compared the signatures when the handle was made *)
  wr_sig : forall m (mk : mapkey) t s, mids w !! m = Some (mk, t) -> files w !! mk = Some s ->
    sig_of t = sig_of (kt s) }.

(** the formulation the proofs use: the files pointwise, the handles against the ideal world *)
Definition frep (f : gmap mapkey store) (iw : iworld) : Prop :=
  forall mk : mapkey,
    match f !! mk, iw !! mk with
    | Some s, Some (t, sp) => kt s = t /\ Inv s /\ represents s sp
    | None, None => True
    | _, _ => False
    end.

Definition hrep (ms : gmap N (mapkey * ktype)) (op : gset mapkey) (iw : iworld) : Prop :=
  forall m (mk : mapkey) t, ms !! m = Some (mk, t) ->
    mk ∈ op /\ exists tm sp, iw !! mk = Some (tm, sp) /\ sig_of t = sig_of tm.

Lemma frep_lookup f iw (mk : mapkey) s : frep f iw -> f !! mk = Some s ->
  exists tm sp, iw !! mk = Some (tm, sp) /\ kt s = tm /\ Inv s /\ represents s sp.
Proof.
  intros H Hs. specialize (H mk). rewrite Hs in H.
  destruct (iw !! mk) as [[tm sp]|]; [|contradiction]. exists tm, sp. split; [reflexivity | exact H].
Qed.

Lemma frep_lookup_i f iw (mk : mapkey) tm sp : frep f iw -> iw !! mk = Some (tm, sp) ->
  exists s, f !! mk = Some s /\ kt s = tm /\ Inv s /\ represents s sp.
Proof.
  intros H Hs. specialize (H mk). rewrite Hs in H.
  destruct (f !! mk) as [s|]; [|contradiction]. exists s. split; [reflexivity | exact H].
Qed.

Lemma frep_none f iw (mk : mapkey) : frep f iw -> f !! mk = None -> iw !! mk = None.
Proof.
  intros H Hs. specialize (H mk). rewrite Hs in H.
  destruct (iw !! mk) as [[tm sp]|]; [contradiction | reflexivity].
Qed.

Lemma wrep_alt w iw : wrep w iw <-> frep (files w) iw /\ hrep (mids w) (opened w) iw.
Proof.
  split.
  - intros [Hd Hf Ho Hs]. split.
    + intros mk. destruct (files w !! mk) as [s|] eqn:Es.
      * destruct (Hf mk s Es) as (t & m & Hi & Ht & HI & HR). rewrite Hi. auto.
      * destruct (iw !! mk) as [[tm sp]|] eqn:Ei; [|exact I].
        apply not_elem_of_dom in Es. apply Es. rewrite Hd. apply elem_of_dom. eexists; exact Ei.
    + intros m mk t Hm. destruct (Ho m mk t Hm) as [Hop [s Es]]. split; [exact Hop|].
      destruct (Hf mk s Es) as (tm & sp & Hi & Ht & _). exists tm, sp. split; [exact Hi|].
      rewrite <- Ht. apply (Hs m mk t s Hm Es).
  - intros [Hf Hh]. split.
    + apply set_eq. intros mk. specialize (Hf mk). split; intros Hin.
      * apply elem_of_dom in Hin as [x Hx]. assert (files w !! mk = Some x) as Hx' by exact Hx.
        rewrite Hx' in Hf. destruct (iw !! mk) as [[tm sp]|] eqn:Ei; [|contradiction].
        apply elem_of_dom. eexists. exact Ei.
      * apply elem_of_dom in Hin as [x Hx]. assert (iw !! mk = Some x) as Hx' by exact Hx.
        rewrite Hx' in Hf. destruct (files w !! mk) as [s|] eqn:Es; [|contradiction].
        apply elem_of_dom. eexists. exact Es.
    + intros mk s Es. destruct (frep_lookup _ _ mk s Hf Es) as (tm & sp & H). exists tm, sp. exact H.
    + intros m mk t Hm. destruct (Hh m mk t Hm) as [Hop (tm & sp & Hi & _)]. split; [exact Hop|].
      destruct (frep_lookup_i _ _ mk tm sp Hf Hi) as (s & Es & _). eexists; exact Es.
    + intros m mk t s Hm Es. destruct (Hh m mk t Hm) as [_ (tm & sp & Hi & Hsig)].
      destruct (frep_lookup _ _ mk s Hf Es) as (tm' & sp' & Hi' & Ht & _).
      rewrite Hi in Hi'. injection Hi' as <- <-. rewrite Ht. exact Hsig.
Qed.

Theorem wrep_world0 : wrep world0 ∅.
Proof.
  apply wrep_alt. split.
  - intros mk. cbn [world0 files]. rewrite !lookup_empty. exact I.
  - intros m mk t Hm. cbn [world0 mids] in Hm. rewrite lookup_empty in Hm. discriminate Hm.
Qed.

(** what a handle of a represented world names *)
Lemma wrep_handle w iw m (mk : mapkey) t : wrep w iw -> mids w !! m = Some (mk, t) ->
  exists s tm sp, files w !! mk = Some s /\ iw !! mk = Some (tm, sp) /\ kt s = tm /\
                  sig_of t = sig_of (kt s) /\ Inv s /\ represents s sp /\ mk ∈ opened w.
Proof.
  intros H Hm. pose proof H as [Hf Hh]%wrep_alt.
  destruct (Hh m mk t Hm) as [Hop (tm & sp & Hi & Hsig)].
  destruct (frep_lookup_i _ _ mk tm sp Hf Hi) as (s & Es & Ht & HI & HR).
  exists s, tm, sp. rewrite Ht. auto 10.
Qed.

(** the integer calls: the key made through a handle of a represented world is well formed for
    the store behind it, unless the handle is the [KU64] view of a [KVu64] map (the bad direction
    of the known pair, see [Counterexample]) *)
Theorem int_key_wf w iw m (mk : mapkey) t s x :
  wrep w iw -> mids w !! m = Some (mk, t) -> files w !! mk = Some s ->
  ~ (t = KU64 /\ kt s = KVu64) -> int_ok t x -> key_wf (kt s) (of_int t x).
Proof.
  intros Hw Hm Hs Hn Hx. pose proof (wr_sig w iw Hw m mk t s Hm Hs) as Hsig.
  apply of_int_wf; [|exact Hx]. revert Hn Hsig. generalize (kt s). intros tm Hn Hsig.
  destruct t, tm; try (left; reflexivity); try (exfalso; vm_compute in Hsig; discriminate Hsig).
  - exfalso. apply Hn. split; reflexivity.
  - right. split; reflexivity.
Qed.

(** *** preservation lemmas for [frep] *)
Lemma frep_eqv f f' iw :
  frep f iw -> (forall mk : mapkey, option_Forall2 store_eqv (f' !! mk) (f !! mk)) -> frep f' iw.
Proof.
  intros H E mk. specialize (H mk). specialize (E mk).
  inversion E as [s' s Es Hs' Hs | Hs' Hs].
  - rewrite <- Hs in H. destruct (iw !! mk) as [[tm sp]|]; [|exact H].
    destruct H as (H1 & H2 & H3). split; [rewrite (kt_eqv s s'); [exact H1|] | split].
    + symmetry. exact Es.
    + apply (Inv_eqv s s'); [symmetry; exact Es | exact H2].
    + apply (represents_eqv s s'); [symmetry; exact Es | exact H3].
  - rewrite <- Hs in H. exact H.
Qed.

Lemma frep_insert f iw (mk : mapkey) s tm sp :
  frep f iw -> kt s = tm -> Inv s -> represents s sp -> frep (<[mk := s]> f) (<[mk := (tm, sp)]> iw).
Proof.
  intros H Ht HI HR mk'. destruct (decide (mk = mk')) as [<- | Hne].
  - rewrite !lookup_insert. cbv beta iota. auto.
  - rewrite !lookup_insert_ne by exact Hne. apply H.
Qed.

(** *** preservation lemmas for [hrep] *)
Definition itypes_le (iw iw' : iworld) : Prop :=
  forall (mk : mapkey) tm sp, iw !! mk = Some (tm, sp) -> exists sp', iw' !! mk = Some (tm, sp').

Lemma itypes_le_refl iw : itypes_le iw iw.
Proof. intros mk tm sp H. exists sp. exact H. Qed.

Lemma itypes_le_update (iw : iworld) (mk : mapkey) tm sp sp' :
  iw !! mk = Some (tm, sp) -> itypes_le iw (<[mk := (tm, sp')]> iw).
Proof.
  intros Hi mk' tm' sp0 H. destruct (decide (mk = mk')) as [<- | Hne].
  - rewrite lookup_insert. rewrite Hi in H. injection H as <- <-. exists sp'. reflexivity.
  - rewrite lookup_insert_ne by exact Hne. exists sp0. exact H.
Qed.

Lemma itypes_le_new (iw : iworld) (mk : mapkey) v : iw !! mk = None -> itypes_le iw (<[mk := v]> iw).
Proof.
  intros Hi mk' tm' sp0 H. destruct (decide (mk = mk')) as [<- | Hne].
  - rewrite Hi in H. discriminate H.
  - rewrite lookup_insert_ne by exact Hne. exists sp0. exact H.
Qed.

Lemma hrep_empty (op : gset mapkey) (iw : iworld) : hrep ∅ op iw.
Proof. intros m mk t H. rewrite lookup_empty in H. discriminate H. Qed.

Lemma hrep_mono (ms ms' : gmap N (mapkey * ktype)) (op op' : gset mapkey) (iw iw' : iworld) :
  hrep ms op iw ->
  (forall m h, ms' !! m = Some h -> ms !! m = Some h) ->
  (forall mk : mapkey, mk ∈ op -> mk ∈ op') ->
  itypes_le iw iw' ->
  hrep ms' op' iw'.
Proof.
  intros H Hms Hop Hi m mk t Hm. destruct (H m mk t (Hms _ _ Hm)) as [Ho (tm & sp & Hl & Hs)].
  split; [apply Hop; exact Ho|]. destruct (Hi mk tm sp Hl) as [sp' Hl']. exists tm, sp'. auto.
Qed.

Lemma hrep_insert (ms : gmap N (mapkey * ktype)) (op : gset mapkey) (iw : iworld) m (mk : mapkey) t tm sp :
  hrep ms op iw -> mk ∈ op -> iw !! mk = Some (tm, sp) -> sig_of t = sig_of tm ->
  hrep (<[m := (mk, t)]> ms) op iw.
Proof.
  intros H Ho Hi Hs m' mk' t' Hm. destruct (decide (m = m')) as [<- | Hne].
  - rewrite lookup_insert in Hm. injection Hm as <- <-. split; [exact Ho|]. exists tm, sp. auto.
  - rewrite lookup_insert_ne in Hm by exact Hne. apply (H m' mk' t' Hm).
Qed.

Lemma close_unreferenced_rep w0 iw :
  frep (files w0) iw -> hrep (mids w0) (opened w0) iw ->
  frep (files (close_unreferenced w0)) iw /\
  hrep (mids (close_unreferenced w0)) (opened (close_unreferenced w0)) iw.
Proof.
  intros Hf Hh. split.
  - apply (frep_eqv (files w0)); [exact Hf|]. intros mk. apply close_unreferenced_files.
  - unfold close_unreferenced.
    destruct (bool_decide (dbs w0 = ∅)); [|exact Hh]. cbn [andb].
    destruct (bool_decide (mids w0 = ∅)) eqn:Hm; [|exact Hh].
    apply bool_decide_eq_true in Hm. cbn [mids opened]. rewrite Hm. apply hrep_empty.
Qed.

(** ** 2. The ideal step *)

(** a data call on the ideal map behind the handle ([t]: the type of the handle); [None]: the
    ideal world makes no claim about the value returned (but see [dshape]) *)
Definition idata (t : ktype) (o : op) (sp : spec) : spec * option out :=
  match o with
  | OPut _ k v => (<[k := v]> sp, Some RUnit)
  | OGet _ k => (sp, Some (ROpt (sp !! k)))
  | ODel _ k => (delete k sp, Some (ROpt (sp !! k)))
  | OHas _ k => (sp, Some (RBool (bool_decide (is_Some (sp !! k)))))
  | OLen _ => (sp, Some (RNum (N.of_nat (size sp))))
  | OEmpty _ => (sp, Some (RBool (bool_decide (sp = ∅))))
  | OFlush _ | OSyncAll _ | OSyncData _ | OFill _ => (sp, Some RUnit)
  | OBulkGet _ ks => (sp, Some (RVec (map (fun k => sp !! k) ks)))
  | OBulkDel _ ks => (foldr delete sp ks, Some (RVec (map (fun k => sp !! k) ks)))
  | OBulkPut _ kvs | OPutIter _ kvs =>
    (foldl (fun (m : spec) (kv : bytes * bytes) => <[kv.1 := kv.2]> m) sp kvs, Some RUnit)
  | OPutInt _ x v => (<[of_int t x := v]> sp, Some RUnit)
  | OGetInt _ x => (sp, Some (ROpt (sp !! of_int t x)))
  | ODelInt _ x => (delete (of_int t x) sp, Some (ROpt (sp !! of_int t x)))
  | OHasInt _ x => (sp, Some (RBool (bool_decide (is_Some (sp !! of_int t x)))))
  | _ => (sp, None)
  end.

(** [open_with_params] on the ideal world: a new name gives a new empty map of the requested
    type unless the parameter is refused ([Capacity(0)]); an existing name is checked against the
    signature of the type it was created as *)
Definition iopen (iw : iworld) (mk : mapkey) (t : ktype) (p : params) : iworld * out :=
  match iw !! mk with
  | Some (tm, _) => if bytes_eqb (sig_of tm) (sig_of t) then (iw, RUnit) else (iw, RPanic BadSig)
  | None =>
    if is_ok (buckets_of_param (p_buckets p)) then (<[mk := (t, ∅)]> iw, RUnit)
    else (iw, RPanic BadParam)
  end.

Definition istep (w : world) (iw : iworld) (o : op) : iworld * option out :=
  match acc_handle o with
  | Some m =>
    match mids w !! m with
    | Some (mk, t) =>
      match iw !! mk with
      | Some (tm, sp) => (<[mk := (tm, (idata t o sp).1)]> iw, (idata t o sp).2)
      | None => (iw, None)
      end
    | None => (iw, None)
    end
  | None =>
    match o with
    | OMap _ d t name p =>
      match dbs w !! d with
      | Some dir => let r := iopen iw (dir, name) t p in (r.1, Some r.2)
      | None => (iw, Some RNoHandle)
      end
    | ODb _ _ | ODrop _ | ODropDb _ | OCloseAll => (iw, Some RUnit)
    | ODbClone _ d | ODbSync d => (iw, Some (if dbs w !! d then RUnit else RNoHandle))
    | OMapClone _ m => (iw, Some (if mids w !! m then RUnit else RNoHandle))
    | _ => (iw, None)
    end
  end.

Lemma istep_acc w iw o m : acc_handle o = Some m ->
  istep w iw o =
  match mids w !! m with
  | Some (mk, t) =>
    match iw !! mk with
    | Some (tm, sp) => (<[mk := (tm, (idata t o sp).1)]> iw, (idata t o sp).2)
    | None => (iw, None)
    end
  | None => (iw, None)
  end.
Proof. intros Ha. unfold istep. rewrite Ha. reflexivity. Qed.

(** what is claimed about the calls whose value the ideal world does not determine: a complete
    traversal yields the entries of the ideal map in some order with exact size hints and stays
    exhausted; the statistics, the dirty probe and the snapshot return a value of their type *)
Definition dshape (o : op) (sp : spec) (r : out) : Prop :=
  match o with
  | OIter _ _ => exists kvs : list (bytes * bytes),
      r = RIter (combine (hints_down (length kvs)) kvs) 0 [None; None] /\
      kvs ≡ₚ map_to_list sp /\ length kvs = size sp
  | OStats _ => exists st, r = RStats st
  | ODirty _ => exists b, r = RBool b
  | _ => True
  end.

Definition oshape (w : world) (iw : iworld) (o : op) (r : out) : Prop :=
  match acc_handle o with
  | Some m => forall (mk : mapkey) t tm sp, mids w !! m = Some (mk, t) -> iw !! mk = Some (tm, sp) -> dshape o sp r
  | None => match o with OSnap _ => exists l, r = RSnap l | _ => True end
  end.

(** ** 3. Well-formed calls *)

Definition data_ok (t : ktype) (s : store) (o : op) : Prop :=
  match o with
  | OPut _ k v => key_wf (kt s) k /\ val_wf v
  | OGet _ k | ODel _ k | OHas _ k => key_wf (kt s) k
  | OBulkGet _ ks => Forall (key_wf (kt s)) ks
  | OBulkDel _ ks => Forall (key_wf (kt s)) ks /\ NoDup ks
  | OBulkPut _ kvs => Forall (fun kv : bytes * bytes => key_wf (kt s) kv.1 /\ val_wf kv.2) kvs /\ NoDup (kvs.*1)
  | OPutIter _ kvs => Forall (fun kv : bytes * bytes => key_wf (kt s) kv.1 /\ val_wf kv.2) kvs
  | OPutInt _ x v => key_wf (kt s) (of_int t x) /\ val_wf v
  | OGetInt _ x | ODelInt _ x | OHasInt _ x => key_wf (kt s) (of_int t x)
  | _ => True
  end.

(** a call through a map handle: the handle exists and the arguments are well formed for the
    store behind it; the other calls have no precondition *)
Definition op_ok (w : world) (o : op) : Prop :=
  match acc_handle o with
  | Some m => exists (mk : mapkey) t s, mids w !! m = Some (mk, t) /\ files w !! mk = Some s /\ data_ok t s o
  | None => True
  end.

(** the two refusals of [open] the crate documents *)
Definition refused_open (w : world) (o : op) (tg : tag) : Prop :=
  match o with
  | OMap _ d t name p =>
    exists dir, dbs w !! d = Some dir /\
      match files w !! ((dir, name) : mapkey) with
      | Some s => sig_of (kt s) <> sig_of t /\ tg = BadSig
      | None => p_buckets p = Capacity 0 /\ tg = BadParam
      end
  | _ => False
  end.

(** ** 4. One data call on one store *)

Definition dgoal (t : ktype) (o : op) (s : store) (sp : spec) : Prop :=
  (forall s', store_effect t o s = Some s' -> Inv s' /\ represents s' (idata t o sp).1 /\ kt s' = kt s) /\
  (store_effect t o s = None -> (idata t o sp).1 = sp) /\
  (forall x, (idata t o sp).2 = Some x -> store_out t o s = x) /\
  (forall tg, store_out t o s <> RPanic tg) /\
  store_out t o s <> RFuel /\ store_out t o s <> RErr /\ store_out t o s <> RNoHandle /\
  dshape o sp (store_out t o s).

Lemma empty_test (sp : gmap bytes bytes) : (N.of_nat (size sp) =? 0) = bool_decide (sp = ∅).
Proof.
  destruct (decide (sp = ∅)) as [-> | Hne].
  - rewrite map_size_empty, bool_decide_eq_true_2 by reflexivity. reflexivity.
  - rewrite bool_decide_eq_false_2 by exact Hne. apply N.eqb_neq. intros H.
    apply Hne. apply map_size_empty_iff. lia.
Qed.

Ltac fin :=
  cbn [ok_opt out_of_res fmap option_fmap option_map fst snd];
  split_and!;
  [ intros ? [= <-]; auto
  | first [ discriminate | intros _; reflexivity ]
  | first [ intros ? [= <-]; reflexivity | intros ?; discriminate ]
  | intros ?; discriminate
  | discriminate
  | discriminate
  | discriminate
  | try exact I ].

Lemma data_refines t o s sp m :
  acc_handle o = Some m -> Inv s -> represents s sp -> data_ok t s o -> dgoal t o s sp.
Proof.
  intros Ha HI HR Hok. unfold dgoal.
  destruct o; cbn [acc_handle] in Ha; try discriminate Ha; clear Ha;
    cbn [data_ok] in Hok; cbn [store_effect store_out idata fst snd dshape].
  - (* OPut *) destruct Hok as [Hk Hv].
    destruct (put_closed s sp k v HI HR Hk Hv) as (s1 & Hp & HI1 & HR1 & Ht1 & _).
    rewrite Hp. fin.
  - (* OGet *) destruct (get_closed s sp k HI HR Hok) as [Hg _]. rewrite Hg. fin.
  - (* ODel *) destruct (del_closed s sp k HI HR Hok) as (s1 & Hd & HI1 & HR1 & Ht1 & _).
    rewrite Hd. fin.
  - (* OHas *) destruct (get_closed s sp k HI HR Hok) as [_ Hh]. rewrite Hh. fin.
  - (* OLen *) rewrite (len_closed s sp HI HR). fin.
  - (* OEmpty *) rewrite (len_closed s sp HI HR), empty_test. fin.
  - (* OFlush *) pose proof (flush_eqv_self s) as E. symmetry in E.
    pose proof (Inv_eqv _ _ E HI) as HI1. pose proof (represents_eqv _ _ _ E HR) as HR1.
    pose proof (kt_eqv _ _ E) as Ht1. fin.
  - (* OSyncAll *) pose proof (flush_eqv_self s) as E. symmetry in E.
    pose proof (Inv_eqv _ _ E HI) as HI1. pose proof (represents_eqv _ _ _ E HR) as HR1.
    pose proof (kt_eqv _ _ E) as Ht1. fin.
  - (* OSyncData *) pose proof (flush_eqv_self s) as E. symmetry in E.
    pose proof (Inv_eqv _ _ E HI) as HI1. pose proof (represents_eqv _ _ _ E HR) as HR1.
    pose proof (kt_eqv _ _ E) as Ht1. fin.
  - (* OFill *) fin.
  - (* ODirty *) fin. eexists; reflexivity.
  - (* OIter *) destruct (iter_run_spec s sp HI HR) as (kvs & Hrun & Hperm & Hlen).
    rewrite Hrun. fin. exists kvs. split; [reflexivity|]. split; [exact Hperm|].
    rewrite Hperm. reflexivity.
  - (* OStats *) destruct (stats_terminate s sp HI HR) as [st Hst]. rewrite Hst. fin.
    eexists; reflexivity.
  - (* OBulkGet *) rewrite (bulk_get_key_sorter s sp ks HI HR Hok). fin.
  - (* OBulkDel *) destruct Hok as [Hk Hnd].
    destruct (bulk_delete_key_sorter s sp ks HI HR Hk Hnd) as (s1 & Hd & HI1 & HR1 & Ht1 & _).
    rewrite Hd. fin.
  - (* OBulkPut *) destruct Hok as [Hk Hnd].
    destruct (bulk_put_kv_sorter s sp kvs HI HR Hk Hnd) as (s1 & Hp & HI1 & HR1 & Ht1 & _).
    rewrite Hp. fin.
  - (* OPutIter *)
    destruct (put_from_iter_in_order s sp kvs HI HR Hok) as (s1 & Hp & HI1 & HR1 & Ht1 & _).
    rewrite Hp. fin.
  - (* OPutInt *) destruct Hok as [Hk Hv].
    destruct (put_closed s sp (of_int t x) v HI HR Hk Hv) as (s1 & Hp & HI1 & HR1 & Ht1 & _).
    rewrite Hp. fin.
  - (* OGetInt *) destruct (get_closed s sp (of_int t x) HI HR Hok) as [Hg _]. rewrite Hg. fin.
  - (* ODelInt *) destruct (del_closed s sp (of_int t x) HI HR Hok) as (s1 & Hd & HI1 & HR1 & Ht1 & _).
    rewrite Hd. fin.
  - (* OHasInt *) destruct (get_closed s sp (of_int t x) HI HR Hok) as [_ Hh]. rewrite Hh. fin.
Qed.

(** ** 5. One call on the world *)

Lemma step_data w o m (mk : mapkey) t s :
  acc_handle o = Some m -> mids w !! m = Some (mk, t) -> files w !! mk = Some s ->
  step w o =
  (match store_effect t o s with Some s' => set_files w (<[mk := s']> (files w)) | None => w end,
   store_out t o s).
Proof.
  intros Ha Hm Hf. apply injective_projections; cbn [fst snd].
  - rewrite (step_access w o m Ha). unfold apply_effect. rewrite Hm, Hf. reflexivity.
  - rewrite (step_access_out w o m Ha). rewrite Hm, Hf. reflexivity.
Qed.

(** the conclusion of the main theorem on [w' r] (model) and [iw' ir] (ideal) *)
Definition step_goal (w : world) (iw : iworld) (o : op)
    (w' : world) (r : out) (iw' : iworld) (ir : option out) : Prop :=
  wrep w' iw' /\
  (forall x, ir = Some x -> r = x) /\
  (forall tg, r = RPanic tg -> refused_open w o tg /\ ir = Some (RPanic tg)) /\
  r <> RFuel /\ r <> RErr /\
  (is_Some (acc_handle o) -> r <> RNoHandle) /\
  oshape w iw o r.

Lemma step_refines_data w iw o m :
  wrep w iw -> op_ok w o -> acc_handle o = Some m ->
  step_goal w iw o (step w o).1 (step w o).2 (istep w iw o).1 (istep w iw o).2.
Proof.
  intros Hw Hok Ha. pose proof Hw as [Hf Hh]%wrep_alt.
  unfold op_ok in Hok. rewrite Ha in Hok. destruct Hok as (mk & t & s & Hm & Hs & Hd).
  destruct (frep_lookup _ _ mk s Hf Hs) as (tm & sp & Hi & Ht & HI & HR).
  rewrite (step_data w o m mk t s Ha Hm Hs). rewrite (istep_acc w iw o m Ha), Hm, Hi. cbn [fst snd].
  destruct (data_refines t o s sp m Ha HI HR Hd) as (D1 & D2 & D3 & D4 & D5 & D6 & D7 & D8).
  unfold step_goal. split_and!.
  - apply wrep_alt. destruct (store_effect t o s) as [s'|] eqn:He.
    + destruct (D1 s' eq_refl) as (HI' & HR' & Ht'). cbn [set_files files mids opened]. split.
      * apply frep_insert; [exact Hf | rewrite Ht'; exact Ht | exact HI' | exact HR'].
      * apply (hrep_mono (mids w) (mids w) (opened w) (opened w) iw); auto.
        apply (itypes_le_update iw mk tm sp). exact Hi.
    + rewrite (D2 eq_refl). rewrite (insert_id iw mk (tm, sp) Hi). split; assumption.
  - exact D3.
  - intros tg E. destruct (D4 tg E).
  - exact D5.
  - exact D6.
  - intros _. exact D7.
  - unfold oshape. rewrite Ha. intros mk' t' tm' sp' Hm' Hi'.
    rewrite Hm in Hm'. injection Hm' as <- <-. rewrite Hi in Hi'. injection Hi' as <- <-. exact D8.
Qed.

(** [open_with_params] against [iopen] *)
Lemma open_map_refines w iw (mk : mapkey) t p :
  frep (files w) iw -> hrep (mids w) (opened w) iw ->
  match open_map w mk t p with
  | Ok w1 =>
    frep (files w1) (iopen iw mk t p).1 /\ hrep (mids w1) (opened w1) (iopen iw mk t p).1 /\
    mk ∈ opened w1 /\
    (exists tm sp, (iopen iw mk t p).1 !! mk = Some (tm, sp) /\ sig_of t = sig_of tm) /\
    (iopen iw mk t p).2 = RUnit
  | Panic tg =>
    iopen iw mk t p = (iw, RPanic tg) /\
    match files w !! mk with
    | Some s => sig_of (kt s) <> sig_of t /\ tg = BadSig
    | None => p_buckets p = Capacity 0 /\ tg = BadParam
    end
  | IoErr | OutOfFuel => False
  end.
Proof.
  intros Hf Hh. unfold open_map, iopen.
  destruct (files w !! mk) as [s|] eqn:Es.
  - destruct (frep_lookup _ _ mk s Hf Es) as (tm & sp & Hi & Ht & HI & HR). rewrite Hi, Ht.
    destruct (bytes_eqb (sig_of tm) (sig_of t)) eqn:Hsig.
    + apply bytes_eqb_eq in Hsig.
      destruct (bool_decide (mk ∈ opened w)) eqn:Hop; cbn [fst snd files mids opened].
      * apply bool_decide_eq_true in Hop. split_and!; try assumption; try reflexivity.
        exists tm, sp. auto.
      * split_and!.
        -- rewrite <- (insert_id iw mk (tm, sp) Hi). apply frep_insert; [exact Hf | exact Ht | |].
           ++ apply (Inv_eqv s); [symmetry; apply reopen_eqv_self | exact HI].
           ++ apply (represents_eqv s); [symmetry; apply reopen_eqv_self | exact HR].
        -- apply (hrep_mono (mids w) (mids w) (opened w) _ iw iw Hh); [auto | | apply itypes_le_refl].
           intros mk' Hin. apply elem_of_union_r. exact Hin.
        -- apply elem_of_union_l, elem_of_singleton. reflexivity.
        -- exists tm, sp. auto.
        -- reflexivity.
    + split; [reflexivity|]. split; [|reflexivity].
      intros E. rewrite E, bytes_eqb_refl in Hsig. discriminate Hsig.
  - pose proof (frep_none _ _ mk Hf Es) as Hi. rewrite Hi.
    destruct (buckets_of_param_cases (p_buckets p)) as [(n & Hn & Hpos) | [Hn Hp]]; rewrite Hn;
      cbn [rbind is_ok fst snd files mids opened].
    + destruct (create_closed t n Hpos) as [HIc HRc]. split_and!.
      * apply frep_insert; [exact Hf | reflexivity | exact HIc | exact HRc].
      * apply (hrep_mono (mids w) (mids w) (opened w) _ iw _ Hh); [auto | | apply itypes_le_new; exact Hi].
        intros mk' Hin. apply elem_of_union_r. exact Hin.
      * apply elem_of_union_l, elem_of_singleton. reflexivity.
      * exists t, ∅. rewrite lookup_insert. auto.
      * reflexivity.
    + split; [reflexivity|]. split; [exact Hp | reflexivity].
Qed.

Ltac easy_out :=
  split_and!;
  [ | first [ intros ? [= <-]; reflexivity | intros ? ?; discriminate ]
    | intros ? ?; discriminate | discriminate | discriminate
    | intros [? ?]; discriminate | try exact I ].

Lemma step_refines_other w iw o :
  wrep w iw -> acc_handle o = None -> api_op o = true ->
  step_goal w iw o (step w o).1 (step w o).2 (istep w iw o).1 (istep w iw o).2.
Proof.
  intros Hw Ha Hapi. pose proof Hw as [Hf Hh]%wrep_alt. unfold step_goal, oshape, istep. rewrite Ha.
  destruct o; try discriminate Ha; try discriminate Hapi; cbn [step refused_open].
  - (* ODb *) cbn [fst snd]. easy_out. apply wrep_alt. cbn [files mids opened]. split; assumption.
  - (* ODbClone *) destruct (dbs w !! d) as [dir|]; cbn [fst snd]; easy_out; [|exact Hw].
    apply wrep_alt. cbn [files mids opened]. split; assumption.
  - (* OMap *) destruct (dbs w !! d) as [dir|] eqn:Hd.
    + pose proof (open_map_refines w iw (dir, name) t p Hf Hh) as Ho.
      destruct (open_map w (dir, name) t p) as [w1|tg| |] eqn:Eo.
      * destruct Ho as (Hf1 & Hh1 & Hop1 & (tm & sp & Hi1 & Hsig1) & Hr1). cbn [fst snd]. rewrite Hr1.
        easy_out. apply wrep_alt. cbn [files mids opened]. split; [exact Hf1|].
        apply (hrep_insert _ _ _ m (dir, name) t tm sp); assumption.
      * destruct Ho as (Hio & Href). rewrite Hio. cbn [fst snd]. split_and!.
        -- exact Hw.
        -- intros x [= <-]. reflexivity.
        -- intros tg' [= <-]. split; [|reflexivity]. exists dir. split; [reflexivity | exact Href].
        -- discriminate.
        -- discriminate.
        -- intros [? ?]; discriminate.
        -- exact I.
      * destruct Ho.
      * destruct Ho.
    + cbn [fst snd]. split_and!; try discriminate; try exact I; try exact Hw.
      * intros x [= <-]. reflexivity.
      * intros [? ?]; discriminate.
  - (* OMapClone *) destruct (mids w !! m) as [[mk0 t0]|] eqn:Hm; cbn [fst snd]; easy_out; [|exact Hw].
    apply wrep_alt. cbn [files mids opened]. split; [exact Hf|].
    destruct (Hh m mk0 t0 Hm) as [Hop (tm & sp & Hi & Hsig)].
    apply (hrep_insert _ _ _ nm mk0 t0 tm sp); assumption.
  - (* ODrop *) cbn [fst snd]. easy_out. apply wrep_alt. apply close_unreferenced_rep; cbn [files mids opened]; [exact Hf|].
    apply (hrep_mono (mids w) _ (opened w) (opened w) iw iw Hh); [ | auto | apply itypes_le_refl].
    intros m' h Hl. apply lookup_delete_Some in Hl as [_ Hl]. exact Hl.
  - (* ODropDb *) cbn [fst snd]. easy_out. apply wrep_alt. apply close_unreferenced_rep; cbn [files mids opened]; assumption.
  - (* OCloseAll *) cbn [fst snd]. easy_out. apply wrep_alt. apply close_unreferenced_rep; cbn [files mids opened]; [exact Hf|].
    apply hrep_empty.
  - (* ODbSync *) destruct (dbs w !! d) as [dir|]; cbn [fst snd]; easy_out; [|exact Hw].
    apply wrep_alt. cbn [set_files files mids opened]. split; [|exact Hh].
    apply (frep_eqv (files w)); [exact Hf|]. apply db_sync_files_rel. intros mk. apply files_rel_refl.
  - (* OSnap *) cbn [fst snd]. easy_out; [exact Hw|]. eexists. reflexivity.
Qed.

Lemma world_step_refines_proj w iw o :
  wrep w iw -> op_ok w o -> api_op o = true ->
  step_goal w iw o (step w o).1 (step w o).2 (istep w iw o).1 (istep w iw o).2.
Proof.
  intros Hw Hok Hapi. destruct (acc_handle o) as [m|] eqn:Ha.
  - apply (step_refines_data w iw o m); assumption.
  - apply step_refines_other; assumption.
Qed.

(** ** 6. MAIN THEOREM *)
Theorem world_step_refines w iw o :
  wrep w iw -> op_ok w o -> api_op o = true ->
  let '(w', r) := step w o in
  let '(iw', ir) := istep w iw o in
  wrep w' iw' /\
  (** the call returns exactly the ideal result *)
  (forall x, ir = Some x -> r = x) /\
  (** no panic except a refused open (wrong signature / Capacity(0)), which the ideal world predicts *)
  (forall tg, r = RPanic tg -> refused_open w o tg /\ ir = Some (RPanic tg)) /\
  (** every modelled loop terminates; no error on a healthy file system *)
  r <> RFuel /\ r <> RErr /\
  (** a data call through an existing handle is executed *)
  (is_Some (acc_handle o) -> r <> RNoHandle) /\
  (** traversal / statistics / probes return a value of the right shape *)
  oshape w iw o r.
Proof.
  intros Hw Hok Hapi. pose proof (world_step_refines_proj w iw o Hw Hok Hapi) as H.
  destruct (step w o) as [w' r], (istep w iw o) as [iw' ir]. exact H.
Qed.

(** ** 7. Runs *)
Fixpoint irun (w : world) (iw : iworld) (ops : list op) : iworld * list (option out) :=
  match ops with
  | [] => (iw, [])
  | o :: ops' =>
    let r := istep w iw o in
    let rs := irun (step w o).1 r.1 ops' in
    (rs.1, r.2 :: rs.2)
  end.

(** every call is an API call and is well formed in the world reached so far *)
Fixpoint ops_ok (w : world) (ops : list op) : Prop :=
  match ops with
  | [] => True
  | o :: ops' => op_ok w o /\ api_op o = true /\ ops_ok (step w o).1 ops'
  end.

Definition agrees (r : out) (ir : option out) : Prop :=
  (forall x, ir = Some x -> r = x) /\
  (forall tg, r = RPanic tg -> ir = Some (RPanic tg)) /\
  r <> RFuel /\ r <> RErr.

Theorem world_run_refines w iw ops :
  wrep w iw -> ops_ok w ops ->
  wrep (world_run w ops) (irun w iw ops).1 /\
  Forall2 agrees (run_outs w ops) (irun w iw ops).2.
Proof.
  revert w iw. induction ops as [|o ops IH]; intros w iw Hw Hok.
  - split; [exact Hw | constructor].
  - destruct Hok as (Ho & Hapi & Hrest).
    destruct (world_step_refines_proj w iw o Hw Ho Hapi) as (H1 & H2 & H3 & H4 & H5 & H6 & H7).
    destruct (IH _ _ H1 Hrest) as [IH1 IH2]. rewrite world_run_cons.
    cbn [irun run_outs fst snd]. split; [exact IH1|]. constructor; [|exact IH2].
    split_and!; try assumption. intros tg E. apply (H3 tg E).
Qed.

Corollary world_run_from_empty ops :
  ops_ok world0 ops ->
  wrep (world_run world0 ops) (irun world0 ∅ ops).1 /\
  Forall2 agrees (run_outs world0 ops) (irun world0 ∅ ops).2.
Proof. apply world_run_refines. exact wrep_world0. Qed.

(** ** 8. C11 in ideal terms: a call changes at most the ideal map it targets *)
Lemma iopen_frame (iw : iworld) (mk mk' : mapkey) t p : mk' <> mk -> (iopen iw mk t p).1 !! mk' = iw !! mk'.
Proof.
  intros Hne. unfold iopen. destruct (iw !! mk) as [[tm sp]|] eqn:Hi.
  - destruct (bytes_eqb (sig_of tm) (sig_of t)); reflexivity.
  - destruct (is_ok (buckets_of_param (p_buckets p))); cbn [fst]; [|reflexivity].
    apply lookup_insert_ne. intros E. apply Hne. symmetry. exact E.
Qed.

Theorem istep_frame (w : world) (iw : iworld) (o : op) (mk mk' : mapkey) :
  target w o = Some mk -> mk' <> mk -> (istep w iw o).1 !! mk' = iw !! mk'.
Proof.
  destruct (acc_handle o) as [m|] eqn:Ha.
  - rewrite (target_acc w o m Ha), (istep_acc w iw o m Ha).
    destruct (mids w !! m) as [[mk0 t]|]; cbn [fmap option_fmap option_map fst]; [|discriminate].
    intros [= <-] Hne. destruct (iw !! mk0) as [[tm sp]|] eqn:Hi; cbn [fst]; [|reflexivity].
    apply lookup_insert_ne. intros E. apply Hne. symmetry. exact E.
  - unfold istep. rewrite Ha.
    destruct o; try discriminate Ha; cbn [target acc_handle]; try discriminate.
    destruct (dbs w !! d) as [dir|]; cbn [fmap option_fmap option_map fst]; [|discriminate].
    intros [= <-] Hne. apply iopen_frame. exact Hne.
Qed.

Theorem istep_no_target (w : world) (iw : iworld) (o : op) : target w o = None -> (istep w iw o).1 = iw.
Proof.
  destruct (acc_handle o) as [m|] eqn:Ha.
  - rewrite (target_acc w o m Ha), (istep_acc w iw o m Ha).
    destruct (mids w !! m) as [[mk0 t]|]; cbn [fmap option_fmap option_map fst]; [discriminate | reflexivity].
  - unfold istep. rewrite Ha.
    destruct o; try discriminate Ha; cbn [target acc_handle]; try reflexivity.
    destruct (dbs w !! d) as [dir|]; cbn [fmap option_fmap option_map fst]; [discriminate | reflexivity].
Qed.

(** together with the model side ([step_frame]): neither the files nor the ideal map of any
    other name change *)
Corollary step_frame_both (w : world) (iw : iworld) (o : op) (mk mk' : mapkey) :
  target w o = Some mk -> mk' <> mk ->
  (match o with ODbSync _ | ODrop _ | ODropDb _ | OCloseAll | OCpDir _ _ => False | _ => True end) ->
  files (step w o).1 !! mk' = files w !! mk' /\ (istep w iw o).1 !! mk' = iw !! mk'.
Proof.
  intros Ht Hne Hop. split; [|apply (istep_frame w iw o mk mk' Ht Hne)].
  apply step_frame; [|exact Hop]. rewrite Ht. intros [= E]. apply Hne. symmetry. exact E.
Qed.

(** ** 9. Executable checks of well-formedness (used by the examples; sound, not complete) *)
Lemma bytes_okb_ok k : bytes_okb k = true -> bytes_ok k.
Proof.
  unfold bytes_okb, bytes_ok. intros H. apply Forall_forall. intros b Hb.
  rewrite forallb_forall in H. apply elem_of_list_In in Hb. specialize (H _ Hb).
  apply N.ltb_lt in H. exact H.
Qed.

Lemma forallb_Forall {A} (f : A -> bool) (P : A -> Prop) (l : list A) :
  (forall a, f a = true -> P a) -> forallb f l = true -> Forall P l.
Proof.
  intros HfP H. apply Forall_forall. intros a Ha. apply HfP. rewrite forallb_forall in H.
  apply H. apply elem_of_list_In. exact Ha.
Qed.

Definition val_wfb (v : bytes) : bool := bytes_okb v && (blen v <? 2 ^ 31).

Definition key_wfb (t : ktype) (k : bytes) : bool :=
  bytes_okb k && (blen k <? 2 ^ 31) &&
  match t with
  | KVu64 =>
    match decode k with
    | Some (x, _) => (x <? 2 ^ 64) && bool_decide (k = encode x)
    | None => false
    end
  | _ => true
  end.

Definition kv_wfb (t : ktype) (kv : bytes * bytes) : bool := key_wfb t kv.1 && val_wfb kv.2.

Lemma val_wfb_ok v : val_wfb v = true -> val_wf v.
Proof.
  unfold val_wfb. intros [H1 H2]%andb_true_iff.
  split; [apply bytes_okb_ok; exact H1 | apply N.ltb_lt; exact H2].
Qed.

Lemma key_wfb_ok t k : key_wfb t k = true -> key_wf t k.
Proof.
  unfold key_wfb. intros [[H1 H2]%andb_true_iff H3]%andb_true_iff.
  split; [apply bytes_okb_ok; exact H1|]. split; [apply N.ltb_lt; exact H2|].
  intros ->. destruct (decode k) as [[x r]|]; [|discriminate H3].
  apply andb_true_iff in H3 as [Hx He]. exists x.
  split; [apply N.ltb_lt; exact Hx | apply bool_decide_eq_true in He; exact He].
Qed.

Lemma kv_wfb_ok t kv : kv_wfb t kv = true -> key_wf t kv.1 /\ val_wf kv.2.
Proof.
  unfold kv_wfb. intros [H1 H2]%andb_true_iff. split; [apply key_wfb_ok; exact H1 | apply val_wfb_ok; exact H2].
Qed.

Definition data_okb (t : ktype) (s : store) (o : op) : bool :=
  match o with
  | OPut _ k v => key_wfb (kt s) k && val_wfb v
  | OGet _ k | ODel _ k | OHas _ k => key_wfb (kt s) k
  | OBulkGet _ ks => forallb (key_wfb (kt s)) ks
  | OBulkDel _ ks => forallb (key_wfb (kt s)) ks && bool_decide (NoDup ks)
  | OBulkPut _ kvs => forallb (kv_wfb (kt s)) kvs && bool_decide (NoDup (kvs.*1))
  | OPutIter _ kvs => forallb (kv_wfb (kt s)) kvs
  | OPutInt _ x v => key_wfb (kt s) (of_int t x) && val_wfb v
  | OGetInt _ x | ODelInt _ x | OHasInt _ x => key_wfb (kt s) (of_int t x)
  | _ => true
  end.

Lemma data_okb_ok t s o : data_okb t s o = true -> data_ok t s o.
Proof.
  destruct o; cbn [data_okb data_ok]; intros H; try exact I;
    try (apply key_wfb_ok; exact H).
  - apply andb_true_iff in H as [H1 H2]. split; [apply key_wfb_ok; exact H1 | apply val_wfb_ok; exact H2].
  - apply (forallb_Forall (key_wfb (kt s))); [apply key_wfb_ok | exact H].
  - apply andb_true_iff in H as [H1 H2]. split.
    + apply (forallb_Forall (key_wfb (kt s))); [apply key_wfb_ok | exact H1].
    + apply bool_decide_eq_true in H2. exact H2.
  - apply andb_true_iff in H as [H1 H2]. split.
    + apply (forallb_Forall (kv_wfb (kt s))); [apply kv_wfb_ok | exact H1].
    + apply bool_decide_eq_true in H2. exact H2.
  - apply (forallb_Forall (kv_wfb (kt s))); [apply kv_wfb_ok | exact H].
  - apply andb_true_iff in H as [H1 H2]. split; [apply key_wfb_ok; exact H1 | apply val_wfb_ok; exact H2].
Qed.

Definition op_okb (w : world) (o : op) : bool :=
  match acc_handle o with
  | Some m =>
    match mids w !! m with
    | Some (mk, t) => match files w !! mk with Some s => data_okb t s o | None => false end
    | None => false
    end
  | None => true
  end.

Lemma op_okb_ok w o : op_okb w o = true -> op_ok w o.
Proof.
  unfold op_okb, op_ok. destruct (acc_handle o) as [m|]; [|intros _; exact I].
  destruct (mids w !! m) as [[mk t]|] eqn:Hm; [|discriminate].
  destruct (files w !! mk) as [s|] eqn:Hs; [|discriminate].
  intros H. exists mk, t, s. split; [reflexivity|]. split; [exact Hs|]. apply data_okb_ok. exact H.
Qed.

Fixpoint ops_okb (w : world) (ops : list op) : bool :=
  match ops with
  | [] => true
  | o :: ops' => op_okb w o && api_op o && ops_okb (step w o).1 ops'
  end.

Lemma ops_okb_ok ops : forall w, ops_okb w ops = true -> ops_ok w ops.
Proof.
  induction ops as [|o ops IH]; intros w H; [exact I|].
  cbn [ops_okb] in H. apply andb_true_iff in H as [[H1 H2]%andb_true_iff H3].
  cbn [ops_ok]. split; [apply op_okb_ok; exact H1|]. split; [exact H2|]. apply IH. exact H3.
Qed.

(** ** 10. Non-vacuity: two maps of different key types in one directory, a cloned handle, a
    handle of the known pair, data and bulk calls through different handles *)
Module Example.
Definition p4 : params := Params (BucketsSize 4) BAuto BAuto BAuto.
Definition mk_a : mapkey := ([100], [97]).
Definition mk_b : mapkey := ([100], [98]).

(** the statistics record without the per-class tables *)
Definition brief (r : out) : out :=
  match r with
  | RStats st => RStats (MkStats [] [] [] [] (st_key_lens st) (st_val_lens st) (st_fill st))
  | _ => r
  end.

Definition ex_ops : list op :=
  [ODb 0 [100];
   OMap 0 0 KBytes [97] p4; OMap 1 0 KU64 [98] p4; OMapClone 2 0;
   OPut 0 [1; 2] [10]; OPutInt 1 7 [20]; OPut 2 [3] [30]; OGet 0 [3];
   ODel 2 [1; 2]; OGet 0 [1; 2]; OHas 2 [3];
   OBulkPut 2 [([5], [50]); ([4], [40])]; OBulkGet 0 [[4]; [9]; [5]; [4]];
   OPutIter 1 [(of_u64 1, [1]); (of_u64 2, [2]); (of_u64 1, [3])]; OGetInt 1 1;
   OBulkDel 0 [[4]; [9]; [3]]; OLen 2; OLen 1; OEmpty 1; OIter 0 FIter; OStats 1;
   (* refused: "a" holds byte keys; Capacity(0) *)
   OMap 3 0 KU64 [97] p4; OMap 3 0 KBytes [99] (Params (Capacity 0) BAuto BAuto BAuto);
   (* accepted (finding D6): the u64 map "b" through a vu64 handle; the key of 9 is the varint [9] *)
   OMap 3 0 KVu64 [98] p4; OPutInt 3 9 [90]; OHasInt 3 9; OHasInt 1 9; OLen 1; ODelInt 1 7;
   ODirty 0; OFlush 0; ODrop 2; ODbSync 0; OSnap [101]; OMap 4 7 KBytes [97] p4; OCloseAll].

(** the run is well formed: the theorems apply *)
Example ex_ok : ops_ok world0 ex_ops.
Proof. apply ops_okb_ok. vm_compute. reflexivity. Qed.

(** what the model returns *)
Example ex_outs :
  map brief (run_outs world0 ex_ops) =
  [RUnit; RUnit; RUnit; RUnit; RUnit; RUnit; RUnit;
   ROpt (Some [30]); ROpt (Some [10]); ROpt None; RBool true; RUnit;
   RVec [Some [40]; None; Some [50]; Some [40]];
   RUnit; ROpt (Some [3]); RVec [Some [40]; None; Some [30]];
   RNum 1; RNum 3; RBool false; RIter [(1, ([5], [50]))] 0 [None; None];
   RStats (MkStats [] [] [] [] [(8, 3)] [(1, 3)] (1, 250));
   RPanic BadSig; RPanic BadParam; RUnit; RUnit;
   RBool true; RBool false; RNum 4; ROpt (Some [20]);
   RBool true; RUnit; RUnit; RUnit; RSnap []; RNoHandle; RUnit].
Proof. vm_compute. reflexivity. Qed.

(** what the ideal world says ([None]: no claim about the value) *)
Example ex_ideal_outs :
  (irun world0 ∅ ex_ops).2 =
  [Some RUnit; Some RUnit; Some RUnit; Some RUnit; Some RUnit; Some RUnit; Some RUnit;
   Some (ROpt (Some [30])); Some (ROpt (Some [10])); Some (ROpt None); Some (RBool true); Some RUnit;
   Some (RVec [Some [40]; None; Some [50]; Some [40]]);
   Some RUnit; Some (ROpt (Some [3])); Some (RVec [Some [40]; None; Some [30]]);
   Some (RNum 1); Some (RNum 3); Some (RBool false); None; None;
   Some (RPanic BadSig); Some (RPanic BadParam); Some RUnit; Some RUnit;
   Some (RBool true); Some (RBool false); Some (RNum 4); Some (ROpt (Some [20]));
   None; Some RUnit; Some RUnit; Some RUnit; None; Some RNoHandle; Some RUnit].
Proof. vm_compute. reflexivity. Qed.

(** the final ideal world: "a" (byte keys) and "b" (u64 keys, one of them made by the vu64 handle) *)
Example ex_ideal_world :
  map (fun x : mapkey * (ktype * spec) => (x.1, x.2.1, map_to_list x.2.2))
      (map_to_list (irun world0 ∅ ex_ops).1) =
  [(mk_a, KBytes, [([5], [50])]);
   (mk_b, KU64, [([9], [90]); (of_u64 1, [3]); (of_u64 2, [2])])].
Proof. vm_compute. reflexivity. Qed.

(** the instance of [world_run_refines] *)
Example ex_refines :
  wrep (world_run world0 ex_ops) (irun world0 ∅ ex_ops).1 /\
  Forall2 agrees (run_outs world0 ex_ops) (irun world0 ∅ ex_ops).2.
Proof. apply world_run_from_empty. exact ex_ok. Qed.

(** one step, in the middle of the run: a bulk put through the clone *)
Definition w_mid : world := world_run world0 (take 11 ex_ops).
Definition iw_mid : iworld := (irun world0 ∅ (take 11 ex_ops)).1.

Example ex_mid_rep : wrep w_mid iw_mid.
Proof. apply world_run_from_empty. apply ops_okb_ok. vm_compute. reflexivity. Qed.

Example ex_step :
  let o := OBulkPut 2 [([5], [50]); ([4], [40])] in
  wrep (step w_mid o).1 (istep w_mid iw_mid o).1 /\ (step w_mid o).2 = RUnit /\
  (istep w_mid iw_mid o).1 !! mk_b = iw_mid !! mk_b /\
  (fun x : ktype * spec => map_to_list x.2) <$> (istep w_mid iw_mid o).1 !! mk_a =
    Some [([3], [30]); ([4], [40]); ([5], [50])].
Proof.
  intros o.
  assert (op_ok w_mid o) as Hok by (apply op_okb_ok; vm_compute; reflexivity).
  pose proof (world_step_refines w_mid iw_mid o ex_mid_rep Hok eq_refl) as H.
  destruct (step w_mid o) as [w' r] eqn:Es, (istep w_mid iw_mid o) as [iw' ir] eqn:Ei.
  destruct H as (H1 & H2 & _). cbn [fst snd]. split; [exact H1|]. split.
  - apply H2. apply (f_equal snd) in Ei. cbn [snd] in Ei. rewrite <- Ei. vm_compute. reflexivity.
  - split.
    + apply (f_equal fst) in Ei. cbn [fst] in Ei. rewrite <- Ei.
      apply (istep_frame w_mid iw_mid o mk_a mk_b); [vm_compute; reflexivity | discriminate].
    + apply (f_equal fst) in Ei. cbn [fst] in Ei. rewrite <- Ei. vm_compute. reflexivity.
Qed.
End Example.

(** ** 11. FINDING: agreement of the signatures is not enough for the integer calls.

    A map created with [KVu64] keys can be opened through a [KU64] handle (same signature,
    finding D6).  The integer calls through that handle make 8-byte little-endian keys, which are
    not canonical varints: [key_wf KVu64] fails, and the calls are outside the theorem.  What
    happens then, in a map with one bucket:
    - (a) the comparison against a stored key decodes both sides and panics on the 8-byte key
      of 255 ([0xff] announces 9 bytes);
    - (b) the 8-byte key of 5 decodes to 5 (the comparison ignores the trailing zeros), so the
      vu64 key [5] overwrites it: one entry where the ideal byte-string map has two.
    The other direction (a [KU64] map through a [KVu64] handle) is covered by [of_int_wf]. *)
Module Counterexample.
Definition p1 : params := Params (BucketsSize 1) BAuto BAuto BAuto.

Definition setup : list op := [ODb 0 [100]; OMap 0 0 KVu64 [97] p1; OMap 1 0 KU64 [97] p1; OPutInt 0 1 [10]].

Example setup_ok : ops_ok world0 setup.
Proof. apply ops_okb_ok. vm_compute. reflexivity. Qed.

Example setup_rep : wrep (world_run world0 setup) (irun world0 ∅ setup).1.
Proof. apply world_run_from_empty. exact setup_ok. Qed.

(** handle 1 has the signature of the store behind it, and 255 is an integer in range *)
Example handle_sig :
  mids (world_run world0 setup) !! 1 = Some (([100], [97]), KU64) /\
  kt <$> files (world_run world0 setup) !! (([100], [97]) : mapkey) = Some KVu64 /\
  sig_of KU64 = sig_of KVu64 /\ int_ok KU64 255.
Proof. split_and!; [vm_compute; reflexivity.. | intros H; discriminate H]. Qed.

Example key_not_wf : ~ key_wf KVu64 (of_int KU64 255).
Proof.
  intros (_ & _ & H). destruct (H eq_refl) as (x & Hx & E).
  pose proof (decode_of_vu64 x Hx) as Hd. unfold of_vu64 in Hd. rewrite <- E in Hd.
  vm_compute in Hd. discriminate Hd.
Qed.

Example a_panic : (step (world_run world0 setup) (OPutInt 1 255 [20])).2 = RPanic Corrupt.
Proof. vm_compute. reflexivity. Qed.

Definition ops_b : list op :=
  [ODb 0 [100]; OMap 0 0 KVu64 [97] p1; OMap 1 0 KU64 [97] p1;
   OPutInt 1 5 [20]; OPutInt 0 5 [30]; OLen 0; OGetInt 1 5].

Example b_diverges :
  run_outs world0 ops_b = [RUnit; RUnit; RUnit; RUnit; RUnit; RNum 1; ROpt (Some [30])] /\
  (irun world0 ∅ ops_b).2 =
    [Some RUnit; Some RUnit; Some RUnit; Some RUnit; Some RUnit; Some (RNum 2); Some (ROpt (Some [20]))] /\
  ops_okb world0 ops_b = false.
Proof. split_and!; vm_compute; reflexivity. Qed.
End Counterexample.

(** ** Assumptions *)
Print Assumptions wrep_world0.
Print Assumptions of_int_wf.
Print Assumptions int_key_wf.
Print Assumptions world_step_refines.
Print Assumptions world_run_refines.
Print Assumptions istep_frame.
Print Assumptions istep_no_target.
Print Assumptions Example.ex_refines.
Print Assumptions Example.ex_step.
Print Assumptions Counterexample.a_panic.
Print Assumptions Counterexample.b_diverges.
