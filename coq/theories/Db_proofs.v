(** * Db_proofs: world-level facts behind C11 (named maps are isolated, handles alias one state),
    C15 (read-only calls have no side effects) and C18 (the on-disk image is a function of the
    update history; interleaved read-only / flush calls do not matter). *)
From Aby Require Import Base Vu64 KeyTypes Consts Sizing Alloc Htx Store Iter Stats Layout Bulk Db.

(** ** Part 1: stores equal up to the in-memory flags *)

Definition store_eqv (s s' : store) : Prop :=
  kt s = kt s' /\ hx s = hx s' /\ keyf s = keyf s' /\ valf s = valf s'.

#[global] Instance store_eqv_equiv : Equivalence store_eqv.
Proof.
  split.
  - intros s. unfold store_eqv. auto.
  - intros s s' (H1 & H2 & H3 & H4). unfold store_eqv. auto.
  - intros s1 s2 s3 (H1 & H2 & H3 & H4) (G1 & G2 & G3 & G4). unfold store_eqv.
    rewrite H1, H2, H3, H4. auto.
Qed.

Lemma store_eqv_refl s : store_eqv s s.
Proof. reflexivity. Qed.
Lemma store_eqv_sym s s' : store_eqv s s' -> store_eqv s' s.
Proof. intros H. symmetry. exact H. Qed.
Lemma store_eqv_trans s1 s2 s3 : store_eqv s1 s2 -> store_eqv s2 s3 -> store_eqv s1 s3.
Proof. intros H1 H2. etransitivity; eassumption. Qed.

(** the same store with other flags *)
Definition set_flags (s : store) (d y : bool) : store := Store (kt s) (hx s) (keyf s) (valf s) d y.

Lemma set_flags_eqv s d y : store_eqv (set_flags s d y) s.
Proof. unfold store_eqv. cbn. auto. Qed.

Lemma store_eqv_flags s s' : store_eqv s s' -> s' = set_flags s (dirty s') (synced s').
Proof.
  destruct s as [a b c d f1 f2], s' as [a' b' c' d' f1' f2']. unfold store_eqv, set_flags. cbn.
  intros (-> & -> & -> & ->). reflexivity.
Qed.

Lemma store_eqv_eq s s' : store_eqv s s' -> dirty s = dirty s' -> synced s = synced s' -> s = s'.
Proof.
  destruct s as [a b c d f1 f2], s' as [a' b' c' d' f1' f2']. unfold store_eqv. cbn.
  intros (-> & -> & -> & ->) -> ->. reflexivity.
Qed.

Lemma touch_eqv s s' : store_eqv s s' -> touch s = touch s'.
Proof. intros (H1 & H2 & H3 & H4). unfold touch. rewrite H1, H2, H3, H4. reflexivity. Qed.

Lemma touch_eqv_self s : store_eqv (touch s) s.
Proof. unfold store_eqv. cbn. auto. Qed.
Lemma flush_eqv_self s : store_eqv (flush s) s.
Proof. unfold flush. destruct (dirty s); [unfold store_eqv; cbn; auto | reflexivity]. Qed.
Lemma close_eqv_self s : store_eqv (close s) s.
Proof. unfold store_eqv. cbn. auto. Qed.
Lemma reopen_eqv_self s : store_eqv (reopen s) s.
Proof. unfold store_eqv. cbn. auto. Qed.

Lemma flush_eqv s s' : store_eqv s s' -> store_eqv (flush s) (flush s').
Proof. intros H. rewrite flush_eqv_self, flush_eqv_self. exact H. Qed.
Lemma close_eqv s s' : store_eqv s s' -> close s = close s'.
Proof. intros (H1 & H2 & H3 & H4). unfold close. rewrite H1, H2, H3, H4. reflexivity. Qed.
Lemma reopen_eqv s s' : store_eqv s s' -> store_eqv (reopen s) (reopen s').
Proof. intros H. rewrite reopen_eqv_self, reopen_eqv_self. exact H. Qed.

Lemma flush_clean s : dirty s = false -> flush s = s.
Proof. intros H. unfold flush. rewrite H. reflexivity. Qed.

(** [render] does not read the flags *)
Lemma render_eqv s s' : store_eqv s s' -> render s = render s'.
Proof. intros (H1 & H2 & H3 & H4). unfold render. rewrite H1, H2, H3, H4. reflexivity. Qed.

(** relating results in [res] *)
Inductive res_rel {A} (R : A -> A -> Prop) : res A -> res A -> Prop :=
| rr_ok a b : R a b -> res_rel R (Ok a) (Ok b)
| rr_panic t : res_rel R (Panic t) (Panic t)
| rr_io : res_rel R IoErr IoErr
| rr_fuel : res_rel R OutOfFuel OutOfFuel.

Lemma res_rel_refl {A} (R : A -> A -> Prop) (r : res A) : (forall a, R a a) -> res_rel R r r.
Proof. intros HR. destruct r; constructor. apply HR. Qed.

Lemma res_rel_of_eq {A} (R : A -> A -> Prop) (r r' : res A) : (forall a, R a a) -> r = r' -> res_rel R r r'.
Proof. intros HR ->. apply res_rel_refl. exact HR. Qed.

(** *** the read paths do not see the flags *)
Section flags.
Variables (s : store) (d y : bool).
Let s' := set_flags s d y.

Lemma read_krec_flags off : read_krec s' off = read_krec s off.
Proof. reflexivity. Qed.
Lemma read_val_flags off : read_val s' off = read_val s off.
Proof. reflexivity. Qed.

Lemma find_chain_flags fuel key prev off : find_chain fuel s' key prev off = find_chain fuel s key prev off.
Proof.
  revert prev off. induction fuel as [|f IH]; intros prev off; [reflexivity|].
  cbn [find_chain]. rewrite read_krec_flags. change (kt s') with (kt s).
  destruct (off =? 0); [reflexivity|].
  destruct (read_krec s off) as [r| | |]; cbn [rbind]; try reflexivity.
  destruct (cmp_eq (kt s) key (k_key r)) as [e| | |]; cbn [rbind]; try reflexivity.
  destruct e; [reflexivity|]. apply IH.
Qed.

Lemma find_flags key : find s' key = find s key.
Proof. unfold find. rewrite find_chain_flags. reflexivity. Qed.

Lemma get_flags key : get s' key = get s key.
Proof. unfold get. rewrite find_flags. reflexivity. Qed.
Lemma has_flags key : has s' key = has s key.
Proof. unfold has. rewrite find_flags. reflexivity. Qed.
Lemma len_flags : len s' = len s.
Proof. reflexivity. Qed.

Lemma bucket_loop_flags fuel n idx : bucket_loop fuel s' n idx = bucket_loop fuel s n idx.
Proof.
  revert idx. induction fuel as [|f IH]; intros idx; [reflexivity|].
  cbn [bucket_loop]. change (hx s') with (hx s).
  destruct (idx <? n); [|reflexivity].
  destruct (next_nonempty (hx s) n idx) as [[idx' off]| | |]; cbn [rbind]; try reflexivity.
  destruct (off =? 0); [apply IH | reflexivity].
Qed.

Lemma iter_next_off_flags st : iter_next_off s' st = iter_next_off s st.
Proof. unfold iter_next_off. rewrite read_krec_flags, bucket_loop_flags. reflexivity. Qed.

Lemma iter_next_flags st : iter_next s' st = iter_next s st.
Proof. unfold iter_next. rewrite iter_next_off_flags. reflexivity. Qed.

Lemma iter_collect_flags fuel st acc : iter_collect fuel s' st acc = iter_collect fuel s st acc.
Proof.
  revert st acc. induction fuel as [|f IH]; intros st acc; [reflexivity|].
  cbn [iter_collect]. rewrite iter_next_flags.
  destruct (iter_next s st) as [[st' o]| | |]; cbn [rbind]; try reflexivity.
  destruct o; [apply IH | reflexivity].
Qed.

Lemma iter_extra_flags n st : iter_extra n s' st = iter_extra n s st.
Proof.
  revert st. induction n as [|n IH]; intros st; [reflexivity|].
  cbn [iter_extra]. rewrite iter_next_flags.
  destruct (iter_next s st) as [[st' o]| | |]; cbn [rbind]; try reflexivity.
  rewrite IH. reflexivity.
Qed.

Lemma iter_run_flags : iter_run s' = iter_run s.
Proof.
  unfold iter_run. change (hx s') with (hx s). change (iter_new s') with (iter_new s).
  rewrite iter_collect_flags.
  destruct (iter_collect _ s (iter_new s) []) as [[items st]| | |]; cbn [rbind]; try reflexivity.
  rewrite iter_extra_flags. reflexivity.
Qed.

Lemma iter_all_flags : iter_all s' = iter_all s.
Proof.
  unfold iter_all. change (hx s') with (hx s). change (iter_new s') with (iter_new s).
  rewrite iter_collect_flags. reflexivity.
Qed.

Lemma stats_of_flags : stats_of s' = stats_of s.
Proof. reflexivity. Qed.

Lemma get_seq_flags l : get_seq s' l = get_seq s l.
Proof.
  induction l as [|[i k] l IH]; [reflexivity|].
  cbn [get_seq]. rewrite get_flags, IH. reflexivity.
Qed.

Lemma bulk_get_flags srt ks : bulk_get srt s' ks = bulk_get srt s ks.
Proof. unfold bulk_get. rewrite get_seq_flags. reflexivity. Qed.
End flags.

(** *** the statements on [store_eqv] arguments *)
Section eqv.
Variables s s' : store.
Hypothesis E : store_eqv s s'.

Lemma get_eqv k : get s k = get s' k.
Proof. rewrite (store_eqv_flags _ _ E). symmetry. apply get_flags. Qed.
Lemma has_eqv k : has s k = has s' k.
Proof. rewrite (store_eqv_flags _ _ E). symmetry. apply has_flags. Qed.
Lemma len_eqv : len s = len s'.
Proof. unfold len. destruct E as (_ & -> & _). reflexivity. Qed.
Lemma iter_run_eqv : iter_run s = iter_run s'.
Proof. rewrite (store_eqv_flags _ _ E). symmetry. apply iter_run_flags. Qed.
Lemma iter_all_eqv : iter_all s = iter_all s'.
Proof. rewrite (store_eqv_flags _ _ E). symmetry. apply iter_all_flags. Qed.
Lemma stats_of_eqv : stats_of s = stats_of s'.
Proof. rewrite (store_eqv_flags _ _ E). symmetry. apply stats_of_flags. Qed.
Lemma bulk_get_eqv srt ks : bulk_get srt s ks = bulk_get srt s' ks.
Proof. rewrite (store_eqv_flags _ _ E). symmetry. apply bulk_get_flags. Qed.

(** [put] and [del] start with [touch], which overwrites both flags: equal results *)
Lemma put_eqv k v : put s k v = put s' k v.
Proof. unfold put. rewrite (touch_eqv _ _ E). reflexivity. Qed.
Lemma del_eqv k : del s k = del s' k.
Proof. unfold del. rewrite (touch_eqv _ _ E). reflexivity. Qed.

Lemma put_eqv_rel k v : res_rel store_eqv (put s k v) (put s' k v).
Proof. apply res_rel_of_eq; [apply store_eqv_refl | apply put_eqv]. Qed.

Definition eqv_fst {A} (a b : store * A) : Prop := store_eqv (fst a) (fst b) /\ snd a = snd b.

Lemma eqv_fst_refl {A} (a : store * A) : eqv_fst a a.
Proof. split; reflexivity. Qed.

Lemma del_eqv_rel k : res_rel eqv_fst (del s k) (del s' k).
Proof. apply res_rel_of_eq; [apply eqv_fst_refl | apply del_eqv]. Qed.

Lemma del_seq_eqv l : res_rel eqv_fst (del_seq s l) (del_seq s' l).
Proof.
  destruct l as [|[i k] l].
  - cbn [del_seq]. constructor. split; [exact E | reflexivity].
  - cbn [del_seq]. rewrite del_eqv. apply res_rel_refl. apply eqv_fst_refl.
Qed.

Lemma bulk_delete_eqv srt ks : res_rel eqv_fst (bulk_delete srt s ks) (bulk_delete srt s' ks).
Proof.
  unfold bulk_delete.
  destruct (del_seq_eqv (srt (indexed ks))) as [[a ra] [b rb] [H1 H2]|t| |]; cbn [rbind]; try constructor.
  cbn [fst snd] in H1, H2. subst rb. split; [exact H1 | reflexivity].
Qed.

Lemma put_seq_eqv l : res_rel store_eqv (put_seq s l) (put_seq s' l).
Proof.
  destruct l as [|[k v] l].
  - cbn [put_seq]. constructor. exact E.
  - cbn [put_seq]. rewrite put_eqv. apply res_rel_refl. apply store_eqv_refl.
Qed.

Lemma bulk_put_eqv srt kvs : res_rel store_eqv (bulk_put srt s kvs) (bulk_put srt s' kvs).
Proof. apply put_seq_eqv. Qed.
Lemma put_from_iter_eqv kvs : res_rel store_eqv (put_from_iter s kvs) (put_from_iter s' kvs).
Proof. apply put_seq_eqv. Qed.
End eqv.

(** ** Part 2: classification of the operations *)

Definition read_only (o : op) : bool :=
  match o with
  | OGet _ _ | OHas _ _ | OLen _ | OEmpty _ | OFill _ | ODirty _ | OIter _ _ | OStats _
  | OBulkGet _ _ | OGetInt _ _ | OHasInt _ _ | OSnap _ => true
  | _ => false
  end.

Definition flush_like (o : op) : bool :=
  match o with
  | OFlush _ | OSyncAll _ | OSyncData _ | ODbSync _ => true
  | _ => false
  end.

(** the map handle through which a call reaches a store *)
Definition acc_handle (o : op) : option N :=
  match o with
  | OPut m _ _ | OGet m _ | ODel m _ | OHas m _ | OLen m | OEmpty m
  | OFlush m | OSyncAll m | OSyncData m | OFill m | ODirty m | OIter m _ | OStats m
  | OBulkGet m _ | OBulkDel m _ | OBulkPut m _ | OPutIter m _
  | OPutInt m _ _ | OGetInt m _ | ODelInt m _ | OHasInt m _ => Some m
  | _ => None
  end.

(** the map whose files a call may touch *)
Definition target (w : world) (o : op) : option mapkey :=
  match o with
  | OMap _ d _ name _ => (fun dir => (dir, name)) <$> dbs w !! d
  | _ => match acc_handle o with Some m => fst <$> mids w !! m | None => None end
  end.

Lemma target_acc w o m : acc_handle o = Some m -> target w o = fst <$> mids w !! m.
Proof. intros Ha. destruct o; cbn [acc_handle] in Ha; try discriminate Ha; cbn [target acc_handle]; injection Ha as Ha; subst; reflexivity. Qed.

Definition api_op (o : op) : bool := match o with OCpDir _ _ => false | _ => true end.

Lemma set_files_id w : set_files w (files w) = w.
Proof. destruct w; reflexivity. Qed.

(** *** [with_map] and [upd] *)
Lemma with_map_some w m f mk t s :
  mids w !! m = Some (mk, t) -> files w !! mk = Some s -> with_map w m f = f mk s.
Proof. intros Hm Hf. unfold with_map. rewrite Hm, Hf. reflexivity. Qed.

Lemma with_map_no_handle w m f : mids w !! m = None -> with_map w m f = (w, RNoHandle).
Proof. intros Hm. unfold with_map. rewrite Hm. reflexivity. Qed.

Lemma with_map_no_files w m f mk t :
  mids w !! m = Some (mk, t) -> files w !! mk = None -> with_map w m f = (w, RNoHandle).
Proof. intros Hm Hf. unfold with_map. rewrite Hm, Hf. reflexivity. Qed.

Lemma with_map_alias w m1 m2 f : mids w !! m1 = mids w !! m2 -> with_map w m1 f = with_map w m2 f.
Proof. intros H. unfold with_map. rewrite H. reflexivity. Qed.

Lemma handle_type_alias w m1 m2 : mids w !! m1 = mids w !! m2 -> handle_type w m1 = handle_type w m2.
Proof. intros H. unfold handle_type. rewrite H. reflexivity. Qed.

Definition ok_opt {A} (r : res A) : option A := match r with Ok a => Some a | _ => None end.

Lemma upd_fst w mk r :
  fst (upd w mk r) = match ok_opt r with Some s' => set_files w (<[mk := s']> (files w)) | None => w end.
Proof. destruct r; reflexivity. Qed.

Lemma upd_snd w mk r : snd (upd w mk r) = out_of_res r (fun _ => RUnit).
Proof. destruct r; reflexivity. Qed.

(** *** what a call through a map handle does to the store behind it *)
Definition store_effect (t : ktype) (o : op) (s : store) : option store :=
  match o with
  | OPut _ k v => ok_opt (put s k v)
  | ODel _ k => fst <$> ok_opt (del s k)
  | OFlush _ | OSyncAll _ | OSyncData _ => Some (flush s)
  | OBulkDel _ ks => fst <$> ok_opt (bulk_delete key_sorter s ks)
  | OBulkPut _ kvs => ok_opt (bulk_put kv_sorter s kvs)
  | OPutIter _ kvs => ok_opt (put_from_iter s kvs)
  | OPutInt _ x v => ok_opt (put s (of_int t x) v)
  | ODelInt _ x => fst <$> ok_opt (del s (of_int t x))
  | _ => None
  end.

Definition apply_effect (w : world) (m : N) (o : op) : world :=
  match mids w !! m with
  | Some (mk, t) =>
    match files w !! mk with
    | Some s =>
      match store_effect t o s with
      | Some s' => set_files w (<[mk := s']> (files w))
      | None => w
      end
    | None => w
    end
  | None => w
  end.

Ltac case_res :=
  match goal with
  | |- context [put ?s ?k ?v] => destruct (put s k v)
  | |- context [del ?s ?k] => destruct (del s k) as [[? ?]| | |]
  | |- context [bulk_delete ?a ?s ?k] => destruct (bulk_delete a s k) as [[? ?]| | |]
  | |- context [bulk_put ?a ?s ?k] => destruct (bulk_put a s k)
  | |- context [put_from_iter ?s ?k] => destruct (put_from_iter s k)
  end.

(** every call through a map handle is [apply_effect] *)
Lemma step_access w o m : acc_handle o = Some m -> fst (step w o) = apply_effect w m o.
Proof.
  intros Ha.
  destruct o; cbn [acc_handle] in Ha; try discriminate Ha; injection Ha as Ha; subst;
    cbn [step]; unfold apply_effect, with_map, handle_type;
    (destruct (mids w !! m) as [[mk t]|] eqn:Hm; [destruct (files w !! mk) as [s|] eqn:Hf|]);
    try reflexivity; cbn [store_effect]; try reflexivity;
    try (case_res; reflexivity).
Qed.

Lemma store_effect_read_only t o s : read_only o = true -> store_effect t o s = None.
Proof. intros H. destruct o; try discriminate H; reflexivity. Qed.

Lemma store_effect_flush t o s m :
  flush_like o = true -> acc_handle o = Some m -> store_effect t o s = Some (flush s).
Proof. intros H Ha. destruct o; try discriminate H; try discriminate Ha; reflexivity. Qed.

Lemma store_effect_eqv t o s s' :
  store_eqv s s' -> option_Forall2 store_eqv (store_effect t o s) (store_effect t o s').
Proof.
  intros E. destruct o; cbn [store_effect]; try apply None_Forall2.
  - rewrite (put_eqv s s' E). destruct (put s' k v); cbn; constructor. reflexivity.
  - rewrite (del_eqv s s' E). destruct (del s' k) as [[a b]| | |]; cbn; constructor. reflexivity.
  - constructor. apply flush_eqv. exact E.
  - constructor. apply flush_eqv. exact E.
  - constructor. apply flush_eqv. exact E.
  - destruct (bulk_delete_eqv s s' E key_sorter ks) as [[a ra] [b rb] [H1 H2]|tg| |]; cbn; constructor.
    exact H1.
  - destruct (bulk_put_eqv s s' E kv_sorter kvs) as [a b H1|tg| |]; cbn; constructor. exact H1.
  - destruct (put_from_iter_eqv s s' E kvs) as [a b H1|tg| |]; cbn; constructor. exact H1.
  - rewrite (put_eqv s s' E). destruct (put s' (of_int t x) v); cbn; constructor. reflexivity.
  - rewrite (del_eqv s s' E). destruct (del s' (of_int t x)) as [[a b]| | |]; cbn; constructor. reflexivity.
Qed.

(** ** C15: read-only calls have no side effects *)
Theorem read_only_no_effect w o : read_only o = true -> fst (step w o) = w.
Proof.
  intros Hro. destruct (acc_handle o) as [m|] eqn:Ha.
  - rewrite (step_access w o m Ha). unfold apply_effect.
    destruct (mids w !! m) as [[mk t]|]; [|reflexivity].
    destruct (files w !! mk) as [s|]; [|reflexivity].
    rewrite (store_effect_read_only t o s Hro). reflexivity.
  - destruct o; try discriminate Hro; try discriminate Ha. reflexivity.
Qed.

(** ** worlds equal up to the flags of their stores *)
Definition world_eqv (w w' : world) : Prop :=
  dbs w = dbs w' /\ mids w = mids w' /\ opened w = opened w' /\
  forall mk, option_Forall2 store_eqv (files w !! mk) (files w' !! mk).

Lemma files_rel_refl (f : gmap mapkey store) mk : option_Forall2 store_eqv (f !! mk) (f !! mk).
Proof. destruct (f !! mk); constructor. reflexivity. Qed.

#[global] Instance world_eqv_equiv : Equivalence world_eqv.
Proof.
  split.
  - intros w. unfold world_eqv. split_and!; [reflexivity..|]. intros mk. apply files_rel_refl.
  - intros w w' (H1 & H2 & H3 & H4). unfold world_eqv. split_and!; try (symmetry; assumption).
    intros mk. destruct (H4 mk) as [s s' E|]; constructor. symmetry. exact E.
  - intros w1 w2 w3 (H1 & H2 & H3 & H4) (G1 & G2 & G3 & G4). unfold world_eqv.
    split_and!; try (etransitivity; eassumption).
    intros mk. specialize (H4 mk). specialize (G4 mk).
    destruct H4 as [s s' E|]; inversion G4 as [a b E' Ha Hb|Ha Hb]; subst; constructor.
    etransitivity; eassumption.
Qed.

(** the formulation with domains *)
Lemma world_eqv_alt w w' :
  world_eqv w w' <->
  dbs w = dbs w' /\ mids w = mids w' /\ opened w = opened w' /\
  dom (files w) = dom (files w') /\
  forall mk s s', files w !! mk = Some s -> files w' !! mk = Some s' -> store_eqv s s'.
Proof.
  split.
  - intros (H1 & H2 & H3 & H4). split_and!; try assumption.
    + apply set_eq. intros mk. rewrite !elem_of_dom. specialize (H4 mk).
      destruct H4 as [s s' E|]; split; intros [x Hx]; try discriminate Hx; eexists; reflexivity.
    + intros mk s s' Hs Hs'. specialize (H4 mk). rewrite Hs, Hs' in H4.
      inversion H4 as [a b E|]; subst. exact E.
  - intros (H1 & H2 & H3 & Hd & H4). split_and!; try assumption.
    intros mk. destruct (files w !! mk) as [s|] eqn:Hs, (files w' !! mk) as [s'|] eqn:Hs'.
    + constructor. eapply H4; eassumption.
    + exfalso. apply not_elem_of_dom in Hs'. apply Hs'. rewrite <- Hd. apply elem_of_dom.
      eexists; exact Hs.
    + exfalso. apply not_elem_of_dom in Hs. apply Hs. rewrite Hd. apply elem_of_dom.
      eexists; exact Hs'.
    + constructor.
Qed.

Lemma world_eqv_mk f f' d m o :
  (forall mk, option_Forall2 store_eqv (f !! mk) (f' !! mk)) -> world_eqv (World f d m o) (World f' d m o).
Proof. intros H. unfold world_eqv. cbn. split_and!; [reflexivity..|]. exact H. Qed.

Lemma files_rel_insert (f f' : gmap mapkey store) mk s s' :
  (forall mk', option_Forall2 store_eqv (f !! mk') (f' !! mk')) -> store_eqv s s' ->
  forall mk', option_Forall2 store_eqv (<[mk := s]> f !! mk') (<[mk := s']> f' !! mk').
Proof.
  intros H E mk'. destruct (decide (mk = mk')) as [->|Hne].
  - rewrite !lookup_insert. constructor. exact E.
  - rewrite !lookup_insert_ne by exact Hne. apply H.
Qed.

Lemma world_eqv_files_insert w w' mk s s' :
  world_eqv w w' -> store_eqv s s' ->
  world_eqv (set_files w (<[mk := s]> (files w))) (set_files w' (<[mk := s']> (files w'))).
Proof.
  intros (H1 & H2 & H3 & H4) E. unfold set_files. rewrite <- ?H1, <- ?H2, <- ?H3.
  apply world_eqv_mk. apply files_rel_insert; assumption.
Qed.

Lemma world_eqv_insert_self w mk s s0 :
  files w !! mk = Some s0 -> store_eqv s s0 -> world_eqv (set_files w (<[mk := s]> (files w))) w.
Proof.
  intros Hf E. pose proof (world_eqv_files_insert w w mk s s0 (reflexivity w) E) as H.
  rewrite (insert_id (files w) mk s0 Hf), set_files_id in H. exact H.
Qed.

Lemma apply_effect_eqv w w' m o : world_eqv w w' -> world_eqv (apply_effect w m o) (apply_effect w' m o).
Proof.
  intros H. pose proof H as (H1 & H2 & H3 & H4). unfold apply_effect. rewrite <- H2.
  destruct (mids w !! m) as [[mk t]|]; [|exact H].
  pose proof (H4 mk) as Hmk.
  inversion Hmk as [s s' E Hs Hs'|Hs Hs']; [|exact H].
  pose proof (store_effect_eqv t o s s' E) as He.
  inversion He as [a b E' Ha Hb|Ha Hb]; [|exact H].
  apply world_eqv_files_insert; assumption.
Qed.

(** ** the handle-management calls on related worlds *)
Lemma open_map_eqv w w' mk t p :
  world_eqv w w' -> res_rel world_eqv (open_map w mk t p) (open_map w' mk t p).
Proof.
  intros H. pose proof H as (H1 & H2 & H3 & H4). unfold open_map.
  pose proof (H4 mk) as Hmk.
  inversion Hmk as [s s' E Hs Hs'|Hs Hs'].
  - assert (kt s = kt s') as Ekt by apply E. rewrite <- Ekt.
    destruct (bytes_eqb (sig_of (kt s)) (sig_of t)); [|constructor].
    rewrite <- H3. destruct (bool_decide (mk ∈ opened w)); constructor; [exact H|].
    rewrite <- H1, <- H2. apply world_eqv_mk. apply files_rel_insert; [exact H4|].
    apply reopen_eqv. exact E.
  - destruct (buckets_of_param (p_buckets p)) as [n|tg| |]; cbn [rbind]; constructor.
    rewrite <- ?H1, <- ?H2, <- ?H3. apply world_eqv_mk. apply files_rel_insert; [exact H4|]. reflexivity.
Qed.

Lemma close_unreferenced_eqv w w' :
  world_eqv w w' -> world_eqv (close_unreferenced w) (close_unreferenced w').
Proof.
  intros H. pose proof H as (H1 & H2 & H3 & H4). unfold close_unreferenced. rewrite <- H1, <- H2.
  destruct (bool_decide (dbs w = ∅) && bool_decide (mids w = ∅)); [|exact H].
  apply world_eqv_mk. intros mk. rewrite !lookup_fmap.
  destruct (H4 mk) as [s s' E|]; cbn; constructor. rewrite (close_eqv s s' E). reflexivity.
Qed.

Lemma close_unreferenced_self w : world_eqv (close_unreferenced w) (World (files w) (dbs w) (mids w) (opened (close_unreferenced w))).
Proof.
  unfold close_unreferenced.
  destruct (bool_decide (dbs w = ∅) && bool_decide (mids w = ∅)); cbn [opened].
  - apply world_eqv_mk. intros mk. rewrite lookup_fmap.
    destruct (files w !! mk) as [s|]; cbn; constructor. apply close_eqv_self.
  - destruct w; reflexivity.
Qed.

Lemma close_unreferenced_files w mk :
  option_Forall2 store_eqv (files (close_unreferenced w) !! mk) (files w !! mk).
Proof. destruct (close_unreferenced_self w) as (_ & _ & _ & H4). apply H4. Qed.

Lemma close_unreferenced_dbs w : dbs (close_unreferenced w) = dbs w.
Proof. unfold close_unreferenced. destruct (_ && _); reflexivity. Qed.
Lemma close_unreferenced_mids w : mids (close_unreferenced w) = mids w.
Proof. unfold close_unreferenced. destruct (_ && _); reflexivity. Qed.

Lemma db_sync_files_rel (f f' : gmap mapkey store) dir :
  (forall mk, option_Forall2 store_eqv (f !! mk) (f' !! mk)) ->
  forall mk, option_Forall2 store_eqv
    (map_imap (fun mk s => Some (if bytes_eqb (fst mk) dir then flush s else s)) f !! mk) (f' !! mk).
Proof.
  intros H mk. rewrite map_lookup_imap.
  destruct (H mk) as [s s' E|]; cbn; constructor.
  destruct (bytes_eqb (fst mk) dir); [|exact E]. rewrite flush_eqv_self. exact E.
Qed.

Lemma db_sync_files_rel2 (f f' : gmap mapkey store) dir :
  (forall mk, option_Forall2 store_eqv (f !! mk) (f' !! mk)) ->
  forall mk, option_Forall2 store_eqv
    (map_imap (fun mk s => Some (if bytes_eqb (fst mk) dir then flush s else s)) f !! mk)
    (map_imap (fun mk s => Some (if bytes_eqb (fst mk) dir then flush s else s)) f' !! mk).
Proof.
  intros H mk. rewrite !map_lookup_imap.
  destruct (H mk) as [s s' E|]; cbn; constructor.
  destruct (bytes_eqb (fst mk) dir); [|exact E]. apply flush_eqv. exact E.
Qed.

(** ** C18, one step: every API call maps related worlds to related worlds *)
Theorem step_respects_eqv w w' o :
  api_op o = true -> world_eqv w w' -> world_eqv (fst (step w o)) (fst (step w' o)).
Proof.
  intros Hapi H. destruct (acc_handle o) as [m|] eqn:Ha.
  { rewrite (step_access w o m Ha), (step_access w' o m Ha). apply apply_effect_eqv. exact H. }
  pose proof H as (H1 & H2 & H3 & H4).
  destruct o; try discriminate Ha; try discriminate Hapi; cbn [step].
  - (* ODb *) cbn [fst]. rewrite <- ?H1, <- ?H2, <- ?H3. apply world_eqv_mk. exact H4.
  - (* ODbClone *) rewrite <- H1. destruct (dbs w !! d) as [dir|]; [|exact H].
    cbn [fst]. rewrite <- ?H1, <- ?H2, <- ?H3. apply world_eqv_mk. exact H4.
  - (* OMap *) rewrite <- H1. destruct (dbs w !! d) as [dir|]; [|exact H].
    destruct (open_map_eqv w w' (dir, name) t p H) as [w1 w1' H'|tg| |]; cbn [fst]; try exact H.
    destruct H' as (G1 & G2 & G3 & G4). rewrite <- G1, <- G2, <- G3. apply world_eqv_mk. exact G4.
  - (* OMapClone *) rewrite <- H2. destruct (mids w !! m) as [h|]; [|exact H].
    cbn [fst]. rewrite <- ?H1, <- ?H2, <- ?H3. apply world_eqv_mk. exact H4.
  - (* ODrop *) cbn [fst]. apply close_unreferenced_eqv.
    rewrite <- ?H1, <- ?H2, <- ?H3. apply world_eqv_mk. exact H4.
  - (* ODropDb *) cbn [fst]. apply close_unreferenced_eqv.
    rewrite <- ?H1, <- ?H2, <- ?H3. apply world_eqv_mk. exact H4.
  - (* OCloseAll *) cbn [fst]. apply close_unreferenced_eqv.
    rewrite <- ?H3. apply world_eqv_mk. exact H4.
  - (* ODbSync *) rewrite <- H1. destruct (dbs w !! d) as [dir|]; [|exact H].
    cbn [fst]. unfold set_files. rewrite <- ?H1, <- ?H2, <- ?H3. apply world_eqv_mk.
    apply db_sync_files_rel2. exact H4.
  - (* OSnap *) exact H.
Qed.

(** ** C15: flush-like calls change flags only *)
Lemma flush_like_eqv w o : flush_like o = true -> world_eqv (fst (step w o)) w.
Proof.
  intros Hfl. destruct (acc_handle o) as [m|] eqn:Ha.
  - rewrite (step_access w o m Ha). unfold apply_effect.
    destruct (mids w !! m) as [[mk t]|]; [|reflexivity].
    destruct (files w !! mk) as [s|] eqn:Hf; [|reflexivity].
    rewrite (store_effect_flush t o s m Hfl Ha).
    apply (world_eqv_insert_self w mk (flush s) s Hf). apply flush_eqv_self.
  - destruct o; try discriminate Hfl; try discriminate Ha. cbn [step].
    destruct (dbs w !! d) as [dir|]; [|reflexivity]. cbn [fst].
    rewrite <- (set_files_id w) at 3. unfold set_files. apply world_eqv_mk.
    apply db_sync_files_rel. intros mk. apply files_rel_refl.
Qed.

Theorem flush_like_contents w o :
  flush_like o = true ->
  dbs (fst (step w o)) = dbs w /\ mids (fst (step w o)) = mids w /\ opened (fst (step w o)) = opened w /\
  dom (files (fst (step w o))) = dom (files w) /\
  forall mk s, files w !! mk = Some s -> exists s', files (fst (step w o)) !! mk = Some s' /\ store_eqv s' s.
Proof.
  intros Hfl. pose proof (flush_like_eqv w o Hfl) as H.
  pose proof H as (H1 & H2 & H3 & H4). apply world_eqv_alt in H as (_ & _ & _ & Hd & _).
  split_and!; try assumption.
  intros mk s Hs. specialize (H4 mk). rewrite Hs in H4.
  inversion H4 as [a b E Ha Hb|]; subst. exists a. split; [reflexivity | exact E].
Qed.

Lemma flush_unmodified_noop_gen w o m mk t s :
  flush_like o = true -> acc_handle o = Some m ->
  mids w !! m = Some (mk, t) -> files w !! mk = Some s -> dirty s = false -> fst (step w o) = w.
Proof.
  intros Hfl Ha Hm Hf Hd. rewrite (step_access w o m Ha). unfold apply_effect.
  rewrite Hm, Hf, (store_effect_flush t o s m Hfl Ha), (flush_clean s Hd), (insert_id _ _ _ Hf).
  apply set_files_id.
Qed.

Theorem flush_unmodified_noop w m mk t s :
  mids w !! m = Some (mk, t) -> files w !! mk = Some s -> dirty s = false ->
  fst (step w (OFlush m)) = w.
Proof. apply (flush_unmodified_noop_gen w (OFlush m) m); reflexivity. Qed.
Theorem sync_all_unmodified_noop w m mk t s :
  mids w !! m = Some (mk, t) -> files w !! mk = Some s -> dirty s = false ->
  fst (step w (OSyncAll m)) = w.
Proof. apply (flush_unmodified_noop_gen w (OSyncAll m) m); reflexivity. Qed.
Theorem sync_data_unmodified_noop w m mk t s :
  mids w !! m = Some (mk, t) -> files w !! mk = Some s -> dirty s = false ->
  fst (step w (OSyncData m)) = w.
Proof. apply (flush_unmodified_noop_gen w (OSyncData m) m); reflexivity. Qed.

(** a modified map: the flush clears [dirty] and establishes [synced] *)
Theorem flush_modified w m mk t s :
  mids w !! m = Some (mk, t) -> files w !! mk = Some s -> dirty s = true ->
  files (fst (step w (OFlush m))) !! mk = Some (close s).
Proof.
  intros Hm Hf Hd. rewrite (step_access w (OFlush m) m eq_refl). unfold apply_effect.
  rewrite Hm, Hf. cbn [store_effect set_files files]. rewrite lookup_insert.
  unfold flush. rewrite Hd. reflexivity.
Qed.

(** ** C11: frame *)
Lemma open_map_frame w mk t p w1 mk' :
  open_map w mk t p = Ok w1 -> mk <> mk' -> files w1 !! mk' = files w !! mk'.
Proof.
  unfold open_map. intros H Hne.
  destruct (files w !! mk) as [s|].
  - destruct (bytes_eqb (sig_of (kt s)) (sig_of t)); [|discriminate H].
    destruct (bool_decide (mk ∈ opened w)); injection H as H; subst w1; [reflexivity|].
    cbn [files]. apply lookup_insert_ne. exact Hne.
  - destruct (buckets_of_param (p_buckets p)) as [n|tg| |]; cbn [rbind] in H; try discriminate H.
    injection H as H; subst w1. cbn [files]. apply lookup_insert_ne. exact Hne.
Qed.

Theorem step_frame w o mk' :
  target w o <> Some mk' ->
  (match o with ODbSync _ | ODrop _ | ODropDb _ | OCloseAll | OCpDir _ _ => False | _ => True end) ->
  files (fst (step w o)) !! mk' = files w !! mk'.
Proof.
  intros Hne Hop. destruct (acc_handle o) as [m|] eqn:Ha.
  - rewrite (target_acc w o m Ha) in Hne. rewrite (step_access w o m Ha). unfold apply_effect.
    destruct (mids w !! m) as [[mk t]|]; [|reflexivity]. cbn in Hne.
    destruct (files w !! mk) as [s|]; [|reflexivity].
    destruct (store_effect t o s) as [s1|]; [|reflexivity].
    cbn [set_files files]. apply lookup_insert_ne. intros ->. apply Hne. reflexivity.
  - destruct o; try discriminate Ha; try contradiction Hop; cbn [step].
    + reflexivity.
    + destruct (dbs w !! d); reflexivity.
    + cbn [target] in Hne. destruct (dbs w !! d) as [dir|]; [|reflexivity]. cbn in Hne.
      destruct (open_map w (dir, name) t p) as [w1|tg| |] eqn:Ho; try reflexivity.
      cbn [fst files]. apply (open_map_frame w (dir, name) t p w1 mk' Ho).
      intros E. apply Hne. rewrite E. reflexivity.
    + destruct (mids w !! m); reflexivity.
    + reflexivity.
Qed.

(** the directory copy of the harness writes into the destination directory only *)
Theorem cpdir_frame w src dst mk' :
  fst mk' <> dst -> files (fst (step w (OCpDir src dst))) !! mk' = files w !! mk'.
Proof.
  intros Hne. cbn [step fst set_files files].
  match goal with |- fold_right _ _ ?l !! _ = _ => set (copies := l) end.
  assert (Forall (fun c : mapkey * store => fst (fst c) = dst) copies) as Hall.
  { apply Forall_forall. intros c Hc. subst copies.
    apply elem_of_list_omap in Hc as ([mk s] & _ & Hc).
    destruct (bytes_eqb (fst mk) src && synced s); [|discriminate Hc].
    injection Hc as Hc. subst c. reflexivity. }
  induction Hall as [|c cs Hc _ IH]; [reflexivity|].
  cbn [fold_right]. rewrite lookup_insert_ne; [exact IH|].
  intros E. apply Hne. rewrite <- E. exact Hc.
Qed.

(** the handle-management calls and [ODbSync] only flush *)
Lemma handle_mgmt_world_eqv w o :
  (match o with ODrop _ | ODropDb _ | OCloseAll | ODbSync _ => True | _ => False end) ->
  forall mk', option_Forall2 store_eqv (files (fst (step w o)) !! mk') (files w !! mk').
Proof.
  intros Hop mk'. destruct o; try contradiction Hop; cbn [step fst].
  - apply (close_unreferenced_files (World (files w) (dbs w) (delete m (mids w)) (opened w))).
  - apply (close_unreferenced_files (World (files w) (delete d (dbs w)) (mids w) (opened w))).
  - apply (close_unreferenced_files (World (files w) ∅ ∅ (opened w))).
  - destruct (flush_like_eqv w (ODbSync d) eq_refl) as (_ & _ & _ & H4). apply H4.
Qed.

Theorem handle_mgmt_only_flush w o :
  (match o with ODrop _ | ODropDb _ | OCloseAll | ODbSync _ => True | _ => False end) ->
  forall mk' s, files w !! mk' = Some s ->
    exists s', files (fst (step w o)) !! mk' = Some s' /\ store_eqv s' s.
Proof.
  intros Hop mk' s Hs. pose proof (handle_mgmt_world_eqv w o Hop mk') as H. rewrite Hs in H.
  inversion H as [a b E Ha Hb|]; subst. exists a. split; [reflexivity | exact E].
Qed.

Theorem handle_mgmt_dom w o :
  (match o with ODrop _ | ODropDb _ | OCloseAll | ODbSync _ => True | _ => False end) ->
  dom (files (fst (step w o))) = dom (files w).
Proof.
  intros Hop. apply set_eq. intros mk. rewrite !elem_of_dom.
  destruct (handle_mgmt_world_eqv w o Hop mk) as [a b E|]; split; intros [x Hx]; try discriminate Hx;
    eexists; reflexivity.
Qed.

(** ** C11: handles alias one state *)
Definition rehandle (m' : N) (o : op) : op :=
  match o with
  | OMapClone nm _ => OMapClone nm m'
  | OPut _ k v => OPut m' k v | OGet _ k => OGet m' k | ODel _ k => ODel m' k | OHas _ k => OHas m' k
  | OLen _ => OLen m' | OEmpty _ => OEmpty m' | OFlush _ => OFlush m' | OSyncAll _ => OSyncAll m'
  | OSyncData _ => OSyncData m' | OFill _ => OFill m' | ODirty _ => ODirty m'
  | OIter _ f => OIter m' f | OStats _ => OStats m'
  | OBulkGet _ ks => OBulkGet m' ks | OBulkDel _ ks => OBulkDel m' ks
  | OBulkPut _ kvs => OBulkPut m' kvs | OPutIter _ kvs => OPutIter m' kvs
  | OPutInt _ x v => OPutInt m' x v | OGetInt _ x => OGetInt m' x
  | ODelInt _ x => ODelInt m' x | OHasInt _ x => OHasInt m' x
  | o => o
  end.

(** [o] reaches a map through handle [m] (a data call, or the source of a handle clone) *)
Definition uses_handle (o : op) (m : N) : Prop :=
  match o with OMapClone _ m' => m' = m | _ => acc_handle o = Some m end.

Lemma rehandle_same o m : uses_handle o m -> rehandle m o = o.
Proof.
  intros Hu. destruct o; cbn [uses_handle acc_handle] in Hu; try discriminate Hu;
    try (injection Hu as Hu); subst; reflexivity.
Qed.

Theorem handles_alias w m1 m2 o :
  mids w !! m1 = mids w !! m2 -> uses_handle o m1 -> step w (rehandle m2 o) = step w o.
Proof.
  intros H Hu. destruct o; cbn [uses_handle acc_handle] in Hu; try discriminate Hu;
    try (injection Hu as Hu); subst; cbn [rehandle step]; unfold with_map, handle_type;
    rewrite H; reflexivity.
Qed.

(** the same call issued through two handles *)
Definition same_call (o1 o2 : op) (m1 m2 : N) : Prop := uses_handle o1 m1 /\ o2 = rehandle m2 o1.

Theorem handles_alias_same_call w m1 m2 o1 o2 :
  mids w !! m1 = mids w !! m2 -> same_call o1 o2 m1 m2 -> step w o1 = step w o2.
Proof. intros H [Hu ->]. symmetry. apply (handles_alias w m1 m2 o1 H Hu). Qed.

(** [same_call] is what one expects, e.g. *)
Example same_call_put m1 m2 k v : same_call (OPut m1 k v) (OPut m2 k v) m1 m2.
Proof. split; reflexivity. Qed.
Example same_call_iter m1 m2 f : same_call (OIter m1 f) (OIter m2 f) m1 m2.
Proof. split; reflexivity. Qed.

(** a cloned handle names the same files (and type) as its source *)
Theorem clone_aliases w nm m h :
  mids w !! m = Some h ->
  mids (fst (step w (OMapClone nm m))) !! nm = Some h /\
  mids (fst (step w (OMapClone nm m))) !! m = Some h /\
  files (fst (step w (OMapClone nm m))) = files w.
Proof.
  intros Hm. cbn [step]. rewrite Hm. cbn [fst mids files]. split_and!.
  - apply lookup_insert.
  - destruct (decide (nm = m)) as [->|Hne]; [apply lookup_insert|].
    rewrite lookup_insert_ne by exact Hne. exact Hm.
  - reflexivity.
Qed.

Corollary clone_then_alias w nm m h o :
  mids w !! m = Some h -> uses_handle o m ->
  step (fst (step w (OMapClone nm m))) (rehandle nm o) = step (fst (step w (OMapClone nm m))) o.
Proof.
  intros Hm Hu. destruct (clone_aliases w nm m h Hm) as (H1 & H2 & _).
  apply (handles_alias _ m nm o); [|exact Hu]. rewrite H1, H2. reflexivity.
Qed.

Lemma lookup_insert_fst (ms : gmap N (mapkey * ktype)) nm m h h' :
  fst h = fst h' -> ms !! m = Some h' -> fst <$> <[nm := h]> ms !! m = Some (fst h').
Proof.
  intros E Hms. destruct (decide (nm = m)) as [->|Hne].
  - rewrite lookup_insert. cbn. rewrite E. reflexivity.
  - rewrite lookup_insert_ne by exact Hne. rewrite Hms. reflexivity.
Qed.

Lemma open_map_existing w mk t p s :
  files w !! mk = Some s -> bytes_eqb (sig_of (kt s)) (sig_of t) = true ->
  open_map w mk t p =
  Ok (if bool_decide (mk ∈ opened w) then w
      else World (<[mk := reopen s]> (files w)) (dbs w) (mids w) ({[mk]} ∪ opened w)).
Proof. intros Hf Hsig. unfold open_map. rewrite Hf, Hsig. destruct (bool_decide _); reflexivity. Qed.

(** opening a name a second time (matching type): the new handle names the same files; no
    other map is touched, and the files of this one change at most in the [dirty] flag *)
Theorem second_open_aliases w nm m d t tm name p dir s :
  dbs w !! d = Some dir -> mids w !! m = Some ((dir, name), tm) ->
  files w !! (dir, name) = Some s -> bytes_eqb (sig_of (kt s)) (sig_of t) = true ->
  let w' := fst (step w (OMap nm d t name p)) in
  snd (step w (OMap nm d t name p)) = RUnit /\
  mids w' !! nm = Some ((dir, name), t) /\
  fst <$> mids w' !! m = Some (dir, name) /\
  (exists s', files w' !! (dir, name) = Some s' /\ store_eqv s' s) /\
  ((dir, name) ∈ opened w -> files w' = files w) /\
  forall mk', mk' <> (dir, name) -> files w' !! mk' = files w !! mk'.
Proof.
  intros Hd Hm Hf Hsig w'. subst w'. cbn [step]. rewrite Hd.
  rewrite (open_map_existing w (dir, name) t p s Hf Hsig).
  destruct (bool_decide (_ ∈ opened w)) eqn:Hop; cbn [fst snd mids files].
  - split_and!; try reflexivity.
    + apply lookup_insert.
    + apply (lookup_insert_fst (mids w) nm m ((dir, name), t) ((dir, name), tm) eq_refl Hm).
    + exists s. split; [exact Hf | reflexivity].
  - apply bool_decide_eq_false in Hop. split_and!; try reflexivity.
    + apply lookup_insert.
    + apply (lookup_insert_fst (mids w) nm m ((dir, name), t) ((dir, name), tm) eq_refl Hm).
    + exists (reopen s). split; [apply lookup_insert | apply reopen_eqv_self].
    + intros Hin. contradiction.
    + intros mk' Hne. apply lookup_insert_ne. intros E. apply Hne. symmetry. exact E.
Qed.

(** *** every handle names opened, existing files (an invariant of [step]) *)
Definition handles_open (w : world) : Prop :=
  forall m mk t, mids w !! m = Some (mk, t) -> mk ∈ opened w /\ is_Some (files w !! mk).

Lemma handles_open_world0 : handles_open world0.
Proof. intros m mk t H. cbn in H. rewrite lookup_empty in H. discriminate H. Qed.

Lemma handles_open_files (w : world) (fs : gmap mapkey store) :
  handles_open w -> (forall mk, is_Some (files w !! mk) -> is_Some (fs !! mk)) -> handles_open (set_files w fs).
Proof.
  intros H Hfs m mk t Hm. cbn [set_files mids opened files] in *. destruct (H m mk t Hm) as [Ho Hs].
  split; [exact Ho | apply Hfs; exact Hs].
Qed.

Lemma is_Some_insert (f : gmap mapkey store) mk s mk' : is_Some (f !! mk') -> is_Some (<[mk := s]> f !! mk').
Proof.
  intros H. destruct (decide (mk = mk')) as [->|Hne].
  - rewrite lookup_insert. eexists; reflexivity.
  - rewrite lookup_insert_ne by exact Hne. exact H.
Qed.

Lemma open_map_handles_open w mk t p w1 :
  handles_open w -> open_map w mk t p = Ok w1 ->
  handles_open w1 /\ mk ∈ opened w1 /\ is_Some (files w1 !! mk).
Proof.
  intros H. unfold open_map. destruct (files w !! mk) as [s|] eqn:Hf.
  - destruct (bytes_eqb (sig_of (kt s)) (sig_of t)); [|discriminate].
    destruct (bool_decide (mk ∈ opened w)) eqn:Hop; intros Ho; injection Ho as Ho; subst w1.
    + apply bool_decide_eq_true in Hop. split_and!; [exact H | exact Hop | eexists; exact Hf].
    + split_and!.
      * intros m mk' t' Hm. cbn [mids opened files] in *. destruct (H m mk' t' Hm) as [Ho Hs].
        split; [apply elem_of_union_r; exact Ho | apply is_Some_insert; exact Hs].
      * cbn [opened]. apply elem_of_union_l, elem_of_singleton. reflexivity.
      * cbn [files]. rewrite lookup_insert. eexists; reflexivity.
  - destruct (buckets_of_param (p_buckets p)) as [n|tg| |]; cbn [rbind]; try discriminate.
    intros Ho; injection Ho as Ho; subst w1. split_and!.
    + intros m mk' t' Hm. cbn [mids opened files] in *. destruct (H m mk' t' Hm) as [Ho Hs].
      split; [apply elem_of_union_r; exact Ho | apply is_Some_insert; exact Hs].
    + cbn [opened]. apply elem_of_union_l, elem_of_singleton. reflexivity.
    + cbn [files]. rewrite lookup_insert. eexists; reflexivity.
Qed.

Lemma close_unreferenced_handles_open w : handles_open w -> handles_open (close_unreferenced w).
Proof.
  intros H. unfold close_unreferenced.
  destruct (bool_decide (dbs w = ∅)); [|exact H]. cbn [andb].
  destruct (bool_decide (mids w = ∅)) eqn:Hm; [|exact H].
  apply bool_decide_eq_true in Hm. intros m mk t Hl. cbn [mids] in Hl. rewrite Hm, lookup_empty in Hl.
  discriminate Hl.
Qed.

Lemma fold_insert_is_Some (cs : list (mapkey * store)) (f : gmap mapkey store) mk :
  is_Some (f !! mk) -> is_Some (fold_right (fun c fs => <[fst c := snd c]> fs) f cs !! mk).
Proof.
  intros H. induction cs as [|c cs IH]; [exact H|]. cbn [fold_right]. apply is_Some_insert. exact IH.
Qed.

Theorem handles_open_step w o : handles_open w -> handles_open (fst (step w o)).
Proof.
  intros H. destruct (acc_handle o) as [m|] eqn:Ha.
  { rewrite (step_access w o m Ha). unfold apply_effect.
    destruct (mids w !! m) as [[mk t]|]; [|exact H].
    destruct (files w !! mk) as [s|]; [|exact H].
    destruct (store_effect t o s) as [s1|]; [|exact H].
    apply handles_open_files; [exact H|]. intros mk'. apply is_Some_insert. }
  destruct o; try discriminate Ha; cbn [step].
  - (* ODb *) exact H.
  - (* ODbClone *) destruct (dbs w !! d); exact H.
  - (* OMap *) destruct (dbs w !! d) as [dir|]; [|exact H].
    destruct (open_map w (dir, name) t p) as [w1|tg| |] eqn:Ho; try exact H.
    destruct (open_map_handles_open w (dir, name) t p w1 H Ho) as (H1 & Hop & Hs).
    intros m' mk' t' Hm. cbn [fst mids opened files] in *.
    destruct (decide (m = m')) as [->|Hne].
    + rewrite lookup_insert in Hm. injection Hm as Hm Ht; subst. split; assumption.
    + rewrite lookup_insert_ne in Hm by exact Hne. apply (H1 m' mk' t' Hm).
  - (* OMapClone *) destruct (mids w !! m) as [[mk0 t0]|] eqn:Hm0; [|exact H].
    intros m' mk' t' Hm. cbn [fst mids opened files] in *.
    destruct (decide (nm = m')) as [->|Hne].
    + rewrite lookup_insert in Hm. injection Hm as Hm Ht; subst. apply (H m mk' t' Hm0).
    + rewrite lookup_insert_ne in Hm by exact Hne. apply (H m' mk' t' Hm).
  - (* ODrop *) cbn [fst]. apply close_unreferenced_handles_open.
    intros m' mk' t' Hm. cbn [mids opened files] in *.
    apply lookup_delete_Some in Hm as [_ Hm]. apply (H m' mk' t' Hm).
  - (* ODropDb *) cbn [fst]. apply close_unreferenced_handles_open. exact H.
  - (* OCloseAll *) cbn [fst]. apply close_unreferenced_handles_open.
    intros m' mk' t' Hm. cbn [mids] in Hm. rewrite lookup_empty in Hm. discriminate Hm.
  - (* ODbSync *) destruct (dbs w !! d) as [dir|]; [|exact H]. cbn [fst].
    apply handles_open_files; [exact H|]. intros mk [s Hs]. rewrite map_lookup_imap, Hs. cbn.
    eexists; reflexivity.
  - (* OSnap *) exact H.
  - (* OCpDir *) cbn [fst]. apply handles_open_files; [exact H|]. intros mk. apply fold_insert_is_Some.
Qed.

(** on such worlds a second open of a name leaves every file exactly as it is *)
Corollary second_open_no_effect_on_files w nm m d t tm name p dir s :
  handles_open w ->
  dbs w !! d = Some dir -> mids w !! m = Some ((dir, name), tm) ->
  files w !! (dir, name) = Some s -> bytes_eqb (sig_of (kt s)) (sig_of t) = true ->
  files (fst (step w (OMap nm d t name p))) = files w.
Proof.
  intros H Hd Hm Hf Hsig.
  destruct (second_open_aliases w nm m d t tm name p dir s Hd Hm Hf Hsig) as (_ & _ & _ & _ & Hfs & _).
  apply Hfs. apply (H m (dir, name) tm Hm).
Qed.

(** ** C18: the files are a function of the update history *)
Definition world_run (w : world) (ops : list op) : world := fold_left (fun w o => fst (step w o)) ops w.

Lemma world_run_cons w o ops : world_run w (o :: ops) = world_run (fst (step w o)) ops.
Proof. reflexivity. Qed.

Lemma world_run_app w ops1 ops2 : world_run w (ops1 ++ ops2) = world_run (world_run w ops1) ops2.
Proof. unfold world_run. apply fold_left_app. Qed.

Lemma world_run_respects_eqv ops : forall w w',
  Forall (fun o => api_op o = true) ops -> world_eqv w w' -> world_eqv (world_run w ops) (world_run w' ops).
Proof.
  induction ops as [|o ops IH]; intros w w' Hall H; [exact H|].
  inversion Hall as [|o' ops' Ho Hops]; subst. rewrite !world_run_cons.
  apply IH; [exact Hops|]. apply step_respects_eqv; assumption.
Qed.

Lemma world_run_filter_eqv ops : forall w w',
  Forall (fun o => api_op o = true) ops -> world_eqv w w' ->
  world_eqv (world_run w ops)
            (world_run w' (List.filter (fun o => negb (read_only o || flush_like o)) ops)).
Proof.
  induction ops as [|o ops IH]; intros w w' Hall H; [exact H|].
  inversion Hall as [|o' ops' Ho Hops]; subst. cbn [List.filter]. cbv beta.
  destruct (negb (read_only o || flush_like o)) eqn:Hk.
  - rewrite !world_run_cons. apply IH; [exact Hops|]. apply step_respects_eqv; assumption.
  - rewrite world_run_cons. apply IH; [exact Hops|]. transitivity w; [|exact H].
    apply negb_false_iff, orb_true_iff in Hk as [Hro|Hfl].
    + rewrite (read_only_no_effect w o Hro). reflexivity.
    + apply flush_like_eqv. exact Hfl.
Qed.

Theorem read_only_calls_irrelevant w ops :
  Forall (fun o => api_op o = true) ops ->
  world_eqv (world_run w ops)
            (world_run w (List.filter (fun o => negb (read_only o || flush_like o)) ops)).
Proof. intros Hall. apply world_run_filter_eqv; [exact Hall | reflexivity]. Qed.

(** dropping only the read-only calls gives the very same world, flags included *)
Theorem read_only_calls_irrelevant_strict w ops :
  world_run w ops = world_run w (List.filter (fun o => negb (read_only o)) ops).
Proof.
  revert w. induction ops as [|o ops IH]; intros w; [reflexivity|].
  cbn [List.filter]. cbv beta. destruct (read_only o) eqn:Hro; cbn [negb].
  - rewrite world_run_cons, (read_only_no_effect w o Hro). apply IH.
  - rewrite !world_run_cons. apply IH.
Qed.

Corollary images_function_of_updates w ops mk s s' :
  Forall (fun o => api_op o = true) ops ->
  files (world_run w ops) !! mk = Some s ->
  files (world_run w (List.filter (fun o => negb (read_only o || flush_like o)) ops)) !! mk = Some s' ->
  render s = render s'.
Proof.
  intros Hall Hs Hs'. destruct (read_only_calls_irrelevant w ops Hall) as (_ & _ & _ & H4).
  specialize (H4 mk). rewrite Hs, Hs' in H4. inversion H4 as [a b E|]; subst.
  apply render_eqv. exact E.
Qed.

(** the two runs also have the same maps *)
Corollary images_same_maps w ops :
  Forall (fun o => api_op o = true) ops ->
  dom (files (world_run w ops)) =
  dom (files (world_run w (List.filter (fun o => negb (read_only o || flush_like o)) ops))).
Proof.
  intros Hall. pose proof (read_only_calls_irrelevant w ops Hall) as H.
  apply world_eqv_alt in H as (_ & _ & _ & Hd & _). exact Hd.
Qed.

(** *** the results of the calls: nothing but [ODirty] and [OSnap] observes the flags *)
Definition flag_blind (o : op) : bool := match o with ODirty _ | OSnap _ => false | _ => true end.

Definition store_out (t : ktype) (o : op) (s : store) : out :=
  match o with
  | OPut _ k v => out_of_res (put s k v) (fun _ => RUnit)
  | OGet _ k => out_of_res (get s k) ROpt
  | ODel _ k => out_of_res (del s k) (fun p => ROpt (snd p))
  | OHas _ k => out_of_res (has s k) RBool
  | OLen _ => RNum (len s)
  | OEmpty _ => RBool (len s =? 0)
  | ODirty _ => RBool (dirty s)
  | OIter _ _ => out_of_res (iter_run s) (fun r => let '(items, h, ex) := r in RIter items h ex)
  | OStats _ => out_of_res (stats_of s) RStats
  | OBulkGet _ ks => out_of_res (bulk_get key_sorter s ks) RVec
  | OBulkDel _ ks => out_of_res (bulk_delete key_sorter s ks) (fun p => RVec (snd p))
  | OBulkPut _ kvs => out_of_res (bulk_put kv_sorter s kvs) (fun _ => RUnit)
  | OPutIter _ kvs => out_of_res (put_from_iter s kvs) (fun _ => RUnit)
  | OPutInt _ x v => out_of_res (put s (of_int t x) v) (fun _ => RUnit)
  | OGetInt _ x => out_of_res (get s (of_int t x)) ROpt
  | ODelInt _ x => out_of_res (del s (of_int t x)) (fun p => ROpt (snd p))
  | OHasInt _ x => out_of_res (has s (of_int t x)) RBool
  | _ => RUnit
  end.

Lemma step_access_out w o m :
  acc_handle o = Some m ->
  snd (step w o) =
  match mids w !! m with
  | Some (mk, t) => match files w !! mk with Some s => store_out t o s | None => RNoHandle end
  | None => RNoHandle
  end.
Proof.
  intros Ha.
  destruct o; cbn [acc_handle] in Ha; try discriminate Ha; injection Ha as Ha; subst;
    cbn [step]; unfold with_map, handle_type;
    (destruct (mids w !! m) as [[mk t]|] eqn:Hm; [destruct (files w !! mk) as [s|] eqn:Hf|]);
    try reflexivity; cbn [store_out]; try reflexivity;
    try (case_res; reflexivity).
Qed.

Lemma store_out_eqv t o s s' : flag_blind o = true -> store_eqv s s' -> store_out t o s = store_out t o s'.
Proof.
  intros Hb E. destruct o; try discriminate Hb; cbn [store_out];
    rewrite ?(put_eqv s s' E), ?(get_eqv s s' E), ?(del_eqv s s' E), ?(has_eqv s s' E), ?(len_eqv s s' E),
            ?(iter_run_eqv s s' E), ?(stats_of_eqv s s' E), ?(bulk_get_eqv s s' E); try reflexivity.
  - destruct (bulk_delete_eqv s s' E key_sorter ks) as [[a ra] [b rb] [H1 H2]|tg| |]; cbn; try reflexivity.
    cbn in H2. rewrite H2. reflexivity.
  - destruct (bulk_put_eqv s s' E kv_sorter kvs) as [a b H1|tg| |]; reflexivity.
  - destruct (put_from_iter_eqv s s' E kvs) as [a b H1|tg| |]; reflexivity.
Qed.

Theorem step_out_respects_eqv w w' o :
  flag_blind o = true -> world_eqv w w' -> snd (step w o) = snd (step w' o).
Proof.
  intros Hb H. pose proof H as (H1 & H2 & H3 & H4). destruct (acc_handle o) as [m|] eqn:Ha.
  { rewrite (step_access_out w o m Ha), (step_access_out w' o m Ha). rewrite <- H2.
    destruct (mids w !! m) as [[mk t]|]; [|reflexivity].
    destruct (H4 mk) as [s s' E|]; [|reflexivity]. apply store_out_eqv; assumption. }
  destruct o; try discriminate Ha; try discriminate Hb; cbn [step]; try reflexivity.
  - (* ODbClone *) rewrite <- H1. destruct (dbs w !! d); reflexivity.
  - (* OMap *) rewrite <- H1. destruct (dbs w !! d) as [dir|]; [|reflexivity].
    destruct (open_map_eqv w w' (dir, name) t p H) as [w1 w1' H'|tg| |]; reflexivity.
  - (* OMapClone *) rewrite <- H2. destruct (mids w !! m); reflexivity.
  - (* ODbSync *) rewrite <- H1. destruct (dbs w !! d); reflexivity.
Qed.

(** the results of a whole run *)
Fixpoint run_outs (w : world) (ops : list op) : list out :=
  match ops with
  | [] => []
  | o :: ops' => snd (step w o) :: run_outs (fst (step w o)) ops'
  end.

(** ... and of the calls that are kept by the filter, within the full run *)
Fixpoint kept_outs (keep : op -> bool) (w : world) (ops : list op) : list out :=
  match ops with
  | [] => []
  | o :: ops' => (if keep o then [snd (step w o)] else []) ++ kept_outs keep (fst (step w o)) ops'
  end.

Lemma kept_flag_blind o : negb (read_only o || flush_like o) = true -> flag_blind o = true.
Proof. destruct o; cbn; intros H; try reflexivity; discriminate H. Qed.

Lemma kept_outs_filter_eqv ops : forall w w',
  Forall (fun o => api_op o = true) ops -> world_eqv w w' ->
  kept_outs (fun o => negb (read_only o || flush_like o)) w ops =
  run_outs w' (List.filter (fun o => negb (read_only o || flush_like o)) ops).
Proof.
  induction ops as [|o ops IH]; intros w w' Hall H; [reflexivity|].
  inversion Hall as [|o' ops' Ho Hops]; subst. cbn [List.filter kept_outs]. cbv beta.
  destruct (negb (read_only o || flush_like o)) eqn:Hk.
  - cbn [run_outs app]. f_equal.
    + apply step_out_respects_eqv; [apply kept_flag_blind; exact Hk | exact H].
    + apply IH; [exact Hops|]. apply step_respects_eqv; assumption.
  - cbn [app]. apply IH; [exact Hops|]. transitivity w; [|exact H].
    apply negb_false_iff, orb_true_iff in Hk as [Hro|Hfl].
    + rewrite (read_only_no_effect w o Hro). reflexivity.
    + apply flush_like_eqv. exact Hfl.
Qed.

(** the results of the updating calls do not depend on the interleaved read-only / flush calls *)
Theorem update_results_function_of_updates w ops :
  Forall (fun o => api_op o = true) ops ->
  kept_outs (fun o => negb (read_only o || flush_like o)) w ops =
  run_outs w (List.filter (fun o => negb (read_only o || flush_like o)) ops).
Proof. intros Hall. apply kept_outs_filter_eqv; [exact Hall | reflexivity]. Qed.

Lemma handles_open_run ops : forall w, handles_open w -> handles_open (world_run w ops).
Proof.
  induction ops as [|o ops IH]; intros w H; [exact H|].
  rewrite world_run_cons. apply IH. apply handles_open_step. exact H.
Qed.

(** ** Non-vacuity: two maps "a" (bytes keys) and "b" (u64 keys) in directory "d", a cloned handle *)
Module Examples.
Definition p4 : params := Params (BucketsSize 4) BAuto BAuto BAuto.
Definition mk_a : mapkey := ([100], [97]).
Definition mk_b : mapkey := ([100], [98]).

Definition setup : list op :=
  [ODb 0 [100]; OMap 0 0 KBytes [97] p4; OMap 1 0 KU64 [98] p4;
   OPut 0 [1; 2] [10]; OPutInt 1 7 [20]; OMapClone 2 0].
Definition w1 : world := world_run world0 setup.

Example w1_handles :
  mids w1 !! 0 = Some (mk_a, KBytes) /\ mids w1 !! 1 = Some (mk_b, KU64) /\ mids w1 !! 2 = mids w1 !! 0.
Proof. vm_compute. auto. Qed.

Example w1_handles_open : handles_open w1.
Proof. apply handles_open_run, handles_open_world0. Qed.

(** (i) a put through the clone (handle 2) is seen through the original (handle 0), and a delete
    through the original is seen through the clone *)
Definition w2 : world := fst (step w1 (OPut 2 [3] [30])).

Example clone_put_seen :
  snd (step w1 (OGet 0 [3])) = ROpt None /\
  snd (step w1 (OPut 2 [3] [30])) = RUnit /\
  snd (step w2 (OGet 0 [3])) = ROpt (Some [30]) /\
  snd (step w2 (OLen 0)) = RNum 2 /\ snd (step w2 (OLen 2)) = RNum 2.
Proof. vm_compute. auto. Qed.

Example original_del_seen :
  snd (step w2 (ODel 0 [1; 2])) = ROpt (Some [10]) /\
  snd (step (fst (step w2 (ODel 0 [1; 2]))) (OGet 2 [1; 2])) = ROpt None /\
  snd (step (fst (step w2 (ODel 0 [1; 2]))) (OLen 2)) = RNum 1.
Proof. vm_compute. auto. Qed.

(** the theorem [handles_alias] applies: the same call through either handle is the same step *)
Example alias_instance : step w1 (OPut 2 [3] [30]) = step w1 (OPut 0 [3] [30]).
Proof.
  apply (handles_alias w1 0 2 (OPut 0 [3] [30])); [|reflexivity].
  vm_compute. reflexivity.
Qed.

(** (ii) the other map is exactly unchanged (flags included), while map "a" did change *)
Example other_map_unchanged :
  files w2 !! mk_b = files w1 !! mk_b /\ is_Some (files w1 !! mk_b) /\
  len <$> files w1 !! mk_a = Some 1 /\ len <$> files w2 !! mk_a = Some 2 /\
  len <$> files w2 !! mk_b = Some 1.
Proof.
  split; [vm_compute; reflexivity|]. split; [vm_compute; eexists; reflexivity|].
  vm_compute. auto.
Qed.

(** ... which is an instance of [step_frame] *)
Example other_map_unchanged_by_frame : files w2 !! mk_b = files w1 !! mk_b.
Proof.
  apply (step_frame w1 (OPut 2 [3] [30]) mk_b); [|exact I].
  vm_compute. intros H. discriminate H.
Qed.

(** a second open of "a" gives a handle to the same files; with another type it is refused *)
Example second_open :
  mids (fst (step w1 (OMap 3 0 KBytes [97] p4))) !! 3 = Some (mk_a, KBytes) /\
  files (fst (step w1 (OMap 3 0 KBytes [97] p4))) !! mk_a = files w1 !! mk_a /\
  snd (step (fst (step w1 (OMap 3 0 KBytes [97] p4))) (OGet 3 [1; 2])) = ROpt (Some [10]) /\
  snd (step w1 (OMap 3 0 KU64 [97] p4)) = RPanic BadSig.
Proof. split_and!; vm_compute; reflexivity. Qed.

(** (iii) the images with and without interleaved read-only and flush calls *)
Definition tail_full : list op :=
  [OGet 0 [1; 2]; OPut 2 [3] [30]; OIter 0 FIter; OStats 1; OFlush 0; OPutInt 1 9 [21];
   OBulkGet 2 [[3]; [4]]; ODel 0 [1; 2]; ODbSync 0; OGetInt 1 7; OSnap [100]; OLen 1; ODirty 0].
Definition ops_full : list op := setup ++ tail_full.
Definition ops_upd : list op := List.filter (fun o => negb (read_only o || flush_like o)) ops_full.

Example ops_upd_eq :
  ops_upd = setup ++ [OPut 2 [3] [30]; OPutInt 1 9 [21]; ODel 0 [1; 2]].
Proof. vm_compute. reflexivity. Qed.

Example ops_full_api : Forall (fun o => api_op o = true) ops_full.
Proof. unfold ops_full, setup, tail_full. cbn [app]. repeat constructor. Qed.

Example images_equal_a :
  render <$> files (world_run world0 ops_full) !! mk_a = render <$> files (world_run world0 ops_upd) !! mk_a /\
  (exists r, render <$> files (world_run world0 ops_full) !! mk_a = Some (Ok r)).
Proof. split; [vm_compute; reflexivity|]. eexists. vm_compute. reflexivity. Qed.

Example images_equal_b :
  render <$> files (world_run world0 ops_full) !! mk_b = render <$> files (world_run world0 ops_upd) !! mk_b /\
  (exists r, render <$> files (world_run world0 ops_full) !! mk_b = Some (Ok r)).
Proof. split; [vm_compute; reflexivity|]. eexists. vm_compute. reflexivity. Qed.

(** the two final worlds are related but not equal: the flags differ *)
Example flags_differ :
  (dirty <$> files (world_run world0 ops_full) !! mk_a, synced <$> files (world_run world0 ops_full) !! mk_a)
    = (Some false, Some true) /\
  (dirty <$> files (world_run world0 ops_upd) !! mk_a, synced <$> files (world_run world0 ops_upd) !! mk_a)
    = (Some true, Some false).
Proof. vm_compute. auto. Qed.

(** the same through the theorems *)
Example images_equal_by_theorem s s' :
  files (world_run world0 ops_full) !! mk_a = Some s ->
  files (world_run world0 ops_upd) !! mk_a = Some s' -> render s = render s'.
Proof. apply (images_function_of_updates world0 ops_full mk_a s s' ops_full_api). Qed.

(** the results of the three updating calls are the same in both runs *)
Example update_results :
  kept_outs (fun o => negb (read_only o || flush_like o)) world0 ops_full = run_outs world0 ops_upd /\
  run_outs world0 ops_upd = [RUnit; RUnit; RUnit; RUnit; RUnit; RUnit; RUnit; RUnit; ROpt (Some [10])].
Proof. split; [apply (update_results_function_of_updates world0 ops_full ops_full_api)|]. vm_compute. reflexivity. Qed.

(** a read-only call and a flush on a clean map leave the world as it is *)
Example read_only_instance : fst (step w2 (OIter 0 FIter)) = w2 /\ fst (step w2 (OSnap [100])) = w2.
Proof. split; apply read_only_no_effect; reflexivity. Qed.

Definition w3 : world := fst (step w2 (OFlush 0)).
Example flush_instance :
  dirty <$> files w2 !! mk_a = Some true /\ dirty <$> files w3 !! mk_a = Some false /\
  synced <$> files w3 !! mk_a = Some true /\
  dirty <$> files w3 !! mk_b = Some true /\
  snd (step w3 (ODirty 2)) = RBool false.
Proof. vm_compute. auto. Qed.

Example flush_clean_instance : fst (step w3 (OFlush 2)) = w3 /\ fst (step w3 (OSyncData 0)) = w3.
Proof.
  assert (exists s, files w3 !! mk_a = Some s /\ dirty s = false) as (s & Hs & Hd).
  { eexists. split; vm_compute; reflexivity. }
  split.
  - apply (flush_unmodified_noop w3 2 mk_a KBytes s); [vm_compute; reflexivity | exact Hs | exact Hd].
  - apply (sync_data_unmodified_noop w3 0 mk_a KBytes s); [vm_compute; reflexivity | exact Hs | exact Hd].
Qed.

(** why [OCpDir] is not an API call in [step_respects_eqv]: it copies the synced maps only, so it
    tells a flushed world from an unflushed one *)
Example cpdir_sees_flags :
  world_eqv w3 w2 /\
  is_Some (files (fst (step w3 (OCpDir [100] [101]))) !! ([101], [97])) /\
  files (fst (step w2 (OCpDir [100] [101]))) !! ([101], [97]) = None.
Proof.
  split; [apply flush_like_eqv; reflexivity|].
  split; [vm_compute; eexists; reflexivity | vm_compute; reflexivity].
Qed.
End Examples.

(** ** Assumptions *)
Print Assumptions store_eqv_equiv.
Print Assumptions render_eqv.
Print Assumptions get_eqv.
Print Assumptions has_eqv.
Print Assumptions len_eqv.
Print Assumptions put_eqv.
Print Assumptions del_eqv.
Print Assumptions iter_run_eqv.
Print Assumptions stats_of_eqv.
Print Assumptions bulk_get_eqv.
Print Assumptions bulk_delete_eqv.
Print Assumptions bulk_put_eqv.
Print Assumptions put_from_iter_eqv.
Print Assumptions flush_eqv_self.
Print Assumptions close_eqv_self.
Print Assumptions reopen_eqv_self.
Print Assumptions read_only_no_effect.
Print Assumptions flush_like_contents.
Print Assumptions flush_unmodified_noop.
Print Assumptions sync_all_unmodified_noop.
Print Assumptions sync_data_unmodified_noop.
Print Assumptions flush_modified.
Print Assumptions step_frame.
Print Assumptions cpdir_frame.
Print Assumptions handle_mgmt_only_flush.
Print Assumptions handle_mgmt_dom.
Print Assumptions handles_alias.
Print Assumptions handles_alias_same_call.
Print Assumptions clone_aliases.
Print Assumptions clone_then_alias.
Print Assumptions second_open_aliases.
Print Assumptions handles_open_step.
Print Assumptions second_open_no_effect_on_files.
Print Assumptions world_eqv_equiv.
Print Assumptions world_eqv_alt.
Print Assumptions step_respects_eqv.
Print Assumptions step_out_respects_eqv.
Print Assumptions read_only_calls_irrelevant.
Print Assumptions read_only_calls_irrelevant_strict.
Print Assumptions images_function_of_updates.
Print Assumptions images_same_maps.
Print Assumptions update_results_function_of_updates.
Print Assumptions Examples.clone_put_seen.
Print Assumptions Examples.other_map_unchanged.
Print Assumptions Examples.images_equal_a.
Print Assumptions Examples.images_equal_b.
Print Assumptions Examples.cpdir_sees_flags.
