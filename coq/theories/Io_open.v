(** * Io_open: opening the files of an existing map, at byte level ([Io.open_existing]).

    [Io.open_existing t] performs the seeks and reads of [FileDbXxxInner::open_with_params] on three
    files that are not empty (key file, value file, table file; per file [seek_to_end], then
    [seek_from_start(0)] and the three 8-byte reads of the header check, each followed by its
    [assert!]; the table file then reads its bucket count again).  This file relates it to the pure
    header check [Open.open_files] on the byte images and, through [Open_proofs], to the
    record-level model:

    0. FOR EVERY STATE (no invariant, any bytes, any positions, any chunk sizes):
       [open_existing_spec]: the call succeeds, its outcome is a pure function of the three byte
       strings ([hdr_pure] per file: the fields are read ZERO-PADDED beyond the end, as rabuf does),
       and the step is [ro_step]: the three byte strings are unchanged and every event is a read or
       a seek to a position at or before the end of its file ([Io_open_readonly_any]);
    a. [Io_open_agrees]: on the files of a well-formed state the outcome is [Opened] iff
       [Open.open_files] says [Accepted], [RejectedAt f] iff it says [Rejected] and [f] is the first
       file (key, value, table) whose check fails ([Io_open_agrees_images]: the same for any three
       images of at least 24 bytes - this covers mutated files);
    b. [Io_open_readonly]: accepted or rejected, the step is [ro_step] and the images are the same
       - "a rejected open leaves all files byte-for-byte unchanged" at byte level;
    c. [Io_open_state]: the opened map has the requested type, the STORED table size [nb (hx s)]
       (there is no parameter it could come from) and the images of [s]; [Io_reopen_then_get] ...
       [Io_reopen_then_history]: every call after the reopen returns what the record-level model /
       the ideal map returns for [s] - byte-level C02;
    d. [Io_open_wrong_type_rejected], [Io_open_mutated_rejected]: a type of another signature is
       rejected at the key file; any single-byte change of the first 16 bytes of any of the three
       files is rejected at that file; both with [ro_step] - byte-level C13. *)
From Coq Require Import Lia ZifyN ZifyNat ZifyBool.
From Aby Require Import Base Vu64 Vu64_proofs Hash KeyTypes KeyTypes_proofs Consts Sizing Alloc AllocInv Htx Htx_proofs
  Store Iter Stats Layout Load Load_proofs Load_htx_proofs Load_all Open Open_proofs Cache Cache_proofs Io.
From Aby Require Import Spec Refine Refine_all.
From Aby Require Import Io_base Io_htx Io_pieces Io_reads Io_reads2 Io_updates Io_run Io_create Io_proofs.
Import Io.

#[local] Open Scope N_scope.

(** ** 0. for every state *)

(** *** the primitives of the open only look *)

Lemma seek_inside_facts f t s : t <= fend (get_file s f) ->
  get_file (seek_to f t s) f = File (fb (get_file s f)) t (fcs (get_file s f)) /\
  ro_step s (seek_to f t s).
Proof.
  intros Hle. destruct (seek_to_inside f t s Hle) as [Hf _].
  split; [exact Hf|apply ro_step_seek; exact Hle].
Qed.

(** the state after [read_n] *)
Definition rd_st (f : fid) (n : N) (s : st) : st :=
  let x := get_file s f in
  emit (set_file s f (File (fb x) (fp x + n) (fcs x))) (EvRead f (fp x) n).

Lemma read_n_eq f n s : read_n f n s = Ok (read_raw (get_file s f) n, rd_st f n s).
Proof. reflexivity. Qed.

Lemma rd_st_facts f n s :
  get_file (rd_st f n s) f = File (fb (get_file s f)) (fp (get_file s f) + n) (fcs (get_file s f)) /\
  ro_step s (rd_st f n s).
Proof.
  assert (Hu : upd_file s (rd_st f n s) f (fb (get_file s f)) (fp (get_file s f) + n)).
  { unfold rd_st. split.
    - rewrite get_emit, get_set_same. reflexivity.
    - intros g Hg. rewrite get_emit, get_set_other by congruence. reflexivity. }
  split; [exact (proj1 Hu)|].
  apply (ro_step_read f s (rd_st f n s) _ n Hu).
  unfold appended, rd_st. rewrite log_emit, log_set_file. reflexivity.
Qed.

(** *** an 8-byte field read at [p]: zero-padded beyond the end of the file *)
Definition fld (b : bytes) (p : N) : bytes := let d := sub b p 8 in d ++ zeros (8 - blen d).

Lemma read_raw_fld b p cs : read_raw (File b p cs) 8 = fld b p.
Proof. reflexivity. Qed.

Lemma fld_inside (b : bytes) p : p + 8 <= blen b -> fld b p = take 8 (drop (N.to_nat p) b).
Proof.
  intros Hp. unfold fld. cbv zeta. rewrite blen_sub.
  replace (8 - N.min 8 (blen b - p)) with 0 by lia.
  change (zeros 0) with (@nil N). rewrite app_nil_r. reflexivity.
Qed.

Lemma fld_beyond (b : bytes) p : blen b <= p -> fld b p = zeros 8.
Proof.
  intros Hp. unfold fld, sub. cbv zeta.
  rewrite drop_ge by (unfold blen in Hp; lia). rewrite take_nil. reflexivity.
Qed.

(** *** the header check of one file as a pure function of its bytes *)
Definition hdr_pure (sg1 sg2 : bytes) (ok : N -> bool) (b : bytes) : hdr_verdict :=
  if blen b =? 0 then HdrFresh else
  if negb (bytes_eqb (fld b 0) sg1) then HdrBad else
  if negb (bytes_eqb (fld b 8) sg2) then HdrBad else
  if ok (le_decode (fld b 16)) then HdrOk else HdrBad.

Lemma open_check_spec f sg1 sg2 ok s :
  exists s', open_check f sg1 sg2 ok s = Ok (hdr_pure sg1 sg2 ok (fb (get_file s f)), s') /\ ro_step s s'.
Proof.
  unfold open_check, hdr_pure, seek_to_end, seek_from_start, read_u64, read_le. cbn [rbind].
  set (b := fb (get_file s f)). set (cs := fcs (get_file s f)).
  change (fend (get_file s f)) with (blen b).
  destruct (seek_inside_facts f (blen b) s (N.le_refl _)) as [H0 R0]. fold b cs in H0.
  set (s0 := seek_to f (blen b) s) in *.
  destruct (blen b =? 0) eqn:Ez; [exists s0; split; [reflexivity|exact R0]|].
  destruct (seek_inside_facts f 0 s0 (N.le_0_l _)) as [H1 R1]. rewrite H0 in H1. cbn [fb fcs] in H1.
  set (s1 := seek_to f 0 s0) in *.
  rewrite (read_n_eq f 8 s1). cbn [rbind].
  destruct (rd_st_facts f 8 s1) as [H2 R2]. rewrite H1 in H2. cbn [fb fp fcs] in H2.
  rewrite H1, read_raw_fld.
  set (s2 := rd_st f 8 s1) in *.
  assert (R02 : ro_step s s2) by (eapply ro_step_trans; [exact R0|]; eapply ro_step_trans; [exact R1|exact R2]).
  destruct (negb (bytes_eqb (fld b 0) sg1)); [exists s2; split; [reflexivity|exact R02]|].
  rewrite (read_n_eq f 8 s2). cbn [rbind].
  destruct (rd_st_facts f 8 s2) as [H3 R3]. rewrite H2 in H3. cbn [fb fp fcs] in H3.
  rewrite H2, read_raw_fld. change (0 + 8) with 8 in *.
  set (s3 := rd_st f 8 s2) in *.
  assert (R03 : ro_step s s3) by (eapply ro_step_trans; [exact R02|exact R3]).
  destruct (negb (bytes_eqb (fld b 8) sg2)); [exists s3; split; [reflexivity|exact R03]|].
  rewrite (read_n_eq f 8 s3). cbn [rbind].
  destruct (rd_st_facts f 8 s3) as [_ R4].
  rewrite H3, read_raw_fld. change (8 + 8) with 16.
  set (s4 := rd_st f 8 s3) in *.
  assert (R04 : ro_step s s4) by (eapply ro_step_trans; [exact R03|exact R4]).
  exists s4. split; [|exact R04].
  destruct (ok (le_decode (fld b 16))); reflexivity.
Qed.

Lemma ro_step_fb s s' f : ro_step s s' -> fb (get_file s' f) = fb (get_file s f).
Proof. intros [H _]. apply H. Qed.

Lemma ro_step_images s s' : ro_step s s' -> st_images s' = st_images s.
Proof.
  intros H. unfold st_images.
  pose proof (ro_step_fb s s' FHtx H) as Hh. pose proof (ro_step_fb s s' FKey H) as Hk.
  pose proof (ro_step_fb s s' FVal H) as Hv. cbn [get_file] in Hh, Hk, Hv. congruence.
Qed.

(** the table file passed its check: the bucket count is not zero, so the file is longer than 16 bytes *)
Lemma hdr_ok_long sg1 sg2 (b : bytes) :
  hdr_pure sg1 sg2 (fun c => negb (c =? 0)) b = HdrOk -> 16 < blen b.
Proof.
  unfold hdr_pure. intros H.
  destruct (N.lt_ge_cases 16 (blen b)) as [Hlt|Hge]; [exact Hlt|exfalso].
  rewrite (fld_beyond b 16 Hge) in H. change (le_decode (zeros 8)) with 0 in H. cbn [N.eqb negb] in H.
  repeat match type of H with (if ?c then _ else _) = _ => destruct c; try discriminate H end.
Qed.

(** *** the whole open, for every state *)
Definition key_verdict (t : ktype) (k : bytes) := hdr_pure (sig1 key_cfg) (sig_of t) (fun c => c =? 0) k.
Definition val_verdict (t : ktype) (v : bytes) := hdr_pure (sig1 val_cfg) (sig_of t) (fun c => c =? 0) v.
Definition htx_verdict (t : ktype) (h : bytes) := hdr_pure htx_signature (sig_of t) (fun c => negb (c =? 0)) h.

(** what the open returns, given the state it ends in *)
Definition open_pure (t : ktype) (imgs : bytes * bytes * bytes) (s' : st) : open_outcome :=
  let '(h, k, v) := imgs in
  match key_verdict t k with
  | HdrFresh => FreshFile FKey | HdrBad => RejectedAt FKey
  | HdrOk =>
    match val_verdict t v with
    | HdrFresh => FreshFile FVal | HdrBad => RejectedAt FVal
    | HdrOk =>
      match htx_verdict t h with
      | HdrFresh => FreshFile FHtx | HdrBad => RejectedAt FHtx
      | HdrOk => Opened (Mp t (le_decode (fld h 16)) s')
      end
    end
  end.

Theorem open_existing_spec t s :
  exists s', open_existing t s = Ok (open_pure t (st_images s) s', s') /\ ro_step s s'.
Proof.
  unfold open_existing, open_pure, st_images, key_verdict, val_verdict, htx_verdict.
  destruct (open_check_spec FKey (sig1 key_cfg) (sig_of t) (fun c => c =? 0) s) as (s1 & E1 & R1).
  rewrite E1. cbn [rbind get_file].
  destruct (hdr_pure (sig1 key_cfg) (sig_of t) (fun c => c =? 0) (fb (s_key s)));
    [|exists s1; split; [reflexivity|exact R1]..].
  destruct (open_check_spec FVal (sig1 val_cfg) (sig_of t) (fun c => c =? 0) s1) as (s2 & E2 & R2).
  rewrite E2. cbn [rbind get_file].
  pose proof (ro_step_fb s s1 FVal R1) as Hv1. cbn [get_file] in Hv1. rewrite Hv1.
  assert (R02 : ro_step s s2) by (eapply ro_step_trans; eassumption).
  destruct (hdr_pure (sig1 val_cfg) (sig_of t) (fun c => c =? 0) (fb (s_val s)));
    [|exists s2; split; [reflexivity|exact R02]..].
  destruct (open_check_spec FHtx htx_signature (sig_of t) (fun c => negb (c =? 0)) s2) as (s3 & E3 & R3).
  rewrite E3. cbn [rbind get_file].
  pose proof (ro_step_fb s s2 FHtx R02) as Hh2. cbn [get_file] in Hh2. rewrite Hh2.
  assert (R03 : ro_step s s3) by (eapply ro_step_trans; eassumption).
  destruct (hdr_pure htx_signature (sig_of t) (fun c => negb (c =? 0)) (fb (s_htx s))) eqn:Eh;
    [|exists s3; split; [reflexivity|exact R03]..].
  (* the second read of the bucket count *)
  pose proof (hdr_ok_long _ _ _ Eh) as Hlong.
  pose proof (ro_step_fb s s3 FHtx R03) as Hh3. cbn [get_file] in Hh3.
  unfold read_hash_buckets_size, seek_from_start, read_u64, read_le. cbn [rbind].
  change htx_size_offset with 16.
  assert (Hin : 16 <= fend (get_file s3 FHtx)) by (unfold fend; cbn [get_file]; rewrite Hh3; lia).
  destruct (seek_inside_facts FHtx 16 s3 Hin) as [H4 R4]. cbn [get_file] in H4. rewrite Hh3 in H4.
  set (s4 := seek_to FHtx 16 s3) in *.
  rewrite (read_n_eq FHtx 8 s4). cbn [rbind get_file]. rewrite H4, read_raw_fld.
  destruct (rd_st_facts FHtx 8 s4) as [_ R5].
  exists (rd_st FHtx 8 s4). split; [reflexivity|].
  eapply ro_step_trans; [exact R03|]. eapply ro_step_trans; [exact R4|exact R5].
Qed.

(** accepted or rejected, for EVERY state: the open only looks *)
Theorem Io_open_readonly_any t s o s' :
  open_existing t s = Ok (o, s') -> ro_step s s' /\ st_images s' = st_images s.
Proof.
  intros H. destruct (open_existing_spec t s) as (s1 & E & R). rewrite E in H.
  injection H as _ <-. split; [exact R|apply ro_step_images; exact R].
Qed.

(** ** a. the outcome is the verdict of [Open.open_files] *)

Definition verdict_of (r : hdr_verdict) : open_result :=
  match r with HdrOk => Accepted | HdrBad => Rejected | HdrFresh => Fresh end.

Lemma flds_24 (b : bytes) : (24 <= length b)%nat ->
  fld b 0 = take 8 b /\ fld b 8 = take 8 (drop 8 b) /\ fld b 16 = take 8 (drop 16 b).
Proof.
  intros H. rewrite !fld_inside by (unfold blen; lia).
  change (N.to_nat 0) with 0%nat. change (N.to_nat 8) with 8%nat. change (N.to_nat 16) with 16%nat.
  rewrite drop_0. auto.
Qed.

Lemma hdr_pure_not_fresh sg1 sg2 ok (b : bytes) : (24 <= length b)%nat -> hdr_pure sg1 sg2 ok b <> HdrFresh.
Proof.
  intros H. unfold hdr_pure.
  destruct (N.eqb_spec (blen b) 0) as [E|E]; [unfold blen in E; lia|].
  repeat match goal with |- (if ?c then _ else _) <> _ => destruct c end; discriminate.
Qed.

Lemma check_pheader_pure c sg (b : bytes) : (24 <= length b)%nat ->
  check_pheader c sg b = verdict_of (hdr_pure (sig1 c) sg (fun x => x =? 0) b).
Proof.
  intros H. destruct (flds_24 b H) as (F0 & F8 & F16).
  unfold check_pheader, hdr_pure. rewrite F0, F8, F16.
  destruct (Nat.eqb_spec (length b) 0) as [E0|E0]; [lia|].
  destruct (Nat.ltb_spec (length b) 24) as [E1|E1]; [lia|].
  destruct (N.eqb_spec (blen b) 0) as [E|E]; [unfold blen in E; lia|].
  destruct (bytes_eqb (take 8 b) (sig1 c)); cbn [negb verdict_of]; [|reflexivity].
  destruct (bytes_eqb (take 8 (drop 8 b)) sg); cbn [negb verdict_of]; [|reflexivity].
  destruct (le_decode (take 8 (drop 16 b)) =? 0); reflexivity.
Qed.

Lemma check_hheader_pure sg (b : bytes) : (24 <= length b)%nat ->
  check_hheader sg b = verdict_of (hdr_pure htx_signature sg (fun x => negb (x =? 0)) b).
Proof.
  intros H. destruct (flds_24 b H) as (F0 & F8 & F16).
  unfold check_hheader, hdr_pure. rewrite F0, F8, F16.
  destruct (Nat.eqb_spec (length b) 0) as [E0|E0]; [lia|].
  destruct (Nat.ltb_spec (length b) 24) as [E1|E1]; [lia|].
  destruct (N.eqb_spec (blen b) 0) as [E|E]; [unfold blen in E; lia|].
  destruct (bytes_eqb (take 8 b) htx_signature); cbn [negb verdict_of]; [|reflexivity].
  destruct (bytes_eqb (take 8 (drop 8 b)) sg); cbn [negb verdict_of]; [|reflexivity].
  destruct (le_decode (take 8 (drop 16 b)) =? 0); reflexivity.
Qed.

(** the first file - in the order key file, value file, table file - whose header check does not pass *)
Definition first_failing (t : ktype) (imgs : bytes * bytes * bytes) : option fid :=
  let '(h, k, v) := imgs in
  match check_pheader key_cfg (sig_of t) k with
  | Accepted =>
    match check_pheader val_cfg (sig_of t) v with
    | Accepted => match check_hheader (sig_of t) h with Accepted => None | _ => Some FHtx end
    | _ => Some FVal
    end
  | _ => Some FKey
  end.

(** the three statements of (a) about an outcome [o] *)
Definition agrees (t : ktype) (imgs : bytes * bytes * bytes) (o : open_outcome) : Prop :=
  ((exists m, o = Opened m) <-> open_files t imgs = Accepted) /\
  (forall f, o = RejectedAt f <-> (open_files t imgs = Rejected /\ first_failing t imgs = Some f)) /\
  (forall f, o <> FreshFile f).

Ltac agrees_case :=
  unfold agrees; split; [|split];
  [ split; [intros [m0 Hm0]; first [reflexivity|discriminate Hm0] | intros Hacc; first [discriminate Hacc|eexists; reflexivity]]
  | intros f0; split;
    [ intros Hrej; first [discriminate Hrej|injection Hrej as <-; split; reflexivity]
    | intros [Hrej Hff]; first [discriminate Hrej|discriminate Hff|injection Hff as <-; reflexivity] ]
  | intros f0 Hfr; discriminate Hfr ].

(** any three images of at least 24 bytes (the files of a map, also with bytes changed) *)
Theorem Io_open_agrees_images t h k v st0 :
  (24 <= length h)%nat -> (24 <= length k)%nat -> (24 <= length v)%nat ->
  st_images st0 = (h, k, v) ->
  exists o st1, open_existing t st0 = Ok (o, st1) /\ agrees t (h, k, v) o.
Proof.
  intros Lh Lk Lv Himg. destruct (open_existing_spec t st0) as (st1 & E & _).
  exists (open_pure t (st_images st0) st1), st1. split; [exact E|].
  rewrite Himg. unfold agrees, open_pure, open_files, first_failing, key_verdict, val_verdict, htx_verdict.
  rewrite (check_pheader_pure key_cfg (sig_of t) k Lk), (check_pheader_pure val_cfg (sig_of t) v Lv),
    (check_hheader_pure (sig_of t) h Lh).
  pose proof (hdr_pure_not_fresh (sig1 key_cfg) (sig_of t) (fun x => x =? 0) k Lk) as Nk.
  pose proof (hdr_pure_not_fresh (sig1 val_cfg) (sig_of t) (fun x => x =? 0) v Lv) as Nv.
  pose proof (hdr_pure_not_fresh htx_signature (sig_of t) (fun x => negb (x =? 0)) h Lh) as Nh.
  destruct (hdr_pure (sig1 key_cfg) (sig_of t) (fun x => x =? 0) k); [|cbn [verdict_of]; agrees_case|congruence].
  destruct (hdr_pure (sig1 val_cfg) (sig_of t) (fun x => x =? 0) v); [|cbn [verdict_of]; agrees_case|congruence].
  destruct (hdr_pure htx_signature (sig_of t) (fun x => negb (x =? 0)) h); [|cbn [verdict_of]; agrees_case|congruence].
  cbn [verdict_of]. agrees_case.
Qed.

(** the three images of a state, without unfolding anything *)
Lemma render_inv3 s h k v : render s = Ok (h, k, v) ->
  exists rk rv,
    h = render_htx (sig_of (kt s)) (hx s) /\
    k = render_pheader key_cfg (sig_of (kt s)) (heads (keyf s)) ++ rk /\
    v = render_pheader val_cfg (sig_of (kt s)) (heads (valf s)) ++ rv.
Proof.
  intros Hr. destruct (render_inv s _ Hr) as (rk & rv & E). exists rk, rv.
  pose proof (f_equal (fun x => fst (fst x)) E) as Eh.
  pose proof (f_equal (fun x => snd (fst x)) E) as Ek.
  pose proof (f_equal snd E) as Ev. cbn [fst snd] in Eh, Ek, Ev. auto.
Qed.

(** the files of a state are at least 24 bytes long *)
Lemma render_lengths s h k v : render s = Ok (h, k, v) ->
  (24 <= length h)%nat /\ (24 <= length k)%nat /\ (24 <= length v)%nat.
Proof.
  intros Hr. destruct (render_inv3 s h k v Hr) as (rk & rv & -> & -> & ->).
  pose proof (sig_of_length (kt s)) as Hs.
  split; [apply render_htx_length; exact Hs|].
  destruct (render_pheader_prefix key_cfg (sig_of (kt s)) (heads (keyf s)) key_cfg_ok Hs) as [_ Lk].
  destruct (render_pheader_prefix val_cfg (sig_of (kt s)) (heads (valf s)) val_cfg_ok Hs) as [_ Lv].
  rewrite !app_length. lia.
Qed.

(** (a) on the files of a state *)
Theorem Io_open_agrees s t h k v st0 :
  render s = Ok (h, k, v) -> st_images st0 = (h, k, v) ->
  exists o st1, open_existing t st0 = Ok (o, st1) /\ agrees t (h, k, v) o.
Proof.
  intros Hr Himg. destruct (render_lengths s h k v Hr) as (Lh & Lk & Lv).
  exact (Io_open_agrees_images t h k v st0 Lh Lk Lv Himg).
Qed.

(** the byte-level open accepts exactly when the record-level [Db.open_map] does (its test is
    [bytes_eqb (sig_of (kt s)) (sig_of t)]) *)
Theorem Io_open_accepts_iff s t h k v st0 :
  wf_state s -> fits64 s -> render s = Ok (h, k, v) -> st_images st0 = (h, k, v) ->
  exists o st1, open_existing t st0 = Ok (o, st1) /\
    ((exists m, o = Opened m) <-> bytes_eqb (sig_of (kt s)) (sig_of t) = true) /\
    (o = RejectedAt FKey <-> bytes_eqb (sig_of (kt s)) (sig_of t) = false).
Proof.
  intros Hwf H64 Hr Himg.
  destruct (Io_open_agrees s t h k v st0 Hr Himg) as (o & st1 & E & (Hacc & Hrej & _)).
  exists o, st1. split; [exact E|].
  assert (Hnb : 1 <= nb (hx s) < 2 ^ 64).
  { destruct Hwf as ((ch & Hcore & _) & _). split; [exact (co_n _ _ _ Hcore)|exact (proj1 H64)]. }
  pose proof (open_files_rendered s t (h, k, v) Hnb Hr) as Hof.
  assert (Hff : bytes_eqb (sig_of (kt s)) (sig_of t) = false -> first_failing t (h, k, v) = Some FKey).
  { intros Hb. destruct (render_inv3 s h k v Hr) as (rk & rv & -> & -> & ->).
    unfold first_failing.
    rewrite (check_pheader_rendered key_cfg (sig_of (kt s)) (sig_of t) _ rk key_cfg_ok (sig_of_length _)), Hb.
    reflexivity. }
  split.
  - rewrite Hacc, Hof. destruct (bytes_eqb (sig_of (kt s)) (sig_of t)); split; intros Hx; first [reflexivity|discriminate Hx].
  - rewrite (Hrej FKey), Hof. destruct (bytes_eqb (sig_of (kt s)) (sig_of t)) eqn:Hb.
    + split; [intros [Hx _]; discriminate Hx|intros Hx; discriminate Hx].
    + split; [reflexivity|intros _; split; [reflexivity|apply Hff; reflexivity]].
Qed.

(** ** b. accepted or rejected: the three byte strings are unchanged, only reads and seeks inside the files *)
Theorem Io_open_readonly s t h k v st0 o st1 :
  wf_state s -> fits64 s -> render s = Ok (h, k, v) -> st_images st0 = (h, k, v) ->
  open_existing t st0 = Ok (o, st1) ->
  ro_step st0 st1 /\ st_images st1 = (h, k, v).
Proof.
  intros _ _ _ Himg Ho. destruct (Io_open_readonly_any t st0 o st1 Ho) as [R I].
  split; [exact R|congruence].
Qed.

(** ** c. the state of the opened map *)

(** the bytes 16..23 of the table file of a state hold its bucket count *)
Lemma fld16_render_htx sg h0 : length sg = 8%nat -> nb h0 < 2 ^ 64 ->
  le_decode (fld (render_htx sg h0) 16) = nb h0.
Proof.
  intros Hs Hnb. pose proof (hdr_htx sg h0 Hs) as Hh.
  destruct (hdr_fields _ _ _ _ Hh) as (_ & _ & F3 & L).
  destruct (flds_24 _ L) as (_ & _ & F16). rewrite F16, F3.
  apply le_decode_le_bytes8. exact Hnb.
Qed.

Theorem Io_open_state s t h k v st0 m st1 :
  wf_state s -> fits64 s -> render s = Ok (h, k, v) -> st_images st0 = (h, k, v) ->
  open_existing t st0 = Ok (Opened m, st1) ->
  m_kt m = t /\ m_n m = nb (hx s) /\ Io.images m = (h, k, v) /\ m_st m = st1 /\
  (forall f, fcs (get_file st1 f) = fcs (get_file st0 f)).
Proof.
  intros _ H64 Hr Himg Ho.
  destruct (open_existing_spec t st0) as (s' & E & R). rewrite E in Ho.
  assert (Hm : open_pure t (st_images st0) s' = Opened m) by congruence.
  assert (Hs' : s' = st1) by congruence. subst st1. clear Ho. rewrite Himg in Hm.
  assert (Hshape : m = Mp t (le_decode (fld h 16)) s').
  { unfold open_pure in Hm.
    destruct (key_verdict t k); try discriminate Hm.
    destruct (val_verdict t v); try discriminate Hm.
    destruct (htx_verdict t h); try discriminate Hm.
    injection Hm as <-. reflexivity. }
  subst m. cbn [m_kt m_n m_st]. split; [reflexivity|]. split.
  - destruct (render_inv3 s h k v Hr) as (rk & rv & -> & _ & _).
    apply fld16_render_htx; [apply sig_of_length|exact (proj1 H64)].
  - split; [|split; [reflexivity|]].
    + unfold images. cbn [m_st]. change (st_images s' = (h, k, v)).
      rewrite (ro_step_images st0 s' R). exact Himg.
    + intros f. destruct R as [Hf _]. apply Hf.
Qed.

(** opened as the type it was created with: accepted *)
Theorem Io_open_same_type s h k v st0 :
  wf_state s -> fits64 s -> render s = Ok (h, k, v) -> st_images st0 = (h, k, v) ->
  exists m st1, open_existing (kt s) st0 = Ok (Opened m, st1) /\ ro_step st0 st1 /\
    m_kt m = kt s /\ m_n m = nb (hx s) /\ Io.images m = (h, k, v) /\ m_st m = st1 /\
    (forall f, fcs (get_file st1 f) = fcs (get_file st0 f)).
Proof.
  intros Hwf H64 Hr Himg.
  destruct (Io_open_accepts_iff s (kt s) h k v st0 Hwf H64 Hr Himg) as (o & st1 & E & (Hacc & _)).
  destruct (proj2 Hacc (bytes_eqb_refl _)) as [m ->].
  exists m, st1. split; [exact E|].
  split; [exact (proj1 (Io_open_readonly_any _ _ _ _ E))|].
  exact (Io_open_state s (kt s) h k v st0 m st1 Hwf H64 Hr Himg E).
Qed.

(** every read-only call after the reopen returns what the record-level model returns for [s] *)
Theorem Io_reopen_then_get s h k v st0 :
  wf_state s -> fits64 s -> render s = Ok (h, k, v) -> st_images st0 = (h, k, v) ->
  exists m st1, open_existing (kt s) st0 = Ok (Opened m, st1) /\ ro_step st0 st1 /\ m_n m = nb (hx s) /\
    (forall key r, Store.get s key = Ok r ->
       exists m', Io.get m key = Ok (r, m') /\ ro_step (m_st m) (m_st m') /\ Io.images m' = (h, k, v)) /\
    (forall key r, Store.has s key = Ok r ->
       exists m', Io.has m key = Ok (r, m') /\ ro_step (m_st m) (m_st m') /\ Io.images m' = (h, k, v)) /\
    (exists m', Io.len m = Ok (Store.len s, m') /\ ro_step (m_st m) (m_st m') /\ Io.images m' = (h, k, v)) /\
    (forall items hint ex, Iter.iter_run s = Ok (items, hint, ex) ->
       exists m', Io.iter_run m = Ok (items, hint, ex, m') /\ ro_step (m_st m) (m_st m') /\ Io.images m' = (h, k, v)) /\
    (forall r, Stats.stats_of s = Ok r ->
       exists m', Io.stats_of m = Ok (r, m') /\ ro_step (m_st m) (m_st m') /\ Io.images m' = (h, k, v)).
Proof.
  intros Hwf H64 Hr Himg.
  destruct (Io_open_same_type s h k v st0 Hwf H64 Hr Himg) as (m & st1 & E & R & Hkt & Hn & Him & _).
  exists m, st1. split; [exact E|]. split; [exact R|]. split; [exact Hn|].
  split; [|split; [|split; [|split]]].
  - intros key r Hg. destruct (Io_d_get s h k v m Hwf H64 Hr Hkt Hn Him key r Hg) as (m' & A & B & C).
    exists m'. split; [exact A|]. split; [exact B|]. rewrite C. exact Him.
  - intros key r Hg. destruct (Io_d_has s h k v m Hwf H64 Hr Hkt Hn Him key r Hg) as (m' & A & B & C).
    exists m'. split; [exact A|]. split; [exact B|]. rewrite C. exact Him.
  - destruct (Io_d_len s h k v m Hwf H64 Hr Him) as (m' & A & B & C).
    exists m'. split; [exact A|]. split; [exact B|]. rewrite C. exact Him.
  - intros items hint ex Hg.
    destruct (Io_d_iter_run s h k v m Hwf H64 Hr Him items hint ex Hg) as (m' & A & B & C).
    exists m'. split; [exact A|]. split; [exact B|]. rewrite C. exact Him.
  - intros r Hg. destruct (Io_d_stats s h k v m Hwf H64 Hr Hn Him r Hg) as (m' & A & B & C).
    exists m'. split; [exact A|]. split; [exact B|]. rewrite C. exact Him.
Qed.

(** ... and every history of calls (updates included) returns what the IDEAL MAP returns from the
    contents [sp] that [s] represents, the files staying [render] of the record-level state:
    reopening yields the state at the time of the drop (byte-level C02); the creation parameters
    cannot matter, [open_existing] does not take them *)
Theorem Io_reopen_then_history s sp h k v st0 ops s' outs :
  wf_state s -> represents s sp -> render s = Ok (h, k, v) -> st_images st0 = (h, k, v) ->
  0 < fcs (get_file st0 FKey) -> 0 < fcs (get_file st0 FVal) ->
  Forall (op_wf (kt s)) ops -> sized s ops -> store_run s ops = Ok (s', outs) ->
  exists m st1 m', open_existing (kt s) st0 = Ok (Opened m, st1) /\ ro_step st0 st1 /\
    io_run m ops = Ok (m', outs) /\ simg s' m' /\ wf_state s' /\
    represents s' (fst (spec_run sp ops)) /\ outs = snd (spec_run sp ops).
Proof.
  intros Hwf Hrep Hr Himg Hck Hcv Hops Hsz Hrun.
  assert (H64 : fits64 s) by (destruct ops; exact (proj1 Hsz)).
  destruct (Io_open_same_type s h k v st0 Hwf H64 Hr Himg) as (m & st1 & E & R & Hkt & Hn & Him & Hst & Hcs).
  assert (Hsim : simg s m).
  { unfold simg. rewrite Him. split; [exact Hr|]. split; [exact Hkt|]. split; [exact Hn|].
    rewrite Hst, !Hcs. split; assumption. }
  destruct (Io_histories ops s sp m s' outs Hwf Hrep Hsim Hops Hsz Hrun) as (m' & A & B & C & D & F).
  exists m, st1, m'. auto 10.
Qed.

(** ** d. what is rejected, and where (with [Open_proofs]) *)

Definition fid_of (f : fileid) : fid :=
  match f with FHtxF => FHtx | FKeyF => FKey | FValF => FVal end.

(** a key type of another signature: rejected at the key file - the first file looked at - before
    any other file is read; nothing is written *)
Theorem Io_open_wrong_type_rejected s t h k v st0 :
  wf_state s -> fits64 s -> render s = Ok (h, k, v) -> st_images st0 = (h, k, v) ->
  sig_of t <> sig_of (kt s) ->
  exists st1, open_existing t st0 = Ok (RejectedAt FKey, st1) /\ ro_step st0 st1 /\ st_images st1 = (h, k, v).
Proof.
  intros Hwf H64 Hr Himg Hne.
  destruct (Io_open_accepts_iff s t h k v st0 Hwf H64 Hr Himg) as (o & st1 & E & (_ & Hrej)).
  assert (Ho : o = RejectedAt FKey).
  { apply Hrej. apply bytes_eqb_neq. intros Heq. apply Hne. symmetry. exact Heq. }
  subst o. exists st1. split; [exact E|].
  exact (Io_open_readonly s t h k v st0 _ st1 Hwf H64 Hr Himg E).
Qed.

Corollary Io_open_other_type_rejected s t h k v st0 :
  wf_state s -> fits64 s -> render s = Ok (h, k, v) -> st_images st0 = (h, k, v) ->
  t <> kt s -> ~ Known13 t (kt s) ->
  exists st1, open_existing t st0 = Ok (RejectedAt FKey, st1) /\ ro_step st0 st1 /\ st_images st1 = (h, k, v).
Proof.
  intros Hwf H64 Hr Himg Hne Hk.
  apply (Io_open_wrong_type_rejected s t h k v st0 Hwf H64 Hr Himg). apply sig_distinct; assumption.
Qed.

(** any single-byte change of the first 16 bytes (the two signatures) of any of the three files:
    rejected, at that file, and nothing is written (for every value of the new byte) *)
Theorem Io_open_mutated_rejected s h k v f i b st0 :
  wf_state s -> fits64 s -> render s = Ok (h, k, v) -> (i < 16)%nat ->
  Open.get_file f (h, k, v) !! i <> Some b ->
  st_images st0 = mutate f i b (h, k, v) ->
  exists st1, open_existing (kt s) st0 = Ok (RejectedAt (fid_of f), st1) /\ ro_step st0 st1 /\
    st_images st1 = mutate f i b (h, k, v).
Proof.
  intros Hwf H64 Hr Hi Hne Himg.
  assert (Hnb : 1 <= nb (hx s) < 2 ^ 64).
  { destruct Hwf as ((ch & Hcore & _) & _). split; [exact (co_n _ _ _ Hcore)|exact (proj1 H64)]. }
  pose proof (open_mutated s (h, k, v) f i b Hnb Hr Hi Hne) as Hof.
  destruct (render_lengths s h k v Hr) as (Lh & Lk & Lv).
  pose proof (sig_of_length (kt s)) as Hs.
  (* the first failing file is the mutated one *)
  assert (Hff : first_failing (kt s) (mutate f i b (h, k, v)) = Some (fid_of f)).
  { destruct (render_inv3 s h k v Hr) as (rk & rv & -> & -> & ->).
    destruct f; unfold mutate, Open.get_file, Open.set_file, first_failing, fid_of in *.
    - rewrite !check_pheader_rendered by (first [apply key_cfg_ok|apply val_cfg_ok|exact Hs]).
      rewrite bytes_eqb_refl.
      rewrite (check_hheader_mutated _ _ _ _ _ (hdr_htx _ _ Hs) Hi Hne). reflexivity.
    - rewrite (check_pheader_mutated _ _ _ _ _ _ (hdr_pheader _ _ _ _ key_cfg_ok Hs) Hi Hne). reflexivity.
    - rewrite check_pheader_rendered by (first [apply key_cfg_ok|exact Hs]).
      rewrite bytes_eqb_refl.
      rewrite (check_pheader_mutated _ _ _ _ _ _ (hdr_pheader _ _ _ _ val_cfg_ok Hs) Hi Hne). reflexivity. }
  (* the mutated images are as long as the original ones *)
  assert (Hag : exists o st1, open_existing (kt s) st0 = Ok (o, st1) /\ agrees (kt s) (mutate f i b (h, k, v)) o).
  { destruct f; unfold mutate, Open.get_file, Open.set_file in *;
      apply Io_open_agrees_images; first [assumption|unfold bytes in *; rewrite insert_length; assumption]. }
  destruct Hag as (o & st1 & E & (_ & Hrej & _)).
  assert (Ho : o = RejectedAt (fid_of f)) by (apply Hrej; split; assumption).
  subst o. exists st1. split; [exact E|].
  destruct (Io_open_readonly_any _ _ _ _ E) as [R I]. split; [exact R|congruence].
Qed.

(** ** the statements are not vacuous, and what happens outside them *)

(** a map of four buckets created byte by byte, two records put; its three files re-opened with
    other buffers: as the same type (the table size 4 comes from the file), as another type, with
    byte 9 of the value file changed *)
Definition ex_map : res mp :=
  let* m0 := Io.create KBytes 4 BufAuto BufAuto BufSized in
  let* m1 := Io.put m0 [1; 2] [3; 4; 5] in
  Io.put m1 [7] [8].

Definition ex_reopen (t : ktype) (chg : bytes * bytes * bytes -> bytes * bytes * bytes)
  : res (option (ktype * N) * option fid * list ev) :=
  let* m := ex_map in
  let '(h, k, v) := chg (Io.images m) in
  let* (o, s1) := open_existing t (reopen_st k v h BufSized BufAuto BufAuto) in
  Ok (match o with Opened m' => Some (m_kt m', m_n m') | _ => None end,
      match o with RejectedAt f => Some f | _ => None end,
      rev (s_log s1)).

Example ex_reopen_same :
  ex_reopen KBytes (fun x => x) =
  Ok (Some (KBytes, 4), None,
      [EvSeek FKey 224; EvSeek FKey 0; EvRead FKey 0 8; EvRead FKey 8 8; EvRead FKey 16 8;
       EvSeek FVal 224; EvSeek FVal 0; EvRead FVal 0 8; EvRead FVal 8 8; EvRead FVal 16 8;
       EvSeek FHtx 161; EvSeek FHtx 0; EvRead FHtx 0 8; EvRead FHtx 8 8; EvRead FHtx 16 8;
       EvSeek FHtx 16; EvRead FHtx 16 8]).
Proof. vm_compute. reflexivity. Qed.

Example ex_reopen_wrong_type :
  ex_reopen KString (fun x => x) =
  Ok (None, Some FKey, [EvSeek FKey 224; EvSeek FKey 0; EvRead FKey 0 8; EvRead FKey 8 8]).
Proof. vm_compute. reflexivity. Qed.

Example ex_reopen_mutated :
  ex_reopen KBytes (mutate FValF 9 255) =
  Ok (None, Some FVal,
      [EvSeek FKey 224; EvSeek FKey 0; EvRead FKey 0 8; EvRead FKey 8 8; EvRead FKey 16 8;
       EvSeek FVal 224; EvSeek FVal 0; EvRead FVal 0 8; EvRead FVal 8 8]).
Proof. vm_compute. reflexivity. Qed.

(** OUTSIDE the theorems (files shorter than 24 bytes; seen on the real crate): the fields are read
    zero-padded, there is no short-read error.  A key file cut to 20 bytes passes its check
    (reserve0 reads as 0) where [Open.check_pheader] says [ShortRead]; cut to 12 bytes it is
    rejected at the second signature. *)
Example ex_truncated_key_file :
  (let* m := ex_map in
   let '(h, k, v) := Io.images m in
   Ok (key_verdict KBytes (take 20 k), check_pheader key_cfg (sig_of KBytes) (take 20 k),
       key_verdict KBytes (take 12 k), key_verdict KBytes []))
  = Ok (HdrOk, ShortRead, HdrBad, HdrFresh).
Proof. vm_compute. reflexivity. Qed.

Print Assumptions open_existing_spec.
Print Assumptions Io_open_readonly_any.
Print Assumptions Io_open_agrees_images.
Print Assumptions Io_open_agrees.
Print Assumptions Io_open_accepts_iff.
Print Assumptions Io_open_readonly.
Print Assumptions Io_open_state.
Print Assumptions Io_open_same_type.
Print Assumptions Io_reopen_then_get.
Print Assumptions Io_reopen_then_history.
Print Assumptions Io_open_wrong_type_rejected.
Print Assumptions Io_open_other_type_rejected.
Print Assumptions Io_open_mutated_rejected.
