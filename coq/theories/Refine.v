(** * Refine: the invariant of a map's three files and the refinement to the ideal map
    (definitions and statements; proofs in Refine_ops.v / Refine_relink.v).

    The layer below ([AllocInv]) gives, for the key file and the value file, an abstract heap
    [used f : gmap N payload].  Here the key heap is a set of linked records; bucket [b] of the
    table heads the chain [ch b] (ghost: the offsets in chain order).  *)
From Aby Require Import Base Vu64 Hash KeyTypes Consts Sizing Alloc AllocInv Htx Htx_proofs Store Spec.

Definition kheap (s : store) : gmap N krec := used (keyf s).
Definition vheap (s : store) : gmap N bytes := used (valf s).

(** a path of key records: from offset [h] through the offsets [l]; the last link is [x] *)
Inductive seg (kh : gmap N krec) : N -> list N -> N -> Prop :=
| seg_nil h : seg kh h [] h
| seg_cons off r l x :
    off <> 0 -> kh !! off = Some r -> seg kh (k_next r) l x -> seg kh off (off :: l) x.

(** a complete chain ends with the null link *)
Definition chain (kh : gmap N krec) (h : N) (l : list N) : Prop := seg kh h l 0.

(** keys and values the properties quantify over.  Lengths are computed in [u32] by the crate:
    below 2^31.  A key of a vu64 map is the varint of an integer (the crate panics on anything
    else when it compares keys). *)
Definition key_wf (t : ktype) (k : bytes) : Prop :=
  bytes_ok k /\ blen k < 2 ^ 31 /\ (t = KVu64 -> exists x, x < 2 ^ 64 /\ k = encode x).
Definition val_wf (v : bytes) : Prop := bytes_ok v /\ blen v < 2 ^ 31.

Definition home (s : store) (k : bytes) : N := bucket_of k (nb (hx s)).

(** everything except the links of the chains.  [orph]: at most one key record that is in the
    heap but (during a delete) already unlinked from its chain. *)
Record core (s : store) (ch : N -> list N) (orph : option N) : Prop := {
  co_k : AInv key_cfg (keyf s);
  co_v : AInv val_cfg (valf s);
  co_n : 1 <= nb (hx s);
  co_bm : bitmap_ok (hx s);
  co_home : forall b off r, b < nb (hx s) -> off ∈ ch b -> kheap s !! off = Some r -> home s (k_key r) = b;
  co_in : forall b off, b < nb (hx s) -> off ∈ ch b -> is_Some (kheap s !! off);
  co_nodup : forall b, b < nb (hx s) -> NoDup (ch b);
  co_reach : forall off r, kheap s !! off = Some r -> off ∈ ch (home s (k_key r)) \/ orph = Some off;
  co_orph : forall off, orph = Some off -> is_Some (kheap s !! off) /\ forall b, b < nb (hx s) -> off ∉ ch b;
  co_uniq : forall o1 o2 r1 r2, kheap s !! o1 = Some r1 -> kheap s !! o2 = Some r2 -> k_key r1 = k_key r2 -> o1 = o2;
  co_kwf : forall off r, kheap s !! off = Some r -> key_wf (kt s) (k_key r);
  co_val : forall off r, kheap s !! off = Some r -> is_Some (vheap s !! k_voff r);
  co_vinj : forall o1 o2 r1 r2, kheap s !! o1 = Some r1 -> kheap s !! o2 = Some r2 -> k_voff r1 = k_voff r2 -> o1 = o2;
  co_vown : forall vo v, vheap s !! vo = Some v -> exists off r, kheap s !! off = Some r /\ k_voff r = vo;
  co_vwf : forall vo v, vheap s !! vo = Some v -> val_wf v;
  co_count : count (hx s) = N.of_nat (size (kheap s)) }.

Definition links_ok (s : store) (ch : N -> list N) (b : N) : Prop :=
  chain (kheap s) (head_at (hx s) b) (ch b).

(** bucket [b] while a moved record is being re-linked: the prefix [l1] of the chain is intact
    but its last link (the bucket head if [l1 = []]) still holds [stale], the old offset of the
    record that now lives at [newoff]; [newoff :: l2] is a proper chain. *)
Definition links_broken (s : store) (b : N) (l1 : list N) (stale newoff : N) (l2 : list N) : Prop :=
  seg (kheap s) (head_at (hx s) b) l1 stale /\ chain (kheap s) newoff (newoff :: l2) /\
  kheap s !! stale = None /\ stale <> 0.

Definition sinvo (s : store) (ch : N -> list N) (orph : option N) : Prop :=
  core s ch orph /\ forall b, b < nb (hx s) -> links_ok s ch b.

Definition sinv (s : store) (ch : N -> list N) : Prop := sinvo s ch None.
Definition Inv (s : store) : Prop := exists ch, sinv s ch.

(** the entries of the map as the files hold them *)
Definition has_rec (s : store) (k : bytes) (vo : N) : Prop :=
  exists off r, kheap s !! off = Some r /\ k_key r = k /\ k_voff r = vo.

Definition represents (s : store) (m : spec) : Prop :=
  forall k v, m !! k = Some v <-> exists vo, has_rec s k vo /\ vheap s !! vo = Some v.

(** same except what a re-link may touch *)
Definition same_shape (s s' : store) : Prop :=
  kt s' = kt s /\ nb (hx s') = nb (hx s) /\ count (hx s') = count (hx s) /\ valf s' = valf s /\
  dirty s' = dirty s /\ synced s' = synced s /\ (forall k vo, has_rec s' k vo <-> has_rec s k vo).

(** ** Statements *)

(** [cmp_eq] on well-formed keys decides equality of the key bytes *)
Definition cmp_eq_wf_stmt : Prop :=
  forall t a b, key_wf t a -> key_wf t b -> cmp_eq t a b = Ok (bool_decide (a = b)).

Definition create_inv_stmt : Prop :=
  forall t n, 1 <= n -> Inv (create t n) /\ represents (create t n) ∅.

(** the result of [find]: the offset of the record holding the key and its predecessor in the
    chain (0: the bucket head) *)
Definition find_stmt : Prop :=
  forall s ch orph k, sinvo s ch orph -> key_wf (kt s) k ->
    (forall off, orph = Some off -> forall r, kheap s !! off = Some r -> k_key r <> k) ->
    (find s k = Ok None /\ forall vo, ~ has_rec s k vo) \/
    (exists off r l1 l2, find s k = Ok (Some (off, List.last l1 0)) /\
        kheap s !! off = Some r /\ k_key r = k /\ ch (home s k) = l1 ++ off :: l2).

Definition get_stmt : Prop :=
  forall s m k, Inv s -> represents s m -> key_wf (kt s) k ->
    get s k = Ok (m !! k) /\ has s k = Ok (bool_decide (is_Some (m !! k))).

Definition len_stmt : Prop :=
  forall s m, Inv s -> represents s m -> len s = N.of_nat (size m).

(** [find_prev]: the predecessor of [target] on the intact prefix *)
Definition find_prev_stmt : Prop :=
  forall s h l1 target fuel, seg (kheap s) h l1 target -> target <> 0 -> target ∉ l1 ->
    (length l1 < fuel)%nat ->
    find_prev fuel s target 0 h = Ok (List.last l1 0).

(** [relink]: repairs a broken bucket; other buckets, the value file, the set of records and
    all counters are untouched *)
Definition relink_stmt : Prop :=
  forall s ch orph b l1 stale newoff l2 fuel,
    core s ch orph ->
    (forall b', b' < nb (hx s) -> b' <> b -> links_ok s ch b') ->
    b < nb (hx s) -> ch b = l1 ++ newoff :: l2 ->
    links_broken s b l1 stale newoff l2 ->
    (length l1 < fuel)%nat ->
    exists s' ch',
      relink fuel s b (List.last l1 0) newoff = Ok s' /\
      sinvo s' ch' orph /\ same_shape s s'.

Definition put_stmt : Prop :=
  forall s m k v, Inv s -> represents s m -> key_wf (kt s) k -> val_wf v ->
    exists s', put s k v = Ok s' /\ Inv s' /\ represents s' (<[k := v]> m) /\
               kt s' = kt s /\ nb (hx s') = nb (hx s).

Definition del_stmt : Prop :=
  forall s m k, Inv s -> represents s m -> key_wf (kt s) k ->
    exists s', del s k = Ok (s', m !! k) /\ Inv s' /\ represents s' (delete k m) /\
               kt s' = kt s /\ nb (hx s') = nb (hx s).
