(** * Io_flat_upd: the calls of the UPDATING operations lie in the domain of the cache theorem, and
    so does a whole history, creation included.

    Io_flat.v: every operation of [Io] is, file by file, a run of canonical buffer calls
    ([calls_between]); [calls_ok] / [evs_ok] decide whether such a run is inside the domain of
    [Flatx.xrun].  Io_flat_ro.v discharged [calls_ok] for the read-only operations.  This file does
    it for [put], [del] (hence for [io_step] / [io_run]) and for [create].

    What makes an updating step in-domain.  After a seek, a write or a set_len the position is at
    or below the end of the file (a seek beyond the end EXTENDS the file, a write extends it to its
    own end); only a read that ends beyond the end leaves the position beyond it.  So a write or a
    set_len is inside the domain unless it directly follows such a read, and the whole question is
    how far the READS of an updating operation go - which depends on the data in the file (the
    length of a key is read from the file, then that many bytes are read).  The existing
    update-side theorems (Io_pieces.v, Io_updates.v, the writers of Io_htx.v) conclude [hold] /
    [frame] / [htx_step] / [sim]: what the files contain afterwards, nothing about the events in
    between - the information is not recoverable from their statements.

    ROUTE CHOSEN: (a), a replay.  [tight s s'] (PART 1) is [calls_between s s'] plus: every read
    of file [f] ends at most [slack f] bytes beyond the end, every write starts at or below the
    end, every set_len starts at or below the end and does not shrink.  It is reflexive and
    transitive with no side condition, the primitives satisfy it under the obvious local
    conditions, a strengthened read-only step ([Io_flat_ro.ro_step]) that is a run of calls
    satisfies it ([rot]), and it implies [in_domain] when no chunk starts within [slack f] bytes
    after any of the ends the file had during the step ([tight_in_domain]).  Then the cursors of
    the update-side proofs are REDEFINED to carry [tight]: [fstep] / [htx_step] (table file),
    [frame] / [rcur] / [wcur] / [looked] (piece files), [sim] (the three files; relative to the
    state [x0] the operation started from), and the proofs are replayed for them:
    PART 2 = the writers of Io_htx.v, PART 3 = Io_pieces.v from its section [pieces] on (the cursor
    section rewritten by hand), PART 4 = Io_updates.v.  The text of the proofs is the original one
    except at the places marked "tight:" (where a primitive is applied directly and its local
    condition has to be shown, or where a read-only lemma is imported and [calls_between] is
    added).  The semantic route (b) was not available (no existing lemma exposes the event list of
    a write-side step: [frame] and [hold] forget it), and (c) - a ghost flag - founders on the same
    data dependence: to know that [read_n FKey kl] stays inside the file one has to know what the
    file holds at that moment, which is exactly what the replayed proofs track.
    PART 5: [put_in_domain], [del_in_domain], [in_domain_trans], [io_step_in_domain],
    [io_run_in_domain]; PART 6: creation ([create_in_domain], by construction: no reads),
    [history_in_domain], [history_over_any_cache].

    This file is generated: notes/ioflat_gen (in /verif)/gen_upd.py pastes line ranges of Io_htx.v,
    Io_pieces.v and Io_updates.v between the hand-written pieces upd_head.v, upd_htx.v,
    upd_cursors.v, upd_sim.v, upd_tail.v (same directory) and applies the patches; every patch is
    asserted to apply.  If [Io_pieces.frame] / [Io_htx.fstep] / [Io_updates.sim] are strengthened in
    place one day, PARTS 2-4 can be deleted. *)
From Coq Require Import Lia ZifyN ZifyNat ZifyBool.
From Aby Require Import Base Vu64 Vu64_proofs Hash KeyTypes Consts Sizing Sizing_proofs Alloc AllocInv AllocInv_proofs
  Htx Htx_proofs Store Iter Stats Spec Refine Refine_relink Refine_ops Refine_all Layout Load Load_proofs Load_htx_proofs
  Load_all Bounded Cache Cache_proofs Open_proofs Flatx Cache_x Io Io_base Io_htx Io_pieces Io_reads Io_reads2 Io_updates
  Io_run Io_create Io_flat Io_flat_ro Io_cache.
From Aby Require Io_proofs.
Import Io.
#[local] Open Scope N_scope.

(** ** PART 1. tight steps *)

(** the local condition of a call: [sl] is how far beyond the end a read may end *)
Definition tcall_ok (sl : N) (x : Rabuf.flat) (c : call) : bool :=
  match c with
  | CSeek _ => true
  | CRead n => Rabuf.f_pos x + n <=? Rabuf.f_end x + sl
  | CWrite _ => Rabuf.f_pos x <=? Rabuf.f_end x
  | CSetLen n => (Rabuf.f_pos x <=? Rabuf.f_end x) && (Rabuf.f_end x <=? n)
  end.

Fixpoint tcalls_ok (sl : N) (x : Rabuf.flat) (l : list call) : bool :=
  match l with [] => true | c :: r => tcall_ok sl x c && tcalls_ok sl (tstep x c) r end.

Lemma tcalls_ok_app sl x a b : tcalls_ok sl x (a ++ b) = tcalls_ok sl x a && tcalls_ok sl (trun x a) b.
Proof.
  revert x. induction a as [|c a IH]; intros x; cbn [tcalls_ok trun app]; [reflexivity|].
  rewrite IH, andb_assoc. reflexivity.
Qed.

(** the predicate does say something: a write that directly follows a read beyond the end is outside *)
Example tcalls_ok_ex :
  tcalls_ok 0 (Rabuf.Flat 0 []) [CSeek 0; CWrite [1; 2]; CSeek 1; CRead 1; CWrite [3]] = true /\
  tcalls_ok 0 (Rabuf.Flat 0 []) [CSeek 0; CWrite [1; 2]; CSeek 1; CRead 2; CWrite [3]] = false /\
  tcalls_ok 7 (Rabuf.Flat 0 []) [CSeek 0; CWrite [1; 2]; CSeek 1; CRead 2; CWrite [3]] = false /\
  tcalls_ok 7 (Rabuf.Flat 0 []) [CSeek 0; CWrite [1; 2]; CSeek 1; CRead 2; CSeek 2; CWrite [3]] = true.
Proof. repeat split. Qed.

(** a tight call does not shrink the file *)
Lemma tcall_end_mono sl x c : tcall_ok sl x c = true -> Rabuf.f_end x <= Rabuf.f_end (tstep x c).
Proof.
  destruct c as [t|n|d|n]; cbn [tcall_ok tstep]; unfold Rabuf.f_end; cbn [Rabuf.f_bytes]; intros H.
  - rewrite blen_pad_to. lia.
  - lia.
  - rewrite blen_splice. lia.
  - rewrite blen_resize. apply andb_prop in H as [_ H]. apply N.leb_le in H. exact H.
Qed.

Lemma tcalls_end_mono sl l : forall x, tcalls_ok sl x l = true -> Rabuf.f_end x <= Rabuf.f_end (trun x l).
Proof.
  induction l as [|c l IH]; intros x H; cbn [tcalls_ok trun] in *; [lia|].
  apply andb_prop in H as [H1 H2]. pose proof (tcall_end_mono sl x c H1). pose proof (IH _ H2). lia.
Qed.

(** tight calls are inside the domain when no chunk starts within [sl] bytes after any of the ends
    the file has during the run *)
Lemma tcalls_calls_ok sl cs l : forall x, tcalls_ok sl x l = true ->
  (forall e, Rabuf.f_end x <= e <= Rabuf.f_end (trun x l) -> chunk_free_at cs e sl) ->
  calls_ok cs x l = true.
Proof.
  induction l as [|c l IH]; intros x H Hcf; cbn [tcalls_ok calls_ok trun] in *; [reflexivity|].
  apply andb_prop in H as [H1 H2].
  pose proof (tcall_end_mono sl x c H1) as M1. pose proof (tcalls_end_mono sl l _ H2) as M2.
  apply andb_true_intro. split.
  - destruct c as [t|n|d|n]; cbn [tcall_ok call_ok] in *; try exact H1; try reflexivity.
    unfold xread_ok. apply N.leb_le. apply N.leb_le in H1.
    apply (chunk_free_at_le cs _ sl); [apply Hcf; lia|lia].
  - apply IH; [exact H2|]. intros e He. apply Hcf. lia.
Qed.

(** [calls_between] with the local conditions: [sl f] is the slack of file [f] *)
Definition tightx (sl : fid -> N) (s s' : st) : Prop :=
  exists cf : fid -> list call,
    (forall f, trun (flat_of (get_file s f)) (cf f) = flat_of (get_file s' f) /\
               fcs (get_file s' f) = fcs (get_file s f)) /\
    (exists evs, s_log s' = rev evs ++ s_log s /\
       forall f, evs_on f evs = tevs f (flat_of (get_file s f)) (cf f)) /\
    forall f, tcalls_ok (sl f) (flat_of (get_file s f)) (cf f) = true.

(** the updating operations: reads of the table file may end 7 bytes beyond its end *)
Definition tight : st -> st -> Prop := tightx slack.

Lemma tightx_cb sl s s' : tightx sl s s' -> calls_between s s'.
Proof. intros (cf & H & E & _). exists cf. split; assumption. Qed.

Lemma tightx_refl sl s : tightx sl s s.
Proof.
  exists (fun _ => []). split; [intros f; split; reflexivity|]. split; [exists []; split; reflexivity|].
  intros f. reflexivity.
Qed.

Lemma tightx_trans sl s1 s2 s3 : tightx sl s1 s2 -> tightx sl s2 s3 -> tightx sl s1 s3.
Proof.
  intros (c1 & H1 & (e1 & A1 & F1) & K1) (c2 & H2 & (e2 & A2 & F2) & K2).
  exists (fun f => c1 f ++ c2 f). split; [|split].
  - intros f. destruct (H1 f) as [a b], (H2 f) as [c d]. rewrite trun_app, a. split; [exact c|congruence].
  - exists (e1 ++ e2). split.
    + rewrite A2, A1, rev_app_distr, app_assoc. reflexivity.
    + intros f. rewrite evs_on_app, tevs_app, F1, F2. destruct (H1 f) as [a _]. rewrite a. reflexivity.
  - intros f. rewrite tcalls_ok_app, K1. destruct (H1 f) as [a _]. rewrite a. apply K2.
Qed.

(** one call on file [f] *)
Lemma tightx_one sl f c s s' :
  flat_of (get_file s' f) = tstep (flat_of (get_file s f)) c ->
  fcs (get_file s' f) = fcs (get_file s f) ->
  (forall g, g <> f -> get_file s' g = get_file s g) ->
  s_log s' = call_ev f (flat_of (get_file s f)) c :: s_log s ->
  tcall_ok (sl f) (flat_of (get_file s f)) c = true ->
  tightx sl s s'.
Proof.
  intros Hf Hc Ho Hl Hk.
  exists (fun g => if fid_eq_dec g f then [c] else []). split; [|split].
  - intros g. destruct (fid_eq_dec g f) as [->|Hg]; cbn [trun].
    + split; [symmetry; exact Hf|exact Hc].
    + rewrite (Ho g Hg). split; reflexivity.
  - exists [call_ev f (flat_of (get_file s f)) c]. split; [exact Hl|].
    intros g. unfold evs_on. cbn [List.filter].
    replace (ev_file (call_ev f (flat_of (get_file s f)) c)) with f by (destruct c; reflexivity).
    destruct (fid_eq_dec g f) as [->|Hg].
    + rewrite fid_eqb_refl. reflexivity.
    + rewrite fid_eqb_neq by congruence. reflexivity.
  - intros g. destruct (fid_eq_dec g f) as [->|Hg]; cbn [tcalls_ok]; [rewrite Hk; reflexivity|reflexivity].
Qed.

(** *** the primitives *)
Lemma tightx_seek sl f t s : tightx sl s (seek_to f t s).
Proof.
  apply (tightx_one sl f (CSeek t)); unfold seek_to.
  - rewrite get_emit, get_set_same. reflexivity.
  - rewrite get_emit, get_set_same. reflexivity.
  - intros g Hg. rewrite get_emit, get_set_other by congruence. reflexivity.
  - rewrite log_emit, log_set_file. reflexivity.
  - reflexivity.
Qed.

Lemma tightx_write sl f d s : fp (get_file s f) <= fend (get_file s f) -> tightx sl s (write_n f d s).
Proof.
  intros Hp. apply (tightx_one sl f (CWrite d)); unfold write_n.
  - rewrite get_emit, get_set_same. reflexivity.
  - rewrite get_emit, get_set_same. reflexivity.
  - intros g Hg. rewrite get_emit, get_set_other by congruence. reflexivity.
  - rewrite log_emit, log_set_file. reflexivity.
  - cbn [tcall_ok]. apply N.leb_le. exact Hp.
Qed.

Lemma tightx_set_len sl f n s : fp (get_file s f) <= fend (get_file s f) -> fend (get_file s f) <= n ->
  tightx sl s (Io.set_len f n s).
Proof.
  intros Hp Hn. apply (tightx_one sl f (CSetLen n)); unfold Io.set_len.
  - rewrite get_emit, get_set_same. reflexivity.
  - rewrite get_emit, get_set_same. reflexivity.
  - intros g Hg. rewrite get_emit, get_set_other by congruence. reflexivity.
  - rewrite log_emit, log_set_file. reflexivity.
  - cbn [tcall_ok]. apply andb_true_intro. split; apply N.leb_le; assumption.
Qed.

Lemma tightx_read_n sl f n s r s' : read_n f n s = Ok (r, s') ->
  fp (get_file s f) + n <= fend (get_file s f) + sl f -> tightx sl s s'.
Proof.
  unfold read_n. intros [= _ <-] Hp. apply (tightx_one sl f (CRead n)).
  - rewrite get_emit, get_set_same. reflexivity.
  - rewrite get_emit, get_set_same. reflexivity.
  - intros g Hg. rewrite get_emit, get_set_other by congruence. reflexivity.
  - rewrite log_emit, log_set_file. reflexivity.
  - cbn [tcall_ok]. apply N.leb_le. exact Hp.
Qed.

Lemma tightx_read_le sl f n s r s' : read_le f n s = Ok (r, s') ->
  fp (get_file s f) + n <= fend (get_file s f) + sl f -> tightx sl s s'.
Proof.
  unfold read_le. intros H Hp. apply rbind_ok in H as ([b s1] & E & H). injection H as _ <-.
  exact (tightx_read_n sl f n s b s1 E Hp).
Qed.

(** [write_all]: every piece is written at or below the end *)
Lemma tightx_write_all sl fuel : forall f (d : bytes) s s', write_all fuel f d s = Ok s' ->
  fp (get_file s f) <= fend (get_file s f) ->
  tightx sl s s' /\
  fp (get_file s' f) = fp (get_file s f) + blen d /\
  fend (get_file s' f) = N.max (fend (get_file s f)) (fp (get_file s f) + blen d) /\
  (forall g, g <> f -> get_file s' g = get_file s g).
Proof.
  induction fuel as [|fu IH]; intros f d s s' H Hp; destruct d as [|b d']; cbn [write_all] in H.
  - injection H as <-. split; [apply tightx_refl|]. rewrite blen_nil, N.add_0_r. split; [reflexivity|]. split; [lia|auto].
  - discriminate.
  - injection H as <-. split; [apply tightx_refl|]. rewrite blen_nil, N.add_0_r. split; [reflexivity|]. split; [lia|auto].
  - set (d := b :: d') in *.
    set (k := N.to_nat (N.min (blen d) (to_boundary (fcs (get_file s f)) (fp (get_file s f))))) in *.
    destruct (write_n_spec f (take k d) s) as [[Hw Ho] _].
    set (s1 := write_n f (take k d) s) in *.
    assert (Hp1 : fp (get_file s1 f) <= fend (get_file s1 f)).
    { rewrite Hw. unfold fend. cbn [fb fp]. rewrite blen_splice. lia. }
    destruct (IH f (drop k d) s1 s' H Hp1) as (T & P & E & O).
    split; [eapply tightx_trans; [apply tightx_write; exact Hp|exact T]|].
    assert (Hb : blen (take k d) + blen (drop k d) = blen d) by (rewrite <- blen_app, take_drop; reflexivity).
    rewrite Hw in P, E. unfold fend in E. cbn [fb fp] in P, E. rewrite blen_splice in E. unfold fend.
    split; [lia|]. split; [lia|]. intros g Hg. rewrite O, Ho by exact Hg. reflexivity.
Qed.

Lemma tightx_write_all_bytes sl f (d : bytes) s s' : write_all_bytes f d s = Ok s' ->
  fp (get_file s f) <= fend (get_file s f) ->
  tightx sl s s' /\
  fp (get_file s' f) = fp (get_file s f) + blen d /\
  fend (get_file s' f) = N.max (fend (get_file s f)) (fp (get_file s f) + blen d) /\
  (forall g, g <> f -> get_file s' g = get_file s g).
Proof. apply tightx_write_all. Qed.

Lemma tight_refl s : tight s s.
Proof. apply tightx_refl. Qed.
Lemma tight_trans s1 s2 s3 : tight s1 s2 -> tight s2 s3 -> tight s1 s3.
Proof. apply tightx_trans. Qed.
Lemma tight_seek f t s : tight s (seek_to f t s).
Proof. apply tightx_seek. Qed.
Lemma tight_write f d s : fp (get_file s f) <= fend (get_file s f) -> tight s (write_n f d s).
Proof. apply tightx_write. Qed.
Lemma tight_cb s s' : tight s s' -> calls_between s s'.
Proof. apply tightx_cb. Qed.

(** *** a strengthened read-only step that is a run of calls is tight *)
Definition rot (s s' : st) : Prop := ro_step s s' /\ calls_between s s'.

Lemma rot_refl s : rot s s.
Proof. split; [apply ro_step_refl|apply cb_refl]. Qed.
Lemma rot_trans s1 s2 s3 : rot s1 s2 -> rot s2 s3 -> rot s1 s3.
Proof. intros [A B] [C D]. split; [eapply ro_step_trans; eassumption|eapply cb_trans; eassumption]. Qed.
Lemma rot_seek f t s : t <= fend (get_file s f) -> rot s (seek_to f t s).
Proof. intros H. split; [apply ro_step_seek; exact H|apply seek_to_calls]. Qed.
Lemma rot_ro s s' : rot s s' -> ro_step s s'.
Proof. intros [H _]. exact H. Qed.

(** the calls of file [f] whose events are all quiet (Io_flat_ro.v) satisfy the local conditions *)
Lemma quiet_tcalls_ok (s : st) f : forall l x, Rabuf.f_end x = fend (get_file s f) ->
  Forall (ev_quiet s) (tevs f x l) -> tcalls_ok (slack f) x l = true.
Proof.
  induction l as [|c l IH]; intros x He Hq; [reflexivity|].
  cbn [tevs] in Hq. apply Forall_cons in Hq as [Hc Hq]. cbn [tcalls_ok].
  destruct c as [t|n|d|n]; cbn [call_ev ev_quiet] in Hc; try contradiction.
  - cbn [tcall_ok andb]. apply IH; [|exact Hq]. cbn [tstep]. unfold Rabuf.f_end in *. cbn [Rabuf.f_bytes].
    rewrite pad_to_le by lia. exact He.
  - cbn [tcall_ok]. rewrite (IH (tstep x (CRead n)) He Hq), andb_true_r. apply N.leb_le. rewrite He. exact Hc.
Qed.

Lemma rot_tight s s' : rot s s' -> tight s s'.
Proof.
  intros [[_ (evs' & A' & Q)] Hcb].
  destruct (calls_between_evs s s' Hcb) as (cf & evs & A & T & F & _).
  assert (evs' = rev evs) as -> by (unfold appended in A'; rewrite A in A'; apply app_inv_tail in A'; congruence).
  exists cf. split; [exact T|]. split; [exists evs; split; [exact A|exact F]|].
  intros f. apply (quiet_tcalls_ok s f (cf f) (flat_of (get_file s f)) eq_refl).
  rewrite <- F. unfold evs_on. apply Forall_filter_list.
  apply List.Forall_rev in Q. rewrite rev_involutive in Q. exact Q.
Qed.

(** a read-only lemma of Io_flat_ro.v ("returns [r], strengthened [ro_step]") for a function that is
    a run of calls *)
Lemma rot_ex {A} (g : st -> res (A * st)) (Hg : forall s r s', g s = Ok (r, s') -> calls_between s s') x r :
  (exists x', g x = Ok (r, x') /\ ro_step x x') -> exists x', g x = Ok (r, x') /\ rot x x'.
Proof. intros (x' & E & R). exists x'. split; [exact E|]. split; [exact R|exact (Hg _ _ _ E)]. Qed.

(** *** tight steps are inside the domain *)

(** [in_domain] from its first four components *)
Lemma in_domain_intro s s' (cf : fid -> list call) evs :
  s_log s' = rev evs ++ s_log s ->
  (forall f, trun (flat_of (get_file s f)) (cf f) = flat_of (get_file s' f) /\
             fcs (get_file s' f) = fcs (get_file s f)) ->
  (forall f, evs_on f evs = tevs f (flat_of (get_file s f)) (cf f)) ->
  (forall f, calls_ok (fcs (get_file s f)) (flat_of (get_file s f)) (cf f) = true) ->
  in_domain s s'.
Proof.
  intros A T F Hok. exists cf, evs. split; [exact A|]. split; [exact T|]. split; [exact F|]. split; [exact Hok|].
  split.
  - intros f. rewrite <- evs_ok_on, F. rewrite (evs_ok_calls _ f (flat_of (get_file s f))). apply Hok.
  - intros f. destruct (calls_ok_xrun _ _ _ (Hok f)) as (outs & R & ->). rewrite R. destruct (T f) as [-> _]. reflexivity.
Qed.

Theorem tightx_in_domain sl s s' : tightx sl s s' ->
  (forall f e, fend (get_file s f) <= e <= fend (get_file s' f) -> chunk_free_at (fcs (get_file s f)) e (sl f)) ->
  in_domain s s'.
Proof.
  intros (cf & T & (evs & A & F) & K) Hcf. apply (in_domain_intro s s' cf evs A T F).
  intros f. apply (tcalls_calls_ok (sl f)); [apply K|].
  intros e He. apply Hcf. destruct (T f) as [E _]. rewrite E in He. exact He.
Qed.

(** in-domain steps compose (no side condition: the chunk sizes are kept) *)
Theorem in_domain_trans s1 s2 s3 : in_domain s1 s2 -> in_domain s2 s3 -> in_domain s1 s3.
Proof.
  intros (c1 & e1 & A1 & T1 & F1 & K1 & _) (c2 & e2 & A2 & T2 & F2 & K2 & _).
  apply (in_domain_intro s1 s3 (fun f => c1 f ++ c2 f) (e1 ++ e2)).
  - rewrite A2, A1, rev_app_distr, app_assoc. reflexivity.
  - intros f. destruct (T1 f) as [a b], (T2 f) as [c d]. rewrite trun_app, a. split; [exact c|congruence].
  - intros f. rewrite evs_on_app, tevs_app, F1, F2. destruct (T1 f) as [a _]. rewrite a. reflexivity.
  - intros f. rewrite calls_ok_app, K1. destruct (T1 f) as [a b]. rewrite a, <- b. apply K2.
Qed.

Lemma in_domain_refl s : in_domain s s.
Proof.
  apply (in_domain_intro s s (fun _ => []) []); [reflexivity|intros f; split; reflexivity|reflexivity|reflexivity].
Qed.

(** a tight step of a map of the crate: the table file stays within one byte of the end [create]
    gave it, and its chunks are a power of two of at least 128 bytes *)
Theorem tight_in_domain n s s' : tight s s' ->
  pow2 n -> pow2 (fcs (get_file s FHtx)) -> 128 <= fcs (get_file s FHtx) ->
  table_end n <= fend (get_file s FHtx) -> fend (get_file s' FHtx) <= table_end n + 1 ->
  in_domain s s'.
Proof.
  intros T Hn Hp Hc H1 H2. apply (tightx_in_domain slack s s' T).
  intros f e He. destruct f; cbn [slack]; try apply chunk_free_at_0.
  apply (table_end_chunk_free n _ _ Hn Hp Hc). lia.
Qed.

(** ** PART 2. the writers of the table file (Io_htx.v, from [fstep] on), replayed for tight steps *)

(** a step on one file: its bytes and position afterwards, the other files untouched, all
    appended events on that file; tight: and the step is tight *)
Definition fstep (f : fid) (s s' : st) (b' : bytes) (p' : N) : Prop :=
  (upd_file s s' f b' p' /\ exists evs, appended s s' evs /\ Forall (fun e => ev_file e = f) evs) /\ tight s s'.

Lemma fstep_trans f s1 s2 s3 b2 p2 b3 p3 : fstep f s1 s2 b2 p2 -> fstep f s2 s3 b3 p3 -> fstep f s1 s3 b3 p3.
Proof.
  intros [[U1 (e1 & A1 & F1)] T1] [[U2 (e2 & A2 & F2)] T2]. split; [|eapply tight_trans; eassumption].
  split; [eapply upd_file_trans; eassumption|].
  exists (e2 ++ e1). split; [eapply appended_trans; eassumption|]. apply Forall_app. split; assumption.
Qed.

Lemma fstep_seek f t s : fstep f s (seek_to f t s) (pad_to (fb (get_file s f)) t) t.
Proof.
  destruct (seek_to_spec f t s) as [U A]. split; [|apply tight_seek]. split; [exact U|]. exists [EvSeek f t]. split; [exact A|].
  constructor; [reflexivity|constructor].
Qed.

Lemma fstep_seek_inside f t s : t <= fend (get_file s f) -> fstep f s (seek_to f t s) (fb (get_file s f)) t.
Proof. intros H. pose proof (fstep_seek f t s) as F. rewrite pad_to_le in F by exact H. exact F. Qed.

(** tight: a write at or below the end *)
Lemma fstep_write f d s : fp (get_file s f) <= fend (get_file s f) ->
  fstep f s (write_n f d s) (splice (fb (get_file s f)) (fp (get_file s f)) d) (fp (get_file s f) + blen d).
Proof.
  intros Hp. destruct (write_n_spec f d s) as [U A]. split; [|apply tight_write; exact Hp]. split; [exact U|].
  eexists. split; [exact A|]. constructor; [reflexivity|constructor].
Qed.

(** tight: a read ending at most [slack f] bytes beyond the end *)
Lemma fstep_read_le f n s : fp (get_file s f) + n <= fend (get_file s f) + slack f ->
  exists s', read_le f n s = Ok (le_decode (map (fun k => getb (fb (get_file s f)) (fp (get_file s f) + k)) (seqN' 0 (N.to_nat n))), s') /\
    fstep f s s' (fb (get_file s f)) (fp (get_file s f) + n).
Proof.
  intros Hp. destruct (read_le_spec f n s) as (s' & Hr & U & A). exists s'. split; [exact Hr|].
  split; [|exact (tightx_read_le slack f n s _ s' Hr Hp)]. split; [exact U|].
  eexists. split; [exact A|]. constructor; [reflexivity|constructor].
Qed.

Lemma fstep_file f s s' b p : fstep f s s' b p -> get_file s' f = File b p (fcs (get_file s f)).
Proof. intros [[[H _] _] _]. exact H. Qed.

(** a step that touched the table file only ([Io_htx.htx_step]); tight: and is tight *)
Definition htx_step (s s' : st) (b' : bytes) : Prop := Io_htx.htx_step s s' b' /\ tight s s'.

Lemma htx_step_of_fstep s s' b p : fstep FHtx s s' b p -> htx_step s s' b.
Proof.
  intros [[[Hf Ho] (evs & A & F)] T]. split; [|exact T]. split; [rewrite Hf; reflexivity|]. split; [rewrite Hf; reflexivity|].
  split; [exact Ho|]. exists evs. split; [exact A|exact F].
Qed.

Lemma htx_step_trans s1 s2 s3 b2 b3 : htx_step s1 s2 b2 -> htx_step s2 s3 b3 -> htx_step s1 s3 b3.
Proof.
  intros [(B1 & C1 & O1 & e1 & A1 & F1) T1] [(B2 & C2 & O2 & e2 & A2 & F2) T2]. split; [|eapply tight_trans; eassumption].
  split; [exact B2|]. split; [congruence|]. split.
  - intros g Hg. rewrite O2, O1 by exact Hg. reflexivity.
  - exists (e2 ++ e1). split; [eapply appended_trans; eassumption|]. apply Forall_app. split; assumption.
Qed.

Section writers.
Context (sig2 : bytes) (h : htx).
Hypothesis Hsig : length sig2 = 8%nat.
Hypothesis Hwf : htx_wf h.
Hypothesis Hheads : forall i, head_at h i < 2 ^ 64.
Hypothesis Hnb : nb h < 2 ^ 64.
Hypothesis Hcnt : count h < 2 ^ 64.

Let img := render_htx sig2 h.
Let Hfend := holds_fend sig2 h Hsig Hwf Hnb Hcnt.


(** [write_item_count] *)
Theorem write_item_count_render s v : holds sig2 h s -> v < 2 ^ 64 ->
  exists s', write_item_count v s = Ok s' /\
    htx_step s s' (render_htx sig2 (Htx (nb h) (buckets h) (bitmap h) v (hend h))).
Proof.
  intros Hh Hv. unfold write_item_count, seek_from_start, write_u64. cbn [rbind].
  eexists. split; [reflexivity|].
  assert (Hend : htx_count_offset + 8 <= hend h).
  { pose proof Hwf as (_ & H & _). assert (htx_count_offset + 8 <= htx_header_size) by (apply N.leb_le; reflexivity). lia. }
  assert (Hin : htx_count_offset <= fend (get_file s FHtx)) by (rewrite (Hfend s Hh); lia).
  destruct (seek_to_inside FHtx htx_count_offset s Hin) as [Hf Ho].
  destruct (seek_to_spec FHtx htx_count_offset s) as [_ Ha].
  set (s1 := seek_to FHtx htx_count_offset s) in *.
  destruct (write_n_spec FHtx (le_bytes 8 v) s1) as [[Hw Ho2] Ha2].
  rewrite Hf in Hw, Ha2. cbn [fb fp fcs] in Hw, Ha2.
  split; [split; [|split; [|split]]|].
  - rewrite Hw. cbn [fb get_file]. unfold holds in Hh. rewrite Hh.
    unfold render_htx. cbn [nb count buckets bitmap hend head_at].
    set (pre := htx_signature ++ sig2 ++ le_bytes 8 (nb h)).
    set (post := zeros (htx_header_size - 32) ++
       concat (map (fun i => le_bytes 8 (head_at h i)) (seqN' 0 (N.to_nat (nb h)))) ++
       map (bitmap_byte h) (seqN' 0 (N.to_nat (hend h - (htx_header_size + 8 * nb h))))).
    assert (Hpre : blen pre = htx_count_offset).
    { unfold pre, blen. rewrite !app_length, le_bytes_length, Hsig. reflexivity. }
    replace (htx_signature ++ sig2 ++ le_bytes 8 (nb h) ++ le_bytes 8 (count h) ++ post)
      with (pre ++ le_bytes 8 (count h) ++ post) by (unfold pre; rewrite <- !app_assoc; reflexivity).
    transitivity (pre ++ le_bytes 8 v ++ post).
    + unfold splice. rewrite <- Hpre. rewrite pad_to_le by (rewrite blen_app; lia).
      unfold blen at 1. rewrite Nat2N.id, take_app. f_equal. f_equal.
      rewrite blen_le_bytes. replace (blen pre + N.of_nat 8) with (blen (pre ++ le_bytes 8 (count h))) by (rewrite blen_app, blen_le_bytes; reflexivity).
      rewrite app_assoc. unfold blen. rewrite Nat2N.id. apply drop_app.
    + unfold pre, post. rewrite <- !app_assoc. reflexivity.
  - rewrite Hw. reflexivity.
  - intros g Hg. rewrite Ho2, Ho by exact Hg. reflexivity.
  - exists ([EvWrite FHtx htx_count_offset (blen (le_bytes 8 v))] ++ [EvSeek FHtx htx_count_offset]).
    split; [eapply appended_trans; eassumption|]. repeat constructor.
  - (* tight: a seek, then a write at the position of the seek *)
    apply (tight_trans _ s1); [apply tight_seek|]. apply tight_write. rewrite Hf. exact Hin.
Qed.


(** [write_key_piece_offset]: the bitmap byte is read, changed and written back, then the bucket
    head is written; the file is then the image of [write_head h i off] (one byte longer when
    the bitmap byte lay at the end of the file) *)
Theorem write_key_piece_offset_render s i off : holds sig2 h s -> i < nb h -> off < 2 ^ 64 ->
  exists s', write_key_piece_offset (nb h) i off s = Ok s' /\
    htx_step s s' (render_htx sig2 (write_head h i off)).
Proof.
  intros Hh Hi Hoff. unfold write_key_piece_offset.
  assert (Hbm : htx_bitmap = true) by reflexivity. rewrite Hbm.
  unfold seek_from_start, write_u64. cbn [rbind].
  pose proof (hend_ge h Hwf) as Hend.
  set (base := htx_header_size + 8 * nb h) in *.
  set (p := htx_header_size + nb h * 8 + i / 8).
  set (q := htx_header_size + 8 * i).
  assert (Hd : i / 8 <= nb h / 8) by (apply N.div_le_mono; lia).
  assert (Hp : p = base + i / 8) by (unfold p, base; lia).
  unfold holds in Hh. cbn [get_file] in Hh.
  assert (Himg : blen img = hend h) by (apply img_blen; assumption).
  (* 1. seek to the bitmap byte *)
  assert (F1 : fstep FHtx s (seek_to FHtx p s) img p).
  { pose proof (fstep_seek_inside FHtx p s) as F. cbn [get_file] in F. unfold fend in F. rewrite Hh in F.
    apply F. fold img. lia. }
  set (s1 := seek_to FHtx p s) in *.
  (* 2. read it *)
  assert (HRD : fp (get_file s1 FHtx) + 1 <= fend (get_file s1 FHtx) + slack FHtx).
  { (* tight: with fewer than 8 buckets the bitmap byte read lies at the end of the file *)
    rewrite (fstep_file _ _ _ _ _ F1). unfold fend. cbn [fb fp slack]. lia. }
  destruct (fstep_read_le FHtx 1 s1 HRD) as (s2 & Hr & F2).
  rewrite (fstep_file _ _ _ _ _ F1) in Hr, F2. cbn [fb fp] in Hr, F2.
  change (N.to_nat 1) with 1%nat in Hr. cbn [seqN' map seq le_decode] in Hr.
  replace (getb img (p + (0 + N.of_nat 0)) + 256 * 0) with (bitmap_byte h (i / 8)) in Hr.
  2:{ replace (p + (0 + N.of_nat 0)) with (base + i / 8) by lia. unfold img, base.
      rewrite getb_img_bm by assumption. lia. }
  rewrite Hr. cbn [rbind].
  (* 3. seek back, write the byte *)
  pose proof (fstep_trans _ _ _ _ _ _ _ _ F1 F2) as F12.
  assert (F3 : fstep FHtx s2 (seek_to FHtx p s2) img p).
  { pose proof (fstep_seek_inside FHtx p s2) as F. rewrite (fstep_file _ _ _ _ _ F12) in F. unfold fend in F. cbn [fb] in F.
    apply F. lia. }
  set (s3 := seek_to FHtx p s2) in *.
  set (b' := set_bit (bitmap_byte h (i / 8)) (i mod 8) (negb (off =? 0))).
  assert (HW3 : fp (get_file s3 FHtx) <= fend (get_file s3 FHtx)).
  { (* tight: the write follows a seek *) rewrite (fstep_file _ _ _ _ _ F3). unfold fend. cbn [fb fp]. lia. }
  pose proof (fstep_write FHtx [b'] s3 HW3) as F4.
  pose proof (fstep_trans _ _ _ _ _ _ _ _ F12 F3) as F13.
  rewrite (fstep_file _ _ _ _ _ F13) in F4. cbn [fb fp] in F4.
  set (s4 := write_n FHtx [b'] s3) in *.
  pose proof (fstep_trans _ _ _ _ _ _ _ _ F13 F4) as F14.
  (* 4. seek to the bucket head, write it *)
  set (img1 := splice img p [b']) in *.
  assert (Hb1 : blen img1 = N.max (hend h) (p + 1)).
  { unfold img1. rewrite blen_splice, Himg. reflexivity. }
  assert (F5 : fstep FHtx s4 (seek_to FHtx q s4) img1 q).
  { pose proof (fstep_seek_inside FHtx q s4) as F. rewrite (fstep_file _ _ _ _ _ F14) in F. unfold fend in F. cbn [fb] in F.
    apply F. unfold q. lia. }
  set (s5 := seek_to FHtx q s4) in *.
  pose proof (fstep_trans _ _ _ _ _ _ _ _ F14 F5) as F15.
  assert (HW5 : fp (get_file s5 FHtx) <= fend (get_file s5 FHtx)).
  { (* tight: the write follows a seek *) rewrite (fstep_file _ _ _ _ _ F5). unfold fend. cbn [fb fp]. unfold q. lia. }
  pose proof (fstep_write FHtx (le_bytes 8 off) s5 HW5) as F6.
  rewrite (fstep_file _ _ _ _ _ F15) in F6. cbn [fb fp] in F6.
  pose proof (fstep_trans _ _ _ _ _ _ _ _ F15 F6) as F16.
  eexists. split; [reflexivity|].
  (* the bytes *)
  set (h' := write_head h i off).
  assert (Hwf' : htx_wf h') by (apply htx_wf_write_head; assumption).
  assert (Hheads' : forall j, head_at h' j < 2 ^ 64).
  { intros j. unfold h'. rewrite write_head_head_at. destruct (j =? i); [exact Hoff|apply Hheads]. }
  assert (Himg' : blen (render_htx sig2 h') = N.max (hend h) (p + 1)).
  { rewrite img_blen by assumption. unfold h', write_head. cbn [hend nb]. fold p. reflexivity. }
  replace (render_htx sig2 h') with (splice img1 q (le_bytes 8 off)); [apply htx_step_of_fstep in F16; exact F16|].
  apply bytes_ext.
  - rewrite blen_splice, Hb1, Himg', blen_le_bytes. unfold q. change (N.of_nat 8) with 8. lia.
  - intros x Hx. rewrite blen_splice, Hb1, blen_le_bytes in Hx. change (N.of_nat 8) with 8 in Hx.
    rewrite getb_splice, blen_le_bytes. change (N.of_nat 8) with 8. unfold img1. rewrite getb_splice. change (blen [b']) with 1.
    destruct (N.lt_ge_cases x htx_header_size) as [Hx1|Hx1].
    + (* header *)
      destruct (N.ltb_spec x q); [|unfold q in *; lia]. destruct (N.ltb_spec x p); [|unfold p in *; lia].
      unfold img. rewrite !getb_img_hdr by assumption. reflexivity.
    + destruct (N.lt_ge_cases x base) as [Hx2|Hx2].
      * (* bucket heads *)
        destruct (N.ltb_spec x p); [|unfold p, base in *; lia].
        set (jx := (x - htx_header_size) / 8). set (r := (x - htx_header_size) mod 8).
        assert (Hxd : x = htx_header_size + 8 * jx + r) by (pose proof (N.div_mod (x - htx_header_size) 8); unfold jx, r; lia).
        assert (Hr8 : r < 8) by (apply N.mod_lt; lia).
        assert (Hjx : jx < nb h) by (unfold base in Hx2; lia).
        assert (Hnew : getb (render_htx sig2 h') x = getb (le_bytes 8 (head_at h' jx)) r).
        { transitivity (getb (render_htx sig2 h') (htx_header_size + 8 * jx + r)); [f_equal; exact Hxd|].
          apply getb_img_head; assumption. }
        assert (Hold : getb img x = getb (le_bytes 8 (head_at h jx)) r).
        { transitivity (getb img (htx_header_size + 8 * jx + r)); [f_equal; exact Hxd|].
          apply getb_img_head; assumption. }
        rewrite Hnew. unfold h' at 1. rewrite write_head_head_at.
        destruct (N.eqb_spec jx i) as [Heq|Hneq].
        -- destruct (N.ltb_spec x q); [unfold q in *; lia|]. destruct (N.ltb_spec x (q + 8)); [|unfold q in *; lia].
           f_equal. unfold q. lia.
        -- assert (x < q \/ q + 8 <= x) as Hout by (unfold q; lia).
           destruct (N.ltb_spec x q); [|destruct (N.ltb_spec x (q + 8)); [lia|]]; exact Hold.
      * (* bitmap *)
        destruct (N.ltb_spec x q); [unfold q, base in *; lia|]. destruct (N.ltb_spec x (q + 8)); [unfold q, base in *; lia|].
        assert (Hnew : getb (render_htx sig2 h') x = bitmap_byte h' (x - base)).
        { apply (getb_img_bm' sig2 h'); try assumption. }
        assert (Hold : getb img x = bitmap_byte h (x - base)).
        { apply (getb_img_bm' sig2 h); try assumption. }
        rewrite Hnew. unfold h'. rewrite bitmap_byte_write_head.
        destruct (N.eqb_spec (x - base) (i / 8)) as [Heq|Hneq].
        -- destruct (N.ltb_spec x p); [lia|]. destruct (N.ltb_spec x (p + 1)); [|lia].
           replace (x - p) with 0 by lia. rewrite Heq. reflexivity.
        -- destruct (N.ltb_spec x p); [|destruct (N.ltb_spec x (p + 1)); [lia|]]; exact Hold.
Qed.

(** [read_item_count] once more, with the frame facts a writer needs *)
Lemma read_item_count_fstep s : holds sig2 h s ->
  exists s', read_item_count s = Ok (count h, s') /\ fstep FHtx s s' img (htx_count_offset + 8).
Proof.
  intros Hh. unfold read_item_count, seek_from_start. cbn [rbind].
  assert (Hend : htx_count_offset + 8 <= hend h).
  { pose proof Hwf as (_ & H & _). assert (htx_count_offset + 8 <= htx_header_size) by (apply N.leb_le; reflexivity). lia. }
  assert (Hin : htx_count_offset <= fend (get_file s FHtx)) by (rewrite (Hfend s Hh); lia).
  pose proof (fstep_seek_inside FHtx _ s Hin) as F1. unfold holds in Hh. cbn [get_file] in Hh, F1. rewrite Hh in F1.
  set (s1 := seek_to FHtx htx_count_offset s) in *.
  assert (Hv : view s1 FHtx = le_bytes 8 (count h) ++ (zeros (htx_header_size - 32) ++
            concat (map (fun i => le_bytes 8 (head_at h i)) (seqN' 0 (N.to_nat (nb h)))) ++
            map (bitmap_byte h) (seqN' 0 (N.to_nat (hend h - (htx_header_size + 8 * nb h)))))).
  { unfold view. rewrite (fstep_file _ _ _ _ _ F1). cbn [fb fp].
    unfold render_htx. rewrite (app_assoc sig2), (app_assoc htx_signature).
    apply at_off_app'. unfold blen. rewrite !app_length, le_bytes_length, Hsig. reflexivity. }
  destruct (read_u64_view FHtx s1 _ _ Hcnt Hv) as (s2 & Hr & Hf & Ho & _ & Ha).
  exists s2. split; [exact Hr|]. eapply fstep_trans; [exact F1|].
  assert (HT : tight s1 s2).
  { (* tight: the count field lies inside the header *)
    apply (tightx_read_le slack FHtx 8 s1 _ s2 Hr).
    assert (Himg : blen (render_htx sig2 h) = hend h) by (apply img_blen; assumption).
    rewrite (fstep_file _ _ _ _ _ F1). unfold fend. cbn [fb fp slack]. lia. }
  rewrite (fstep_file _ _ _ _ _ F1) in Hf. cbn [fb fp fcs] in Hf.
  split; [|exact HT].
  split; [split; [rewrite Hf, (fstep_file _ _ _ _ _ F1); reflexivity|exact Ho]|].
  eexists. split; [exact Ha|]. constructor; [reflexivity|constructor].
Qed.

End writers.

(** [write_item_count_up] / [write_item_count_down] give the images of [count_up] / [count_down] *)
Theorem write_item_count_up_render sig2 h s :
  length sig2 = 8%nat -> htx_wf h -> (forall i, head_at h i < 2 ^ 64) -> nb h < 2 ^ 64 -> count h + 1 < 2 ^ 64 ->
  holds sig2 h s ->
  exists s', write_item_count_up s = Ok s' /\ htx_step s s' (render_htx sig2 (count_up h)).
Proof.
  intros Hsig Hwf Hheads Hnb Hcnt Hh. assert (Hc : count h < 2 ^ 64) by lia.
  unfold write_item_count_up.
  destruct (read_item_count_fstep sig2 h Hsig Hwf Hnb Hc s Hh) as (s1 & Hr & F1). rewrite Hr. cbn [rbind].
  assert (Hh1 : holds sig2 h s1) by (unfold holds; pose proof (fstep_file _ _ _ _ _ F1) as E; cbn [get_file] in E; rewrite E; reflexivity).
  destruct (write_item_count_render sig2 h Hsig Hwf Hheads Hnb Hc s1 (count h + 1) Hh1 Hcnt) as (s2 & Hw & Hst).
  exists s2. split; [exact Hw|]. eapply htx_step_trans; [eapply htx_step_of_fstep; exact F1|exact Hst].
Qed.

Theorem write_item_count_down_render sig2 h s :
  length sig2 = 8%nat -> htx_wf h -> (forall i, head_at h i < 2 ^ 64) -> nb h < 2 ^ 64 -> count h < 2 ^ 64 ->
  holds sig2 h s ->
  exists s', write_item_count_down s = Ok s' /\ htx_step s s' (render_htx sig2 (count_down h)).
Proof.
  intros Hsig Hwf Hheads Hnb Hc Hh. unfold write_item_count_down.
  destruct (read_item_count_fstep sig2 h Hsig Hwf Hnb Hc s Hh) as (s1 & Hr & F1). rewrite Hr. cbn [rbind].
  assert (Hh1 : holds sig2 h s1) by (unfold holds; pose proof (fstep_file _ _ _ _ _ F1) as E; cbn [get_file] in E; rewrite E; reflexivity).
  unfold count_down. destruct (0 <? count h) eqn:E.
  - destruct (write_item_count_render sig2 h Hsig Hwf Hheads Hnb Hc s1 (count h - 1) Hh1 ltac:(lia)) as (s2 & Hw & Hst).
    exists s2. split; [exact Hw|]. eapply htx_step_trans; [eapply htx_step_of_fstep; exact F1|exact Hst].
  - exists s1. split; [reflexivity|]. eapply htx_step_of_fstep in F1.
    replace (Htx (nb h) (buckets h) (bitmap h) (count h) (hend h)) with h by (destruct h; reflexivity). exact F1.
Qed.

(** ** PART 3. Io_pieces.v, replayed for tight steps *)

(** *** the cursors on one file of the state (section 2 of Io_pieces.v, rewritten): every cursor
    carries the tightness of the steps since its origin *)
Section cursors.
Context {fid : Io.fid}.

(** what a step leaves alone: the chunk size of the file, and the other files; tight: and is tight *)
Definition frame (s s' : st) : Prop :=
  fcs (get_file s' fid) = fcs (get_file s fid) /\ (forall g, g <> fid -> get_file s' g = get_file s g) /\ tight s s'.

Lemma frame_refl s : frame s s.
Proof. split; [reflexivity|]. split; [auto|apply tight_refl]. Qed.
Lemma frame_trans s1 s2 s3 : frame s1 s2 -> frame s2 s3 -> frame s1 s3.
Proof.
  intros (A & B & T1) (C & D & T2). split; [congruence|]. split; [|eapply tight_trans; eassumption].
  intros g Hg. rewrite D, B by exact Hg. reflexivity.
Qed.
Lemma upd_file_frame s s' b p : upd_file s s' fid b p -> tight s s' -> frame s s'.
Proof. intros [H O] T. split; [rewrite H; reflexivity|]. split; [exact O|exact T]. Qed.
Lemma frame_seek s t : frame s (seek_to fid t s).
Proof. destruct (seek_to_spec fid t s) as [U _]. exact (upd_file_frame _ _ _ _ U (tight_seek fid t s)). Qed.

(** *** reading: [s] was reached from [s0] by looking only, is at position [p] (inside the file)
    and sees [rest] *)
Definition rcur (s0 s : st) (p : N) (rest : bytes) : Prop :=
  upd_file s0 s fid (fb (get_file s0 fid)) p /\ rot s0 s /\ view s fid = rest /\ p <= fend (get_file s0 fid).

Lemma rcur_fb s0 s p rest : rcur s0 s p rest -> fb (get_file s fid) = fb (get_file s0 fid).
Proof. intros [[H _] _]. rewrite H. reflexivity. Qed.
Lemma rcur_fp s0 s p rest : rcur s0 s p rest -> fp (get_file s fid) = p.
Proof. intros [[H _] _]. rewrite H. reflexivity. Qed.
Lemma rcur_in s0 s p rest : rcur s0 s p rest -> fp (get_file s fid) <= fend (get_file s fid).
Proof. intros ([H _] & _ & _ & Hp). unfold fend in *. rewrite H. cbn [fb fp]. exact Hp. Qed.
Lemma rcur_frame s0 s p rest : rcur s0 s p rest -> frame s0 s.
Proof. intros (H & R & _). exact (upd_file_frame _ _ _ _ H (rot_tight _ _ R)). Qed.

Lemma rcur_seek s off : off <= fend (get_file s fid) ->
  rcur s (seek_to fid off s) off (at_off (fb (get_file s fid)) off).
Proof.
  intros H. split; [apply seek_to_inside; exact H|]. split; [apply rot_seek; exact H|].
  split; [apply view_seek_inside; exact H|exact H].
Qed.

(** tight: the step is a strengthened read-only step *)
Lemma rcur_step s0 s s' p p' rest rest' :
  rcur s0 s p rest -> upd_file s s' fid (fb (get_file s fid)) p' -> rot s s' ->
  view s' fid = rest' -> p' <= fend (get_file s fid) -> rcur s0 s' p' rest'.
Proof.
  intros Hc0 Hu Hro Hv Hp. pose proof (rcur_fb _ _ _ _ Hc0) as Hfb.
  destruct Hc0 as (Hu0 & Hro0 & _). split; [|split; [|split]].
  - eapply upd_file_trans; [exact Hu0|]. destruct Hu0 as [E _]. rewrite E in Hu. exact Hu.
  - eapply rot_trans; eassumption.
  - exact Hv.
  - unfold fend in *. rewrite <- Hfb. exact Hp.
Qed.

Lemma rcur_vw s0 s p rest : rcur s0 s p rest -> vw s fid rest.
Proof. intros H. split; [eapply rcur_in; exact H|apply H]. Qed.

Lemma rcur_vu64 s0 s p v rest : rcur s0 s p (encode v ++ rest) -> v < 2 ^ 64 ->
  exists s', read_vu64 fid s = Ok (v, s') /\ rcur s0 s' (p + enc_len v) rest.
Proof.
  intros Hc0 Hv. pose proof Hc0 as (_ & _ & Hview & _). pose proof (rcur_vw _ _ _ _ Hc0) as Hvw.
  destruct (read_vu64_view fid s v rest Hv Hview) as (s' & evs & Hr & Hu & Hv' & _).
  (* tight: [Io_flat_ro.rd_vu64] *)
  destruct (rd_vu64 fid s v rest Hv Hvw) as (s2 & Hr2 & R & _). rewrite Hr in Hr2. injection Hr2 as <-.
  exists s'. split; [exact Hr|]. rewrite (rcur_fp _ _ _ _ Hc0) in Hu.
  apply (rcur_step s0 s s' p _ _ rest Hc0 Hu); [split; [exact R|exact (read_vu64_calls _ _ _ _ Hr)]|exact Hv'|].
  pose proof (vw_room _ _ _ _ Hvw) as Hroom. rewrite blen_encode, (rcur_fp _ _ _ _ Hc0) in Hroom. exact Hroom.
Qed.

Lemma rcur_size s0 s p sz rest : rcur s0 s p (encode (sz / 8) ++ rest) -> sz mod 8 = 0 -> sz < 2 ^ 64 ->
  exists s', read_piece_size fid s = Ok (sz, s') /\ rcur s0 s' (p + enc_len (sz / 8)) rest.
Proof.
  intros Hc0 H8 Hlt.
  destruct (rcur_vu64 s0 s p (sz / 8) rest Hc0 (div8_lt sz Hlt)) as (s' & Hr & Hc1).
  exists s'. split; [|exact Hc1]. unfold read_piece_size. rewrite Hr. cbn [rbind].
  rewrite (div8_mul8 sz H8). reflexivity.
Qed.

Lemma rcur_u64 s0 s p v rest : rcur s0 s p (le_bytes 8 v ++ rest) -> v < 2 ^ 64 ->
  exists s', read_u64 fid s = Ok (v, s') /\ rcur s0 s' (p + 8) rest.
Proof.
  intros Hc0 Hv. pose proof Hc0 as (_ & _ & Hview & _). pose proof (rcur_vw _ _ _ _ Hc0) as Hvw.
  destruct (read_u64_view fid s v rest Hv Hview) as (s' & Hr & Hf & Ho & Hv' & _).
  (* tight: [Io_flat_ro.rd_u64] *)
  destruct (rd_u64 fid s v rest Hv Hvw) as (s2 & Hr2 & R & _). rewrite Hr in Hr2. injection Hr2 as <-.
  exists s'. split; [exact Hr|]. rewrite (rcur_fp _ _ _ _ Hc0) in Hf.
  apply (rcur_step s0 s s' p _ _ rest Hc0 (conj Hf Ho)); [split; [exact R|exact (read_u64_calls _ _ _ _ Hr)]|exact Hv'|].
  pose proof (vw_room _ _ _ _ Hvw) as Hroom. rewrite blen_le_bytes, (rcur_fp _ _ _ _ Hc0) in Hroom.
  change (N.of_nat 8) with 8 in Hroom. exact Hroom.
Qed.

(** *** writing: since [s0] (which held [b0]) the file was sought to [off] and [d] was written;
    tight: by tight steps *)
Definition wcur (s0 s : st) (off : N) (d : bytes) : Prop :=
  upd_file s0 s fid (splice (fb (get_file s0 fid)) off d) (off + blen d) /\ tight s0 s.

Lemma wcur_in s0 s off d : wcur s0 s off d -> fp (get_file s fid) <= fend (get_file s fid).
Proof. intros [[E _] _]. rewrite E. unfold fend. cbn [fb fp]. rewrite blen_splice. lia. Qed.

Lemma wcur_seek s off : off <= fend (get_file s fid) -> wcur s (seek_to fid off s) off [].
Proof.
  intros H. unfold wcur. rewrite splice_nil by exact H. rewrite blen_nil, N.add_0_r.
  split; [apply seek_to_inside; exact H|apply tight_seek].
Qed.

Lemma wcur_n s0 s off d d' : wcur s0 s off d -> wcur s0 (write_n fid d' s) off (d ++ d').
Proof.
  intros Hw. destruct (write_n_spec fid d' s) as [Hu _]. pose proof (wcur_in _ _ _ _ Hw) as Hin.
  destruct Hw as [Hw T]. split; [|eapply tight_trans; [exact T|apply tight_write; exact Hin]].
  eapply upd_file_trans; [exact Hw|].
  destruct Hw as [E _]. rewrite E in Hu. cbn [fb fp fcs] in Hu.
  rewrite splice_app, blen_app, N.add_assoc. exact Hu.
Qed.

Lemma wcur_all s0 s off d d' : wcur s0 s off d -> 0 < fcs (get_file s0 fid) ->
  exists s', write_all_bytes fid d' s = Ok s' /\ wcur s0 s' off (d ++ d').
Proof.
  intros Hw Hcs. pose proof (wcur_in _ _ _ _ Hw) as Hin. destruct Hw as [Hw T]. pose proof Hw as [E _].
  destruct (write_all_bytes_spec fid d' s) as (s' & evs & Hr & Hu & _).
  { rewrite E. exact Hcs. }
  { exact Hin. }
  exists s'. split; [exact Hr|].
  split; [|eapply tight_trans; [exact T|exact (proj1 (tightx_write_all_bytes slack fid d' s s' Hr Hin))]].
  eapply upd_file_trans; [exact Hw|].
  rewrite E in Hu. cbn [fb fp fcs] in Hu.
  rewrite splice_app, blen_app, N.add_assoc. exact Hu.
Qed.

Lemma wcur_vu64 s0 s off d v : wcur s0 s off d -> 0 < fcs (get_file s0 fid) ->
  exists s', write_vu64 fid v s = Ok s' /\ wcur s0 s' off (d ++ encode v).
Proof. apply wcur_all. Qed.

Lemma wcur_size s0 s off d sz : wcur s0 s off d -> 0 < fcs (get_file s0 fid) -> sz mod 8 = 0 ->
  exists s', write_piece_size fid sz s = Ok s' /\ wcur s0 s' off (d ++ encode (sz / 8)).
Proof.
  intros Hw Hcs H8. unfold write_piece_size. rewrite H8. cbn. apply wcur_vu64; assumption.
Qed.

Lemma wcur_poff s0 s off d v : wcur s0 s off d -> 0 < fcs (get_file s0 fid) -> v mod 8 = 0 ->
  exists s', write_piece_offset fid v s = Ok s' /\ wcur s0 s' off (d ++ encode (v / 8)).
Proof.
  intros Hw Hcs H8. unfold write_piece_offset. rewrite H8. cbn. apply wcur_vu64; assumption.
Qed.

Lemma wcur_u64 s0 s off d v : wcur s0 s off d ->
  exists s', write_u64 fid v s = Ok s' /\ wcur s0 s' off (d ++ le_bytes 8 v).
Proof. intros Hw. eexists. split; [reflexivity|]. apply wcur_n. exact Hw. Qed.

(** [write_zero_to_offset]: the zero fill up to the end of the slot (nothing if already beyond) *)
Lemma wcur_zero s0 s off d size : wcur s0 s off d ->
  exists s', write_zero_to_offset fid (off + size) s = Ok s' /\ wcur s0 s' off (d ++ zeros (size - blen d)).
Proof.
  intros Hw. pose proof Hw as [[E _] T].
  unfold write_zero_to_offset, seek_position, seek_cur. cbn [rbind].
  rewrite E. cbn [fp]. rewrite N.add_0_r.
  assert (Hin : off + blen d <= fend (get_file s fid)).
  { rewrite E. unfold fend. cbn [fb]. rewrite blen_splice. lia. }
  pose proof (seek_to_inside fid _ s Hin) as Hs1. rewrite E in Hs1. cbn [fb fcs] in Hs1.
  assert (Hw1 : wcur s0 (seek_to fid (off + blen d) s) off d).
  { split; [|eapply tight_trans; [exact T|apply tight_seek]]. eapply upd_file_trans; [apply Hw|]. exact Hs1. }
  destruct (N.ltb_spec (off + blen d) (off + size)) as [Hlt|Hge].
  - eexists. split; [reflexivity|].
    replace (off + size - (off + blen d)) with (size - blen d) by lia.
    apply wcur_n. exact Hw1.
  - eexists. split; [reflexivity|].
    replace (size - blen d) with 0 by lia. change (zeros 0) with (@nil N). rewrite app_nil_r. exact Hw1.
Qed.

Lemma wcur_frame s0 s off d : wcur s0 s off d -> frame s0 s.
Proof. intros [U T]. exact (upd_file_frame _ _ _ _ U T). Qed.
Lemma wcur_fb s0 s off d : wcur s0 s off d -> fb (get_file s fid) = splice (fb (get_file s0 fid)) off d.
Proof. intros [[E _] _]. rewrite E. reflexivity. Qed.

(** a step that only looked at file [fid] *)
Definition looked (s s' : st) : Prop :=
  fb (get_file s' fid) = fb (get_file s fid) /\ frame s s' /\ rot s s'.

Lemma rcur_looked s0 s p rest : rcur s0 s p rest -> looked s0 s.
Proof.
  intros H. split; [eapply rcur_fb; exact H|]. split; [eapply rcur_frame; exact H|]. apply H.
Qed.
Lemma looked_refl s : looked s s.
Proof. split; [reflexivity|]. split; [apply frame_refl|apply rot_refl]. Qed.
Lemma looked_trans s1 s2 s3 : looked s1 s2 -> looked s2 s3 -> looked s1 s3.
Proof.
  intros (A & B & C) (D & E & F). split; [congruence|].
  split; [eapply frame_trans; eassumption|eapply rot_trans; eassumption].
Qed.
Lemma looked_frame s s' : looked s s' -> frame s s'.
Proof. intros (_ & A & _). exact A. Qed.

End cursors.
Arguments frame : clear implicits.
Arguments rcur : clear implicits.
Arguments wcur : clear implicits.
Arguments looked : clear implicits.

(** *** Io_pieces.v from its section [pieces] on *)
Section pieces.
Context {P : Type} (c : pcfg) (Hc : Sizing.cfg_ok c) (sb : slot P -> bytes) (sig2 : bytes).
Hypothesis Hsig : length sig2 = 8%nat.

(** every slot image has the length of its slot *)
Definition lens (f : pfile P) : Prop := forall o s, slots f !! o = Some s -> blen (sb s) = slot_size s.

(** [L] is the list of all slot offsets in file order *)
Definition tiled (f : pfile P) (L : list N) : Prop :=
  tiles c f (hdr_size c) L /\ forall o, is_Some (slots f !! o) <-> o ∈ L.

Definition body (f : pfile P) (L : list N) : bytes :=
  concat (map (fun os => sb (snd os)) (tag_slots f L)).

Lemma all_slots_tiled f L : tiled f L -> all_slots c f = Ok (tag_slots f L).
Proof.
  intros [Ht Hd]. pose proof (tiles_NoDup c Hc _ _ _ Ht) as Hnd.
  assert (Hfuel : (length L < S (size (slots f)))%nat).
  { apply Nat.lt_succ_r, NoDup_length_size; [exact Hnd|]. intros x Hx. apply Hd. exact Hx. }
  destruct (walk_slots_tiles c Hc _ _ _ Ht _ Hfuel) as (r & Hr & Hm & Hrl).
  unfold all_slots. rewrite Hr. f_equal. rewrite <- Hm. apply tag_slots_eq.
  intros o s Hin. apply Hrl in Hin. apply Hin.
Qed.

Lemma render_tiled f L : tiled f L ->
  render_pfile c sb sig2 f = Ok (render_pheader c sig2 (heads f) ++ body f L).
Proof. intros H. unfold render_pfile. rewrite (all_slots_tiled f L H). reflexivity. Qed.

Lemma body_cons f o L : body f (o :: L) = sb (slot_at f o) ++ body f L.
Proof. reflexivity. Qed.

Lemma body_app f L1 L2 : body f (L1 ++ L2) = body f L1 ++ body f L2.
Proof. unfold body, tag_slots. rewrite !map_app, concat_app. reflexivity. Qed.

Lemma body_ext f f' L : (forall x, x ∈ L -> slots f' !! x = slots f !! x) -> body f' L = body f L.
Proof.
  induction L as [|a L IH]; intros H; [reflexivity|].
  rewrite !body_cons. unfold slot_at. rewrite (H a) by left. f_equal.
  apply IH. intros x Hx. apply H. right. exact Hx.
Qed.

Lemma tiled_slot f L o s : tiled f L -> slots f !! o = Some s ->
  hdr_size c <= o /\ o mod 8 = 0 /\ valid_slot_size c (slot_size s) /\ o + slot_size s <= Alloc.fend f /\
  16 <= slot_size s /\ slot_size s mod 8 = 0.
Proof.
  intros [Ht Hd] Hs. assert (Hin : o ∈ L) by (apply Hd; eauto).
  destruct (tiles_elem c Hc _ _ _ Ht _ Hin) as (H1 & s' & H2 & H3 & H4 & H5).
  rewrite Hs in H2. injection H2 as <-.
  pose proof (valid_slot_size_facts c Hc _ H3) as [H16 H8].
  repeat split; try assumption. apply H5. rewrite (hdr_size_eq c Hc). reflexivity.
Qed.

Lemma tiled_fend f L : tiled f L -> hdr_size c <= Alloc.fend f.
Proof. intros [Ht _]. apply (tiles_le_fend c _ _ _ Ht). Qed.

Lemma tiled_fend_none f L : tiled f L -> slots f !! Alloc.fend f = None.
Proof.
  intros Ht. destruct (slots f !! Alloc.fend f) as [s|] eqn:E; [|reflexivity].
  destruct (tiled_slot _ _ _ _ Ht E) as (_ & _ & _ & H & H16 & _). lia.
Qed.

Lemma body_len f : lens f -> forall off L, tiles c f off L -> (forall o, o ∈ L -> is_Some (slots f !! o)) ->
  off + blen (body f L) = Alloc.fend f.
Proof.
  intros Hl off L Ht Hd.
  refine (proj1 (tiles_image c Hc sb f Hl (tag_slots f L) off _ _)).
  - rewrite tag_slots_fst. exact Ht.
  - intros o s Hin. apply tag_slots_mem in Hin as [Hin ->].
    destruct (Hd o Hin) as [s Hs]. rewrite (slot_at_eq _ _ _ Hs). exact Hs.
Qed.

Lemma body_at f : lens f -> forall off L, tiles c f off L -> (forall o, o ∈ L -> is_Some (slots f !! o)) ->
  forall o s, slots f !! o = Some s -> o ∈ L ->
  exists pre rest, body f L = pre ++ sb s ++ rest /\ off + blen pre = o.
Proof.
  intros Hl off L Ht Hd o s Hs Ho.
  refine (proj2 (proj2 (tiles_image c Hc sb f Hl (tag_slots f L) off _ _)) o s _).
  - rewrite tag_slots_fst. exact Ht.
  - intros o' s' Hin. apply tag_slots_mem in Hin as [Hin ->].
    destruct (Hd o' Hin) as [s2 Hs2]. rewrite (slot_at_eq _ _ _ Hs2). exact Hs2.
  - apply tag_slots_mem. split; [exact Ho|]. symmetry. apply slot_at_eq. exact Hs.
Qed.

Lemma body_set_slot f o old new : lens f -> slots f !! o = Some old -> blen (sb new) = slot_size old ->
  forall off L, tiles c f off L -> o ∈ L ->
  body (set_slot f o new) L = splice (body f L) (o - off) (sb new).
Proof.
  intros Hl Ho Hn off L Ht. induction Ht as [|off s l Hs Hv Ht IH]; intros Hin.
  - apply elem_of_nil in Hin. destruct Hin.
  - rewrite !body_cons.
    pose proof (valid_slot_size_facts c Hc _ Hv) as [H16 _].
    destruct (decide (o = off)) as [->|Hne].
    + rewrite Ho in Hs. injection Hs as <-.
      rewrite (slot_at_eq f off old Ho).
      rewrite (slot_at_eq (set_slot f off new) off new) by apply lookup_insert.
      rewrite (body_ext f (set_slot f off new) l).
      2:{ intros x Hx. cbn [set_slot slots]. apply lookup_insert_ne.
          destruct (tiles_elem c Hc _ _ _ Ht x Hx). lia. }
      rewrite N.sub_diag. symmetry. apply (splice_mid [] (sb old) _ (sb new)).
      rewrite Hn. symmetry. apply (Hl _ _ Ho).
    + apply elem_of_cons in Hin as [?|Hin]; [contradiction|].
      destruct (tiles_elem c Hc _ _ _ Ht o Hin) as [Hle _].
      rewrite (slot_at_eq f off s Hs).
      rewrite (slot_at_eq (set_slot f o new) off s)
        by (cbn [set_slot slots]; rewrite lookup_insert_ne by congruence; exact Hs).
      rewrite splice_app_r by (rewrite (Hl _ _ Hs); lia).
      f_equal. rewrite (Hl _ _ Hs), IH by exact Hin. f_equal. lia.
Qed.

Lemma tiled_set_slot f L o old new : tiled f L -> slots f !! o = Some old ->
  slot_size new = slot_size old -> tiled (set_slot f o new) L.
Proof.
  intros [Ht Hd] Ho Hsz.
  assert (Hss : same_sizes f (set_slot f o new)).
  { split; [reflexivity|]. intros x. cbn [set_slot slots].
    destruct (decide (x = o)) as [->|Hne].
    - rewrite lookup_insert, Ho. cbn. rewrite Hsz. reflexivity.
    - rewrite lookup_insert_ne by congruence. reflexivity. }
  split; [apply (tiles_same_sizes c f _ _ _ Hss Ht)|].
  intros x. rewrite (same_sizes_dom f _ x Hss). apply Hd.
Qed.

Lemma tiled_set_head f L i v : tiled f L -> tiled (set_head f i v) L.
Proof.
  intros [Ht Hd].
  assert (Hss : same_sizes f (set_head f i v)) by (split; reflexivity).
  split; [apply (tiles_same_sizes c f _ _ _ Hss Ht)|]. exact Hd.
Qed.

(** P0, slots: a slot image is replaced in place *)
Theorem render_set_slot f L img o old new :
  tiled f L -> lens f -> length (heads f) = 16%nat ->
  render_pfile c sb sig2 f = Ok img -> slots f !! o = Some old ->
  slot_size new = slot_size old -> blen (sb new) = slot_size new ->
  render_pfile c sb sig2 (set_slot f o new) = Ok (splice img o (sb new)).
Proof.
  intros Ht Hl Hh Hr Ho Hsz Hbl.
  rewrite (render_tiled f L Ht) in Hr. injection Hr as <-.
  rewrite (render_tiled _ L (tiled_set_slot f L o old new Ht Ho Hsz)). f_equal.
  cbn [set_slot heads].
  pose proof (render_pheader_length c sig2 (heads f) Hc Hsig Hh) as HL.
  destruct (tiled_slot f L o old Ht Ho) as (Hge & _).
  rewrite splice_app_r by lia. f_equal. rewrite HL.
  apply (body_set_slot f o old new); try assumption.
  - congruence.
  - apply Ht.
  - apply Ht. eauto.
Qed.

(** P0, header: a free-list head is replaced in place *)
Theorem render_set_head f L img i v :
  tiled f L -> length (heads f) = 16%nat -> (i < 16)%nat ->
  render_pfile c sb sig2 f = Ok img ->
  render_pfile c sb sig2 (set_head f i v) = Ok (splice img (nth i (free_off c) 0) (le_bytes 8 v)).
Proof.
  intros Ht Hh Hi Hr.
  rewrite (render_tiled f L Ht) in Hr. injection Hr as <-.
  rewrite (render_tiled _ L (tiled_set_head f L i v Ht)). f_equal.
  cbn [set_head heads].
  pose proof (render_pheader_length c sig2 (heads f) Hc Hsig Hh) as HL.
  destruct (cfg_hdr_facts c Hc) as (_ & _ & H3 & _).
  rewrite splice_app_l by (rewrite (free_off_nth c i Hc Hi), blen_le8; lia).
  rewrite <- render_pheader_insert by assumption.
  reflexivity.
Qed.

(** P0, appending: a new slot at the end of the file *)
Definition append_slot (f : pfile P) (nsz : N) (p : P) : pfile P :=
  PFile (<[Alloc.fend f := Used nsz p]> (slots f)) (heads f) (Alloc.fend f + nsz).

Lemma tiled_append f L nsz p : tiled f L -> valid_slot_size c nsz ->
  tiled (append_slot f nsz p) (L ++ [Alloc.fend f]).
Proof.
  intros Ht Hv. pose proof (tiled_fend_none f L Ht) as Hnone. destruct Ht as [Ht Hd].
  split; [apply (tiles_append c Hc); assumption|].
  intros o. unfold append_slot. cbn [slots].
  rewrite elem_of_app, elem_of_list_singleton, <- Hd.
  destruct (decide (o = Alloc.fend f)) as [->|Hne].
  - rewrite lookup_insert. split; eauto.
  - rewrite lookup_insert_ne by congruence. split; [intros H; left; exact H|].
    intros [H|H]; [exact H|contradiction].
Qed.

Theorem render_append f L img nsz p :
  tiled f L -> valid_slot_size c nsz ->
  render_pfile c sb sig2 f = Ok img ->
  render_pfile c sb sig2 (append_slot f nsz p) = Ok (img ++ sb (Used nsz p)).
Proof.
  intros Ht Hv Hr.
  rewrite (render_tiled f L Ht) in Hr. injection Hr as <-.
  rewrite (render_tiled _ _ (tiled_append f L nsz p Ht Hv)). f_equal.
  rewrite <- app_assoc. f_equal. rewrite body_app. f_equal.
  - apply body_ext. intros x Hx. unfold append_slot. cbn [slots]. apply lookup_insert_ne.
    intros <-. pose proof (tiled_fend_none f L Ht) as Hn. apply Ht in Hx. rewrite Hn in Hx.
    destruct Hx as [? Hx]. discriminate Hx.
  - unfold body. cbn [tag_slots map concat snd].
    rewrite (slot_at_eq _ _ (Used nsz p)) by (unfold append_slot; cbn [slots]; apply lookup_insert).
    apply app_nil_r.
Qed.


(** P0 under the allocator invariant *)
Corollary render_set_slot_inv f frees img o old new :
  alloc_inv c f frees -> lens f -> render_pfile c sb sig2 f = Ok img -> slots f !! o = Some old ->
  slot_size new = slot_size old -> blen (sb new) = blen (sb old) ->
  render_pfile c sb sig2 (set_slot f o new) = Ok (splice img o (sb new)).
Proof.
  intros Hi Hl Hr Ho Hsz Hbl. destruct (ai_tiles _ _ _ Hi) as (L & Ht & Hd).
  apply (render_set_slot f L img o old new); try assumption.
  - split; assumption.
  - rewrite (ai_heads _ _ _ Hi). apply (nclasses_eq c Hc).
  - rewrite Hbl, Hsz. apply (Hl _ _ Ho).
Qed.

Corollary render_set_head_inv f frees img i v :
  alloc_inv c f frees -> (i < 16)%nat -> render_pfile c sb sig2 f = Ok img ->
  render_pfile c sb sig2 (set_head f i v) = Ok (splice img (nth i (free_off c) 0) (le_bytes 8 v)).
Proof.
  intros Hi Hlt Hr. destruct (ai_tiles _ _ _ Hi) as (L & Ht & Hd).
  apply (render_set_head f L img i v); try assumption.
  - split; assumption.
  - rewrite (ai_heads _ _ _ Hi). apply (nclasses_eq c Hc).
Qed.

Corollary render_append_inv f frees img nsz p :
  alloc_inv c f frees -> valid_slot_size c nsz -> render_pfile c sb sig2 f = Ok img ->
  render_pfile c sb sig2 (append_slot f nsz p) = Ok (img ++ sb (Used nsz p)).
Proof.
  intros Hi Hv Hr. destruct (ai_tiles _ _ _ Hi) as (L & Ht & Hd).
  apply (render_append f L img nsz p); try assumption. split; assumption.
Qed.

(** ** 4. the working invariant: what the byte-level operations need of a piece file.
    Weaker than [alloc_inv] (nothing on the free lists), kept by [set_slot] / [set_head] /
    [append_slot], so that it also holds between the writes of one operation. *)
Record good (f : pfile P) : Prop := {
  g_heads : length (heads f) = 16%nat;
  g_hlt : forall i, (i < 16)%nat -> head_of f i < 2 ^ 64;
  g_tiled : exists L, tiled f L;
  g_lens : lens f;
  g_fend : Alloc.fend f < 2 ^ 64;
  g_next : forall o sz nxt, slots f !! o = Some (Free sz nxt) -> nxt < 2 ^ 64 }.

Lemma good_of_inv f frees : alloc_inv c f frees -> lens f -> Alloc.fend f < 2 ^ 64 -> good f.
Proof.
  intros Hi Hl Hfe. assert (Hslot : forall o s, slots f !! o = Some s -> o < 2 ^ 64).
  { intros o s Hs. destruct (inv_slot c Hc _ _ _ _ Hi Hs) as (_ & _ & Hv & Hle).
    destruct (valid_slot_size_facts c Hc _ Hv). lia. }
  constructor.
  - rewrite (ai_heads _ _ _ Hi). apply (nclasses_eq c Hc).
  - intros i Hlt. rewrite <- (nclasses_eq c Hc) in Hlt.
    pose proof (ai_lists _ _ _ Hi i Hlt) as Hfl.
    destruct (flist_inv _ _ _ Hfl) as [[-> _] | (sz & nxt & l' & _ & _ & Hs' & _)]; [reflexivity|].
    apply (Hslot _ _ Hs').
  - destruct (ai_tiles _ _ _ Hi) as (L & Ht & Hd). exists L. split; assumption.
  - exact Hl.
  - exact Hfe.
  - intros o sz nxt Hs. destruct (ai_listed _ _ _ Hi _ _ _ Hs) as (i & Hlt & Hin).
    destruct (flist_next_ok _ _ _ (ai_lists _ _ _ Hi i Hlt) _ _ _ Hin Hs) as [-> | [s' Hs2]]; [reflexivity|].
    apply (Hslot _ _ Hs2).
Qed.

Lemma good_set_slot f o old new : good f -> slots f !! o = Some old ->
  slot_size new = slot_size old -> blen (sb new) = slot_size new ->
  (forall sz nxt, new = Free sz nxt -> nxt < 2 ^ 64) -> good (set_slot f o new).
Proof.
  intros [H1 H2 (L & H3) H4 H5 H6] Ho Hsz Hbl Hnx. constructor; cbn [set_slot heads slots Alloc.fend]; try assumption.
  - exists L. eapply tiled_set_slot; eassumption.
  - intros x s. cbn [set_slot slots]. destruct (decide (x = o)) as [->|Hne].
    + rewrite lookup_insert. intros [= <-]. exact Hbl.
    + rewrite lookup_insert_ne by congruence. apply H4.
  - intros x sz nxt. destruct (decide (x = o)) as [->|Hne].
    + rewrite lookup_insert. intros [= ->]. eapply Hnx. reflexivity.
    + rewrite lookup_insert_ne by congruence. apply H6.
Qed.

Lemma good_set_head f i v : good f -> (i < 16)%nat -> v < 2 ^ 64 -> good (set_head f i v).
Proof.
  intros [H1 H2 (L & H3) H4 H5 H6] Hi Hv. constructor; cbn [set_head heads slots Alloc.fend]; try assumption.
  - rewrite insert_length. exact H1.
  - intros j Hj. destruct (decide (j = i)) as [->|Hne].
    + rewrite (head_of_insert f (set_head f i v) i v); [exact Hv|lia|reflexivity].
    + rewrite (head_of_insert_ne f (set_head f i v) i j v); [apply H2; exact Hj|congruence|reflexivity].
  - exists L. apply tiled_set_head. exact H3.
Qed.

Lemma good_append f nsz p : good f -> valid_slot_size c nsz -> blen (sb (Used nsz p)) = nsz ->
  Alloc.fend f + nsz < 2 ^ 64 -> good (append_slot f nsz p).
Proof.
  intros [H1 H2 (L & H3) H4 H5 H6] Hv Hbl Hfe.
  constructor; unfold append_slot; cbn [heads slots Alloc.fend]; try assumption.
  - eexists. apply tiled_append; eassumption.
  - intros x s. cbn [slots]. destruct (decide (x = Alloc.fend f)) as [->|Hne].
    + rewrite lookup_insert. intros [= <-]. exact Hbl.
    + rewrite lookup_insert_ne by congruence. apply H4.
  - intros x sz nxt. destruct (decide (x = Alloc.fend f)) as [->|Hne].
    + rewrite lookup_insert. intros [= ].
    + rewrite lookup_insert_ne by congruence. apply H6.
Qed.

(** the image of a good file *)
Lemma good_image f img : good f -> render_pfile c sb sig2 f = Ok img ->
  blen img = Alloc.fend f /\ hdr_size c <= Alloc.fend f /\
  (exists bd, img = render_pheader c sig2 (heads f) ++ bd) /\
  (forall o s, slots f !! o = Some s -> exists rest, at_off img o = sb s ++ rest).
Proof.
  intros [H1 H2 (L & H3) H4 H5 H6] Hr.
  rewrite (render_tiled f L H3) in Hr. injection Hr as <-.
  pose proof (render_pheader_length c sig2 (heads f) Hc Hsig H1) as HL.
  assert (Hd : forall o, o ∈ L -> is_Some (slots f !! o)) by (intros o Ho; apply H3; exact Ho).
  split; [rewrite blen_app, HL; apply (body_len f H4 _ L (proj1 H3) Hd)|].
  split; [apply (tiled_fend f L H3)|].
  split; [eexists; reflexivity|].
  intros o s Hs. assert (Ho : o ∈ L) by (apply H3; eauto).
  destruct (body_at f H4 _ L (proj1 H3) Hd o s Hs Ho) as (pre & rest & E & Hoff).
  exists rest. rewrite E, <- Hoff, <- HL, at_off_app_add. apply at_off_app_blen.
Qed.

Lemma good_slot f o s : good f -> slots f !! o = Some s ->
  hdr_size c <= o /\ o mod 8 = 0 /\ valid_slot_size c (slot_size s) /\ o + slot_size s <= Alloc.fend f /\
  16 <= slot_size s /\ slot_size s mod 8 = 0 /\ slot_size s < 2 ^ 64 /\ o < 2 ^ 64 /\ o <> 0.
Proof.
  intros [H1 H2 (L & H3) H4 H5 H6] Hs.
  destruct (tiled_slot f L o s H3 Hs) as (A & B & C & D & E & F).
  rewrite (hdr_size_eq c Hc) in *. repeat split; try assumption; lia.
Qed.

Lemma class_idx_lt sz i : class_idx c sz = Ok i -> (i < 16)%nat.
Proof.
  rewrite (class_idx_eq c Hc). destruct (sz =? 0); [discriminate|].
  destruct (index_of sz sizes 0) as [j|] eqn:E.
  - intros [= ->]. apply index_of_nth in E as (_ & E & _). cbn [sizes length] in E. lia.
  - destruct (896 <? sz); [|discriminate]. intros [= <-]. lia.
Qed.

(** ** 4b. a state holding the image of a piece file *)
Variable fid : Io.fid.
Local Notation frame := (frame fid).
Local Notation rcur := (rcur fid).
Local Notation wcur := (wcur fid).
Local Notation looked := (looked fid).

(** the state holds the image of [f] in file [fid] *)
Definition hold (s : st) (f : pfile P) : Prop := render_pfile c sb sig2 f = Ok (fb (get_file s fid)).

Lemma hold_intro s f img : render_pfile c sb sig2 f = Ok img -> fb (get_file s fid) = img -> hold s f.
Proof. intros H <-. exact H. Qed.
Lemma looked_ro s s' : looked s s' -> rot s s'.
Proof. intros (_ & _ & H). exact H. Qed.
Lemma rcur_hold s0 s p rest f : rcur s0 s p rest -> hold s0 f -> hold s f.
Proof. intros H Hh. unfold hold. rewrite (rcur_fb _ _ _ _ H). exact Hh. Qed.
Lemma looked_hold s s' f : looked s s' -> hold s f -> hold s' f.
Proof. intros (A & _) H. unfold hold. rewrite A. exact H. Qed.

Hypothesis Hfree : forall sz nxt, sb (Free sz nxt) = slot_bytes sz (free_body nxt).
Hypothesis Hused : forall sz p, exists bd, sb (Used sz p) = slot_bytes sz bd.

Lemma sb_shape sl : exists bd, sb sl = slot_bytes (slot_size sl) bd.
Proof. destruct sl as [sz p|sz nxt]; cbn [slot_size]; [apply Hused|]. eexists. apply Hfree. Qed.

Lemma hold_fend f s : good f -> hold s f -> fend (get_file s fid) = Alloc.fend f.
Proof. intros Hg Hh. unfold fend. apply (good_image f _ Hg Hh). Qed.

(** ** 5. P1: the free-list heads in the header *)
Theorem read_free_on_header_image f s sz i :
  good f -> hold s f -> class_idx c sz = Ok i ->
  exists s', read_free_on_header c fid sz s = Ok (head_of f i, s') /\ looked s s'.
Proof.
  intros Hg Hh Hci. pose proof (class_idx_lt _ _ Hci) as Hi.
  unfold read_free_on_header, free_hdr_off. rewrite Hci. cbn [rbind]. unfold seek_from_start. cbn [rbind].
  destruct (good_image f _ Hg Hh) as (Hbl & Hfe & (bd & Himg) & _).
  destruct (cfg_hdr_facts c Hc) as (_ & _ & H3 & _).
  rewrite (free_off_nth c i Hc Hi).
  assert (Hin : List.hd 0 (free_off c) + 8 * N.of_nat i <= fend (get_file s fid)).
  { unfold fend. rewrite Hbl. lia. }
  pose proof (rcur_seek s _ Hin) as Hc0.
  destruct (render_pheader_at c sig2 (heads f) bd i Hc Hsig) as [rest Hrest].
  { rewrite (g_heads f Hg). exact Hi. }
  rewrite Himg, Hrest in Hc0.
  destruct (rcur_u64 _ _ _ _ _ Hc0 (g_hlt f Hg i Hi)) as (s' & Hr & Hc1).
  exists s'. split; [exact Hr|]. eapply rcur_looked. exact Hc1.
Qed.

Theorem write_free_on_header_image f s sz i v :
  good f -> hold s f -> class_idx c sz = Ok i ->
  exists s', write_free_on_header c fid sz v s = Ok s' /\ hold s' (set_head f i v) /\ frame s s'.
Proof.
  intros Hg Hh Hci. pose proof (class_idx_lt _ _ Hci) as Hi.
  unfold write_free_on_header, free_hdr_off. rewrite Hci. cbn [rbind]. unfold seek_from_start. cbn [rbind].
  destruct (good_image f _ Hg Hh) as (Hbl & Hfe & _).
  destruct (cfg_hdr_facts c Hc) as (_ & _ & H3 & _).
  assert (Hin : nth i (free_off c) 0 <= fend (get_file s fid)).
  { rewrite (free_off_nth c i Hc Hi). unfold fend. rewrite Hbl. lia. }
  pose proof (wcur_seek s _ Hin) as Hw0.
  destruct (wcur_u64 _ _ _ _ v Hw0) as (s' & Hr & Hw1).
  exists s'. split; [exact Hr|]. split; [|eapply wcur_frame; exact Hw1].
  unfold hold. rewrite (wcur_fb _ _ _ _ Hw1). cbn [app].
  destruct (g_tiled f Hg) as [L HL].
  apply (render_set_head f L); try assumption. apply (g_heads f Hg).
Qed.

(** ** 6. P2: the fields of the slot at an offset *)
Lemma slot_cur f s o sl : good f -> hold s f -> slots f !! o = Some sl ->
  exists bd rest, sb sl = slot_bytes (slot_size sl) bd /\
    rcur s (seek_to fid o s) o
      (encode (slot_size sl / 8) ++ bd ++ zeros (slot_size sl - blen (encode (slot_size sl / 8) ++ bd)) ++ rest).
Proof.
  intros Hg Hh Hs. destruct (good_image f _ Hg Hh) as (Hbl & _ & _ & Hat).
  destruct (good_slot f o sl Hg Hs) as (_ & _ & _ & Hle & _).
  destruct (Hat o sl Hs) as [rest Hrest]. destruct (sb_shape sl) as [bd Hbd].
  exists bd, rest. split; [exact Hbd|].
  assert (Hin : o <= fend (get_file s fid)) by (unfold fend; rewrite Hbl; lia).
  pose proof (rcur_seek s o Hin) as Hc0. rewrite Hrest, Hbd, slot_bytes_app in Hc0. exact Hc0.
Qed.

Theorem read_piece_size_image f s o sl : good f -> hold s f -> slots f !! o = Some sl ->
  exists s', (let* (_, s1) := seek_from_start fid o s in read_piece_size fid s1) = Ok (slot_size sl, s') /\
    looked s s'.
Proof.
  intros Hg Hh Hs. destruct (slot_cur f s o sl Hg Hh Hs) as (bd & rest & _ & Hc0).
  destruct (good_slot f o sl Hg Hs) as (_ & _ & _ & _ & _ & H8 & Hlt & _).
  unfold seek_from_start. cbn [rbind].
  destruct (rcur_size _ _ _ _ _ Hc0 H8 Hlt) as (s' & Hr & Hc1).
  exists s'. split; [exact Hr|]. eapply rcur_looked. exact Hc1.
Qed.

Lemma encode_0 : encode 0 = [0].
Proof. reflexivity. Qed.

Lemma free_cur f s o sz nxt : good f -> hold s f -> slots f !! o = Some (Free sz nxt) ->
  exists rest,
    rcur s (seek_to fid o s) o
      (encode (sz / 8) ++ encode 0 ++ le_bytes 8 nxt ++
       zeros (sz - blen (encode (sz / 8) ++ free_body nxt)) ++ rest) /\
    at_off (fb (get_file s fid)) o =
      encode (sz / 8) ++ encode 0 ++ le_bytes 8 nxt ++
       zeros (sz - blen (encode (sz / 8) ++ free_body nxt)) ++ rest.
Proof.
  intros Hg Hh Hs. destruct (good_image f _ Hg Hh) as (Hbl & _ & _ & Hat).
  destruct (good_slot f o _ Hg Hs) as (_ & _ & _ & Hle & _).
  destruct (Hat o _ Hs) as [rest Hrest]. exists rest.
  assert (Hin : o <= fend (get_file s fid)) by (unfold fend; rewrite Hbl; lia).
  pose proof (rcur_seek s o Hin) as Hc0.
  rewrite Hfree, slot_bytes_app in Hrest. unfold free_body at 1 in Hrest.
  rewrite <- app_assoc in Hrest. rewrite <- encode_0 in Hrest.
  rewrite Hrest in Hc0. split; [exact Hc0|exact Hrest].
Qed.

Lemma read_free_fields_cur s0 s p sz nxt rest :
  rcur s0 s p (encode (sz / 8) ++ encode 0 ++ le_bytes 8 nxt ++ rest) ->
  sz mod 8 = 0 -> sz < 2 ^ 64 -> nxt < 2 ^ 64 ->
  exists s', read_free_fields fid s = Ok (sz, nxt, s') /\ rcur s0 s' (p + enc_len (sz / 8) + 1 + 8) rest.
Proof.
  intros Hc0 H8 Hlt Hn. unfold read_free_fields.
  destruct (rcur_size _ _ _ _ _ Hc0 H8 Hlt) as (s1 & -> & Hc1). cbn [rbind].
  destruct (rcur_vu64 _ _ _ 0 _ Hc1 ltac:(lia)) as (s2 & -> & Hc2). cbn [rbind].
  change (negb (0 =? 0)) with false. cbv iota.
  destruct (rcur_u64 _ _ _ _ _ Hc2 Hn) as (s3 & -> & Hc3). cbn [rbind].
  exists s3. split; [reflexivity|]. exact Hc3.
Qed.

Theorem read_free_piece_size_next_image f s o sz nxt :
  good f -> hold s f -> slots f !! o = Some (Free sz nxt) ->
  exists s', read_free_piece_size_next fid o s = Ok (sz, nxt, s') /\ looked s s'.
Proof.
  intros Hg Hh Hs. destruct (free_cur f s o sz nxt Hg Hh Hs) as (rest & Hc0 & _).
  destruct (good_slot f o _ Hg Hs) as (_ & _ & _ & _ & _ & H8 & Hlt & _). cbn [slot_size] in H8, Hlt.
  unfold read_free_piece_size_next, seek_from_start. cbn [rbind].
  destruct (read_free_fields_cur _ _ _ _ _ _ Hc0 H8 Hlt (g_next f Hg _ _ _ Hs)) as (s' & Hr & Hc1).
  exists s'. split; [exact Hr|]. eapply rcur_looked. exact Hc1.
Qed.

(** ** 7. writing a slot image in place *)
Lemma wcur_slot_image f s0 s' o old new :
  good f -> hold s0 f -> slots f !! o = Some old -> slot_size new = slot_size old ->
  blen (sb new) = slot_size new -> wcur s0 s' o (sb new) ->
  hold s' (set_slot f o new) /\ frame s0 s'.
Proof.
  intros Hg Hh Hs Hsz Hbl Hw. split; [|eapply wcur_frame; exact Hw].
  unfold hold. rewrite (wcur_fb _ _ _ _ Hw). destruct (g_tiled f Hg) as [L HL].
  apply (render_set_slot f L _ o old new); try assumption.
  - apply (g_lens f Hg).
  - apply (g_heads f Hg).
Qed.

Lemma blen_free_slot sz nxt : 16 <= sz -> blen (sb (Free sz nxt)) = sz.
Proof. intros H. rewrite Hfree. apply free_slot_len. exact H. Qed.

Lemma clear_bytes size : 16 <= size ->
  encode (size / 8) ++ zeros (size - blen (encode (size / 8))) = slot_bytes size (free_body 0).
Proof.
  intros H. unfold slot_bytes. cbv zeta. rewrite <- app_assoc. f_equal.
  pose proof (free_fits size H) as Hf. change (blen (free_body 0)) with 9 in Hf.
  rewrite blen_app, blen_encode. change (blen (free_body 0)) with 9.
  change (free_body 0) with (zeros 9). unfold zeros. rewrite <- repeat_app. f_equal. lia.
Qed.

(** [write_piece_clear]: the slot becomes [Free size 0] *)
Theorem write_piece_clear_image f s o old :
  good f -> hold s f -> 0 < fcs (get_file s fid) -> slots f !! o = Some old ->
  exists s', write_piece_clear fid o (slot_size old) s = Ok s' /\
    hold s' (set_slot f o (Free (slot_size old) 0)) /\ frame s s'.
Proof.
  intros Hg Hh Hcs Hs. set (size := slot_size old).
  destruct (good_slot f o old Hg Hs) as (_ & _ & _ & Hle & H16 & H8 & Hlt & _). fold size in Hle, H16, H8, Hlt.
  unfold write_piece_clear. destruct (N.eqb_spec size 0) as [E|_]; [lia|].
  destruct (read_piece_size_image f s o old Hg Hh Hs) as (s2 & Hr & Hl2). fold size in Hr.
  unfold seek_from_start in *. cbn [rbind] in *. rewrite Hr. cbn [rbind].
  rewrite N.eqb_refl, orb_true_r. cbn [negb].
  pose proof (looked_hold _ _ _ Hl2 Hh) as Hh2.
  assert (Hcs2 : 0 < fcs (get_file s2 fid)) by (rewrite (proj1 (looked_frame _ _ Hl2)); exact Hcs).
  assert (Hin : o <= fend (get_file s2 fid)) by (rewrite (hold_fend f s2 Hg Hh2); lia).
  pose proof (wcur_seek s2 o Hin) as Hw0.
  destruct (wcur_size _ _ _ _ size Hw0 Hcs2 H8) as (s4 & -> & Hw1). cbn [rbind].
  destruct (wcur_zero _ _ _ _ size Hw1) as (s5 & -> & Hw2).
  exists s5. split; [reflexivity|]. cbn [app] in Hw2. rewrite (clear_bytes size H16), <- Hfree in Hw2.
  destruct (wcur_slot_image f s2 s5 o old (Free size 0) Hg Hh2 Hs) as [A B]; try assumption.
  - reflexivity.
  - apply blen_free_slot. exact H16.
  - split; [exact A|]. eapply frame_trans; [apply looked_frame; exact Hl2|exact B].
Qed.

(** ** 8. P3: [push_free] *)
Lemma free_bytes sz first :
  encode (sz / 8) ++ encode 0 ++ le_bytes 8 first ++
    zeros (sz - blen (encode (sz / 8) ++ encode 0 ++ le_bytes 8 first)) = slot_bytes sz (free_body first).
Proof. unfold slot_bytes, free_body. cbv zeta. rewrite encode_0, <- !app_assoc. reflexivity. Qed.

Theorem push_free_image f s off sz old f' :
  good f -> hold s f -> 0 < fcs (get_file s fid) ->
  slots f !! off = Some old -> slot_size old = sz ->
  Alloc.push_free c f off sz = Ok f' ->
  exists s', push_free c fid off sz s = Ok s' /\ hold s' f' /\ frame s s' /\ good f'.
Proof.
  intros Hg Hh Hcs Hs Hsz Hp.
  destruct (good_slot f off old Hg Hs) as (_ & _ & _ & Hle & H16 & H8 & Hlt & Holt & Hnz). rewrite Hsz in *.
  unfold Alloc.push_free in Hp. unfold push_free.
  destruct (N.eqb_spec off 0) as [E|_]; [contradiction|].
  destruct (N.eqb_spec sz 0) as [E|_]; [lia|].
  destruct (class_idx c sz) as [i| | |] eqn:Hci; cbn [rbind] in Hp; try discriminate Hp.
  injection Hp as <-. pose proof (class_idx_lt _ _ Hci) as Hi.
  destruct (read_free_on_header_image f s sz i Hg Hh Hci) as (s1 & -> & Hl1). cbn [rbind].
  set (first := head_of f i).
  pose proof (looked_hold _ _ _ Hl1 Hh) as Hh1.
  assert (Hcs1 : 0 < fcs (get_file s1 fid)) by (rewrite (proj1 (looked_frame _ _ Hl1)); exact Hcs).
  assert (Hin : off <= fend (get_file s1 fid)) by (rewrite (hold_fend f s1 Hg Hh1); lia).
  unfold seek_from_start. cbn [rbind].
  pose proof (wcur_seek s1 off Hin) as Hw0.
  destruct (wcur_size _ _ _ _ sz Hw0 Hcs1 H8) as (s3 & -> & Hw1). cbn [rbind].
  destruct (wcur_vu64 _ _ _ _ 0 Hw1 Hcs1) as (s4 & -> & Hw2). cbn [rbind].
  destruct (wcur_u64 _ _ _ _ first Hw2) as (s5 & -> & Hw3). cbn [rbind].
  destruct (wcur_zero _ _ _ _ sz Hw3) as (s6 & -> & Hw4). cbn [rbind].
  cbn [app] in Hw4. rewrite <- !app_assoc in Hw4. rewrite free_bytes, <- Hfree in Hw4.
  assert (Hfirst : first < 2 ^ 64) by (apply (g_hlt f Hg); exact Hi).
  set (f1 := set_slot f off (Free sz first)).
  destruct (wcur_slot_image f s1 s6 off old (Free sz first) Hg Hh1 Hs) as [Hh6 Hfr6]; try assumption.
  { cbn [slot_size]. congruence. }
  { apply blen_free_slot. exact H16. }
  fold f1 in Hh6.
  assert (Hg1 : good f1).
  { apply (good_set_slot f off old); try assumption.
    - cbn [slot_size]. congruence.
    - apply blen_free_slot. exact H16.
    - intros sz' nxt' [= _ <-]. exact Hfirst. }
  destruct (write_free_on_header_image f1 s6 sz i off Hg1 Hh6 Hci) as (s7 & -> & Hh7 & Hfr7).
  exists s7. split; [reflexivity|]. split; [exact Hh7|]. split.
  - eapply frame_trans; [apply looked_frame; exact Hl1|]. eapply frame_trans; eassumption.
  - apply (good_set_head f1 i off Hg1 Hi Holt).
Qed.

(** ** 9. P4: [pop_free] *)
Lemma blen_free_body nxt : blen (free_body nxt) = 9.
Proof. unfold free_body. rewrite blen_app, blen_le8. reflexivity. Qed.

(** the link field of a free slot is rewritten in place *)
Lemma relink_prev_image f s prev psz pn nx :
  good f -> hold s f -> slots f !! prev = Some (Free psz pn) -> nx < 2 ^ 64 ->
  exists s',
    (let* (_, a1) := seek_from_start fid prev s in
     let* (_, a2) := read_piece_size fid a1 in
     let* (kl, a3) := read_vu64 fid a2 in
     if negb (kl =? 0) then Panic DebugAssert else write_u64 fid nx a3) = Ok s' /\
    hold s' (set_slot f prev (Free psz nx)) /\ frame s s'.
Proof.
  intros Hg Hh Hs Hnx. destruct (free_cur f s prev psz pn Hg Hh Hs) as (rest & Hc0 & Hat).
  destruct (good_slot f prev _ Hg Hs) as (_ & _ & _ & Hle & H16 & H8 & Hlt & _). cbn [slot_size] in *.
  unfold seek_from_start. cbn [rbind].
  destruct (rcur_size _ _ _ _ _ Hc0 H8 Hlt) as (a2 & -> & Hc1). cbn [rbind].
  destruct (rcur_vu64 _ _ _ 0 _ Hc1 ltac:(lia)) as (a3 & -> & Hc2). cbn [rbind].
  change (negb (0 =? 0)) with false. cbv iota.
  eexists. split; [reflexivity|].
  destruct (write_n_spec fid (le_bytes 8 nx) a3) as [Hu _].
  rewrite (rcur_fb _ _ _ _ Hc2), (rcur_fp _ _ _ _ Hc2) in Hu.
  set (s' := write_n fid (le_bytes 8 nx) a3) in *.
  assert (Hfr : frame s s').
  { eapply frame_trans; [eapply rcur_frame; exact Hc2|]. eapply upd_file_frame; [exact Hu|].
    (* tight: the write follows reads that ended inside the file *) apply tight_write. eapply rcur_in; exact Hc2. }
  split; [|exact Hfr].
  assert (Hfb : fb (get_file s' fid) = splice (fb (get_file s fid)) prev (sb (Free psz nx))).
  { destruct Hu as [E _]. rewrite E. cbn [fb].
    rewrite Hfree. rewrite <- free_bytes.
    rewrite !blen_app, blen_le8, !blen_encode. change (enc_len 0) with 1.
    rewrite blen_app, blen_free_body, blen_encode in Hat.
    replace (psz - (enc_len (psz / 8) + (1 + 8))) with (psz - (enc_len (psz / 8) + 9)) by lia.
    assert (Hp : prev <= blen (fb (get_file s fid))).
    { rewrite <- (hold_fend f s Hg Hh) in Hle. unfold fend in Hle. lia. }
    pose proof (splice_inner (fb (get_file s fid)) prev (encode (psz / 8) ++ encode 0) (le_bytes 8 pn)
                  (zeros (psz - (enc_len (psz / 8) + 9))) rest (le_bytes 8 nx) Hp) as Hsi.
    rewrite <- !app_assoc in Hsi. rewrite blen_app, !blen_encode in Hsi. change (enc_len 0) with 1 in Hsi.
    rewrite Hsi; [rewrite N.add_assoc; reflexivity | exact Hat | rewrite !blen_le8; reflexivity]. }
  unfold hold. rewrite Hfb. destruct (g_tiled f Hg) as [L HL].
  apply (render_set_slot f L _ prev (Free psz pn)); try assumption.
  - apply (g_lens f Hg).
  - apply (g_heads f Hg).
  - reflexivity.
  - apply blen_free_slot. exact H16.
Qed.

Lemma pop_large_image nsz i : class_idx c nsz = Ok i ->
  forall fuelA fuelI f prev curr s f' off sz, (fuelA <= fuelI)%nat ->
  good f -> hold s f -> 0 < fcs (get_file s fid) ->
  Alloc.pop_large fuelA f nsz i prev curr = Ok (f', off, sz) ->
  exists s', pop_large fuelI c fid nsz prev curr s = Ok (off, s') /\
    hold s' f' /\ frame s s' /\ good f' /\ (off <> 0 -> slots f' !! off = Some (Free sz 0)) /\ Alloc.fend f' = Alloc.fend f.
Proof.
  intros Hci. pose proof (class_idx_lt _ _ Hci) as Hi.
  induction fuelA as [|fuelA IH]; intros fuelI f prev curr s f' off sz Hfu Hg Hh Hcs Hp; [discriminate Hp|].
  destruct fuelI as [|fuelI]; [lia|]. cbn [Alloc.pop_large pop_large] in *.
  destruct (N.eqb_spec curr 0) as [E|Hcz].
  - injection Hp as <- <- <-. exists s. split; [rewrite E; reflexivity|].
    split; [exact Hh|]. split; [apply frame_refl|]. split; [exact Hg|]. split; [intros H; contradiction|reflexivity].
  - unfold read_free at 1 in Hp.
    destruct (slots f !! curr) as [[?|psz nx]|] eqn:Hs; cbn [rbind] in Hp; try discriminate Hp.
    destruct (read_free_piece_size_next_image f s curr psz nx Hg Hh Hs) as (s4 & -> & Hl4). cbn [rbind].
    pose proof (looked_hold _ _ _ Hl4 Hh) as Hh4.
    assert (Hcs4 : 0 < fcs (get_file s4 fid)) by (rewrite (proj1 (looked_frame _ _ Hl4)); exact Hcs).
    pose proof (g_next f Hg _ _ _ Hs) as Hnx.
    destruct (N.leb_spec nsz psz) as [Hfit|Hno].
    + destruct (N.eqb_spec prev 0) as [Hpz|Hpnz]; cbn [negb].
      * cbn [rbind] in Hp. injection Hp as <- <- <-.
        destruct (write_free_on_header_image f s4 nsz i nx Hg Hh4 Hci) as (s5 & -> & Hh5 & Hfr5). cbn [rbind].
        pose proof (good_set_head f i nx Hg Hi Hnx) as Hg5.
        assert (Hcs5 : 0 < fcs (get_file s5 fid)) by (rewrite (proj1 Hfr5); exact Hcs4).
        destruct (write_piece_clear_image (set_head f i nx) s5 curr (Free psz nx) Hg5 Hh5 Hcs5 Hs)
          as (s6 & Hr6 & Hh6 & Hfr6). cbn [slot_size] in Hr6, Hh6. rewrite Hr6. cbn [rbind].
        exists s6. split; [reflexivity|]. split; [exact Hh6|]. split.
        { eapply frame_trans; [apply looked_frame; exact Hl4|]. eapply frame_trans; eassumption. }
        split.
        { apply (good_set_slot _ curr (Free psz nx)); try assumption; try reflexivity.
          - destruct (good_slot f curr _ Hg Hs) as (_ & _ & _ & _ & H16 & _). apply blen_free_slot. exact H16.
          - intros ? ? [= _ <-]. lia. }
        split; [intros _; cbn [set_slot slots]; apply lookup_insert|reflexivity].
      * unfold read_free in Hp.
        destruct (slots f !! prev) as [[?|ppsz pn]|] eqn:Hsp; cbn [rbind] in Hp; try discriminate Hp.
        injection Hp as <- <- <-.
        destruct (relink_prev_image f s4 prev ppsz pn nx Hg Hh4 Hsp Hnx) as (s5 & -> & Hh5 & Hfr5). cbn [rbind].
        set (f1 := set_slot f prev (Free ppsz nx)) in *.
        destruct (good_slot f prev _ Hg Hsp) as (_ & _ & _ & _ & H16p & _). cbn [slot_size] in H16p.
        destruct (good_slot f curr _ Hg Hs) as (_ & _ & _ & _ & H16 & _). cbn [slot_size] in H16.
        assert (Hg1 : good f1).
        { apply (good_set_slot f prev (Free ppsz pn)); try assumption; try reflexivity.
          - apply blen_free_slot. exact H16p.
          - intros ? ? [= _ <-]. exact Hnx. }
        assert (Hcs5 : 0 < fcs (get_file s5 fid)) by (rewrite (proj1 Hfr5); exact Hcs4).
        assert (Hold : exists old', slots f1 !! curr = Some old' /\ slot_size old' = psz).
        { unfold f1. cbn [set_slot slots]. destruct (decide (curr = prev)) as [->|Hne].
          - rewrite lookup_insert. eexists. split; [reflexivity|]. cbn [slot_size]. congruence.
          - rewrite lookup_insert_ne by congruence. eexists. split; [exact Hs|]. reflexivity. }
        destruct Hold as (old' & Hs1 & Hsz1).
        destruct (write_piece_clear_image f1 s5 curr old' Hg1 Hh5 Hcs5 Hs1) as (s6 & Hr6 & Hh6 & Hfr6).
        rewrite Hsz1 in Hr6, Hh6. rewrite Hr6. cbn [rbind].
        exists s6. split; [reflexivity|]. split; [exact Hh6|]. split.
        { eapply frame_trans; [apply looked_frame; exact Hl4|]. eapply frame_trans; eassumption. }
        split.
        { apply (good_set_slot _ curr old'); try assumption.
          - cbn [slot_size]. congruence.
          - apply blen_free_slot. exact H16.
          - intros ? ? [= _ <-]. lia. }
        split; [intros _; cbn [set_slot slots]; apply lookup_insert|reflexivity].
    + destruct (IH fuelI f curr nx s4 f' off sz ltac:(lia) Hg Hh4 Hcs4 Hp) as (s' & Hr & Hh' & Hfr' & Hg' & Hoff).
      exists s'. split; [exact Hr|]. split; [exact Hh'|]. split; [|split; assumption].
      eapply frame_trans; [apply looked_frame; exact Hl4|exact Hfr'].
Qed.

(** the fuel of the byte-level walk suffices: there are at most [fend / 16] slots *)
Lemma tiles_count (f : pfile P) off L : tiles c f off L -> off + 16 * N.of_nat (length L) <= Alloc.fend f.
Proof.
  induction 1 as [|off s l Hs Hv Ht IH]; [cbn [length]; lia|].
  pose proof (valid_slot_size_facts c Hc _ Hv) as [H16 _]. cbn [length]. lia.
Qed.

Lemma slots_count (f : pfile P) : good f -> (size (slots f) <= N.to_nat (Alloc.fend f / 8))%nat.
Proof.
  intros Hg. destruct (g_tiled f Hg) as (L & Ht & Hd).
  pose proof (tiles_count f _ L Ht) as Hcnt.
  pose proof (tiles_NoDup c Hc _ _ _ Ht) as Hnd.
  assert (Hsz : (size (slots f) <= length L)%nat).
  { rewrite <- (size_dom (D := gset N) (slots f)). rewrite <- (size_list_to_set (C := gset N) L) by exact Hnd.
    apply subseteq_size. intros x Hx. apply elem_of_dom in Hx. apply elem_of_list_to_set. apply Hd. exact Hx. }
  assert (N.of_nat (length L) <= Alloc.fend f / 8); [|lia].
  apply N.div_le_lower_bound; lia.
Qed.

Theorem pop_free_image f s nsz f' off sz :
  good f -> hold s f -> 0 < fcs (get_file s fid) ->
  Alloc.pop_free c f nsz = Ok (f', off, sz) ->
  exists s', pop_free c fid nsz s = Ok (off, s') /\
    hold s' f' /\ frame s s' /\ good f' /\ (off <> 0 -> slots f' !! off = Some (Free sz 0)) /\ Alloc.fend f' = Alloc.fend f.
Proof.
  intros Hg Hh Hcs Hp. unfold Alloc.pop_free in Hp. unfold pop_free.
  destruct (class_idx c nsz) as [i| | |] eqn:Hci; cbn [rbind] in Hp; try discriminate Hp.
  pose proof (class_idx_lt _ _ Hci) as Hi.
  destruct (read_free_on_header_image f s nsz i Hg Hh Hci) as (s1 & -> & Hl1). cbn [rbind].
  set (first := head_of f i) in *.
  pose proof (looked_hold _ _ _ Hl1 Hh) as Hh1.
  assert (Hcs1 : 0 < fcs (get_file s1 fid)) by (rewrite (proj1 (looked_frame _ _ Hl1)); exact Hcs).
  destruct (is_large c nsz); cbn [negb] in *.
  - (* the first-fit walk *)
    destruct (pop_large_image nsz i Hci (S (size (slots f))) (walk_fuel s1 fid) f 0 first s1 f' off sz)
      as (s' & Hr & Hh' & Hfr' & Hg' & Hoff); try assumption.
    { unfold walk_fuel. rewrite (hold_fend f s1 Hg Hh1). pose proof (slots_count f Hg). lia. }
    exists s'. split; [exact Hr|]. split; [exact Hh'|]. split; [|split; assumption].
    eapply frame_trans; [apply looked_frame; exact Hl1|exact Hfr'].
  - destruct (N.eqb_spec first 0) as [Hz|Hnz]; cbn [negb].
    + injection Hp as <- <- <-. exists s1. split; [rewrite Hz; reflexivity|].
      split; [exact Hh1|]. split; [apply looked_frame; exact Hl1|]. split; [exact Hg|]. split; [intros H; contradiction|reflexivity].
    + unfold read_free in Hp.
      destruct (slots f !! first) as [[?|psz nx]|] eqn:Hs; cbn [rbind] in Hp; try discriminate Hp.
      injection Hp as <- <- <-.
      destruct (read_free_piece_size_next_image f s1 first psz nx Hg Hh1 Hs) as (s2 & -> & Hl2). cbn [rbind].
      pose proof (looked_hold _ _ _ Hl2 Hh1) as Hh2.
      assert (Hcs2 : 0 < fcs (get_file s2 fid)) by (rewrite (proj1 (looked_frame _ _ Hl2)); exact Hcs1).
      destruct (write_piece_clear_image f s2 first (Free psz nx) Hg Hh2 Hcs2 Hs) as (s3 & Hr3 & Hh3 & Hfr3).
      cbn [slot_size] in Hr3, Hh3. rewrite Hr3. cbn [rbind].
      set (f1 := set_slot f first (Free psz 0)) in *.
      destruct (good_slot f first _ Hg Hs) as (_ & _ & _ & _ & H16 & _). cbn [slot_size] in H16.
      assert (Hg1 : good f1).
      { apply (good_set_slot f first (Free psz nx)); try assumption; try reflexivity.
        - apply blen_free_slot. exact H16.
        - intros ? ? [= _ <-]. lia. }
      destruct (write_free_on_header_image f1 s3 nsz i nx Hg1 Hh3 Hci) as (s4 & -> & Hh4 & Hfr4). cbn [rbind].
      exists s4. split; [reflexivity|]. split; [exact Hh4|]. split.
      { eapply frame_trans; [apply looked_frame; exact Hl1|].
        eapply frame_trans; [apply looked_frame; exact Hl2|]. eapply frame_trans; eassumption. }
      split; [apply (good_set_head f1 i nx Hg1 Hi (g_next f Hg _ _ _ Hs))|].
      split; [intros _; cbn [slots]; apply lookup_insert|reflexivity].
Qed.

(** ** 10. P5: [write_piece], [delete_piece] *)

(** record level: the slot a free list hands out is large enough *)
Lemma pop_free_fits (f : pfile P) frees nsz f2 foff fsz :
  alloc_inv c f frees -> valid_slot_size c nsz ->
  Alloc.pop_free c f nsz = Ok (f2, foff, fsz) -> foff <> 0 -> nsz <= fsz.
Proof.
  intros Hi Hv Hp Hnz. pose proof Hi as Hi0.
  apply (inv16_iff c Hc) in Hi as [H1 H2 H3 H4 H5 H6 H7 H8].
  destruct (class_idx_valid c Hc nsz Hv) as (i & Hci & Hi16 & Hi15).
  unfold Alloc.pop_free in Hp. rewrite Hci in Hp. cbn [rbind] in Hp. rewrite (is_large_eq c Hc) in Hp.
  destruct (N.leb_spec 1024 nsz) as [Hlarge | Hsmall]; cbn [negb] in Hp.
  - rewrite (class_idx_large c Hc nsz Hlarge) in Hci. injection Hci as <-.
    assert (length (frees 15%nat) < S (size (slots f)))%nat as Hfuel.
    { apply Nat.lt_succ_r, NoDup_length_size; [apply H5; exact Hi16|].
      intros x Hx. destruct (H4 _ _ Hi16 Hx) as (? & ? & -> & _). eauto. }
    destruct (pop_large_spec f nsz 15 _ _ 0 _ (H3 15%nat Hi16) Hfuel ltac:(left; reflexivity))
      as [[Hall Hr] | (la & x & lb & sz & nxt & Hfi & Hall & Hx & Hle & f1 & Hf1 & Hr)];
      rewrite Hr in Hp; injection Hp as <- <- <-; [contradiction|exact Hle].
  - specialize (Hi15 Hsmall).
    destruct (class_idx_small c Hc _ _ Hci Hi15) as (Hnth & _ & _).
    destruct (flist_inv _ _ _ (H3 i Hi16)) as [[Hh Hfi] | (sz & nxt & lb & Hh0 & Hfi & Hsx & Hfl)].
    + rewrite Hh in Hp. change (0 =? 0) with true in Hp. cbv iota in Hp.
      injection Hp as <- <- <-. contradiction.
    + destruct (N.eqb_spec (head_of f i) 0) as [E|_]; [contradiction|].
      rewrite (read_free_Free _ _ _ _ Hsx) in Hp. cbn [rbind] in Hp. injection Hp as <- <- <-.
      assert (head_of f i ∈ frees i) as Hxin by (rewrite Hfi; left).
      destruct (H4 _ _ Hi16 Hxin) as (sz' & nxt' & Hs' & Hcl). rewrite Hsx in Hs'. injection Hs' as <- <-.
      destruct (class_idx_small c Hc _ _ Hcl Hi15) as (Hnth' & _ & _). lia.
Qed.

Section writer.
Variables (need : N) (p : P) (wr : N -> N -> st -> res st).
Hypothesis Hneed : 0 < need.
(** the record fits every slot the allocator can choose for it *)
Hypothesis Hfit : forall sz, valid_slot_size c sz -> roundup c need <= sz -> blen (sb (Used sz p)) = sz.
(** the record writer writes the slot image at the offset it is given *)
Hypothesis Hwr : forall off sz s, off <= fend (get_file s fid) -> 0 < fcs (get_file s fid) ->
  valid_slot_size c sz ->
  exists s', wr off sz s = Ok s' /\ wcur s s' off (sb (Used sz p)).

Let nsz := roundup c need.

Theorem add_new_image f frees s f' off sz :
  alloc_inv c f frees -> good f -> hold s f -> 0 < fcs (get_file s fid) ->
  Alloc.fend f + nsz < 2 ^ 64 ->
  Alloc.alloc c f nsz p = Ok (f', off, sz) ->
  exists s', add_new c fid nsz wr s = Ok (off, sz, s') /\ hold s' f' /\ frame s s' /\ good f'.
Proof.
  intros Hi Hg Hh Hcs Hfe Hp.
  destruct (roundup_facts c Hc need Hneed) as [Hv Hle]. fold nsz in Hv, Hle.
  unfold Alloc.alloc in Hp. unfold add_new.
  destruct (Alloc.pop_free c f nsz) as [[[f2 foff] fsz]| | |] eqn:Hpop; cbn [rbind] in Hp; try discriminate Hp.
  destruct (pop_free_image f s nsz f2 foff fsz Hg Hh Hcs Hpop) as (s1 & -> & Hh1 & Hfr1 & Hg1 & Hoff & Hfe1).
  cbn [rbind].
  assert (Hcs1 : 0 < fcs (get_file s1 fid)) by (rewrite (proj1 Hfr1); exact Hcs).
  destruct (N.eqb_spec foff 0) as [Hz|Hnz]; cbn [negb].
  - (* extend the file *)
    injection Hp as <- <- <-. unfold seek_to_end. cbn [rbind].
    rewrite (valid_slot_size_valid_size c Hc _ Hv). cbn [negb].
    pose proof (hold_fend f2 s1 Hg1 Hh1) as He. rewrite He.
    set (a1 := seek_to fid (Alloc.fend f2) s1).
    destruct (seek_to_inside fid (Alloc.fend f2) s1 ltac:(rewrite He; lia)) as [Ea Oa]. fold a1 in Ea, Oa.
    destruct (Hwr (Alloc.fend f2) nsz a1) as (s3 & -> & Hw); try assumption.
    { rewrite Ea. unfold fend. cbn [fb]. unfold fend in He. lia. }
    { rewrite Ea. exact Hcs1. }
    cbn [rbind]. exists s3. split; [reflexivity|].
    fold (append_slot f2 nsz p). split; [|split].
    + unfold hold. rewrite (wcur_fb _ _ _ _ Hw), Ea. cbn [fb].
      unfold fend in He. rewrite <- He, splice_end.
      destruct (g_tiled f2 Hg1) as [L HL]. apply (render_append f2 L); assumption.
    + eapply frame_trans; [exact Hfr1|]. eapply frame_trans; [|eapply wcur_frame; exact Hw].
      (* tight: *) exact (frame_seek _ _).
    + apply good_append; try assumption.
      * apply Hfit; [exact Hv|lia].
      * rewrite Hfe1. exact Hfe.
  - (* re-use the slot popped from a free list *)
    injection Hp as <- <- <-. specialize (Hoff Hnz).
    pose proof (pop_free_fits f frees nsz f2 foff fsz Hi Hv Hpop Hnz) as Hfits.
    replace (N.max fsz nsz) with fsz by lia.
    destruct (read_piece_size_image f2 s1 foff _ Hg1 Hh1 Hoff) as (a2 & Hr2 & Hl2).
    cbn [slot_size] in Hr2. unfold seek_from_start in *. cbn [rbind] in *. rewrite Hr2. cbn [rbind].
    replace (N.max fsz nsz) with fsz by lia.
    destruct (good_slot f2 foff _ Hg1 Hoff) as (_ & _ & Hvs & Hle2 & _). cbn [slot_size] in Hvs, Hle2.
    rewrite (valid_slot_size_valid_size c Hc _ Hvs). cbn [negb].
    pose proof (looked_hold _ _ _ Hl2 Hh1) as Hh2.
    assert (Hcs2 : 0 < fcs (get_file a2 fid)) by (rewrite (proj1 (looked_frame _ _ Hl2)); exact Hcs1).
    assert (Hin : foff <= fend (get_file a2 fid)) by (rewrite (hold_fend f2 a2 Hg1 Hh2); lia).
    set (a3 := seek_to fid foff a2).
    destruct (seek_to_inside fid foff a2 Hin) as [Ea Oa]. fold a3 in Ea, Oa.
    assert (Hh3 : hold a3 f2) by (unfold hold; rewrite Ea; exact Hh2).
    destruct (Hwr foff fsz a3) as (s3 & -> & Hw); try assumption.
    { rewrite Ea. exact Hin. }
    { rewrite Ea. exact Hcs2. }
    cbn [rbind]. exists s3. split; [reflexivity|].
    assert (Hbl : blen (sb (Used fsz p)) = fsz) by (apply Hfit; [exact Hvs|exact Hfits]).
    destruct (wcur_slot_image f2 a3 s3 foff _ (Used fsz p) Hg1 Hh3 Hoff) as [A B]; try assumption.
    { reflexivity. }
    split; [exact A|]. split.
    + eapply frame_trans; [exact Hfr1|]. eapply frame_trans; [apply looked_frame; exact Hl2|].
      eapply frame_trans; [|exact B]. (* tight: *) exact (frame_seek _ _).
    + apply (good_set_slot f2 foff (Free fsz 0)); try assumption; try reflexivity.
      intros ? ? [= ].
Qed.

Theorem write_piece_image f frees s old f' off sz :
  alloc_inv c f frees -> lens f -> hold s f -> 0 < fcs (get_file s fid) ->
  Alloc.fend f + nsz < 2 ^ 64 ->
  (forall o, old = Some o -> exists osz p0, slots f !! o = Some (Used osz p0)) ->
  Alloc.write_piece c need f old p = Ok (f', off, sz) ->
  exists s', write_piece c fid need wr old s = Ok (off, sz, s') /\ hold s' f' /\ frame s s' /\ good f'.
Proof.
  intros Hi Hl Hh Hcs Hfe Hold Hp.
  assert (Hfe0 : Alloc.fend f < 2 ^ 64) by lia.
  pose proof (good_of_inv f frees Hi Hl Hfe0) as Hg.
  destruct (roundup_facts c Hc need Hneed) as [Hv Hle]. fold nsz in Hv, Hle.
  unfold Alloc.write_piece in Hp. unfold write_piece. fold nsz in Hp. fold nsz.
  destruct (N.eqb_spec need 0) as [E|_]; [lia|].
  destruct old as [o|]; [|apply (add_new_image f frees); assumption].
  destruct (Hold o eq_refl) as (osz & p0 & Hs).
  destruct (N.eqb_spec o 0) as [E|_]; [discriminate Hp|].
  unfold read_size in Hp. rewrite Hs in Hp. cbn [rbind slot_size] in Hp.
  destruct (read_piece_size_image f s o _ Hg Hh Hs) as (s2 & Hr2 & Hl2).
  cbn [slot_size] in Hr2. unfold seek_from_start in *. cbn [rbind] in *. rewrite Hr2. cbn [rbind].
  destruct (good_slot f o _ Hg Hs) as (_ & _ & Hvs & Hle2 & _). cbn [slot_size] in Hvs, Hle2.
  rewrite (valid_slot_size_valid_size c Hc _ Hvs) in *. cbn [negb] in *.
  pose proof (looked_hold _ _ _ Hl2 Hh) as Hh2.
  assert (Hcs2 : 0 < fcs (get_file s2 fid)) by (rewrite (proj1 (looked_frame _ _ Hl2)); exact Hcs).
  destruct (N.leb_spec nsz osz) as [Hfits|Hno].
  - (* in place *)
    injection Hp as <- <- <-.
    assert (Hin : o <= fend (get_file s2 fid)) by (rewrite (hold_fend f s2 Hg Hh2); lia).
    set (s3 := seek_to fid o s2).
    destruct (seek_to_inside fid o s2 Hin) as [Ea Oa]. fold s3 in Ea, Oa.
    assert (Hh3 : hold s3 f) by (unfold hold; rewrite Ea; exact Hh2).
    destruct (Hwr o osz s3) as (s4 & -> & Hw); try assumption.
    { rewrite Ea. exact Hin. }
    { rewrite Ea. exact Hcs2. }
    cbn [rbind]. exists s4. split; [reflexivity|].
    assert (Hbl : blen (sb (Used osz p)) = osz) by (apply Hfit; assumption).
    destruct (wcur_slot_image f s3 s4 o _ (Used osz p) Hg Hh3 Hs) as [A B]; try assumption.
    { reflexivity. }
    split; [exact A|]. split.
    + eapply frame_trans; [apply looked_frame; exact Hl2|].
      eapply frame_trans; [|exact B]. (* tight: *) exact (frame_seek _ _).
    + apply (good_set_slot f o (Used osz p0)); try assumption; try reflexivity.
      intros ? ? [= ].
  - (* free the old slot, allocate *)
    destruct (push_ok c Hc f frees o osz p0 Hi Hs) as (f1 & frees1 & nx & Hpush & Hi1 & _ & Hfe1 & _).
    rewrite Hpush in Hp. cbn [rbind] in Hp.
    destruct (push_free_image f s2 o osz _ f1 Hg Hh2 Hcs2 Hs eq_refl Hpush) as (s3 & -> & Hh3 & Hfr3 & Hg3).
    cbn [rbind].
    assert (Hcs3 : 0 < fcs (get_file s3 fid)) by (rewrite (proj1 Hfr3); exact Hcs2).
    destruct (add_new_image f1 frees1 s3 f' off sz Hi1 Hg3 Hh3 Hcs3) as (s' & Hr & Hh' & Hfr' & Hg'); try assumption.
    { rewrite Hfe1. exact Hfe. }
    exists s'. split; [exact Hr|]. split; [exact Hh'|]. split; [|exact Hg'].
    eapply frame_trans; [apply looked_frame; exact Hl2|]. eapply frame_trans; eassumption.
Qed.

End writer.

Theorem delete_piece_image f s o f' :
  good f -> hold s f -> 0 < fcs (get_file s fid) ->
  Alloc.delete_piece c f o = Ok f' ->
  exists s', delete_piece c fid o s = Ok s' /\ hold s' f' /\ frame s s' /\ good f'.
Proof.
  intros Hg Hh Hcs Hp. unfold Alloc.delete_piece, read_size in Hp. unfold delete_piece.
  destruct (slots f !! o) as [sl|] eqn:Hs; cbn [rbind] in Hp; [|discriminate Hp].
  destruct (read_piece_size_image f s o sl Hg Hh Hs) as (s2 & Hr2 & Hl2).
  unfold seek_from_start in *. cbn [rbind] in *. rewrite Hr2. cbn [rbind].
  pose proof (looked_hold _ _ _ Hl2 Hh) as Hh2.
  assert (Hcs2 : 0 < fcs (get_file s2 fid)) by (rewrite (proj1 (looked_frame _ _ Hl2)); exact Hcs).
  destruct (push_free_image f s2 o _ sl f' Hg Hh2 Hcs2 Hs eq_refl Hp) as (s3 & Hr & Hh3 & Hfr3 & Hg3).
  exists s3. split; [exact Hr|]. split; [exact Hh3|]. split; [|exact Hg3].
  eapply frame_trans; [apply looked_frame; exact Hl2|exact Hfr3].
Qed.

End pieces.

(** ** 11. the record writers of the value file and of the key file *)
Lemma vcfg_ok : Sizing.cfg_ok val_cfg.
Proof. right. reflexivity. Qed.
Lemma kcfg_ok : Sizing.cfg_ok key_cfg.
Proof. left. reflexivity. Qed.

Lemma vfree_image sz nxt : vslot_bytes (Free sz nxt) = slot_bytes sz (free_body nxt).
Proof. reflexivity. Qed.
Lemma kfree_image sz nxt : kslot_bytes (Free sz nxt) = slot_bytes sz (free_body nxt).
Proof. reflexivity. Qed.
Lemma vused_image sz (v : bytes) : exists bd, vslot_bytes (Used sz v) = slot_bytes sz bd.
Proof. eexists. reflexivity. Qed.
Lemma kused_image sz (r : krec) : exists bd, kslot_bytes (Used sz r) = slot_bytes sz bd.
Proof. eexists. reflexivity. Qed.

(** [val_write_one v off size] writes exactly the slot image [slot_bytes size (val_body v)] at [off]
    (whether or not the record fits: the zero fill is skipped, and [slot_bytes] has no padding, when
    it does not) *)
Theorem val_write_one_spec v off size s :
  off <= fend (get_file s FVal) -> 0 < fcs (get_file s FVal) -> valid_slot_size val_cfg size ->
  exists s', val_write_one v off size s = Ok s' /\ wcur FVal s s' off (vslot_bytes (Used size v)).
Proof.
  intros Hin Hcs Hv. destruct (valid_slot_size_facts val_cfg vcfg_ok _ Hv) as [H16 H8].
  unfold val_write_one. destruct (N.eqb_spec size 0); [lia|].
  unfold seek_from_start. cbn [rbind].
  pose proof (wcur_seek s off Hin) as Hw0.
  destruct (wcur_size _ _ _ _ size Hw0 Hcs H8) as (s2 & -> & Hw1). cbn [rbind].
  destruct (wcur_vu64 _ _ _ _ (blen v) Hw1 Hcs) as (s3 & -> & Hw2). cbn [rbind].
  destruct (wcur_all _ _ _ _ v Hw2 Hcs) as (s4 & -> & Hw3). cbn [rbind].
  destruct (wcur_zero _ _ _ _ size Hw3) as (s5 & -> & Hw4).
  exists s5. split; [reflexivity|].
  cbn [vslot_bytes]. unfold slot_bytes, val_body. cbv zeta.
  cbn [app] in Hw4. rewrite <- ?app_assoc in Hw4. rewrite <- ?app_assoc. exact Hw4.
Qed.

Theorem key_write_one_spec k voff noff off size s :
  voff mod 8 = 0 -> noff mod 8 = 0 ->
  off <= fend (get_file s FKey) -> 0 < fcs (get_file s FKey) -> valid_slot_size key_cfg size ->
  exists s', key_write_one k voff noff off size s = Ok s' /\
    wcur FKey s s' off (kslot_bytes (Used size (KRec k voff noff))).
Proof.
  intros Hvo Hno Hin Hcs Hv. destruct (valid_slot_size_facts key_cfg kcfg_ok _ Hv) as [H16 H8].
  unfold key_write_one. destruct (N.eqb_spec size 0); [lia|].
  unfold seek_from_start. cbn [rbind].
  pose proof (wcur_seek s off Hin) as Hw0.
  destruct (wcur_size _ _ _ _ size Hw0 Hcs H8) as (s2 & -> & Hw1). cbn [rbind].
  destruct (wcur_vu64 _ _ _ _ (blen k) Hw1 Hcs) as (s3 & -> & Hw2). cbn [rbind].
  destruct (wcur_all _ _ _ _ k Hw2 Hcs) as (s4 & -> & Hw3). cbn [rbind].
  destruct (wcur_poff _ _ _ _ voff Hw3 Hcs Hvo) as (s5 & -> & Hw4). cbn [rbind].
  destruct (wcur_poff _ _ _ _ noff Hw4 Hcs Hno) as (s6 & -> & Hw5). cbn [rbind].
  destruct (wcur_zero _ _ _ _ size Hw5) as (s7 & -> & Hw6).
  exists s7. split; [reflexivity|].
  cbn [kslot_bytes k_key k_voff k_next]. unfold slot_bytes, key_body. cbv zeta.
  cbn [app] in Hw6. rewrite <- ?app_assoc in Hw6. rewrite <- ?app_assoc. exact Hw6.
Qed.

Lemma vslot_fit v sz : valid_slot_size val_cfg sz -> roundup val_cfg (val_need (blen v)) <= sz ->
  blen (vslot_bytes (Used sz v)) = sz.
Proof.
  intros Hv Hle. cbn [vslot_bytes]. apply slot_bytes_length_gen. rewrite blen_val_body.
  pose proof (vfit_new v sz Hv Hle) as F. unfold vfit, val_real_len in F. lia.
Qed.

Lemma kslot_fit r sz : valid_slot_size key_cfg sz -> roundup key_cfg (krec_need r) <= sz ->
  blen (kslot_bytes (Used sz r)) = sz.
Proof.
  intros Hv Hle. cbn [kslot_bytes]. apply slot_bytes_length_gen. rewrite blen_key_body.
  pose proof (kfit_new r sz Hv Hle) as F. unfold kfit, key_real_len in F. lia.
Qed.

(** ** 12. P5 for the two files *)
Section final.
Context (sig2 : bytes) (Hsig : length sig2 = 8%nat).

Theorem val_write_piece_image f frees s v old f' off sz :
  alloc_inv val_cfg f frees -> lens vslot_bytes f ->
  hold val_cfg vslot_bytes sig2 FVal s f -> 0 < fcs (get_file s FVal) ->
  Alloc.fend f + roundup val_cfg (val_need (blen v)) < 2 ^ 64 ->
  (forall o, old = Some o -> exists osz v0, slots f !! o = Some (Used osz v0)) ->
  Alloc.write_piece val_cfg (val_need (blen v)) f old v = Ok (f', off, sz) ->
  exists s', val_write_piece v old s = Ok (off, sz, s') /\
    hold val_cfg vslot_bytes sig2 FVal s' f' /\ frame FVal s s' /\ good val_cfg vslot_bytes f'.
Proof.
  intros. unfold val_write_piece.
  apply (write_piece_image val_cfg vcfg_ok vslot_bytes sig2 Hsig FVal vfree_image vused_image
           (val_need (blen v)) v (val_write_one v) (val_need_pos _) (vslot_fit v) (val_write_one_spec v)
           f frees); assumption.
Qed.

Theorem key_write_piece_image f frees s k voff noff old f' off sz :
  voff mod 8 = 0 -> noff mod 8 = 0 ->
  alloc_inv key_cfg f frees -> lens kslot_bytes f ->
  hold key_cfg kslot_bytes sig2 FKey s f -> 0 < fcs (get_file s FKey) ->
  Alloc.fend f + roundup key_cfg (key_need (blen k) voff noff) < 2 ^ 64 ->
  (forall o, old = Some o -> exists osz r0, slots f !! o = Some (Used osz r0)) ->
  Alloc.write_piece key_cfg (key_need (blen k) voff noff) f old (KRec k voff noff) = Ok (f', off, sz) ->
  exists s', key_write_piece k voff noff old s = Ok (off, sz, s') /\
    hold key_cfg kslot_bytes sig2 FKey s' f' /\ frame FKey s s' /\ good key_cfg kslot_bytes f'.
Proof.
  intros Hvo Hno. intros. unfold key_write_piece.
  apply (write_piece_image key_cfg kcfg_ok kslot_bytes sig2 Hsig FKey kfree_image kused_image
           (key_need (blen k) voff noff) (KRec k voff noff) (key_write_one k voff noff)
           (key_need_pos _ _ _) (kslot_fit (KRec k voff noff))
           (fun off sz s => key_write_one_spec k voff noff off sz s Hvo Hno) f frees); assumption.
Qed.

Theorem val_delete_piece_image f s o f' :
  good val_cfg vslot_bytes f -> hold val_cfg vslot_bytes sig2 FVal s f -> 0 < fcs (get_file s FVal) ->
  Alloc.delete_piece val_cfg f o = Ok f' ->
  exists s', delete_piece val_cfg FVal o s = Ok s' /\
    hold val_cfg vslot_bytes sig2 FVal s' f' /\ frame FVal s s' /\ good val_cfg vslot_bytes f'.
Proof. apply (delete_piece_image val_cfg vcfg_ok vslot_bytes sig2 Hsig FVal vfree_image vused_image). Qed.

Theorem key_delete_piece_image f s o f' :
  good key_cfg kslot_bytes f -> hold key_cfg kslot_bytes sig2 FKey s f -> 0 < fcs (get_file s FKey) ->
  Alloc.delete_piece key_cfg f o = Ok f' ->
  exists s', delete_piece key_cfg FKey o s = Ok s' /\
    hold key_cfg kslot_bytes sig2 FKey s' f' /\ frame FKey s s' /\ good key_cfg kslot_bytes f'.
Proof. apply (delete_piece_image key_cfg kcfg_ok kslot_bytes sig2 Hsig FKey kfree_image kused_image). Qed.

End final.

(** ** PART 4. Io_updates.v, replayed for tight steps *)

(** ** 1. the invariants of the three files *)

(** the fields of a key record as the byte-level readers and writers need them *)
Definition krec_ok (r : krec) : Prop :=
  blen (k_key r) < 2 ^ 31 /\ k_voff r mod 8 = 0 /\ k_voff r < 2 ^ 64 /\ k_next r mod 8 = 0 /\ k_next r < 2 ^ 64.

Record kfile_ok (kf : pfile krec) : Prop := {
  ko_inv : AInv key_cfg kf;
  ko_fit : slot_fits kfit kf;
  ko_fend : Alloc.fend kf < 2 ^ 64;
  ko_rec : forall o r, used kf !! o = Some r -> krec_ok r }.

Record vfile_ok (vf : pfile bytes) : Prop := {
  vo_inv : AInv val_cfg vf;
  vo_fit : slot_fits vfit vf;
  vo_fend : Alloc.fend vf < 2 ^ 64;
  vo_rec : forall o v, used vf !! o = Some v -> blen v < 2 ^ 31 }.

Record hfile_ok (h : htx) : Prop := {
  ho_wf : htx_wf h;
  ho_heads : forall i, head_at h i < 2 ^ 64;
  ho_heads8 : forall i, head_at h i mod 8 = 0;
  ho_nb : nb h < 2 ^ 64;
  ho_cnt : count h < 2 ^ 64 }.

Lemma kf_lens kf : AInv key_cfg kf -> slot_fits kfit kf -> lens kslot_bytes kf.
Proof.
  intros [frees Hi] Hf o sl Hs. destruct (inv_slot key_cfg kc_ok _ _ _ _ Hi Hs) as (_ & _ & Hv & _).
  destruct (AllocInv_proofs.valid_slot_size_facts key_cfg kc_ok _ Hv) as [H16 _].
  destruct sl as [sz r|sz nxt]; cbn [kslot_bytes slot_size] in *.
  - apply slot_bytes_length_gen. rewrite blen_key_body.
    pose proof (Hf _ _ _ Hs) as F. unfold kfit, key_real_len in F. lia.
  - apply free_slot_len. exact H16.
Qed.

Lemma vf_lens vf : AInv val_cfg vf -> slot_fits vfit vf -> lens vslot_bytes vf.
Proof.
  intros [frees Hi] Hf o sl Hs. destruct (inv_slot val_cfg vc_ok _ _ _ _ Hi Hs) as (_ & _ & Hv & _).
  destruct (AllocInv_proofs.valid_slot_size_facts val_cfg vc_ok _ Hv) as [H16 _].
  destruct sl as [sz r|sz nxt]; cbn [vslot_bytes slot_size] in *.
  - apply slot_bytes_length_gen. rewrite blen_val_body.
    pose proof (Hf _ _ _ Hs) as F. unfold vfit, val_real_len in F. lia.
  - apply free_slot_len. exact H16.
Qed.

(** tight: [x0] is the state the operation started from *)
Section with_origin.
Variable x0 : st.

Section sims.
Context (sg : bytes) (Hsg : length sg = 8%nat).

Lemma kfile_good kf : kfile_ok kf -> good key_cfg kslot_bytes kf.
Proof.
  intros [[frees Hi] Hf He _]. apply (good_of_inv key_cfg kc_ok kslot_bytes sg Hsg kf frees Hi); [|exact He].
  apply kf_lens; [eexists; exact Hi|exact Hf].
Qed.

Lemma vfile_good vf : vfile_ok vf -> good val_cfg vslot_bytes vf.
Proof.
  intros [[frees Hi] Hf He _]. apply (good_of_inv val_cfg vc_ok vslot_bytes sg Hsg vf frees Hi); [|exact He].
  apply vf_lens; [eexists; exact Hi|exact Hf].
Qed.


(** ** 2. the three-file relation; tight: the state [x] was reached from [x0] by tight steps *)
Definition sim (h : htx) (kf : pfile krec) (vf : pfile bytes) (x : st) : Prop :=
  holds sg h x /\
  hold key_cfg kslot_bytes sg FKey x kf /\ hold val_cfg vslot_bytes sg FVal x vf /\
  0 < fcs (get_file x FKey) /\ 0 < fcs (get_file x FVal) /\ tight x0 x.

Lemma sim_ro h kf vf x x' : sim h kf vf x -> rot x x' -> sim h kf vf x'.
Proof.
  intros (A & B & C & D & E & T) R. pose proof (tight_trans _ _ _ T (rot_tight _ _ R)) as T2.
  destruct R as [R _]. pose proof R as [Hb _].
  destruct (Hb FHtx) as [b1 c1], (Hb FKey) as [b2 c2], (Hb FVal) as [b3 c3].
  unfold sim, holds, hold in *. cbn [get_file] in *.
  rewrite b1, b2, b3, c2, c3. auto 10.
Qed.

Lemma sim_kstep h kf vf x x' kf' : sim h kf vf x -> frame FKey x x' ->
  hold key_cfg kslot_bytes sg FKey x' kf' -> sim h kf' vf x'.
Proof.
  intros (A & B & C & D & E & T) (Fc & Fo & T') H'. pose proof (tight_trans _ _ _ T T') as T2.
  pose proof (Fo FHtx ltac:(discriminate)) as E1. pose proof (Fo FVal ltac:(discriminate)) as E2.
  unfold sim, holds, hold in *. cbn [get_file] in *. rewrite E1, E2, Fc. auto 10.
Qed.

Lemma sim_vstep h kf vf x x' vf' : sim h kf vf x -> frame FVal x x' ->
  hold val_cfg vslot_bytes sg FVal x' vf' -> sim h kf vf' x'.
Proof.
  intros (A & B & C & D & E & T) (Fc & Fo & T') H'. pose proof (tight_trans _ _ _ T T') as T2.
  pose proof (Fo FHtx ltac:(discriminate)) as E1. pose proof (Fo FKey ltac:(discriminate)) as E2.
  unfold sim, holds, hold in *. cbn [get_file] in *. rewrite E1, E2, Fc. auto 10.
Qed.

Lemma sim_hstep h kf vf x x' h' : sim h kf vf x -> htx_step x x' (render_htx sg h') -> sim h' kf vf x'.
Proof.
  intros (A & B & C & D & E & T) [(Hb & _ & Fo & _) T']. pose proof (tight_trans _ _ _ T T') as T2.
  pose proof (Fo FKey ltac:(discriminate)) as E1. pose proof (Fo FVal ltac:(discriminate)) as E2.
  unfold sim, holds, hold in *. cbn [get_file] in *. rewrite E1, E2. auto 10.
Qed.


(** ** 3. reading steps on the image of a key / value file *)
Lemma kslot_image kf x o sz r : kfile_ok kf -> hold key_cfg kslot_bytes sg FKey x kf ->
  slots kf !! o = Some (Used sz r) ->
  (exists rest, at_off (fb (get_file x FKey)) o = slot_bytes sz (key_body (k_key r) (k_voff r) (k_next r)) ++ rest) /\
  o <> 0 /\ o mod 8 = 0 /\ o < 2 ^ 64 /\ sz mod 8 = 0 /\ sz < 2 ^ 64 /\ valid_size key_cfg sz = true /\ krec_ok r.
Proof.
  intros Hk Hh Hs. pose proof (kfile_good kf Hk) as Hg.
  destruct (good_image key_cfg kc_ok kslot_bytes sg Hsg kf _ Hg Hh) as (_ & _ & _ & Hat).
  destruct (good_slot key_cfg kc_ok kslot_bytes sg Hsg kf o _ Hg Hs) as (_ & Ho8 & Hv & _ & _ & H8 & Hlt & Holt & Hnz).
  cbn [slot_size] in *. split; [exact (Hat o _ Hs)|].
  repeat (split; [assumption|]). split.
  - apply AllocInv_proofs.valid_slot_size_valid_size; [exact kc_ok|exact Hv].
  - apply (ko_rec kf Hk o). apply used_lookup. eauto.
Qed.

Lemma key_read_piece_sim kf x o sz r : kfile_ok kf -> hold key_cfg kslot_bytes sg FKey x kf ->
  slots kf !! o = Some (Used sz r) ->
  exists x', key_read_piece o x = Ok (sz, k_key r, k_voff r, k_next r, x') /\ rot x x'.
Proof.
  intros Hk Hh Hs.
  destruct (kslot_image kf x o sz r Hk Hh Hs) as ([rest Hat] & Hnz & _ & _ & H8 & Hlt & Hvs & Hk1 & Hv8 & Hv & Hn8 & Hn).
  pose proof pow31_lt_pow64. (* tight: *) apply (rot_ex (key_read_piece o) (key_read_piece_calls o)).
  eapply key_read_piece_image; try eassumption. lia.
Qed.

Lemma key_next_sim kf x o sz r : kfile_ok kf -> hold key_cfg kslot_bytes sg FKey x kf ->
  slots kf !! o = Some (Used sz r) ->
  exists x', read_piece_only_bucket_next_offset o x = Ok (k_next r, x') /\ rot x x'.
Proof.
  intros Hk Hh Hs.
  destruct (kslot_image kf x o sz r Hk Hh Hs) as ([rest Hat] & Hnz & _ & _ & H8 & Hlt & Hvs & Hk1 & Hv8 & Hv & Hn8 & Hn).
  pose proof pow31_lt_pow64.
  (* tight: *) apply (rot_ex (read_piece_only_bucket_next_offset o) (read_piece_only_bucket_next_offset_calls o)).
  eapply read_piece_only_bucket_next_offset_image; try eassumption. lia.
Qed.

Lemma vslot_image vf x o sz v : vfile_ok vf -> hold val_cfg vslot_bytes sg FVal x vf ->
  slots vf !! o = Some (Used sz v) ->
  (exists rest, at_off (fb (get_file x FVal)) o = slot_bytes sz (val_body v) ++ rest) /\
  o <> 0 /\ o mod 8 = 0 /\ o < 2 ^ 64 /\ sz mod 8 = 0 /\ sz < 2 ^ 64 /\ valid_size val_cfg sz = true /\ blen v < 2 ^ 31.
Proof.
  intros Hk Hh Hs. pose proof (vfile_good vf Hk) as Hg.
  destruct (good_image val_cfg vc_ok vslot_bytes sg Hsg vf _ Hg Hh) as (_ & _ & _ & Hat).
  destruct (good_slot val_cfg vc_ok vslot_bytes sg Hsg vf o _ Hg Hs) as (_ & Ho8 & Hv & _ & _ & H8 & Hlt & Holt & Hnz).
  cbn [slot_size] in *. split; [exact (Hat o _ Hs)|].
  repeat (split; [assumption|]). split.
  - apply AllocInv_proofs.valid_slot_size_valid_size; [exact vc_ok|exact Hv].
  - apply (vo_rec vf Hk o). apply used_lookup. eauto.
Qed.

Lemma val_read_piece_sim vf x o sz v : vfile_ok vf -> hold val_cfg vslot_bytes sg FVal x vf ->
  slots vf !! o = Some (Used sz v) ->
  exists x', val_read_piece o x = Ok (sz, v, x') /\ rot x x'.
Proof.
  intros Hk Hh Hs.
  destruct (vslot_image vf x o sz v Hk Hh Hs) as ([rest Hat] & Hnz & _ & _ & H8 & Hlt & Hvs & Hvl).
  pose proof pow31_lt_pow64. (* tight: *) apply (rot_ex (val_read_piece o) (val_read_piece_calls o)).
  eapply val_read_piece_image; try eassumption. lia.
Qed.

Lemma val_payload_sim vf x o sz v : vfile_ok vf -> hold val_cfg vslot_bytes sg FVal x vf ->
  slots vf !! o = Some (Used sz v) ->
  exists x', read_piece_only_payload FVal o x = Ok (v, x') /\ rot x x'.
Proof.
  intros Hk Hh Hs.
  destruct (vslot_image vf x o sz v Hk Hh Hs) as ([rest Hat] & Hnz & _ & _ & H8 & Hlt & Hvs & Hvl).
  pose proof pow31_lt_pow64.
  (* tight: *) apply (rot_ex (read_piece_only_payload FVal o) (read_piece_only_payload_calls FVal o)).
  eapply read_piece_only_payload_val_image; try eassumption. lia.
Qed.


(** ** 4. writing steps *)

(** what the record level knows after [write_piece] (AllocInv_proofs, Load_proofs, Bounded) *)
Lemma wp_facts {P} c (Hc : Sizing.cfg_ok c) (fit : N -> P -> Prop) (f : pfile P) need old p f' off sz :
  AInv c f -> 0 < need -> slot_fits fit f ->
  (forall o, old = Some o -> exists p0, used f !! o = Some p0) ->
  Alloc.write_piece c need f old p = Ok (f', off, sz) ->
  (forall sz', valid_slot_size c sz' -> roundup c need <= sz' -> fit sz' p) ->
  AInv c f' /\ slot_fits fit f' /\
  (Alloc.fend f' = Alloc.fend f \/ Alloc.fend f' = Alloc.fend f + roundup c need) /\
  slots f' !! off = Some (Used sz p) /\
  (forall o q, used f' !! o = Some q -> (o = off /\ q = p) \/ used f !! o = Some q).
Proof.
  intros HA Hn Hf Hold Hw Hp. destruct old as [o|].
  - destruct (Hold o eq_refl) as [p0 Hp0].
    destruct (wp_old_fits c Hc fit f need o p0 p f' off sz HA Hn Hf Hp0 Hw Hp) as [HA' Hf'].
    destruct (write_old_counts c Hc f need o p0 p f' off sz HA Hn Hp0 Hw) as (Hfe & _).
    destruct (write_old_ok c Hc f need o p0 p HA Hn Hp0)
      as (f1 & off1 & sz1 & Hw1 & _ & Hu & _ & _ & _ & _ & Hs & _).
    rewrite Hw in Hw1. injection Hw1 as <- <- <-.
    split; [exact HA'|]. split; [exact Hf'|]. split; [exact Hfe|]. split; [exact Hs|].
    intros o' q Hq. rewrite Hu in Hq. apply lookup_insert_Some in Hq as [[<- <-]|[_ Hq]]; [left; auto|].
    apply lookup_delete_Some in Hq as [_ Hq]. right. exact Hq.
  - destruct (wp_new_fits c Hc fit f need p f' off sz HA Hn Hf Hw Hp) as [HA' Hf'].
    destruct (write_new_counts c Hc f need p f' off sz HA Hn Hw) as (Hfe & _).
    destruct (write_new_ok c Hc f need p HA Hn)
      as (f1 & off1 & sz1 & Hw1 & _ & Hu & _ & _ & _ & _ & Hs & _).
    rewrite Hw in Hw1. injection Hw1 as <- <- <-.
    split; [exact HA'|]. split; [exact Hf'|]. split; [exact Hfe|]. split; [exact Hs|].
    intros o' q Hq. rewrite Hu in Hq. apply lookup_insert_Some in Hq as [[<- <-]|[_ Hq]]; [left; auto|].
    right. exact Hq.
Qed.

Lemma pow_31_32 : 2 ^ 31 + 164 <= 2 ^ 32.
Proof. apply N.leb_le. reflexivity. Qed.

Lemma key_write_step h kf vf x k vo no old kf' off sz :
  sim h kf vf x -> kfile_ok kf ->
  blen k < 2 ^ 31 -> vo mod 8 = 0 -> vo < 2 ^ 64 -> no mod 8 = 0 -> no < 2 ^ 64 ->
  Alloc.fend kf + 2 ^ 32 < 2 ^ 64 ->
  (forall o, old = Some o -> exists r0, used kf !! o = Some r0) ->
  Alloc.write_piece key_cfg (krec_need (KRec k vo no)) kf old (KRec k vo no) = Ok (kf', off, sz) ->
  exists x', key_write_piece k vo no old x = Ok (off, sz, x') /\ sim h kf' vf x' /\ kfile_ok kf' /\
    Alloc.fend kf <= Alloc.fend kf' <= Alloc.fend kf + 2 ^ 32 /\
    off mod 8 = 0 /\ off < 2 ^ 64 /\ off <> 0 /\ slots kf' !! off = Some (Used sz (KRec k vo no)).
Proof.
  intros Hsim Hk Hkl Hvo8 Hvo Hno8 Hno Hroom Hold Hw.
  pose proof Hk as [HA Hf He Hr]. pose proof HA as [frees Hi].
  pose proof (key_nsz_le (2 ^ 31) (KRec k vo no) Hkl) as Hnsz. pose proof pow_31_32 as H32.
  destruct (wp_facts key_cfg kc_ok kfit kf _ old _ kf' off sz HA (krec_need_pos _) Hf Hold Hw
              (kfit_new (KRec k vo no))) as (HA' & Hf' & Hfe & Hs' & Hu').
  pose proof Hsim as (_ & Hh & _ & Hcs & _).
  destruct (key_write_piece_image sg Hsg kf frees x k vo no old kf' off sz Hvo8 Hno8 Hi
              (kf_lens kf HA Hf) Hh Hcs) as (x' & Hr' & Hh' & Hfr & Hg'); [| |exact Hw|].
  { unfold krec_need in Hnsz. cbn [k_key k_voff k_next] in Hnsz. lia. }
  { intros o Ho. destruct (Hold o Ho) as [r0 H0]. apply used_lookup in H0 as [osz H0]. eauto. }
  exists x'. split; [exact Hr'|]. split; [eapply sim_kstep; eassumption|].
  destruct (good_slot key_cfg kc_ok kslot_bytes sg Hsg kf' off _ Hg' Hs') as (_ & Ho8 & _ & _ & _ & _ & _ & Holt & Hnz).
  assert (Hfe' : Alloc.fend kf <= Alloc.fend kf' <= Alloc.fend kf + 2 ^ 32) by lia.
  split; [|auto].
  constructor; [exact HA'|exact Hf'|lia|].
  intros o q Hq. destruct (Hu' o q Hq) as [[-> ->]|Hq0]; [|exact (Hr o q Hq0)].
  unfold krec_ok. cbn [k_key k_voff k_next]. auto.
Qed.

Lemma val_write_step h kf vf x v old vf' off sz :
  sim h kf vf x -> vfile_ok vf -> blen v < 2 ^ 31 ->
  Alloc.fend vf + 2 ^ 32 < 2 ^ 64 ->
  (forall o, old = Some o -> exists v0, used vf !! o = Some v0) ->
  Alloc.write_piece val_cfg (val_need (blen v)) vf old v = Ok (vf', off, sz) ->
  exists x', val_write_piece v old x = Ok (off, sz, x') /\ sim h kf vf' x' /\ vfile_ok vf' /\
    off mod 8 = 0 /\ off < 2 ^ 64 /\ off <> 0 /\ slots vf' !! off = Some (Used sz v).
Proof.
  intros Hsim Hk Hvl Hroom Hold Hw.
  pose proof Hk as [HA Hf He Hr]. pose proof HA as [frees Hi].
  pose proof (val_nsz_le (2 ^ 31) v Hvl) as Hnsz. pose proof pow_31_32 as H32.
  destruct (wp_facts val_cfg vc_ok vfit vf _ old _ vf' off sz HA (val_need_pos _) Hf Hold Hw
              (vfit_new v)) as (HA' & Hf' & Hfe & Hs' & Hu').
  pose proof Hsim as (_ & _ & Hh & _ & Hcs & _).
  destruct (val_write_piece_image sg Hsg vf frees x v old vf' off sz Hi
              (vf_lens vf HA Hf) Hh Hcs) as (x' & Hr' & Hh' & Hfr & Hg'); [| |exact Hw|].
  { lia. }
  { intros o Ho. destruct (Hold o Ho) as [r0 H0]. apply used_lookup in H0 as [osz H0]. eauto. }
  exists x'. split; [exact Hr'|]. split; [eapply sim_vstep; eassumption|].
  destruct (good_slot val_cfg vc_ok vslot_bytes sg Hsg vf' off _ Hg' Hs') as (_ & Ho8 & _ & _ & _ & _ & _ & Holt & Hnz).
  split; [|auto].
  constructor; [exact HA'|exact Hf'|lia|].
  intros o q Hq. destruct (Hu' o q Hq) as [[-> ->]|Hq0]; [exact Hvl|exact (Hr o q Hq0)].
Qed.

Lemma key_delete_step h kf vf x o kf' :
  sim h kf vf x -> kfile_ok kf -> Alloc.delete_piece key_cfg kf o = Ok kf' ->
  exists x', delete_piece key_cfg FKey o x = Ok x' /\ sim h kf' vf x'.
Proof.
  intros Hsim Hk Hd. pose proof Hsim as (_ & Hh & _ & Hcs & _).
  destruct (key_delete_piece_image sg Hsg kf x o kf' (kfile_good kf Hk) Hh Hcs Hd) as (x' & Hr' & Hh' & Hfr & _).
  exists x'. split; [exact Hr'|]. eapply sim_kstep; eassumption.
Qed.

Lemma val_delete_step h kf vf x o vf' :
  sim h kf vf x -> vfile_ok vf -> Alloc.delete_piece val_cfg vf o = Ok vf' ->
  exists x', delete_piece val_cfg FVal o x = Ok x' /\ sim h kf vf' x'.
Proof.
  intros Hsim Hk Hd. pose proof Hsim as (_ & _ & Hh & _ & Hcs & _).
  destruct (val_delete_piece_image sg Hsg vf x o vf' (vfile_good vf Hk) Hh Hcs Hd) as (x' & Hr' & Hh' & Hfr & _).
  exists x'. split; [exact Hr'|]. eapply sim_vstep; eassumption.
Qed.

(** the table file *)
Lemma head_read_step h kf vf x i : sim h kf vf x -> hfile_ok h -> i < nb h ->
  exists x', read_key_piece_offset i x = Ok (head_at h i, x') /\ rot x x'.
Proof.
  intros (Hh & _) [Hw Hhd _ Hn Hc] Hi.
  (* tight: *) exact (rot_ex (read_key_piece_offset i) (read_key_piece_offset_calls i) x _
           (read_key_piece_offset_render sg h Hsg Hw Hhd Hn Hc x i Hh Hi)).
Qed.

Lemma hfile_write_head h i off : hfile_ok h -> i < nb h -> off < 2 ^ 64 -> off mod 8 = 0 ->
  hfile_ok (write_head h i off).
Proof.
  intros [Hw Hhd Hhd8 Hn Hc] Hi Ho Ho8. constructor.
  - apply htx_wf_write_head; assumption.
  - intros j. rewrite write_head_head_at. destruct (j =? i); [exact Ho|apply Hhd].
  - intros j. rewrite write_head_head_at. destruct (j =? i); [exact Ho8|apply Hhd8].
  - exact Hn.
  - exact Hc.
Qed.

Lemma head_write_step h kf vf x i off : sim h kf vf x -> hfile_ok h -> i < nb h -> off < 2 ^ 64 ->
  exists x', write_key_piece_offset (nb h) i off x = Ok x' /\ sim (write_head h i off) kf vf x'.
Proof.
  intros Hsim [Hw Hhd _ Hn Hc] Hi Ho. pose proof Hsim as (Hh & _).
  destruct (write_key_piece_offset_render sg h Hsg Hw Hhd Hn Hc x i off Hh Hi Ho) as (x' & Hr & Hst).
  exists x'. split; [exact Hr|]. eapply sim_hstep; eassumption.
Qed.

Lemma count_up_step h kf vf x : sim h kf vf x -> hfile_ok h -> count h + 1 < 2 ^ 64 ->
  exists x', write_item_count_up x = Ok x' /\ sim (count_up h) kf vf x'.
Proof.
  intros Hsim [Hw Hhd _ Hn Hc] Hc1. pose proof Hsim as (Hh & _).
  destruct (write_item_count_up_render sg h x Hsg Hw Hhd Hn Hc1 Hh) as (x' & Hr & Hst).
  exists x'. split; [exact Hr|]. eapply sim_hstep; eassumption.
Qed.

Lemma count_down_step h kf vf x : sim h kf vf x -> hfile_ok h ->
  exists x', write_item_count_down x = Ok x' /\ sim (count_down h) kf vf x'.
Proof.
  intros Hsim [Hw Hhd _ Hn Hc]. pose proof Hsim as (Hh & _).
  destruct (write_item_count_down_render sg h x Hsg Hw Hhd Hn Hc Hh) as (x' & Hr & Hst).
  exists x'. split; [exact Hr|]. eapply sim_hstep; eassumption.
Qed.

(** ** 5. the re-link cascade *)
Lemma chain_fuel_le kf x : kfile_ok kf -> hold key_cfg kslot_bytes sg FKey x kf ->
  (S (size (slots kf)) <= chain_fuel x)%nat.
Proof.
  intros Hk Hh. pose proof (kfile_good kf Hk) as Hg.
  unfold chain_fuel, walk_fuel.
  rewrite (hold_fend key_cfg kc_ok kslot_bytes sg Hsg FKey kf x Hg Hh).
  pose proof (slots_count key_cfg kc_ok kslot_bytes sg Hsg kfree_image kused_image kf Hg). lia.
Qed.

Lemma find_prev_sim : forall fuelS fuelI s target prev curr x pp,
  (fuelS <= fuelI)%nat -> sim (hx s) (keyf s) (valf s) x -> kfile_ok (keyf s) ->
  Store.find_prev fuelS s target prev curr = Ok pp ->
  exists x', find_prev_loop fuelI target prev curr x = Ok (pp, x') /\ rot x x'.
Proof.
  induction fuelS as [|fuelS IH]; intros fuelI s target prev curr x pp Hfu Hsim Hk Hp; [discriminate Hp|].
  destruct fuelI as [|fuelI]; [lia|]. cbn [Store.find_prev find_prev_loop] in *.
  destruct ((curr =? 0) || (curr =? target)).
  - injection Hp as <-. exists x. split; [reflexivity|apply rot_refl].
  - destruct (read_krec s curr) as [r| | |] eqn:Hrd; cbn [rbind] in Hp; try discriminate Hp.
    apply read_krec_inv in Hrd. apply used_lookup in Hrd as [sz Hs].
    pose proof Hsim as (_ & Hh & _).
    destruct (key_next_sim (keyf s) x curr sz r Hk Hh Hs) as (x1 & -> & R1). cbn [rbind].
    destruct (IH fuelI s target curr (k_next r) x1 pp ltac:(lia) (sim_ro _ _ _ _ _ Hsim R1) Hk Hp) as (x2 & E2 & R2).
    exists x2. split; [exact E2|]. eapply rot_trans; eassumption.
Qed.

Lemma relink_sim (m : mp) : forall fuelS fuelI s b prev newoff x s',
  (fuelS <= fuelI)%nat -> m_n m = nb (hx s) ->
  sim (hx s) (keyf s) (valf s) x -> kfile_ok (keyf s) -> hfile_ok (hx s) ->
  b < nb (hx s) -> newoff mod 8 = 0 -> newoff < 2 ^ 64 ->
  Alloc.fend (keyf s) + N.of_nat fuelS * 2 ^ 32 < 2 ^ 64 ->
  Store.relink fuelS s b prev newoff = Ok s' ->
  exists x', relink fuelI m b prev newoff x = Ok x' /\ sim (hx s') (keyf s') (valf s') x' /\
    kfile_ok (keyf s') /\ hfile_ok (hx s') /\ valf s' = valf s /\ kt s' = kt s /\
    nb (hx s') = nb (hx s) /\ count (hx s') = count (hx s).
Proof.
  induction fuelS as [|fuelS IH]; intros fuelI s b prev newoff x s' Hfu Hmn Hsim Hk Hh Hb Hn8 Hn Hroom Hp;
    [discriminate Hp|].
  destruct fuelI as [|fuelI]; [lia|]. cbn [Store.relink relink] in *.
  destruct (prev =? 0).
  - injection Hp as <-. rewrite Hmn.
    destruct (head_write_step (hx s) (keyf s) (valf s) x b newoff Hsim Hh Hb Hn) as (x' & -> & Hsim').
    exists x'. split; [reflexivity|]. cbn [set_hx hx keyf valf kt]. split; [exact Hsim'|]. split; [exact Hk|].
    split; [apply hfile_write_head; assumption|]. auto.
  - destruct (read_krec s prev) as [r| | |] eqn:Hrd; cbn [rbind] in Hp; try discriminate Hp.
    apply read_krec_inv in Hrd. pose proof Hrd as Hu. apply used_lookup in Hrd as [sz Hs].
    pose proof Hsim as (_ & Hhk & _).
    destruct (key_read_piece_sim (keyf s) x prev sz r Hk Hhk Hs) as (x1 & -> & R1). cbn [rbind].
    destruct (ko_rec _ Hk prev r Hu) as (Hkl & Hv8 & Hv & _).
    set (r' := KRec (k_key r) (k_voff r) newoff) in *.
    destruct (Alloc.write_piece key_cfg (krec_need r') (keyf s) (Some prev) r') as [[[kf poff] ksz]| | |] eqn:Hw;
      cbn [rbind] in Hp; try discriminate Hp.
    destruct (key_write_step (hx s) (keyf s) (valf s) x1 (k_key r) (k_voff r) newoff (Some prev) kf poff ksz
                (sim_ro _ _ _ _ _ Hsim R1) Hk Hkl Hv8 Hv Hn8 Hn) as (x2 & -> & Hsim2 & Hk2 & Hfe2 & Hp8 & Hplt & Hpnz & Hs2).
    { lia. }
    { intros o [= <-]. eauto. }
    { exact Hw. }
    cbn [rbind].
    destruct (poff =? prev).
    + injection Hp as <-. exists x2. split; [reflexivity|]. cbn [set_keyf hx keyf valf kt]. auto 10.
    + cbn [set_keyf hx keyf valf kt] in Hp.
      destruct (Store.find_prev (Store.chain_fuel (set_keyf s kf)) (set_keyf s kf) prev 0 (head_at (hx s) b))
        as [pp| | |] eqn:Hfp; cbn [rbind] in Hp; try discriminate Hp.
      unfold find_prev.
      destruct (head_read_step (hx s) kf (valf s) x2 b Hsim2 Hh Hb) as (x3 & -> & R3). cbn [rbind].
      pose proof (sim_ro _ _ _ _ _ Hsim2 R3) as Hsim3.
      destruct (find_prev_sim (Store.chain_fuel (set_keyf s kf)) (chain_fuel x3) (set_keyf s kf) prev 0
                  (head_at (hx s) b) x3 pp) as (x4 & -> & R4); try assumption.
      { unfold Store.chain_fuel. cbn [set_keyf keyf]. apply chain_fuel_le; [exact Hk2|apply Hsim3]. }
      cbn [rbind].
      destruct (IH fuelI (set_keyf s kf) b pp poff x4 s' ltac:(lia) Hmn (sim_ro _ _ _ _ _ Hsim3 R4) Hk2 Hh Hb Hp8 Hplt)
        as (x5 & E5 & H5); [cbn [set_keyf keyf]; lia|exact Hp|].
      exists x5. split; [exact E5|exact H5].
Qed.

(** the unlink step of [del] *)
Lemma unlink_sim (m : mp) s b r prev x s1 :
  m_n m = nb (hx s) ->
  sim (hx s) (keyf s) (valf s) x -> kfile_ok (keyf s) -> hfile_ok (hx s) ->
  b < nb (hx s) -> k_next r mod 8 = 0 -> k_next r < 2 ^ 64 ->
  (let F := Alloc.fend (keyf s) + 2 ^ 32 in F + (F / 8 + 2) * 2 ^ 32 < 2 ^ 64) ->
  unlink0 s b r prev = Ok s1 ->
  exists x',
    (if prev =? 0 then write_key_piece_offset (m_n m) b (k_next r) x
     else
       let* (_, pk, pvo, _, a1) := key_read_piece prev x in
       let* (poff, _, a2) := key_write_piece pk pvo (k_next r) (Some prev) a1 in
       if poff =? prev then Ok a2
       else
         let* (pp, a3) := find_prev m b prev a2 in
         relink (chain_fuel a3) m b pp poff a3) = Ok x' /\
    sim (hx s1) (keyf s1) (valf s1) x' /\
    kfile_ok (keyf s1) /\ hfile_ok (hx s1) /\ valf s1 = valf s /\ kt s1 = kt s /\
    nb (hx s1) = nb (hx s) /\ count (hx s1) = count (hx s).
Proof.
  intros Hmn Hsim Hk Hh Hb Hn8 Hn Hroom Hp. cbv zeta in Hroom. unfold unlink0 in Hp.
  set (F := Alloc.fend (keyf s) + 2 ^ 32) in *.
  destruct (prev =? 0).
  - injection Hp as <-. rewrite Hmn.
    destruct (head_write_step (hx s) (keyf s) (valf s) x b (k_next r) Hsim Hh Hb Hn) as (x' & -> & Hsim').
    exists x'. split; [reflexivity|]. cbn [set_hx hx keyf valf kt]. split; [exact Hsim'|]. split; [exact Hk|].
    split; [apply hfile_write_head; assumption|]. auto.
  - destruct (read_krec s prev) as [pr| | |] eqn:Hrd; cbn [rbind] in Hp; try discriminate Hp.
    apply read_krec_inv in Hrd. pose proof Hrd as Hu. apply used_lookup in Hrd as [sz Hs].
    pose proof Hsim as (_ & Hhk & _).
    destruct (key_read_piece_sim (keyf s) x prev sz pr Hk Hhk Hs) as (x1 & -> & R1). cbn [rbind].
    destruct (ko_rec _ Hk prev pr Hu) as (Hkl & Hv8 & Hv & _).
    set (r' := KRec (k_key pr) (k_voff pr) (k_next r)) in *.
    destruct (Alloc.write_piece key_cfg (krec_need r') (keyf s) (Some prev) r') as [[[kf poff] ksz]| | |] eqn:Hw;
      cbn [rbind] in Hp; try discriminate Hp.
    assert (HF : F + 2 ^ 32 <= 2 ^ 64) by (unfold F in *; lia).
    destruct (key_write_step (hx s) (keyf s) (valf s) x1 (k_key pr) (k_voff pr) (k_next r) (Some prev) kf poff ksz
                (sim_ro _ _ _ _ _ Hsim R1) Hk Hkl Hv8 Hv Hn8 Hn) as (x2 & -> & Hsim2 & Hk2 & Hfe2 & Hp8 & Hplt & Hpnz & Hs2).
    { unfold F in *. lia. }
    { intros o [= <-]. eauto. }
    { exact Hw. }
    cbn [rbind].
    destruct (poff =? prev).
    + injection Hp as <-. exists x2. split; [reflexivity|]. cbn [set_keyf hx keyf valf kt]. auto 10.
    + cbn [set_keyf hx keyf valf kt] in Hp.
      destruct (Store.find_prev (Store.chain_fuel (set_keyf s kf)) (set_keyf s kf) prev 0 (head_at (hx s) b))
        as [pp| | |] eqn:Hfp; cbn [rbind] in Hp; try discriminate Hp.
      unfold find_prev.
      destruct (head_read_step (hx s) kf (valf s) x2 b Hsim2 Hh Hb) as (x3 & -> & R3). cbn [rbind].
      pose proof (sim_ro _ _ _ _ _ Hsim2 R3) as Hsim3.
      pose proof (chain_fuel_le kf x3 Hk2 (proj1 (proj2 Hsim3))) as Hfu.
      destruct (find_prev_sim (Store.chain_fuel (set_keyf s kf)) (chain_fuel x3) (set_keyf s kf) prev 0
                  (head_at (hx s) b) x3 pp) as (x4 & -> & R4); try assumption.
      cbn [rbind].
      pose proof (sim_ro _ _ _ _ _ Hsim3 R4) as Hsim4.
      pose proof (chain_fuel_le kf x4 Hk2 (proj1 (proj2 Hsim4))) as Hfu4.
      destruct (relink_sim m (Store.chain_fuel (set_keyf s kf)) (chain_fuel x4) (set_keyf s kf) b pp poff x4 s1)
        as (x5 & E5 & H5); try assumption.
      { cbn [set_keyf keyf]. unfold Store.chain_fuel. cbn [set_keyf keyf].
        pose proof (slots_count key_cfg kc_ok kslot_bytes sg Hsg kfree_image kused_image kf (kfile_good kf Hk2)) as Hcnt.
        assert (Hd : Alloc.fend kf / 8 <= F / 8) by (apply N.div_le_mono; unfold F; lia).
        assert (Hm : N.of_nat (S (size (slots kf))) * 2 ^ 32 <= (F / 8 + 1) * 2 ^ 32)
          by (apply N.mul_le_mono_r; lia).
        unfold F in *. lia. }
      exists x5. split; [exact E5|exact H5].
Qed.

End sims.

Lemma sim_render s' x :
  sim (sig_of (kt s')) (hx s') (keyf s') (valf s') x ->
  render s' = Ok (fb (s_htx x), fb (s_key x), fb (s_val x)).
Proof.
  intros (A & B & C & _). unfold holds, hold in *. cbn [get_file] in *.
  unfold render. cbv zeta. rewrite B. cbn [rbind]. rewrite C. cbn [rbind]. rewrite A. reflexivity.
Qed.

Section top.
Context (s : store) (m : mp) (himg kimg vimg : bytes).
Hypothesis Hwf : wf_state s.
Hypothesis H64 : fits64 s.
Hypothesis Hr : render s = Ok (himg, kimg, vimg).
Hypothesis Hkt : m_kt m = kt s.
Hypothesis Hmn : m_n m = nb (hx s).
Hypothesis Him : Io.images m = (himg, kimg, vimg).
Hypothesis Hcsk : 0 < fcs (get_file (m_st m) FKey).
Hypothesis Hcsv : 0 < fcs (get_file (m_st m) FVal).
Hypothesis Hx0 : x0 = m_st m.    (* tight: the origin of the steps is the state of [m] *)

Let sg := sig_of (kt s).
Let Hsg : length sg = 8%nat := sig_len (kt s).

Lemma top_setup : exists ch kfr vfr,
  sinv s ch /\ alloc_inv key_cfg (keyf s) kfr /\ alloc_inv val_cfg (valf s) vfr /\
  render_pfile key_cfg kslot_bytes sg (keyf s) = Ok kimg /\
  render_pfile val_cfg vslot_bytes sg (valf s) = Ok vimg /\
  himg = render_htx sg (hx s) /\
  kfile_ok (keyf s) /\ vfile_ok (valf s) /\ hfile_ok (hx s) /\
  sim sg (hx s) (keyf s) (valf s) (m_st m) /\ holds3 s kimg vimg (m_st m).
Proof.
  destruct Hwf as (HI & Hfit & Hhwf).
  destruct (refine_setup s himg kimg vimg HI Hr) as (ch & kfr & vfr & Hinv & Hki & Hvi & Hrk & Hrv & Hh).
  exists ch, kfr, vfr. pose proof Hinv as [Hcore Hlinks].
  pose proof H64 as (Hnb & Hcnt & _ & Hkfe & Hvfe).
  assert (Hslot : forall off r, kheap s !! off = Some r -> krec_ok r /\ off mod 8 = 0).
  { intros off r Hrr.
    destruct (key_slot_at s ch Hinv Hfit H64 kfr vfr Hki Hvi kimg vimg Hrk Hrv off r Hrr)
      as (sz & rest & Hs & _ & _ & _ & _ & _ & Hv8 & Hv & Hn8 & Hn & _).
    destruct (co_kwf _ _ _ Hcore _ _ Hrr) as (_ & Hk & _).
    destruct (inv_slot key_cfg kc_ok _ _ _ _ Hki Hs) as (_ & Ho8 & _).
    unfold krec_ok. auto 10. }
  split; [exact Hinv|]. split; [exact Hki|]. split; [exact Hvi|]. split; [exact Hrk|]. split; [exact Hrv|].
  split; [exact Hh|].
  assert (HK : kfile_ok (keyf s)).
  { constructor; [eexists; exact Hki|exact (proj1 Hfit)|exact Hkfe|]. intros o r Hu. apply (Hslot o r Hu). }
  assert (HV : vfile_ok (valf s)).
  { constructor; [eexists; exact Hvi|exact (proj2 Hfit)|exact Hvfe|].
    intros o v Hu. destruct (co_vwf _ _ _ Hcore o v Hu) as [_ Hl]. exact Hl. }
  assert (HH : hfile_ok (hx s)).
  { constructor; [exact Hhwf| | |exact Hnb|exact Hcnt].
    - exact (heads_lt s ch Hinv Hfit Hhwf H64 kfr Hki kimg Hrk).
    - intros i. unfold head_at. destruct (buckets (hx s) !! i) as [v|] eqn:E; [|reflexivity].
      destruct (proj1 Hhwf _ _ E) as [Hnz Hi]. pose proof (Hlinks _ Hi) as Hl.
      unfold links_ok, chain, head_at in Hl. rewrite E in Hl. change (default 0 (Some v)) with v in *.
      destruct (ch i) as [|o l]; [apply seg_nil_inv in Hl; congruence|].
      apply seg_cons_inv in Hl as (-> & _ & r & Hrr & _). apply (Hslot _ _ Hrr). }
  split; [exact HK|]. split; [exact HV|]. split; [exact HH|].
  unfold Io.images in Him. injection Him as A B C.
  split.
  - unfold sim, holds, hold. cbn [get_file]. rewrite A, B, C. subst himg. rewrite Hx0. auto 10 using tight_refl.
  - unfold holds3. cbn [get_file]. subst himg. auto.
Qed.

Lemma bucket_eq key : Io.bucket m key = Store.bucket s key.
Proof. unfold Io.bucket, Store.bucket, bucket_of. rewrite Hmn. reflexivity. Qed.

Lemma images_with x : Io.images (with_st m x) = (fb (s_htx x), fb (s_key x), fb (s_val x)).
Proof. reflexivity. Qed.

Lemma fin_sim s' x : sim (sig_of (kt s')) (hx s') (keyf s') (valf s') x ->
  render s' = Ok (Io.images (with_st m x)) /\ Io.images (with_st m x) = Io.images (with_st m x) /\
  m_kt (with_st m x) = m_kt m /\ m_n (with_st m x) = m_n m /\
  0 < fcs (get_file (m_st (with_st m x)) FKey) /\ 0 < fcs (get_file (m_st (with_st m x)) FVal) /\
  tight (m_st m) (m_st (with_st m x)).
Proof.
  intros H. split; [rewrite images_with; apply sim_render; exact H|].
  destruct H as (_ & _ & _ & A & B & T). rewrite Hx0 in T. cbn [with_st m_st m_kt m_n]. auto 10.
Qed.

(** *** [put] *)
Theorem put0_refines key v s' :
  room s -> blen key < 2 ^ 31 -> blen v < 2 ^ 31 ->
  put0 s key v = Ok s' ->
  exists m' imgs', Io.put m key v = Ok m' /\ render s' = Ok imgs' /\ Io.images m' = imgs' /\
    m_kt m' = m_kt m /\ m_n m' = m_n m /\
    0 < fcs (get_file (m_st m') FKey) /\ 0 < fcs (get_file (m_st m') FVal) /\ tight (m_st m) (m_st m').
Proof.
  intros (Hroomk & Hroomv & Hroomc) Hkl Hvl Hput. cbv zeta in Hroomk.
  destruct top_setup as (ch & kfr & vfr & Hinv & Hki & Hvi & Hrk & Hrv & Hh & HK & HV & HH & Hsim & H3).
  destruct Hwf as (HI & Hfit & Hhwf). pose proof Hinv as [Hcore Hlinks].
  assert (Hb : Store.bucket s key < nb (hx s)) by (apply (home_lt s key (co_n _ _ _ Hcore))).
  set (F := Alloc.fend (keyf s) + 2 ^ 32) in *.
  assert (HF1 : Alloc.fend (keyf s) + 2 ^ 32 < 2 ^ 64) by (unfold F in *; lia).
  unfold put0 in Hput. unfold Io.put. cbv zeta. rewrite bucket_eq.
  destruct (Store.find s key) as [o| | |] eqn:Hf; cbn [rbind] in Hput; try discriminate Hput.
  destruct (rot_ex (find m key) (find_calls m key) _ _ (* tight: *)
              (find_refines_st s ch Hinv Hfit Hhwf H64 kfr vfr Hki Hvi kimg vimg Hrk Hrv m Hkt Hmn key o (m_st m) H3 Hf))
    as (x1 & -> & R1). cbn [rbind].
  pose proof (sim_ro sg _ _ _ _ _ Hsim R1) as Hsim1.
  destruct o as [[koff prev]|].
  - (* the key is present *)
    destruct (read_krec s koff) as [r| | |] eqn:Hrd; cbn [rbind] in Hput; try discriminate Hput.
    apply read_krec_inv in Hrd. pose proof Hrd as Hu. apply used_lookup in Hrd as [ksz Hs].
    destruct (read_val s (k_voff r)) as [v0| | |] eqn:Hrv0; cbn [rbind] in Hput; try discriminate Hput.
    apply read_val_inv in Hrv0. pose proof Hrv0 as Huv. apply used_lookup in Hrv0 as [vsz Hsv].
    destruct (ko_rec _ HK koff r Hu) as (Hrk1 & Hv8 & Hv & Hn8 & Hn).
    destruct (key_read_piece_sim sg Hsg (keyf s) x1 koff ksz r HK (proj1 (proj2 Hsim1)) Hs) as (x2 & -> & R2). cbn [rbind].
    pose proof (sim_ro sg _ _ _ _ _ Hsim1 R2) as Hsim2.
    destruct (val_read_piece_sim sg Hsg (valf s) x2 _ vsz v0 HV (proj1 (proj2 (proj2 Hsim2))) Hsv) as (x3 & -> & R3). cbn [rbind].
    pose proof (sim_ro sg _ _ _ _ _ Hsim2 R3) as Hsim3.
    destruct (Alloc.write_piece val_cfg (val_need (blen v)) (valf s) (Some (k_voff r)) v) as [[[vf voff] vsz']| | |] eqn:Hwv;
      cbn [rbind] in Hput; try discriminate Hput.
    destruct (val_write_step sg Hsg (hx s) (keyf s) (valf s) x3 v (Some (k_voff r)) vf voff vsz' Hsim3 HV Hvl Hroomv)
      as (x4 & -> & Hsim4 & HV4 & Hvo8 & Hvolt & Hvonz & Hsv4); [intros o [= <-]; eauto|exact Hwv|].
    cbn [rbind].
    destruct (voff =? k_voff r).
    + injection Hput as <-. do 2 eexists. split; [reflexivity|]. apply fin_sim. cbn [set_valf kt hx keyf valf]. exact Hsim4.
    + cbn [set_valf keyf] in Hput.
      set (r' := KRec (k_key r) voff (k_next r)) in *.
      destruct (Alloc.write_piece key_cfg (krec_need r') (keyf s) (Some koff) r') as [[[kf koff'] ksz']| | |] eqn:Hwk;
        cbn [rbind] in Hput; try discriminate Hput.
      destruct (key_write_step sg Hsg (hx s) (keyf s) vf x4 (k_key r) voff (k_next r) (Some koff) kf koff' ksz'
                  Hsim4 HK Hrk1 Hvo8 Hvolt Hn8 Hn HF1)
        as (x5 & -> & Hsim5 & HK5 & Hfe5 & Hko8 & Hkolt & Hkonz & Hs5); [intros o [= <-]; eauto|exact Hwk|].
      cbn [rbind].
      destruct (koff' =? koff).
      * injection Hput as <-. do 2 eexists. split; [reflexivity|]. apply fin_sim. cbn [set_keyf set_valf kt hx keyf valf]. exact Hsim5.
      * set (s2 := set_keyf (set_valf s vf) kf) in *.
        destruct (relink_sim sg Hsg m (Store.chain_fuel s2) (chain_fuel x5) s2 (Store.bucket s key) prev koff' x5 s')
          as (x6 & -> & Hsim6 & _ & _ & _ & Hkt6 & _); try assumption.
        { unfold Store.chain_fuel, s2. cbn [set_keyf keyf]. apply (chain_fuel_le sg Hsg); [exact HK5|apply Hsim5]. }
        { unfold Store.chain_fuel, s2. cbn [set_keyf set_valf keyf].
          pose proof (slots_count key_cfg kc_ok kslot_bytes sg Hsg kfree_image kused_image kf (kfile_good sg Hsg kf HK5)) as Hcnt.
          assert (Hd : Alloc.fend kf / 8 <= F / 8) by (apply N.div_le_mono; unfold F; lia).
          assert (Hm : N.of_nat (S (size (slots kf))) * 2 ^ 32 <= (F / 8 + 1) * 2 ^ 32)
            by (apply N.mul_le_mono_r; lia).
          unfold F in *. lia. }
        cbn [rbind]. do 2 eexists. split; [reflexivity|]. apply fin_sim. rewrite Hkt6. exact Hsim6.
  - (* a new key *)
    destruct (Alloc.write_piece val_cfg (val_need (blen v)) (valf s) None v) as [[[vf voff] vsz']| | |] eqn:Hwv;
      cbn [rbind] in Hput; try discriminate Hput.
    set (nxt := head_at (hx s) (Store.bucket s key)) in *.
    destruct (Alloc.write_piece key_cfg (krec_need (KRec key voff nxt)) (keyf s) None (KRec key voff nxt))
      as [[[kf koff] ksz']| | |] eqn:Hwk; cbn [rbind] in Hput; try discriminate Hput.
    injection Hput as <-.
    destruct (head_read_step sg Hsg (hx s) (keyf s) (valf s) x1 _ Hsim1 HH Hb) as (x2 & -> & R2). cbn [rbind].
    fold nxt.
    pose proof (sim_ro sg _ _ _ _ _ Hsim1 R2) as Hsim2.
    destruct (val_write_step sg Hsg (hx s) (keyf s) (valf s) x2 v None vf voff vsz' Hsim2 HV Hvl Hroomv)
      as (x3 & -> & Hsim3 & HV3 & Hvo8 & Hvolt & Hvonz & Hsv3); [intros o [= ]|exact Hwv|].
    cbn [rbind].
    destruct (key_write_step sg Hsg (hx s) (keyf s) vf x3 key voff nxt None kf koff ksz'
                Hsim3 HK Hkl Hvo8 Hvolt (ho_heads8 _ HH _) (ho_heads _ HH _) HF1)
      as (x4 & -> & Hsim4 & HK4 & Hfe4 & Hko8 & Hkolt & Hkonz & Hs4); [intros o [= ]|exact Hwk|].
    cbn [rbind].
    destruct (head_write_step sg Hsg (hx s) kf vf x4 _ koff Hsim4 HH Hb Hkolt) as (x5 & E5 & Hsim5).
    rewrite <- Hmn in E5. rewrite E5. cbn [rbind].
    destruct (count_up_step sg Hsg _ kf vf x5 Hsim5 (hfile_write_head _ _ _ HH Hb Hkolt Hko8) Hroomc) as (x6 & -> & Hsim6).
    cbn [rbind]. do 2 eexists. split; [reflexivity|]. apply fin_sim. cbn [kt hx keyf valf]. exact Hsim6.
Qed.

(** *** [del] *)
Theorem del0_refines key s' r :
  room s -> del0 s key = Ok (s', r) ->
  exists m' imgs', Io.del m key = Ok (r, m') /\ render s' = Ok imgs' /\ Io.images m' = imgs' /\
    m_kt m' = m_kt m /\ m_n m' = m_n m /\
    0 < fcs (get_file (m_st m') FKey) /\ 0 < fcs (get_file (m_st m') FVal) /\ tight (m_st m) (m_st m').
Proof.
  intros (Hroomk & Hroomv & Hroomc) Hdel.
  destruct top_setup as (ch & kfr & vfr & Hinv & Hki & Hvi & Hrk & Hrv & Hh & HK & HV & HH & Hsim & H3).
  destruct Hwf as (HI & Hfit & Hhwf). pose proof Hinv as [Hcore Hlinks].
  assert (Hb : Store.bucket s key < nb (hx s)) by (apply (home_lt s key (co_n _ _ _ Hcore))).
  unfold del0 in Hdel. unfold Io.del. cbv zeta. rewrite bucket_eq.
  destruct (Store.find s key) as [o| | |] eqn:Hf; cbn [rbind] in Hdel; try discriminate Hdel.
  destruct (rot_ex (find m key) (find_calls m key) _ _ (* tight: *)
              (find_refines_st s ch Hinv Hfit Hhwf H64 kfr vfr Hki Hvi kimg vimg Hrk Hrv m Hkt Hmn key o (m_st m) H3 Hf))
    as (x1 & -> & R1). cbn [rbind].
  pose proof (sim_ro sg _ _ _ _ _ Hsim R1) as Hsim1.
  destruct o as [[koff prev]|].
  - destruct (read_krec s koff) as [rk| | |] eqn:Hrd; cbn [rbind] in Hdel; try discriminate Hdel.
    apply read_krec_inv in Hrd. pose proof Hrd as Hu. apply used_lookup in Hrd as [ksz Hs].
    destruct (read_val s (k_voff rk)) as [v0| | |] eqn:Hrv0; cbn [rbind] in Hdel; try discriminate Hdel.
    apply read_val_inv in Hrv0. pose proof Hrv0 as Huv. apply used_lookup in Hrv0 as [vsz Hsv].
    destruct (ko_rec _ HK koff rk Hu) as (Hrk1 & Hv8 & Hv & Hn8 & Hn).
    destruct (key_read_piece_sim sg Hsg (keyf s) x1 koff ksz rk HK (proj1 (proj2 Hsim1)) Hs) as (x2 & -> & R2). cbn [rbind].
    pose proof (sim_ro sg _ _ _ _ _ Hsim1 R2) as Hsim2.
    destruct (val_payload_sim sg Hsg (valf s) x2 _ vsz v0 HV (proj1 (proj2 (proj2 Hsim2))) Hsv) as (x3 & -> & R3). cbn [rbind].
    pose proof (sim_ro sg _ _ _ _ _ Hsim2 R3) as Hsim3.
    destruct (unlink0 s (Store.bucket s key) rk prev) as [s1| | |] eqn:Hun; cbn [rbind] in Hdel; try discriminate Hdel.
    destruct (unlink_sim sg Hsg m s _ rk prev x3 s1 Hmn Hsim3 HK HH Hb Hn8 Hn Hroomk Hun)
      as (x4 & -> & Hsim4 & HK4 & HH4 & Hvf4 & Hkt4 & Hnb4 & Hcnt4).
    cbn [rbind].
    destruct (Alloc.delete_piece val_cfg (valf s1) (k_voff rk)) as [vf| | |] eqn:Hdv; cbn [rbind] in Hdel; try discriminate Hdel.
    destruct (Alloc.delete_piece key_cfg (keyf s1) koff) as [kf| | |] eqn:Hdk; cbn [rbind] in Hdel; try discriminate Hdel.
    injection Hdel as <- <-.
    assert (HV4 : vfile_ok (valf s1)) by (rewrite Hvf4; exact HV).
    destruct (val_delete_step sg Hsg _ _ _ x4 _ vf Hsim4 HV4 Hdv) as (x5 & -> & Hsim5). cbn [rbind].
    destruct (key_delete_step sg Hsg _ _ _ x5 _ kf Hsim5 HK4 Hdk) as (x6 & -> & Hsim6). cbn [rbind].
    destruct (count_down_step sg Hsg _ kf vf x6 Hsim6 HH4) as (x7 & -> & Hsim7). cbn [rbind].
    do 2 eexists. split; [reflexivity|]. apply fin_sim. cbn [kt hx keyf valf]. rewrite Hkt4. exact Hsim7.
  - injection Hdel as <- <-. do 2 eexists. split; [reflexivity|]. apply fin_sim. exact Hsim1.
Qed.

End top.

End with_origin.

(** ** 7. the statements on [Store.put] / [Store.del] ([touch] is invisible to [render]) *)
Lemma wf_state_touch s : wf_state s -> wf_state (touch s).
Proof.
  intros ((ch & Hs) & Hf & Hw). split; [exists ch; apply sinvo_touch; exact Hs|]. split; [exact Hf|exact Hw].
Qed.

Theorem put_refines s m himg kimg vimg key v s' :
  wf_state s -> fits64 s -> render s = Ok (himg, kimg, vimg) ->
  m_kt m = kt s -> m_n m = nb (hx s) -> Io.images m = (himg, kimg, vimg) ->
  0 < fcs (get_file (m_st m) FKey) -> 0 < fcs (get_file (m_st m) FVal) ->
  room s -> blen key < 2 ^ 31 -> blen v < 2 ^ 31 ->
  Store.put s key v = Ok s' ->
  exists m' imgs', Io.put m key v = Ok m' /\ render s' = Ok imgs' /\ Io.images m' = imgs' /\
    m_kt m' = m_kt m /\ m_n m' = m_n m /\
    0 < fcs (get_file (m_st m') FKey) /\ 0 < fcs (get_file (m_st m') FVal) /\ tight (m_st m) (m_st m').
Proof.
  intros Hwf H64 Hr Hkt Hmn Him Hck Hcv Hroom Hkl Hvl Hput. rewrite put_put0 in Hput.
  apply (put0_refines (m_st m) (touch s) m himg kimg vimg (wf_state_touch s Hwf) H64 Hr Hkt Hmn Him Hck Hcv eq_refl key v s' Hroom Hkl Hvl Hput).
Qed.

Theorem del_refines s m himg kimg vimg key s' r :
  wf_state s -> fits64 s -> render s = Ok (himg, kimg, vimg) ->
  m_kt m = kt s -> m_n m = nb (hx s) -> Io.images m = (himg, kimg, vimg) ->
  0 < fcs (get_file (m_st m) FKey) -> 0 < fcs (get_file (m_st m) FVal) ->
  room s ->
  Store.del s key = Ok (s', r) ->
  exists m' imgs', Io.del m key = Ok (r, m') /\ render s' = Ok imgs' /\ Io.images m' = imgs' /\
    m_kt m' = m_kt m /\ m_n m' = m_n m /\
    0 < fcs (get_file (m_st m') FKey) /\ 0 < fcs (get_file (m_st m') FVal) /\ tight (m_st m) (m_st m').
Proof.
  intros Hwf H64 Hr Hkt Hmn Him Hck Hcv Hroom Hdel. rewrite del_del0 in Hdel.
  apply (del0_refines (m_st m) (touch s) m himg kimg vimg (wf_state_touch s Hwf) H64 Hr Hkt Hmn Him Hck Hcv eq_refl key s' r Hroom Hdel).
Qed.

(** ** PART 5. [put], [del], one call, a history: inside the domain of the cache theorem *)

(** the table file of a map that holds the images of [s] ends at [hend (hx s)] *)
Lemma images_fend_htx s (imgs : bytes * bytes * bytes) m : htx_wf (hx s) -> render s = Ok imgs -> Io.images m = imgs ->
  fend (get_file (m_st m) FHtx) = hend (hx s).
Proof.
  intros Hw Hr Him. destruct imgs as [[himg kimg] vimg].
  unfold Io.images in Him. injection Him as A _ _. unfold fend. cbn [get_file]. rewrite A.
  unfold render in Hr. cbv zeta in Hr.
  destruct (render_pfile key_cfg kslot_bytes (sig_of (kt s)) (keyf s)) as [ki| | |]; cbn [rbind] in Hr; try discriminate Hr.
  destruct (render_pfile val_cfg vslot_bytes (sig_of (kt s)) (valf s)) as [vi| | |]; cbn [rbind] in Hr; try discriminate Hr.
  injection Hr as <- _ _. apply render_htx_blen; [apply sig_len|]. destruct Hw as (_ & H & _). lia.
Qed.

Lemma pow2_pos n : pow2 n -> 1 <= n.
Proof. intros [k ->]. pose proof (N.pow_nonzero 2 k). lia. Qed.

(** a tight step between two maps holding the images of [s] and [s'] (same number of buckets,
    table files within one byte of the end [create] gives) is inside the domain *)
Lemma tight_step_in_domain s s' m m' :
  htx_wf (hx s) -> htx_wf (hx s') -> render s = Ok (Io.images m) -> render s' = Ok (Io.images m') ->
  nb (hx s') = nb (hx s) -> hend (hx s') <= table_end (nb (hx s')) + 1 ->
  pow2 (nb (hx s)) -> pow2 (fcs (get_file (m_st m) FHtx)) -> 4096 <= fcs (get_file (m_st m) FHtx) ->
  tight (m_st m) (m_st m') -> in_domain (m_st m) (m_st m').
Proof.
  intros Hw Hw' Hr Hr' Hnb He' Hpn Hpc Hc T.
  apply (tight_in_domain (nb (hx s)) _ _ T Hpn Hpc); [lia| |].
  - rewrite (images_fend_htx s _ m Hw Hr eq_refl). destruct Hw as (_ & H & _). unfold table_end. lia.
  - rewrite (images_fend_htx s' _ m' Hw' Hr' eq_refl). rewrite <- Hnb. exact He'.
Qed.

(** THEOREM 1a.  Under the hypotheses of [Io_proofs.Io_d_put], for a map of the crate (a power of
    two of buckets, table-file chunks a power of two >= 4096, the table file at most one byte
    longer than [create] made it): [Io.put] returns [Ok], leaves the images of [s'], and its calls
    are inside the domain of the cache theorem.  (The chunk sizes of the key and value files do
    not matter: no read of an updating operation ends beyond the end of those files.) *)
Theorem put_in_domain s m himg kimg vimg key v s' :
  wf_state s -> fits64 s -> render s = Ok (himg, kimg, vimg) ->
  m_kt m = kt s -> m_n m = nb (hx s) -> Io.images m = (himg, kimg, vimg) ->
  0 < fcs (get_file (m_st m) FKey) -> 0 < fcs (get_file (m_st m) FVal) ->
  room s -> blen key < 2 ^ 31 -> blen v < 2 ^ 31 ->
  pow2 (m_n m) -> pow2 (fcs (get_file (m_st m) FHtx)) -> 4096 <= fcs (get_file (m_st m) FHtx) ->
  hend (hx s) <= table_end (nb (hx s)) + 1 ->
  Store.put s key v = Ok s' ->
  exists m', Io.put m key v = Ok m' /\ render s' = Ok (Io.images m') /\
    m_kt m' = m_kt m /\ m_n m' = m_n m /\
    0 < fcs (get_file (m_st m') FKey) /\ 0 < fcs (get_file (m_st m') FVal) /\
    nb (hx s') = nb (hx s) /\ hend (hx s') <= table_end (nb (hx s')) + 1 /\
    in_domain (m_st m) (m_st m').
Proof.
  intros Hwf H64 Hr Hkt Hmn Him Hck Hcv Hroom Hkl Hvl Hpn Hpc Hc He Hput.
  destruct (put_refines s m himg kimg vimg key v s' Hwf H64 Hr Hkt Hmn Him Hck Hcv Hroom Hkl Hvl Hput)
    as (m' & imgs' & Hp & Hr' & Hi' & Hkt' & Hn' & Hck' & Hcv' & T).
  pose proof Hwf as (_ & _ & Hw). rewrite Hmn in Hpn.
  destruct (hwfe_put_same s key v s' (pow2_pos _ Hpn) (conj Hw He) Hput) as [[Hw' He'] Hnb].
  subst imgs'. rewrite <- Him in Hr.
  exists m'. repeat (split; [assumption|]).
  exact (tight_step_in_domain s s' m m' Hw Hw' Hr Hr' Hnb He' Hpn Hpc Hc T).
Qed.

(** THEOREM 1b.  The same for [Io.del], under the hypotheses of [Io_proofs.Io_d_del]. *)
Theorem del_in_domain s m himg kimg vimg key s' r :
  wf_state s -> fits64 s -> render s = Ok (himg, kimg, vimg) ->
  m_kt m = kt s -> m_n m = nb (hx s) -> Io.images m = (himg, kimg, vimg) ->
  0 < fcs (get_file (m_st m) FKey) -> 0 < fcs (get_file (m_st m) FVal) ->
  room s ->
  pow2 (m_n m) -> pow2 (fcs (get_file (m_st m) FHtx)) -> 4096 <= fcs (get_file (m_st m) FHtx) ->
  hend (hx s) <= table_end (nb (hx s)) + 1 ->
  Store.del s key = Ok (s', r) ->
  exists m', Io.del m key = Ok (r, m') /\ render s' = Ok (Io.images m') /\
    m_kt m' = m_kt m /\ m_n m' = m_n m /\
    0 < fcs (get_file (m_st m') FKey) /\ 0 < fcs (get_file (m_st m') FVal) /\
    nb (hx s') = nb (hx s) /\ hend (hx s') <= table_end (nb (hx s')) + 1 /\
    in_domain (m_st m) (m_st m').
Proof.
  intros Hwf H64 Hr Hkt Hmn Him Hck Hcv Hroom Hpn Hpc Hc He Hdel.
  destruct (del_refines s m himg kimg vimg key s' r Hwf H64 Hr Hkt Hmn Him Hck Hcv Hroom Hdel)
    as (m' & imgs' & Hp & Hr' & Hi' & Hkt' & Hn' & Hck' & Hcv' & T).
  pose proof Hwf as (_ & _ & Hw). rewrite Hmn in Hpn.
  destruct (hwfe_del_same s key s' r (pow2_pos _ Hpn) (conj Hw He) Hdel) as [[Hw' He'] Hnb].
  subst imgs'. rewrite <- Him in Hr.
  exists m'. repeat (split; [assumption|]).
  exact (tight_step_in_domain s s' m m' Hw Hw' Hr Hr' Hnb He' Hpn Hpc Hc T).
Qed.

(** in the form "the step satisfies": whatever [Io.put] / [Io.del] returned *)
Corollary put_step_in_domain s m himg kimg vimg key v s' m' :
  wf_state s -> fits64 s -> render s = Ok (himg, kimg, vimg) ->
  m_kt m = kt s -> m_n m = nb (hx s) -> Io.images m = (himg, kimg, vimg) ->
  0 < fcs (get_file (m_st m) FKey) -> 0 < fcs (get_file (m_st m) FVal) ->
  room s -> blen key < 2 ^ 31 -> blen v < 2 ^ 31 ->
  pow2 (m_n m) -> pow2 (fcs (get_file (m_st m) FHtx)) -> 4096 <= fcs (get_file (m_st m) FHtx) ->
  hend (hx s) <= table_end (nb (hx s)) + 1 ->
  Store.put s key v = Ok s' -> Io.put m key v = Ok m' -> in_domain (m_st m) (m_st m').
Proof.
  intros Hwf H64 Hr Hkt Hmn Him Hck Hcv Hroom Hkl Hvl Hpn Hpc Hc He Hput E.
  destruct (put_in_domain s m himg kimg vimg key v s' Hwf H64 Hr Hkt Hmn Him Hck Hcv Hroom Hkl Hvl Hpn Hpc Hc He Hput)
    as (m2 & E2 & H). rewrite E in E2. injection E2 as <-. apply H.
Qed.

Corollary del_step_in_domain s m himg kimg vimg key s' r r' m' :
  wf_state s -> fits64 s -> render s = Ok (himg, kimg, vimg) ->
  m_kt m = kt s -> m_n m = nb (hx s) -> Io.images m = (himg, kimg, vimg) ->
  0 < fcs (get_file (m_st m) FKey) -> 0 < fcs (get_file (m_st m) FVal) ->
  room s ->
  pow2 (m_n m) -> pow2 (fcs (get_file (m_st m) FHtx)) -> 4096 <= fcs (get_file (m_st m) FHtx) ->
  hend (hx s) <= table_end (nb (hx s)) + 1 ->
  Store.del s key = Ok (s', r) -> Io.del m key = Ok (r', m') -> in_domain (m_st m) (m_st m').
Proof.
  intros Hwf H64 Hr Hkt Hmn Him Hck Hcv Hroom Hpn Hpc Hc He Hdel E.
  destruct (del_in_domain s m himg kimg vimg key s' r Hwf H64 Hr Hkt Hmn Him Hck Hcv Hroom Hpn Hpc Hc He Hdel)
    as (m2 & E2 & H). rewrite E in E2. injection E2 as _ <-. apply H.
Qed.

(** the hypotheses on the map that a history keeps *)
Definition crate_map (s : store) (m : mp) : Prop :=
  pow2 (m_n m) /\ pow2 (fcs (get_file (m_st m) FHtx)) /\ 4096 <= fcs (get_file (m_st m) FHtx) /\
  hend (hx s) <= table_end (nb (hx s)) + 1.

Lemma in_domain_fcs s s' f : in_domain s s' -> fcs (get_file s' f) = fcs (get_file s f).
Proof. intros (cf & evs & _ & T & _). apply T. Qed.

(** THEOREM 2a.  One API call ([Io_run.io_step_refines] with the domain statement). *)
Theorem io_step_in_domain s sp m o s1 r :
  wf_state s -> represents s sp -> simg s m -> op_wf (kt s) o -> fits64 s -> room s ->
  crate_map s m ->
  store_step s o = Ok (s1, r) ->
  exists m1, io_step m o = Ok (m1, r) /\ simg s1 m1 /\
    wf_state s1 /\ represents s1 (fst (spec_step sp o)) /\ kt s1 = kt s /\ r = snd (spec_step sp o) /\
    crate_map s1 m1 /\ in_domain (m_st m) (m_st m1).
Proof.
  intros Hwf HR Hsim Hw H64 Hroom (Hpn & Hpc & Hc & He) Hs.
  destruct (io_step_refines s sp m o s1 r Hwf HR Hsim Hw H64 Hroom Hs) as (m1 & Hio & Hsim1 & Hwf1 & HR1 & Hkt1 & Hrr).
  destruct Hsim as (Hr & Hkt & Hn & Hck & Hcv).
  pose proof Hwf as (_ & _ & Hhw). pose proof Hpn as Hpn'. rewrite Hn in Hpn'.
  destruct (hwfe_step s o s1 r (pow2_pos _ Hpn') (conj Hhw He) Hs) as [[_ He1] Hnb1].
  destruct (images_eta m) as (hi & ki & vi & Him). rewrite Him in Hr.
  assert (Hcf : chunk_free (m_st m))
    by (apply (chunk_free_images s hi ki vi m); try assumption; lia).
  assert (Hdom : in_domain (m_st m) (m_st m1)).
  { destruct o as [k v | k | k | k | |]; cbn [store_step] in Hs; cbn [io_step op_wf] in *.
    - destruct (Store.put s k v) as [s'| | |] eqn:E; cbn [rbind] in Hs; try discriminate. injection Hs as <- <-.
      destruct Hw as [(_ & Hkl & _) (_ & Hvl)].
      apply rbind_ok in Hio as (m' & Ep & Hio). injection Hio as <-.
      exact (put_step_in_domain s m hi ki vi k v s' m' Hwf H64 Hr Hkt Hn Him Hck Hcv Hroom Hkl Hvl Hpn Hpc Hc He E Ep).
    - destruct (Store.get s k) as [rr| | |] eqn:E; cbn [rbind] in Hs; try discriminate. injection Hs as <- <-.
      destruct (get_in_domain s hi ki vi m Hwf H64 Hr Hkt Hn Him Hcf k rr E) as (m' & Hg & Hd & _).
      rewrite Hg in Hio. cbn [rbind] in Hio. injection Hio as <-. exact Hd.
    - destruct (Store.del s k) as [[s' rr]| | |] eqn:E; cbn [rbind] in Hs; try discriminate. injection Hs as <- <-.
      apply rbind_ok in Hio as ([r' m'] & Ep & Hio). cbv beta iota in Hio. injection Hio as <- _.
      exact (del_step_in_domain s m hi ki vi k s' rr r' m' Hwf H64 Hr Hkt Hn Him Hck Hcv Hroom Hpn Hpc Hc He E Ep).
    - destruct (Store.has s k) as [b| | |] eqn:E; cbn [rbind] in Hs; try discriminate. injection Hs as <- <-.
      destruct (has_in_domain s hi ki vi m Hwf H64 Hr Hkt Hn Him Hcf k b E) as (m' & Hg & Hd & _).
      rewrite Hg in Hio. cbn [rbind] in Hio. injection Hio as <-. exact Hd.
    - injection Hs as <- <-.
      destruct (len_in_domain s hi ki vi m Hwf H64 Hr Him Hcf) as (m' & Hg & Hd & _).
      rewrite Hg in Hio. cbn [rbind] in Hio. injection Hio as <-. exact Hd.
    - injection Hs as <- <-.
      destruct (len_in_domain s hi ki vi m Hwf H64 Hr Him Hcf) as (m' & Hg & Hd & _).
      rewrite Hg in Hio. cbn [rbind] in Hio. injection Hio as <-. exact Hd. }
  exists m1. repeat (split; [assumption|]). split; [|exact Hdom].
  pose proof Hsim1 as (_ & _ & Hn1 & _).
  unfold crate_map. split; [rewrite Hn1, Hnb1, <- Hn; exact Hpn|].
  rewrite (in_domain_fcs _ _ FHtx Hdom). auto.
Qed.

(** THEOREM 2b.  Histories ([Io_run.io_run_refines] with the domain statement). *)
Theorem io_run_in_domain ops : forall s sp m s' outs,
  wf_state s -> represents s sp -> simg s m -> Forall (op_wf (kt s)) ops -> sized s ops ->
  crate_map s m ->
  store_run s ops = Ok (s', outs) ->
  exists m', io_run m ops = Ok (m', outs) /\ simg s' m' /\ wf_state s' /\
    represents s' (fst (spec_run sp ops)) /\ outs = snd (spec_run sp ops) /\
    crate_map s' m' /\ in_domain (m_st m) (m_st m').
Proof.
  induction ops as [|o ops IH]; intros s sp m s' outs Hwf HR Hsim Hw Hsz Hcm Hrun.
  - cbn [store_run] in Hrun. injection Hrun as <- <-. exists m. cbn. repeat (split; [solve [auto]|]). apply in_domain_refl.
  - cbn [store_run] in Hrun.
    destruct (store_step s o) as [[s1 r]| | |] eqn:E1; cbn [rbind] in Hrun; try discriminate.
    destruct (store_run s1 ops) as [[s2 rs]| | |] eqn:E2; cbn [rbind] in Hrun; try discriminate.
    injection Hrun as <- <-.
    inversion Hw as [|? ? Ho Hops]; subst.
    destruct (sized_here _ _ Hsz) as [H64 Hroom].
    destruct (io_step_in_domain s sp m o s1 r Hwf HR Hsim Ho H64 Hroom Hcm E1)
      as (m1 & Hio & Hsim1 & Hwf1 & HR1 & Hkt1 & Hr & Hcm1 & Hd1).
    assert (Hsz1 : sized s1 ops) by (cbn [sized] in Hsz; destruct Hsz as (_ & _ & H); exact (H s1 r E1)).
    rewrite <- Hkt1 in Hops.
    destruct (IH s1 _ m1 s2 rs Hwf1 HR1 Hsim1 Hops Hsz1 Hcm1 E2) as (m2 & Hio2 & Hsim2 & Hwf2 & HR2 & Hrs & Hcm2 & Hd2).
    exists m2. cbn [io_run spec_run]. rewrite Hio. cbn [rbind]. rewrite Hio2. cbn [rbind].
    destruct (spec_step sp o) as [sp1 r0] eqn:Es. cbn [fst snd] in *.
    destruct (spec_run sp1 ops) as [sp2 rs0] eqn:Er. cbn [fst snd] in *.
    subst. repeat (split; [solve [auto]|]). exact (in_domain_trans _ _ _ Hd1 Hd2).
Qed.

(** ** PART 6. creation, and a whole history from the empty files *)

(** position at or below the end, in all three files: what a seek, a write and a set_len leave *)
Definition pe (s : st) : Prop := forall f, fp (get_file s f) <= fend (get_file s f).

Lemma pe_step f s s' : pe s -> (forall g, g <> f -> get_file s' g = get_file s g) ->
  fp (get_file s' f) <= fend (get_file s' f) -> pe s'.
Proof. intros Hs O Hf g. destruct (fid_eq_dec g f) as [->|Hg]; [exact Hf|rewrite (O g Hg); apply Hs]. Qed.

Definition same_others (f : fid) (s s' : st) : Prop := forall g, g <> f -> get_file s' g = get_file s g.

Lemma same_others_trans f s1 s2 s3 : same_others f s1 s2 -> same_others f s2 s3 -> same_others f s1 s3.
Proof. intros A B g Hg. rewrite B, A by exact Hg. reflexivity. Qed.

(** what a primitive does to the position and the end of its file *)
Lemma seek_to_nums f t s :
  fp (get_file (seek_to f t s) f) = t /\ fend (get_file (seek_to f t s) f) = N.max (fend (get_file s f)) t /\
  same_others f s (seek_to f t s).
Proof.
  destruct (seek_to_spec f t s) as [[H O] _]. rewrite H. unfold fend. cbn [fb fp]. rewrite blen_pad_to. auto.
Qed.

Lemma write_n_nums f d s :
  fp (get_file (write_n f d s) f) = fp (get_file s f) + blen d /\
  fend (get_file (write_n f d s) f) = N.max (fend (get_file s f)) (fp (get_file s f) + blen d) /\
  same_others f s (write_n f d s).
Proof.
  destruct (write_n_spec f d s) as [[H O] _]. rewrite H. unfold fend. cbn [fb fp]. rewrite blen_splice. auto.
Qed.

Lemma set_len_nums f n s :
  fp (get_file (Io.set_len f n s) f) = N.min (fp (get_file s f)) n /\ fend (get_file (Io.set_len f n s) f) = n /\
  same_others f s (Io.set_len f n s).
Proof.
  unfold Io.set_len. rewrite get_emit, get_set_same. unfold fend. cbn [fb fp]. rewrite blen_resize.
  split; [reflexivity|]. split; [reflexivity|].
  intros g Hg. rewrite get_emit, get_set_other by congruence. reflexivity.
Qed.

(** steps with no read: any slack will do, take 0 (then no condition on the chunks is left) *)
Notation tight0 := (tightx (fun _ => 0)).

Ltac tchain := repeat first [eassumption | eapply tightx_trans; [eassumption|]].
Ltac ochain := repeat first [eassumption | eapply same_others_trans; [eassumption|]].
Ltac inv_bind H x E := apply rbind_ok in H as (x & E & H); cbv beta in H.

Lemma seek_pe f t s : pe s -> tight0 s (seek_to f t s) /\ pe (seek_to f t s).
Proof.
  intros Hs. split; [apply tightx_seek|]. destruct (seek_to_nums f t s) as (A & B & O).
  apply (pe_step f s _ Hs O). lia.
Qed.

Lemma write_pe f d s : pe s -> tight0 s (write_n f d s) /\ pe (write_n f d s).
Proof.
  intros Hs. split; [apply tightx_write; apply Hs|]. destruct (write_n_nums f d s) as (A & B & O).
  apply (pe_step f s _ Hs O). lia.
Qed.

Lemma write_all_pe f (d : bytes) s s' : write_all_bytes f d s = Ok s' -> pe s ->
  tight0 s s' /\ pe s' /\ same_others f s s' /\
  fp (get_file s' f) = fp (get_file s f) + blen d /\
  fend (get_file s' f) = N.max (fend (get_file s f)) (fp (get_file s f) + blen d).
Proof.
  intros E Hs. destruct (tightx_write_all_bytes (fun _ => 0) f d s s' E (Hs f)) as (T & P & F & O).
  split; [exact T|]. split; [|auto]. apply (pe_step f s _ Hs O). lia.
Qed.

(** [init_pheader]: two seeks, then writes *)
Lemma init_pheader_tight c f sig2 s s' : init_pheader c f sig2 s = Ok s' -> pe s ->
  tight0 s s' /\ pe s' /\ same_others f s s'.
Proof.
  unfold init_pheader, seek_to_end, seek_from_start, write_u64. cbn [rbind]. intros H Hs.
  destruct (seek_pe f (fend (get_file s f)) s Hs) as [T0 P0]. destruct (seek_to_nums f (fend (get_file s f)) s) as (_ & _ & O0).
  set (s0 := seek_to f (fend (get_file s f)) s) in *.
  destruct (seek_pe f 0 s0 P0) as [T1 P1]. destruct (seek_to_nums f 0 s0) as (_ & _ & O1).
  set (s1 := seek_to f 0 s0) in *.
  inv_bind H s2 E2. destruct (write_all_pe f _ s1 s2 E2 P1) as (T2 & P2 & O2 & _).
  inv_bind H s3 E3. destruct (write_all_pe f _ s2 s3 E3 P2) as (T3 & P3 & O3 & _).
  cbn [rbind] in H.
  destruct (write_pe f (le_bytes 8 0) s3 P3) as [T4 P4]. destruct (write_n_nums f (le_bytes 8 0) s3) as (_ & _ & O4).
  set (s4 := write_n f (le_bytes 8 0) s3) in *.
  destruct (write_pe f (le_bytes 8 0) s4 P4) as [T5 P5]. destruct (write_n_nums f (le_bytes 8 0) s4) as (_ & _ & O5).
  set (s5 := write_n f (le_bytes 8 0) s4) in *.
  destruct (write_all_pe f _ s5 s' H P5) as (T6 & P6 & O6 & _).
  split; [tchain|]. split; [exact P6|]. ochain.
Qed.

Lemma blen_htx_signature : blen htx_signature = 8.
Proof. reflexivity. Qed.

(** [init_htx] on an empty table file: the header is written from position 0, [set_len] grows the
    file from the end of the header, the final zero word is written after a seek *)
Lemma init_htx_tight sig2 n s s' : init_htx sig2 n s = Ok s' -> pe s ->
  fend (get_file s FHtx) = 0 -> blen sig2 = 8 ->
  tight0 s s' /\ pe s' /\ same_others FHtx s s'.
Proof.
  unfold init_htx, seek_to_end, seek_from_start, write_u64. cbn [rbind]. intros H Hs He Hsig.
  destruct (seek_pe FHtx (fend (get_file s FHtx)) s Hs) as [T0 P0].
  destruct (seek_to_nums FHtx (fend (get_file s FHtx)) s) as (A0 & B0 & O0).
  set (s0 := seek_to FHtx (fend (get_file s FHtx)) s) in *.
  destruct (seek_pe FHtx 0 s0 P0) as [T1 P1]. destruct (seek_to_nums FHtx 0 s0) as (A1 & B1 & O1).
  set (s1 := seek_to FHtx 0 s0) in *.
  inv_bind H s2 E2. destruct (write_all_pe FHtx _ s1 s2 E2 P1) as (T2 & P2 & O2 & A2 & B2).
  inv_bind H s3 E3. destruct (write_all_pe FHtx _ s2 s3 E3 P2) as (T3 & P3 & O3 & A3 & B3).
  cbn [rbind] in H.
  destruct (write_pe FHtx (le_bytes 8 n) s3 P3) as [T4 P4]. destruct (write_n_nums FHtx (le_bytes 8 n) s3) as (A4 & B4 & O4).
  set (s4 := write_n FHtx (le_bytes 8 n) s3) in *.
  inv_bind H s5 E5. destruct (write_all_pe FHtx _ s4 s5 E5 P4) as (T5 & P5 & O5 & A5 & B5).
  cbv zeta in H. change htx_bitmap with true in H. cbv iota in H.
  set (e := htx_header_size + n * 8 + n / 8) in *.
  destruct (e <? 8); [discriminate H|]. cbn [rbind] in H. injection H as <-.
  (* the end of the file before [set_len]: the 128 bytes of the header *)
  rewrite blen_htx_signature in A2, B2. rewrite Hsig in A3, B3. rewrite blen_le_bytes in A4, B4.
  change (N.of_nat 8) with 8 in A4, B4. rewrite blen_zeros in A5, B5.
  change (htx_header_size - 24) with 104 in A5, B5.
  assert (He5 : fend (get_file s5 FHtx) = 128 /\ fp (get_file s5 FHtx) = 128) by lia.
  destruct He5 as [He5 Hp5].
  assert (T6 : tight0 s5 (Io.set_len FHtx e s5)).
  { apply tightx_set_len; [lia|]. rewrite He5. unfold e. change htx_header_size with 128. lia. }
  destruct (set_len_nums FHtx e s5) as (A6 & B6 & O6).
  assert (P6 : pe (Io.set_len FHtx e s5)) by (apply (pe_step FHtx s5 _ P5 O6); lia).
  set (s6 := Io.set_len FHtx e s5) in *.
  destruct (seek_pe FHtx (e - 8) s6 P6) as [T7 P7]. destruct (seek_to_nums FHtx (e - 8) s6) as (_ & _ & O7).
  set (s7 := seek_to FHtx (e - 8) s6) in *.
  destruct (write_pe FHtx (le_bytes 8 0) s7 P7) as [T8 P8]. destruct (write_n_nums FHtx (le_bytes 8 0) s7) as (_ & _ & O8).
  split; [tchain|]. split; [exact P8|]. ochain.
Qed.

(** creation is inside the domain, whatever the chunk sizes: position 0, header writes, a growing
    [set_len], a seek, the zero word - no read *)
Theorem create_in_domain t n bk bv bh m : Io.create t n bk bv bh = Ok m -> in_domain (empty_st bk bv bh) (m_st m).
Proof.
  unfold Io.create. cbv zeta. intros H.
  assert (P0 : pe (empty_st bk bv bh)) by (intros []; cbn; lia).
  inv_bind H s1 E1. destruct (init_pheader_tight _ _ _ _ _ E1 P0) as (T1 & P1 & O1).
  inv_bind H s2 E2. destruct (init_pheader_tight _ _ _ _ _ E2 P1) as (T2 & P2 & O2).
  inv_bind H s3 E3. injection H as <-. cbn [m_st].
  destruct (init_htx_tight _ _ _ _ E3 P2) as (T3 & _ & _).
  { rewrite (O2 FHtx ltac:(discriminate)), (O1 FHtx ltac:(discriminate)). reflexivity. }
  { unfold blen. rewrite sig_len. reflexivity. }
  apply (tightx_in_domain (fun _ => 0)); [tchain|].
  intros f e _. apply chunk_free_at_0.
Qed.

(** THEOREM 3.  END TO END, the domain included: create the three files byte by byte, run any history
    of well-formed calls through the byte-level model (table size a power of two; any of the
    buffer kinds the crate offers): every call returns what the ideal map returns, the three files
    are the [render] of the record-level state, and ALL the calls made on each file - creation
    included - are inside the domain of the cache theorem. *)
Theorem history_in_domain t n bk bv bh ops :
  1 <= n -> pow2 n -> Forall (op_wf t) ops -> sized (Store.create t n) ops ->
  exists m0 m' s',
    Io.create t n bk bv bh = Ok m0 /\
    store_run (Store.create t n) ops = Ok (s', snd (spec_run ∅ ops)) /\
    io_run m0 ops = Ok (m', snd (spec_run ∅ ops)) /\
    render s' = Ok (Io.images m') /\
    in_domain (empty_st bk bv bh) (m_st m').
Proof.
  intros Hn Hpn Hops Hsz.
  destruct (create_refines t n bk bv bh Hn) as (m0 & Hc & Hr & Hkt & Hmn & Hcs).
  destruct (run_from_create t n ops Hn Hops) as (s' & Hrun & _ & _).
  destruct (create_closed t n Hn) as [_ HR0].
  assert (Hsim : simg (Store.create t n) m0).
  { unfold simg. split; [exact Hr|]. split; [exact Hkt|]. split; [exact Hmn|]. split; apply Hcs. }
  pose proof (create_in_domain t n bk bv bh m0 Hc) as Hd0.
  assert (Hfcs : fcs (get_file (m_st m0) FHtx) = chunk_of htx_chunk_size bh) by (rewrite (in_domain_fcs _ _ FHtx Hd0); reflexivity).
  destruct (pow2_chunk_of bh) as [Hp2 Hge].
  assert (Hcm : crate_map (Store.create t n) m0).
  { unfold crate_map. rewrite Hmn, Hfcs. split; [exact Hpn|]. split; [exact Hp2|]. split; [exact Hge|].
    exact (proj2 (hwfe_create n Hn)). }
  destruct (io_run_in_domain ops (Store.create t n) ∅ m0 s' _ (Load_all.wf_state_create t n Hn) HR0 Hsim Hops Hsz Hcm Hrun)
    as (m' & Hio & (Hr' & _) & _ & _ & _ & _ & Hd).
  exists m0, m', s'. split; [exact Hc|]. split; [exact Hrun|]. split; [exact Hio|]. split; [exact Hr'|].
  exact (in_domain_trans _ _ _ Hd0 Hd).
Qed.

(** THEOREM 4.  ... hence over ANY buffer configuration: put a cache in front of each of the three
    (empty) files; the calls of creation and of the whole history, issued against the cache,
    return what the flat file returned to [Io], leave a cache that represents the file after the
    history, and a flush puts exactly those bytes on the disk *)
Theorem history_over_any_cache t n bk bv bh ops :
  1 <= n -> pow2 n -> Forall (op_wf t) ops -> sized (Store.create t n) ops ->
  exists m0 m' s',
    Io.create t n bk bv bh = Ok m0 /\
    store_run (Store.create t n) ops = Ok (s', snd (spec_run ∅ ops)) /\
    io_run m0 ops = Ok (m', snd (spec_run ∅ ops)) /\
    render s' = Ok (Io.images m') /\
    exists cf, forall f, served_by_cache (empty_st bk bv bh) (m_st m') f (cf f).
Proof.
  intros Hn Hpn Hops Hsz.
  destruct (history_in_domain t n bk bv bh ops Hn Hpn Hops Hsz) as (m0 & m' & s' & Hc & Hrun & Hio & Hr & Hd).
  exists m0, m', s'. split; [exact Hc|]. split; [exact Hrun|]. split; [exact Hio|]. split; [exact Hr|].
  destruct (in_domain_served _ _ Hd) as (cf & evs & _ & _ & Hs). exists cf. exact Hs.
Qed.

(** non-vacuity: the concrete history of Io_proofs.v ([sizedb] decides [sized]), 4 buckets - fewer
    than 8: the first [put] reads the bitmap byte AT the end of the table file and grows it *)
Example history_in_domain_example :
  exists m0 m' s',
    Io.create KBytes 4 BufAuto BufAuto BufSized = Ok m0 /\
    store_run (Store.create KBytes 4) Io_proofs.ex_ops = Ok (s', snd (spec_run ∅ Io_proofs.ex_ops)) /\
    io_run m0 Io_proofs.ex_ops = Ok (m', snd (spec_run ∅ Io_proofs.ex_ops)) /\
    render s' = Ok (Io.images m') /\
    in_domain (empty_st BufAuto BufAuto BufSized) (m_st m').
Proof.
  apply history_in_domain.
  - lia.
  - exists 2. reflexivity.
  - repeat constructor; cbn; try lia; try discriminate.
  - apply sizedb_ok. vm_compute. reflexivity.
Qed.

Print Assumptions put_in_domain.
Print Assumptions del_in_domain.
Print Assumptions in_domain_trans.
Print Assumptions io_step_in_domain.
Print Assumptions io_run_in_domain.
Print Assumptions create_in_domain.
Print Assumptions history_in_domain.
Print Assumptions history_over_any_cache.
Print Assumptions history_in_domain_example.
