(** * Refine_ops: [put] and [del] keep the invariant and refine the ideal map.

    The proofs are organised in three layers:
    - pure facts about paths of key records ([seg]) and about the "pure core" [coreP]: the part
      of [core] that only reads the two abstract heaps, the bucket count and the item count;
    - the effect of each elementary update (insert a record, replace/move a record, unlink a
      record in the ghost chain, remove the orphan) on [coreP] and on [represents];
    - the two operations, stepped through with the specifications of the allocator, of [find],
      [find_prev] and [relink] (assumed here as section hypotheses; proved elsewhere). *)
From Coq Require Import Lia ZifyN ZifyNat ZifyBool.
From Aby Require Import Base Vu64 Hash KeyTypes Consts Sizing Alloc AllocInv Htx Htx_proofs Store Spec Refine.

(** ** Sizes of encoded records are positive *)

Lemma enc_len_pos v : 1 <= enc_len v.
Proof. unfold enc_len. repeat (destruct (_ <? _)); lia. Qed.

Lemma val_need_pos len : 0 < val_need len.
Proof.
  unfold val_need. cbv zeta.
  match goal with |- 0 < enc_len ?a + _ => pose proof (enc_len_pos a) end. lia.
Qed.

Lemma key_need_pos a b c : 0 < key_need a b c.
Proof.
  unfold key_need. cbv zeta.
  match goal with |- 0 < enc_len ?a + _ => pose proof (enc_len_pos a) end. lia.
Qed.

Lemma krec_need_pos r : 0 < krec_need r.
Proof. apply key_need_pos. Qed.

(** ** Ghost chain update *)

Definition upd (ch : N -> list N) (b : N) (l : list N) : N -> list N :=
  fun b' => if decide (b' = b) then l else ch b'.

Lemma upd_eq ch b l : upd ch b l b = l.
Proof. unfold upd. destruct (decide (b = b)); [reflexivity|congruence]. Qed.

Lemma upd_ne ch b l b' : b' <> b -> upd ch b l b' = ch b'.
Proof. unfold upd. intros H. destruct (decide (b' = b)); [congruence|reflexivity]. Qed.

(** ** Paths of key records *)

Lemma seg_frame kh kh' h l x :
  seg kh h l x ->
  (forall o r, o ∈ l -> kh !! o = Some r -> exists r', kh' !! o = Some r' /\ k_next r' = k_next r) ->
  seg kh' h l x.
Proof.
  induction 1 as [h | off r l x Hnz Hr Hs IH]; intros Hfr.
  - constructor.
  - destruct (Hfr off r) as (r' & Hr' & Hn); [apply elem_of_cons; left; reflexivity | exact Hr |].
    apply seg_cons with r'; [exact Hnz | exact Hr' |]. rewrite Hn. apply IH.
    intros o r0 Ho. apply Hfr. apply elem_of_cons. right. exact Ho.
Qed.

Lemma seg_frame_eq kh kh' h l x :
  seg kh h l x -> (forall o, o ∈ l -> kh' !! o = kh !! o) -> seg kh' h l x.
Proof.
  intros Hs Hfr. eapply seg_frame; [exact Hs|]. intros o r Ho Hr. exists r.
  split; [rewrite Hfr by exact Ho; exact Hr | reflexivity].
Qed.

Lemma seg_app kh h l1 m l2 x : seg kh h l1 m -> seg kh m l2 x -> seg kh h (l1 ++ l2) x.
Proof.
  induction 1 as [h | off r l y Hnz Hr Hs IH]; intros H2; cbn [app]; [exact H2|].
  apply seg_cons with r; [exact Hnz | exact Hr | apply IH; exact H2].
Qed.

Lemma seg_cons_inv kh h o l x :
  seg kh h (o :: l) x -> h = o /\ o <> 0 /\ exists r, kh !! o = Some r /\ seg kh (k_next r) l x.
Proof.
  inversion 1; subst. split; [reflexivity|]. split; [assumption|].
  eexists; split; eassumption.
Qed.

Lemma seg_nil_inv kh h x : seg kh h [] x -> h = x.
Proof. inversion 1; reflexivity. Qed.

Lemma seg_split kh h l1 l2 x :
  seg kh h (l1 ++ l2) x -> exists m, seg kh h l1 m /\ seg kh m l2 x.
Proof.
  revert h. induction l1 as [|a l1 IH]; intros h Hs; cbn [app] in Hs.
  - exists h. split; [constructor | exact Hs].
  - apply seg_cons_inv in Hs as (-> & Hnz & r & Hr & Hs).
    destruct (IH _ Hs) as (m & H1 & H2). exists m.
    split; [apply seg_cons with r; assumption | exact H2].
Qed.

Lemma seg_elem kh h l x o : seg kh h l x -> o ∈ l -> o <> 0 /\ is_Some (kh !! o).
Proof.
  induction 1 as [|off r l x Hnz Hr Hs IH]; intros Ho.
  - apply elem_of_nil in Ho. destruct Ho.
  - apply elem_of_cons in Ho as [-> | Ho]; [split; [exact Hnz | eexists; exact Hr] | apply IH; exact Ho].
Qed.

(** ** A record replaced in place or moved: lookups in [<[o' := r']> (delete o kh)] *)

Lemma lookup_move_new (kh : gmap N krec) o o' r' : (<[o' := r']> (delete o kh)) !! o' = Some r'.
Proof. apply lookup_insert. Qed.

Lemma lookup_move_other (kh : gmap N krec) o o' r' x :
  x <> o -> x <> o' -> (<[o' := r']> (delete o kh)) !! x = kh !! x.
Proof.
  intros. rewrite lookup_insert_ne by congruence. rewrite lookup_delete_ne by congruence. reflexivity.
Qed.

Lemma lookup_move_Some (kh : gmap N krec) o o' r' x rx :
  (<[o' := r']> (delete o kh)) !! x = Some rx ->
  (x = o' /\ rx = r') \/ (x <> o' /\ x <> o /\ kh !! x = Some rx).
Proof.
  intros H. destruct (decide (x = o')) as [->|Hne].
  - rewrite lookup_insert in H. left. split; congruence.
  - rewrite lookup_insert_ne in H by congruence. destruct (decide (x = o)) as [->|Hne2].
    + rewrite lookup_delete in H. discriminate.
    + rewrite lookup_delete_ne in H by congruence. right. auto.
Qed.

Lemma move_fresh (kh : gmap N krec) o o' x :
  (o' = o \/ kh !! o' = None) -> is_Some (kh !! x) -> x <> o -> x <> o'.
Proof. intros [-> | Hn] [rx Hx] Hne; [exact Hne|]. intros ->. congruence. Qed.

Lemma lookup_move_keep (kh : gmap N krec) o o' r' x :
  (o' = o \/ kh !! o' = None) -> is_Some (kh !! x) -> x <> o ->
  (<[o' := r']> (delete o kh)) !! x = kh !! x.
Proof.
  intros Hfr Hx Hne. apply lookup_move_other; [exact Hne|]. eapply move_fresh; eassumption.
Qed.

Lemma seg_frame_move kh o o' r' h l x :
  seg kh h l x -> o ∉ l -> (o' = o \/ kh !! o' = None) ->
  seg (<[o' := r']> (delete o kh)) h l x.
Proof.
  intros Hs Ho Hfr. eapply seg_frame_eq; [exact Hs|]. intros y Hy.
  apply lookup_move_keep; [exact Hfr | apply (seg_elem _ _ _ _ _ Hs Hy) | intros ->; contradiction].
Qed.

Lemma size_move (kh : gmap N krec) o o' r r' :
  kh !! o = Some r -> (o' = o \/ kh !! o' = None) -> size (<[o' := r']> (delete o kh)) = size kh.
Proof.
  intros Hr [-> | Hn].
  - rewrite insert_delete_insert. apply map_size_insert_Some. eexists; exact Hr.
  - assert (o' <> o) by (intros ->; congruence).
    rewrite map_size_insert_None by (rewrite lookup_delete_ne by congruence; exact Hn).
    rewrite map_size_delete_Some by (eexists; exact Hr).
    assert (size kh <> 0)%nat; [|lia].
    intros H0. apply map_size_empty_inv in H0. subst kh. rewrite lookup_empty in Hr. discriminate.
Qed.

(** [NoDup] lists of keys of a finite map are no longer than the map is large *)
Lemma nodup_length_le_size {A} (m : gmap N A) (l : list N) :
  NoDup l -> (forall o, o ∈ l -> is_Some (m !! o)) -> (length l <= size m)%nat.
Proof.
  revert m. induction l as [|a l IH]; intros m Hnd Hin; [cbn; lia|].
  apply NoDup_cons in Hnd as (Ha & Hnd).
  assert (is_Some (m !! a)) as Hma by (apply Hin, elem_of_cons; left; reflexivity).
  specialize (IH (delete a m) Hnd).
  rewrite map_size_delete_Some in IH by exact Hma.
  assert (size m <> 0)%nat.
  { intros H0. apply map_size_empty_inv in H0. subst m. destruct Hma as [y Hy].
    rewrite lookup_empty in Hy. discriminate. }
  cbn [length]. enough (length l <= pred (size m))%nat by lia. apply IH.
  intros o Ho. rewrite lookup_delete_ne by (intros ->; contradiction).
  apply Hin, elem_of_cons. right. exact Ho.
Qed.

(** ** The pure core: [core] without the allocator invariants and the bitmap *)

Record coreP (t : ktype) (n cnt : N) (kh : gmap N krec) (vh : gmap N bytes)
    (ch : N -> list N) (orph : option N) : Prop := {
  cp_n : 1 <= n;
  cp_home : forall b off r, b < n -> off ∈ ch b -> kh !! off = Some r -> bucket_of (k_key r) n = b;
  cp_in : forall b off, b < n -> off ∈ ch b -> is_Some (kh !! off);
  cp_nodup : forall b, b < n -> NoDup (ch b);
  cp_reach : forall off r, kh !! off = Some r -> off ∈ ch (bucket_of (k_key r) n) \/ orph = Some off;
  cp_orph : forall off, orph = Some off -> is_Some (kh !! off) /\ forall b, b < n -> off ∉ ch b;
  cp_uniq : forall o1 o2 r1 r2, kh !! o1 = Some r1 -> kh !! o2 = Some r2 -> k_key r1 = k_key r2 -> o1 = o2;
  cp_kwf : forall off r, kh !! off = Some r -> key_wf t (k_key r);
  cp_val : forall off r, kh !! off = Some r -> is_Some (vh !! k_voff r);
  cp_vinj : forall o1 o2 r1 r2, kh !! o1 = Some r1 -> kh !! o2 = Some r2 -> k_voff r1 = k_voff r2 -> o1 = o2;
  cp_vown : forall vo v, vh !! vo = Some v -> exists off r, kh !! off = Some r /\ k_voff r = vo;
  cp_vwf : forall vo v, vh !! vo = Some v -> val_wf v;
  cp_count : cnt = N.of_nat (size kh) }.

Arguments cp_n {t n cnt kh vh ch orph} _.
Arguments cp_home {t n cnt kh vh ch orph} _.
Arguments cp_in {t n cnt kh vh ch orph} _.
Arguments cp_nodup {t n cnt kh vh ch orph} _.
Arguments cp_reach {t n cnt kh vh ch orph} _.
Arguments cp_orph {t n cnt kh vh ch orph} _.
Arguments cp_uniq {t n cnt kh vh ch orph} _.
Arguments cp_kwf {t n cnt kh vh ch orph} _.
Arguments cp_val {t n cnt kh vh ch orph} _.
Arguments cp_vinj {t n cnt kh vh ch orph} _.
Arguments cp_vown {t n cnt kh vh ch orph} _.
Arguments cp_vwf {t n cnt kh vh ch orph} _.
Arguments cp_count {t n cnt kh vh ch orph} _.

Lemma core_iff s ch orph :
  core s ch orph <->
  AInv key_cfg (keyf s) /\ AInv val_cfg (valf s) /\ bitmap_ok (hx s) /\
  coreP (kt s) (nb (hx s)) (count (hx s)) (kheap s) (vheap s) ch orph.
Proof.
  split.
  - intros [H1 H2 H3 H4 H5 H6 H7 H8 H9 H10 H11 H12 H13 H14 H15 H16].
    split; [exact H1|]. split; [exact H2|]. split; [exact H4|].
    constructor; assumption.
  - intros (H1 & H2 & H4 & [H3 H5 H6 H7 H8 H9 H10 H11 H12 H13 H14 H15 H16]).
    constructor; assumption.
Qed.

Lemma bucket_of_lt k n : 1 <= n -> bucket_of k n < n.
Proof. intros H. unfold bucket_of. apply N.mod_lt. lia. Qed.

Lemma cp_disjoint t n cnt kh vh ch orph b1 b2 x :
  coreP t n cnt kh vh ch orph -> b1 < n -> b2 < n -> x ∈ ch b1 -> x ∈ ch b2 -> b1 = b2.
Proof.
  intros HP H1 H2 Hx1 Hx2. destruct (cp_in HP b1 x H1 Hx1) as [r Hr].
  rewrite <- (cp_home HP b1 x r H1 Hx1 Hr). exact (cp_home HP b2 x r H2 Hx2 Hr).
Qed.

(** *** a new record for a new key, at the front of its bucket *)
Lemma coreP_insert t n cnt kh vh ch k v koff voff nxt :
  coreP t n cnt kh vh ch None ->
  kh !! koff = None -> vh !! voff = None ->
  (forall o r, kh !! o = Some r -> k_key r <> k) ->
  key_wf t k -> val_wf v ->
  coreP t n (cnt + 1) (<[koff := KRec k voff nxt]> kh) (<[voff := v]> vh)
        (upd ch (bucket_of k n) (koff :: ch (bucket_of k n))) None.
Proof.
  intros HP Hk Hv Hnew Hkwf Hvwf.
  set (b := bucket_of k n).
  assert (Hb : b < n) by (apply bucket_of_lt, (cp_n HP)).
  assert (Hnotin : forall b', b' < n -> koff ∉ ch b').
  { intros b' Hb' Hin. destruct (cp_in HP b' koff Hb' Hin) as [r Hr]. congruence. }
  assert (Hsub : forall b' x, x ∈ upd ch b (koff :: ch b) b' -> x = koff /\ b' = b \/ x ∈ ch b').
  { intros b' x. destruct (decide (b' = b)) as [->|Hne].
    - rewrite upd_eq, elem_of_cons. intros [-> | Hx]; auto.
    - rewrite upd_ne by exact Hne. auto. }
  constructor.
  - exact (cp_n HP).
  - intros b' x rx Hb' Hx Hlk. destruct (decide (x = koff)) as [->|Hne].
    + rewrite lookup_insert in Hlk. injection Hlk as <-. cbn [k_key].
      apply Hsub in Hx as [(_ & ->) | Hx]; [reflexivity|]. exfalso. exact (Hnotin b' Hb' Hx).
    + rewrite lookup_insert_ne in Hlk by congruence.
      apply Hsub in Hx as [(-> & _) | Hx]; [congruence|]. exact (cp_home HP b' x rx Hb' Hx Hlk).
  - intros b' x Hb' Hx. apply Hsub in Hx as [(-> & _) | Hx].
    + rewrite lookup_insert. eexists; reflexivity.
    + destruct (decide (x = koff)) as [->|Hne]; [rewrite lookup_insert; eexists; reflexivity|].
      rewrite lookup_insert_ne by congruence. exact (cp_in HP b' x Hb' Hx).
  - intros b' Hb'. destruct (decide (b' = b)) as [->|Hne].
    + rewrite upd_eq. apply NoDup_cons. split; [exact (Hnotin b Hb) | exact (cp_nodup HP b Hb)].
    + rewrite upd_ne by exact Hne. exact (cp_nodup HP b' Hb').
  - intros x rx Hlk. left. destruct (decide (x = koff)) as [->|Hne].
    + rewrite lookup_insert in Hlk. injection Hlk as <-. cbn [k_key]. fold b.
      rewrite upd_eq. apply elem_of_cons. left. reflexivity.
    + rewrite lookup_insert_ne in Hlk by congruence.
      destruct (cp_reach HP x rx Hlk) as [Hx | Hx]; [|discriminate].
      destruct (decide (bucket_of (k_key rx) n = b)) as [Hbb|Hbb].
      * rewrite Hbb in *. rewrite upd_eq. apply elem_of_cons. right. exact Hx.
      * rewrite upd_ne by exact Hbb. exact Hx.
  - intros x Hx. discriminate.
  - intros o1 o2 r1 r2 H1 H2 Hkk.
    destruct (decide (o1 = koff)) as [->|Hn1]; destruct (decide (o2 = koff)) as [->|Hn2].
    + reflexivity.
    + rewrite lookup_insert in H1. injection H1 as <-. rewrite lookup_insert_ne in H2 by congruence.
      cbn [k_key] in Hkk. exfalso. apply (Hnew o2 r2 H2). congruence.
    + rewrite lookup_insert in H2. injection H2 as <-. rewrite lookup_insert_ne in H1 by congruence.
      cbn [k_key] in Hkk. exfalso. apply (Hnew o1 r1 H1). congruence.
    + rewrite lookup_insert_ne in H1, H2 by congruence. exact (cp_uniq HP o1 o2 r1 r2 H1 H2 Hkk).
  - intros x rx Hlk. destruct (decide (x = koff)) as [->|Hne].
    + rewrite lookup_insert in Hlk. injection Hlk as <-. exact Hkwf.
    + rewrite lookup_insert_ne in Hlk by congruence. exact (cp_kwf HP x rx Hlk).
  - intros x rx Hlk. destruct (decide (x = koff)) as [->|Hne].
    + rewrite lookup_insert in Hlk. injection Hlk as <-. cbn [k_voff]. rewrite lookup_insert.
      eexists; reflexivity.
    + rewrite lookup_insert_ne in Hlk by congruence.
      destruct (cp_val HP x rx Hlk) as [v0 Hv0].
      rewrite lookup_insert_ne by congruence. eexists; exact Hv0.
  - intros o1 o2 r1 r2 H1 H2 Hvv.
    destruct (decide (o1 = koff)) as [->|Hn1]; destruct (decide (o2 = koff)) as [->|Hn2].
    + reflexivity.
    + rewrite lookup_insert in H1. injection H1 as <-. rewrite lookup_insert_ne in H2 by congruence.
      cbn [k_voff] in Hvv. exfalso. destruct (cp_val HP o2 r2 H2) as [v0 Hv0]. congruence.
    + rewrite lookup_insert in H2. injection H2 as <-. rewrite lookup_insert_ne in H1 by congruence.
      cbn [k_voff] in Hvv. exfalso. destruct (cp_val HP o1 r1 H1) as [v0 Hv0]. congruence.
    + rewrite lookup_insert_ne in H1, H2 by congruence. exact (cp_vinj HP o1 o2 r1 r2 H1 H2 Hvv).
  - intros vo v0 Hlk. destruct (decide (vo = voff)) as [->|Hne].
    + exists koff, (KRec k voff nxt). rewrite lookup_insert. split; reflexivity.
    + rewrite lookup_insert_ne in Hlk by congruence.
      destruct (cp_vown HP vo v0 Hlk) as (x & rx & Hx & Hvo). exists x, rx.
      rewrite lookup_insert_ne by congruence. split; assumption.
  - intros vo v0 Hlk. destruct (decide (vo = voff)) as [->|Hne].
    + rewrite lookup_insert in Hlk. injection Hlk as <-. exact Hvwf.
    + rewrite lookup_insert_ne in Hlk by congruence. exact (cp_vwf HP vo v0 Hlk).
  - rewrite map_size_insert_None by exact Hk. rewrite (cp_count HP). lia.
Qed.

(** *** the record at [o] replaced in place ([o' = o]) or moved to a fresh offset [o'], with the
    same key; its value offset may change, the value heap [vh'] is described by four facts *)
Lemma coreP_move t n cnt kh vh vh' ch orph b l1 l2 o o' r r' :
  coreP t n cnt kh vh ch orph ->
  b < n -> ch b = l1 ++ o :: l2 ->
  kh !! o = Some r -> k_key r' = k_key r ->
  (o' = o \/ kh !! o' = None) ->
  orph <> Some o ->
  is_Some (vh' !! k_voff r') ->
  (forall vo, vo <> k_voff r -> vo <> k_voff r' -> vh' !! vo = vh !! vo) ->
  (k_voff r' <> k_voff r -> vh' !! k_voff r = None /\ vh !! k_voff r' = None) ->
  (forall v, vh' !! k_voff r' = Some v -> val_wf v) ->
  coreP t n cnt (<[o' := r']> (delete o kh)) vh' (upd ch b (l1 ++ o' :: l2)) orph.
Proof.
  intros HP Hb Hch Hr Hkey Hfr Horph Hv1 Hv2 Hv3 Hv4.
  assert (Hnd : NoDup (l1 ++ o :: l2)) by (rewrite <- Hch; apply (cp_nodup HP); exact Hb).
  pose proof Hnd as Hnd0.
  apply NoDup_app in Hnd as (Hnd1 & Hnd12 & Hnd2). apply NoDup_cons in Hnd2 as (Ho2 & Hnd2).
  assert (Ho1 : o ∉ l1).
  { intros Hin. apply (Hnd12 o Hin). apply elem_of_cons. left. reflexivity. }
  assert (Hob : o ∈ ch b) by (rewrite Hch; set_solver).
  assert (Hhome : bucket_of (k_key r) n = b) by exact (cp_home HP b o r Hb Hob Hr).
  assert (Hfresh : forall x, is_Some (kh !! x) -> x <> o -> x <> o').
  { intros x. apply move_fresh. exact Hfr. }
  assert (Hto : forall x, x ∈ ch b -> x <> o -> x ∈ l1 ++ o' :: l2).
  { intros x Hx Hne. rewrite Hch in Hx. set_solver. }
  assert (Hfrom : forall x, x ∈ l1 ++ o' :: l2 -> x = o' \/ (x ∈ ch b /\ x <> o)).
  { intros x Hx. rewrite Hch. apply elem_of_app in Hx as [Hx | Hx].
    - right. split; [set_solver | intros ->; contradiction].
    - apply elem_of_cons in Hx as [-> | Hx]; [left; reflexivity|].
      right. split; [set_solver | intros ->; contradiction]. }
  assert (Ho'other : forall b', b' < n -> b' <> b -> o' ∉ ch b').
  { intros b' Hb' Hne Hin. destruct (cp_in HP b' o' Hb' Hin) as [r0 Hr0].
    destruct Hfr as [-> | Hn]; [|congruence].
    apply Hne. exact (cp_disjoint _ _ _ _ _ _ _ _ _ _ HP Hb' Hb Hin Hob). }
  assert (Hvother : forall x rx, kh !! x = Some rx -> x <> o ->
            k_voff rx <> k_voff r /\ k_voff rx <> k_voff r').
  { intros x rx Hx Hne.
    assert (k_voff rx <> k_voff r) as Hd.
    { intros He. apply Hne. exact (cp_vinj HP x o rx r Hx Hr He). }
    split; [exact Hd|]. intros He.
    destruct (N.eq_dec (k_voff r') (k_voff r)) as [He2|Hne2]; [congruence|].
    destruct (Hv3 Hne2) as (_ & Hnone). destruct (cp_val HP x rx Hx) as [v0 Hv0]. congruence. }
  constructor.
  - exact (cp_n HP).
  - (* home *)
    intros b' x rx Hb' Hx Hlk. apply lookup_move_Some in Hlk as [(-> & ->) | (Hne' & Hne & Hlk)].
    + rewrite Hkey, Hhome. destruct (decide (b' = b)) as [->|Hbb]; [reflexivity|].
      rewrite upd_ne in Hx by exact Hbb. exfalso. exact (Ho'other b' Hb' Hbb Hx).
    + destruct (decide (b' = b)) as [->|Hbb].
      * rewrite upd_eq in Hx. apply Hfrom in Hx as [-> | (Hx & _)]; [congruence|].
        exact (cp_home HP b x rx Hb Hx Hlk).
      * rewrite upd_ne in Hx by exact Hbb. exact (cp_home HP b' x rx Hb' Hx Hlk).
  - (* in *)
    intros b' x Hb' Hx. destruct (decide (x = o')) as [->|Hne'].
    { rewrite lookup_move_new. eexists; reflexivity. }
    destruct (decide (b' = b)) as [->|Hbb].
    + rewrite upd_eq in Hx. apply Hfrom in Hx as [-> | (Hx & Hne)]; [congruence|].
      rewrite lookup_move_other by assumption. exact (cp_in HP b x Hb Hx).
    + rewrite upd_ne in Hx by exact Hbb.
      assert (x <> o).
      { intros ->. apply Hbb. exact (cp_disjoint _ _ _ _ _ _ _ _ _ _ HP Hb' Hb Hx Hob). }
      rewrite lookup_move_other by assumption. exact (cp_in HP b' x Hb' Hx).
  - (* nodup *)
    intros b' Hb'. destruct (decide (b' = b)) as [->|Hbb].
    + rewrite upd_eq. destruct Hfr as [-> | Hn]; [exact Hnd0|].
      assert (forall x, x ∈ l1 ++ o :: l2 -> x <> o').
      { intros x Hx ->. rewrite <- Hch in Hx. destruct (cp_in HP b o' Hb Hx) as [r0 Hr0]. congruence. }
      apply NoDup_app. split; [exact Hnd1|]. split.
      * intros x Hx Hx2. apply elem_of_cons in Hx2 as [-> | Hx2].
        -- apply (H o'); [set_solver | reflexivity].
        -- apply (Hnd12 x Hx). set_solver.
      * apply NoDup_cons. split; [|exact Hnd2]. intros Hin. apply (H o'); [set_solver | reflexivity].
    + rewrite upd_ne by exact Hbb. exact (cp_nodup HP b' Hb').
  - (* reach *)
    intros x rx Hlk. apply lookup_move_Some in Hlk as [(-> & ->) | (Hne' & Hne & Hlk)].
    + left. rewrite Hkey, Hhome, upd_eq. set_solver.
    + destruct (cp_reach HP x rx Hlk) as [Hx | Hx]; [left|right; exact Hx].
      destruct (decide (bucket_of (k_key rx) n = b)) as [Hbb|Hbb].
      * rewrite Hbb in *. rewrite upd_eq. apply Hto; assumption.
      * rewrite upd_ne by exact Hbb. exact Hx.
  - (* orph *)
    intros x Hx. destruct (cp_orph HP x Hx) as (Hin & Hnot).
    assert (x <> o) as Hne by (intros ->; contradiction).
    split.
    + destruct (decide (x = o')) as [->|Hne']; [rewrite lookup_move_new; eexists; reflexivity|].
      rewrite lookup_move_other by assumption. exact Hin.
    + intros b' Hb'. destruct (decide (b' = b)) as [->|Hbb].
      * rewrite upd_eq. intros Hin2. apply Hfrom in Hin2 as [-> | (Hin2 & _)].
        -- exact (Hfresh _ Hin Hne eq_refl).
        -- exact (Hnot b Hb Hin2).
      * rewrite upd_ne by exact Hbb. exact (Hnot b' Hb').
  - (* uniq *)
    intros o1 o2 r1 r2 H1 H2 Hkk.
    apply lookup_move_Some in H1 as [(-> & ->) | (Hn1' & Hn1 & H1)];
    apply lookup_move_Some in H2 as [(-> & ->) | (Hn2' & Hn2 & H2)].
    + reflexivity.
    + exfalso. apply Hn2. apply (cp_uniq HP o2 o r2 r H2 Hr). congruence.
    + exfalso. apply Hn1. apply (cp_uniq HP o1 o r1 r H1 Hr). congruence.
    + exact (cp_uniq HP o1 o2 r1 r2 H1 H2 Hkk).
  - (* kwf *)
    intros x rx Hlk. apply lookup_move_Some in Hlk as [(-> & ->) | (Hne' & Hne & Hlk)].
    + rewrite Hkey. exact (cp_kwf HP o r Hr).
    + exact (cp_kwf HP x rx Hlk).
  - (* val *)
    intros x rx Hlk. apply lookup_move_Some in Hlk as [(-> & ->) | (Hne' & Hne & Hlk)].
    + exact Hv1.
    + destruct (Hvother x rx Hlk Hne) as (Hd1 & Hd2). rewrite Hv2 by assumption.
      exact (cp_val HP x rx Hlk).
  - (* vinj *)
    intros o1 o2 r1 r2 H1 H2 Hvv.
    apply lookup_move_Some in H1 as [(-> & ->) | (Hn1' & Hn1 & H1)];
    apply lookup_move_Some in H2 as [(-> & ->) | (Hn2' & Hn2 & H2)].
    + reflexivity.
    + exfalso. destruct (Hvother o2 r2 H2 Hn2) as (_ & Hd). congruence.
    + exfalso. destruct (Hvother o1 r1 H1 Hn1) as (_ & Hd). congruence.
    + exact (cp_vinj HP o1 o2 r1 r2 H1 H2 Hvv).
  - (* vown *)
    intros vo v0 Hlk. destruct (N.eq_dec vo (k_voff r')) as [->|Hne'].
    { exists o', r'. split; [apply lookup_move_new | reflexivity]. }
    destruct (N.eq_dec vo (k_voff r)) as [->|Hne].
    { exfalso. destruct (Hv3 (not_eq_sym Hne')) as (Hnone & _). congruence. }
    rewrite Hv2 in Hlk by assumption.
    destruct (cp_vown HP vo v0 Hlk) as (x & rx & Hx & Hvo). exists x, rx. split; [|exact Hvo].
    assert (x <> o) by (intros ->; congruence).
    rewrite lookup_move_keep; [exact Hx | exact Hfr | eexists; exact Hx | assumption].
  - (* vwf *)
    intros vo v0 Hlk. destruct (N.eq_dec vo (k_voff r')) as [->|Hne']; [exact (Hv4 v0 Hlk)|].
    destruct (N.eq_dec vo (k_voff r)) as [->|Hne].
    { exfalso. destruct (Hv3 (not_eq_sym Hne')) as (Hnone & _). congruence. }
    rewrite Hv2 in Hlk by assumption. exact (cp_vwf HP vo v0 Hlk).
  - rewrite (size_move kh o o' r r' Hr Hfr). exact (cp_count HP).
Qed.

(** *** unlinking [off] from its ghost chain: it becomes the orphan *)
Lemma coreP_unlink t n cnt kh vh ch b l1 l2 off :
  coreP t n cnt kh vh ch None -> b < n -> ch b = l1 ++ off :: l2 ->
  coreP t n cnt kh vh (upd ch b (l1 ++ l2)) (Some off).
Proof.
  intros HP Hb Hch.
  assert (Hnd : NoDup (l1 ++ off :: l2)) by (rewrite <- Hch; apply (cp_nodup HP); exact Hb).
  pose proof Hnd as Hnd0.
  apply NoDup_app in Hnd as (Hnd1 & Hnd12 & Hnd2). apply NoDup_cons in Hnd2 as (Ho2 & Hnd2).
  assert (Ho1 : off ∉ l1).
  { intros Hin. apply (Hnd12 off Hin). apply elem_of_cons. left. reflexivity. }
  assert (Hob : off ∈ ch b) by (rewrite Hch; set_solver).
  assert (Hsub : forall x, x ∈ l1 ++ l2 -> x ∈ ch b) by (intros x Hx; rewrite Hch; set_solver).
  constructor.
  - exact (cp_n HP).
  - intros b' x rx Hb' Hx Hlk. destruct (decide (b' = b)) as [->|Hbb].
    + rewrite upd_eq in Hx. exact (cp_home HP b x rx Hb (Hsub x Hx) Hlk).
    + rewrite upd_ne in Hx by exact Hbb. exact (cp_home HP b' x rx Hb' Hx Hlk).
  - intros b' x Hb' Hx. destruct (decide (b' = b)) as [->|Hbb].
    + rewrite upd_eq in Hx. exact (cp_in HP b x Hb (Hsub x Hx)).
    + rewrite upd_ne in Hx by exact Hbb. exact (cp_in HP b' x Hb' Hx).
  - intros b' Hb'. destruct (decide (b' = b)) as [->|Hbb].
    + rewrite upd_eq. apply NoDup_app. split; [exact Hnd1|]. split; [|exact Hnd2].
      intros x Hx Hx2. apply (Hnd12 x Hx). set_solver.
    + rewrite upd_ne by exact Hbb. exact (cp_nodup HP b' Hb').
  - intros x rx Hlk. destruct (cp_reach HP x rx Hlk) as [Hx | Hx]; [|discriminate].
    destruct (decide (x = off)) as [->|Hne]; [right; reflexivity|left].
    destruct (decide (bucket_of (k_key rx) n = b)) as [Hbb|Hbb].
    + rewrite Hbb in *. rewrite upd_eq. rewrite Hch in Hx. set_solver.
    + rewrite upd_ne by exact Hbb. exact Hx.
  - intros x Hx. injection Hx as <-. split; [exact (cp_in HP b off Hb Hob)|].
    intros b' Hb'. destruct (decide (b' = b)) as [->|Hbb].
    + rewrite upd_eq. set_solver.
    + rewrite upd_ne by exact Hbb. intros Hin. apply Hbb.
      exact (cp_disjoint _ _ _ _ _ _ _ _ _ _ HP Hb' Hb Hin Hob).
  - exact (cp_uniq HP).
  - exact (cp_kwf HP).
  - exact (cp_val HP).
  - exact (cp_vinj HP).
  - exact (cp_vown HP).
  - exact (cp_vwf HP).
  - exact (cp_count HP).
Qed.

(** *** removing the orphan and its value *)
Lemma coreP_remove t n cnt kh vh ch off r :
  coreP t n cnt kh vh ch (Some off) -> kh !! off = Some r ->
  0 < cnt /\ coreP t n (cnt - 1) (delete off kh) (delete (k_voff r) vh) ch None.
Proof.
  intros HP Hr.
  destruct (cp_orph HP off eq_refl) as (_ & Hnot).
  assert (Hsz : size kh <> 0%nat).
  { intros H0. apply map_size_empty_inv in H0. subst kh. rewrite lookup_empty in Hr. discriminate. }
  assert (Hdel : forall x rx, delete off kh !! x = Some rx -> x <> off /\ kh !! x = Some rx).
  { intros x rx Hlk. destruct (decide (x = off)) as [->|Hne].
    - rewrite lookup_delete in Hlk. discriminate.
    - rewrite lookup_delete_ne in Hlk by congruence. auto. }
  split; [rewrite (cp_count HP); lia|].
  constructor.
  - exact (cp_n HP).
  - intros b x rx Hb Hx Hlk. apply Hdel in Hlk as (_ & Hlk). exact (cp_home HP b x rx Hb Hx Hlk).
  - intros b x Hb Hx. rewrite lookup_delete_ne by (intros <-; exact (Hnot b Hb Hx)).
    exact (cp_in HP b x Hb Hx).
  - exact (cp_nodup HP).
  - intros x rx Hlk. apply Hdel in Hlk as (Hne & Hlk).
    destruct (cp_reach HP x rx Hlk) as [Hx | Hx]; [left; exact Hx | congruence].
  - intros x Hx. discriminate.
  - intros o1 o2 r1 r2 H1 H2. apply Hdel in H1 as (_ & H1). apply Hdel in H2 as (_ & H2).
    exact (cp_uniq HP o1 o2 r1 r2 H1 H2).
  - intros x rx Hlk. apply Hdel in Hlk as (_ & Hlk). exact (cp_kwf HP x rx Hlk).
  - intros x rx Hlk. apply Hdel in Hlk as (Hne & Hlk).
    rewrite lookup_delete_ne.
    + exact (cp_val HP x rx Hlk).
    + intros He. apply Hne. exact (cp_vinj HP x off rx r Hlk Hr (eq_sym He)).
  - intros o1 o2 r1 r2 H1 H2. apply Hdel in H1 as (_ & H1). apply Hdel in H2 as (_ & H2).
    exact (cp_vinj HP o1 o2 r1 r2 H1 H2).
  - intros vo v0 Hlk. destruct (N.eq_dec vo (k_voff r)) as [->|Hne].
    { rewrite lookup_delete in Hlk. discriminate. }
    rewrite lookup_delete_ne in Hlk by congruence.
    destruct (cp_vown HP vo v0 Hlk) as (x & rx & Hx & Hvo). exists x, rx. split; [|exact Hvo].
    rewrite lookup_delete_ne by congruence. exact Hx.
  - intros vo v0 Hlk. destruct (N.eq_dec vo (k_voff r)) as [->|Hne].
    { rewrite lookup_delete in Hlk. discriminate. }
    rewrite lookup_delete_ne in Hlk by congruence. exact (cp_vwf HP vo v0 Hlk).
  - rewrite map_size_delete_Some by (eexists; exact Hr). rewrite (cp_count HP). lia.
Qed.

(** ** The refinement relation on the two heaps *)

Definition hasP (kh : gmap N krec) (k : bytes) (vo : N) : Prop :=
  exists off r, kh !! off = Some r /\ k_key r = k /\ k_voff r = vo.

Definition reprP (kh : gmap N krec) (vh : gmap N bytes) (m : gmap bytes bytes) : Prop :=
  forall k v, m !! k = Some v <-> exists vo, hasP kh k vo /\ vh !! vo = Some v.

Lemma represents_reprP s m : represents s m <-> reprP (kheap s) (vheap s) m.
Proof. reflexivity. Qed.

Lemma reprP_insert (m : gmap bytes bytes) t n cnt kh vh ch orph k v koff voff nxt :
  coreP t n cnt kh vh ch orph -> reprP kh vh m ->
  kh !! koff = None -> vh !! voff = None ->
  (forall o r, kh !! o = Some r -> k_key r <> k) ->
  reprP (<[koff := KRec k voff nxt]> kh) (<[voff := v]> vh) (<[k := v]> m).
Proof.
  intros HP Hrep Hk Hv Hnew k' v'. destruct (decide (k' = k)) as [->|Hne].
  - rewrite lookup_insert. split.
    + intros [= <-]. exists voff. split; [|apply lookup_insert].
      exists koff, (KRec k voff nxt). rewrite lookup_insert. auto.
    + intros (vo & (x & rx & Hx & Hkx & Hvo) & Hlk).
      destruct (decide (x = koff)) as [->|Hnx].
      * rewrite lookup_insert in Hx. injection Hx as <-. cbn [k_voff] in Hvo. subst vo.
        rewrite lookup_insert in Hlk. exact Hlk.
      * rewrite lookup_insert_ne in Hx by congruence. exfalso. exact (Hnew x rx Hx Hkx).
  - rewrite lookup_insert_ne by congruence. rewrite (Hrep k' v'). split.
    + intros (vo & (x & rx & Hx & Hkx & Hvo) & Hlk). exists vo. split.
      * exists x, rx. rewrite lookup_insert_ne by congruence. auto.
      * rewrite lookup_insert_ne by congruence. exact Hlk.
    + intros (vo & (x & rx & Hx & Hkx & Hvo) & Hlk).
      destruct (decide (x = koff)) as [->|Hnx].
      { rewrite lookup_insert in Hx. injection Hx as <-. cbn [k_key] in Hkx. congruence. }
      rewrite lookup_insert_ne in Hx by congruence.
      exists vo. split; [exists x, rx; auto|].
      destruct (cp_val HP x rx Hx) as [v0 Hv0].
      rewrite lookup_insert_ne in Hlk by congruence. exact Hlk.
Qed.

(** the record at [o] replaced/moved with the same key, now pointing to the value [v] *)
Lemma reprP_move (m : gmap bytes bytes) t n cnt kh vh vh' ch orph o o' r r' v :
  coreP t n cnt kh vh ch orph -> reprP kh vh m ->
  kh !! o = Some r -> k_key r' = k_key r ->
  (o' = o \/ kh !! o' = None) ->
  vh' !! k_voff r' = Some v ->
  (forall vo, vo <> k_voff r -> vo <> k_voff r' -> vh' !! vo = vh !! vo) ->
  (k_voff r' <> k_voff r -> vh' !! k_voff r = None /\ vh !! k_voff r' = None) ->
  reprP (<[o' := r']> (delete o kh)) vh' (<[k_key r := v]> m).
Proof.
  intros HP Hrep Hr Hkey Hfr Hv1 Hv2 Hv3 k' v'.
  assert (Hvother : forall x rx, kh !! x = Some rx -> x <> o ->
            k_voff rx <> k_voff r /\ k_voff rx <> k_voff r').
  { intros x rx Hx Hne.
    assert (k_voff rx <> k_voff r) as Hd.
    { intros He. apply Hne. exact (cp_vinj HP x o rx r Hx Hr He). }
    split; [exact Hd|]. intros He.
    destruct (N.eq_dec (k_voff r') (k_voff r)) as [He2|Hne2]; [congruence|].
    destruct (Hv3 Hne2) as (_ & Hnone). destruct (cp_val HP x rx Hx) as [v0 Hv0]. congruence. }
  destruct (decide (k' = k_key r)) as [->|Hne].
  - rewrite lookup_insert. split.
    + intros [= <-]. exists (k_voff r'). split; [|exact Hv1].
      exists o', r'. rewrite lookup_move_new. auto.
    + intros (vo & (x & rx & Hx & Hkx & Hvo) & Hlk).
      apply lookup_move_Some in Hx as [(-> & ->) | (Hn' & Hn & Hx)].
      * subst vo. congruence.
      * exfalso. apply Hn. exact (cp_uniq HP x o rx r Hx Hr Hkx).
  - rewrite lookup_insert_ne by congruence. rewrite (Hrep k' v'). split.
    + intros (vo & (x & rx & Hx & Hkx & Hvo) & Hlk).
      assert (x <> o) as Hxo by (intros ->; congruence).
      exists vo. split.
      * exists x, rx. rewrite lookup_move_keep; [auto | exact Hfr | eexists; exact Hx | exact Hxo].
      * destruct (Hvother x rx Hx Hxo) as (Hd1 & Hd2). rewrite Hv2 by congruence. exact Hlk.
    + intros (vo & (x & rx & Hx & Hkx & Hvo) & Hlk).
      apply lookup_move_Some in Hx as [(-> & ->) | (Hn' & Hn & Hx)]; [congruence|].
      exists vo. split; [exists x, rx; auto|].
      destruct (Hvother x rx Hx Hn) as (Hd1 & Hd2). rewrite Hv2 in Hlk by congruence. exact Hlk.
Qed.

(** same key and same value offset: the set of entries does not change *)
Lemma hasP_move_same (kh : gmap N krec) o o' r r' :
  kh !! o = Some r -> k_key r' = k_key r -> k_voff r' = k_voff r ->
  (o' = o \/ kh !! o' = None) ->
  forall k vo, hasP (<[o' := r']> (delete o kh)) k vo <-> hasP kh k vo.
Proof.
  intros Hr Hkey Hvoff Hfr k vo. split.
  - intros (x & rx & Hx & Hkx & Hvo).
    apply lookup_move_Some in Hx as [(-> & ->) | (Hn' & Hn & Hx)].
    + exists o, r. split; [exact Hr|]. split; congruence.
    + exists x, rx. auto.
  - intros (x & rx & Hx & Hkx & Hvo). destruct (decide (x = o)) as [->|Hne].
    + exists o', r'. rewrite lookup_move_new. split; [reflexivity|]. split; congruence.
    + exists x, rx. rewrite lookup_move_keep; [auto | exact Hfr | eexists; exact Hx | exact Hne].
Qed.

Lemma reprP_ext kh kh' vh m :
  (forall k vo, hasP kh' k vo <-> hasP kh k vo) -> reprP kh vh m -> reprP kh' vh m.
Proof.
  intros He Hrep k v. rewrite (Hrep k v). split; intros (vo & Hh & Hlk); exists vo; split; try exact Hlk;
    apply He; exact Hh.
Qed.

Lemma reprP_remove (m : gmap bytes bytes) t n cnt kh vh ch orph off r :
  coreP t n cnt kh vh ch orph -> reprP kh vh m -> kh !! off = Some r ->
  reprP (delete off kh) (delete (k_voff r) vh) (delete (k_key r) m).
Proof.
  intros HP Hrep Hr k' v'. destruct (decide (k' = k_key r)) as [->|Hne].
  - rewrite lookup_delete. split; [discriminate|].
    intros (vo & (x & rx & Hx & Hkx & Hvo) & Hlk). exfalso.
    destruct (decide (x = off)) as [->|Hnx]; [rewrite lookup_delete in Hx; discriminate|].
    rewrite lookup_delete_ne in Hx by congruence. apply Hnx.
    exact (cp_uniq HP x off rx r Hx Hr Hkx).
  - rewrite lookup_delete_ne by congruence. rewrite (Hrep k' v'). split.
    + intros (vo & (x & rx & Hx & Hkx & Hvo) & Hlk).
      assert (x <> off) as Hxo by (intros ->; congruence).
      exists vo. split; [exists x, rx; rewrite lookup_delete_ne by congruence; auto|].
      rewrite lookup_delete_ne; [exact Hlk|]. intros He. apply Hxo.
      apply (cp_vinj HP x off rx r Hx Hr). congruence.
    + intros (vo & (x & rx & Hx & Hkx & Hvo) & Hlk).
      destruct (decide (x = off)) as [->|Hnx]; [rewrite lookup_delete in Hx; discriminate|].
      rewrite lookup_delete_ne in Hx by congruence.
      exists vo. split; [exists x, rx; auto|].
      destruct (N.eq_dec vo (k_voff r)) as [->|Hnv]; [rewrite lookup_delete in Hlk; discriminate|].
      rewrite lookup_delete_ne in Hlk by congruence. exact Hlk.
Qed.

(** ** Store level helpers *)

Lemma used_slot {P} (f : pfile P) off p :
  used f !! off = Some p -> exists sz, slots f !! off = Some (Used sz p).
Proof.
  unfold used. rewrite lookup_omap.
  destruct (slots f !! off) as [[sz q|sz nx]|]; cbn; intros H; try discriminate.
  injection H as <-. eexists; reflexivity.
Qed.

Lemma read_krec_ok s off r : kheap s !! off = Some r -> read_krec s off = Ok r.
Proof. intros H. apply used_slot in H as [sz H]. unfold read_krec. rewrite H. reflexivity. Qed.

Lemma read_val_ok s vo v : vheap s !! vo = Some v -> read_val s vo = Ok v.
Proof. intros H. apply used_slot in H as [sz H]. unfold read_val. rewrite H. reflexivity. Qed.

Lemma head_at_count_up h i : head_at (count_up h) i = head_at h i.
Proof. reflexivity. Qed.

Lemma head_at_count_down h i : head_at (count_down h) i = head_at h i.
Proof. reflexivity. Qed.

Lemma sinvo_touch s ch orph : sinvo s ch orph -> sinvo (touch s) ch orph.
Proof.
  intros [Hc Hl]. split; [|exact Hl]. apply core_iff. apply core_iff in Hc. exact Hc.
Qed.

Lemma represents_same_shape s s' m : same_shape s s' -> represents s m -> represents s' m.
Proof.
  intros (_ & _ & _ & Hvf & _ & _ & Hhas) Hrep k v. rewrite (Hrep k v).
  unfold vheap. rewrite Hvf.
  split; intros (vo & Hh & Hlk); exists vo; (split; [apply Hhas; exact Hh | exact Hlk]).
Qed.

Lemma snoc_case {A} (l : list A) : l = [] \/ exists l' a, l = l' ++ [a].
Proof. destruct l as [|a l] using rev_ind; [left; reflexivity | right; eauto]. Qed.

(** the body of [put] after [touch] *)
Definition put0 (s : store) (key v : bytes) : res store :=
  let* o := find s key in
  match o with
  | Some (koff, prev) =>
    let* r := read_krec s koff in
    let* _ := read_val s (k_voff r) in
    let* (vf, voff, _) := write_piece val_cfg (val_need (blen v)) (valf s) (Some (k_voff r)) v in
    let s1 := set_valf s vf in
    if voff =? k_voff r then Ok s1
    else
      let r' := KRec (k_key r) voff (k_next r) in
      let* (kf, koff', _) := write_piece key_cfg (krec_need r') (keyf s1) (Some koff) r' in
      let s2 := set_keyf s1 kf in
      if koff' =? koff then Ok s2
      else relink (chain_fuel s2) s2 (bucket s key) prev koff'
  | None =>
    let b := bucket s key in
    let nxt := head_at (hx s) b in
    let* (vf, voff, _) := write_piece val_cfg (val_need (blen v)) (valf s) None v in
    let r := KRec key voff nxt in
    let* (kf, koff, _) := write_piece key_cfg (krec_need r) (keyf s) None r in
    Ok (Store (kt s) (count_up (write_head (hx s) b koff)) kf vf (dirty s) (synced s))
  end.

Lemma put_put0 s0 k v : put s0 k v = put0 (touch s0) k v.
Proof. reflexivity. Qed.

(** the unlink step of [del] *)
Definition unlink0 (s : store) (b : N) (r : krec) (prev : N) : res store :=
  if prev =? 0 then Ok (set_hx s (write_head (hx s) b (k_next r)))
  else
    let* pr := read_krec s prev in
    let pr' := KRec (k_key pr) (k_voff pr) (k_next r) in
    let* (kf, poff, _) := write_piece key_cfg (krec_need pr') (keyf s) (Some prev) pr' in
    let s' := set_keyf s kf in
    if poff =? prev then Ok s'
    else
      let* pp := find_prev (chain_fuel s') s' prev 0 (head_at (hx s') b) in
      relink (chain_fuel s') s' b pp poff.

(** the body of [del] after [touch] *)
Definition del0 (s : store) (key : bytes) : res (store * option bytes) :=
  let* o := find s key in
  match o with
  | None => Ok (s, None)
  | Some (koff, prev) =>
    let* r := read_krec s koff in
    let* v := read_val s (k_voff r) in
    let* s1 := unlink0 s (bucket s key) r prev in
    let* vf := delete_piece val_cfg (valf s1) (k_voff r) in
    let* kf := delete_piece key_cfg (keyf s1) koff in
    Ok (Store (kt s1) (count_down (hx s1)) kf vf (dirty s1) (synced s1), Some v)
  end.

Lemma del_del0 s0 k : del s0 k = del0 (touch s0) k.
Proof. reflexivity. Qed.

(** [relink_stmt] plus a frame clause for the orphan: the record that [del] has unlinked (and
    will free afterwards, using what it read before the re-link) is not touched.  [relink_stmt]
    alone does not imply this; see the report. *)
Definition relink_orph_stmt : Prop :=
  forall s ch orph b l1 stale newoff l2 fuel,
    core s ch orph ->
    (forall b', b' < nb (hx s) -> b' <> b -> links_ok s ch b') ->
    b < nb (hx s) -> ch b = l1 ++ newoff :: l2 ->
    links_broken s b l1 stale newoff l2 ->
    (length l1 < fuel)%nat ->
    exists s' ch',
      relink fuel s b (List.last l1 0) newoff = Ok s' /\
      sinvo s' ch' orph /\ same_shape s s' /\
      (forall o, orph = Some o -> kheap s' !! o = kheap s !! o).

Lemma relink_orph_stmt_stronger : relink_orph_stmt -> relink_stmt.
Proof.
  intros H s ch orph b l1 stale newoff l2 fuel H1 H2 H3 H4 H5 H6.
  destruct (H s ch orph b l1 stale newoff l2 fuel H1 H2 H3 H4 H5 H6) as (s' & ch' & Hr & Hs & Hsh & _).
  exists s', ch'. auto.
Qed.

Section with_hyps.
Hypothesis Hk_new  : @write_new_spec krec key_cfg.
Hypothesis Hk_old  : @write_old_spec krec key_cfg.
Hypothesis Hk_del  : @delete_spec krec key_cfg.
Hypothesis Hk_fact : @used_facts krec key_cfg.
Hypothesis Hv_new  : @write_new_spec bytes val_cfg.
Hypothesis Hv_old  : @write_old_spec bytes val_cfg.
Hypothesis Hv_del  : @delete_spec bytes val_cfg.
Hypothesis Hv_fact : @used_facts bytes val_cfg.
Hypothesis Hfind   : find_stmt.
Hypothesis Hfprev  : find_prev_stmt.
Hypothesis Hrelink : relink_stmt.
(** needed by [del_ok] only: see [relink_orph_stmt] above *)
Hypothesis Hrelink_orph : relink_orph_stmt.

Lemma chain_fuel_bound s l :
  AInv key_cfg (keyf s) -> NoDup l -> (forall o, o ∈ l -> is_Some (kheap s !! o)) ->
  (length l < chain_fuel s)%nat.
Proof using Hk_fact.
  intros HA Hnd Hin. unfold chain_fuel. destruct (Hk_fact (keyf s) HA) as (_ & _ & Hsz & _).
  pose proof (nodup_length_le_size (kheap s) l Hnd Hin) as Hle. unfold kheap in Hle. lia.
Qed.

(** *** [put], new key *)
Lemma put_new (m : gmap bytes bytes) s ch k v :
  sinvo s ch None -> represents s m -> key_wf (kt s) k -> val_wf v ->
  find s k = Ok None -> (forall vo, ~ has_rec s k vo) ->
  exists s', put0 s k v = Ok s' /\ Inv s' /\ represents s' (<[k := v]> m) /\
             kt s' = kt s /\ nb (hx s') = nb (hx s).
Proof using Hk_new Hv_new.
  intros [Hc Hl] Hrep Hkwf Hvwf Hf Hno.
  apply core_iff in Hc as (HAk & HAv & Hbm & HP).
  assert (Hnew : forall o r0, kheap s !! o = Some r0 -> k_key r0 <> k).
  { intros o r0 Ho Hk0. apply (Hno (k_voff r0)). exists o, r0. auto. }
  unfold put0. rewrite Hf. cbn [rbind]. change (bucket s k) with (home s k).
  set (b := home s k).
  assert (Hb : b < nb (hx s)) by (apply bucket_of_lt, (cp_n HP)).
  destruct (Hv_new (valf s) (val_need (blen v)) v HAv (val_need_pos _))
    as (vf & voff & vsz & Hwv & HAv' & Huv & Hvfresh & _).
  rewrite Hwv. cbn [rbind].
  set (nxt := head_at (hx s) b). set (r := KRec k voff nxt).
  destruct (Hk_new (keyf s) (krec_need r) r HAk (krec_need_pos _))
    as (kf & koff & ksz & Hwk & HAk' & Huk & Hkfresh & Hknz & _).
  rewrite Hwk. cbn [rbind].
  eexists. split; [reflexivity|].
  pose proof (coreP_insert _ _ _ _ _ _ k v koff voff nxt HP Hkfresh Hvfresh Hnew Hkwf Hvwf) as HP'.
  assert (Hnotin : forall b', b' < nb (hx s) -> koff ∉ ch b').
  { intros b' Hb' Hin. destruct (cp_in HP b' koff Hb' Hin) as [r0 Hr0].
    unfold kheap in Hr0. congruence. }
  split; [|split; [|split; reflexivity]].
  - exists (upd ch b (koff :: ch b)). split.
    + apply core_iff. cbn [keyf valf hx kt]. split; [exact HAk'|]. split; [exact HAv'|]. split.
      * apply count_up_bitmap_ok, write_head_bitmap_ok; [exact Hbm | exact Hb].
      * unfold kheap, vheap. cbn [keyf valf]. rewrite Huk, Huv. exact HP'.
    + intros b' Hb'. unfold links_ok, kheap. cbn [keyf hx]. rewrite Huk.
      rewrite head_at_count_up, write_head_head_at.
      destruct (N.eqb_spec b' b) as [->|Hne].
      * rewrite upd_eq. apply seg_cons with r; [exact Hknz | apply lookup_insert |].
        cbn [k_next r]. eapply seg_frame_eq; [exact (Hl b Hb)|].
        intros o Ho. rewrite lookup_insert_ne; [reflexivity|]. intros <-. exact (Hnotin b Hb Ho).
      * rewrite upd_ne by exact Hne. eapply seg_frame_eq; [exact (Hl b' Hb')|].
        intros o Ho. rewrite lookup_insert_ne; [reflexivity|]. intros <-. exact (Hnotin b' Hb' Ho).
  - apply represents_reprP. unfold kheap, vheap. cbn [keyf valf]. rewrite Huk, Huv.
    exact (reprP_insert m _ _ _ _ _ _ _ k v koff voff nxt HP Hrep Hkfresh Hvfresh Hnew).
Qed.


(** the decomposition of an intact chain around one of its elements *)
Lemma chain_decomp kh h l1 o l2 r :
  chain kh h (l1 ++ o :: l2) -> kh !! o = Some r ->
  seg kh h l1 o /\ o <> 0 /\ chain kh (k_next r) l2.
Proof using Type.
  intros Hc Hr. apply seg_split in Hc as (m0 & H1 & H2).
  apply seg_cons_inv in H2 as (-> & Hnz & r0 & Hr0 & H2).
  assert (r0 = r) as -> by congruence. auto.
Qed.

(** *** [put], existing key *)
Lemma put_existing (m : gmap bytes bytes) s ch k v off r l1 l2 :
  sinvo s ch None -> represents s m -> key_wf (kt s) k -> val_wf v ->
  find s k = Ok (Some (off, List.last l1 0)) -> kheap s !! off = Some r -> k_key r = k ->
  ch (home s k) = l1 ++ off :: l2 ->
  exists s', put0 s k v = Ok s' /\ Inv s' /\ represents s' (<[k := v]> m) /\
             kt s' = kt s /\ nb (hx s') = nb (hx s).
Proof using Hk_old Hv_old Hk_fact Hrelink.
  clear Hk_new Hk_del Hv_new Hv_del Hv_fact Hfind Hfprev Hrelink_orph.
  intros [Hc Hl] Hrep Hkwf Hvwf Hf Hr Hkey Hch.
  apply core_iff in Hc as (HAk & HAv & Hbm & HP).
  unfold put0. rewrite Hf. cbn [rbind]. change (bucket s k) with (home s k).
  set (b := home s k) in *.
  assert (Hb : b < nb (hx s)) by (apply bucket_of_lt, (cp_n HP)).
  rewrite (read_krec_ok s off r Hr). cbn [rbind].
  destruct (cp_val HP off r Hr) as [v0 Hv0].
  rewrite (read_val_ok s _ v0 Hv0). cbn [rbind].
  destruct (Hv_old (valf s) (val_need (blen v)) (k_voff r) v0 v HAv (val_need_pos _) Hv0)
    as (vf & voff & vsz & Hwv & HAv' & Huv & Hvfr & _).
  rewrite Hwv. cbn [rbind].
  (* the chain of the bucket *)
  assert (Hnd : NoDup (l1 ++ off :: l2)) by (rewrite <- Hch; exact (cp_nodup HP b Hb)).
  pose proof Hnd as Hnd0.
  apply NoDup_app in Hnd as (Hnd1 & Hnd12 & Hnd2). apply NoDup_cons in Hnd2 as (Ho2 & Hnd2).
  assert (Ho1 : off ∉ l1).
  { intros Hin. apply (Hnd12 off Hin). apply elem_of_cons. left. reflexivity. }
  assert (Hob : off ∈ ch b) by (rewrite Hch; set_solver).
  pose proof (Hl b Hb) as Hlb. unfold links_ok in Hlb. rewrite Hch in Hlb.
  destruct (chain_decomp _ _ _ _ _ _ Hlb Hr) as (Hseg1 & Hoffnz & Hseg2).
  assert (Hother : forall b', b' < nb (hx s) -> b' <> b -> off ∉ ch b').
  { intros b' Hb' Hne Hin. apply Hne.
    exact (cp_disjoint _ _ _ _ _ _ _ _ _ _ HP Hb' Hb Hin Hob). }
  (* the new value heap *)
  set (vh' := <[voff := v]> (delete (k_voff r) (vheap s))).
  fold (vheap s) in Huv. fold vh' in Huv.
  assert (F1 : vh' !! voff = Some v) by apply lookup_insert.
  assert (F2 : forall vo, vo <> k_voff r -> vo <> voff -> vh' !! vo = vheap s !! vo).
  { intros vo H1 H2. unfold vh'. rewrite lookup_insert_ne by congruence.
    rewrite lookup_delete_ne by congruence. reflexivity. }
  assert (F3 : voff <> k_voff r -> vh' !! k_voff r = None /\ vheap s !! voff = None).
  { intros Hne. split.
    - unfold vh'. rewrite lookup_insert_ne by congruence. apply lookup_delete.
    - destruct Hvfr as [He | Hn]; [congruence | exact Hn]. }
  assert (F4 : forall v1, vh' !! voff = Some v1 -> val_wf v1).
  { intros v1 H1. rewrite F1 in H1. injection H1 as <-. exact Hvwf. }
  destruct (N.eqb_spec voff (k_voff r)) as [Hveq | Hvne].
  - (* the value was rewritten in place: only the value heap changes *)
    eexists. split; [reflexivity|].
    assert (Hkh : <[off := r]> (delete off (kheap s)) = kheap s).
    { rewrite insert_delete_insert. apply insert_id. exact Hr. }
    rewrite <- Hveq in *.
    assert (HP' : coreP (kt s) (nb (hx s)) (count (hx s)) (kheap s) vh'
                    (upd ch b (l1 ++ off :: l2)) None).
    { rewrite <- Hkh at 1.
      apply (coreP_move _ _ _ _ (vheap s) vh' ch None b l1 l2 off off r r HP Hb Hch Hr eq_refl).
      - left. reflexivity.
      - discriminate.
      - rewrite <- Hveq. eexists; exact F1.
      - rewrite <- Hveq. intros vo H1 _. apply F2; exact H1.
      - intros Hc. congruence.
      - rewrite <- Hveq. exact F4. }
    split; [|split; [|split; reflexivity]].
    + exists (upd ch b (l1 ++ off :: l2)). split.
      * apply core_iff. cbn [keyf valf hx kt set_valf].
        split; [exact HAk|]. split; [exact HAv'|]. split; [exact Hbm|].
        unfold vheap at 1. cbn [valf set_valf]. rewrite Huv. exact HP'.
      * intros b' Hb'. unfold links_ok. change (kheap (set_valf s vf)) with (kheap s).
        change (hx (set_valf s vf)) with (hx s).
        destruct (decide (b' = b)) as [->|Hne].
        -- rewrite upd_eq. exact Hlb.
        -- rewrite upd_ne by exact Hne. exact (Hl b' Hb').
    + apply represents_reprP. change (kheap (set_valf s vf)) with (kheap s).
      unfold vheap. cbn [valf set_valf]. rewrite Huv. rewrite <- Hkh, <- Hkey.
      apply (reprP_move m _ _ _ _ (vheap s) vh' ch None off off r r v HP Hrep Hr eq_refl).
      * left. reflexivity.
      * rewrite <- Hveq. exact F1.
      * rewrite <- Hveq. intros vo H1 _. apply F2; exact H1.
      * intros Hc. congruence.
  - (* the value moved: the key record is rewritten with the new value offset *)
    set (r' := KRec (k_key r) voff (k_next r)).
    change (keyf (set_valf s vf)) with (keyf s).
    destruct (Hk_old (keyf s) (krec_need r') off r r' HAk (krec_need_pos _) Hr)
      as (kf & koff' & ksz & Hwk & HAk' & Huk & Hkfr & Hknz & _).
    rewrite Hwk. cbn [rbind].
    fold (kheap s) in Huk, Hkfr.
    set (kh' := <[koff' := r']> (delete off (kheap s))) in *.
    set (ch' := upd ch b (l1 ++ koff' :: l2)).
    set (s2 := set_keyf (set_valf s vf) kf).
    assert (HP' : coreP (kt s) (nb (hx s)) (count (hx s)) kh' vh' ch' None).
    { apply (coreP_move _ _ _ _ (vheap s) vh' ch None b l1 l2 off koff' r r' HP Hb Hch Hr eq_refl Hkfr).
      - discriminate.
      - eexists; exact F1.
      - exact F2.
      - exact F3.
      - exact F4. }
    assert (Hcore2 : core s2 ch' None).
    { apply core_iff. unfold s2. cbn [keyf valf hx kt set_valf set_keyf].
      split; [exact HAk'|]. split; [exact HAv'|]. split; [exact Hbm|].
      unfold kheap, vheap. cbn [keyf valf set_valf set_keyf]. rewrite Huk, Huv. exact HP'. }
    assert (Hkh2 : kheap s2 = kh') by exact Huk.
    assert (Hrep2 : represents s2 (<[k := v]> m)).
    { apply represents_reprP. rewrite Hkh2. unfold vheap, s2. cbn [valf set_valf set_keyf].
      rewrite Huv. rewrite <- Hkey.
      exact (reprP_move m _ _ _ _ (vheap s) vh' ch None off koff' r r' v HP Hrep Hr eq_refl Hkfr F1 F2 F3). }
    assert (Hlo : forall b', b' < nb (hx s2) -> b' <> b -> links_ok s2 ch' b').
    { intros b' Hb' Hne. unfold links_ok. rewrite Hkh2. unfold ch'. rewrite upd_ne by exact Hne.
      apply seg_frame_move; [exact (Hl b' Hb') | exact (Hother b' Hb' Hne) | exact Hkfr]. }
    assert (Hseg1' : seg kh' (head_at (hx s) b) l1 off).
    { apply seg_frame_move; [exact Hseg1 | exact Ho1 | exact Hkfr]. }
    assert (Hseg2' : chain kh' koff' (koff' :: l2)).
    { apply seg_cons with r'; [exact Hknz | apply lookup_move_new |]. cbn [k_next r'].
      apply seg_frame_move; [exact Hseg2 | exact Ho2 | exact Hkfr]. }
    destruct (N.eqb_spec koff' off) as [Hkeq | Hkne].
    + (* the key record was rewritten in place *)
      exists s2. split; [reflexivity|].
      split; [|split; [exact Hrep2 | split; reflexivity]].
      exists ch'. split; [exact Hcore2|].
      intros b' Hb'. destruct (decide (b' = b)) as [->|Hne]; [|exact (Hlo b' Hb' Hne)].
      unfold links_ok. rewrite Hkh2. unfold ch'. rewrite upd_eq.
      eapply seg_app; [exact Hseg1'|]. rewrite <- Hkeq at 1. exact Hseg2'.
    + (* the key record moved: re-link *)
      assert (Hlen : (length l1 < chain_fuel s2)%nat).
      { apply chain_fuel_bound; [exact HAk' | exact Hnd1 |].
        intros o Ho. rewrite Hkh2. apply (cp_in HP' b o Hb). unfold ch'. rewrite upd_eq. set_solver. }
      destruct (Hrelink s2 ch' None b l1 off koff' l2 (chain_fuel s2) Hcore2 Hlo Hb)
        as (s3 & ch3 & Hrl & Hs3 & Hsh); [unfold ch'; apply upd_eq | | exact Hlen |].
      { split; [rewrite Hkh2; exact Hseg1'|]. split; [rewrite Hkh2; exact Hseg2'|].
        split; [|exact Hoffnz]. rewrite Hkh2. unfold kh'.
        rewrite lookup_insert_ne by congruence. apply lookup_delete. }
      exists s3. split; [exact Hrl|].
      split; [exists ch3; exact Hs3|].
      split; [exact (represents_same_shape _ _ _ Hsh Hrep2)|].
      destruct Hsh as (Hkt & Hnb & _). rewrite Hkt, Hnb. split; reflexivity.
Qed.

Theorem put_ok : put_stmt.
Proof using Hk_new Hv_new Hk_old Hv_old Hk_fact Hrelink Hfind.
  clear Hk_del Hv_del Hv_fact Hfprev Hrelink_orph.
  intros s0 m k v [ch Hs] Hrep Hkwf Hvwf. rewrite put_put0.
  apply sinvo_touch in Hs.
  change (kt s0) with (kt (touch s0)) in *. change (nb (hx s0)) with (nb (hx (touch s0))).
  change (represents (touch s0) m) in Hrep.
  revert Hs Hrep Hkwf. generalize (touch s0). clear s0. intros s Hs Hrep Hkwf.
  destruct (Hfind s ch None k Hs Hkwf) as [(Hf & Hno) | (off & r & l1 & l2 & Hf & Hr & Hkey & Hch)].
  - intros off Hoff. discriminate.
  - exact (put_new m s ch k v Hs Hrep Hkwf Hvwf Hf Hno).
  - exact (put_existing m s ch k v off r l1 l2 Hs Hrep Hkwf Hvwf Hf Hr Hkey Hch).
Qed.


(** *** [del]: the final step, freeing the orphan and its value *)
Lemma del_finish (m : gmap bytes bytes) s1 ch1 off r :
  sinvo s1 ch1 (Some off) -> kheap s1 !! off = Some r -> represents s1 m ->
  exists vf kf,
    delete_piece val_cfg (valf s1) (k_voff r) = Ok vf /\
    delete_piece key_cfg (keyf s1) off = Ok kf /\
    Inv (Store (kt s1) (count_down (hx s1)) kf vf (dirty s1) (synced s1)) /\
    represents (Store (kt s1) (count_down (hx s1)) kf vf (dirty s1) (synced s1)) (delete (k_key r) m).
Proof using Hk_del Hv_del.
  clear Hk_new Hk_old Hk_fact Hv_new Hv_old Hv_fact Hfind Hfprev Hrelink Hrelink_orph.
  intros [Hc Hl] Hr Hrep.
  apply core_iff in Hc as (HAk & HAv & Hbm & HP).
  destruct (cp_val HP off r Hr) as [v0 Hv0].
  destruct (Hv_del (valf s1) (k_voff r) v0 HAv Hv0) as (vf & Hdv & HAv' & Huv & _).
  destruct (Hk_del (keyf s1) off r HAk Hr) as (kf & Hdk & HAk' & Huk & _).
  exists vf, kf. split; [exact Hdv|]. split; [exact Hdk|].
  destruct (coreP_remove _ _ _ _ _ _ _ _ HP Hr) as (Hpos & HP').
  destruct (cp_orph HP off eq_refl) as (_ & Hnot).
  split.
  - exists ch1. split.
    + apply core_iff. cbn [keyf valf hx kt].
      split; [exact HAk'|]. split; [exact HAv'|]. split; [apply count_down_bitmap_ok; exact Hbm|].
      unfold kheap, vheap. cbn [keyf valf]. rewrite Huk, Huv.
      replace (count (count_down (hx s1))) with (count (hx s1) - 1); [exact HP'|].
      unfold count_down. cbn [count]. destruct (N.ltb_spec 0 (count (hx s1))); [reflexivity | lia].
    + intros b Hb. unfold links_ok, kheap. cbn [keyf hx]. rewrite Huk, head_at_count_down.
      eapply seg_frame_eq; [exact (Hl b Hb)|]. intros o Ho.
      rewrite lookup_delete_ne; [reflexivity|]. intros <-. exact (Hnot b Hb Ho).
  - apply represents_reprP. unfold kheap, vheap. cbn [keyf valf]. rewrite Huk, Huv.
    exact (reprP_remove m _ _ _ _ _ _ _ off r HP Hrep Hr).
Qed.

(** *** [del]: the unlink step.  The record at [off] leaves its chain and becomes the orphan. *)
Lemma del_unlink (m : gmap bytes bytes) s ch b off r l1 l2 :
  sinvo s ch None -> represents s m -> b < nb (hx s) ->
  kheap s !! off = Some r -> ch b = l1 ++ off :: l2 ->
  exists s1 ch1, unlink0 s b r (List.last l1 0) = Ok s1 /\
    sinvo s1 ch1 (Some off) /\ kheap s1 !! off = Some r /\ represents s1 m /\
    kt s1 = kt s /\ nb (hx s1) = nb (hx s).
Proof using Hk_old Hk_fact Hfprev Hrelink_orph.
  clear Hk_new Hk_del Hv_new Hv_old Hv_del Hv_fact Hfind Hrelink.
  intros [Hc Hl] Hrep Hb Hr Hch.
  apply core_iff in Hc as (HAk & HAv & Hbm & HP).
  assert (Hnd0 : NoDup (l1 ++ off :: l2)) by (rewrite <- Hch; exact (cp_nodup HP b Hb)).
  pose proof (Hl b Hb) as Hlb. unfold links_ok in Hlb. rewrite Hch in Hlb.
  destruct (chain_decomp _ _ _ _ _ _ Hlb Hr) as (Hseg1 & Hoffnz & Hseg2).
  pose proof (coreP_unlink _ _ _ _ _ _ _ _ _ _ HP Hb Hch) as HPu.
  unfold unlink0.
  destruct (snoc_case l1) as [-> | (l1' & p & ->)].
  - (* [off] is the head of the bucket *)
    cbn [List.last]. rewrite N.eqb_refl.
    exists (set_hx s (write_head (hx s) b (k_next r))), (upd ch b l2).
    split; [reflexivity|].
    split; [|split; [exact Hr | split; [exact Hrep | split; reflexivity]]].
    split.
    + apply core_iff. cbn [keyf valf hx kt set_hx].
      split; [exact HAk|]. split; [exact HAv|].
      split; [apply write_head_bitmap_ok; [exact Hbm | exact Hb]|]. exact HPu.
    + intros b' Hb'. unfold links_ok, kheap. cbn [keyf hx set_hx]. rewrite write_head_head_at.
      destruct (N.eqb_spec b' b) as [->|Hne].
      * rewrite upd_eq. exact Hseg2.
      * rewrite upd_ne by exact Hne. exact (Hl b' Hb').
  - (* [off] follows [p]: rewrite [p] with the link of [off] *)
    rewrite last_last.
    apply seg_split in Hseg1 as (m0 & Hs1 & Hs2).
    apply seg_cons_inv in Hs2 as (-> & Hpnz & pr & Hpr & Hs2). apply seg_nil_inv in Hs2.
    destruct (N.eqb_spec p 0) as [Hp0|_]; [contradiction|].
    rewrite (read_krec_ok s p pr Hpr). cbn [rbind].
    set (pr' := KRec (k_key pr) (k_voff pr) (k_next r)).
    destruct (Hk_old (keyf s) (krec_need pr') p pr pr' HAk (krec_need_pos _) Hpr)
      as (kf & p' & ksz & Hwk & HAk' & Huk & Hfr & Hp'nz & _).
    rewrite Hwk. cbn [rbind].
    fold (kheap s) in Huk, Hfr.
    set (kh' := <[p' := pr']> (delete p (kheap s))) in Huk |- *.
    set (s' := set_keyf s kf).
    (* the positions of [p] and [off] *)
    rewrite <- app_assoc in Hnd0. cbn [app] in Hnd0.
    apply NoDup_app in Hnd0 as (Hnd1 & Hnd12 & Hnd2).
    apply NoDup_cons in Hnd2 as (Hp2 & Hnd2).
    assert (Hp1 : p ∉ l1').
    { intros Hin. apply (Hnd12 p Hin). apply elem_of_cons. left. reflexivity. }
    assert (Hpoff : p <> off) by (intros ->; apply Hp2; apply elem_of_cons; left; reflexivity).
    assert (Hpl2 : p ∉ l2) by (intros Hin; apply Hp2; apply elem_of_cons; right; exact Hin).
    assert (Hpb : p ∈ ch b) by (rewrite Hch; set_solver).
    set (chu := upd ch b ((l1' ++ [p]) ++ l2)) in *.
    assert (Hchu : chu b = l1' ++ p :: l2).
    { unfold chu. rewrite upd_eq, <- app_assoc. reflexivity. }
    set (ch2 := upd chu b (l1' ++ p' :: l2)).
    assert (HPm : coreP (kt s) (nb (hx s)) (count (hx s)) kh' (vheap s) ch2 (Some off)).
    { apply (coreP_move _ _ _ _ (vheap s) (vheap s) chu (Some off) b l1' l2 p p' pr pr'
               HPu Hb Hchu Hpr eq_refl Hfr).
      - intros He. injection He as He. congruence.
      - cbn [k_voff pr']. exact (cp_val HP p pr Hpr).
      - intros; reflexivity.
      - intros Hc. exfalso. apply Hc. reflexivity.
      - cbn [k_voff pr']. intros v1 Hv1. exact (cp_vwf HP _ _ Hv1). }
    assert (Hkh' : kheap s' = kh') by exact Huk.
    assert (Hcore' : core s' ch2 (Some off)).
    { apply core_iff. unfold s'. cbn [keyf valf hx kt set_keyf].
      split; [exact HAk'|]. split; [exact HAv|]. split; [exact Hbm|].
      unfold kheap at 1. cbn [keyf set_keyf]. rewrite Huk. exact HPm. }
    assert (Hoff' : kheap s' !! off = Some r).
    { rewrite Hkh'. unfold kh'.
      rewrite lookup_move_keep; [exact Hr | exact Hfr | eexists; exact Hr | congruence]. }
    assert (Hrep' : represents s' m).
    { apply represents_reprP. rewrite Hkh'. change (vheap s') with (vheap s).
      eapply reprP_ext; [|exact Hrep].
      exact (hasP_move_same (kheap s) p p' pr pr' Hpr eq_refl eq_refl Hfr). }
    assert (Hs1' : seg kh' (head_at (hx s) b) l1' p).
    { apply seg_frame_move; [exact Hs1 | exact Hp1 | exact Hfr]. }
    assert (Hs2' : chain kh' (k_next r) l2).
    { apply seg_frame_move; [exact Hseg2 | exact Hpl2 | exact Hfr]. }
    assert (Hnew' : chain kh' p' (p' :: l2)).
    { apply seg_cons with pr'; [exact Hp'nz | apply lookup_move_new | exact Hs2']. }
    assert (Hlo : forall b', b' < nb (hx s') -> b' <> b -> links_ok s' ch2 b').
    { intros b' Hb' Hne. unfold links_ok. rewrite Hkh'. unfold ch2, chu.
      rewrite !upd_ne by exact Hne.
      apply seg_frame_move; [exact (Hl b' Hb') | | exact Hfr].
      intros Hin. apply Hne. exact (cp_disjoint _ _ _ _ _ _ _ _ _ _ HP Hb' Hb Hin Hpb). }
    destruct (N.eqb_spec p' p) as [Hpeq | Hpne].
    + (* rewritten in place *)
      exists s', ch2. split; [reflexivity|].
      split; [|split; [exact Hoff' | split; [exact Hrep' | split; reflexivity]]].
      split; [exact Hcore'|].
      intros b' Hb'. destruct (decide (b' = b)) as [->|Hne]; [|exact (Hlo b' Hb' Hne)].
      unfold links_ok. rewrite Hkh'. unfold ch2. rewrite upd_eq.
      eapply seg_app; [exact Hs1'|]. rewrite <- Hpeq at 1. exact Hnew'.
    + (* the predecessor moved: find its predecessor and re-link *)
      assert (Hlen : (length l1' < chain_fuel s')%nat).
      { apply chain_fuel_bound; [exact HAk' | exact Hnd1 |].
        intros o Ho. rewrite Hkh'. apply (cp_in HPm b o Hb). unfold ch2. rewrite upd_eq. set_solver. }
      assert (Hsegp : seg (kheap s') (head_at (hx s') b) l1' p) by (rewrite Hkh'; exact Hs1').
      rewrite (Hfprev s' (head_at (hx s') b) l1' p (chain_fuel s') Hsegp Hpnz Hp1 Hlen).
      cbn [rbind].
      destruct (Hrelink_orph s' ch2 (Some off) b l1' p p' l2 (chain_fuel s') Hcore' Hlo Hb)
        as (s'' & ch'' & Hrl & Hs'' & Hsh & Horph); [unfold ch2; apply upd_eq | | exact Hlen |].
      { split; [exact Hsegp|]. split; [rewrite Hkh'; exact Hnew'|].
        split; [|exact Hpnz]. rewrite Hkh'. unfold kh'.
        rewrite lookup_insert_ne by congruence. apply lookup_delete. }
      exists s'', ch''. split; [exact Hrl|]. split; [exact Hs''|].
      split; [rewrite (Horph off eq_refl); exact Hoff'|].
      split; [exact (represents_same_shape _ _ _ Hsh Hrep')|].
      destruct Hsh as (Hkt & Hnb & _). rewrite Hkt, Hnb. split; reflexivity.
Qed.

Lemma del_none (m : gmap bytes bytes) s ch k :
  sinvo s ch None -> represents s m -> find s k = Ok None -> (forall vo, ~ has_rec s k vo) ->
  exists s', del0 s k = Ok (s', m !! k) /\ Inv s' /\ represents s' (delete k m) /\
             kt s' = kt s /\ nb (hx s') = nb (hx s).
Proof using Type.
  intros Hs Hrep Hf Hno.
  assert (m !! k = None) as Hmk.
  { destruct (m !! k) as [v0|] eqn:E; [|reflexivity]. exfalso.
    apply (Hrep k v0) in E as (vo & Hh & _). exact (Hno vo Hh). }
  exists s. unfold del0. rewrite Hf. cbn [rbind]. rewrite Hmk.
  split; [reflexivity|]. split; [exists ch; exact Hs|].
  split; [rewrite delete_notin by exact Hmk; exact Hrep|]. split; reflexivity.
Qed.

Lemma del_found (m : gmap bytes bytes) s ch k off r l1 l2 :
  sinvo s ch None -> represents s m ->
  find s k = Ok (Some (off, List.last l1 0)) -> kheap s !! off = Some r -> k_key r = k ->
  ch (home s k) = l1 ++ off :: l2 ->
  exists s', del0 s k = Ok (s', m !! k) /\ Inv s' /\ represents s' (delete k m) /\
             kt s' = kt s /\ nb (hx s') = nb (hx s).
Proof using Hk_old Hk_del Hk_fact Hv_del Hfprev Hrelink_orph.
  clear Hk_new Hv_new Hv_old Hv_fact Hfind Hrelink.
  intros Hs Hrep Hf Hr Hkey Hch.
  pose proof Hs as [Hc Hl]. apply core_iff in Hc as (HAk & HAv & Hbm & HP).
  assert (Hb : home s k < nb (hx s)) by (apply bucket_of_lt, (cp_n HP)).
  destruct (cp_val HP off r Hr) as [v0 Hv0].
  assert (Hmk : m !! k = Some v0).
  { apply (Hrep k v0). exists (k_voff r). split; [exists off, r; auto | exact Hv0]. }
  unfold del0. rewrite Hf. cbn [rbind].
  rewrite (read_krec_ok s off r Hr). cbn [rbind].
  rewrite (read_val_ok s _ v0 Hv0). cbn [rbind].
  change (bucket s k) with (home s k).
  destruct (del_unlink m s ch (home s k) off r l1 l2 Hs Hrep Hb Hr Hch)
    as (s1 & ch1 & Hu & Hs1 & Hoff1 & Hrep1 & Hkt & Hnb).
  rewrite Hu. cbn [rbind].
  destruct (del_finish m s1 ch1 off r Hs1 Hoff1 Hrep1) as (vf & kf & Hdv & Hdk & Hinv & Hrepf).
  rewrite Hdv. cbn [rbind]. rewrite Hdk. cbn [rbind].
  eexists. split; [rewrite Hmk; reflexivity|]. split; [exact Hinv|].
  split; [rewrite <- Hkey; exact Hrepf|]. split; [exact Hkt | exact Hnb].
Qed.

Theorem del_ok : del_stmt.
Proof using Hk_old Hk_del Hk_fact Hv_del Hfind Hfprev Hrelink_orph.
  clear Hk_new Hv_new Hv_old Hv_fact Hrelink.
  intros s0 m k [ch Hs] Hrep Hkwf. rewrite del_del0.
  apply sinvo_touch in Hs.
  change (kt s0) with (kt (touch s0)) in *. change (nb (hx s0)) with (nb (hx (touch s0))).
  change (represents (touch s0) m) in Hrep.
  revert Hs Hrep Hkwf. generalize (touch s0). clear s0. intros s Hs Hrep Hkwf.
  destruct (Hfind s ch None k Hs Hkwf) as [(Hf & Hno) | (off & r & l1 & l2 & Hf & Hr & Hkey & Hch)].
  - intros off Hoff. discriminate.
  - exact (del_none m s ch k Hs Hrep Hf Hno).
  - exact (del_found m s ch k off r l1 l2 Hs Hrep Hf Hr Hkey Hch).
Qed.

End with_hyps.
