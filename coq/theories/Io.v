(** * Io: a byte-level, executable model of the I/O every map operation performs.

    The record-level model (Alloc/Htx/Store/Iter/Stats) works on slots and bucket heads and
    [Layout.render] gives the byte images.  This file models what is below: the three files of a
    map as flat byte strings with a position, the [VarFile] primitives (vfile.rs) acting on them,
    and on top of those, call by call, the piece layer (piece.rs), the key and value record
    readers/writers (key.rs, val.rs), the table file (htx.rs) and the map operations (dbxxx.rs).
    Every primitive appends one event to a log; the log is compared, event by event, with the fine
    io-trace of the real crate (hook in vfile.rs, `iotrace`/`iodrain` of the runner).

    The flat file is the flat model of Cache.v ([Rabuf.Flat], [fstep]): a seek beyond the end
    EXTENDS the file with zeros; a write splices.  Outside the flat domain this file follows what
    rabuf does (Cache.v, validated against the real rabuf): a read beyond the end returns zeros,
    moves the position and does NOT extend the file.

    What is modelled as it is compiled for the runs (dev profile, default features): the
    [#[cfg(debug_assertions)]] block of [write_piece_clear] (an extra seek and size read), the
    [debug_assert!]s as [Panic DebugAssert], checked subtraction as [Panic Overflow].  Partial
    calls: [Write::write] stops at a chunk boundary of the buffered file, so [write_all] of a key
    or value is one write event per chunk touched ([fcs]: 4096 for a file opened with
    [FileBufSizeParam::Auto], the crate's chunk size otherwise).
    Not modelled: the [as u32] truncation of sizes and lengths read back (lengths are below 2^32,
    as in the record-level model), I/O errors (and with them the [set_file_length] recovery path
    of [write_piece]), [u64] wrap-around.

    Everything lives in the module [Io] so that the extracted names stay apart. *)
From Aby Require Import Base Vu64 Hash KeyTypes Consts Sizing Alloc Htx Store Stats Cache.

Module Io.

(** ** files, events, state *)
Inductive fid := FKey | FVal | FHtx.

Inductive ev :=
| EvSeek (f : fid) (target : N)       (* the position a seek arrived at *)
| EvRead (f : fid) (pos len : N)      (* position before the call *)
| EvWrite (f : fid) (pos len : N)
| EvSetLen (f : fid) (len : N)
| EvFlush (f : fid).

(** a flat file: contents, position, chunk size of its buffer (only [write_all] looks at it) *)
Record file := File { fb : bytes; fp : N; fcs : N }.
Definition fend (x : file) : N := blen (fb x).

(** the log is kept newest first *)
Record st := St { s_key : file; s_val : file; s_htx : file; s_log : list ev }.

Definition get_file (s : st) (f : fid) : file :=
  match f with FKey => s_key s | FVal => s_val s | FHtx => s_htx s end.
Definition set_file (s : st) (f : fid) (x : file) : st :=
  match f with
  | FKey => St x (s_val s) (s_htx s) (s_log s)
  | FVal => St (s_key s) x (s_htx s) (s_log s)
  | FHtx => St (s_key s) (s_val s) x (s_log s)
  end.
Definition emit (s : st) (e : ev) : st := St (s_key s) (s_val s) (s_htx s) (e :: s_log s).
Definition clear_log (s : st) : st := St (s_key s) (s_val s) (s_htx s) [].

(** ** the [VarFile] primitives: one event each *)

(** [Seek::seek] arriving at [target]: beyond the end the file is extended with zeros *)
Definition seek_to (f : fid) (target : N) (s : st) : st :=
  let x := get_file s f in
  emit (set_file s f (File (pad_to (fb x) target) target (fcs x))) (EvSeek f target).

(** [seek_from_start] (the [prepare] that follows only loads a buffer chunk) *)
Definition seek_from_start (f : fid) (off : N) (s : st) : res (N * st) := Ok (off, seek_to f off s).

(** [seek(SeekFrom::Current(+-x))]: [seek_skip_length], [seek_back_size], [seek_position] *)
Definition seek_cur (f : fid) (neg : bool) (x : N) (s : st) : res (N * st) :=
  let p := fp (get_file s f) in
  if neg then (if p <? x then Panic Overflow else Ok (p - x, seek_to f (p - x) s))
  else Ok (p + x, seek_to f (p + x) s).
Definition seek_position (f : fid) (s : st) : res (N * st) := seek_cur f false 0 s.
Definition seek_to_end (f : fid) (s : st) : res (N * st) :=
  let e := fend (get_file s f) in Ok (e, seek_to f e s).

(** what a read of [n] bytes returns: bytes beyond the end read as zero *)
Definition read_raw (x : file) (n : N) : bytes :=
  let b := sub (fb x) (fp x) n in b ++ zeros (n - blen b).

(** [read_u8], [read_u16_le], [read_u64_le], [read_max_8_bytes], [read_exact_maybeslice] ... *)
Definition read_n (f : fid) (n : N) (s : st) : res (bytes * st) :=
  let x := get_file s f in
  Ok (read_raw x n, emit (set_file s f (File (fb x) (fp x + n) (fcs x))) (EvRead f (fp x) n)).
Definition read_le (f : fid) (n : N) (s : st) : res (N * st) :=
  let* (b, s1) := read_n f n s in Ok (le_decode b, s1).

(** [write_u8], [write_u64_le], [write_zero] and one call of [Write::write] *)
Definition write_n (f : fid) (d : bytes) (s : st) : st :=
  let x := get_file s f in
  emit (set_file s f (File (splice (fb x) (fp x) d) (fp x + blen d) (fcs x))) (EvWrite f (fp x) (blen d)).

(** [Write::write_all]: [write] takes what fits into the current chunk *)
Fixpoint write_all (fuel : nat) (f : fid) (d : bytes) (s : st) : res st :=
  match d with
  | [] => Ok s
  | _ =>
    match fuel with
    | O => OutOfFuel
    | S fu =>
      let x := get_file s f in
      let k := N.to_nat (N.min (blen d) (to_boundary (fcs x) (fp x))) in
      write_all fu f (drop k d) (write_n f (take k d) s)
    end
  end.
Definition write_all_bytes (f : fid) (d : bytes) (s : st) : res st := write_all (S (length d)) f d s.

Definition set_len (f : fid) (n : N) (s : st) : st :=
  let x := get_file s f in
  emit (set_file s f (File (resize (fb x) n) (N.min (fp x) n) (fcs x))) (EvSetLen f n).

(** ** varint and integer fields *)

(** [decode_with_first_and_follow_le] *)
Definition vu64_of_parts (b0 follow : N) : option N :=
  let L := dec_len b0 in
  let v := if L =? 1 then b0
           else if L <=? 7 then follow * 2 ^ (8 - L) + b0 mod 2 ^ (8 - L)
           else follow in
  if (L =? 1) || (2 ^ (7 * (L - 1)) <=? v) then Some v else None.

(** [read_and_decode_vu64]: [read_u8], then for a first byte >= 128 one of
    [read_u8] / [read_u16_le] / [read_max_8_bytes(follow_len)]: one read of [follow_len] bytes *)
Definition read_vu64 (f : fid) (s : st) : res (N * st) :=
  let* (b0, s1) := read_le f 1 s in
  if b0 <? 128 then Ok (b0, s1)
  else
    let* (fo, s2) := read_le f (dec_len b0 - 1) s1 in
    match vu64_of_parts b0 fo with
    | Some v => Ok (v, s2)
    | None => IoErr
    end.

(** [encode_and_write_vu64] = [write_all(encode(v))] *)
Definition write_vu64 (f : fid) (v : N) (s : st) : res st := write_all_bytes f (encode v) s.

Definition read_piece_size (f : fid) (s : st) : res (N * st) :=
  let* (v, s1) := read_vu64 f s in Ok (v * 8, s1).
Definition write_piece_size (f : fid) (sz : N) (s : st) : res st :=
  if sz mod 8 =? 0 then write_vu64 f (sz / 8) s else Panic Misaligned.
Definition read_piece_offset (f : fid) (s : st) : res (N * st) :=
  let* (v, s1) := read_vu64 f s in Ok (v * 8, s1).
Definition write_piece_offset (f : fid) (off : N) (s : st) : res st :=
  if off mod 8 =? 0 then write_vu64 f (off / 8) s else Panic Misaligned.
Definition read_u64 (f : fid) (s : st) : res (N * st) := read_le f 8 s.
Definition write_u64 (f : fid) (v : N) (s : st) : res st := Ok (write_n f (le_bytes 8 v) s).

(** [write_zero_to_offset]: [seek_position] (a seek event), then one [write_zero] *)
Definition write_zero_to_offset (f : fid) (off : N) (s : st) : res st :=
  let* (start, s1) := seek_position f s in
  if start <? off then Ok (write_n f (zeros (off - start)) s1) else Ok s1.

(** [write_piece_clear] (dev profile: the slot's size is read and compared first) *)
Definition write_piece_clear (f : fid) (off size : N) (s : st) : res st :=
  if size =? 0 then Panic DebugAssert else
  let* (_, s1) := seek_from_start f off s in
  let* (psz, s2) := read_piece_size f s1 in
  if negb ((psz =? 0) || (size =? psz)) then Panic DebugAssert else
  let* (_, s3) := seek_from_start f off s2 in
  let* s4 := write_piece_size f size s3 in
  write_zero_to_offset f (off + size) s4.

(** ** free lists (piece.rs) *)
Definition free_hdr_off (c : pcfg) (sz : N) : res N :=
  let* i := class_idx c sz in Ok (nth i (free_off c) 0).

Definition read_free_on_header (c : pcfg) (f : fid) (sz : N) (s : st) : res (N * st) :=
  let* o := free_hdr_off c sz in
  let* (_, s1) := seek_from_start f o s in
  read_u64 f s1.
Definition write_free_on_header (c : pcfg) (f : fid) (sz off : N) (s : st) : res st :=
  let* o := free_hdr_off c sz in
  let* (_, s1) := seek_from_start f o s in
  write_u64 f off s1.

(** size, length field (must be zero), next-free offset of the slot the position is at *)
Definition read_free_fields (f : fid) (s : st) : res (N * N * st) :=
  let* (sz, s2) := read_piece_size f s in
  let* (kl, s3) := read_vu64 f s2 in
  if negb (kl =? 0) then Panic DebugAssert else
  let* (nx, s4) := read_u64 f s3 in
  Ok (sz, nx, s4).

Definition read_free_piece_size_next (f : fid) (off : N) (s : st) : res (N * N * st) :=
  let* (_, s1) := seek_from_start f off s in
  read_free_fields f s1.

Definition walk_fuel (s : st) (f : fid) : nat := S (N.to_nat (fend (get_file s f) / 8)).

Fixpoint count_free_loop (fuel : nat) (f : fid) (off acc : N) (s : st) : res (N * st) :=
  match fuel with
  | O => OutOfFuel
  | S fu =>
    if off =? 0 then Ok (acc, s)
    else let* (_, nx, s1) := read_free_piece_size_next f off s in count_free_loop fu f nx (acc + 1) s1
  end.
Definition count_of_free_piece_list (c : pcfg) (f : fid) (sz : N) (s : st) : res (N * st) :=
  let* (first, s1) := read_free_on_header c f sz s in
  count_free_loop (walk_fuel s1 f) f first 0 s1.

Definition push_free (c : pcfg) (f : fid) (off sz : N) (s : st) : res st :=
  if off =? 0 then Ok s else
  if sz =? 0 then Panic DebugAssert else
  let* (first, s1) := read_free_on_header c f sz s in
  let* (start, s2) := seek_from_start f off s1 in
  let* s3 := write_piece_size f sz s2 in
  let* s4 := write_vu64 f 0 s3 in
  let* s5 := write_u64 f first s4 in
  let* s6 := write_zero_to_offset f (start + sz) s5 in
  write_free_on_header c f sz off s6.

Fixpoint pop_large (fuel : nat) (c : pcfg) (f : fid) (nsz prev curr : N) (s : st) : res (N * st) :=
  match fuel with
  | O => OutOfFuel
  | S fu =>
    if curr =? 0 then Ok (curr, s)
    else
      let* (psz, nx, s4) := read_free_piece_size_next f curr s in
      if nsz <=? psz then
        let* s5 := (if negb (prev =? 0) then
                      let* (_, a1) := seek_from_start f prev s4 in
                      let* (_, a2) := read_piece_size f a1 in
                      let* (kl, a3) := read_vu64 f a2 in
                      if negb (kl =? 0) then Panic DebugAssert else write_u64 f nx a3
                    else write_free_on_header c f nsz nx s4) in
        let* s6 := write_piece_clear f curr psz s5 in
        Ok (curr, s6)
      else pop_large fu c f nsz curr nx s4
  end.

Definition pop_free (c : pcfg) (f : fid) (nsz : N) (s : st) : res (N * st) :=
  let* (first, s1) := read_free_on_header c f nsz s in
  if negb (is_large c nsz) then
    if negb (first =? 0) then
      let* (psz, nx, s2) := read_free_piece_size_next f first s1 in
      let* s3 := write_piece_clear f first psz s2 in
      let* s4 := write_free_on_header c f nsz nx s3 in
      Ok (first, s4)
    else Ok (first, s1)
  else pop_large (walk_fuel s1 f) c f nsz 0 first s1.

(** ** records (key.rs, val.rs) *)

(** [dat_write_piece_one] of a value / of a key record: [wr off size] *)
Definition val_write_one (v : bytes) (off size : N) (s : st) : res st :=
  if size =? 0 then Panic DebugAssert else
  let* (_, s1) := seek_from_start FVal off s in
  let* s2 := write_piece_size FVal size s1 in
  let* s3 := write_vu64 FVal (blen v) s2 in
  let* s4 := write_all_bytes FVal v s3 in
  write_zero_to_offset FVal (off + size) s4.

Definition key_write_one (k : bytes) (voff noff : N) (off size : N) (s : st) : res st :=
  if size =? 0 then Panic DebugAssert else
  let* (_, s1) := seek_from_start FKey off s in
  let* s2 := write_piece_size FKey size s1 in
  let* s3 := write_vu64 FKey (blen k) s2 in
  let* s4 := write_all_bytes FKey k s3 in
  let* s5 := write_piece_offset FKey voff s4 in
  let* s6 := write_piece_offset FKey noff s5 in
  write_zero_to_offset FKey (off + size) s6.

(** the "add new" half of [write_piece]: (offset, slot size) *)
Definition add_new (c : pcfg) (f : fid) (nsz : N) (wr : N -> N -> st -> res st) (s : st) : res (N * N * st) :=
  let* (fo, s1) := pop_free c f nsz s in
  let* (noff, sz, s2) :=
     (if negb (fo =? 0) then
        let* (_, a1) := seek_from_start f fo s1 in
        let* (fsz, a2) := read_piece_size f a1 in
        let* (_, a3) := seek_from_start f fo a2 in
        Ok (fo, N.max fsz nsz, a3)
      else
        let* (e, a1) := seek_to_end f s1 in Ok (e, nsz, a1)) in
  if negb (valid_size c sz) then Panic DebugAssert else
  let* s3 := wr noff sz s2 in
  Ok (noff, sz, s3).

(** [write_piece(piece, is_new)]: [old = None] is a new piece *)
Definition write_piece (c : pcfg) (f : fid) (need : N) (wr : N -> N -> st -> res st) (old : option N) (s : st)
  : res (N * N * st) :=
  if need =? 0 then Panic DebugAssert else
  let nsz := roundup c need in
  match old with
  | None => add_new c f nsz wr s
  | Some off =>
    if off =? 0 then Panic DebugAssert else
    let* (_, s1) := seek_from_start f off s in
    let* (osz, s2) := read_piece_size f s1 in
    if negb (valid_size c osz) then Panic DebugAssert else
    if nsz <=? osz then
      let* (_, s3) := seek_from_start f off s2 in
      let* s4 := wr off osz s3 in
      Ok (off, osz, s4)
    else
      let* s3 := push_free c f off osz s2 in
      add_new c f nsz wr s3
  end.

Definition delete_piece (c : pcfg) (f : fid) (off : N) (s : st) : res st :=
  let* (_, s1) := seek_from_start f off s in
  let* (osz, s2) := read_piece_size f s1 in
  push_free c f off osz s2.

(** [seek_skip_to_piece_key] / [_value]: over the size field, by its first byte *)
Definition seek_skip_to_piece (f : fid) (off : N) (s : st) : res (N * st) :=
  let* (_, s1) := seek_from_start f off s in
  let* (b0, s2) := read_le f 1 s1 in
  let L := dec_len b0 in
  let* s3 := (if 1 <? L then let* (_, a) := seek_cur f false (L - 1) s2 in Ok a else Ok s2) in
  seek_position f s3.

(** [KeyFile::read_piece]: (slot size, key, value offset, next offset) *)
Definition key_read_piece (off : N) (s : st) : res (N * bytes * N * N * st) :=
  if off =? 0 then Panic DebugAssert else
  let* (_, s1) := seek_from_start FKey off s in
  let* (sz, s2) := read_piece_size FKey s1 in
  if negb (valid_size key_cfg sz) then Panic DebugAssert else
  let* (kl, s3) := read_vu64 FKey s2 in
  let* (k, s4) := read_n FKey kl s3 in
  let* (vo, s5) := read_piece_offset FKey s4 in
  let* (no, s6) := read_piece_offset FKey s5 in
  Ok (sz, k, vo, no, s6).

Definition read_piece_only_size (f : fid) (off : N) (s : st) : res (N * st) :=
  if off =? 0 then Panic DebugAssert else
  let* (_, s1) := seek_from_start f off s in
  read_piece_size f s1.

(** [read_piece_only_key_length] / [read_piece_only_value_length] *)
Definition read_piece_only_length (f : fid) (off : N) (s : st) : res (N * st) :=
  if off =? 0 then Panic DebugAssert else
  let* (_, s1) := seek_skip_to_piece f off s in
  read_vu64 f s1.

(** [read_piece_only_key(_maybeslice)] / [read_piece_only_value] *)
Definition read_piece_only_payload (f : fid) (off : N) (s : st) : res (bytes * st) :=
  if off =? 0 then Panic DebugAssert else
  let* (_, s1) := seek_skip_to_piece f off s in
  let* (l, s2) := read_vu64 f s1 in
  read_n f l s2.

Definition read_piece_only_value_offset (off : N) (s : st) : res (N * st) :=
  if off =? 0 then Panic DebugAssert else
  let* (_, s1) := seek_skip_to_piece FKey off s in
  let* (kl, s2) := read_vu64 FKey s1 in
  let* (_, s3) := seek_cur FKey false kl s2 in
  read_piece_offset FKey s3.

Definition read_piece_only_bucket_next_offset (off : N) (s : st) : res (N * st) :=
  if off =? 0 then Panic DebugAssert else
  let* (_, s1) := seek_skip_to_piece FKey off s in
  let* (kl, s2) := read_vu64 FKey s1 in
  let* (_, s3) := seek_cur FKey false kl s2 in
  let* (_, s4) := read_piece_offset FKey s3 in
  read_piece_offset FKey s4.

(** [ValueFile::read_piece]: (slot size, value) *)
Definition val_read_piece (off : N) (s : st) : res (N * bytes * st) :=
  if off =? 0 then Panic DebugAssert else
  let* (_, s1) := seek_from_start FVal off s in
  let* (sz, s2) := read_piece_size FVal s1 in
  if negb (valid_size val_cfg sz) then Panic DebugAssert else
  let* (vl, s3) := read_vu64 FVal s2 in
  let* (v, s4) := read_n FVal vl s3 in
  Ok (sz, v, s4).

Definition val_write_piece (v : bytes) (old : option N) (s : st) : res (N * N * st) :=
  write_piece val_cfg FVal (val_need (blen v)) (val_write_one v) old s.
Definition key_write_piece (k : bytes) (voff noff : N) (old : option N) (s : st) : res (N * N * st) :=
  write_piece key_cfg FKey (key_need (blen k) voff noff) (key_write_one k voff noff) old s.

(** ** the table file (htx.rs) *)
Definition read_hash_buckets_size (s : st) : res (N * st) :=
  let* (_, s1) := seek_from_start FHtx htx_size_offset s in read_u64 FHtx s1.
Definition read_item_count (s : st) : res (N * st) :=
  let* (_, s1) := seek_from_start FHtx htx_count_offset s in read_u64 FHtx s1.
Definition write_item_count (v : N) (s : st) : res st :=
  let* (_, s1) := seek_from_start FHtx htx_count_offset s in write_u64 FHtx v s1.
Definition write_item_count_up (s : st) : res st :=
  let* (v, s1) := read_item_count s in write_item_count (v + 1) s1.
Definition write_item_count_down (s : st) : res st :=
  let* (v, s1) := read_item_count s in
  if 0 <? v then write_item_count (v - 1) s1 else Ok s1.

Definition read_key_piece_offset (idx : N) (s : st) : res (N * st) :=
  let* (_, s1) := seek_from_start FHtx (htx_header_size + 8 * idx) s in read_u64 FHtx s1.

(** [byte |= 1 << bit] / [byte &= !(1 << bit)] *)
Definition set_bit (byte bit : N) (on : bool) : N :=
  if on then (if N.testbit byte bit then byte else byte + 2 ^ bit)
  else (if N.testbit byte bit then byte - 2 ^ bit else byte).

(** [write_key_piece_offset]: bitmap byte read-modify-write, then the bucket head *)
Definition write_key_piece_offset (n idx off : N) (s : st) : res st :=
  let* s4 :=
    (if htx_bitmap then
       let p := htx_header_size + n * 8 + idx / 8 in
       let* (_, s1) := seek_from_start FHtx p s in
       let* (byte, s2) := read_le FHtx 1 s1 in
       let* (_, s3) := seek_from_start FHtx p s2 in
       Ok (write_n FHtx [set_bit byte (idx mod 8) (negb (off =? 0))] s3)
     else Ok s) in
  let* (_, s5) := seek_from_start FHtx (htx_header_size + 8 * idx) s4 in
  write_u64 FHtx off s5.

(** the three strides of [next_key_piece_offset]: [u64] reads of the bitmap, [u8] reads of the
    bitmap, [u64] reads of the bucket heads *)
Fixpoint scan64 (fuel : nat) (n idx : N) (s : st) : res (N * st) :=
  match fuel with
  | O => OutOfFuel
  | S fu =>
    if idx + 8 <? n then
      let* (b8, s1) := read_le FHtx 8 s in
      if b8 =? 0 then scan64 fu n (idx + 64) s1 else Ok (idx + 64, s1)
    else Ok (idx, s)
  end.

Fixpoint scan8 (fuel : nat) (n idx : N) (s : st) : res (N * st) :=
  match fuel with
  | O => OutOfFuel
  | S fu =>
    if idx <? n then
      let* (b, s1) := read_le FHtx 1 s in
      if b =? 0 then scan8 fu n (idx + 8) s1 else Ok (idx + 8, s1)
    else Ok (idx, s)
  end.

Fixpoint scan1 (fuel : nat) (n idx : N) (s : st) : res (N * N * st) :=
  match fuel with
  | O => OutOfFuel
  | S fu =>
    if idx <? n then
      let* (off, s1) := read_u64 FHtx s in
      if off =? 0 then scan1 fu n (idx + 1) s1 else Ok (idx + 1, off, s1)
    else Ok (idx, 0, s)
  end.

(** [next_key_piece_offset(buckets_size, idx)]: (next index, head found or 0) *)
Definition next_key_piece_offset (n idx : N) (s : st) : res (N * N * st) :=
  let fuel := S (N.to_nat n) in
  let* (idx', s') :=
    (if htx_bitmap then
       if idx mod 8 =? 0 then
         let* (_, s1) := seek_from_start FHtx (htx_header_size + n * 8 + idx / 8) s in
         let* (i1, s2) := scan64 fuel n idx s1 in
         let* (i2, s3) := (if idx <? i1 then let* (_, a) := seek_cur FHtx true 8 s2 in Ok (i1 - 64, a)
                           else Ok (i1, s2)) in
         let* (i3, s4) := scan8 fuel n i2 s3 in
         if i3 <? 8 then Panic Overflow else Ok (i3 - 8, s4)
       else Ok (idx, s)
     else Ok (idx, s)) in
  let* (_, s5) := seek_from_start FHtx (htx_header_size + 8 * idx') s' in
  scan1 fuel n idx' s5.

Fixpoint filling_loop (cnt : nat) (idx acc : N) (s : st) : res (N * st) :=
  match cnt with
  | O => Ok (acc, s)
  | S c =>
    let* (off, s1) := read_key_piece_offset idx s in
    filling_loop c (idx + 1) (if off =? 0 then acc else acc + 1) s1
  end.
(** [htx_filling_rate_per_mill] *)
Definition filling (n : N) (s : st) : res (N * N * st) :=
  let* (c, s1) := filling_loop (N.to_nat n) 0 0 s in Ok (c, c * 1000 / n, s1).

(** ** a map: key type and bucket count are held in memory ([VarFileHtxCache::buckets_size]) *)
Record mp := Mp { m_kt : ktype; m_n : N; m_st : st }.
Definition with_st (m : mp) (s : st) : mp := Mp (m_kt m) (m_n m) s.

Definition chain_fuel (s : st) : nat := walk_fuel s FKey.

(** [find_in_hash_buckets_kt]: (offset of the key record, offset of its predecessor or 0) *)
Fixpoint find_loop (fuel : nat) (t : ktype) (key : bytes) (prev off : N) (s : st) : res (option (N * N) * st) :=
  match fuel with
  | O => OutOfFuel
  | S fu =>
    if off =? 0 then Ok (None, s)
    else
      let* (k, s1) := read_piece_only_payload FKey off s in
      let* e := cmp_eq t key k in
      if e then Ok (Some (off, prev), s1)
      else
        let* (nx, s2) := read_piece_only_bucket_next_offset off s1 in
        find_loop fu t key off nx s2
  end.

Definition bucket (m : mp) (key : bytes) : N := hash_value key mod m_n m.

Definition find (m : mp) (key : bytes) (s : st) : res (option (N * N) * st) :=
  let* (h, s1) := read_key_piece_offset (bucket m key) s in
  find_loop (chain_fuel s1) (m_kt m) key 0 h s1.

(** [load_value] *)
Definition load_value (koff : N) (s : st) : res (bytes * st) :=
  if koff =? 0 then Panic DebugAssert else
  let* (vo, s1) := read_piece_only_value_offset koff s in
  read_piece_only_payload FVal vo s1.

(** [get_kt] *)
Definition get (m : mp) (key : bytes) : res (option bytes * mp) :=
  let* (o, s1) := find m key (m_st m) in
  match o with
  | Some (koff, _) => let* (v, s2) := load_value koff s1 in Ok (Some v, with_st m s2)
  | None => Ok (None, with_st m s1)
  end.

(** [includes_key_kt] *)
Definition has (m : mp) (key : bytes) : res (bool * mp) :=
  let* (o, s1) := find m key (m_st m) in
  Ok (match o with Some _ => true | None => false end, with_st m s1).

(** [len] *)
Definition len (m : mp) : res (N * mp) :=
  let* (c, s1) := read_item_count (m_st m) in Ok (c, with_st m s1).

(** [find_prev_key_offset] *)
Fixpoint find_prev_loop (fuel : nat) (target prev curr : N) (s : st) : res (N * st) :=
  match fuel with
  | O => OutOfFuel
  | S fu =>
    if (curr =? 0) || (curr =? target) then Ok (prev, s)
    else let* (nx, s1) := read_piece_only_bucket_next_offset curr s in find_prev_loop fu target curr nx s1
  end.
Definition find_prev (m : mp) (b target : N) (s : st) : res (N * st) :=
  let* (h, s1) := read_key_piece_offset b s in
  find_prev_loop (chain_fuel s1) target 0 h s1.

(** [relink_key_piece] *)
Fixpoint relink (fuel : nat) (m : mp) (b prev newoff : N) (s : st) : res st :=
  match fuel with
  | O => OutOfFuel
  | S fu =>
    if prev =? 0 then write_key_piece_offset (m_n m) b newoff s
    else
      let* (_, k, vo, _, s1) := key_read_piece prev s in
      let* (poff, _, s2) := key_write_piece k vo newoff (Some prev) s1 in
      if poff =? prev then Ok s2
      else
        let* (pp, s3) := find_prev m b prev s2 in
        relink fu m b pp poff s3
  end.

(** [put_kt] *)
Definition put (m : mp) (key v : bytes) : res mp :=
  let b := bucket m key in
  let* (o, s1) := find m key (m_st m) in
  match o with
  | Some (koff, prev) =>
    (* store_value_on_insert *)
    let* (_, k, vo, no, s2) := key_read_piece koff s1 in
    let* (_, _, s3) := val_read_piece vo s2 in
    let* (nvo, _, s4) := val_write_piece v (Some vo) s3 in
    if nvo =? vo then Ok (with_st m s4)
    else
      let* (nkoff, _, s5) := key_write_piece k nvo no (Some koff) s4 in
      if nkoff =? koff then Ok (with_st m s5)
      else let* s6 := relink (chain_fuel s5) m b prev nkoff s5 in Ok (with_st m s6)
  | None =>
    let* (nxt, s2) := read_key_piece_offset b s1 in
    let* (voff, _, s3) := val_write_piece v None s2 in
    let* (koff, _, s4) := key_write_piece key voff nxt None s3 in
    let* s5 := write_key_piece_offset (m_n m) b koff s4 in
    let* s6 := write_item_count_up s5 in
    Ok (with_st m s6)
  end.

(** [del_kt] *)
Definition del (m : mp) (key : bytes) : res (option bytes * mp) :=
  let b := bucket m key in
  let* (o, s1) := find m key (m_st m) in
  match o with
  | None => Ok (None, with_st m s1)
  | Some (koff, prev) =>
    let* (_, _, vo, no, s2) := key_read_piece koff s1 in
    let* (v, s3) := read_piece_only_payload FVal vo s2 in
    let* s4 :=
      (if prev =? 0 then write_key_piece_offset (m_n m) b no s3
       else
         let* (_, pk, pvo, _, a1) := key_read_piece prev s3 in
         let* (poff, _, a2) := key_write_piece pk pvo no (Some prev) a1 in
         if poff =? prev then Ok a2
         else
           let* (pp, a3) := find_prev m b prev a2 in
           relink (chain_fuel a3) m b pp poff a3) in
    let* s5 := delete_piece val_cfg FVal vo s4 in
    let* s6 := delete_piece key_cfg FKey koff s5 in
    let* s7 := write_item_count_down s6 in
    Ok (Some v, with_st m s7)
  end.

(** ** the iterator ([DbXxxIterMut]) *)
Record iter_st := IterSt { it_rem : N; it_n : N; it_idx : N; it_koff : N }.

Definition iter_new (s : st) : res (iter_st * st) :=
  let* (n, s1) := read_hash_buckets_size s in
  let* (c, s2) := read_item_count s1 in
  Ok (IterSt c n 0 0, s2).

Fixpoint bucket_loop (fuel : nat) (n idx : N) (s : st) : res (N * N * st) :=
  match fuel with
  | O => OutOfFuel
  | S fu =>
    if idx <? n then
      let* (idx', off, s1) := next_key_piece_offset n idx s in
      if off =? 0 then bucket_loop fu n idx' s1 else Ok (idx', off, s1)
    else Ok (idx, 0, s)
  end.

Definition iter_next_off (it : iter_st) (s : st) : res (iter_st * option N * st) :=
  let* (k1, s1) := (if it_koff it =? 0 then Ok (0, s)
                    else read_piece_only_bucket_next_offset (it_koff it) s) in
  let* (idx2, k2, s2) := (if k1 =? 0 then bucket_loop (S (N.to_nat (it_n it))) (it_n it) (it_idx it) s1
                          else Ok (it_idx it, k1, s1)) in
  if (k2 =? 0) || (it_rem it =? 0) then Ok (IterSt (it_rem it) (it_n it) idx2 k2, None, s2)
  else Ok (IterSt (it_rem it - 1) (it_n it) idx2 k2, Some k2, s2).

Definition iter_next (it : iter_st) (s : st) : res (iter_st * option (bytes * bytes) * st) :=
  let* (it', o, s1) := iter_next_off it s in
  match o with
  | None => Ok (it', None, s1)
  | Some koff =>
    if koff =? 0 then Panic DebugAssert else
    let* (k, s2) := read_piece_only_payload FKey koff s1 in
    let* (v, s3) := load_value koff s2 in
    Ok (it', Some (k, v), s3)
  end.

Fixpoint iter_collect (fuel : nat) (it : iter_st) (acc : list (N * (bytes * bytes))) (s : st)
  : res (list (N * (bytes * bytes)) * iter_st * st) :=
  match fuel with
  | O => OutOfFuel
  | S fu =>
    let* (it', o, s1) := iter_next it s in
    match o with
    | None => Ok (rev acc, it', s1)
    | Some kv => iter_collect fu it' ((it_rem it, kv) :: acc) s1
    end
  end.

Fixpoint iter_extra (n : nat) (it : iter_st) (s : st) : res (list (option (bytes * bytes)) * st) :=
  match n with
  | O => Ok ([], s)
  | S n' =>
    let* (it', o, s1) := iter_next it s in
    let* (rest, s2) := iter_extra n' it' s1 in
    Ok (o :: rest, s2)
  end.

(** a complete traversal as the runner drives it (same shape as [Iter.iter_run]) *)
Definition iter_run (m : mp)
  : res (list (N * (bytes * bytes)) * N * list (option (bytes * bytes)) * mp) :=
  let* (it, s1) := iter_new (m_st m) in
  let* (items, it', s2) := iter_collect (S (S (N.to_nat (it_rem it)))) it [] s1 in
  let* (ex, s3) := iter_extra 2 it' s2 in
  Ok (items, it_rem it', ex, with_st m s3).

(** ** statistics ([CheckFileDbMap]) *)
Fixpoint count_frees (c : pcfg) (f : fid) (szs : list N) (s : st) : res (list (N * N) * st) :=
  match szs with
  | [] => Ok ([], s)
  | sz :: rest =>
    let* (n, s1) := count_of_free_piece_list c f sz s in
    let* (r, s2) := count_frees c f rest s1 in
    Ok ((sz, n) :: r, s2)
  end.

(** [PieceOffsetIter] driving [visit] on every slot offset; [acc] is the histogram so far.
    [off = 0]: before the first slot. *)
Section walk.
Variable c : pcfg.
Variable f : fid.
Variable visit : N -> list (N * N) -> st -> res (list (N * N) * st).

Fixpoint piece_walk (fuel : nat) (off e : N) (acc : list (N * N)) (s : st) : res (list (N * N) * st) :=
  match fuel with
  | O => OutOfFuel
  | S fu =>
    let* (nxt, s1) := (if off =? 0 then Ok (hdr_size c, s)
                       else let* (_, a1) := seek_from_start f off s in
                            let* (sz, a2) := read_piece_size f a1 in Ok (off + sz, a2)) in
    if nxt <? e then
      let* (acc', s2) := visit nxt acc s1 in
      piece_walk fu nxt e acc' s2
    else Ok (acc, s1)
  end.

Definition piece_stats (s : st) : res (list (N * N) * st) :=
  let* (e, s1) := seek_to_end f s in
  piece_walk (S (walk_fuel s1 f)) 0 e [] s1.
End walk.

(** [key_piece_size_stats] / [value_piece_size_stats] *)
Definition size_visit (f : fid) (off : N) (acc : list (N * N)) (s : st) : res (list (N * N) * st) :=
  let* (sz, s1) := read_piece_only_size f off s in
  let* (l, s2) := read_piece_only_length f off s1 in
  Ok (if l =? 0 then acc else touch_hist acc sz, s2).
(** [key_length_stats] / [value_length_stats] *)
Definition len_visit (f : fid) (off : N) (acc : list (N * N)) (s : st) : res (list (N * N) * st) :=
  let* (l, s1) := read_piece_only_length f off s in
  Ok (if l =? 0 then acc else touch_hist acc l, s1).

(** the order of the runner's [stats] line: filling rate first, then the six walkers *)
Definition stats_of (m : mp) : res (stats * mp) :=
  let s := m_st m in
  let* (fc, fpm, s0) := filling (m_n m) s in
  let* (fk, s1) := count_frees key_cfg FKey (size_ary key_cfg) s0 in
  let* (fv, s2) := count_frees val_cfg FVal (size_ary val_cfg) s1 in
  let* (ks, s3) := piece_stats key_cfg FKey (size_visit FKey) s2 in
  let* (vs, s4) := piece_stats val_cfg FVal (size_visit FVal) s3 in
  let* (kl, s5) := piece_stats key_cfg FKey (len_visit FKey) s4 in
  let* (vl, s6) := piece_stats val_cfg FVal (len_visit FVal) s5 in
  Ok (MkStats fk fv ks vs kl vl (fc, fpm), with_st m s6).

(** ** creation of the three files ([open_with_params] on empty files) *)
Definition rabuf_default_chunk : N := 4096.      (* rabuf's CHUNK_SIZE (BufFile::new), a dependency *)

Inductive bufkind := BufAuto | BufSized.
Definition chunk_of (own : N) (b : bufkind) : N :=
  match b with BufAuto => rabuf_default_chunk | BufSized => own end.

(** [write_keyrecf_init_header] / [write_valrecf_init_header] *)
Definition init_pheader (c : pcfg) (f : fid) (sig2 : bytes) (s : st) : res st :=
  let* (_, s0) := seek_to_end f s in
  let* (_, s1) := seek_from_start f 0 s0 in
  let* s2 := write_all_bytes f (sig1 c) s1 in
  let* s3 := write_all_bytes f sig2 s2 in
  let* s4 := write_u64 f 0 s3 in
  let* s5 := write_u64 f 0 s4 in
  write_all_bytes f (zeros (hdr_size c - 32)) s5.

(** [write_htxf_init_header], [set_file_length], the final zero word *)
Definition init_htx (sig2 : bytes) (n : N) (s : st) : res st :=
  let* (_, s0) := seek_to_end FHtx s in
  let* (_, s1) := seek_from_start FHtx 0 s0 in
  let* s2 := write_all_bytes FHtx htx_signature s1 in
  let* s3 := write_all_bytes FHtx sig2 s2 in
  let* s4 := write_u64 FHtx n s3 in
  let* s5 := write_all_bytes FHtx (zeros (htx_header_size - 24)) s4 in
  let e := htx_header_size + n * 8 + (if htx_bitmap then n / 8 else 0) in
  let s6 := set_len FHtx e s5 in
  if e <? 8 then Panic Overflow else
  let* (_, s7) := seek_from_start FHtx (e - 8) s6 in
  write_u64 FHtx 0 s7.

Definition empty_st (bk bv bh : bufkind) : st :=
  St (File [] 0 (chunk_of key_chunk_size bk)) (File [] 0 (chunk_of val_chunk_size bv))
     (File [] 0 (chunk_of htx_chunk_size bh)) [].

(** key file, value file, table file - in this order *)
Definition create (t : ktype) (n : N) (bk bv bh : bufkind) : res mp :=
  let sg := sig_of t in
  let* s1 := init_pheader key_cfg FKey sg (empty_st bk bv bh) in
  let* s2 := init_pheader val_cfg FVal sg s1 in
  let* s3 := init_htx sg n s2 in
  Ok (Mp t n s3).

(** ** opening the files of an existing map ([open_with_params] on files that are not empty)

    [KeyFile::open_with_params], [ValueFile::open_with_params], [HtxFile::open_with_params], in
    this order (dbxxx.rs).  Each: [seek_to_end] (the length of the file); a length of zero means
    "just created": the header would be written ([HdrFresh]; creation over a partial set of files
    is not modelled, [create] is the creation on three empty files).  Otherwise
    [check_keyrecf_header] / [check_valrecf_header] / [check_htxf_header]: [seek_from_start(0)],
    [read_exact] of signature1, [assert!], [read_exact] of signature2, [assert!], [read_u64_le]
    (reserve0 must be 0 / the bucket count must not be 0), [assert!].  A failed [assert!] unwinds at
    once: the reads after it do not happen, the files opened before are dropped, and the drop of
    a file nothing was written to performs no I/O ([HdrBad]).  The table file then reads the
    bucket count AGAIN ([read_hash_buckets_size]) and keeps it in memory: the parameters of the
    open are not consulted ([open_existing] does not take them).
    Reads are the flat reads of this file: beyond the end they return zeros (rabuf; seen on the
    real crate with truncated files: a key file of 20 bytes passes the reserve0 check).
    [s]: the three files as the previous session left them, positions 0, chunk sizes of the
    buffers THIS open asked for ([chunk_of]). *)
Inductive hdr_verdict := HdrOk | HdrBad | HdrFresh.

Definition open_check (f : fid) (sg1 sg2 : bytes) (third_ok : N -> bool) (s : st) : res (hdr_verdict * st) :=
  let* (e, s0) := seek_to_end f s in
  if e =? 0 then Ok (HdrFresh, s0) else
  let* (_, s1) := seek_from_start f 0 s0 in
  let* (a, s2) := read_n f 8 s1 in
  if negb (bytes_eqb a sg1) then Ok (HdrBad, s2) else
  let* (b, s3) := read_n f 8 s2 in
  if negb (bytes_eqb b sg2) then Ok (HdrBad, s3) else
  let* (c, s4) := read_u64 f s3 in
  if third_ok c then Ok (HdrOk, s4) else Ok (HdrBad, s4).

Inductive open_outcome :=
| Opened (m : mp)          (* all three headers pass; the table size is the one read from the file *)
| RejectedAt (f : fid)     (* an [assert!] of the header check of file [f] failed: panic *)
| FreshFile (f : fid).     (* file [f] has length zero: the crate would write a header *)

Definition open_existing (t : ktype) (s : st) : res (open_outcome * st) :=
  let sg := sig_of t in
  let* (vk, s1) := open_check FKey (sig1 key_cfg) sg (fun c => c =? 0) s in
  match vk with
  | HdrFresh => Ok (FreshFile FKey, s1)
  | HdrBad => Ok (RejectedAt FKey, s1)
  | HdrOk =>
    let* (vv, s2) := open_check FVal (sig1 val_cfg) sg (fun c => c =? 0) s1 in
    match vv with
    | HdrFresh => Ok (FreshFile FVal, s2)
    | HdrBad => Ok (RejectedAt FVal, s2)
    | HdrOk =>
      let* (vh, s3) := open_check FHtx htx_signature sg (fun c => negb (c =? 0)) s2 in
      match vh with
      | HdrFresh => Ok (FreshFile FHtx, s3)
      | HdrBad => Ok (RejectedAt FHtx, s3)
      | HdrOk =>
        let* (n, s4) := read_hash_buckets_size s3 in
        Ok (Opened (Mp t n s4), s4)
      end
    end
  end.

(** the files a closed session left behind, as the next open finds them *)
Definition reopen_st (k v h : bytes) (bk bv bh : bufkind) : st :=
  St (File k 0 (chunk_of key_chunk_size bk)) (File v 0 (chunk_of val_chunk_size bv))
     (File h 0 (chunk_of htx_chunk_size bh)) [].

(** the three byte strings (.htx, .key, .val), as [Layout.render] orders them *)
Definition st_images (s : st) : bytes * bytes * bytes := (fb (s_htx s), fb (s_key s), fb (s_val s)).
Definition images (m : mp) : bytes * bytes * bytes :=
  (fb (s_htx (m_st m)), fb (s_key (m_st m)), fb (s_val (m_st m))).

Definition drain (m : mp) : list ev * mp := (rev (s_log (m_st m)), with_st m (clear_log (m_st m))).

End Io.
