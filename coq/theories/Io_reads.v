(** * Io_reads: the read-only operations of the byte-level model [Io]. *)
From Coq Require Import Lia ZifyN ZifyNat ZifyBool.
From Aby Require Import Base Vu64 Vu64_proofs Hash KeyTypes Consts Sizing Alloc AllocInv Htx Htx_proofs Store Stats Layout Load Load_proofs Load_htx_proofs Cache Cache_proofs Io Io_base Io_htx.
Import Io.
#[local] Open Scope N_scope.

(** ** D1. every read-only operation only looks *)

Definition ev_look (e : ev) : Prop := match e with EvSeek _ _ | EvRead _ _ _ => True | _ => False end.
Definition looks (s s' : st) : Prop :=
  (forall f, (exists k, fb (get_file s' f) = fb (get_file s f) ++ zeros k) /\ fcs (get_file s' f) = fcs (get_file s f)) /\
  exists evs, appended s s' evs /\ Forall ev_look evs.

Lemma zeros_add a b : zeros a ++ zeros b = zeros (a + b).
Proof. unfold zeros. rewrite <- repeat_app. f_equal. lia. Qed.

Lemma looks_refl s : looks s s.
Proof.
  split.
  - intros f. split; [exists 0; symmetry; apply app_nil_r|reflexivity].
  - exists []. split; [apply appended_refl|constructor].
Qed.

Lemma looks_trans s1 s2 s3 : looks s1 s2 -> looks s2 s3 -> looks s1 s3.
Proof.
  intros [H1 (e1 & A1 & Q1)] [H2 (e2 & A2 & Q2)]. split.
  - intros f. destruct (H1 f) as [[k1 a] b], (H2 f) as [[k2 c] d]. split; [|congruence].
    exists (k1 + k2). rewrite c, a, <- app_assoc, zeros_add. reflexivity.
  - exists (e2 ++ e1). split; [eapply appended_trans; eassumption|].
    apply Forall_app. split; assumption.
Qed.

Lemma looks_seek_to f t s : looks s (seek_to f t s).
Proof.
  destruct (seek_to_spec f t s) as [[Hf Ho] Ha]. split.
  - intros g. destruct (fid_eq_dec g f) as [->|Hg].
    + rewrite Hf. cbn [fb fcs]. split; [|reflexivity]. eexists. reflexivity.
    + rewrite Ho by exact Hg. split; [exists 0; symmetry; apply app_nil_r|reflexivity].
  - exists [EvSeek f t]. split; [exact Ha|]. repeat constructor.
Qed.

Lemma seek_from_start_looks f off s r s' : seek_from_start f off s = Ok (r, s') -> looks s s'.
Proof. unfold seek_from_start. intros [= _ <-]. apply looks_seek_to. Qed.

Lemma seek_cur_looks f neg x s r s' : seek_cur f neg x s = Ok (r, s') -> looks s s'.
Proof.
  unfold seek_cur. destruct neg; [destruct (_ <? _); [discriminate|]|]; intros [= _ <-]; apply looks_seek_to.
Qed.

Lemma seek_position_looks f s r s' : seek_position f s = Ok (r, s') -> looks s s'.
Proof. apply seek_cur_looks. Qed.

Lemma seek_to_end_looks f s r s' : seek_to_end f s = Ok (r, s') -> looks s s'.
Proof. unfold seek_to_end. intros [= _ <-]. apply looks_seek_to. Qed.

Lemma read_n_looks f n s r s' : read_n f n s = Ok (r, s') -> looks s s'.
Proof.
  unfold read_n. intros [= _ <-]. split.
  - intros g. rewrite get_emit. destruct (fid_eq_dec g f) as [->|Hg].
    + rewrite get_set_same. cbn [fb fcs]. split; [exists 0; symmetry; apply app_nil_r|reflexivity].
    + rewrite get_set_other by congruence. split; [exists 0; symmetry; apply app_nil_r|reflexivity].
  - eexists [_]. split; [unfold appended; rewrite log_emit, log_set_file; reflexivity|]. repeat constructor.
Qed.

Create HintDb lk.
#[local] Hint Resolve seek_from_start_looks seek_cur_looks seek_position_looks seek_to_end_looks read_n_looks : lk.

(** stepping through [let*] binds *)
Ltac lk_one :=
  match goal with
  | H : Panic _ = Ok _ |- _ => discriminate H
  | H : IoErr = Ok _ |- _ => discriminate H
  | H : OutOfFuel = Ok _ |- _ => discriminate H
  | H : Ok _ = Ok _ |- _ => injection H as H; subst
  | H : (_, _) = (_, _) |- _ => injection H as ?; subst
  | H : rbind ?m _ = Ok _ |- _ =>
      let E := fresh "E" in destruct m as [?a| | |] eqn:E; cbn [rbind] in H; [|discriminate H ..]
  | H : (if ?c then _ else _) = Ok _ |- _ => destruct c eqn:?
  | H : match ?o with Some _ => _ | None => _ end = Ok _ |- _ => destruct o
  | H : context [match ?p with pair _ _ => _ end] |- _ => is_var p; destruct p
  end.

Ltac lk_facts :=
  repeat match goal with
  | E : _ ?s = Ok (_, ?s1) |- _ =>
      let L := fresh "L" in assert (L : looks s s1) by (eauto 3 with lk); clear E
  end.

Ltac lk_chain :=
  repeat match goal with
  | |- looks ?s ?s => apply looks_refl
  | H : looks ?s ?s1 |- looks ?s ?s2 => first [exact H | apply (looks_trans _ _ _ H); clear H]
  end.

Ltac lk := repeat lk_one; lk_facts; lk_chain.

Lemma read_le_looks f n s r s' : read_le f n s = Ok (r, s') -> looks s s'.
Proof. unfold read_le. intros H. lk. Qed.
#[local] Hint Resolve read_le_looks : lk.

Lemma read_vu64_looks f s r s' : read_vu64 f s = Ok (r, s') -> looks s s'.
Proof. unfold read_vu64. intros H. lk. Qed.
#[local] Hint Resolve read_vu64_looks : lk.

Lemma read_piece_size_looks f s r s' : read_piece_size f s = Ok (r, s') -> looks s s'.
Proof. unfold read_piece_size. intros H. lk. Qed.
Lemma read_piece_offset_looks f s r s' : read_piece_offset f s = Ok (r, s') -> looks s s'.
Proof. unfold read_piece_offset. intros H. lk. Qed.
Lemma read_u64_looks f s r s' : read_u64 f s = Ok (r, s') -> looks s s'.
Proof. unfold read_u64. intros H. lk. Qed.
#[local] Hint Resolve read_piece_size_looks read_piece_offset_looks read_u64_looks : lk.

Lemma seek_skip_to_piece_looks f off s r s' : seek_skip_to_piece f off s = Ok (r, s') -> looks s s'.
Proof. unfold seek_skip_to_piece. intros H. lk. Qed.
#[local] Hint Resolve seek_skip_to_piece_looks : lk.

Lemma key_read_piece_looks off s r s' : key_read_piece off s = Ok (r, s') -> looks s s'.
Proof. unfold key_read_piece. intros H. lk. Qed.
Lemma read_piece_only_size_looks f off s r s' : read_piece_only_size f off s = Ok (r, s') -> looks s s'.
Proof. unfold read_piece_only_size. intros H. lk. Qed.
Lemma read_piece_only_length_looks f off s r s' : read_piece_only_length f off s = Ok (r, s') -> looks s s'.
Proof. unfold read_piece_only_length. intros H. lk. Qed.
Lemma read_piece_only_payload_looks f off s r s' : read_piece_only_payload f off s = Ok (r, s') -> looks s s'.
Proof. unfold read_piece_only_payload. intros H. lk. Qed.
Lemma read_piece_only_value_offset_looks off s r s' :
  read_piece_only_value_offset off s = Ok (r, s') -> looks s s'.
Proof. unfold read_piece_only_value_offset. intros H. lk. Qed.
Lemma read_piece_only_bucket_next_offset_looks off s r s' :
  read_piece_only_bucket_next_offset off s = Ok (r, s') -> looks s s'.
Proof. unfold read_piece_only_bucket_next_offset. intros H. lk. Qed.
Lemma val_read_piece_looks off s r s' : val_read_piece off s = Ok (r, s') -> looks s s'.
Proof. unfold val_read_piece. intros H. lk. Qed.
#[local] Hint Resolve key_read_piece_looks read_piece_only_size_looks read_piece_only_length_looks
  read_piece_only_payload_looks read_piece_only_value_offset_looks read_piece_only_bucket_next_offset_looks
  val_read_piece_looks : lk.

Lemma read_hash_buckets_size_looks s r s' : read_hash_buckets_size s = Ok (r, s') -> looks s s'.
Proof. unfold read_hash_buckets_size. intros H. lk. Qed.
Lemma read_item_count_looks s r s' : read_item_count s = Ok (r, s') -> looks s s'.
Proof. unfold read_item_count. intros H. lk. Qed.
Lemma read_key_piece_offset_looks i s r s' : read_key_piece_offset i s = Ok (r, s') -> looks s s'.
Proof. unfold read_key_piece_offset. intros H. lk. Qed.
#[local] Hint Resolve read_hash_buckets_size_looks read_item_count_looks read_key_piece_offset_looks : lk.

Lemma scan64_looks fuel : forall n idx s r s', scan64 fuel n idx s = Ok (r, s') -> looks s s'.
Proof. induction fuel as [|fu IH]; intros n idx s r s' H; cbn [scan64] in H; lk. Qed.
Lemma scan8_looks fuel : forall n idx s r s', scan8 fuel n idx s = Ok (r, s') -> looks s s'.
Proof. induction fuel as [|fu IH]; intros n idx s r s' H; cbn [scan8] in H; lk. Qed.
Lemma scan1_looks fuel : forall n idx s r s', scan1 fuel n idx s = Ok (r, s') -> looks s s'.
Proof. induction fuel as [|fu IH]; intros n idx s r s' H; cbn [scan1] in H; lk. Qed.
#[local] Hint Resolve scan64_looks scan8_looks scan1_looks : lk.

Lemma next_key_piece_offset_looks n idx s r s' : next_key_piece_offset n idx s = Ok (r, s') -> looks s s'.
Proof. unfold next_key_piece_offset. intros H. lk. Qed.
#[local] Hint Resolve next_key_piece_offset_looks : lk.

Lemma filling_loop_looks cnt : forall idx acc s r s', filling_loop cnt idx acc s = Ok (r, s') -> looks s s'.
Proof. induction cnt as [|c IH]; intros idx acc s r s' H; cbn [filling_loop] in H; lk. Qed.
#[local] Hint Resolve filling_loop_looks : lk.
Lemma filling_looks n s r s' : filling n s = Ok (r, s') -> looks s s'.
Proof. unfold filling. intros H. lk. Qed.
#[local] Hint Resolve filling_looks : lk.

Lemma read_free_on_header_looks c f sz s r s' : read_free_on_header c f sz s = Ok (r, s') -> looks s s'.
Proof. unfold read_free_on_header. intros H. lk. Qed.
Lemma read_free_fields_looks f s r s' : read_free_fields f s = Ok (r, s') -> looks s s'.
Proof. unfold read_free_fields. intros H. lk. Qed.
#[local] Hint Resolve read_free_on_header_looks read_free_fields_looks : lk.
Lemma read_free_piece_size_next_looks f off s r s' : read_free_piece_size_next f off s = Ok (r, s') -> looks s s'.
Proof. unfold read_free_piece_size_next. intros H. lk. Qed.
#[local] Hint Resolve read_free_piece_size_next_looks : lk.
Lemma count_free_loop_looks fuel : forall f off acc s r s', count_free_loop fuel f off acc s = Ok (r, s') -> looks s s'.
Proof. induction fuel as [|fu IH]; intros f off acc s r s' H; cbn [count_free_loop] in H; lk. Qed.
#[local] Hint Resolve count_free_loop_looks : lk.
Lemma count_of_free_piece_list_looks c f sz s r s' : count_of_free_piece_list c f sz s = Ok (r, s') -> looks s s'.
Proof. unfold count_of_free_piece_list. intros H. lk. Qed.
#[local] Hint Resolve count_of_free_piece_list_looks : lk.

Lemma find_loop_looks fuel : forall t key prev off s r s', find_loop fuel t key prev off s = Ok (r, s') -> looks s s'.
Proof. induction fuel as [|fu IH]; intros t key prev off s r s' H; cbn [find_loop] in H; lk. Qed.
#[local] Hint Resolve find_loop_looks : lk.
Lemma find_looks m key s r s' : find m key s = Ok (r, s') -> looks s s'.
Proof. unfold find. intros H. lk. Qed.
Lemma load_value_looks koff s r s' : load_value koff s = Ok (r, s') -> looks s s'.
Proof. unfold load_value. intros H. lk. Qed.
#[local] Hint Resolve find_looks load_value_looks : lk.

(** *** the API *)
Theorem get_looks m k r m' : Io.get m k = Ok (r, m') ->
  looks (m_st m) (m_st m') /\ m_kt m' = m_kt m /\ m_n m' = m_n m.
Proof.
  unfold Io.get. intros H. repeat lk_one; cbn [with_st m_st m_kt m_n]; (split; [|auto]); lk_facts; lk_chain.
Qed.

Theorem has_looks m k r m' : Io.has m k = Ok (r, m') ->
  looks (m_st m) (m_st m') /\ m_kt m' = m_kt m /\ m_n m' = m_n m.
Proof.
  unfold Io.has. intros H. repeat lk_one; cbn [with_st m_st m_kt m_n]; (split; [|auto]); lk_facts; lk_chain.
Qed.

Theorem len_looks m r m' : Io.len m = Ok (r, m') ->
  looks (m_st m) (m_st m') /\ m_kt m' = m_kt m /\ m_n m' = m_n m.
Proof.
  unfold Io.len. intros H. repeat lk_one; cbn [with_st m_st m_kt m_n]; (split; [|auto]); lk_facts; lk_chain.
Qed.

Theorem iter_new_looks s r s' : iter_new s = Ok (r, s') -> looks s s'.
Proof. unfold iter_new. intros H. lk. Qed.
#[local] Hint Resolve iter_new_looks : lk.

Lemma bucket_loop_looks fuel : forall n idx s r s', bucket_loop fuel n idx s = Ok (r, s') -> looks s s'.
Proof. induction fuel as [|fu IH]; intros n idx s r s' H; cbn [bucket_loop] in H; lk. Qed.
#[local] Hint Resolve bucket_loop_looks : lk.

Lemma iter_next_off_looks it s r s' : iter_next_off it s = Ok (r, s') -> looks s s'.
Proof. unfold iter_next_off. intros H. lk. Qed.
#[local] Hint Resolve iter_next_off_looks : lk.

Theorem iter_next_looks it s r s' : iter_next it s = Ok (r, s') -> looks s s'.
Proof. unfold iter_next. intros H. lk. Qed.
#[local] Hint Resolve iter_next_looks : lk.

Lemma iter_collect_looks fuel : forall it acc s r s', iter_collect fuel it acc s = Ok (r, s') -> looks s s'.
Proof. induction fuel as [|fu IH]; intros it acc s r s' H; cbn [iter_collect] in H; lk. Qed.
Lemma iter_extra_looks n : forall it s r s', iter_extra n it s = Ok (r, s') -> looks s s'.
Proof. induction n as [|n IH]; intros it s r s' H; cbn [iter_extra] in H; lk. Qed.
#[local] Hint Resolve iter_collect_looks iter_extra_looks : lk.

Theorem iter_run_looks m r m' : Io.iter_run m = Ok (r, m') ->
  looks (m_st m) (m_st m') /\ m_kt m' = m_kt m /\ m_n m' = m_n m.
Proof.
  unfold Io.iter_run. intros H. repeat lk_one; cbn [with_st m_st m_kt m_n]; (split; [|auto]); lk_facts; lk_chain.
Qed.

(** statistics *)
Lemma count_frees_looks c f szs : forall s r s', count_frees c f szs s = Ok (r, s') -> looks s s'.
Proof. induction szs as [|sz rest IH]; intros s r s' H; cbn [count_frees] in H; lk. Qed.
#[local] Hint Resolve count_frees_looks : lk.

Lemma piece_walk_looks c f visit :
  (forall off acc s r s', visit off acc s = Ok (r, s') -> looks s s') ->
  forall fuel off e acc s r s', piece_walk c f visit fuel off e acc s = Ok (r, s') -> looks s s'.
Proof.
  intros Hv. induction fuel as [|fu IH]; intros off e acc s r s' H; cbn [piece_walk] in H; lk.
Qed.

Lemma piece_stats_looks c f visit :
  (forall off acc s r s', visit off acc s = Ok (r, s') -> looks s s') ->
  forall s r s', piece_stats c f visit s = Ok (r, s') -> looks s s'.
Proof.
  intros Hv s r s' H. unfold piece_stats in H. pose proof (piece_walk_looks c f visit Hv) as Hw. lk.
Qed.

Lemma size_visit_looks f off acc s r s' : size_visit f off acc s = Ok (r, s') -> looks s s'.
Proof. unfold size_visit. intros H. lk. Qed.
Lemma len_visit_looks f off acc s r s' : len_visit f off acc s = Ok (r, s') -> looks s s'.
Proof. unfold len_visit. intros H. lk. Qed.

Lemma piece_stats_size_looks c f g s r s' : piece_stats c f (size_visit g) s = Ok (r, s') -> looks s s'.
Proof. apply piece_stats_looks. apply size_visit_looks. Qed.
Lemma piece_stats_len_looks c f g s r s' : piece_stats c f (len_visit g) s = Ok (r, s') -> looks s s'.
Proof. apply piece_stats_looks. apply len_visit_looks. Qed.
#[local] Hint Resolve piece_stats_size_looks piece_stats_len_looks : lk.

Theorem stats_of_looks m r m' : Io.stats_of m = Ok (r, m') ->
  looks (m_st m) (m_st m') /\ m_kt m' = m_kt m /\ m_n m' = m_n m.
Proof.
  unfold Io.stats_of. intros H. repeat lk_one; cbn [with_st m_st m_kt m_n]; (split; [|auto]); lk_facts; lk_chain.
Qed.

(** ** D2. the slot readers on slot images *)

(** the first byte of a varint announces its length *)
Lemma encode_first v : v < 2 ^ 64 ->
  exists b0 r, encode v = b0 :: r /\ dec_len b0 = enc_len v /\ blen r = enc_len v - 1.
Proof.
  intros Hv. pose proof (decode_encode v [] Hv) as Hdec. rewrite app_nil_r in Hdec.
  pose proof (encode_length' v) as Hlen. pose proof (enc_len_range v) as Hrg.
  destruct (encode v) as [|b0 r] eqn:E; [discriminate|].
  rewrite decode_parts in Hdec.
  destruct (Nat.ltb_spec (length r) (N.to_nat (dec_len b0 - 1))) as [|Hr]; [discriminate|].
  destruct (vu64_of_parts b0 _) as [v'|]; [|discriminate].
  injection Hdec as _ Hrest. apply (f_equal (@length N)) in Hrest. rewrite drop_length in Hrest. cbn [length] in Hrest.
  pose proof (dec_len_cases b0) as Hd.
  rewrite blen_cons in Hlen. unfold blen in *.
  exists b0, r. split; [reflexivity|]. split; lia.
Qed.

(** the position is inside the file and the bytes from it on are [l] *)
Definition vw (s : st) (f : fid) (l : bytes) : Prop :=
  fp (get_file s f) <= fend (get_file s f) /\ view s f = l.

Lemma blen_at_off (l : bytes) o : blen (at_off l o) = blen l - o.
Proof. apply blen_drop. Qed.

Lemma vw_room s f (d rest : bytes) : vw s f (d ++ rest) ->
  fp (get_file s f) + blen d <= fend (get_file s f).
Proof.
  intros [Hp Hv]. apply (f_equal blen) in Hv. unfold view in Hv. rewrite blen_at_off, blen_app in Hv.
  unfold fend in *. lia.
Qed.

Lemma ro_step_fend s s' f : ro_step s s' -> fend (get_file s' f) = fend (get_file s f).
Proof. intros [H _]. unfold fend. destruct (H f) as [-> _]. reflexivity. Qed.

Lemma ro_step_fb s s' f : ro_step s s' -> fb (get_file s' f) = fb (get_file s f).
Proof. intros [H _]. apply H. Qed.

(** seek to an offset inside the file *)
Lemma rd_seek f off s : off <= fend (get_file s f) ->
  exists s', seek_from_start f off s = Ok (off, s') /\ ro_step s s' /\
    vw s' f (at_off (fb (get_file s f)) off) /\ fp (get_file s' f) = off.
Proof.
  intros Hin. exists (seek_to f off s). split; [reflexivity|]. split; [apply ro_step_seek; exact Hin|].
  destruct (seek_to_inside f off s Hin) as [Hf _]. split; [split|].
  - unfold fend. rewrite Hf. cbn [fb fp]. exact Hin.
  - apply view_seek_inside. exact Hin.
  - rewrite Hf. reflexivity.
Qed.

Lemma rd_n f s (d rest : bytes) : vw s f (d ++ rest) ->
  exists s', read_n f (blen d) s = Ok (d, s') /\ ro_step s s' /\ vw s' f rest /\
    fp (get_file s' f) = fp (get_file s f) + blen d.
Proof.
  intros Hvw. pose proof (vw_room _ _ _ _ Hvw) as Hroom. destruct Hvw as [Hp Hv].
  destruct (read_n_view f s d rest Hv) as (s' & Hr & Hf & Ho & Hv' & Ha).
  exists s'. split; [exact Hr|]. split; [|split; [split|]].
  - eapply ro_step_of_reads; [split; [exact Hf|exact Ho]|exact Ha|].
    constructor; [|constructor]. eexists _, _. reflexivity.
  - unfold fend. rewrite Hf. cbn [fb fp]. exact Hroom.
  - exact Hv'.
  - rewrite Hf. reflexivity.
Qed.

Lemma rd_byte f s b0 (rest : bytes) : vw s f (b0 :: rest) ->
  exists s', read_le f 1 s = Ok (b0, s') /\ ro_step s s' /\ vw s' f rest /\
    fp (get_file s' f) = fp (get_file s f) + 1.
Proof.
  intros Hvw. destruct (rd_n f s [b0] rest Hvw) as (s' & Hr & H).
  change (blen [b0]) with 1 in *. exists s'. unfold read_le. rewrite Hr. cbn [rbind le_decode].
  rewrite N.mul_0_r, N.add_0_r. split; [reflexivity|exact H].
Qed.

Lemma rd_vu64 f s v (rest : bytes) : v < 2 ^ 64 -> vw s f (encode v ++ rest) ->
  exists s', read_vu64 f s = Ok (v, s') /\ ro_step s s' /\ vw s' f rest /\
    fp (get_file s' f) = fp (get_file s f) + enc_len v.
Proof.
  intros Hv Hvw. pose proof (vw_room _ _ _ _ Hvw) as Hroom. rewrite blen_encode in Hroom. destruct Hvw as [Hp Hview].
  destruct (read_vu64_view f s v rest Hv Hview) as (s' & evs & Hr & [Hf Ho] & Hv' & Ha & Hev).
  exists s'. split; [exact Hr|]. split; [|split; [split|]].
  - eapply ro_step_of_reads; [split; [exact Hf|exact Ho]|exact Ha|exact Hev].
  - unfold fend. rewrite Hf. cbn [fb fp]. exact Hroom.
  - exact Hv'.
  - rewrite Hf. reflexivity.
Qed.

Lemma rd_u64 f s v (rest : bytes) : v < 2 ^ 64 -> vw s f (le_bytes 8 v ++ rest) ->
  exists s', read_u64 f s = Ok (v, s') /\ ro_step s s' /\ vw s' f rest /\
    fp (get_file s' f) = fp (get_file s f) + 8.
Proof.
  intros Hv Hvw. destruct (rd_n f s _ rest Hvw) as (s' & Hr & H).
  rewrite blen_le_bytes in *. change (N.of_nat 8) with 8 in *.
  exists s'. unfold read_u64, read_le. rewrite Hr. cbn [rbind]. rewrite le_decode_le_bytes8 by exact Hv.
  split; [reflexivity|exact H].
Qed.

Lemma rd_piece_size f s sz (rest : bytes) : sz mod 8 = 0 -> sz < 2 ^ 64 -> vw s f (encode (sz / 8) ++ rest) ->
  exists s', read_piece_size f s = Ok (sz, s') /\ ro_step s s' /\ vw s' f rest /\
    fp (get_file s' f) = fp (get_file s f) + enc_len (sz / 8).
Proof.
  intros H8 Hlt Hvw. destruct (rd_vu64 f s _ rest (div8_lt _ Hlt) Hvw) as (s' & Hr & H).
  exists s'. unfold read_piece_size. rewrite Hr. cbn [rbind]. rewrite div8_mul8 by exact H8.
  split; [reflexivity|exact H].
Qed.

Lemma rd_piece_offset f s o (rest : bytes) : o mod 8 = 0 -> o < 2 ^ 64 -> vw s f (encode (o / 8) ++ rest) ->
  exists s', read_piece_offset f s = Ok (o, s') /\ ro_step s s' /\ vw s' f rest /\
    fp (get_file s' f) = fp (get_file s f) + enc_len (o / 8).
Proof. apply rd_piece_size. Qed.

(** skip [d] by a relative seek *)
Lemma rd_skip f s (d rest : bytes) : vw s f (d ++ rest) ->
  exists s', seek_cur f false (blen d) s = Ok (fp (get_file s f) + blen d, s') /\ ro_step s s' /\ vw s' f rest /\
    fp (get_file s' f) = fp (get_file s f) + blen d.
Proof.
  intros Hvw. pose proof (vw_room _ _ _ _ Hvw) as Hroom. destruct Hvw as [Hp Hv].
  exists (seek_to f (fp (get_file s f) + blen d) s). split; [reflexivity|].
  split; [apply ro_step_seek; exact Hroom|].
  destruct (seek_to_inside f _ s Hroom) as [Hf _]. split; [split|].
  - unfold fend. rewrite Hf. cbn [fb fp]. exact Hroom.
  - rewrite view_seek_inside by exact Hroom. rewrite at_off_add. unfold view in Hv. rewrite Hv.
    unfold at_off. apply drop_blen_app.
  - rewrite Hf. reflexivity.
Qed.

Lemma rd_position f s (l : bytes) : vw s f l ->
  exists s', seek_position f s = Ok (fp (get_file s f), s') /\ ro_step s s' /\ vw s' f l /\
    fp (get_file s' f) = fp (get_file s f).
Proof.
  intros Hvw. destruct (rd_skip f s [] l Hvw) as (s' & Hr & H).
  change (blen []) with 0 in *. rewrite N.add_0_r in *. exists s'. split; [exact Hr|exact H].
Qed.

(** [seek_skip_to_piece] lands behind the size field *)
Lemma rd_skip_to_piece f s off v (rest : bytes) : v < 2 ^ 64 ->
  at_off (fb (get_file s f)) off = encode v ++ rest ->
  exists s', seek_skip_to_piece f off s = Ok (off + enc_len v, s') /\ ro_step s s' /\ vw s' f rest /\
    fp (get_file s' f) = off + enc_len v.
Proof.
  intros Hv Himg.
  assert (Hin : off <= fend (get_file s f)).
  { apply (f_equal blen) in Himg. rewrite blen_at_off, blen_app, blen_encode in Himg.
    pose proof (enc_len_range v). unfold fend. lia. }
  destruct (encode_first v Hv) as (b0 & r & He & Hd & Hr).
  unfold seek_skip_to_piece.
  destruct (rd_seek f off s Hin) as (s1 & E1 & R1 & V1 & P1). rewrite E1. cbn [rbind].
  rewrite Himg, He in V1. cbn [app] in V1.
  destruct (rd_byte f s1 b0 _ V1) as (s2 & E2 & R2 & V2 & P2). rewrite E2. cbn [rbind].
  rewrite Hd.
  destruct (N.ltb_spec 1 (enc_len v)) as [HL|HL].
  - destruct (rd_skip f s2 r rest V2) as (s3 & E3 & R3 & V3 & P3). rewrite Hr in E3. rewrite E3. cbn [rbind].
    destruct (rd_position f s3 rest V3) as (s4 & E4 & R4 & V4 & P4). rewrite E4.
    exists s4. split; [f_equal; f_equal; lia|]. split; [|split; [exact V4|lia]].
    eauto using ro_step_trans.
  - assert (r = []) by (destruct r; [reflexivity|rewrite blen_cons in Hr; lia]). subst r. cbn [app] in V2.
    cbn [rbind].
    destruct (rd_position f s2 rest V2) as (s4 & E4 & R4 & V4 & P4). rewrite E4.
    pose proof (enc_len_range v).
    exists s4. split; [f_equal; f_equal; lia|]. split; [|split; [exact V4|lia]].
    eauto using ro_step_trans.
Qed.

Ltac rd_with L :=
  let s' := fresh "s" in let E := fresh "E" in let R := fresh "R" in let V := fresh "V" in let P := fresh "P" in
  destruct L as (s' & E & R & V & P); [try eassumption ..|]; rewrite E; cbn [rbind].

Lemma img_off_inside (img : bytes) off (d rest : bytes) : at_off img off = d ++ rest -> d <> [] ->
  off + blen d <= blen img.
Proof.
  intros H Hd. apply (f_equal blen) in H. rewrite blen_at_off, blen_app in H.
  assert (0 < blen d) by (destruct d; [congruence|rewrite blen_cons; lia]). lia.
Qed.

Lemma encode_nonnil v : encode v <> [].
Proof.
  intros E. pose proof (blen_encode v) as H. rewrite E in H. pose proof (enc_len_range v). change (blen []) with 0 in H. lia.
Qed.

(** *** a key record *)
Section kslot.
Context (s : st) (off sz : N) (k : bytes) (voff noff : N) (rest : bytes).
Hypothesis Himg : at_off (fb (get_file s FKey)) off = slot_bytes sz (key_body k voff noff) ++ rest.
Hypothesis Hoff : off <> 0.
Hypothesis Hs8 : sz mod 8 = 0.
Hypothesis Hsz : sz < 2 ^ 64.
Hypothesis Hk : blen k < 2 ^ 64.
Hypothesis Hv8 : voff mod 8 = 0.
Hypothesis Hv : voff < 2 ^ 64.
Hypothesis Hn8 : noff mod 8 = 0.
Hypothesis Hn : noff < 2 ^ 64.

Let tail : bytes := zeros (sz - blen (encode (sz / 8) ++ key_body k voff noff)) ++ rest.

Lemma kslot_flat : at_off (fb (get_file s FKey)) off =
  encode (sz / 8) ++ encode (blen k) ++ k ++ encode (voff / 8) ++ encode (noff / 8) ++ tail.
Proof. rewrite Himg, slot_bytes_app. unfold key_body, tail. rewrite <- !app_assoc. reflexivity. Qed.

Lemma kslot_inside : off + blen (slot_bytes sz (key_body k voff noff)) <= fend (get_file s FKey).
Proof.
  apply (img_off_inside _ _ _ _ Himg). unfold slot_bytes. cbv zeta. intros E.
  apply app_eq_nil in E as [E _]. apply app_eq_nil in E as [E _]. exact (encode_nonnil _ E).
Qed.

Lemma kslot_off_inside : off <= fend (get_file s FKey).
Proof. pose proof kslot_inside. lia. Qed.

Lemma off_neq0 : (off =? 0) = false.
Proof. apply N.eqb_neq. exact Hoff. Qed.

Theorem key_read_piece_image : valid_size key_cfg sz = true ->
  exists s', key_read_piece off s = Ok (sz, k, voff, noff, s') /\ ro_step s s'.
Proof.
  intros Hvs. unfold key_read_piece. rewrite off_neq0.
  rd_with (rd_seek FKey off s kslot_off_inside). rewrite kslot_flat in V.
  rd_with (rd_piece_size FKey s0 sz _ Hs8 Hsz V). rewrite Hvs. cbn [negb].
  rd_with (rd_vu64 FKey s1 (blen k) _ Hk V0).
  rd_with (rd_n FKey s2 k _ V1).
  rd_with (rd_piece_offset FKey s3 voff _ Hv8 Hv V2).
  rd_with (rd_piece_offset FKey s4 noff _ Hn8 Hn V3).
  eexists. split; [reflexivity|]. eauto 10 using ro_step_trans.
Qed.

Theorem read_piece_only_size_key_image :
  exists s', read_piece_only_size FKey off s = Ok (sz, s') /\ ro_step s s'.
Proof.
  unfold read_piece_only_size. rewrite off_neq0.
  rd_with (rd_seek FKey off s kslot_off_inside). rewrite kslot_flat in V.
  destruct (rd_piece_size FKey s0 sz _ Hs8 Hsz V) as (s' & E' & R' & _).
  exists s'. split; [exact E'|]. eauto using ro_step_trans.
Qed.

Theorem read_piece_only_length_key_image :
  exists s', read_piece_only_length FKey off s = Ok (blen k, s') /\ ro_step s s'.
Proof.
  unfold read_piece_only_length. rewrite off_neq0.
  rd_with (rd_skip_to_piece FKey s off (sz / 8) _ (div8_lt _ Hsz) kslot_flat).
  destruct (rd_vu64 FKey s0 (blen k) _ Hk V) as (s' & E' & R' & _).
  exists s'. split; [exact E'|]. eauto using ro_step_trans.
Qed.

Theorem read_piece_only_payload_key_image :
  exists s', read_piece_only_payload FKey off s = Ok (k, s') /\ ro_step s s'.
Proof.
  unfold read_piece_only_payload. rewrite off_neq0.
  rd_with (rd_skip_to_piece FKey s off (sz / 8) _ (div8_lt _ Hsz) kslot_flat).
  rd_with (rd_vu64 FKey s0 (blen k) _ Hk V).
  destruct (rd_n FKey s1 k _ V0) as (s' & E' & R' & _).
  exists s'. split; [exact E'|]. eauto using ro_step_trans.
Qed.

Theorem read_piece_only_value_offset_image :
  exists s', read_piece_only_value_offset off s = Ok (voff, s') /\ ro_step s s'.
Proof.
  unfold read_piece_only_value_offset. rewrite off_neq0.
  rd_with (rd_skip_to_piece FKey s off (sz / 8) _ (div8_lt _ Hsz) kslot_flat).
  rd_with (rd_vu64 FKey s0 (blen k) _ Hk V).
  rd_with (rd_skip FKey s1 k _ V0).
  destruct (rd_piece_offset FKey s2 voff _ Hv8 Hv V1) as (s' & E' & R' & _).
  exists s'. split; [exact E'|]. eauto 6 using ro_step_trans.
Qed.

Theorem read_piece_only_bucket_next_offset_image :
  exists s', read_piece_only_bucket_next_offset off s = Ok (noff, s') /\ ro_step s s'.
Proof.
  unfold read_piece_only_bucket_next_offset. rewrite off_neq0.
  rd_with (rd_skip_to_piece FKey s off (sz / 8) _ (div8_lt _ Hsz) kslot_flat).
  rd_with (rd_vu64 FKey s0 (blen k) _ Hk V).
  rd_with (rd_skip FKey s1 k _ V0).
  rd_with (rd_piece_offset FKey s2 voff _ Hv8 Hv V1).
  destruct (rd_piece_offset FKey s3 noff _ Hn8 Hn V2) as (s' & E' & R' & _).
  exists s'. split; [exact E'|]. eauto 7 using ro_step_trans.
Qed.

(** where [seek_skip_to_piece] lands *)
Theorem seek_skip_to_piece_key_image :
  exists s', seek_skip_to_piece FKey off s = Ok (off + enc_len (sz / 8), s') /\ ro_step s s' /\
    vw s' FKey (key_body k voff noff ++ tail).
Proof.
  destruct (rd_skip_to_piece FKey s off (sz / 8) _ (div8_lt _ Hsz) kslot_flat) as (s' & E & R & V & _).
  exists s'. split; [exact E|]. split; [exact R|]. unfold key_body. rewrite <- !app_assoc. exact V.
Qed.
End kslot.

(** *** a value record *)
Section vslot.
Context (s : st) (off sz : N) (v rest : bytes).
Hypothesis Himg : at_off (fb (get_file s FVal)) off = slot_bytes sz (val_body v) ++ rest.
Hypothesis Hoff : off <> 0.
Hypothesis Hs8 : sz mod 8 = 0.
Hypothesis Hsz : sz < 2 ^ 64.
Hypothesis Hvl : blen v < 2 ^ 64.

Let tail : bytes := zeros (sz - blen (encode (sz / 8) ++ val_body v)) ++ rest.

Lemma vslot_flat : at_off (fb (get_file s FVal)) off = encode (sz / 8) ++ encode (blen v) ++ v ++ tail.
Proof. rewrite Himg, slot_bytes_app. unfold val_body, tail. rewrite <- !app_assoc. reflexivity. Qed.

Lemma vslot_inside : off + blen (slot_bytes sz (val_body v)) <= fend (get_file s FVal).
Proof.
  apply (img_off_inside _ _ _ _ Himg). unfold slot_bytes. cbv zeta. intros E.
  apply app_eq_nil in E as [E _]. apply app_eq_nil in E as [E _]. exact (encode_nonnil _ E).
Qed.

Lemma vslot_off_inside : off <= fend (get_file s FVal).
Proof. pose proof vslot_inside. lia. Qed.

Theorem val_read_piece_image : valid_size val_cfg sz = true ->
  exists s', val_read_piece off s = Ok (sz, v, s') /\ ro_step s s'.
Proof.
  intros Hvs. unfold val_read_piece. rewrite (off_neq0 off Hoff).
  rd_with (rd_seek FVal off s vslot_off_inside). rewrite vslot_flat in V.
  rd_with (rd_piece_size FVal s0 sz _ Hs8 Hsz V). rewrite Hvs. cbn [negb].
  rd_with (rd_vu64 FVal s1 (blen v) _ Hvl V0).
  rd_with (rd_n FVal s2 v _ V1).
  eexists. split; [reflexivity|]. eauto 10 using ro_step_trans.
Qed.

Theorem read_piece_only_size_val_image :
  exists s', read_piece_only_size FVal off s = Ok (sz, s') /\ ro_step s s'.
Proof.
  unfold read_piece_only_size. rewrite (off_neq0 off Hoff).
  rd_with (rd_seek FVal off s vslot_off_inside). rewrite vslot_flat in V.
  destruct (rd_piece_size FVal s0 sz _ Hs8 Hsz V) as (s' & E' & R' & _).
  exists s'. split; [exact E'|]. eauto using ro_step_trans.
Qed.

Theorem read_piece_only_length_val_image :
  exists s', read_piece_only_length FVal off s = Ok (blen v, s') /\ ro_step s s'.
Proof.
  unfold read_piece_only_length. rewrite (off_neq0 off Hoff).
  rd_with (rd_skip_to_piece FVal s off (sz / 8) _ (div8_lt _ Hsz) vslot_flat).
  destruct (rd_vu64 FVal s0 (blen v) _ Hvl V) as (s' & E' & R' & _).
  exists s'. split; [exact E'|]. eauto using ro_step_trans.
Qed.

Theorem read_piece_only_payload_val_image :
  exists s', read_piece_only_payload FVal off s = Ok (v, s') /\ ro_step s s'.
Proof.
  unfold read_piece_only_payload. rewrite (off_neq0 off Hoff).
  rd_with (rd_skip_to_piece FVal s off (sz / 8) _ (div8_lt _ Hsz) vslot_flat).
  rd_with (rd_vu64 FVal s0 (blen v) _ Hvl V).
  destruct (rd_n FVal s1 v _ V0) as (s' & E' & R' & _).
  exists s'. split; [exact E'|]. eauto using ro_step_trans.
Qed.
End vslot.

(** ** D3. the read-only operations on the images of a record-level state *)
From Aby Require Import Sizing_proofs AllocInv_proofs Refine Refine_relink.

Lemma kc_ok : Sizing.cfg_ok key_cfg. Proof. left; reflexivity. Qed.
Lemma vc_ok : Sizing.cfg_ok val_cfg. Proof. right; reflexivity. Qed.
Lemma sig_len t : length (sig_of t) = 8%nat.
Proof. destruct t; reflexivity. Qed.

(** distinct multiples of 8 in [8, B): at most B / 8 of them *)
Lemma mult8_count (l : list N) B :
  NoDup l -> (forall o, o ∈ l -> o mod 8 = 0 /\ o <> 0 /\ o + 8 <= B) -> (length l <= N.to_nat (B / 8))%nat.
Proof.
  intros Hnd Hl.
  assert (Hnd' : NoDup (map (fun o => o / 8) l)).
  { apply NoDup_fmap_2_strong; [|exact Hnd]. intros x y Hx Hy E.
    destruct (Hl x Hx) as (Hx8 & _), (Hl y Hy) as (Hy8 & _).
    pose proof (N.div_mod x 8). pose proof (N.div_mod y 8). lia. }
  assert (Hsub : map (fun o => o / 8) l ⊆+ seqN' 0 (N.to_nat (B / 8))).
  { apply NoDup_submseteq; [exact Hnd'|]. intros x Hx. apply elem_of_map in Hx as (o & -> & Ho).
    apply elem_of_seqN'. destruct (Hl o Ho) as (Ho8 & Hnz & Hle).
    rewrite N2Nat.id. apply N.div_lt_upper_bound; [lia|].
    pose proof (N.div_mod B 8). pose proof (N.mod_lt B 8). pose proof (N.div_mod o 8). lia. }
  apply submseteq_length in Hsub. rewrite map_length, seqN'_length in Hsub. exact Hsub.
Qed.

Section ops.
Context (s : store) (ch : N -> list N) (Hinv : sinv s ch) (Hfit : fits_ok s) (Hhwf : htx_wf (hx s)) (H64 : fits64 s).
Context (kfr vfr : nat -> list N)
  (Hki : alloc_inv key_cfg (keyf s) kfr) (Hvi : alloc_inv val_cfg (valf s) vfr).
Context (kimg vimg : bytes).
Hypothesis Hrk : render_pfile key_cfg kslot_bytes (sig_of (kt s)) (keyf s) = Ok kimg.
Hypothesis Hrv : render_pfile val_cfg vslot_bytes (sig_of (kt s)) (valf s) = Ok vimg.

Let himg : bytes := render_htx (sig_of (kt s)) (hx s).
Let Hcore : core s ch None := proj1 Hinv.
Let Hsg : length (sig_of (kt s)) = 8%nat := sig_len (kt s).

(** an Io state that holds the three images *)
Definition holds3 (x : st) : Prop :=
  fb (get_file x FHtx) = himg /\ fb (get_file x FKey) = kimg /\ fb (get_file x FVal) = vimg.

Lemma holds3_ro x x' : holds3 x -> ro_step x x' -> holds3 x'.
Proof.
  intros (A & B & C) R. unfold holds3. rewrite !(ro_step_fb _ _ _ R). auto.
Qed.

Lemma heads_lt i : head_at (hx s) i < 2 ^ 64.
Proof.
  unfold head_at. destruct (buckets (hx s) !! i) as [v|] eqn:E; [|reflexivity].
  exact (st_buckets_lt s ch Hinv Hfit H64 kfr Hki kimg Hrk i v Hhwf E).
Qed.

Lemma holds3_htx x : holds3 x -> Io_htx.holds (sig_of (kt s)) (hx s) x.
Proof. intros (A & _). exact A. Qed.

Lemma read_item_count_refines x : holds3 x ->
  exists x', read_item_count x = Ok (Store.len s, x') /\ ro_step x x'.
Proof.
  intros H. apply (read_item_count_render (sig_of (kt s)) (hx s) Hsg heads_lt); [apply H64|apply H64|].
  apply holds3_htx. exact H.
Qed.

Lemma read_head_refines x i : holds3 x -> i < nb (hx s) ->
  exists x', read_key_piece_offset i x = Ok (head_at (hx s) i, x') /\ ro_step x x'.
Proof.
  intros H Hi. apply (read_key_piece_offset_render (sig_of (kt s)) (hx s) Hsg Hhwf heads_lt); [apply H64|apply H64| |exact Hi].
  apply holds3_htx. exact H.
Qed.

(** a key record of the heap, as the key file image holds it *)
Lemma key_slot_at off r : kheap s !! off = Some r -> exists sz rest,
  slots (keyf s) !! off = Some (Used sz r) /\
  at_off kimg off = slot_bytes sz (key_body (k_key r) (k_voff r) (k_next r)) ++ rest /\
  off <> 0 /\ sz mod 8 = 0 /\ sz < 2 ^ 64 /\ blen (k_key r) < 2 ^ 64 /\
  k_voff r mod 8 = 0 /\ k_voff r < 2 ^ 64 /\ k_next r mod 8 = 0 /\ k_next r < 2 ^ 64 /\
  valid_size key_cfg sz = true.
Proof.
  intros Hr. destruct (st_kheap s off r Hr) as [sz Hs].
  destruct (@pc_at krec key_cfg kc_ok kslot_bytes (keyf s) kfr Hki (sig_of (kt s)) Hsg kimg Hrk
              (kslot_len_ok s Hfit kfr Hki) off _ Hs) as [rest Hat].
  destruct (@pc_slot krec key_cfg kc_ok kslot_bytes (keyf s) kfr Hki (sig_of (kt s)) Hsg kimg Hrk (st_kfe s H64)
              (kslot_len_ok s Hfit kfr Hki) kfree_eq off _ Hs) as (_ & _ & _ & H8 & Hlt).
  destruct (@inv_slot krec key_cfg kc_ok _ _ _ _ Hki Hs) as (H192 & _ & Hvs & _).
  destruct (st_next_ok s ch Hinv Hfit H64 kfr Hki kimg Hrk off r Hr) as [Hn8 Hn].
  destruct (st_voff_ok s ch Hinv Hfit H64 vfr Hvi vimg Hrv off r Hr) as (Hv8 & Hv & _).
  destruct (co_kwf _ _ _ Hcore _ _ Hr) as (_ & Hk & _).
  cbn [kslot_bytes slot_size] in *.
  exists sz, rest. pose proof pow31_lt_pow64.
  repeat (split; [first [assumption|lia]|]).
  apply Sizing_proofs.valid_slot_size_valid_size; [exact kc_ok|exact Hvs].
Qed.

Lemma val_slot_at vo sz v : slots (valf s) !! vo = Some (Used sz v) -> exists rest,
  at_off vimg vo = slot_bytes sz (val_body v) ++ rest /\
  vo <> 0 /\ sz mod 8 = 0 /\ sz < 2 ^ 64 /\ blen v < 2 ^ 64 /\ valid_size val_cfg sz = true.
Proof.
  intros Hs.
  destruct (@pc_at bytes val_cfg vc_ok vslot_bytes (valf s) vfr Hvi (sig_of (kt s)) Hsg vimg Hrv
              (vslot_len_ok s Hfit vfr Hvi) vo _ Hs) as [rest Hat].
  destruct (@pc_slot bytes val_cfg vc_ok vslot_bytes (valf s) vfr Hvi (sig_of (kt s)) Hsg vimg Hrv (st_vfe s H64)
              (vslot_len_ok s Hfit vfr Hvi) vfree_eq vo _ Hs) as (_ & _ & _ & H8 & Hlt).
  destruct (@inv_slot bytes val_cfg vc_ok _ _ _ _ Hvi Hs) as (H192 & _ & Hvs & _).
  assert (Hv : vheap s !! vo = Some v) by (apply Refine_relink.used_lookup; eauto).
  destruct (co_vwf _ _ _ Hcore _ _ Hv) as (_ & Hk).
  cbn [vslot_bytes slot_size] in *.
  exists rest. pose proof pow31_lt_pow64.
  repeat (split; [first [assumption|lia]|]).
  apply Sizing_proofs.valid_slot_size_valid_size; [exact vc_ok|exact Hvs].
Qed.

Lemma key_payload_refines x off r : holds3 x -> kheap s !! off = Some r ->
  exists x', read_piece_only_payload FKey off x = Ok (k_key r, x') /\ ro_step x x'.
Proof.
  intros (_ & HK & _) Hr.
  destruct (key_slot_at off r Hr) as (sz & rest & _ & Hat & Hnz & H8 & Hlt & Hk & Hv8 & Hv & Hn8 & Hn & _).
  rewrite <- HK in Hat.
  exact (read_piece_only_payload_key_image x off sz _ _ _ rest Hat Hnz Hlt Hk).
Qed.
Lemma key_next_refines x off r : holds3 x -> kheap s !! off = Some r ->
  exists x', read_piece_only_bucket_next_offset off x = Ok (k_next r, x') /\ ro_step x x'.
Proof.
  intros (_ & HK & _) Hr.
  destruct (key_slot_at off r Hr) as (sz & rest & _ & Hat & Hnz & H8 & Hlt & Hk & Hv8 & Hv & Hn8 & Hn & _).
  rewrite <- HK in Hat. eapply read_piece_only_bucket_next_offset_image; eassumption.
Qed.

Lemma key_voff_refines x off r : holds3 x -> kheap s !! off = Some r ->
  exists x', read_piece_only_value_offset off x = Ok (k_voff r, x') /\ ro_step x x'.
Proof.
  intros (_ & HK & _) Hr.
  destruct (key_slot_at off r Hr) as (sz & rest & _ & Hat & Hnz & H8 & Hlt & Hk & Hv8 & Hv & Hn8 & Hn & _).
  rewrite <- HK in Hat. eapply read_piece_only_value_offset_image; eassumption.
Qed.

Lemma key_read_piece_refines x off sz r : holds3 x -> slots (keyf s) !! off = Some (Used sz r) ->
  exists x', key_read_piece off x = Ok (sz, k_key r, k_voff r, k_next r, x') /\ ro_step x x'.
Proof.
  intros (_ & HK & _) Hs.
  assert (Hr : kheap s !! off = Some r) by (apply Refine_relink.used_lookup; eauto).
  destruct (key_slot_at off r Hr) as (sz' & rest & Hs' & Hat & Hnz & H8 & Hlt & Hk & Hv8 & Hv & Hn8 & Hn & Hvs).
  rewrite Hs in Hs'. injection Hs' as <-.
  rewrite <- HK in Hat. eapply key_read_piece_image; eassumption.
Qed.

Lemma val_payload_refines x vo sz v : holds3 x -> slots (valf s) !! vo = Some (Used sz v) ->
  exists x', read_piece_only_payload FVal vo x = Ok (v, x') /\ ro_step x x'.
Proof.
  intros (_ & _ & HV) Hs.
  destruct (val_slot_at vo sz v Hs) as (rest & Hat & Hnz & H8 & Hlt & Hvl & _).
  rewrite <- HV in Hat. eapply read_piece_only_payload_val_image; eassumption.
Qed.

Lemma val_read_piece_refines x vo sz v : holds3 x -> slots (valf s) !! vo = Some (Used sz v) ->
  exists x', val_read_piece vo x = Ok (sz, v, x') /\ ro_step x x'.
Proof.
  intros (_ & _ & HV) Hs.
  destruct (val_slot_at vo sz v Hs) as (rest & Hat & Hnz & H8 & Hlt & Hvl & Hvs).
  rewrite <- HV in Hat. eapply val_read_piece_image; eassumption.
Qed.

(** the Io fuel is enough for every chain *)
Lemma chain_len b : b < nb (hx s) -> (length (ch b) <= N.to_nat (blen kimg / 8))%nat.
Proof.
  intros Hb. apply mult8_count; [exact (co_nodup _ _ _ Hcore _ Hb)|].
  intros o Ho. destruct (co_in _ _ _ Hcore _ _ Hb Ho) as [r Hr].
  destruct (st_kheap s o r Hr) as [sz Hs].
  destruct (@inv_slot krec key_cfg kc_ok _ _ _ _ Hki Hs) as (H192 & H8 & Hvs & Hle).
  destruct (AllocInv_proofs.valid_slot_size_facts key_cfg kc_ok _ Hvs) as [H16 _].
  rewrite (@pc_blen krec key_cfg kc_ok kslot_bytes (keyf s) kfr Hki (sig_of (kt s)) Hsg kimg Hrk
              (kslot_len_ok s Hfit kfr Hki)).
  cbn [slot_size] in *. lia.
Qed.

(** the chain walk *)
Lemma find_loop_refines key : forall l h prev f1 f2 o x,
  seg (kheap s) h l 0 -> (length l < f2)%nat ->
  Store.find_chain f1 s key prev h = Ok o -> holds3 x ->
  exists x', find_loop f2 (kt s) key prev h x = Ok (o, x') /\ ro_step x x'.
Proof.
  induction l as [|o1 l IH]; intros h prev f1 f2 o x Hseg Hf2 Hfc Hx.
  - apply seg_nil_inv in Hseg. subst h. destruct f1 as [|f1]; [discriminate|].
    destruct f2 as [|f2]; [lia|]. cbn [Store.find_chain find_loop] in *.
    change (0 =? 0) with true in *. cbv iota in *. injection Hfc as <-.
    exists x. split; [reflexivity|apply ro_step_refl].
  - apply seg_cons_inv in Hseg as (-> & Hnz & r & Hr & Hseg).
    destruct f1 as [|f1]; [discriminate|]. destruct f2 as [|f2]; [cbn [length] in Hf2; lia|].
    cbn [Store.find_chain find_loop] in *.
    rewrite (proj2 (N.eqb_neq _ _) Hnz) in *.
    unfold read_krec in Hfc. destruct (st_kheap s _ _ Hr) as [sz Hs]. rewrite Hs in Hfc. cbn [rbind] in Hfc.
    destruct (key_payload_refines x o1 r Hx Hr) as (x1 & E1 & R1). rewrite E1. cbn [rbind].
    destruct (cmp_eq (kt s) key (k_key r)) as [e| | |]; cbn [rbind] in *; try discriminate Hfc.
    destruct e.
    + injection Hfc as <-. exists x1. split; [reflexivity|exact R1].
    + pose proof (holds3_ro _ _ Hx R1) as Hx1.
      destruct (key_next_refines x1 o1 r Hx1 Hr) as (x2 & E2 & R2). rewrite E2. cbn [rbind].
      pose proof (holds3_ro _ _ Hx1 R2) as Hx2.
      destruct (IH (k_next r) o1 f1 f2 o x2 Hseg ltac:(cbn [length] in Hf2; lia) Hfc Hx2) as (x3 & E3 & R3).
      exists x3. split; [exact E3|]. eauto using ro_step_trans.
Qed.
(** *** the operations of a map whose key type and bucket count are those of the state *)
Context (m : mp) (Hkt : m_kt m = kt s) (Hn : m_n m = nb (hx s)).

Lemma find_refines_st key o x : holds3 x -> Store.find s key = Ok o ->
  exists x', Io.find m key x = Ok (o, x') /\ ro_step x x'.
Proof.
  intros Hx Hf. unfold Io.find, Store.find in *.
  assert (Hb : Io.bucket m key = Store.bucket s key)
    by (unfold Io.bucket, Store.bucket, bucket_of; rewrite Hn; reflexivity).
  rewrite Hb, Hkt.
  assert (Hlt : Store.bucket s key < nb (hx s)) by (apply (home_lt s key (co_n _ _ _ Hcore))).
  destruct (read_head_refines x _ Hx Hlt) as (x1 & E1 & R1). rewrite E1. cbn [rbind].
  pose proof (holds3_ro _ _ Hx R1) as Hx1.
  destruct (find_loop_refines key (ch (Store.bucket s key)) _ 0 (Store.chain_fuel s) (chain_fuel x1) o x1 (proj2 Hinv _ Hlt))
    as (x2 & E2 & R2); [| exact Hf | exact Hx1 |].
  - unfold chain_fuel, walk_fuel, Io.fend. destruct Hx1 as (_ & -> & _). pose proof (chain_len _ Hlt). lia.
  - exists x2. split; [exact E2|]. eauto using ro_step_trans.
Qed.

Lemma load_value_refines x koff r v : holds3 x ->
  read_krec s koff = Ok r -> read_val s (k_voff r) = Ok v ->
  exists x', load_value koff x = Ok (v, x') /\ ro_step x x'.
Proof.
  intros Hx Hk Hv. unfold read_krec in Hk. unfold read_val in Hv.
  destruct (slots (keyf s) !! koff) as [[sz r'|]|] eqn:Hs; try discriminate Hk. injection Hk as ->.
  destruct (slots (valf s) !! k_voff r) as [[szv v'|]|] eqn:Hsv; try discriminate Hv. injection Hv as ->.
  assert (Hr : kheap s !! koff = Some r) by (apply Refine_relink.used_lookup; eauto).
  destruct (key_slot_at koff r Hr) as (_ & _ & _ & _ & Hnz & _).
  unfold load_value. rewrite (proj2 (N.eqb_neq _ _) Hnz).
  destruct (key_voff_refines x koff r Hx Hr) as (x1 & E1 & R1). rewrite E1. cbn [rbind].
  pose proof (holds3_ro _ _ Hx R1) as Hx1.
  destruct (val_payload_refines x1 _ _ _ Hx1 Hsv) as (x2 & E2 & R2).
  exists x2. split; [exact E2|]. eauto using ro_step_trans.
Qed.

Lemma images_ro x x' : ro_step x x' ->
  (fb (s_htx x'), fb (s_key x'), fb (s_val x')) = (fb (s_htx x), fb (s_key x), fb (s_val x)).
Proof.
  intros R. pose proof (ro_step_fb _ _ FHtx R) as A. pose proof (ro_step_fb _ _ FKey R) as B.
  pose proof (ro_step_fb _ _ FVal R) as C. cbn [get_file] in *. congruence.
Qed.

Lemma get_refines_st key r : holds3 (m_st m) -> Store.get s key = Ok r ->
  exists m', Io.get m key = Ok (r, m') /\ ro_step (m_st m) (m_st m') /\ Io.images m' = Io.images m /\
    m_kt m' = m_kt m /\ m_n m' = m_n m.
Proof.
  intros Hx Hg. unfold Store.get in Hg. unfold Io.get.
  destruct (Store.find s key) as [o| | |] eqn:Hf; cbn [rbind] in Hg; try discriminate Hg.
  destruct (find_refines_st key o _ Hx Hf) as (x1 & E1 & R1). rewrite E1. cbn [rbind].
  pose proof (holds3_ro _ _ Hx R1) as Hx1.
  destruct o as [[koff pv]|].
  - destruct (read_krec s koff) as [rk| | |] eqn:Hk; cbn [rbind] in Hg; try discriminate Hg.
    destruct (read_val s (k_voff rk)) as [v| | |] eqn:Hv; cbn [rbind] in Hg; try discriminate Hg.
    injection Hg as <-.
    destruct (load_value_refines x1 koff rk v Hx1 Hk Hv) as (x2 & E2 & R2). rewrite E2. cbn [rbind].
    assert (R : ro_step (m_st m) x2) by eauto using ro_step_trans.
    eexists. split; [reflexivity|]. cbn [with_st m_st m_kt m_n]. split; [exact R|].
    split; [|auto]. unfold Io.images. cbn [m_st]. apply images_ro. exact R.
  - injection Hg as <-. eexists. split; [reflexivity|]. cbn [with_st m_st m_kt m_n]. split; [exact R1|].
    split; [|auto]. unfold Io.images. cbn [m_st]. apply images_ro. exact R1.
Qed.

Lemma has_refines_st key r : holds3 (m_st m) -> Store.has s key = Ok r ->
  exists m', Io.has m key = Ok (r, m') /\ ro_step (m_st m) (m_st m') /\ Io.images m' = Io.images m /\
    m_kt m' = m_kt m /\ m_n m' = m_n m.
Proof.
  intros Hx Hg. unfold Store.has in Hg. unfold Io.has.
  destruct (Store.find s key) as [o| | |] eqn:Hf; cbn [rbind] in Hg; try discriminate Hg.
  destruct (find_refines_st key o _ Hx Hf) as (x1 & E1 & R1). rewrite E1. cbn [rbind].
  injection Hg as <-. eexists. split; [reflexivity|]. cbn [with_st m_st m_kt m_n]. split; [exact R1|].
  split; [|auto]. unfold Io.images. cbn [m_st]. apply images_ro. exact R1.
Qed.

Lemma len_refines_st : holds3 (m_st m) ->
  exists m', Io.len m = Ok (Store.len s, m') /\ ro_step (m_st m) (m_st m') /\ Io.images m' = Io.images m /\
    m_kt m' = m_kt m /\ m_n m' = m_n m.
Proof.
  intros Hx. unfold Io.len.
  destruct (read_item_count_refines _ Hx) as (x1 & E1 & R1). rewrite E1. cbn [rbind].
  eexists. split; [reflexivity|]. cbn [with_st m_st m_kt m_n]. split; [exact R1|].
  split; [|auto]. unfold Io.images. cbn [m_st]. apply images_ro. exact R1.
Qed.
End ops.

(** *** the statements on [render s] *)
Lemma refine_setup s himg kimg vimg : Inv s -> render s = Ok (himg, kimg, vimg) ->
  exists ch kfr vfr, sinv s ch /\ alloc_inv key_cfg (keyf s) kfr /\ alloc_inv val_cfg (valf s) vfr /\
    render_pfile key_cfg kslot_bytes (sig_of (kt s)) (keyf s) = Ok kimg /\
    render_pfile val_cfg vslot_bytes (sig_of (kt s)) (valf s) = Ok vimg /\
    himg = render_htx (sig_of (kt s)) (hx s).
Proof.
  intros (ch & Hinv) Hr. pose proof Hinv as [Hcore _].
  destruct (co_k _ _ _ Hcore) as [kfr Hki]. destruct (co_v _ _ _ Hcore) as [vfr Hvi].
  unfold render in Hr. cbv zeta in Hr.
  destruct (render_pfile key_cfg kslot_bytes (sig_of (kt s)) (keyf s)) as [ki| | |] eqn:Hrk;
    cbn [rbind] in Hr; try discriminate Hr.
  destruct (render_pfile val_cfg vslot_bytes (sig_of (kt s)) (valf s)) as [vi| | |] eqn:Hrv;
    cbn [rbind] in Hr; try discriminate Hr.
  injection Hr as <- <- <-. exists ch, kfr, vfr. auto 10.
Qed.

Section refines.
Context (s : store) (himg kimg vimg : bytes) (m : mp).
Hypothesis HI : Inv s.
Hypothesis Hfit : fits_ok s.
Hypothesis Hhwf : htx_wf (hx s).
Hypothesis H64 : fits64 s.
Hypothesis Hr : render s = Ok (himg, kimg, vimg).
Hypothesis Hkt : m_kt m = kt s.
Hypothesis Hn : m_n m = nb (hx s).
Hypothesis Him : Io.images m = (himg, kimg, vimg).

Theorem len_refines :
  exists m', Io.len m = Ok (Store.len s, m') /\ ro_step (m_st m) (m_st m') /\ Io.images m' = Io.images m /\
    m_kt m' = m_kt m /\ m_n m' = m_n m.
Proof.
  destruct (refine_setup s himg kimg vimg HI Hr) as (ch & kfr & vfr & Hinv & Hki & Hvi & Hrk & Hrv & ->).
  eapply len_refines_st; try eassumption.
  unfold Io.images in Him. injection Him as A B C. unfold holds3. cbn [get_file]. auto.
Qed.

Theorem find_refines key o : Store.find s key = Ok o ->
  exists st', Io.find m key (m_st m) = Ok (o, st') /\ ro_step (m_st m) st'.
Proof.
  intros Hf.
  destruct (refine_setup s himg kimg vimg HI Hr) as (ch & kfr & vfr & Hinv & Hki & Hvi & Hrk & Hrv & ->).
  eapply find_refines_st; try eassumption.
  unfold Io.images in Him. injection Him as A B C. unfold holds3. cbn [get_file]. auto.
Qed.

Theorem get_refines key r : Store.get s key = Ok r ->
  exists m', Io.get m key = Ok (r, m') /\ ro_step (m_st m) (m_st m') /\ Io.images m' = Io.images m /\
    m_kt m' = m_kt m /\ m_n m' = m_n m.
Proof.
  intros Hg.
  destruct (refine_setup s himg kimg vimg HI Hr) as (ch & kfr & vfr & Hinv & Hki & Hvi & Hrk & Hrv & ->).
  eapply get_refines_st; try eassumption.
  unfold Io.images in Him. injection Him as A B C. unfold holds3. cbn [get_file]. auto.
Qed.

Theorem has_refines key r : Store.has s key = Ok r ->
  exists m', Io.has m key = Ok (r, m') /\ ro_step (m_st m) (m_st m') /\ Io.images m' = Io.images m /\
    m_kt m' = m_kt m /\ m_n m' = m_n m.
Proof.
  intros Hg.
  destruct (refine_setup s himg kimg vimg HI Hr) as (ch & kfr & vfr & Hinv & Hki & Hvi & Hrk & Hrv & ->).
  eapply has_refines_st; try eassumption.
  unfold Io.images in Him. injection Him as A B C. unfold holds3. cbn [get_file]. auto.
Qed.
End refines.

Print Assumptions get_looks.
Print Assumptions has_looks.
Print Assumptions len_looks.
Print Assumptions iter_next_looks.
Print Assumptions iter_run_looks.
Print Assumptions stats_of_looks.
Print Assumptions key_read_piece_image.
Print Assumptions read_piece_only_payload_key_image.
Print Assumptions read_piece_only_value_offset_image.
Print Assumptions read_piece_only_bucket_next_offset_image.
Print Assumptions val_read_piece_image.
Print Assumptions read_piece_only_payload_val_image.
Print Assumptions len_refines.
Print Assumptions find_refines.
Print Assumptions get_refines.
Print Assumptions has_refines.

(** *** the same under [Load_all.wf_state] *)
From Aby Require Load_all.

Section refines_wf.
Context (s : store) (himg kimg vimg : bytes) (m : mp).
Hypothesis Hwf : Load_all.wf_state s.
Hypothesis H64 : fits64 s.
Hypothesis Hr : render s = Ok (himg, kimg, vimg).
Hypothesis Hkt : m_kt m = kt s.
Hypothesis Hn : m_n m = nb (hx s).
Hypothesis Him : Io.images m = (himg, kimg, vimg).

Theorem len_refines_wf :
  exists m', Io.len m = Ok (Store.len s, m') /\ ro_step (m_st m) (m_st m') /\ Io.images m' = Io.images m.
Proof.
  destruct Hwf as (HI & Hf & Hw).
  destruct (len_refines s himg kimg vimg m HI Hf Hw H64 Hr Him) as (m' & A & B & C & _). eauto.
Qed.

Theorem find_refines_wf key o : Store.find s key = Ok o ->
  exists st', Io.find m key (m_st m) = Ok (o, st') /\ ro_step (m_st m) st'.
Proof. destruct Hwf as (HI & Hf & Hw). exact (find_refines s himg kimg vimg m HI Hf Hw H64 Hr Hkt Hn Him key o). Qed.

Theorem get_refines_wf key r : Store.get s key = Ok r ->
  exists m', Io.get m key = Ok (r, m') /\ ro_step (m_st m) (m_st m') /\ Io.images m' = Io.images m.
Proof.
  intros Hg. destruct Hwf as (HI & Hf & Hw).
  destruct (get_refines s himg kimg vimg m HI Hf Hw H64 Hr Hkt Hn Him key r Hg) as (m' & A & B & C & _). eauto.
Qed.

Theorem has_refines_wf key r : Store.has s key = Ok r ->
  exists m', Io.has m key = Ok (r, m') /\ ro_step (m_st m) (m_st m') /\ Io.images m' = Io.images m.
Proof.
  intros Hg. destruct Hwf as (HI & Hf & Hw).
  destruct (has_refines s himg kimg vimg m HI Hf Hw H64 Hr Hkt Hn Him key r Hg) as (m' & A & B & C & _). eauto.
Qed.
End refines_wf.

Print Assumptions len_refines_wf.
Print Assumptions find_refines_wf.
Print Assumptions get_refines_wf.
Print Assumptions has_refines_wf.
