(** * Io_wsessions: two sessions with traversals and statistics calls, any buffers in each (C02 C04 C15 over the
    concrete buffer).

    [Io_sessions] continues a history across a close and a reopen with other buffer kinds, for histories of
    put / get / delete / includes_key / len / is_empty.  Here the same for the histories of [Io_wrun]: full
    traversals and statistics calls may occur in both sessions.  Create the three files (any buffer kinds),
    any such history, the bytes a flush of ANY cache leaves; open those bytes with ANY OTHER buffer kinds,
    any such history: both sessions are served by any cache in front of each file, every result is what the
    ideal map of that moment says - a traversal after the reopen yields a permutation of what was there when
    the first session ended, updated by the calls since -, and the final files are [render] of the
    record-level state. *)
From Coq Require Import Lia ZifyN ZifyNat ZifyBool.
From Aby Require Import Base Vu64 Vu64_proofs Hash KeyTypes KeyTypes_proofs Consts Sizing Alloc AllocInv Htx Htx_proofs
  Store Iter Stats Spec Refine Refine_all Layout Load Load_proofs Load_htx_proofs Load_all Cache Cache_proofs Flatx Cache_x
  Io Io_base Io_htx Io_run Io_create Io_proofs Io_open Io_flat Io_flat_ro Io_cache Io_flat_upd Io_durable Io_sessions Io_wrun Io_wrun_cache.
Import Io.
#[local] Open Scope N_scope.

(** the open and a history after it: one in-domain step from the files as they were found *)
Theorem wsession_after_open_in_domain s1 sp h k v bk' bv' bh' ops2 :
  wf_state s1 -> represents s1 sp -> render s1 = Ok (h, k, v) ->
  pow2 (nb (hx s1)) -> hend (hx s1) <= table_end (nb (hx s1)) + 1 ->
  Forall (wop_wf (kt s1)) ops2 -> wsized s1 ops2 ->
  exists m1 st1 s2 m2 outs,
    open_existing (kt s1) (reopen_st k v h bk' bv' bh') = Ok (Opened m1, st1) /\
    wstore_run s1 ops2 = Ok (s2, outs) /\ wio_run m1 ops2 = Ok (m2, outs) /\
    wagree_run sp ops2 outs /\
    render s2 = Ok (Io.images m2) /\ represents s2 (wspec_run sp ops2) /\ wf_state s2 /\
    in_domain (reopen_st k v h bk' bv' bh') (m_st m2).
Proof.
  intros Hwf Hrep Hr Hpn He Hops Hsz.
  destruct (wsized_here _ _ Hsz) as [H64 _].
  destruct (open_existing_in_domain s1 h k v (reopen_st k v h bk' bv' bh') Hwf H64 Hr
              (reopen_st_images k v h bk' bv' bh') (reopen_st_chunks k v h bk' bv' bh') Hpn He)
    as (m1 & st1 & E & Hst & Hd0 & _ & Hsim & Hcm & _).
  destruct (wio_run_in_domain ops2 s1 sp m1 Hwf Hrep Hsim Hops Hsz Hcm)
    as (s2 & m2 & outs & Hrun & Hio & (Hr2 & _) & Hwf2 & HR2 & _ & Hd).
  exists m1, st1, s2, m2, outs. split; [exact E|]. split; [exact Hrun|]. split; [exact Hio|].
  split; [exact (wstore_run_agrees ops2 s1 sp s2 outs Hwf Hrep Hops Hsz Hrun)|].
  split; [exact Hr2|]. split; [exact HR2|]. split; [exact Hwf2|].
  rewrite Hst in Hd. exact (in_domain_trans _ _ _ Hd0 Hd).
Qed.

(** what a history from [create] leaves for the next session *)
Lemma wrun_from_create_facts t n bk bv bh ops :
  1 <= n -> pow2 n -> Forall (wop_wf t) ops -> wsized (Store.create t n) ops ->
  exists m0 m' s' outs,
    Io.create t n bk bv bh = Ok m0 /\
    wstore_run (Store.create t n) ops = Ok (s', outs) /\ wio_run m0 ops = Ok (m', outs) /\
    wagree_run ∅ ops outs /\
    render s' = Ok (Io.images m') /\ wf_state s' /\ represents s' (wspec_run ∅ ops) /\ kt s' = t /\
    pow2 (nb (hx s')) /\ hend (hx s') <= table_end (nb (hx s')) + 1 /\
    in_domain (empty_st bk bv bh) (m_st m').
Proof.
  intros Hn Hpn Hops Hsz.
  destruct (create_refines t n bk bv bh Hn) as (m0 & Hc & Hr & Hkt & Hmn & Hcs).
  destruct (create_closed t n Hn) as [_ HR0].
  pose proof (Load_all.wf_state_create t n Hn) as Hwf0.
  assert (Hsim : simg (Store.create t n) m0).
  { unfold simg. split; [exact Hr|]. split; [exact Hkt|]. split; [exact Hmn|]. split; apply Hcs. }
  pose proof (create_in_domain t n bk bv bh m0 Hc) as Hd0.
  assert (Hfcs : fcs (get_file (m_st m0) FHtx) = chunk_of htx_chunk_size bh) by (rewrite (in_domain_fcs _ _ FHtx Hd0); reflexivity).
  destruct (pow2_chunk_of bh) as [Hp2 Hge].
  assert (Hcm : crate_map (Store.create t n) m0).
  { unfold crate_map. rewrite Hmn, Hfcs. split; [exact Hpn|]. split; [exact Hp2|]. split; [exact Hge|].
    exact (proj2 (hwfe_create n Hn)). }
  assert (Hops' : Forall (wop_wf (kt (Store.create t n))) ops) by exact Hops.
  destruct (wio_run_in_domain ops _ ∅ m0 Hwf0 HR0 Hsim Hops' Hsz Hcm) as (s' & m' & outs & Hrun & Hio & Hsim' & Hwf' & HR' & Hcm' & Hd).
  destruct (wio_run_refines ops _ ∅ m0 Hwf0 HR0 Hsim Hops' Hsz) as (s2 & m2 & outs2 & Hrun2 & _ & _ & _ & _ & Hkt2 & _).
  rewrite Hrun in Hrun2. injection Hrun2 as <- _.
  destruct Hsim' as (Hr' & _ & Hn' & _). destruct Hcm' as (Hpn' & _ & _ & He').
  exists m0, m', s', outs. split; [exact Hc|]. split; [exact Hrun|]. split; [exact Hio|].
  split; [exact (wstore_run_agrees ops _ ∅ s' outs Hwf0 HR0 Hops' Hsz Hrun)|].
  split; [exact Hr'|]. split; [exact Hwf'|]. split; [exact HR'|]. split; [exact Hkt2|].
  split; [rewrite <- Hn'; exact Hpn'|]. split; [exact He'|]. exact (in_domain_trans _ _ _ Hd0 Hd).
Qed.

(** THEOREM.  Two sessions, any buffers in each, traversals and statistics calls anywhere. *)
Theorem two_wsessions_over_any_buffer t n bk bv bh ops1 bk' bv' bh' ops2 :
  1 <= n -> pow2 n -> Forall (wop_wf t) ops1 -> wsized (Store.create t n) ops1 ->
  Forall (wop_wf t) ops2 ->
  (forall s1 o1, wstore_run (Store.create t n) ops1 = Ok (s1, o1) -> wsized s1 ops2) ->
  exists s1 outs1 m0 m1 mo st1 s2 outs2 m2,
    let sp1 := wspec_run ∅ ops1 in
    let st0 := reopen_st (fb (s_key (m_st m1))) (fb (s_val (m_st m1))) (fb (s_htx (m_st m1))) bk' bv' bh' in
    (* the first session *)
    Io.create t n bk bv bh = Ok m0 /\
    wstore_run (Store.create t n) ops1 = Ok (s1, outs1) /\ wio_run m0 ops1 = Ok (m1, outs1) /\
    wagree_run ∅ ops1 outs1 /\ render s1 = Ok (Io.images m1) /\
    (exists cf1, forall f, served_by_cache (empty_st bk bv bh) (m_st m1) f (cf1 f)) /\
    (* the second session, on exactly those bytes *)
    open_existing t st0 = Ok (Opened mo, st1) /\
    wstore_run s1 ops2 = Ok (s2, outs2) /\ wio_run mo ops2 = Ok (m2, outs2) /\
    wagree_run sp1 ops2 outs2 /\ render s2 = Ok (Io.images m2) /\
    (exists cf2, forall f, served_by_cache st0 (m_st m2) f (cf2 f)) /\
    wf_state s2 /\ represents s2 (wspec_run sp1 ops2).
Proof.
  intros Hn Hpn Hops1 Hsz1 Hops2 Hsz2. cbv zeta.
  destruct (wrun_from_create_facts t n bk bv bh ops1 Hn Hpn Hops1 Hsz1)
    as (m0 & m1 & s1 & outs1 & Hc & Hrun1 & Hio1 & Hag1 & Hr1 & Hwf1 & Hrep1 & Hkt1 & Hpn1 & He1 & Hd1).
  assert (Him1 : Io.images m1 = (fb (s_htx (m_st m1)), fb (s_key (m_st m1)), fb (s_val (m_st m1)))) by reflexivity.
  rewrite Him1 in Hr1.
  assert (Hops2' : Forall (wop_wf (kt s1)) ops2) by (rewrite Hkt1; exact Hops2).
  destruct (wsession_after_open_in_domain s1 (wspec_run ∅ ops1) _ _ _ bk' bv' bh' ops2 Hwf1 Hrep1 Hr1 Hpn1 He1 Hops2' (Hsz2 _ _ Hrun1))
    as (mo & st1 & s2 & m2 & outs2 & Eo & Hrun2 & Hio2 & Hag2 & Hr2 & Hrep2 & Hwf2 & Hd2).
  rewrite Hkt1 in Eo.
  exists s1, outs1, m0, m1, mo, st1, s2, outs2, m2.
  split; [exact Hc|]. split; [exact Hrun1|]. split; [exact Hio1|]. split; [exact Hag1|].
  split; [rewrite Him1; exact Hr1|].
  split; [destruct (in_domain_served _ _ Hd1) as (cf1 & evs & _ & _ & Hs); exists cf1; exact Hs|].
  split; [exact Eo|]. split; [exact Hrun2|]. split; [exact Hio2|]. split; [exact Hag2|]. split; [exact Hr2|].
  split; [destruct (in_domain_served _ _ Hd2) as (cf2 & evs & _ & _ & Hs); exists cf2; exact Hs|].
  split; [exact Hwf2|exact Hrep2].
Qed.

Print Assumptions two_wsessions_over_any_buffer.
