(** * Io_ro_sessions: a read-only session leaves the three files byte for byte what they were,
    at byte level over the concrete buffer (C15).

    [Io_sessions.two_sessions_over_any_buffer]: create, a history, the bytes a flush of any cache
    leaves on the disk, reopen with any other buffer kinds, a second history, flush.  When the
    second history contains no updating call ([Io_det.is_update]: it may be empty - "flush on an
    unmodified map" - or any sequence of get / includes_key / len / is_empty, absent keys included)
    the record-level state after it is the state before it ([Io_det.read_only_step]), so the three
    files the second flush leaves are the three files the first flush left: whatever the buffer
    kinds of either session, whatever caches stand in front of the files (the I/O of the read-only
    calls - and of the open - is served by them: reads and seeks only, no dirty chunk is written
    back with other bytes, no file is extended). *)
From Coq Require Import Lia ZifyN ZifyNat ZifyBool.
From Aby Require Import Base Vu64 Vu64_proofs Hash KeyTypes KeyTypes_proofs Consts Sizing Alloc AllocInv Htx Htx_proofs
  Store Iter Stats Spec Refine Refine_all Layout Load Load_proofs Load_htx_proofs Load_all Cache Cache_proofs Flatx Cache_x
  Io Io_base Io_htx Io_run Io_create Io_proofs Io_open Io_flat Io_flat_ro Io_cache Io_flat_upd Io_durable Io_sessions Io_det.
Import Io.
#[local] Open Scope N_scope.

Lemma read_only_run ops : forall s s' outs,
  Forall (fun o => is_update o = false) ops -> store_run s ops = Ok (s', outs) -> s' = s.
Proof.
  induction ops as [|o ops IH]; intros s s' outs Hro H; cbn [store_run] in H.
  - injection H as <- _. reflexivity.
  - inversion Hro as [|? ? Ho Hrest]; subst.
    destruct (store_step s o) as [[s1 r]| | |] eqn:E1; cbn [rbind] in H; try discriminate.
    destruct (store_run s1 ops) as [[s2 rs]| | |] eqn:E2; cbn [rbind] in H; try discriminate.
    injection H as <- _. rewrite (IH _ _ _ Hrest E2). exact (read_only_step s o s1 r Ho E1).
Qed.

(** THEOREM.  Create (any buffer kinds), any history [ops1], flush through ANY caches: the disk
    holds [dk], [dv], [dh].  Open those bytes with ANY OTHER buffer kinds, make any read-only calls
    [ops2], flush through ANY caches: the disk holds [dk], [dv], [dh] again, and every call of
    [ops2] returned what the ideal map after [ops1] returns. *)
Theorem read_only_session_keeps_the_files t n bk bv bh ops1 bk' bv' bh' ops2 :
  1 <= n -> pow2 n -> Forall (op_wf t) (ops1 ++ ops2) -> sized (Store.create t n) (ops1 ++ ops2) ->
  Forall (fun o => is_update o = false) ops2 ->
  exists s1 (cf1 cf2 : fid -> list call),
    store_run (Store.create t n) ops1 = Ok (s1, snd (spec_run ∅ ops1)) /\
    store_run s1 ops2 = Ok (s1, snd (spec_run (fst (spec_run ∅ ops1)) ops2)) /\
    forall ck cv ch fuel,
      backs ck (get_file (empty_st bk bv bh) FKey) ->
      backs cv (get_file (empty_st bk bv bh) FVal) ->
      backs ch (get_file (empty_st bk bv bh) FHtx) ->
      (forall f c, In (f, c) [(FKey, ck); (FVal, cv); (FHtx, ch)] ->
         (xrun_fuel (Rabuf.k_cs c) (flat_of (get_file (empty_st bk bv bh) f)) (map call_op (cf1 f)) <= fuel)%nat) ->
      exists dk dv dh,
        flushed_disk fuel ck (cf1 FKey) = Ok dk /\
        flushed_disk fuel cv (cf1 FVal) = Ok dv /\
        flushed_disk fuel ch (cf1 FHtx) = Ok dh /\
        render s1 = Ok (dh, dk, dv) /\
        forall ck' cv' ch' fuel',
          backs ck' (get_file (reopen_st dk dv dh bk' bv' bh') FKey) ->
          backs cv' (get_file (reopen_st dk dv dh bk' bv' bh') FVal) ->
          backs ch' (get_file (reopen_st dk dv dh bk' bv' bh') FHtx) ->
          (forall f c, In (f, c) [(FKey, ck'); (FVal, cv'); (FHtx, ch')] ->
             (xrun_fuel (Rabuf.k_cs c) (flat_of (get_file (reopen_st dk dv dh bk' bv' bh') f)) (map call_op (cf2 f))
                <= fuel')%nat) ->
          flushed_disk fuel' ck' (cf2 FKey) = Ok dk /\
          flushed_disk fuel' cv' (cf2 FVal) = Ok dv /\
          flushed_disk fuel' ch' (cf2 FHtx) = Ok dh.
Proof.
  intros Hn Hpn Hops Hsz Hro.
  destruct (two_sessions_over_any_buffer t n bk bv bh ops1 bk' bv' bh' ops2 Hn Hpn Hops Hsz)
    as (s1 & s2 & m0 & m1 & mo & st1 & m2 & H). cbv zeta in H.
  destruct H as (Hc & Hrun1 & Hio1 & Hr1 & (cf1 & Hs1) & Eo & Hrun2 & Hio2 & Hr2 & (cf2 & Hs2) & Hwf2 & H64 & Hrep & Hrun).
  pose proof (read_only_run ops2 s1 s2 _ Hro Hrun2) as ->.
  exists s1, cf1, cf2. split; [exact Hrun1|]. split; [exact Hrun2|].
  intros ck cv ch fuel Bk Bv Bh Hfuel.
  exists (fb (s_key (m_st m1))), (fb (s_val (m_st m1))), (fb (s_htx (m_st m1))).
  split; [apply (served_flushed _ _ _ _ _ _ (Hs1 FKey) Bk); apply (Hfuel FKey ck); cbn; auto|].
  split; [apply (served_flushed _ _ _ _ _ _ (Hs1 FVal) Bv); apply (Hfuel FVal cv); cbn; auto|].
  split; [apply (served_flushed _ _ _ _ _ _ (Hs1 FHtx) Bh); apply (Hfuel FHtx ch); cbn; auto|].
  assert (Him1 : Io.images m1 = (fb (s_htx (m_st m1)), fb (s_key (m_st m1)), fb (s_val (m_st m1)))) by reflexivity.
  split; [rewrite <- Him1; exact Hr1|].
  assert (Him2 : Io.images m2 = (fb (get_file (m_st m2) FHtx), fb (get_file (m_st m2) FKey), fb (get_file (m_st m2) FVal)))
    by reflexivity.
  assert (Heq : Io.images m2 = Io.images m1) by congruence.
  rewrite Him1, Him2 in Heq. injection Heq as Eh Ek Ev.
  intros ck' cv' ch' fuel' Bk' Bv' Bh' Hfuel'.
  rewrite <- Ek, <- Ev, <- Eh.
  split; [apply (served_flushed _ _ _ _ _ _ (Hs2 FKey) Bk'); apply (Hfuel' FKey ck'); cbn; auto|].
  split; [apply (served_flushed _ _ _ _ _ _ (Hs2 FVal) Bv'); apply (Hfuel' FVal cv'); cbn; auto|].
  apply (served_flushed _ _ _ _ _ _ (Hs2 FHtx) Bh'); apply (Hfuel' FHtx ch'); cbn; auto.
Qed.

(** non-vacuity: the hypotheses hold for the history of Io_proofs.v followed by lookups of a
    present and an absent key, a membership test and the two length calls *)
Definition ex_ro : list dop := [Get [7]; Get [1; 2]; Has [5]; Len; IsEmpty].
Example read_only_session_hypotheses :
  1 <= 4 /\ pow2 4 /\ Forall (op_wf KBytes) (Io_proofs.ex_ops ++ ex_ro) /\
  sized (Store.create KBytes 4) (Io_proofs.ex_ops ++ ex_ro) /\ Forall (fun o => is_update o = false) ex_ro.
Proof.
  split; [lia|]. split; [exists 2; reflexivity|].
  split; [repeat constructor; cbn; try lia; try discriminate|].
  split; [apply sizedb_ok; vm_compute; reflexivity|repeat constructor].
Qed.

Print Assumptions read_only_session_keeps_the_files.
