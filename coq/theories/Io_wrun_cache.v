(** * Io_wrun_cache: histories with traversals and statistics calls ([Io_wrun]) over ANY buffer.

    [Io_flat_upd.history_over_any_cache] is about histories of put / get / delete / includes_key /
    len / is_empty.  A full traversal and the statistics calls are read-only steps of the
    strengthened kind ([Io_flat_ro]: every read ends inside its file or within the slack of the
    bitmap stride) and therefore inside the domain of the buffer-cache theorem as well.  So:
    creation plus ANY history of calls, traversals and statistics, issued against ANY cache in
    front of each of the three files, is served with the results of the flat files, and a flush
    puts exactly [render] of the record-level state on the disk. *)
From Coq Require Import Lia ZifyN ZifyNat ZifyBool.
From Aby Require Import Base Vu64 Hash KeyTypes Consts Sizing Alloc AllocInv Htx Store Iter Iter_proofs Stats Stats_proofs Spec Refine Refine_all
  Layout Load Load_all Cache Cache_proofs Flatx Cache_x Io Io_base Io_htx Io_run Io_create Io_proofs Io_open Io_flat Io_flat_ro Io_cache Io_flat_upd
  Io_durable Io_wrun.
Import Io.
#[local] Open Scope N_scope.

Lemma wio_step_in_domain s sp m o s1 r :
  wf_state s -> represents s sp -> simg s m -> wop_wf (kt s) o -> fits64 s -> room s ->
  crate_map s m ->
  wstore_step s o = Ok (s1, r) ->
  exists m1, wio_step m o = Ok (m1, r) /\ simg s1 m1 /\
    wf_state s1 /\ represents s1 (wspec_step sp o) /\ kt s1 = kt s /\
    crate_map s1 m1 /\ in_domain (m_st m) (m_st m1).
Proof.
  intros Hwf HR Hsim Hw H64 Hroom Hcm Hs.
  destruct o as [o| |]; cbn [wstore_step wio_step wop_wf wspec_step] in *.
  - destruct (store_step s o) as [[s' r0]| | |] eqn:E; cbn [rbind] in Hs; try discriminate. injection Hs as <- <-.
    destruct (io_step_in_domain s sp m o s' r0 Hwf HR Hsim Hw H64 Hroom Hcm E) as (m1 & Hio & Hsim1 & Hwf1 & HR1 & Hkt1 & _ & Hcm1 & Hd).
    exists m1. rewrite Hio. cbn [rbind]. auto 10.
  - destruct (Iter.iter_run s) as [[[items h] ex]| | |] eqn:E; cbn [rbind] in Hs; try discriminate. injection Hs as <- <-.
    cbn [fst snd].
    pose proof Hsim as (Hr & Hkt & Hn & Hck & Hcv). destruct Hcm as (Hpn & Hpc & Hc & He).
    destruct (images_eta m) as (hi & ki & vi & Him). rewrite Him in Hr.
    destruct (readonly_calls_in_domain s hi ki vi m Hwf H64 Hr Hkt Hn Him Hpn Hpc Hc He) as (_ & _ & _ & Hit & _).
    destruct (Hit items h ex E) as (m' & Hg & Hd & Hi').
    exists m'. rewrite Hg. cbn [rbind fst snd]. split; [reflexivity|].
    assert (m_kt m' = m_kt m /\ m_n m' = m_n m) as [Ek En] by (apply (iter_run_looks m _ m' Hg)).
    split.
    { unfold simg. rewrite Hi', Him, Ek, En, !(in_domain_fcs _ _ _ Hd). auto. }
    split; [exact Hwf|]. split; [exact HR|]. split; [reflexivity|].
    split; [|exact Hd].
    unfold crate_map. rewrite En, (in_domain_fcs _ _ FHtx Hd). auto.
  - destruct (Stats.stats_of s) as [st| | |] eqn:E; cbn [rbind] in Hs; try discriminate. injection Hs as <- <-.
    pose proof Hsim as (Hr & Hkt & Hn & Hck & Hcv). destruct Hcm as (Hpn & Hpc & Hc & He).
    destruct (images_eta m) as (hi & ki & vi & Him). rewrite Him in Hr.
    destruct (readonly_calls_in_domain s hi ki vi m Hwf H64 Hr Hkt Hn Him Hpn Hpc Hc He) as (_ & _ & _ & _ & Hst).
    destruct (Hst st E) as (m' & Hg & Hd & Hi').
    exists m'. rewrite Hg. cbn [rbind]. split; [reflexivity|].
    assert (m_kt m' = m_kt m /\ m_n m' = m_n m) as [Ek En] by (apply (stats_of_looks m _ m' Hg)).
    split.
    { unfold simg. rewrite Hi', Him, Ek, En, !(in_domain_fcs _ _ _ Hd). auto. }
    split; [exact Hwf|]. split; [exact HR|]. split; [reflexivity|].
    split; [|exact Hd].
    unfold crate_map. rewrite En, (in_domain_fcs _ _ FHtx Hd). auto.
Qed.

Theorem wio_run_in_domain ops : forall s sp m,
  wf_state s -> represents s sp -> simg s m -> Forall (wop_wf (kt s)) ops -> wsized s ops ->
  crate_map s m ->
  exists s' m' outs,
    wstore_run s ops = Ok (s', outs) /\ wio_run m ops = Ok (m', outs) /\ simg s' m' /\ wf_state s' /\
    represents s' (wspec_run sp ops) /\ crate_map s' m' /\ in_domain (m_st m) (m_st m').
Proof.
  induction ops as [|o ops IH]; intros s sp m Hwf HR Hsim Hw Hsz Hcm.
  - exists s, m, []. cbn. repeat (split; [solve [auto]|]). apply in_domain_refl.
  - inversion Hw as [|? ? Ho Hops]; subst.
    destruct (wsized_here _ _ Hsz) as [H64 Hroom].
    destruct (wstore_step_total s sp o Hwf HR Ho) as (s1 & r & E1).
    destruct (wio_step_in_domain s sp m o s1 r Hwf HR Hsim Ho H64 Hroom Hcm E1) as (m1 & Hio & Hsim1 & Hwf1 & HR1 & Hkt1 & Hcm1 & Hd1).
    assert (Hsz1 : wsized s1 ops) by (cbn [wsized] in Hsz; destruct Hsz as (_ & _ & H); exact (H s1 r E1)).
    rewrite <- Hkt1 in Hops.
    destruct (IH s1 _ m1 Hwf1 HR1 Hsim1 Hops Hsz1 Hcm1) as (s2 & m2 & rs & Hrun2 & Hio2 & Hsim2 & Hwf2 & HR2 & Hcm2 & Hd2).
    exists s2, m2, (r :: rs). cbn [wstore_run wio_run]. rewrite E1, Hio. cbn [rbind]. rewrite Hrun2, Hio2. cbn [rbind].
    split; [reflexivity|]. split; [reflexivity|]. split; [exact Hsim2|]. split; [exact Hwf2|].
    split; [exact HR2|]. split; [exact Hcm2|]. exact (in_domain_trans _ _ _ Hd1 Hd2).
Qed.

(** creation and ANY history of calls, traversals and statistics: served by any cache in front of each file; flushing the three
    buffers leaves [render] of the record-level state on the disk *)
Theorem whistory_over_any_cache t n bk bv bh ops :
  1 <= n -> pow2 n -> Forall (wop_wf t) ops -> wsized (Store.create t n) ops ->
  exists m0 m' s' outs,
    Io.create t n bk bv bh = Ok m0 /\
    wstore_run (Store.create t n) ops = Ok (s', outs) /\
    wio_run m0 ops = Ok (m', outs) /\
    wagree_run ∅ ops outs /\
    render s' = Ok (Io.images m') /\
    exists cf, forall f, served_by_cache (empty_st bk bv bh) (m_st m') f (cf f).
Proof.
  intros Hn Hpn Hops Hsz.
  destruct (create_refines t n bk bv bh Hn) as (m0 & Hc & Hr & Hkt & Hmn & Hcs).
  destruct (create_closed t n Hn) as [_ HR0].
  pose proof (Load_all.wf_state_create t n Hn) as Hwf0.
  assert (Hsim : simg (Store.create t n) m0).
  { unfold simg. split; [exact Hr|]. split; [exact Hkt|]. split; [exact Hmn|]. split; apply Hcs. }
  pose proof (create_in_domain t n bk bv bh m0 Hc) as Hd0.
  assert (Hfcs : fcs (get_file (m_st m0) FHtx) = chunk_of htx_chunk_size bh) by (rewrite (in_domain_fcs _ _ FHtx Hd0); reflexivity).
  destruct (pow2_chunk_of bh) as [Hp2 Hge].
  assert (Hcm : crate_map (Store.create t n) m0).
  { unfold crate_map. rewrite Hmn, Hfcs. split; [exact Hpn|]. split; [exact Hp2|]. split; [exact Hge|].
    exact (proj2 (hwfe_create n Hn)). }
  assert (Hops' : Forall (wop_wf (kt (Store.create t n))) ops) by exact Hops.
  destruct (wio_run_in_domain ops _ ∅ m0 Hwf0 HR0 Hsim Hops' Hsz Hcm) as (s' & m' & outs & Hrun & Hio & (Hr' & _) & _ & _ & _ & Hd).
  exists m0, m', s', outs. split; [exact Hc|]. split; [exact Hrun|]. split; [exact Hio|].
  split; [exact (wstore_run_agrees ops _ ∅ s' outs Hwf0 HR0 Hops' Hsz Hrun)|]. split; [exact Hr'|].
  destruct (in_domain_served _ _ (in_domain_trans _ _ _ Hd0 Hd)) as (cf & evs & _ & _ & Hs). exists cf. exact Hs.
Qed.

Theorem whistory_flush_durable_over_any_buffer t n bk bv bh ops :
  1 <= n -> pow2 n -> Forall (wop_wf t) ops -> wsized (Store.create t n) ops ->
  exists s' outs (cf : fid -> list call),
    wstore_run (Store.create t n) ops = Ok (s', outs) /\ wagree_run ∅ ops outs /\
    forall ck cv ch fuel,
      backs ck (get_file (empty_st bk bv bh) FKey) ->
      backs cv (get_file (empty_st bk bv bh) FVal) ->
      backs ch (get_file (empty_st bk bv bh) FHtx) ->
      (forall f c, In (f, c) [(FKey, ck); (FVal, cv); (FHtx, ch)] ->
         (xrun_fuel (Rabuf.k_cs c) (flat_of (get_file (empty_st bk bv bh) f)) (map call_op (cf f)) <= fuel)%nat) ->
      exists dk dv dh,
        flushed_disk fuel ck (cf FKey) = Ok dk /\
        flushed_disk fuel cv (cf FVal) = Ok dv /\
        flushed_disk fuel ch (cf FHtx) = Ok dh /\
        render s' = Ok (dh, dk, dv).
Proof.
  intros Hn Hp Hops Hsz.
  destruct (whistory_over_any_cache t n bk bv bh ops Hn Hp Hops Hsz) as (m0 & m' & s' & outs & Hc & Hrun & Hio & Hag & Hr & cf & Hs).
  exists s', outs, cf. split; [exact Hrun|]. split; [exact Hag|].
  intros ck cv ch fuel Bk Bv Bh Hfuel.
  exists (fb (get_file (m_st m') FKey)), (fb (get_file (m_st m') FVal)), (fb (get_file (m_st m') FHtx)).
  split; [apply (served_flushed _ _ _ _ _ _ (Hs FKey) Bk); apply (Hfuel FKey ck); cbn; auto|].
  split; [apply (served_flushed _ _ _ _ _ _ (Hs FVal) Bv); apply (Hfuel FVal cv); cbn; auto|].
  split; [apply (served_flushed _ _ _ _ _ _ (Hs FHtx) Bh); apply (Hfuel FHtx ch); cbn; auto|].
  exact Hr.
Qed.

Print Assumptions whistory_over_any_cache.
Print Assumptions whistory_flush_durable_over_any_buffer.
